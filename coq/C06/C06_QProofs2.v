(* C06_QProofs2.v — qrwlock: spin ownership, wake bookkeeping, and the no-lost-wake invariant,
   over EVERY schedule. *)
From Coq Require Import ZArith Lia List Bool Arith.
From PV Require Import Base.U64 C06.C06_Model C06.C06_RWProofs C06.C06_QModel C06.C06_QProofs.
Import ListNotations.
Local Open Scope Z_scope.

Record QB (s : qrw) : Prop := mkQB {
  qb_s1 : forall t, spin_pc (qp (qthr s t)) = true -> spin s = Some t;
  qb_s2 : forall t, spin s = Some t -> spin_pc (qp (qthr s t)) = true;
  qb_wk : forall t w, qwake (qthr s t) = Some w -> wake_pc (qp (qthr s t)) = true;
  qb_qu : forall h, In h (qu s) -> (qp (qthr s h) = QDefer \/ qp (qthr s h) = QSleep) /\ qwake (qthr s h) = None;
  qb_qs : forall h, In h (qs s) -> (qp (qthr s h) = QDefer \/ qp (qthr s h) = QSleep) /\ qwake (qthr s h) = None;
  qb_ndu : NoDup (qu s);
  qb_nds : NoDup (qs s);
  qb_dis : forall h, In h (qu s) -> In h (qs s) -> False
}.

Lemma QB0 : QB qrw0.
Proof. constructor; simpl; try (intros; discriminate); try tauto; constructor. Qed.

Lemma QB_step s l s' : QB s -> qstep s l = Some s' -> QB s'.
Proof.
  intros [H1 H2 Hwk Hqu Hqs Hndu Hnds Hdis] Hstep.
  qstep_cases Hstep; qthr_simp.
  all: constructor; simpl.
  all: try solve [assumption].
  all: try solve [pw_intro x Hx t; [simpl in Hx; try discriminate Hx | apply H1; exact Hx]].
  (* s2 *)
  all: try solve [pw_intro x Hx t; [first [reflexivity | (apply H2 in Hx; rewrite E in Hx; discriminate Hx)] | apply H2; exact Hx]].
  all: try solve [intros x Hx; inversion Hx; subst; rewrite upd_same; reflexivity].
  all: try solve [intros x Hx; discriminate Hx].
  (* s1 *)
  all: try solve [pw_intro x Hx t; [first [reflexivity | apply H1; rewrite E; reflexivity | simpl in Hx; discriminate Hx]
                                   | first [apply H1; exact Hx
                                           | exfalso; apply H1 in Hx; congruence
                                           | exfalso; apply H1 in Hx; assert (spin s = Some t) by (apply H1; rewrite E; reflexivity); congruence ]]].
  (* wk *)
  all: try solve [intros x w'; unfold upd; destruct (Nat.eqb_spec x t) as [->|?]; simpl; intros Hx;
                  [first [discriminate Hx | reflexivity | (apply Hwk in Hx; rewrite E in Hx; discriminate Hx)] | eapply Hwk; exact Hx]].
  (* queues *)
  all: try solve [intros h Hin; first [destruct (Hqu _ Hin) as [Hp Hw] | destruct (Hqs _ Hin) as [Hp Hw]];
                  unfold upd; destruct (Nat.eqb_spec h t) as [->|?]; simpl; [|split; assumption];
                  first [ exfalso; rewrite E in Hp; destruct Hp; discriminate
                        | split; [right; reflexivity | assumption]
                        | exfalso; congruence ]].
  all: try match goal with Es : spin ?s0 = _ |- context [spin ?s0] => rewrite Es end.
  (* A: try_fn of either path *)
  all: try solve [pw_intro x Hx t; [|apply H1; exact Hx]; apply H1; rewrite E; destruct slow; simpl in *; try discriminate; reflexivity].
  all: try solve [pw_intro x Hx t; [|apply H2; exact Hx]; apply H2 in Hx; rewrite E in Hx; destruct slow; simpl in *; congruence].
  (* B/E: spinning *)
  all: try solve [pw_intro x Hx t; [simpl in Hx; discriminate Hx | apply H1; exact Hx]].
  all: try solve [pw_intro x Hx t; [apply H2 in Hx; rewrite E in Hx; simpl in Hx; discriminate Hx | apply H2; exact Hx]].
  all: try solve [intros x w; unfold upd; destruct (Nat.eqb_spec x t) as [->|?]; simpl; intros Hx; [|eapply Hwk; exact Hx];
                  first [ congruence
                        | apply Hwk in Hx; rewrite E in Hx; destruct n; simpl in *; congruence ]].
  (* C: stutter *)
  all: try solve [first [exact H1 | exact H2]].
  (* only wake fields change *)
  all: try solve [intros x; unfold upd; repeat (match goal with |- context [Nat.eqb ?a ?b] => destruct (Nat.eqb_spec a b); subst; simpl end);
                  intros Hx; first [discriminate Hx | apply H1; exact Hx | apply H2; exact Hx]].
  (* queue membership facts about the woken / dequeued thread *)
  all: try match goal with
    | Hm0 : q_waiting _ _ && _ = true |- _ => apply andb_true_iff in Hm0; destruct Hm0 as [Hm0 _]
    end.
  all: try match goal with
    | Hm0 : q_waiting ?s0 ?t0 = true |- _ => unfold q_waiting in Hm0; apply orb_true_iff in Hm0;
        assert ((qp (qthr s0 t0) = QDefer \/ qp (qthr s0 t0) = QSleep) /\ qwake (qthr s0 t0) = None) as [Hpt Hwt]
          by (destruct Hm0 as [Hm0|Hm0]; apply mem_tid_In in Hm0; [apply Hqu|apply Hqs]; exact Hm0)
    end.
  all: try match goal with
    | Eq : qu ?s0 = ?h :: _ |- _ =>
        assert ((qp (qthr s0 h) = QDefer \/ qp (qthr s0 h) = QSleep) /\ qwake (qthr s0 h) = None) as [Hph Hwh]
          by (apply Hqu; left; reflexivity)
    | Eq : qs ?s0 = ?h :: _ |- _ =>
        assert ((qp (qthr s0 h) = QDefer \/ qp (qthr s0 h) = QSleep) /\ qwake (qthr s0 h) = None) as [Hph Hwh]
          by (apply Hqs; left; reflexivity)
    end.
  all: try solve [apply remove_tid_NoDup; assumption].
  all: try solve [match goal with Eq : qu ?s0 = _ |- NoDup (qu ?s0) => rewrite Eq; assumption
                                 | Eq : qs ?s0 = _ |- NoDup (qs ?s0) => rewrite Eq; assumption end].
  all: try solve [match goal with Hn : NoDup (_ :: ?l0) |- NoDup ?l0 => inversion Hn; assumption end].
  all: try solve [apply NoDup_app_iff_tail; [assumption|]; intros Hin;
                  first [destruct (Hqu _ Hin) as [Hp _] | destruct (Hqs _ Hin) as [Hp _]]; rewrite E in Hp; destruct Hp; discriminate].
  (* wake bookkeeping of the woken thread *)
  all: try solve [intros x w; unfold upd; repeat (match goal with |- context [Nat.eqb ?a ?b] => destruct (Nat.eqb_spec a b); subst; simpl end);
                  intros Hx; first [ discriminate Hx | reflexivity | eapply Hwk; exact Hx
                                   | match goal with Hp : _ = QDefer \/ _ = QSleep |- _ => destruct Hp as [Hp|Hp]; rewrite Hp; reflexivity end
                                   | eapply Hwk; eassumption ]].
  (* queues *)
  all: try solve [intros h Hin; apply in_app_or in Hin; destruct Hin as [Hin|[<-|[]]];
                  unfold upd; [destruct (Nat.eqb_spec h t) as [->|?]; simpl;
                                [split; [left; reflexivity|reflexivity] | first [apply Hqu; exact Hin|apply Hqs; exact Hin]]
                              | rewrite Nat.eqb_refl; simpl; split; [left; reflexivity|reflexivity]]].
  (* disjointness *)
  all: try solve [intros h Hu Hs; first [apply remove_tid_In in Hu | idtac]; first [apply remove_tid_In in Hs | idtac]; eapply Hdis; eauto].
  all: try solve [intros h Hu Hs; eapply Hdis; [|exact Hs];
                  match goal with Eq : qu _ = _ :: _ |- _ => right; exact Hu end].
  all: try solve [intros h Hu Hs; eapply Hdis; [exact Hu|];
                  match goal with Eq : qs _ = _ :: _ |- _ => right; exact Hs end].
  all: try solve [intros h Hu Hs; apply in_app_or in Hu; destruct Hu as [Hu|[<-|[]]]; [eapply Hdis; eauto|];
                  destruct (Hqs _ Hs) as [Hp _]; rewrite E in Hp; destruct Hp; discriminate].
  all: try solve [intros h Hu Hs; apply in_app_or in Hs; destruct Hs as [Hs|[<-|[]]]; [eapply Hdis; eauto|];
                  destruct (Hqu _ Hu) as [Hp _]; rewrite E in Hp; destruct Hp; discriminate].
  (* empty queue *)
  all: try solve [intros h Hin; exfalso;
                  match goal with Eq : qu _ = [] |- _ => first [rewrite Eq in Hin | idtac] | Eq : qs _ = [] |- _ => first [rewrite Eq in Hin | idtac] end;
                  first [destruct Hin | destruct (Hqu _ Hin) as [[]] | destruct (Hqs _ Hin) as [[]] ]].
  (* a waiter taken out by the environment *)
  all: try solve [intros h Hin;
                  assert (h <> t) as Hht by (intros ->; first [eapply (remove_tid_self_notin t (qu s)); eassumption
                                                                | eapply (remove_tid_self_notin t (qs s)); eassumption]);
                  apply remove_tid_In in Hin; unfold upd; destruct (Nat.eqb_spec h t) as [?|_]; [contradiction|];
                  first [apply Hqu; exact Hin | apply Hqs; exact Hin]].
  - intros x; unfold upd; destruct (Nat.eqb_spec x t) as [->|?]; simpl; intros Hx;
      [apply H1; rewrite E; reflexivity | destruct (Nat.eqb_spec x t0) as [->|?]; simpl in Hx; apply H1; exact Hx].
  - intros x Hx; unfold upd; destruct (Nat.eqb_spec x t) as [->|?]; simpl;
      [reflexivity | destruct (Nat.eqb_spec x t0) as [->|?]; simpl; apply H2; exact Hx].
  - assert (t <> t0) as Htt by (intros ->; rewrite E in Hph; destruct Hph; discriminate).
    intros x w'; unfold upd. destruct (Nat.eqb_spec x t) as [->|?]; simpl.
    + destruct (Nat.eqb_spec t t0); [contradiction|]. intros Hx. apply Hwk in Hx. rewrite E in Hx. discriminate Hx.
    + destruct (Nat.eqb_spec x t0) as [->|?]; simpl; intros Hx; [|eapply Hwk; exact Hx].
      destruct Hph as [Hp|Hp]; rewrite Hp; reflexivity.
  - assert (t <> t0) as Htt by (intros ->; rewrite E in Hph; destruct Hph; discriminate).
    intros h Hin. inversion Hndu; subst.
    assert (h <> t0) by (intros ->; contradiction).
    destruct (Hqu h (or_intror Hin)) as [Hp Hw].
    assert (h <> t) by (intros ->; rewrite E in Hp; destruct Hp; discriminate).
    rewrite !upd_other by assumption. split; assumption.
  - assert (t <> t0) as Htt by (intros ->; rewrite E in Hph; destruct Hph; discriminate).
    intros h Hin.
    assert (h <> t0) by (intros ->; eapply Hdis; [left; reflexivity|exact Hin]).
    destruct (Hqs h Hin) as [Hp Hw].
    assert (h <> t) by (intros ->; rewrite E in Hp; destruct Hp; discriminate).
    rewrite !upd_other by assumption. split; assumption.
  - intros h _ Hs. rewrite E0 in Hs. destruct Hs.
  - intros h Hin.
    assert (h <> t0) by (intros ->; eapply Hdis; [exact Hin|left; reflexivity]).
    rewrite upd_other by assumption. apply Hqu. exact Hin.
  - intros h Hin. inversion Hnds; subst.
    assert (h <> t0) by (intros ->; contradiction).
    rewrite upd_other by assumption. apply Hqs. right. exact Hin.
Qed.

Lemma qreach_QB s : qreach s -> QB s.
Proof. induction 1; [exact QB0|eapply QB_step; eauto]. Qed.

