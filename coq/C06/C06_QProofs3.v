(* C06_QProofs3.v — qrwlock: no lost wake-up, over EVERY schedule. *)
From Coq Require Import ZArith Lia List Bool Arith.
From PV Require Import Base.U64 C06.C06_Model C06.C06_RWProofs C06.C06_QModel C06.C06_QProofs C06.C06_QProofs2.
Import ListNotations.
Local Open Scope Z_scope.

(* an unlock() that has brought lock_state to 0 and has not finished try_wake() *)
Definition waker_pc (p : qpc) : bool :=
  match p with QSpinX NShared | QSpinL NShared | QWakeU | QWakeS => true | _ => false end.
(* a waiter that holds `spin` and is about to (re-)try *)
Definition retry_pc (p : qpc) : bool :=
  match p with QTry true | QCas true _ => true | _ => false end.
Definition qwaker (s : qrw) : Prop := exists u, waker_pc (qp (qthr s u)) = true.
Definition qretrier (s : qrw) : Prop :=
  exists a, qwake (qthr s a) = Some WNotify \/ retry_pc (qp (qthr s a)) = true.

Record NL (s : qrw) : Prop := mkNL {
  nl_main : qu s <> [] \/ qs s <> [] -> ls s <> 0 \/ qwaker s \/ qretrier s;
  nl_enq : forall t, qp (qthr s t) = QEnq -> ls s <> 0 \/ qwaker s;
  nl_ws : forall t, qp (qthr s t) = QWakeS -> qu s = []
}.

Lemma NL0 : NL qrw0.
Proof. constructor; simpl; try (intros; discriminate). intros [H|H]; tauto. Qed.

Lemma qwaker_upd s t x a b c d e f :
  qwaker s -> (waker_pc (qp (qthr s t)) = true -> waker_pc (qp x) = true) ->
  qwaker (mkQ a b c d (upd (qthr s) t x) e f).
Proof.
  intros [u Hu] H. destruct (Nat.eq_dec u t) as [->|Hne].
  - exists t. simpl. rewrite upd_same. auto.
  - exists u. simpl. rewrite upd_other by exact Hne. exact Hu.
Qed.

Lemma qretrier_upd s t x a b c d e f :
  qretrier s ->
  (qwake (qthr s t) = Some WNotify \/ retry_pc (qp (qthr s t)) = true ->
   qwake x = Some WNotify \/ retry_pc (qp x) = true) ->
  qretrier (mkQ a b c d (upd (qthr s) t x) e f).
Proof.
  intros [u Hu] H. destruct (Nat.eq_dec u t) as [->|Hne].
  - exists t. simpl. rewrite upd_same. auto.
  - exists u. simpl. rewrite upd_other by exact Hne. exact Hu.
Qed.

Ltac qwk E :=
  match goal with
  | Hn : qwaker _ |- qwaker _ =>
      apply qwaker_upd; [exact Hn|];
      let Ha := fresh in intros Ha;
      first [ reflexivity | exact Ha | exfalso; rewrite E in Ha; discriminate Ha
            | rewrite E in Ha; match goal with n0 : spin_next |- _ => destruct n0; simpl in *; congruence end ]
  end.
Ltac qrk E Hwk :=
  match goal with
  | Hn : qretrier _ |- qretrier _ =>
      apply qretrier_upd; [exact Hn|];
      let Ha := fresh in intros Ha;
      first [ exact Ha | right; reflexivity
            | exfalso; destruct Ha as [Ha|Ha]; [apply Hwk in Ha; rewrite E in Ha; discriminate Ha | rewrite E in Ha; discriminate Ha]
            | exfalso; destruct Ha as [Ha|Ha]; [congruence | rewrite E in Ha; discriminate Ha]
            | destruct Ha as [Ha|Ha]; [left; exact Ha | exfalso; rewrite E in Ha; discriminate Ha] ]
  end.

Lemma NL_step s l s' : QA s -> QB s -> NL s -> qstep s l = Some s' -> NL s'.
Proof.
  intros HA [H1 H2 Hwk Hqu Hqs Hndu Hnds Hdis] [Nmain Nenq Nws] Hstep.
  qstep_cases Hstep; qthr_simp.
  all: constructor; simpl.
  all: try solve [assumption].
  (* ws, enq: the actor is not at that pc afterwards, nothing relevant changed *)
  all: try solve [pw_intro x Hx t; [simpl in Hx; discriminate Hx | first [eapply Nws; exact Hx | eapply Nenq; exact Hx]]].
  all: try solve [pw_intro x Hx t; [simpl in Hx; discriminate Hx |];
                  destruct (Nenq x Hx) as [Hz|Hw]; [left; exact Hz | right; qwk E]].
  (* main: ls and queues unchanged *)
  all: try solve [intros Hne; destruct (Nmain Hne) as [Hz|[Hw|Hr]];
                  [left; exact Hz | right; left; qwk E | right; right; qrk E Hwk]].
  (* facts *)
  all: try match goal with
    | Hm0 : q_waiting _ _ && _ = true |- _ => apply andb_true_iff in Hm0; destruct Hm0 as [Hm0 _]
    end.
  all: try match goal with
    | Hm0 : q_waiting ?s0 ?t0 = true |- _ => unfold q_waiting in Hm0; apply orb_true_iff in Hm0;
        assert ((qp (qthr s0 t0) = QDefer \/ qp (qthr s0 t0) = QSleep) /\ qwake (qthr s0 t0) = None) as [Hpt Hwt]
          by (destruct Hm0 as [Hm0|Hm0]; apply mem_tid_In in Hm0; [apply Hqu|apply Hqs]; exact Hm0)
    end.
  all: try match goal with
    | Eq : qp (qthr _ _) = QCas _ ?v0 |- _ =>
        let Hok := fresh "Hok" in
        destruct (qa_C _ HA _ _ _ Eq) as [Hok _]; unfold shared_ok in Hok; apply andb_true_iff in Hok;
        destruct Hok as [Hok _]; apply Z.leb_le in Hok
    end.
  all: try match goal with
    | Ez : (ls ?s0 =? 0) = false |- _ => assert (ls s0 <> 0) as Hls0 by (apply Z.eqb_neq in Ez; exact Ez)
    | Ez : shared_ok (ls ?s0) = false |- _ => assert (ls s0 <> 0) as Hls0 by (let H0 := fresh in intros H0; rewrite H0 in Ez; discriminate Ez)
    end.
  (* (a) a successful try: lock_state is -1 or >= 1 *)
  all: try solve [intros; left; lia].
  (* (b) load -> CAS of the shared try *)
  all: try solve [intros Hne; destruct (Nmain Hne) as [Hz|[Hw|Hr]];
                  [left; exact Hz | right; left; qwk E |];
                  right; right; apply qretrier_upd; [exact Hr|]; intros [Ha|Ha];
                  [left; exact Ha | right; rewrite E in Ha; destruct slow; simpl in *; congruence]].
  (* (c) a failed try *)
  all: try solve [intros; left; exact Hls0].
  all: try solve [pw_intro x Hx t; [left; exact Hls0 | destruct (Nenq x Hx) as [Hz|Hw]; [left; exact Hz | right; qwk E]]].
  (* two threads cannot both hold spin *)
  all: try solve [intros x; unfold upd; repeat (match goal with |- context [Nat.eqb ?a ?b] => destruct (Nat.eqb_spec a b); subst; simpl end);
                  intros Hx; try discriminate Hx; exfalso;
                  match goal with n0 : ?x0 <> ?t0, Es : qp (qthr ?s0 ?t0) = _ |- _ =>
                    assert (spin s0 = Some x0) by (apply H1; rewrite Hx; reflexivity);
                    assert (spin s0 = Some t0) by (apply H1; rewrite Es; reflexivity); congruence end].
  (* (d) enqueue *)
  all: try solve [intros _; destruct (Nenq t E) as [Hz|Hw]; [left; exact Hz | right; left; qwk E]].
  (* the actor is / stays a waker *)
  all: try solve [intros _; right; left; exists t; simpl; unfold upd; rewrite Nat.eqb_refl; reflexivity].
  all: try solve [intros _; right; left; exists t; simpl; unfold upd;
                  match goal with |- context [Nat.eqb ?a ?b] => destruct (Nat.eqb_spec a b); subst; simpl end; rewrite E; reflexivity].
  all: try solve [pw_intro x Hx t; [discriminate Hx|]; right; exists t; simpl; unfold upd; rewrite Nat.eqb_refl; reflexivity].
  (* (g) *)
  all: try solve [pw_intro x Hx t; [assumption | eapply Nws; exact Hx]].
  (* (i) both queues are empty when notify_all ends *)
  all: try solve [intros [Hne|Hne]; exfalso; apply Hne; [eapply Nws; exact E | assumption]].
  (* set_wake only *)
  all: try solve [intros x; unfold upd; match goal with |- context [Nat.eqb ?a ?b] => destruct (Nat.eqb_spec a b); subst; simpl end;
                  intros Hx; first [eapply Nws; exact Hx | rewrite (Nws _ Hx); reflexivity]].
  all: try solve [intros x; unfold upd; match goal with |- context [Nat.eqb ?a ?b] => destruct (Nat.eqb_spec a b); subst; simpl end;
                  intros Hx; destruct (Nenq _ Hx) as [Hz|Hw]; first [left; exact Hz | right; apply qwaker_upd; [exact Hw|]; intros Ha; exact Ha]].
  - (* QWakeU finds cv_unique empty *)
    intros x; unfold upd; destruct (Nat.eqb_spec x t) as [->|?]; simpl; intros Hx.
    + match goal with Eq : qu s = [] |- _ => exact Eq end.
    + match goal with Eq : qu s = [] |- _ => exact Eq end.
  - (* QWakeU wakes a writer *)
    intros _. right. right. exists t0. left. simpl.
    assert (t0 <> t) as Ht0.
    { intros ->. destruct (Hqu t) as [[Hp|Hp] _]; [left; reflexivity| |]; rewrite E in Hp; discriminate Hp. }
    rewrite upd_other by exact Ht0. rewrite upd_same. reflexivity.
  - (* Timeout *)
    intros Hne.
    assert (qu s <> [] \/ qs s <> []) as Hne'
      by (destruct Hne as [Hne|Hne]; [left|right]; intros Hq0; rewrite Hq0 in Hne; apply Hne; reflexivity).
    destruct (Nmain Hne') as [Hz|[Hw|Hr]]; [left; exact Hz | right; left | right; right].
    + apply qwaker_upd; [exact Hw|]. intros Ha. exact Ha.
    + apply qretrier_upd; [exact Hr|]. intros [Ha|Ha]; exfalso; [congruence|].
      destruct Hpt as [Hp|Hp]; rewrite Hp in Ha; discriminate Ha.
  - (* Intr of a waiter *)
    intros Hne.
    assert (qu s <> [] \/ qs s <> []) as Hne'
      by (destruct Hne as [Hne|Hne]; [left|right]; intros Hq0; rewrite Hq0 in Hne; apply Hne; reflexivity).
    destruct (Nmain Hne') as [Hz|[Hw|Hr]]; [left; exact Hz | right; left | right; right].
    + apply qwaker_upd; [exact Hw|]. intros Ha. exact Ha.
    + apply qretrier_upd; [exact Hr|]. intros [Ha|Ha]; exfalso; [congruence|].
      destruct Hpt as [Hp|Hp]; rewrite Hp in Ha; discriminate Ha.
  - (* Intr of a thread already woken by its timeout *)
    intros Hne. destruct (Nmain Hne) as [Hz|[Hw|Hr]]; [left; exact Hz | right; left | right; right].
    + apply qwaker_upd; [exact Hw|]. intros Ha. exact Ha.
    + apply qretrier_upd; [exact Hr|]. intros [Ha|Ha]; exfalso; [congruence|].
      match goal with Ew : qwake (qthr s t) = Some WTimeout |- _ => apply Hwk in Ew; destruct (qp (qthr s t)); simpl in *; try discriminate end.
      all: match goal with n0 : spin_next |- _ => destruct n0; simpl in *; discriminate | _ => idtac end.
Qed.

Lemma qreach_NL s : qreach s -> NL s.
Proof.
  induction 1 as [|s l s' Hr IH Hwf Hs]; [exact NL0|].
  eapply NL_step; eauto; [apply qreach_QA|apply qreach_QB]; exact Hr.
Qed.
