(* C06_QModel.v — FINE-GRAINED model of photon::qrwlock (thread/thread.h 614-721) together with the
   inline photon::spinlock it uses (thread.h 230-261).  EXECUTABLE DEFINITIONS ONLY.

   One transition = one atomic operation on `lock_state` or on `spin._lock`, or one block that is
   atomic by the scheduler's own locking: prepare_usleep (enqueue on a condition variable under
   q.lock + thread.lock, thread.cpp 1359-1374) and waitq::resume_one (1740-1751).  Any number of
   threads on any number of vCPUs; `Timeout`/`Intr` steps of the environment are enabled at any
   moment (every timing).  Sequential consistency.  compare_exchange_weak never fails spuriously
   (as in E3; a spurious failure only repeats the loop with the same value). *)
From Coq Require Import ZArith List Bool Arith.
From PV Require Import Base.U64 C06.C06_Model.
Import ListNotations.
Local Open Scope Z_scope.

Definition MAX_SHARED : Z := 65536.     (* MAX_SHARED_LOCK_COUNT = 1 << 16 *)

(* where spin.lock() was called from *)
Inductive spin_next : Type :=
| NFast       (* do_lock after the failed fast path (643) *)
| NWake       (* cvar_do_wait re-locking `spin` after the wake-up (thread.cpp 1869-1871) *)
| NUnique     (* __unlock_unique (654) *)
| NShared.    (* __unlock_shared, prev == 1 (664) *)

Inductive qpc : Type :=
| QIdle
| QTry (slow : bool)            (* try_fn(): WLOCK: the CAS of __trylock (671); RLOCK: the load of __trylock_shared (677) *)
| QCas (slow : bool) (v : Z)    (* __trylock_shared: compare_exchange_weak(v, v+1) (679) *)
| QSpinX (n : spin_next)        (* spinlock::lock: xchg (235) *)
| QSpinL (n : spin_next)        (* spinlock::lock: the load of the inner wait loop (239) *)
| QRel (r e : Z)                (* ~SCOPED_LOCK(spin): store(false) (251); then return r, errno e *)
| QEnq                          (* holds spin; cv.wait(spin, timeout) -> prepare_usleep *)
| QDefer                        (* enqueued, SLEEPING; the deferred spin.unlock() has not run yet *)
| QSleep                        (* spin released; sleeping on the cv, or woken and about to re-lock spin *)
| QUlLoad                       (* unlock(): load of lock_state (709) *)
| QUlSub                        (* __unlock_shared: fetch_sub(1) (661) *)
| QUlStore                      (* __unlock_unique, holds spin: store(0) (656) *)
| QWakeU                        (* try_wake: cv_unique.notify_one() (631) *)
| QWakeS.                       (* try_wake: one round of cv_shared.notify_all() (632; resume_all loop) *)

Record qthread : Type := mkQT {
  qp : qpc;
  qmd : mode;
  qtimed : bool;
  qnb : bool;                   (* the call is try_lock(mode): no slow path *)
  qwake : option wake_t
}.
Definition qthread0 : qthread := mkQT QIdle RD false false None.
Definition qset_pc (x : qthread) (p : qpc) : qthread := mkQT p (qmd x) (qtimed x) (qnb x) (qwake x).
Definition qset_wake (x : qthread) (w : option wake_t) : qthread := mkQT (qp x) (qmd x) (qtimed x) (qnb x) w.

Record qrw : Type := mkQ {
  ls : Z;                        (* lock_state *)
  spin : option tid;             (* spin._lock: None = false; Some t = true, taken by t (ghost owner) *)
  qu : list tid;                 (* cv_unique.q *)
  qs : list tid;                 (* cv_shared.q *)
  qthr : tid -> qthread;
  qholders : list (tid * mode);  (* GHOST ledger *)
  qnlog : list tid               (* GHOST: notified threads, newest first *)
}.
Definition qrw0 : qrw := mkQ 0 None [] [] (fun _ => qthread0) [] [].

Definition qset_ls (s : qrw) (x : Z) := mkQ x (spin s) (qu s) (qs s) (qthr s) (qholders s) (qnlog s).
Definition qset_spin (s : qrw) (x : option tid) := mkQ (ls s) x (qu s) (qs s) (qthr s) (qholders s) (qnlog s).
Definition qset_qu (s : qrw) (x : list tid) := mkQ (ls s) (spin s) x (qs s) (qthr s) (qholders s) (qnlog s).
Definition qset_qs (s : qrw) (x : list tid) := mkQ (ls s) (spin s) (qu s) x (qthr s) (qholders s) (qnlog s).
Definition qset_thr (s : qrw) (t : tid) (x : qthread) := mkQ (ls s) (spin s) (qu s) (qs s) (upd (qthr s) t x) (qholders s) (qnlog s).
Definition qset_holders (s : qrw) (x : list (tid * mode)) := mkQ (ls s) (spin s) (qu s) (qs s) (qthr s) x (qnlog s).
Definition qset_nlog (s : qrw) (x : list tid) := mkQ (ls s) (spin s) (qu s) (qs s) (qthr s) (qholders s) x.
Definition qgoto (s : qrw) (t : tid) (p : qpc) : qrw := qset_thr s t (qset_pc (qthr s t) p).
Definition qholds (s : qrw) (t : tid) : bool := mem_tid t (map fst (qholders s)).

(* try_fn() succeeded / failed *)
Definition q_success (s : qrw) (t : tid) (slow : bool) : qrw * obs :=
  let s1 := qset_holders s ((t, qmd (qthr s t)) :: qholders s) in
  if slow then (qgoto s1 t (QRel 0 0), OStep) else (qgoto s1 t QIdle, ORet 0 0).
Definition q_fail (s : qrw) (t : tid) (slow : bool) : qrw * obs :=
  if slow then (qgoto s t QEnq, OStep)
  else if qnb (qthr s t) then (qgoto s t QIdle, ORet (-1) 0)
  else (qgoto s t (QSpinX NFast), OStep).

Definition shared_ok (v : Z) : bool := (0 <=? v) && (v <? MAX_SHARED).

(* spin acquired: continue where spin.lock() was called from *)
Definition q_after_spin (s : qrw) (t : tid) (n : spin_next) : qrw :=
  let th := qthr s t in
  match n with
  | NFast => qgoto s t (QTry true)
  | NWake =>
      match qwake th with
      | Some WNotify => qset_thr s t (qset_wake (qset_pc th (QTry true)) None)      (* ret 0: loop (644) *)
      | Some WTimeout => qset_thr s t (qset_wake (qset_pc th (QRel (-1) ETIMEDOUT)) None)
      | Some (WIntr e) => qset_thr s t (qset_wake (qset_pc th (QRel (-1) e)) None)
      | None => qgoto s t (QTry true)                                               (* unreachable *)
      end
  | NUnique => qgoto s t QUlStore
  | NShared => qgoto s t QWakeU
  end.

Definition q_xchg (s : qrw) (t : tid) (n : spin_next) : qrw :=
  match spin s with
  | None => q_after_spin (qset_spin s (Some t)) t n
  | Some _ => qgoto s t (QSpinL n)
  end.

Definition q_notify (s : qrw) (h : tid) : qrw :=
  qset_nlog (qset_thr s h (qset_wake (qthr s h) (Some WNotify))) (h :: qnlog s).

Definition qth_step (s : qrw) (t : tid) : option (qrw * obs) :=
  let th := qthr s t in
  match qp th with
  | QIdle => None
  | QTry slow =>
      match qmd th with
      | WR => if ls s =? 0 then Some (q_success (qset_ls s (-1)) t slow) else Some (q_fail s t slow)
      | RD => if shared_ok (ls s) then Some (qgoto s t (QCas slow (ls s)), OStep) else Some (q_fail s t slow)
      end
  | QCas slow v =>
      if ls s =? v then Some (q_success (qset_ls s (v + 1)) t slow)
      else if shared_ok (ls s) then Some (qgoto s t (QCas slow (ls s)), OStep)
      else Some (q_fail s t slow)
  | QSpinX n => Some (q_xchg s t n, OStep)
  | QSpinL n =>
      match spin s with
      | None => Some (qgoto s t (QSpinX n), OStep)
      | Some _ => Some (s, OStep)                       (* still locked: spin *)
      end
  | QRel r e => Some (qgoto (qset_spin s None) t QIdle, ORet r e)
  | QEnq =>
      let s1 := match qmd th with
                | WR => qset_qu s (qu s ++ [t])
                | RD => qset_qs s (qs s ++ [t])
                end in
      Some (qset_thr s1 t (qset_wake (qset_pc th QDefer) None), OSleep)
  | QDefer => Some (qgoto (qset_spin s None) t QSleep, OStep)
  | QSleep =>
      match qwake th with
      | None => None
      | Some _ => Some (q_xchg s t NWake, OStep)        (* spinlock_lock(&spin): first xchg *)
      end
  | QUlLoad =>
      if ls s =? 0 then Some (qgoto s t QIdle, ORet (-1) ENOLCK)
      else if ls s =? -1 then Some (qgoto s t (QSpinX NUnique), OStep)
      else Some (qgoto s t QUlSub, OStep)
  | QUlSub =>
      let s1 := qset_holders (qset_ls s (ls s - 1)) (remove_holder t (qholders s)) in
      if ls s =? 1 then Some (qgoto s1 t (QSpinX NShared), OStep)
      else Some (qgoto s1 t QIdle, ORet 0 0)
  | QUlStore =>
      Some (qgoto (qset_holders (qset_ls s 0) (remove_holder t (qholders s))) t QWakeU, OStep)
  | QWakeU =>
      match qu s with
      | h :: r => Some (qgoto (q_notify (qset_qu s r) h) t (QRel 0 0), OStep)
      | [] => Some (qgoto s t QWakeS, OStep)
      end
  | QWakeS =>
      match qs s with
      | h :: r => Some (q_notify (qset_qs s r) h, OStep)
      | [] => Some (qgoto s t (QRel 0 0), OStep)
      end
  end.

Inductive qlabel : Type :=
| QCallLock (t : tid) (m : mode) (tm : bool)
| QCallTry (t : tid) (m : mode)
| QCallUnlock (t : tid)
| QTh (t : tid)
| QTimeout (t : tid)
| QIntr (t : tid) (e : Z).

Definition q_dequeue (s : qrw) (t : tid) (w : wake_t) : qrw :=
  qset_thr (qset_qs (qset_qu s (remove_tid t (qu s))) (remove_tid t (qs s))) t (qset_wake (qthr s t) (Some w)).
Definition q_waiting (s : qrw) (t : tid) : bool := mem_tid t (qu s) || mem_tid t (qs s).

Definition qstep (s : qrw) (l : qlabel) : option qrw :=
  match l with
  | QCallLock t m tm =>
      match qp (qthr s t) with
      | QIdle => Some (qset_thr s t (mkQT (QTry false) m tm false None))
      | _ => None
      end
  | QCallTry t m =>
      match qp (qthr s t) with
      | QIdle => Some (qset_thr s t (mkQT (QTry false) m false true None))
      | _ => None
      end
  | QCallUnlock t =>
      match qp (qthr s t) with
      | QIdle => Some (qgoto s t QUlLoad)
      | _ => None
      end
  | QTh t => option_map fst (qth_step s t)
  | QTimeout t =>
      if q_waiting s t && qtimed (qthr s t) then Some (q_dequeue s t WTimeout) else None
  | QIntr t e =>
      if 0 <? e then
        if q_waiting s t then Some (q_dequeue s t (WIntr e))
        else match qwake (qthr s t) with
             | Some WTimeout => Some (qset_thr s t (qset_wake (qthr s t) (Some (WIntr e))))
             | _ => None
             end
      else None
  end.

Definition qwf_label (s : qrw) (l : qlabel) : bool :=
  match l with
  | QCallUnlock t => qholds s t
  | _ => true
  end.

Fixpoint qrun (s : qrw) (lbls : list qlabel) : option qrw :=
  match lbls with
  | [] => Some s
  | l :: r => if qwf_label s l then match qstep s l with Some s' => qrun s' r | None => None end else None
  end.
