(* C06_QProofs7.v — the E3 replay of the BLOCKING qrwlock path (C06_QE3B.v, harness/C06/qrw_e3b.cpp) only ever visits
   states of the proved step relation: every harness point is a stutter or one `qstep` with a well-formed label, so the
   lock state `b_q` of every state of every replayed run is in `qreach` — the set qrw_excl, qrw_no_lost_wake,
   qrw_no_stuck quantify over. *)
From Coq Require Import ZArith List Bool Arith Lia.
From PV Require Import Base.U64 E3.E3_Run C06.C06_Model C06.C06_QModel C06.C06_QE3 C06.C06_QE3B C06.C06_QProofs.
Import ListNotations.
Local Open Scope Z_scope.

(* an invariant of the step function is an invariant of the schedule interpreter *)
Lemma e3_run_inv {St : Type} (step : St -> nat -> nat -> St * E3_Run.obs) (fin : St -> nat -> bool) (n : nat) (P : St -> Prop) :
  (forall st p f, P st -> P (fst (step st p f))) ->
  forall fuel sched last st acc, P st -> P (fst (fst (e3_run step fin n fuel sched last st acc))).
Proof.
  intros Hstep. induction fuel as [|k IH]; intros sched last st acc HP; simpl.
  - destruct (all_fin fin n st); simpl; exact HP.
  - destruct (all_fin fin n st); simpl; [exact HP|].
    destruct sched as [|e rest].
    + destruct (rr fin n n (S last) st) as [p|]; simpl; [|exact HP].
      pose proof (Hstep st p 0%nat HP) as H1.
      destruct (step st p 0%nat) as [st' o]. apply IH. exact H1.
    + destruct (fin st (Nat.modulo e n)); [apply IH; exact HP|].
      pose proof (Hstep st (Nat.modulo e n) (Nat.div e n) HP) as H1.
      destruct (step st (Nat.modulo e n) (Nat.div e n)) as [st' o]. apply IH. exact H1.
Qed.

Lemma qreach_call s l s' : qreach s -> qwf_label s l = true -> qstep s l = Some s' -> qreach s'.
Proof. intros; econstructor; eauto. Qed.

Lemma bnorm_qreach fuel : forall st t, qreach (b_q st) -> qreach (b_q (bnorm fuel st t)).
Proof.
  induction fuel as [|f IH]; intros st t Hr; simpl; [exact Hr|].
  destruct (qp (qthr (b_q st) t)) eqn:Hp; try exact Hr.
  destruct (b_tick st t); [exact Hr|].
  destruct (b_script st t) as [|o r]; [exact Hr|].
  destruct o as [m tmo|m| |].
  - simpl. eapply (qreach_call _ (QCallLock t m (0 <=? tmo))); [exact Hr|reflexivity|].
    simpl. rewrite Hp. reflexivity.
  - simpl. eapply (qreach_call _ (QCallTry t m)); [exact Hr|reflexivity|].
    simpl. rewrite Hp. reflexivity.
  - destruct (qholds (b_q st) t) eqn:Hh.
    + simpl. eapply (qreach_call _ (QCallUnlock t)); [exact Hr|exact Hh|].
      simpl. rewrite Hp. reflexivity.
    + apply IH. exact Hr.
  - exact Hr.
Qed.

Lemma bth_qreach st t o : qreach (b_q st) -> qreach (b_q (fst (bth st t o))).
Proof.
  intros Hr. unfold bth.
  destruct (qth_step (b_q st) t) as [[s1 ob]|] eqn:E; [|exact Hr].
  assert (H1 : qreach s1).
  { eapply (qreach_call _ (QTh t)); [exact Hr|reflexivity|]. simpl. rewrite E. reflexivity. }
  destruct ob; cbn [fst]; apply bnorm_qreach; exact H1.
Qed.

Lemma bstep_qreach st t f : qreach (b_q st) -> qreach (b_q (fst (bstep st t f))).
Proof.
  intros Hr. unfold bstep.
  destruct (qp (qthr (b_q st) t)) eqn:Hp; try (apply bth_qreach; exact Hr).
  - (* QIdle: a tick *)
    destruct (b_tick st t); cbn [fst]; [|exact Hr]. apply bnorm_qreach. exact Hr.
  - (* QSleep *)
    destruct (qwake (qthr (b_q st) t)).
    + destruct (b_seen st t); [|exact Hr].
      apply (bth_qreach (bset_seen st t false)). exact Hr.
    + destruct (bexpired st t && (Nat.eqb f 1 || bstuck st t)).
      * destruct (qstep (b_q st) (QTimeout t)) as [s1|] eqn:E; cbn [fst]; [|exact Hr]. cbn [bset_seen bset_q b_q bcount].
        eapply (qreach_call _ (QTimeout t)); [exact Hr|reflexivity|exact E].
      * destruct (bstuck st t && negb (bsome_expired st)); exact Hr.
Qed.

Lemma binit_all_qreach k : forall st, qreach (b_q st) -> qreach (b_q (binit_all st k)).
Proof. induction k as [|j IH]; intros st Hr; cbn [binit_all]; [exact Hr|]. apply IH. apply bnorm_qreach. exact Hr. Qed.

Lemma binit_qreach scripts : qreach (b_q (binit scripts)).
Proof. unfold binit. apply binit_all_qreach. cbn [b_q]. constructor. Qed.

(* every run of the E3 replay function ends (hence, by the same argument, passes only) in reachable lock states *)
Theorem qb_run_qreach_thm scripts bound sched : qreach (b_q (fst (fst (qb_run scripts bound sched)))).
Proof.
  unfold qb_run.
  apply (e3_run_inv bstep bfin (length scripts) (fun st => qreach (b_q st))).
  - intros st p f. apply bstep_qreach.
  - apply binit_qreach.
Qed.
