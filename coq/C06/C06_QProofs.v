(* C06_QProofs.v — invariants of the fine-grained qrwlock model over EVERY schedule. *)
From Coq Require Import ZArith Lia List Bool Arith.
From PV Require Import Base.U64 C06.C06_Model C06.C06_RWProofs C06.C06_QModel.
Import ListNotations.
Local Open Scope Z_scope.

Inductive qreach : qrw -> Prop :=
| qreach0 : qreach qrw0
| qreachS s l s' : qreach s -> qwf_label s l = true -> qstep s l = Some s' -> qreach s'.

Lemma qrun_qreach lbls : forall s s', qreach s -> qrun s lbls = Some s' -> qreach s'.
Proof.
  induction lbls as [|l r IH]; simpl; intros s s' Hr H.
  - inversion H; subst; exact Hr.
  - destruct (qwf_label s l) eqn:Hwf; [|discriminate].
    destruct (qstep s l) as [s1|] eqn:Hs; [|discriminate].
    eapply IH; [|exact H]. econstructor; eauto.
Qed.

Definition spin_pc (p : qpc) : bool :=
  match p with
  | QTry true | QCas true _ | QRel _ _ | QEnq | QDefer | QUlStore | QWakeU | QWakeS => true
  | _ => false
  end.

Definition wake_pc (p : qpc) : bool :=
  match p with QDefer | QSleep | QSpinX NWake | QSpinL NWake => true | _ => false end.

Definition unique_pc (p : qpc) : bool :=
  match p with QSpinX NUnique | QSpinL NUnique | QUlStore => true | _ => false end.

Record QInv (s : qrw) : Prop := mkQInv {
  q_excl : excl_ (ls s) (qholders s);
  q_spin1 : forall t, spin_pc (qp (qthr s t)) = true -> spin s = Some t;
  q_spin2 : forall t, spin s = Some t -> spin_pc (qp (qthr s t)) = true;
  q_qu : forall h, In h (qu s) -> (qp (qthr s h) = QDefer \/ qp (qthr s h) = QSleep) /\ qwake (qthr s h) = None /\ qmd (qthr s h) = WR;
  q_qs : forall h, In h (qs s) -> (qp (qthr s h) = QDefer \/ qp (qthr s h) = QSleep) /\ qwake (qthr s h) = None /\ qmd (qthr s h) = RD;
  q_ndu : NoDup (qu s);
  q_nds : NoDup (qs s);
  q_wk : forall t w, qwake (qthr s t) = Some w -> wake_pc (qp (qthr s t)) = true;
  q_ulW : forall t, unique_pc (qp (qthr s t)) = true -> In (t, WR) (qholders s);
  q_ulR : forall t, qp (qthr s t) = QUlSub -> In (t, RD) (qholders s);
  q_ulL : forall t, qp (qthr s t) = QUlLoad -> qholds s t = true
}.

Lemma QInv0 : QInv qrw0.
Proof.
  constructor; simpl; try (intros; discriminate); try tauto; try (constructor; fail).
  left. split; [constructor|reflexivity].
Qed.

Ltac qbreak H :=
  unfold qth_step, q_success, q_fail, q_xchg, q_after_spin, q_notify, q_dequeue in H;
  repeat (match type of H with
          | context [match ?x with _ => _ end] =>
              match x with
              | context [match _ with _ => _ end] => fail 1
              | _ => let E := fresh "E" in destruct x eqn:E
              end
          end; simpl in H; try discriminate H).

Ltac qstep_cases Hstep :=
  match type of Hstep with
  | qstep ?s ?l = Some ?s' =>
      destruct l as [t m tm|t m|t|t|t|t e]; simpl in Hstep;
      [ qbreak Hstep; inv_some
      | qbreak Hstep; inv_some
      | qbreak Hstep; inv_some
      | destruct (qth_step s t) as [[s1 o]|] eqn:Hth; simpl in Hstep; [|discriminate Hstep];
        inv_some; qbreak Hth; inv_some
      | qbreak Hstep; inv_some
      | qbreak Hstep; inv_some ]
  end.

Ltac qthr_simp :=
  unfold qgoto, qset_thr, qset_qu, qset_qs, qset_spin, qset_ls, qset_holders, qset_nlog in *; simpl in *.

Ltac qupd_cases :=
  repeat match goal with
  | |- context [upd _ ?t _ ?u] => unfold upd at 1; destruct (Nat.eqb_spec u t); subst; simpl
  end.

Ltac qpcfacts :=
  repeat match goal with
  | H1 : qp ?x = _, H2 : qp ?x = _ |- _ => rewrite H1 in H2; try discriminate H2
  | H1 : qp ?x = _, H2 : context [qp ?x] |- _ => rewrite H1 in H2; simpl in H2
  | H1 : qp ?x = _ |- context [qp ?x] => rewrite H1; simpl
  | H1 : qmd ?x = _, H2 : context [qmd ?x] |- _ => rewrite H1 in H2; simpl in H2
  | H1 : qmd ?x = _ |- context [qmd ?x] => rewrite H1; simpl
  end.

Definition qdone (x : tid) : Prop := True.

Ltac qinst_all H1 H2 H3 H4 H5 H6 H7 H8 :=
  repeat match goal with
  | x : tid |- _ =>
      lazymatch goal with
      | _ : qdone x |- _ => fail
      | _ => pose proof (H1 x); pose proof (H2 x); pose proof (H3 x); pose proof (H4 x); pose proof (H5 x);
             pose proof (H6 x); pose proof (H7 x); pose proof (H8 x);
             assert (qdone x) by exact I
      end
  end.

Ltac qwake_inst :=
  repeat match goal with
  | E : qwake (qthr ?s ?x) = Some ?w, H : forall w, qwake (qthr ?s ?x) = Some w -> _ |- _ => pose proof (H _ E); clear H
  end.

Ltac qsubst_q :=
  repeat match goal with
  | E : qu ?s = _, H : context [qu ?s] |- _ => lazymatch H with E => fail | _ => rewrite E in H end
  | E : qu ?s = _ |- context [qu ?s] => rewrite E
  | E : qs ?s = _, H : context [qs ?s] |- _ => lazymatch H with E => fail | _ => rewrite E in H end
  | E : qs ?s = _ |- context [qs ?s] => rewrite E
  end.

Lemma remove_holder_keep t u m l : u <> t -> In (t, m) l -> In (t, m) (remove_holder u l).
Proof.
  intros Hne. induction l as [|[x mx] r IH]; simpl; [tauto|].
  destruct (Nat.eqb_spec x u); intros [H|H]; simpl; auto.
  inversion H; subst. tauto.
Qed.

Lemma qholds_In s t : qholds s t = true <-> In t (map fst (qholders s)).
Proof. unfold qholds. apply mem_tid_In. Qed.

Lemma QInv_step s l s' : QInv s -> qwf_label s l = true -> qstep s l = Some s' -> QInv s'.
Proof.
  intros HI Hwf Hstep.
  destruct HI as [Hexcl Hs1 Hs2 Hqu Hqs Hndu Hnds Hwk HuW HuR HuL].
  qstep_cases Hstep; qthr_simp.
  all: constructor; simpl.
  all: try solve [assumption].
  all: try solve [intros; qsubst_q; qupd_cases; qinst_all Hs1 Hs2 Hqu Hqs Hwk HuW HuR HuL; qwake_inst; qpcfacts; simpl in *;
                  intuition (try congruence; try discriminate; eauto)].
  all: match goal with |- ?G => idtac "GOAL" G end.
Abort.
