(* C06_QProofs.v — invariants of the fine-grained qrwlock model over EVERY schedule. *)
From Coq Require Import ZArith Lia List Bool Arith.
From PV Require Import Base.U64 C06.C06_Model C06.C06_RWProofs C06.C06_QModel.
Import ListNotations.
Local Open Scope Z_scope.

Inductive qreach : qrw -> Prop :=
| qreach0 : qreach qrw0
| qreachS s l s' : qreach s -> qwf_label s l = true -> qstep s l = Some s' -> qreach s'.

Lemma qrun_qreach lbls : forall s s', qreach s -> qrun s lbls = Some s' -> qreach s'.
Proof.
  induction lbls as [|l r IH]; simpl; intros s s' Hr H.
  - inversion H; subst; exact Hr.
  - destruct (qwf_label s l) eqn:Hwf; [|discriminate].
    destruct (qstep s l) as [s1|] eqn:Hs; [|discriminate].
    eapply IH; [|exact H]. econstructor; eauto.
Qed.

Definition spin_pc (p : qpc) : bool :=
  match p with
  | QTry true | QCas true _ | QRel _ _ | QEnq | QDefer | QUlStore | QWakeU | QWakeS => true
  | _ => false
  end.

Definition wake_pc (p : qpc) : bool :=
  match p with QDefer | QSleep | QSpinX NWake | QSpinL NWake => true | _ => false end.

Definition unique_pc (p : qpc) : bool :=
  match p with QSpinX NUnique | QSpinL NUnique | QUlStore => true | _ => false end.

Ltac qbreak H :=
  unfold qth_step, q_success, q_fail, q_xchg, q_after_spin, q_notify, q_dequeue in H;
  repeat (match type of H with
          | context [match ?x with _ => _ end] =>
              match x with
              | context [match _ with _ => _ end] => fail 1
              | _ => let E := fresh "E" in destruct x eqn:E
              end
          end; simpl in H; try discriminate H).

Ltac qstep_cases Hstep :=
  match type of Hstep with
  | qstep ?s ?l = Some ?s' =>
      destruct l as [t m tm|t m|t|t|t|t e]; simpl in Hstep;
      [ qbreak Hstep; inv_some
      | qbreak Hstep; inv_some
      | qbreak Hstep; inv_some
      | destruct (qth_step s t) as [[s1 o]|] eqn:Hth; simpl in Hstep; [|discriminate Hstep];
        inv_some; qbreak Hth; inv_some
      | qbreak Hstep; inv_some
      | qbreak Hstep; inv_some ]
  end.

Ltac qthr_simp :=
  unfold qgoto, qset_thr, qset_qu, qset_qs, qset_spin, qset_ls, qset_holders, qset_nlog in *; simpl in *.


Lemma remove_holder_keep t u m l : u <> t -> In (t, m) l -> In (t, m) (remove_holder u l).
Proof.
  intros Hne. induction l as [|[x mx] r IH]; simpl; [tauto|].
  destruct (Nat.eqb_spec x u); intros [H|H]; simpl; auto.
  inversion H; subst. tauto.
Qed.

Lemma qholds_In s t : qholds s t = true <-> In t (map fst (qholders s)).
Proof. unfold qholds. apply mem_tid_In. Qed.

Lemma in_fst {A B} (a : A) (b : B) l : In (a, b) l -> In a (map fst l).
Proof. intros H. apply (in_map fst) in H. exact H. Qed.

(* ================================================================================================
   A. the ledger: qrw_excl
   ================================================================================================ *)
Record QA (s : qrw) : Prop := mkQA {
  qa_excl : excl_ (ls s) (qholders s);
  qa_W : forall t, unique_pc (qp (qthr s t)) = true -> In (t, WR) (qholders s);
  qa_R : forall t, qp (qthr s t) = QUlSub -> In (t, RD) (qholders s);
  qa_L : forall t, qp (qthr s t) = QUlLoad -> In t (map fst (qholders s));
  qa_C : forall t slow v, qp (qthr s t) = QCas slow v -> shared_ok v = true /\ qmd (qthr s t) = RD
}.

Lemma QA0 : QA qrw0.
Proof. constructor; simpl; try (intros; discriminate). left. split; [constructor|reflexivity]. Qed.

Lemma excl_add_W hs t : excl_ 0 hs -> excl_ (-1) ((t, WR) :: hs).
Proof.
  intros [[_ Hl]|[w [_ H]]]; [|discriminate H].
  destruct hs; [|simpl in Hl; lia]. right. exists t. split; reflexivity.
Qed.

Lemma excl_add_R v hs t : 0 <= v -> excl_ v hs -> excl_ (v + 1) ((t, RD) :: hs).
Proof.
  intros Hv [[Hall Hl]|[w [_ H]]]; [|lia].
  left. split; [constructor; [reflexivity|exact Hall]|]. simpl length. lia.
Qed.

Lemma excl_store0 hs t : excl_ (-1) hs -> In (t, WR) hs -> excl_ 0 (remove_holder t hs).
Proof.
  intros [[_ Hl]|[w [-> _]]] Hin; [lia|].
  destruct Hin as [H|[]]. inversion H; subst. simpl. rewrite Nat.eqb_refl. left. split; [constructor|reflexivity].
Qed.

Lemma excl_sub v hs t : excl_ v hs -> In (t, RD) hs -> excl_ (v - 1) (remove_holder t hs) /\ 1 <= v.
Proof.
  intros [[Hall Hl]|[w [-> _]]] Hin.
  - pose proof (remove_holder_length t hs (in_fst _ _ _ Hin)) as Hlen.
    split; [|subst v; lia]. left. split; [apply remove_holder_Forall; exact Hall|]. subst v. lia.
  - destruct Hin as [H|[]]. discriminate H.
Qed.

Lemma excl_W_is hs t : excl_ (-1) hs -> In t (map fst hs) -> In (t, WR) hs.
Proof.
  intros [[_ Hl]|[w [-> _]]] Hin; [lia|]. simpl in Hin. destruct Hin as [<-|[]]. left. reflexivity.
Qed.

Lemma excl_R_is v hs t : excl_ v hs -> v <> -1 -> In t (map fst hs) -> In (t, RD) hs.
Proof.
  intros [[Hall _]|[w [_ H]]] Hv Hin; [|tauto].
  apply in_map_iff in Hin. destruct Hin as [[x m] [Hx Hin]]. simpl in Hx. subst x.
  rewrite Forall_forall in Hall. pose proof (Hall _ Hin) as Hm. simpl in Hm. subst m. exact Hin.
Qed.

Ltac pw_intro x Hx t :=
  intros x; unfold upd; destruct (Nat.eqb_spec x t) as [->|?]; simpl; intros Hx.

Lemma QA_step s l s' : QA s -> qwf_label s l = true -> qstep s l = Some s' -> QA s'.
Proof.
  intros [Hexcl HW HR HL HC] Hwf Hstep.
  qstep_cases Hstep; qthr_simp.
  all: constructor; simpl.
  all: try solve [exact Hexcl].
  (* other threads *)
  all: try solve [pw_intro x Hx t;
                  [ try discriminate Hx
                  | first [ apply HW; exact Hx | apply HR; exact Hx | apply HL; exact Hx
                          | right; first [apply HW; exact Hx | apply HR; exact Hx | apply HL; exact Hx]
                          | apply remove_holder_keep; [assumption| first [apply HW; exact Hx | apply HR; exact Hx]]
                          | apply remove_holder_other; [assumption | apply HL; exact Hx] ] ]].
  all: try solve [pw_intro x Hx t; [|apply HC; exact Hx]; intros slow' v' Hx; simpl in Hx;
                  first [discriminate Hx | eapply HC; exact Hx
                        | inversion Hx; subst; split; assumption ]].
  all: try solve [intros x slow' v'; unfold upd; destruct (Nat.eqb_spec x t) as [->|?]; simpl; intros Hx;
                  [ first [discriminate Hx | eapply HC; exact Hx | inversion Hx; subst; split; assumption
                          | inversion Hx; subst; split; [assumption|]; eapply HC; eassumption ]
                  | eapply HC; exact Hx ]].
  (* the stutter of a spinner *)
  all: try solve [first [exact HW | exact HR | exact HL | exact HC]].
  (* only wake fields change *)
  all: try solve [intros x; unfold upd; repeat (match goal with |- context [Nat.eqb ?a ?b] => destruct (Nat.eqb_spec a b); subst; simpl end);
                  intros Hx; first [discriminate Hx | apply HW; exact Hx | apply HR; exact Hx | apply HL; exact Hx]].
  all: try solve [intros x slow' v'; unfold upd; repeat (match goal with |- context [Nat.eqb ?a ?b] => destruct (Nat.eqb_spec a b); subst; simpl end);
                  intros Hx; first [discriminate Hx | eapply HC; exact Hx]].
  (* unlock() called by a holder *)
  all: try solve [pw_intro x Hx t; [apply qholds_In; exact Hwf | apply HL; exact Hx]].
  (* successful try *)
  all: try match goal with E0 : (ls _ =? _) = true |- _ => apply Z.eqb_eq in E0 end.
  all: try solve [apply excl_add_W; match goal with E0 : ls _ = 0 |- _ => rewrite <- E0 end; exact Hexcl].
  all: try solve [match goal with E0 : qp (qthr _ _) = QCas _ _ |- _ => destruct (HC _ _ _ E0) as [Hok Hmd] end;
                  rewrite Hmd; apply excl_add_R;
                  [ unfold shared_ok in Hok; apply andb_true_iff in Hok; destruct Hok as [Hok _]; apply Z.leb_le in Hok; exact Hok
                  | match goal with E0 : ls _ = _ |- _ => rewrite <- E0 end; exact Hexcl ]].
  (* spinning for __unlock_unique keeps the write hold *)
  all: try solve [pw_intro x Hx t; [apply HW; rewrite E; destruct n; simpl in *; try discriminate; reflexivity | apply HW; exact Hx]].
  all: try solve [pw_intro x Hx t; [simpl in Hwf; apply qholds_In; exact Hwf | apply HL; exact Hx]].
  all: try solve [pw_intro x Hx t; [apply HW; rewrite E; reflexivity | apply HW; exact Hx]].
  all: try solve [pw_intro x Hx t; [|apply HW; exact Hx]; apply excl_W_is; [|apply HL; exact E];
                  match goal with E0 : ls _ = -1 |- _ => rewrite <- E0 end; exact Hexcl].
  all: try solve [pw_intro x Hx t; [|apply HR; exact Hx]; apply (excl_R_is (ls s)); [exact Hexcl | | apply HL; exact E];
                  match goal with E0 : (ls _ =? -1) = false |- _ => apply Z.eqb_neq in E0; exact E0 end].
  all: try solve [apply excl_sub; [exact Hexcl | apply HR; exact E]].
  all: try solve [pw_intro x Hx t; [simpl in Hx; discriminate Hx |
                  apply remove_holder_keep; [assumption | first [apply HW; exact Hx | apply HR; exact Hx]]]].
  all: try solve [apply excl_store0; [|apply HW; rewrite E; reflexivity];
                  destruct Hexcl as [[Hall Hl]|[w [Hh Hl]]]; [|rewrite Hl; right; exists w; split; [exact Hh|reflexivity]];
                  exfalso; assert (In (t, WR) (qholders s)) as Hin by (apply HW; rewrite E; reflexivity);
                  rewrite Forall_forall in Hall; apply Hall in Hin; discriminate Hin].
  all: try solve [pw_intro x Hx t; [apply (proj1 (qholds_In _ _)); exact Hwf | apply HL; exact Hx]].
  all: try solve [pw_intro x Hx t; [simpl in Hx; discriminate Hx |
                  apply remove_holder_keep; [congruence | first [apply HW; exact Hx | apply HR; exact Hx]]]].
  assert (In (t, WR) (qholders s)) as Hin by (apply HW; rewrite E; reflexivity).
  destruct Hexcl as [[Hall Hl]|[w [Hh Hl]]].
  - exfalso. rewrite Forall_forall in Hall. apply Hall in Hin. discriminate Hin.
  - apply excl_store0; [right; exists w; split; [exact Hh|reflexivity] | exact Hin].
Qed.


Lemma qreach_QA s : qreach s -> QA s.
Proof. induction 1; [exact QA0|eapply QA_step; eauto]. Qed.
