(* Extraction of the C06 models: ExtrOcamlBasic only. *)
From Coq Require Import ZArith List.
From PV Require Import Base.U64 C04.C04_Heap Sched.Core Sched.Prog E3.E3_Run C06.C06_Model C06.C06_QModel C06.C06_RWRun C06.C06_E2 C06.C06_QE3 C06.C06_QE3B.
Require Extraction.
Require Import ExtrOcamlBasic.
Extraction "c06_model.ml" c06_run c06_init run_obs view rw0 qrw0 qstep qth_step qe3_run e3fin qb_run bfin b_blocked b_holdcount.
