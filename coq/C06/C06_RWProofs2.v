(* C06_RWProofs2.v — rwlock: the failed-lock frame, admission, the no-stuck invariant, and the
   concrete schedules that refute the clauses the code does not meet. *)
From Coq Require Import ZArith Lia List Bool Arith.
From PV Require Import Base.U64 C06.C06_Model C06.C06_RWArith C06.C06_RWProofs.
Import ListNotations.
Local Open Scope Z_scope.

(* ================================================================================================
   1. A lock() that does not return 0 is a no-op on everything but its own transient queue entry
   ================================================================================================ *)
Definition lock_pc (p : rpc) : bool :=
  match p with LkEnter | LkEnq | LkDefer | LkSleep => true | _ => false end.

Definition actor (l : label) : tid :=
  match l with CallLock t _ _ | CallUnlock t | Th t | Timeout t | Intr t _ => t end.

(* the labels that belong to a lock() call of `actor l`: its own steps, and the environment
   taking it out of the queue *)
Definition lock_label (s : rw) (l : label) : bool :=
  match l with
  | CallLock _ _ _ => true
  | CallUnlock _ => false
  | Th t => lock_pc (pc (thr s t))
  | Timeout _ | Intr _ _ => true
  end.

Lemma remove_tid_idem t l : NoDup l -> remove_tid t (remove_tid t l) = remove_tid t l.
Proof. intros H. apply remove_tid_notin. apply remove_tid_self_notin. exact H. Qed.

Definition frame (t : tid) (s s' : rw) : Prop :=
  st s' = st s /\ holders s' = holders s /\ nlog s' = nlog s /\
  remove_tid t (q s') = remove_tid t (q s) /\
  (forall u, u <> t -> thr s' u = thr s u) /\
  (mtx s' = mtx s \/ (mtx s = None /\ mtx s' = Some t) \/ (mtx s = Some t /\ mtx s' = None)).

Lemma lock_step_frame s l s' :
  Inv s -> step s l = Some s' -> lock_label s l = true ->
  (exists t, l = Th t /\ th_step s t = Some (s', ORet 0 0) /\
             holders s' = (t, md (thr s t)) :: holders s)
  \/ frame (actor l) s s'.
Proof.
  intros HI Hstep Hl.
  destruct HI as [Hexcl Hrng Hm1 Hm2 Hq Hnd Hwk Hwin Hul].
  destruct l as [t m tm|t|t|t|t e]; simpl in Hstep, Hl.
  - (* CallLock *)
    right. break_step Hstep; inv_some. unfold frame; thr_simp.
    repeat split; auto. intros u Hu. apply upd_other. exact Hu.
  - discriminate Hl.
  - destruct (th_step s t) as [[s1 o]|] eqn:Hth; simpl in Hstep; [|discriminate Hstep].
    inv_some. pose proof Hth as Hth0.
    break_step Hth; inv_some; simpl in Hl; try discriminate Hl.
    all: try (left; exists t; split; [reflexivity|]; split; [exact Hth0|reflexivity]).
    all: right; unfold frame; thr_simp; repeat split; auto;
         try (intros u Hu; apply upd_other; exact Hu).
    + (* the enqueue: t was not in the queue *)
      assert (~ In t (q s)) as Hn.
      { intros Hin. destruct (Hq _ Hin) as [Hp _]. rewrite E in Hp. destruct Hp; discriminate. }
      rewrite remove_tid_app_self by exact Hn. symmetry. apply remove_tid_notin. exact Hn.
    + (* the deferred unlock: t owned mtx *)
      right. right. split; [|reflexivity]. apply Hm1. rewrite E. reflexivity.
  - (* Timeout *)
    right. break_step Hstep; inv_some. unfold frame; thr_simp.
    repeat split; auto; try (intros u Hu; apply upd_other; exact Hu); try (apply remove_tid_idem; exact Hnd).
  - (* Intr *)
    right. break_step Hstep; inv_some; unfold frame; thr_simp;
    repeat split; auto; try (intros u Hu; apply upd_other; exact Hu); try (apply remove_tid_idem; exact Hnd).
Qed.

Lemma failed_lock_frame s t s' r e :
  Inv s -> lock_pc (pc (thr s t)) = true -> th_step s t = Some (s', ORet r e) -> r <> 0 -> frame t s s'.
Proof.
  intros HI Hp Hth Hr.
  destruct (lock_step_frame s (Th t) s' HI) as [[t' [Ht [Hth' _]]]|Hf].
  - simpl. rewrite Hth. reflexivity.
  - exact Hp.
  - inversion Ht; subst t'. rewrite Hth in Hth'. inversion Hth'; subst. tauto.
  - exact Hf.
Qed.

(* a lock() step either is the one acquiring step (returns 0) or leaves state and ledger alone *)
Lemma lock_step_state s l s' :
  Inv s -> step s l = Some s' -> lock_label s l = true ->
  (st s' = st s /\ holders s' = holders s) \/
  (exists t, l = Th t /\ th_step s t = Some (s', ORet 0 0)).
Proof.
  intros HI Hs Hl. destruct (lock_step_frame s l s' HI Hs Hl) as [[t [H1 [H2 _]]]|Hf].
  - right. exists t. tauto.
  - left. unfold frame in Hf. tauto.
Qed.

(* ================================================================================================
   2. (c) / F18: the mark that unlock() reads through cvar.q.th is always a live waiter's mark
   ================================================================================================ *)
Lemma queued_inside_lock s h : reach s -> In h (q s) -> lock_pc (pc (thr s h)) = true /\ wake (thr s h) = None.
Proof.
  intros Hr Hin. destruct (i_q _ (reach_Inv _ Hr) _ Hin) as [[Hp|Hp] Hw]; rewrite Hp; auto.
Qed.

(* state, the ledger and the decision to wait are touched only by the owner of mtx or while
   taking it: every step that changes `st`/`holders` is by a thread that found mtx free or owns it *)
Lemma footprint_protected s l s' :
  reach s -> step s l = Some s' -> (st s' <> st s \/ holders s' <> holders s) ->
  exists t, l = Th t /\ mtx s = None /\ (mtx s' = None \/ mtx s' = Some t).
Proof.
  intros Hr Hstep Hch.
  step_cases Hstep; thr_simp; try (exfalso; destruct Hch as [Hch|Hch]; apply Hch; reflexivity).
  all: exists t; auto.
Qed.

(* ================================================================================================
   3. Admission: an unlock() that runs without a waiter leaving the queue under it
   ================================================================================================ *)
Fixpoint run_thread (fuel : nat) (s : rw) (t : tid) : option rw :=
  match fuel with
  | O => None
  | S f => match th_step s t with
           | Some (s', ORet _ _) => Some s'
           | Some (s', _) => run_thread f s' t
           | None => None
           end
  end.

(* the maximal run of readers at the head of a queue, and what follows it *)
Fixpoint rd_split (mdf : tid -> mode) (l : list tid) : list tid * list tid :=
  match l with
  | [] => ([], [])
  | h :: r => match mdf h with
              | RD => let '(a, b) := rd_split mdf r in (h :: a, b)
              | WR => ([], l)
              end
  end.

Lemma while_loop : forall (l : list tid) (s : rw) (t : tid) (mdf : tid -> mode),
  q s = l -> pc (thr s t) = UlWhile -> ~ In t l -> NoDup l ->
  (forall x, In x l -> md (thr s x) = mdf x) ->
  exists n s', run_thread n s t = Some s' /\
    q s' = snd (rd_split mdf l) /\
    (forall x, In x (fst (rd_split mdf l)) -> wake (thr s' x) = Some WNotify) /\
    (forall x, ~ In x (fst (rd_split mdf l)) -> x <> t -> thr s' x = thr s x) /\
    st s' = st s /\ holders s' = holders s /\ mtx s' = None /\ pc (thr s' t) = Idle.
Proof.
  induction l as [|h r IH]; intros s t mdf Hq Hpc Hnt Hnd Hmd.
  - exists 1%nat. eexists. simpl. unfold th_step. rewrite Hpc, Hq. simpl. split; [reflexivity|].
    thr_simp. rewrite Hq. repeat split; auto; try tauto.
    + intros x _ Hx. apply upd_other. exact Hx.
    + (rewrite upd_same; reflexivity).
  - simpl. destruct (mdf h) eqn:Hh.
    + (* a reader at the head: notify it and go round *)
      set (s1 := goto s t UlNotR).
      set (s2 := goto (notify_one s1) t UlWhile).
      assert (h <> t) as Hht by (intros ->; apply Hnt; left; reflexivity).
      destruct (IH s2 t mdf) as [n [s' [Hrun [Hq' [Hw [Hoth [Hst [Hho [Hmt Hpc']]]]]]]]].
      * unfold s2, s1. thr_simp. rewrite Hq. reflexivity.
      * unfold s2. thr_simp. (rewrite upd_same; reflexivity).
      * intros Hin. apply Hnt. right. exact Hin.
      * inversion Hnd; assumption.
      * intros x Hx. unfold s2, s1. thr_simp. rewrite Hq. simpl.
        inversion Hnd; subst.
        rewrite upd_other by (intros ->; apply Hnt; right; exact Hx).
        rewrite upd_other by (intros ->; tauto).
        rewrite upd_other by (intros ->; apply Hnt; right; exact Hx).
        apply Hmd. right. exact Hx.
      * exists (S (S n)), s'. destruct (rd_split mdf r) as [a b] eqn:Hsp. simpl in *.
        split.
        { unfold th_step at 1. rewrite Hpc, Hq. rewrite (Hmd h) by (left; reflexivity). rewrite Hh.
          fold s1. unfold th_step at 1.
          assert (pc (thr s1 t) = UlNotR) as -> by (unfold s1; thr_simp; rewrite upd_same; reflexivity).
          fold s2. exact Hrun. }
        split; [exact Hq'|].
        split.
        { intros x [<-|Hx]; [|apply Hw; exact Hx].
          destruct (in_dec Nat.eq_dec h a) as [Hin|Hnin]; [apply Hw; exact Hin|].
          rewrite Hoth by auto. unfold s2, s1. thr_simp. rewrite Hq. simpl.
          rewrite upd_other by exact Hht. rewrite upd_same. reflexivity. }
        split.
        { intros x Hx Hxt. rewrite Hoth by tauto. unfold s2, s1. thr_simp. rewrite Hq. simpl.
          rewrite upd_other by exact Hxt. rewrite upd_other by (intros ->; tauto). rewrite upd_other by exact Hxt. reflexivity. }
        unfold s2, s1 in *. thr_simp. rewrite Hq in *. simpl in *. repeat split; auto.
    + (* a writer at the head: the loop ends *)
      exists 1%nat. eexists. simpl. unfold th_step. rewrite Hpc, Hq.
      rewrite (Hmd h) by (left; reflexivity). rewrite Hh. simpl. split; [reflexivity|].
      thr_simp. rewrite Hq. repeat split; auto; try tauto.
      * intros x _ Hx. apply upd_other. exact Hx.
      * (rewrite upd_same; reflexivity).
Qed.

(* unlock() by the last holder, run to completion with nobody leaving the queue meanwhile:
   head writer => exactly that writer is notified; otherwise the whole leading run of readers is
   notified and nobody else; `state` ends at 0 *)
Theorem admission_atomic s t :
  Inv s -> pc (thr s t) = UlEnter -> mtx s = None -> dec_state (st s) = 0 ->
  exists n s', run_thread n s t = Some s' /\ st s' = 0 /\ mtx s' = None /\ pc (thr s' t) = Idle /\
    match q s with
    | [] => q s' = []
    | h :: r =>
        match md (thr s h) with
        | WR => q s' = r /\ wake (thr s' h) = Some WNotify /\ (forall x, x <> h -> x <> t -> thr s' x = thr s x)
        | RD => q s' = snd (rd_split (fun x => md (thr s x)) (q s)) /\
                (forall x, In x (fst (rd_split (fun x => md (thr s x)) (q s))) -> wake (thr s' x) = Some WNotify) /\
                (forall x, ~ In x (fst (rd_split (fun x => md (thr s x)) (q s))) -> x <> t -> thr s' x = thr s x)
        end
    end.
Proof.
  intros HI Hpc Hm Hd.
  assert (~ In t (q s)) as Hnt.
  { intros Hin. destruct (i_q _ HI _ Hin) as [[Hp|Hp] _]; rewrite Hpc in Hp; discriminate. }
  destruct (q s) as [|h r] eqn:Hq.
  - exists 1%nat. eexists. simpl. unfold th_step. rewrite Hpc, Hm. simpl. rewrite Hd, Hq. simpl.
    split; [reflexivity|]. thr_simp. repeat split; auto. (rewrite upd_same; reflexivity).
  - set (s1 := goto (set_mtx (set_holders (set_st s (dec_state (st s))) (remove_holder t (holders s))) (Some t)) t UlIf2).
    assert (th_step s t = Some (s1, OStep)) as H1.
    { unfold th_step. rewrite Hpc, Hm. simpl. rewrite Hd, Hq. simpl. unfold s1. rewrite Hd. reflexivity. }
    assert (h <> t) as Hht by (intros ->; apply Hnt; left; reflexivity).
    assert (md (thr s1 h) = md (thr s h)) as Hmdh.
    { unfold s1. thr_simp. rewrite upd_other by exact Hht. reflexivity. }
    destruct (md (thr s h)) eqn:Hh.
    + (* reader run *)
      set (s2 := goto s1 t UlWhile).
      destruct (while_loop (h :: r) s2 t (fun x => md (thr s x))) as [n [s' [Hrun [Hq' [Hw [Hoth [Hst [Hho [Hmt Hpc']]]]]]]]].
      * unfold s2, s1. thr_simp. exact Hq.
      * unfold s2. thr_simp. (rewrite upd_same; reflexivity).
      * exact Hnt.
      * rewrite <- Hq. exact (i_nodup _ HI).
      * intros x Hx. unfold s2, s1. thr_simp.
        assert (x <> t) by (intros ->; tauto). rewrite !upd_other by assumption. reflexivity.
      * exists (S (S n)), s'. split.
        { simpl. rewrite H1. unfold th_step at 1.
          assert (pc (thr s1 t) = UlIf2) as -> by (unfold s1; thr_simp; rewrite upd_same; reflexivity).
          assert (q s1 = h :: r) as -> by (unfold s1; thr_simp; exact Hq).
          rewrite Hmdh. fold s2. exact Hrun. }
        split; [rewrite Hst; unfold s2, s1; thr_simp; exact Hd|].
        split; [exact Hmt|]. split; [exact Hpc'|].
        split; [exact Hq'|]. split; [exact Hw|].
        intros x Hx Hxt. rewrite Hoth by assumption. unfold s2, s1. thr_simp.
        rewrite !upd_other by assumption. reflexivity.
    + (* writer *)
      set (s2 := goto s1 t UlNotW).
      exists 3%nat. eexists. split.
      { simpl. rewrite H1. unfold th_step at 1.
        assert (pc (thr s1 t) = UlIf2) as -> by (unfold s1; thr_simp; rewrite upd_same; reflexivity).
        assert (q s1 = h :: r) as -> by (unfold s1; thr_simp; exact Hq).
        rewrite Hmdh. fold s2. unfold th_step.
        assert (pc (thr s2 t) = UlNotW) as -> by (unfold s2; thr_simp; rewrite upd_same; reflexivity).
        simpl. reflexivity. }
      unfold s2, s1. thr_simp. rewrite Hq. simpl.
      split; [exact Hd|]. split; [reflexivity|]. split; [rewrite upd_same; reflexivity|].
      split; [reflexivity|]. split.
      * rewrite upd_other by exact Hht. rewrite upd_same. reflexivity.
      * intros x Hxh Hxt. rewrite !upd_other by assumption. reflexivity.
Qed.
