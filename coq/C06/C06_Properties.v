(* C06_Properties.v — property C06, rwlock part: ONLY `Theorem .. exact lemma. Qed.` + Print Assumptions.
   `reach`  = states reachable by ANY interleaving of lock/unlock calls of any number of threads on any
              number of vCPUs, with timeouts and interrupts at any point (clients only unlock what they hold);
   `greach` = the same, except that no waiter leaves the queue by timeout/interrupt while an unlock() is
              between its first look at the queue and its last notify (always true on one vCPU). *)
From Coq Require Import ZArith List.
From PV Require Import Base.U64 C06.C06_Proofs.
Import ListNotations.
Local Open Scope Z_scope.

(* writers exclusive, readers shared; |state| = number of holders *)
Theorem rw_excl : forall s, reach s ->
  (forall w, In (w, WR) (holders s) -> holders s = [(w, WR)] /\ st s = -1) /\
  ((forall h, In h (holders s) -> snd h = RD) -> st s = Z.of_nat (length (holders s))) /\
  (st s = -1 \/ st s = Z.of_nat (length (holders s))) /\ -1 <= st s.
Proof. exact rw_excl_thm. Qed.
Print Assumptions rw_excl.

(* every step of a lock() call — its own steps and the environment taking it out of the queue — other
   than the one step that returns 0 leaves `state`, the ledger, the other threads and the relative order
   of the other waiters unchanged *)
Theorem rw_failed_lock_noop : forall s l s', reach s -> step s l = Some s' -> lock_label s l = true ->
  (exists t, l = Th t /\ th_step s t = Some (s', ORet 0 0) /\ holders s' = (t, md (thr s t)) :: holders s)
  \/ frame (actor l) s s'.
Proof. exact rw_failed_lock_noop_thm. Qed.
Print Assumptions rw_failed_lock_noop.

(* in particular the step that returns -1 *)
Theorem rw_failed_return_noop : forall s t s' r e, reach s ->
  lock_pc (pc (thr s t)) = true -> th_step s t = Some (s', ORet r e) -> r <> 0 -> frame t s s'.
Proof. exact rw_failed_return_noop_thm. Qed.
Print Assumptions rw_failed_return_noop.

(* (c) / F18: whoever is in cvar.q is inside lock() with its mark set, and `state`/ledger only change in
   steps that found mtx free *)
Theorem rw_mark_read_valid : forall s h, reach s -> In h (q s) ->
  lock_pc (pc (thr s h)) = true /\ wake (thr s h) = None.
Proof. exact queued_inside_lock. Qed.
Print Assumptions rw_mark_read_valid.

Theorem rw_footprint_protected : forall s l s', reach s -> step s l = Some s' ->
  (st s' <> st s \/ holders s' <> holders s) ->
  exists t, l = Th t /\ mtx s = None /\ (mtx s' = None \/ mtx s' = Some t).
Proof. exact footprint_protected. Qed.
Print Assumptions rw_footprint_protected.

(* admission: the last holder's unlock(), run with no waiter leaving the queue under it, notifies
   exactly the head writer, or exactly the leading run of readers *)
Theorem rw_admission : forall s t, reach s ->
  pc (thr s t) = UlEnter -> mtx s = None -> dec_state (st s) = 0 ->
  exists n s', run_thread n s t = Some s' /\ st s' = 0 /\ mtx s' = None /\ pc (thr s' t) = Idle /\
    match q s with
    | [] => q s' = []
    | h :: r =>
        match md (thr s h) with
        | WR => q s' = r /\ wake (thr s' h) = Some WNotify /\ (forall x, x <> h -> x <> t -> thr s' x = thr s x)
        | RD => q s' = snd (rd_split (fun x => md (thr s x)) (q s)) /\
                (forall x, In x (fst (rd_split (fun x => md (thr s x)) (q s))) -> wake (thr s' x) = Some WNotify) /\
                (forall x, ~ In x (fst (rd_split (fun x => md (thr s x)) (q s))) -> x <> t -> thr s' x = thr s x)
        end
    end.
Proof. exact rw_admission_thm. Qed.
Print Assumptions rw_admission.

(* no-stuck: lock free and nobody inside a call => nobody queued *)
Theorem rw_no_stuck : forall s, greach s -> st s = 0 -> quiescent s -> q s = [].
Proof. exact rw_no_stuck_thm. Qed.
Print Assumptions rw_no_stuck.

Theorem rw_free_and_waiters : forall s, greach s -> st s = 0 -> q s <> [] ->
  (exists u, in_window (pc (thr s u)) = true) \/ (exists a, wake (thr s a) = Some WNotify).
Proof. exact rw_free_and_waiters_thm. Qed.
Print Assumptions rw_free_and_waiters.

(* what the code does NOT guarantee (witness schedules in C06_RWProofs4.v) *)
Theorem rw_no_stuck_refuted : exists ls s, run rw0 ls = Some s /\ st s = 0 /\ quiescent s /\ q s = [2%nat] /\
  timed (thr s 2%nat) = false /\ mtx s = None.
Proof. exact rw_no_stuck_refuted_thm. Qed.
Print Assumptions rw_no_stuck_refuted.

Theorem rw_admission_refuted : exists ls s, run rw0 ls = Some s /\ st s = 0 /\ mtx s = None /\ pc (thr s 0%nat) = Idle /\
  q s = [3%nat] /\ md (thr s 3%nat) = RD /\ wake (thr s 3%nat) = None /\
  wake (thr s 2%nat) = Some WNotify /\ md (thr s 2%nat) = RD /\
  (forall x, In x (q s) -> md (thr s x) = RD).
Proof. exact rw_admission_refuted_thm. Qed.
Print Assumptions rw_admission_refuted.

Theorem rw_failed_lock_as_if_not_called_refuted : exists lsA lsB sA sB oA,
  run_obs rw0 lsA = Some (sA, oA) /\ run rw0 lsB = Some sB /\
  In (1%nat, -1, ETIMEDOUT) oA /\
  (forall l, In l lsB -> In l lsA /\ actor_of l <> 1%nat) /\
  st sA = 1 /\ q sA = [2%nat; 3%nat] /\ holds sA 2%nat = false /\ holds sA 3%nat = false /\
  st sB = 3 /\ q sB = [] /\ holds sB 2%nat = true /\ holds sB 3%nat = true.
Proof. exact rw_failed_lock_as_if_not_called_refuted_thm. Qed.
Print Assumptions rw_failed_lock_as_if_not_called_refuted.

(* ================================================================================================
   qrwlock (thread/thread.h 614-721), fine-grained: one step per atomic operation on lock_state and
   on the spinlock; `qreach` = every interleaving of lock / try_lock / unlock calls of any number
   of threads on any number of vCPUs, with timeouts and interrupts at any point.
   ================================================================================================ *)
Theorem qrw_excl : forall s, qreach s ->
  (forall w, In (w, WR) (qholders s) -> qholders s = [(w, WR)] /\ ls s = -1) /\
  ((forall h, In h (qholders s) -> snd h = RD) -> ls s = Z.of_nat (length (qholders s))) /\
  (ls s = -1 \/ ls s = Z.of_nat (length (qholders s))) /\ -1 <= ls s.
Proof. exact qrw_excl_thm. Qed.
Print Assumptions qrw_excl.

Theorem qrw_failed_noop : forall s l s', qstep s l = Some s' -> qlock_label s l = true ->
  (exists t, l = QTh t /\ qholders s' = (t, qmd (qthr s t)) :: qholders s /\
             (qp (qthr s' t) = QRel 0 0 \/ qth_step s t = Some (s', ORet 0 0)))
  \/ qframe (qactor l) s s'.
Proof. exact qlock_step_frame. Qed.
Print Assumptions qrw_failed_noop.

(* enabledness form: lock_state = 0, no unlock() between its decrement/store and the end of
   try_wake(), no notified waiter that has not re-tried yet  =>  nobody waits on either cv *)
Theorem qrw_no_lost_wake : forall s, qreach s -> ls s = 0 -> ~ qwaker s -> ~ qretrier s -> qu s = [] /\ qs s = [].
Proof. exact qrw_no_lost_wake_thm. Qed.
Print Assumptions qrw_no_lost_wake.

Theorem qrw_no_stuck : forall s, qreach s -> ls s = 0 -> qquiescent s -> qu s = [] /\ qs s = [].
Proof. exact qrw_no_stuck_thm. Qed.
Print Assumptions qrw_no_stuck.

(* admission: try_wake() (it runs under `spin`, nobody can enqueue meanwhile) run to completion: a waiting
   writer => exactly the head writer is notified; no writer waiting => every waiting reader is notified *)
Theorem qrw_admission : forall s t,
  qp (qthr s t) = QWakeU -> ~ In t (qu s) -> ~ In t (qs s) -> NoDup (qs s) ->
  exists n s', q_run_thread n s t = Some s' /\ ls s' = ls s /\ spin s' = None /\ qp (qthr s' t) = QIdle /\
    match qu s with
    | h :: r => qu s' = r /\ qs s' = qs s /\ qwake (qthr s' h) = Some WNotify /\
                (forall x, x <> h -> x <> t -> qthr s' x = qthr s x)
    | [] => qu s' = [] /\ qs s' = [] /\ (forall x, In x (qs s) -> qwake (qthr s' x) = Some WNotify) /\
            (forall x, ~ In x (qs s) -> x <> t -> qthr s' x = qthr s x)
    end.
Proof. exact qrw_try_wake_thm. Qed.
Print Assumptions qrw_admission.

(* the blocking path on the downgrade scenario (seeded change C06_1): with the timed writer's failed call the reader is still
   parked while the lock is read-held, without it the reader holds — "as if not called" is refuted for qrwlock too
   (the reader is woken by the last reader's unlock: qd_then_unlock in C06_QProofs6.v) *)
Theorem qrw_failed_lock_as_if_not_called_refuted : exists lsA lsB sA sB oA,
  qrun_obs qrw0 lsA = Some (sA, oA) /\ qrun qrw0 lsB = Some sB /\
  In (1%nat, -1, ETIMEDOUT) oA /\
  (forall l, In l lsB -> In l lsA /\ qactor_of l <> 1%nat) /\
  ls sA = 1 /\ qu sA = [] /\ qs sA = [2%nat] /\ qholds sA 2%nat = false /\
  ls sB = 2 /\ qu sB = [] /\ qs sB = [] /\ qholds sB 2%nat = true.
Proof. exact qrw_failed_lock_as_if_not_called_refuted_thm. Qed.
Print Assumptions qrw_failed_lock_as_if_not_called_refuted.

(* the E3 replay of the BLOCKING path (C06_QE3B.v <-> harness/C06/qrw_e3b.cpp: lock(mode, timeout) / try_lock / unlock between
   OS threads, every atomic operation, enqueue, notify, timer expiry a scheduled point): whatever the scripts, the schedule and
   the bound, the lock state the replay ends in (and, by the same induction, every state it passes) is reachable in the step
   relation the theorems above quantify over — each harness point is a stutter or ONE qstep with a well-formed label *)
Theorem qrw_e3b_replay_reachable : forall scripts bound sched,
  qreach (b_q (fst (fst (qb_run scripts bound sched)))).
Proof. exact qb_run_qreach_thm. Qed.
Print Assumptions qrw_e3b_replay_reachable.
