(* C06_Proofs.v — collects the proof files of property C06. *)
From PV Require Export C06.C06_Model C06.C06_RWArith C06.C06_RWProofs C06.C06_RWProofs2 C06.C06_RWProofs3 C06.C06_RWRun C06.C06_RWProofs4.
