(* C06_Proofs.v — collects the proof files of property C06. *)
From PV Require Export C06.C06_Model C06.C06_RWArith C06.C06_RWProofs C06.C06_RWProofs2 C06.C06_RWProofs3 C06.C06_RWRun C06.C06_RWProofs4.
From PV Require Export C06.C06_QModel C06.C06_QProofs C06.C06_QProofs2 C06.C06_QProofs3 C06.C06_QProofs4 C06.C06_QProofs5 C06.C06_QProofs6.
From PV Require Export E3.E3_Run C06.C06_QE3 C06.C06_QE3B C06.C06_QProofs7.
