(* C06_E2.v — the cooperative single-vCPU run of rwlock / qrwlock for engine E2.
   EXECUTABLE DEFINITIONS ONLY.

   The thread steps are those of the fine-grained models (`th_step` of C06_Model.v, `qth_step` of
   C06_QModel.v): an op of the E2 program runs the calling thread's steps until the call returns
   or the thread goes to sleep; the scheduler (run queue order, sleep-queue heap, timeouts,
   interrupts, virtual clock) is Sched/Core.v + Sched/Prog.v.  The wait queues live in Core
   (`QUser`), so before every phase the model's copy of the queue is refreshed from Core, the
   enqueue is done by Core's `do_sleep` (the model's own enqueue adds the same element at the same
   place), and each `notify_one` the steps performed is replayed on Core with
   `prelocked_interrupt h (-1)` in order. *)
From Coq Require Import ZArith List Bool Arith.
From PV Require Import Base.U64 C04.C04_Heap Sched.Core Sched.Prog C06.C06_Model C06.C06_QModel.
Import ListNotations.
Local Open Scope Z_scope.

Inductive obj : Type := ORw (s : rw) | OQ (s : qrw) | ONone.
Definition ustate : Type := list obj.

Inductive c06_op : Type :=
| RwLock (i : nat) (mode : Z) (tmo : Z)      (* rw_lock i mode t     rwlock::lock(mode, Timeout(t)) *)
| RwUnlock (i : nat)                         (* rw_unlock i          rwlock::unlock() if this thread holds lock i, else skipped *)
| RwState (i : nat)                          (* rw_state i           the `state` field *)
| QLock (i : nat) (mode : Z) (tmo : Z)       (* q_lock i mode t      qrwlock::lock(mode, Timeout(t)) *)
| QTryLock (i : nat) (mode : Z)              (* q_try i mode         qrwlock::try_lock(mode) *)
| QUnlock (i : nat)                          (* q_unlock i           qrwlock::unlock() if this thread holds lock i, else skipped *)
| QState (i : nat)                           (* q_state i            lock_state *)
| QWaiters (i : nat)                         (* q_waiters i          1000 * |cv_unique.q| + |cv_shared.q|  (probe, harness/C06/ops_qrw.cpp) *)
| RwWaiters (i : nat).                       (* rw_waiters i         |cvar.q| *)

Definition get_obj (u : ustate) (i : nat) : obj := nth i u ONone.
Definition set_obj (u : ustate) (i : nat) (o : obj) : ustate := upd_nth u i o.

(* wait queues: rwlock i -> cvar = QUser (2i); qrwlock i -> cv_unique = QUser (2i), cv_shared = QUser (2i+1) *)
Definition q_main (i : nat) : qid := QUser (2 * i).
Definition q_shared (i : nat) : qid := QUser (2 * i + 1).

Definition wake_of (r e : Z) : wake_t :=
  if r =? 0 then WTimeout else if e =? -1 then WNotify else WIntr e.

Definition apply_notifs (st : state ustate) (hs : list tid) : state ustate :=
  fold_left (fun st h => prelocked_interrupt st h (-1)) hs st.

Definition new_notifs (old new : list tid) : list tid :=
  rev (firstn (length new - length old) new).

(* ---- rwlock ----------------------------------------------------------------------------------- *)
Fixpoint rw_drive (fuel : nat) (s : rw) (t : tid) : option (rw * obs) :=
  match fuel with
  | O => None
  | S f => match th_step s t with
           | Some (s', OStep) => rw_drive f s' t
           | Some (s', o) => Some (s', o)
           | None => None
           end
  end.

(* the deferred mutex_unlock(&mtx), run by the scheduler right after the switch: the LkDefer step *)
Definition rw_defer (i : nat) (t : tid) (st : state ustate) : state ustate :=
  match get_obj (s_user st) i with
  | ORw s => match th_step s t with
             | Some (s', _) => set_user st (set_obj (s_user st) i (ORw s'))
             | None => set_stuck st
             end
  | _ => set_stuck st
  end.

Definition rw_phase (st : state ustate) (i : nat) (t : tid) (s : rw) (exp : Z) : state ustate * action ustate :=
  match rw_drive (2 * length (q s) + 8) s t with
  | None => (st, AStuck)
  | Some (s', o) =>
      let hs := new_notifs (nlog s) (nlog s') in
      let st1 := set_user st (set_obj (s_user st) i (ORw (set_nlog s' []))) in
      let st2 := apply_notifs st1 hs in
      match o with
      | ORet r e => (st2, ARet r e)
      | OSleep => (st2, ASleep exp (Some (q_main i)) (Some (rw_defer i t)) [1; exp])
      | OStep => (st2, AStuck)
      end
  end.

Definition rw_mode (z : Z) : option mode :=
  if z =? RLOCK then Some RD else if z =? WLOCK then Some WR else None.

(* ---- qrwlock ---------------------------------------------------------------------------------- *)
Fixpoint q_drive (fuel : nat) (s : qrw) (t : tid) : option (qrw * obs) :=
  match fuel with
  | O => None
  | S f => match qth_step s t with
           | Some (s', OStep) => q_drive f s' t
           | Some (s', o) => Some (s', o)
           | None => None
           end
  end.

Definition q_defer (i : nat) (t : tid) (st : state ustate) : state ustate :=
  match get_obj (s_user st) i with
  | OQ s => match qth_step s t with
            | Some (s', _) => set_user st (set_obj (s_user st) i (OQ s'))
            | None => set_stuck st
            end
  | _ => set_stuck st
  end.

Definition q_phase (st : state ustate) (i : nat) (t : tid) (s : qrw) (exp : Z) : state ustate * action ustate :=
  match q_drive (2 * (length (qu s) + length (qs s)) + 16) s t with
  | None => (st, AStuck)
  | Some (s', o) =>
      let hs := new_notifs (qnlog s) (qnlog s') in
      let st1 := set_user st (set_obj (s_user st) i (OQ (qset_nlog s' []))) in
      let st2 := apply_notifs st1 hs in
      match o with
      | ORet r e => (st2, ARet r e)
      | OSleep =>
          let wq := match qmd (qthr s' t) with WR => q_main i | RD => q_shared i end in
          (st2, ASleep exp (Some wq) (Some (q_defer i t)) [1; exp])
      | OStep => (st2, AStuck)
      end
  end.

Definition q_mode (z : Z) : mode := if z =? WLOCK then WR else RD.    (* 700, 693: anything but WLOCK is shared *)

Definition c06_step (st : state ustate) (t : tid) (o : c06_op) (k : kont) : state ustate * action ustate :=
  match o with
  | RwLock i mz tmo =>
      match get_obj (s_user st) i with
      | ORw s0 =>
          let s := set_q s0 (wq_get st (q_main i)) in
          match k with
          | [] =>
              match rw_mode mz with
              | None => (st, ARet (-1) EINVAL)                                  (* 1947-1948 *)
              | Some m =>
                  let exp := timeout_of (s_now st) tmo in
                  match C06_Model.step s (CallLock t m (negb (tmo =? MAX64))) with
                  | Some s1 => rw_phase st i t s1 exp
                  | None => (st, AStuck)
                  end
              end
          | [1; exp] =>
              let '(st1, r, e) := ret_after_sleep st t in
              rw_phase st1 i t (set_thr s t (set_wake (thr s t) (Some (wake_of r e)))) exp
          | _ => (st, AStuck)
          end
      | _ => (st, ARet SKIPPED 0)
      end
  | RwUnlock i =>
      match get_obj (s_user st) i with
      | ORw s0 =>
          let s := set_q s0 (wq_get st (q_main i)) in
          if holds s t then
            match C06_Model.step s (CallUnlock t) with
            | Some s1 => rw_phase st i t s1 0
            | None => (st, AStuck)
            end
          else (st, ARet SKIPPED 0)
      | _ => (st, ARet SKIPPED 0)
      end
  | RwState i =>
      match get_obj (s_user st) i with
      | ORw s0 => (st, ARet (C06_Model.st s0) 0)
      | _ => (st, ARet SKIPPED 0)
      end
  | QLock i mz tmo =>
      match get_obj (s_user st) i with
      | OQ s0 =>
          let s := qset_qs (qset_qu s0 (wq_get st (q_main i))) (wq_get st (q_shared i)) in
          match k with
          | [] =>
              let exp := timeout_of (s_now st) tmo in
              match qstep s (QCallLock t (q_mode mz) (negb (tmo =? MAX64))) with
              | Some s1 => q_phase st i t s1 exp
              | None => (st, AStuck)
              end
          | [1; exp] =>
              let '(st1, r, e) := ret_after_sleep st t in
              q_phase st1 i t (qset_thr s t (qset_wake (qthr s t) (Some (wake_of r e)))) exp
          | _ => (st, AStuck)
          end
      | _ => (st, ARet SKIPPED 0)
      end
  | QTryLock i mz =>
      match get_obj (s_user st) i with
      | OQ s0 =>
          let s := qset_qs (qset_qu s0 (wq_get st (q_main i))) (wq_get st (q_shared i)) in
          match qstep s (QCallTry t (q_mode mz)) with
          | Some s1 => q_phase st i t s1 0
          | None => (st, AStuck)
          end
      | _ => (st, ARet SKIPPED 0)
      end
  | QUnlock i =>
      match get_obj (s_user st) i with
      | OQ s0 =>
          let s := qset_qs (qset_qu s0 (wq_get st (q_main i))) (wq_get st (q_shared i)) in
          if qholds s t then
            match qstep s (QCallUnlock t) with
            | Some s1 => q_phase st i t s1 0
            | None => (st, AStuck)
            end
          else (st, ARet SKIPPED 0)
      | _ => (st, ARet SKIPPED 0)
      end
  | QState i =>
      match get_obj (s_user st) i with
      | OQ s0 => (st, ARet (ls s0) 0)
      | _ => (st, ARet SKIPPED 0)
      end
  | QWaiters i =>
      match get_obj (s_user st) i with
      | OQ _ => (st, ARet (1000 * Z.of_nat (length (wq_get st (q_main i))) + Z.of_nat (length (wq_get st (q_shared i)))) 0)
      | _ => (st, ARet SKIPPED 0)
      end
  | RwWaiters i =>
      match get_obj (s_user st) i with
      | ORw _ => (st, ARet (Z.of_nat (length (wq_get st (q_main i)))) 0)
      | _ => (st, ARet SKIPPED 0)
      end
  end.

Definition c06_run (fuel : nat) (ps : list (list (op c06_op))) (u0 : ustate) :=
  coop_result c06_step ps fuel VCLOCK_START u0.

(* decl kinds: 1 = rwlock, 2 = qrwlock, other = not ours *)
Definition mk_obj (kind : Z) : obj :=
  if kind =? 1 then ORw rw0 else if kind =? 2 then OQ qrw0 else ONone.
Definition c06_init (kinds : list Z) : ustate := map mk_obj kinds.
