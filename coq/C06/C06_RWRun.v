(* C06_RWRun.v — executable helpers over the fine-grained rwlock model: run a schedule and
   collect the values returned by completed calls.  DEFINITIONS ONLY. *)
From Coq Require Import ZArith List Bool Arith.
From PV Require Import Base.U64 C06.C06_Model.
Import ListNotations.
Local Open Scope Z_scope.

(* (thread, return value, errno) of every call completed, oldest first *)
Definition rets := list (tid * Z * Z).

Definition step_obs (s : rw) (l : label) : option (rw * rets) :=
  match l with
  | Th t => match th_step s t with
            | Some (s', ORet r e) => Some (s', [(t, r, e)])
            | Some (s', _) => Some (s', [])
            | None => None
            end
  | _ => match step s l with Some s' => Some (s', []) | None => None end
  end.

Fixpoint run_obs (s : rw) (ls : list label) : option (rw * rets) :=
  match ls with
  | [] => Some (s, [])
  | l :: r =>
      if wf_label s l then
        match step_obs s l with
        | Some (s1, o1) => match run_obs s1 r with
                           | Some (s2, o2) => Some (s2, o1 ++ o2)
                           | None => None
                           end
        | None => None
        end
      else None
  end.

(* a finite view of a state for n threads: (st, mtx, q, holders, [(pc, md, wake)]) *)
Definition pc_code (p : rpc) : Z :=
  match p with
  | Idle => 0 | LkEnter => 1 | LkEnq => 2 | LkDefer => 3 | LkSleep => 4
  | UlEnter => 5 | UlIf2 => 6 | UlNotW => 7 | UlWhile => 8 | UlNotR => 9
  end.
Definition wake_code (w : option wake_t) : Z :=
  match w with None => 0 | Some WNotify => -1 | Some WTimeout => -2 | Some (WIntr e) => e end.
Definition view (n : nat) (s : rw) : Z * option tid * list tid * list (tid * mode) * list (Z * Z) :=
  (st s, mtx s, q s, holders s, map (fun t => (pc_code (pc (thr s t)), wake_code (wake (thr s t)))) (seq 0 n)).

Definition actor_of (l : label) : tid :=
  match l with CallLock t _ _ | CallUnlock t | Th t | Timeout t | Intr t _ => t end.
