(* C06_QProofs5.v — qrwlock admission: try_wake() run to completion (it runs under `spin`, so nobody
   can enqueue meanwhile): a waiting writer => exactly the head writer is notified; no writer
   waiting => every waiting reader is notified. *)
From Coq Require Import ZArith Lia List Bool Arith.
From PV Require Import Base.U64 C06.C06_Model C06.C06_RWProofs C06.C06_QModel C06.C06_QProofs.
Import ListNotations.
Local Open Scope Z_scope.

Fixpoint q_run_thread (fuel : nat) (s : qrw) (t : tid) : option qrw :=
  match fuel with
  | O => None
  | S f => match qth_step s t with
           | Some (s', ORet _ _) => Some s'
           | Some (s', _) => q_run_thread f s' t
           | None => None
           end
  end.

Lemma wake_all_loop : forall (l : list tid) (s : qrw) (t : tid),
  qs s = l -> qp (qthr s t) = QWakeS -> ~ In t l -> NoDup l ->
  exists n s', q_run_thread n s t = Some s' /\ qs s' = [] /\ qu s' = qu s /\ ls s' = ls s /\
    spin s' = None /\ qp (qthr s' t) = QIdle /\
    (forall x, In x l -> qwake (qthr s' x) = Some WNotify) /\
    (forall x, ~ In x l -> x <> t -> qthr s' x = qthr s x).
Proof.
  induction l as [|h r IH]; intros s t Hq Hpc Hnt Hnd.
  - exists 2%nat. eexists. cbn [q_run_thread]. unfold qth_step at 1. rewrite Hpc, Hq. cbn [qgoto qset_thr qset_pc qp qthr].
    unfold qth_step. qthr_simp. rewrite upd_same. simpl. split; [reflexivity|].
    qthr_simp. rewrite Hq. repeat split; auto; try tauto.
    + rewrite upd_same. reflexivity.
    + intros x _ Hx. rewrite !upd_other by exact Hx. reflexivity.
  - assert (h <> t) as Hht by (intros ->; apply Hnt; left; reflexivity).
    set (s1 := q_notify (qset_qs s r) h).
    destruct (IH s1 t) as [n [s' [Hrun [Hqs [Hqu [Hls [Hsp [Hp [Hw Hoth]]]]]]]]].
    + reflexivity.
    + unfold s1, q_notify. qthr_simp. rewrite upd_other by (intros E; apply Hht; symmetry; exact E). exact Hpc.
    + intros Hin. apply Hnt. right. exact Hin.
    + inversion Hnd; assumption.
    + exists (S n), s'. split.
      { cbn [q_run_thread]. unfold qth_step at 1. rewrite Hpc, Hq. fold s1. exact Hrun. }
      split; [exact Hqs|]. split; [rewrite Hqu; reflexivity|]. split; [rewrite Hls; reflexivity|].
      split; [exact Hsp|]. split; [exact Hp|]. split.
      * intros x [<-|Hx]; [|apply Hw; exact Hx].
        inversion Hnd; subst. rewrite Hoth by assumption.
        unfold s1, q_notify. qthr_simp. rewrite upd_same. reflexivity.
      * intros x Hx Hxt. rewrite Hoth; [|intros Hin; apply Hx; right; exact Hin|exact Hxt].
        unfold s1, q_notify. qthr_simp. rewrite upd_other; [reflexivity|]. intros ->. apply Hx. left. reflexivity.
Qed.

Theorem qrw_try_wake_thm s t :
  qp (qthr s t) = QWakeU -> ~ In t (qu s) -> ~ In t (qs s) -> NoDup (qs s) ->
  exists n s', q_run_thread n s t = Some s' /\ ls s' = ls s /\ spin s' = None /\ qp (qthr s' t) = QIdle /\
    match qu s with
    | h :: r => qu s' = r /\ qs s' = qs s /\ qwake (qthr s' h) = Some WNotify /\
                (forall x, x <> h -> x <> t -> qthr s' x = qthr s x)
    | [] => qu s' = [] /\ qs s' = [] /\ (forall x, In x (qs s) -> qwake (qthr s' x) = Some WNotify) /\
            (forall x, ~ In x (qs s) -> x <> t -> qthr s' x = qthr s x)
    end.
Proof.
  intros Hpc Hnu Hns Hnd.
  destruct (qu s) as [|h r] eqn:Hq.
  - set (s1 := qgoto s t QWakeS).
    destruct (wake_all_loop (qs s) s1 t) as [n [s' [Hrun [Hqs [Hqu [Hls [Hsp [Hp [Hw Hoth]]]]]]]]].
    + reflexivity.
    + unfold s1. qthr_simp. rewrite upd_same. reflexivity.
    + exact Hns.
    + exact Hnd.
    + exists (S n), s'. split.
      { cbn [q_run_thread]. unfold qth_step at 1. rewrite Hpc, Hq. fold s1. exact Hrun. }
      split; [exact Hls|]. split; [exact Hsp|]. split; [exact Hp|].
      split; [rewrite Hqu; unfold s1; qthr_simp; exact Hq|]. split; [exact Hqs|]. split; [exact Hw|].
      intros x Hx Hxt. rewrite Hoth by assumption. unfold s1. qthr_simp. rewrite upd_other by exact Hxt. reflexivity.
  - assert (h <> t) as Hht by (intros ->; apply Hnu; left; reflexivity).
    exists 2%nat. eexists. split.
    { cbn [q_run_thread]. unfold qth_step at 1. rewrite Hpc, Hq. unfold qth_step, q_notify. qthr_simp.
      rewrite upd_same. simpl. reflexivity. }
    qthr_simp. repeat split; auto.
    + rewrite upd_same. reflexivity.
    + rewrite upd_other by exact Hht. rewrite upd_other by exact Hht. rewrite upd_same. reflexivity.
    + intros x Hxh Hxt. rewrite !upd_other by assumption. reflexivity.
Qed.
