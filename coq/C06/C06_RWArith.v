(* C06_RWArith.v — the rotate trick of rwlock::lock (thread.cpp 1958-1971) means what the comment says:
   `op & state` is "a writer holds" for RLOCK and "anybody holds" for WLOCK; `state += rol(op)` is +1 / -1. *)
From Coq Require Import ZArith Lia Bool.
From PV Require Import Base.U64 C06.C06_Model.
Local Open Scope Z_scope.

Lemma I63_eq : I63 = 2 ^ 63. Proof. reflexivity. Qed.

Lemma land_I63 x : 0 <= x < W64 -> (Z.land I63 x =? 0) = (x <? I63).
Proof.
  intros Hx. destruct (Z.ltb_spec x I63) as [Hlt|Hge].
  - apply Z.eqb_eq. apply Z.bits_inj'. intros n Hn.
    rewrite Z.land_spec, Z.bits_0.
    destruct (Z.eq_dec n 63) as [->|Hne].
    + assert (Z.testbit x 63 = false) as ->.
      { apply Z.testbit_false; [lia|]. rewrite Z.div_small; [reflexivity|]. rewrite I63_eq in Hlt. lia. }
      apply andb_false_r.
    + rewrite I63_eq, Z.pow2_bits_false by lia. reflexivity.
  - apply Z.eqb_neq. intros H0.
    assert (Z.testbit (Z.land I63 x) 63 = true) as Hb.
    { rewrite Z.land_spec, I63_eq, Z.pow2_bits_true by lia. rewrite andb_true_l.
      apply Z.testbit_true; [lia|].
      assert (x / 2 ^ 63 = 1) as ->; [|reflexivity].
      symmetry. apply Z.div_unique with (r := x - 2 ^ 63); [left|]; rewrite ?I63_eq in *; unfold W64 in *; lia. }
    rewrite H0, Z.bits_0 in Hb. discriminate.
Qed.

Lemma land_MAX64 x : 0 <= x < W64 -> Z.land MAX64 x = x.
Proof.
  intros Hx. rewrite Z.land_comm. change MAX64 with (Z.ones 64).
  rewrite Z.land_ones by lia. apply Z.mod_small. exact Hx.
Qed.

Lemma conflict_RD s : - I63 <= s < I63 -> conflict RD s = (s <? 0).
Proof.
  intros Hs. unfold conflict, op_of, to_u64.
  rewrite land_I63 by apply wrap_range.
  destruct (Z.ltb_spec s 0) as [Hneg|Hpos].
  - rewrite wrap_neg_small by (unfold I63, W64 in *; lia).
    destruct (Z.ltb_spec (s + W64) I63); [unfold I63, W64 in *; lia|reflexivity].
  - rewrite wrap_small by (unfold I63, W64 in *; lia).
    destruct (Z.ltb_spec s I63); [reflexivity|lia].
Qed.

Lemma conflict_WR s : - I63 <= s < I63 -> conflict WR s = negb (s =? 0).
Proof.
  intros Hs. unfold conflict, op_of, to_u64.
  rewrite land_MAX64 by apply wrap_range. f_equal.
  destruct (Z.ltb_spec s 0) as [Hneg|Hpos].
  - rewrite wrap_neg_small by (unfold I63, W64 in *; lia).
    destruct (Z.eqb_spec (s + W64) 0), (Z.eqb_spec s 0); try reflexivity; unfold I63, W64 in *; lia.
  - rewrite wrap_small by (unfold I63, W64 in *; lia). reflexivity.
Qed.

Lemma rol1_RD : rol1 (op_of RD) = 1. Proof. reflexivity. Qed.
Lemma rol1_WR : rol1 (op_of WR) = MAX64. Proof. reflexivity. Qed.

Lemma add_op_RD s : - I63 <= s < I63 - 1 -> add_op RD s = s + 1.
Proof.
  intros Hs. unfold add_op, to_u64, to_i64. rewrite rol1_RD.
  destruct (Z.ltb_spec s 0) as [Hneg|Hpos].
  - rewrite (wrap_neg_small s) by (unfold I63, W64 in *; lia).
    destruct (Z.eq_dec s (-1)) as [->|Hne].
    + reflexivity.
    + rewrite wrap_small by (unfold I63, W64 in *; lia).
      destruct (Z.ltb_spec (s + W64 + 1) I63); unfold I63, W64 in *; lia.
  - rewrite (wrap_small s) by (unfold I63, W64 in *; lia).
    rewrite wrap_small by (unfold I63, W64 in *; lia).
    destruct (Z.ltb_spec (s + 1) I63); unfold I63, W64 in *; lia.
Qed.

Lemma add_op_WR s : - I63 < s < I63 -> add_op WR s = s - 1.
Proof.
  intros Hs. unfold add_op, to_u64, to_i64. rewrite rol1_WR.
  destruct (Z.ltb_spec s 1) as [Hneg|Hpos].
  - destruct (Z.eq_dec s 0) as [->|Hne]; [reflexivity|].
    rewrite (wrap_neg_small s) by (unfold I63, W64 in *; lia).
    rewrite wrap_over_small by (unfold I63, W64, MAX64 in *; lia).
    destruct (Z.ltb_spec (s + W64 + MAX64 - W64) I63); unfold I63, W64, MAX64 in *; lia.
  - rewrite (wrap_small s) by (unfold I63, W64 in *; lia).
    rewrite wrap_over_small by (unfold I63, W64, MAX64 in *; lia).
    destruct (Z.ltb_spec (s + MAX64 - W64) I63); unfold I63, W64, MAX64 in *; lia.
Qed.

Lemma in_range_spec s : in_range s = true -> - I63 + 1 < s < I63 - 1.
Proof. unfold in_range. rewrite andb_true_iff, !Z.ltb_lt. tauto. Qed.
