(* Base/U64.v — 64-bit unsigned arithmetic as Z with the wrap written out.
   Executable definitions + the small lemmas every model needs. *)
From Coq Require Import ZArith Lia List Bool.
Import ListNotations.
Local Open Scope Z_scope.

Definition W64 : Z := 18446744073709551616.      (* 2^64 *)
Definition MAX64 : Z := 18446744073709551615.    (* 2^64 - 1 *)

Definition wrap (x : Z) : Z := x mod W64.
Definition u64_add (x y : Z) : Z := wrap (x + y).
Definition u64_sub (x y : Z) : Z := wrap (x - y).
Definition u64_mul (x y : Z) : Z := wrap (x * y).
Definition sat_add (x y : Z) : Z := if MAX64 <? x + y then MAX64 else x + y.
Definition sat_sub (x y : Z) : Z := if x <? y then 0 else x - y.
Definition in_u64 (x : Z) : Prop := 0 <= x < W64.
Definition in_u64b (x : Z) : bool := (0 <=? x) && (x <? W64).

Lemma W64_pos : 0 < W64. Proof. reflexivity. Qed.
Lemma W64_eq : W64 = 2 ^ 64. Proof. reflexivity. Qed.
Lemma MAX64_eq : MAX64 = W64 - 1. Proof. reflexivity. Qed.

Lemma wrap_small x : 0 <= x < W64 -> wrap x = x.
Proof. intros H. unfold wrap. apply Z.mod_small. exact H. Qed.

Lemma wrap_range x : 0 <= wrap x < W64.
Proof. unfold wrap. apply Z.mod_pos_bound. exact W64_pos. Qed.

Lemma wrap_add_W x : wrap (x + W64) = wrap x.
Proof. unfold wrap. rewrite <- (Z.mul_1_l W64) at 1. apply Z.mod_add. discriminate. Qed.

Lemma wrap_sub_W x : wrap (x - W64) = wrap x.
Proof. rewrite <- (wrap_add_W (x - W64)). f_equal. lia. Qed.

Lemma wrap_neg_small x : - W64 <= x < 0 -> wrap x = x + W64.
Proof. intros H. rewrite <- wrap_add_W. apply wrap_small. lia. Qed.

Lemma wrap_over_small x : W64 <= x < 2 * W64 -> wrap x = x - W64.
Proof. intros H. rewrite <- wrap_sub_W. apply wrap_small. lia. Qed.

Lemma in_u64b_spec x : in_u64b x = true <-> in_u64 x.
Proof. unfold in_u64b, in_u64. rewrite andb_true_iff, Z.leb_le, Z.ltb_lt. tauto. Qed.

Lemma sat_add_le x y : 0 <= x -> 0 <= y -> x <= MAX64 -> sat_add x y <= MAX64.
Proof. intros. unfold sat_add. destruct (Z.ltb_spec MAX64 (x + y)); lia. Qed.
