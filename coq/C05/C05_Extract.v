(* Extraction of the C05 models: ExtrOcamlBasic only. *)
From Coq Require Import ZArith List.
From PV Require Import Base.U64 E3.E3_Run C05.C05_Asym C05.C05_Model C05.C05_E4.
Require Extraction.
Require Import ExtrOcamlBasic.
Extraction "c05_model.ml" coop_result asym_e3
  (* engine E4 (controlled multi-vCPU replay): the proved step function and the command layer over it *)
  init_state step cmd_labels f23_class phys_clash getth getvc offline.
