(* Extraction of the C05 models: ExtrOcamlBasic only. *)
From Coq Require Import ZArith List.
From PV Require Import Base.U64 E3.E3_Run C05.C05_Asym C05.C05_Model.
Require Extraction.
Require Import ExtrOcamlBasic.
Extraction "c05_model.ml" coop_result asym_e3.
