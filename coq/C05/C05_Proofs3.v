(* C05_Proofs3.v — third invariant layer: thread.lock / pending actions / dispose and join counters
   (join_exact) and the per-vCPU thread count (nthreads_restored). *)
From Coq Require Import ZArith List Bool Arith Lia.
From PV Require Import Base.U64 C05.C05_Model C05.C05_Proofs C05.C05_Proofs2.
Import ListNotations.
Local Open Scope nat_scope.

(* ---- the configuration (number of vCPUs / threads) never changes ---------------------------- *)
Definition same_cfg (s s' : state) : Prop := s_n s' = s_n s /\ s_nv s' = s_nv s.
Lemma same_cfg_refl : forall s, same_cfg s s. Proof. split; reflexivity. Qed.
Lemma same_cfg_trans : forall a b c, same_cfg a b -> same_cfg b c -> same_cfg a c.
Proof. unfold same_cfg. intros a b c [] []. split; congruence. Qed.

Ltac cfg_tac :=
  repeat match goal with
  | |- same_cfg ?s ?s => apply same_cfg_refl
  | |- same_cfg _ (if ?b then _ else _) => destruct b
  | |- same_cfg _ (match ?x with _ => _ end) => destruct x
  | |- same_cfg _ (let '(_, _) := ?x in _) => destruct x
  end; try (split; reflexivity).

Lemma cfg_switch_in : forall s n, same_cfg s (switch_in s n). Proof. intros. split; reflexivity. Qed.
Lemma cfg_dequeue : forall s t, same_cfg s (dequeue s t).
Proof. intros. unfold dequeue. destruct (th_waitq _); split; reflexivity. Qed.
Lemma cfg_wake : forall s v t e, same_cfg s (wake s v t e).
Proof.
  intros. unfold wake. set (s1 := dequeue _ t).
  assert (same_cfg s s1). { unfold s1. eapply same_cfg_trans; [|apply cfg_dequeue]. split; reflexivity. }
  destruct (Nat.eqb _ v); (eapply same_cfg_trans; [eassumption|split; reflexivity]).
Qed.
Lemma cfg_yield : forall s v ce d, same_cfg s (do_yield s v ce d).
Proof. intros. unfold do_yield. destruct (v_runq _) as [|c [|n r]]; split; reflexivity. Qed.
Lemma cfg_sleep : forall s v e w d, same_cfg s (do_sleep s v e w d).
Proof.
  intros. unfold do_sleep. destruct (v_runq _) as [|c [|n r]]; try (split; reflexivity).
  match goal with |- same_cfg _ (if ?b then _ else _) => destruct b end; destruct w; split; reflexivity.
Qed.
Lemma cfg_interrupt : forall s v t e s', do_interrupt s v t e = Some s' -> same_cfg s s'.
Proof.
  intros s v t e s'. unfold do_interrupt. destruct (th_state _); intro H; try (inversion H; subst; apply same_cfg_refl).
  - destruct (Z.eqb _ 0); inversion H; subst; split; reflexivity.
  - destruct (lock_free _); inversion H; subst. apply cfg_wake.
Qed.
Lemma cfg_die : forall s v r s', do_die s v r = Some s' -> same_cfg s s'.
Proof.
  intros s v r s'. unfold do_die. destruct (v_runq _) as [|c [|n rest]]; try (intro H; inversion H; subst; split; reflexivity).
  cbv zeta. match goal with |- (if negb ?b then _ else _) = _ -> _ => destruct b end; cbn [negb]; [|discriminate].
  intro H. inversion H; subst s'; clear H.
  destruct (th_joiners _) as [|j js].
  - split; reflexivity.
  - destruct (cfg_wake s v j (-1)%Z) as [a b]. split; cbn; auto.
Qed.
Lemma cfg_migrate : forall s v t u s' b, do_migrate s v t u = Some (s', b) -> same_cfg s s'.
Proof.
  intros s v t u s' b. unfold do_migrate. destruct (negb _); [discriminate|].
  match goal with |- (if ?c then _ else _) = _ -> _ => destruct c end; intro H; inversion H; subst; split; reflexivity.
Qed.
Lemma cfg_exec_pend : forall s v, same_cfg s (exec_pend s v).
Proof.
  intros. unfold exec_pend. destruct (v_pend _) as [|f d|f]; try apply same_cfg_refl.
  - destruct d as [|t|t u]; try (split; reflexivity).
    destruct (do_migrate _ v t u) as [[s1 b]|] eqn:M; [|apply same_cfg_refl].
    apply cfg_migrate in M. destruct M. split; cbn in *; congruence.
  - destruct (th_joinable _); split; reflexivity.
Qed.
Lemma cfg_ret : forall s c r e, same_cfg s (ret s c r e). Proof. intros. split; reflexivity. Qed.
Lemma cfg_setk : forall s c k, same_cfg s (setk s c k). Proof. intros. split; reflexivity. Qed.
Lemma cfg_sen : forall s c, same_cfg s (fst (fst (set_error_number s c))).
Proof. intros. unfold set_error_number. destruct (Z.eqb _ 0); split; reflexivity. Qed.
Lemma cfg_join_check : forall s v c j, same_cfg s (join_check s v c j).
Proof.
  intros. unfold join_check. destruct (tstate_eqb _ NOTCREATED); [split; reflexivity|].
  destruct (negb (th_joinable _)); [split; reflexivity|].
  destruct (negb _); [apply same_cfg_refl|].
  destruct (tstate_eqb _ DONE); [split; reflexivity|].
  destruct (negb _); [apply same_cfg_refl|].
  eapply same_cfg_trans; [|apply cfg_sleep]. split; reflexivity.
Qed.
Ltac cfg_chain := eapply same_cfg_trans; [|first [apply cfg_ret | apply cfg_setk | apply cfg_yield | apply cfg_sleep]]; try (split; reflexivity).
Lemma cfg_wait_all_op : forall progs s v c f, same_cfg s (wait_all_op progs s v c f).
Proof.
  intros. unfold wait_all_op.
  assert (W : same_cfg s (wait_check progs s v c f)).
  { unfold wait_check. destruct (wait_cond s v); [|apply cfg_ret].
    destruct (v_sleepq _); [cfg_chain|].
    destruct (expired _ _); [cfg_chain|]. destruct (lock_free _); [cfg_chain|apply same_cfg_refl]. }
  destruct (Nat.eqb c v); [|destruct f; [split; reflexivity|apply cfg_ret]].
  destruct (th_k _) as [|[|[|k]]]; auto.
  - pose proof (cfg_sen s c) as X. destruct (set_error_number s c) as [[s1 r] e]. cbn in X.
    eapply same_cfg_trans; [exact X|apply cfg_setk].
  - apply cfg_setk.
Qed.
Lemma cfg_exec_op : forall progs s v c o, same_cfg s (exec_op progs s v c o).
Proof.
  intros. unfold exec_op. destruct o as [d| |j e|j jn ws|j| | |j|j u| |]; try apply cfg_wait_all_op.
  - destruct (th_k _) as [|[|k]].
    + destruct (expired _ _); [cfg_chain|]. destruct (lock_free _); [cfg_chain|apply same_cfg_refl].
    + pose proof (cfg_sen s c) as X. destruct (set_error_number s c) as [[s1 r] e]. cbn in X.
      eapply same_cfg_trans; [exact X|apply cfg_ret].
    + destruct (Z.eqb _ 0); apply cfg_ret.
  - destruct (th_k _); [cfg_chain|apply cfg_ret].
  - destruct (alive _ _ _); [|apply cfg_ret].
    destruct (do_interrupt s v j e) as [s1|] eqn:D; [|apply same_cfg_refl].
    eapply same_cfg_trans; [eapply cfg_interrupt; eauto|apply cfg_ret].
  - destruct (_ && _); [|apply cfg_ret]. cfg_chain.
  - destruct (th_k _) as [|[|k]].
    + destruct (_ && _); [|apply cfg_ret]. split; reflexivity.
    + apply cfg_join_check.
    + pose proof (cfg_sen s c) as X. destruct (set_error_number s c) as [[s1 r] e]. cbn in X.
      eapply same_cfg_trans; [exact X|apply cfg_setk].
  - apply cfg_ret.
  - apply cfg_ret.
  - destruct (_ && _); apply cfg_ret.
  - destruct (th_k _); [|apply cfg_ret].
    destruct (negb _); [apply cfg_ret|].
    destruct (Nat.eqb u v); [apply cfg_ret|].
    destruct (Nat.eqb j c); [cfg_chain|].
    destruct (negb _); [apply cfg_ret|].
    destruct (negb _); [apply cfg_ret|].
    destruct (do_migrate s v j u) as [[s1 [|]]|] eqn:M; [| |apply same_cfg_refl];
      (eapply same_cfg_trans; [eapply cfg_migrate; eauto|apply cfg_ret]).
Qed.
Lemma cfg_step_vcpu : forall progs s v, same_cfg s (step_vcpu progs s v).
Proof.
  intros. unfold step_vcpu. destruct (negb _); [apply cfg_exec_pend|].
  destruct (v_runq _) as [|c rest]; [split; reflexivity|].
  destruct (th_state _); try (split; reflexivity).
  destruct (th_kind _).
  - destruct (nth_error _ _); [apply cfg_exec_op|].
    destruct (th_k _).
    + destruct (lock_free _); [|apply same_cfg_refl]. eapply same_cfg_trans; [|apply cfg_sleep]. split; reflexivity.
    + pose proof (cfg_sen s c) as X. destruct (set_error_number s c) as [[s1 r] e]. cbn in X.
      eapply same_cfg_trans; [exact X|apply cfg_setk].
  - destruct rest; [apply same_cfg_refl|apply cfg_yield].
  - destruct (nth_error _ _); [apply cfg_exec_op|].
    destruct (do_die s v _) as [s1|] eqn:D; [|apply same_cfg_refl]. eapply cfg_die; eauto.
Qed.
Lemma cfg_drain_list : forall l s v, same_cfg s (drain_list s v l).
Proof.
  induction l; cbn; intros; [apply same_cfg_refl|].
  eapply same_cfg_trans; [|apply IHl]. unfold drain_one. destruct (negb _); split; reflexivity.
Qed.
Lemma cfg_step : forall progs s l, same_cfg s (step progs s l).
Proof.
  intros. unfold step. destruct (s_stuck s); [apply same_cfg_refl|]. destruct (frozen _ _ _); [apply same_cfg_refl|].
  destruct l as [v|v|v|v u t|d].
  - destruct (Nat.ltb _ _); [|apply same_cfg_refl]. destruct (pend_to_offline _ _ _); [split; reflexivity|apply cfg_step_vcpu].
  - destruct (_ && _); [apply cfg_drain_list|apply same_cfg_refl].
  - destruct (_ && _); [|apply same_cfg_refl]. unfold do_resume.
    destruct (v_sleepq _) as [|t rest]; [apply same_cfg_refl|]. destruct (Z.ltb _ _); [apply same_cfg_refl|].
    destruct (negb _); [apply same_cfg_refl|]. destruct (tstate_eqb _ _).
    + destruct (cfg_dequeue s t). split; cbn; auto.
    + split; reflexivity.
  - destruct (_ && _); [|apply same_cfg_refl]. unfold do_steal.
    destruct (negb _); [apply same_cfg_refl|]. destruct (mem_tid _ _); [split; reflexivity|].
    destruct (_ && _); [split; reflexivity|apply same_cfg_refl].
  - destruct (Z.leb _ _); split; reflexivity.
Qed.
Lemma cfg_run : forall progs ls s, same_cfg s (run progs s ls).
Proof. induction ls; cbn; intros; [apply same_cfg_refl|]. eapply same_cfg_trans; [apply cfg_step|apply IHls]. Qed.

(* ---- thread.lock, pending actions, dispose / join counters ------------------------------------ *)
Definition thr_ok (th : thread) : Prop :=
  ((g_joinret th = 0 /\ (th_joinable th = true -> g_disposed th = 0)) \/
   (g_joinret th = 1 /\ th_joinable th = true /\ g_disposed th = 1 /\ g_finished th = 1 /\
    th_lock th = LJoin /\ g_joinval th = th_retval th)) /\
  (th_joinable th = false -> g_disposed th <= 1 /\ (g_disposed th = 1 -> g_finished th = 1 /\ th_lock th = LSelf)).

Record InvL (s : state) : Prop := mkInvL {
  l_die : forall v t, v_pend (s_vc s v) = PDie t ->
            g_finished (s_th s t) = 1 /\ th_lock (s_th s t) = LSelf /\ g_disposed (s_th s t) = 0 /\
            (forall v', v_pend (s_vc s v') = PDie t -> v' = v);
  l_unl : forall v f t, v_pend (s_vc s v) = PSwitch f (DUnlock t) ->
            th_lock (s_th s t) = LJoin /\ g_joinret (s_th s t) = 0 /\ th_state (s_th s t) <> NOTCREATED /\
            (forall v' f', v_pend (s_vc s v') = PSwitch f' (DUnlock t) -> v' = v);
  l_thr : forall t, thr_ok (s_th s t)
}.

Definition Lsame (a b : thread) : Prop :=
  th_lock a = th_lock b /\ g_disposed a = g_disposed b /\ g_joinret a = g_joinret b /\ g_joinval a = g_joinval b /\
  th_retval a = th_retval b /\ th_joinable a = th_joinable b /\ g_finished a = g_finished b /\
  (th_state b <> NOTCREATED -> th_state a <> NOTCREATED).
Definition Lrel (s s' : state) : Prop :=
  (forall x, Lsame (s_th s' x) (s_th s x)) /\ (forall v, v_pend (s_vc s' v) = v_pend (s_vc s v)).

Lemma Lsame_refl : forall a, Lsame a a. Proof. intro. unfold Lsame. repeat split; auto. Qed.
Lemma Lsame_trans : forall a b c, Lsame a b -> Lsame b c -> Lsame a c.
Proof. unfold Lsame. intros a b c (a1&a2&a3&a4&a5&a6&a7&a8) (b1&b2&b3&b4&b5&b6&b7&b8). repeat split; try congruence. auto. Qed.
Lemma Lrel_refl : forall s, Lrel s s. Proof. split; intros; auto using Lsame_refl. Qed.
Lemma Lrel_trans : forall a b c, Lrel a b -> Lrel b c -> Lrel a c.
Proof. intros a b c [A1 A2] [B1 B2]. split; intros. - eapply Lsame_trans; eauto. - congruence. Qed.

Lemma thr_ok_same : forall a b, Lsame a b -> thr_ok b -> thr_ok a.
Proof. unfold Lsame, thr_ok. intros a b (h1&h2&h3&h4&h5&h6&h7&h8). rewrite h1, h2, h3, h4, h5, h6, h7. auto. Qed.

Lemma invL_frame : forall s s', Lrel s s' -> InvL s -> InvL s'.
Proof.
  intros s s' [Ht Hp] I. constructor.
  - intros v t E. rewrite Hp in E. destruct (l_die _ I v t E) as (a & b & c & d).
    destruct (Ht t) as (h1&h2&h3&h4&h5&h6&h7&h8). rewrite h1, h2, h7. repeat split; auto.
    intros v' E'. rewrite Hp in E'. auto.
  - intros v f t E. rewrite Hp in E. destruct (l_unl _ I v f t E) as (a & b & c & d).
    destruct (Ht t) as (h1&h2&h3&h4&h5&h6&h7&h8). rewrite h1, h3. repeat split; auto.
    intros v' f' E'. rewrite Hp in E'. eauto.
  - intro t. eapply thr_ok_same; [apply Ht|apply (l_thr _ I)].
Qed.

Ltac lsame := intro th; unfold Lsame; cbn; repeat split; auto; intros; try discriminate; try congruence.
Lemma Lrel_modth : forall s t f, (forall th, Lsame (f th) th) -> Lrel s (modth s t f).
Proof.
  intros s t f Hf. split; [|reflexivity]. intro x. rewrite th_modth. destruct (Nat.eqb x t) eqn:E.
  - apply Nat.eqb_eq in E. subst. apply Hf.
  - apply Lsame_refl.
Qed.
Lemma Lrel_modvc : forall s v g, (forall x, v_pend (g x) = v_pend x) -> Lrel s (modvc s v g).
Proof.
  intros s v g Hg. split; [intro; apply Lsame_refl|]. intro y. rewrite vc_modvc. destruct (Nat.eqb y v) eqn:E; auto.
  apply Nat.eqb_eq in E. subst. apply Hg.
Qed.
Lemma Lrel_same : forall s s', s_th s' = s_th s -> s_vc s' = s_vc s -> Lrel s s'.
Proof. intros s s' A B. split; intros; rewrite ?A, ?B; auto using Lsame_refl. Qed.

Ltac lstep :=
  match goal with
  | |- Lrel ?s ?s => apply Lrel_refl
  | |- Lrel ?s (modvc ?x ?v ?g) => apply (Lrel_trans s x); [|apply Lrel_modvc; intro; reflexivity]
  | |- Lrel ?s (modth ?x ?t ?f) => apply (Lrel_trans s x); [|apply Lrel_modth; lsame]
  end.

Lemma Lrel_switch_in : forall s n, Lrel s (switch_in s n).
Proof. intros. unfold switch_in. apply Lrel_modth. intro th. destruct (th_fresh th); unfold Lsame; cbn; repeat split; auto; intros; discriminate. Qed.
Lemma Lrel_dequeue : forall s t, Lrel s (dequeue s t).
Proof. intros. unfold dequeue. destruct (th_waitq _); repeat lstep. Qed.
Lemma Lrel_wake : forall s v t e, Lrel s (wake s v t e).
Proof.
  intros. unfold wake. set (s1 := dequeue _ t).
  assert (R : Lrel s s1). { unfold s1. eapply Lrel_trans; [|apply Lrel_dequeue]. repeat lstep. }
  destruct (Nat.eqb _ v); (apply (Lrel_trans s s1); [exact R|]); repeat lstep.
Qed.
Lemma Lrel_interrupt : forall s v t e s', do_interrupt s v t e = Some s' -> Lrel s s'.
Proof.
  intros s v t e s'. unfold do_interrupt. destruct (th_state _); intro H; try (inversion H; subst; apply Lrel_refl).
  - destruct (Z.eqb _ 0); inversion H; subst; repeat lstep.
  - destruct (lock_free _); inversion H; subst. apply Lrel_wake.
Qed.
Lemma Lrel_migrate : forall s v t u s' b, do_migrate s v t u = Some (s', b) -> Lrel s s'.
Proof.
  intros s v t u s' b. unfold do_migrate. destruct (negb _); [discriminate|].
  match goal with |- (if ?c then _ else _) = _ -> _ => destruct c end; intro H; inversion H; subst; repeat lstep.
Qed.
Lemma Lrel_ret : forall s c r e, Lrel s (ret s c r e).
Proof. intros. unfold ret. lstep. apply Lrel_same; reflexivity. Qed.
Lemma Lrel_setk : forall s c k, Lrel s (setk s c k). Proof. intros. unfold setk. repeat lstep. Qed.
Lemma Lrel_sen : forall s c, Lrel s (fst (fst (set_error_number s c))).
Proof. intros. unfold set_error_number. destruct (Z.eqb _ 0); cbn; repeat lstep. Qed.
Lemma Lrel_drain_list : forall l s v, Lrel s (drain_list s v l).
Proof.
  induction l; cbn; intros; [apply Lrel_refl|]. eapply Lrel_trans; [|apply IHl].
  unfold drain_one. destruct (negb _); repeat lstep.
Qed.
Lemma Lrel_resume : forall s v, Lrel s (do_resume s v).
Proof.
  intros. unfold do_resume. destruct (v_sleepq _) as [|t rest]; [apply Lrel_refl|].
  destruct (Z.ltb _ _); [apply Lrel_refl|]. destruct (negb _); [apply Lrel_refl|].
  destruct (tstate_eqb _ _); repeat lstep. apply Lrel_dequeue.
Qed.
Lemma Lrel_steal : forall s v u t, Lrel s (do_steal s v u t).
Proof.
  intros. unfold do_steal. destruct (negb _); [apply Lrel_refl|].
  destruct (mem_tid _ _); [repeat lstep|]. destruct (_ && _); repeat lstep.
Qed.

Definition pend_ok (s : state) (v : nat) (p : pending) : Prop :=
  match p with
  | PDie t => g_finished (s_th s t) = 1 /\ th_lock (s_th s t) = LSelf /\ g_disposed (s_th s t) = 0 /\
              (forall v', v' <> v -> v_pend (s_vc s v') <> PDie t)
  | PSwitch _ (DUnlock t) => th_lock (s_th s t) = LJoin /\ g_joinret (s_th s t) = 0 /\ th_state (s_th s t) <> NOTCREATED /\
              (forall v' f', v' <> v -> v_pend (s_vc s v') <> PSwitch f' (DUnlock t))
  | _ => True
  end.

Lemma invL_pend : forall s v g p, InvL s -> pend_ok s v p -> (forall x, v_pend (g x) = p) -> InvL (modvc s v g).
Proof.
  intros s v g p I P Hg. constructor.
  - intros v0 t. rewrite !vc_modvc, th_modvc. destruct (Nat.eqb v0 v) eqn:E0.
    + apply Nat.eqb_eq in E0. subst v0. rewrite Hg. intro Ep. subst p. destruct P as (a & b & c & d).
      repeat split; auto. intros v'. rewrite vc_modvc. destruct (Nat.eqb v' v) eqn:E1.
      * apply Nat.eqb_eq in E1. auto.
      * apply Nat.eqb_neq in E1. intro X. exfalso. eapply d; eauto.
    + apply Nat.eqb_neq in E0. intro E. destruct (l_die _ I v0 t E) as (a & b & c & d). repeat split; auto.
      intros v'. rewrite vc_modvc. destruct (Nat.eqb v' v) eqn:E1; [|apply d].
      apply Nat.eqb_eq in E1. subst v'. rewrite Hg. intro Ep. subst p. destruct P as (_ & _ & _ & P).
      exfalso. eapply (P v0); eauto.
  - intros v0 f t. rewrite !vc_modvc, th_modvc. destruct (Nat.eqb v0 v) eqn:E0.
    + apply Nat.eqb_eq in E0. subst v0. rewrite Hg. intro Ep. subst p. destruct P as (a & b & c & d).
      repeat split; auto. intros v' f'. rewrite vc_modvc. destruct (Nat.eqb v' v) eqn:E1.
      * apply Nat.eqb_eq in E1. auto.
      * apply Nat.eqb_neq in E1. intro X. exfalso. eapply d; eauto.
    + apply Nat.eqb_neq in E0. intro E. destruct (l_unl _ I v0 f t E) as (a & b & c & d). repeat split; auto.
      intros v' f'. rewrite vc_modvc. destruct (Nat.eqb v' v) eqn:E1; [|apply d].
      apply Nat.eqb_eq in E1. subst v'. rewrite Hg. intro Ep. subst p. destruct P as (_ & _ & _ & P).
      exfalso. eapply (P v0); eauto.
  - intro t. rewrite th_modvc. apply (l_thr _ I).
Qed.

(* pend_ok is stable under Lrel *)
Lemma pend_ok_rel : forall s s' v p, Lrel s s' -> pend_ok s v p -> pend_ok s' v p.
Proof.
  intros s s' v p [Ht Hp] P. destruct p as [|f d|t]; auto.
  - destruct d as [|t|t u]; auto. destruct P as (a & b & c & d). destruct (Ht t) as (h1&h2&h3&h4&h5&h6&h7&h8).
    cbn. rewrite h1, h3. repeat split; auto. intros. rewrite Hp. auto.
  - destruct P as (a & b & c & d). destruct (Ht t) as (h1&h2&h3&h4&h5&h6&h7&h8).
    cbn. rewrite h1, h2, h7. repeat split; auto. intros. rewrite Hp. auto.
Qed.

Lemma invL_yield : forall s v ce d, InvL s -> (forall c, pend_ok s v (PSwitch c d)) -> InvL (do_yield s v ce d).
Proof.
  intros s v ce d I P. unfold do_yield. destruct (v_runq _) as [|c [|n rest]]; try (apply (invL_frame s); [apply Lrel_same; reflexivity|auto]).
  set (s2 := modth (switch_in s n) c _).
  assert (R : Lrel s s2). { unfold s2. apply (Lrel_trans s (switch_in s n)); [apply Lrel_switch_in|]. apply Lrel_modth. destruct ce; lsame. }
  apply (invL_pend s2 v _ (PSwitch c d)); [apply (invL_frame s); auto| eapply pend_ok_rel; eauto | reflexivity].
Qed.

Lemma invL_sleep : forall s v exp wq d, InvL s -> (forall c, pend_ok s v (PSwitch c d)) -> InvL (do_sleep s v exp wq d).
Proof.
  intros s v exp wq d I P. unfold do_sleep. destruct (v_runq _) as [|c [|n rest]]; try (apply (invL_frame s); [apply Lrel_same; reflexivity|auto]).
  set (s2 := modth (switch_in s n) c _).
  assert (R2 : Lrel s s2). { unfold s2. apply (Lrel_trans s (switch_in s n)); [apply Lrel_switch_in|]. apply Lrel_modth. lsame. }
  set (s3 := match wq with Some x => modth s2 x _ | None => s2 end).
  assert (R3 : Lrel s s3). { unfold s3. destruct wq; auto. apply (Lrel_trans s s2); auto. apply Lrel_modth. lsame. }
  match goal with |- InvL (if ?b then set_s_tie ?X true else ?X) =>
    assert (IX : InvL X); [| destruct b; auto; apply (invL_frame X); [apply Lrel_same; reflexivity|auto]] end.
  apply (invL_pend s3 v _ (PSwitch c d)); [apply (invL_frame s); auto| eapply pend_ok_rel; eauto | reflexivity].
Qed.

Lemma thr_ok_zero : forall th, g_joinret th = 0 -> g_disposed th = 0 -> thr_ok th.
Proof. intros th a b. unfold thr_ok. rewrite a, b. split; [left; auto|]. intros _. split; [lia|]. intro H. discriminate. Qed.

Lemma invL_create : forall s v k jn ws, Inv2 s -> InvL s -> th_state (s_th s k) = NOTCREATED -> InvL (do_create s v k jn ws).
Proof.
  intros s v k jn ws I2 I En. unfold do_create.
  assert (Hfin : g_finished (s_th s k) = 0). { destruct (I2 k) as (a & _). rewrite a, En. reflexivity. }
  set (s1 := set_s_th s _).
  assert (I1 : InvL s1).
  { constructor.
    - intros v0 t E. change (s_vc s1) with (s_vc s) in *. destruct (l_die _ I v0 t E) as (a & b & c & d).
      assert (t <> k) by (intro; subst; congruence).
      unfold s1. cbn [s_th set_s_th]. rewrite updp_neq by auto. repeat split; auto.
    - intros v0 f t E. change (s_vc s1) with (s_vc s) in *. destruct (l_unl _ I v0 f t E) as (a & b & c & d).
      assert (t <> k) by (intro; subst; congruence).
      unfold s1. cbn [s_th set_s_th]. rewrite updp_neq by auto. repeat split; auto.
    - intro t. unfold s1. cbn [s_th set_s_th]. unfold updp. destruct (Nat.eqb t k); [|apply (l_thr _ I)].
      apply thr_ok_zero; reflexivity. }
  apply (invL_frame s1); auto. apply Lrel_modvc. intro; reflexivity.
Qed.

(* replacing the record of ONE thread t to which no pending action refers *)
Lemma invL_modth_free : forall s t f, InvL s ->
  (forall v, v_pend (s_vc s v) <> PDie t) ->
  (forall v f', v_pend (s_vc s v) <> PSwitch f' (DUnlock t)) ->
  thr_ok (f (s_th s t)) -> InvL (modth s t f).
Proof.
  intros s t f I Nd Nu Hok. constructor.
  - intros v x E. rewrite vc_modth in E. destruct (l_die _ I v x E) as (a & b & c & d).
    assert (x <> t) by (intro; subst; eapply Nd; eauto).
    rewrite th_modth. apply Nat.eqb_neq in H. rewrite H. repeat split; auto.
  - intros v f' x E. rewrite vc_modth in E. destruct (l_unl _ I v f' x E) as (a & b & c & d).
    assert (x <> t) by (intro; subst; eapply Nu; eauto).
    rewrite th_modth. apply Nat.eqb_neq in H. rewrite H. repeat split; auto.
  - intro x. rewrite th_modth. destruct (Nat.eqb x t) eqn:E; [|apply (l_thr _ I)]. exact Hok.
Qed.

Lemma invL_die : forall s v rv s', Inv2 s -> InvL s -> head_run s v -> do_die s v rv = Some s' -> InvL s'.
Proof.
  intros s v rv s' I2 I Hr. unfold do_die, getvc, getth.
  destruct (v_runq (s_vc s v)) as [|c [|n rest]] eqn:Hq;
    try (intro H; inversion H; subst; apply (invL_frame s); [apply Lrel_same; reflexivity|auto]).
  cbv zeta. destruct (lock_free (th_lock (s_th s c))) eqn:Lk; cbn [andb negb]; [|discriminate].
  match goal with |- (if negb ?b then _ else _) = _ -> _ => destruct b end; cbn [negb]; [|discriminate].
  intro H. inversion H; subst s'; clear H.
  pose proof (Hr c _ Hq) as Ec.
  assert (Fin0 : g_finished (s_th s c) = 0). { destruct (I2 c) as (a & _). rewrite a, Ec. reflexivity. }
  assert (Lf : th_lock (s_th s c) = LFree) by (destruct (th_lock (s_th s c)); try discriminate; reflexivity).
  set (s1 := match th_joiners (s_th s c) with j :: _ => wake s v j (-1) | [] => s end).
  set (s2 := switch_in s1 n).
  assert (R : Lrel s s2).
  { unfold s2. apply (Lrel_trans s s1); [|apply Lrel_switch_in]. unfold s1. destruct (th_joiners _); [apply Lrel_refl|apply Lrel_wake]. }
  clearbody s2. clear s1.
  pose proof (invL_frame s s2 R I) as J2. destruct R as [Rt Rp].
  destruct (Rt c) as (h1&h2&h3&h4&h5&h6&h7&h8).
  assert (Nd : forall v0, v_pend (s_vc s2 v0) <> PDie c).
  { intros v0 E. destruct (l_die _ J2 v0 c E) as (a & _). rewrite h7 in a. lia. }
  assert (Nu : forall v0 f', v_pend (s_vc s2 v0) <> PSwitch f' (DUnlock c)).
  { intros v0 f' E. destruct (l_unl _ J2 v0 f' c E) as (a & _). rewrite h1, Lf in a. discriminate. }
  destruct (l_thr _ J2 c) as [T1 T2].
  assert (Jr : g_joinret (s_th s2 c) = 0 /\ (th_joinable (s_th s2 c) = true -> g_disposed (s_th s2 c) = 0)).
  { destruct T1 as [T1|(a & b & c0 & d & _)]; auto. rewrite h7 in d. lia. }
  assert (Dz : g_disposed (s_th s2 c) = 0).
  { destruct (th_joinable (s_th s2 c)) eqn:Ej; [apply Jr; auto|].
    destruct (T2 eq_refl) as (a & b). destruct (g_disposed (s_th s2 c)) as [|[|k]]; auto; [|lia].
    destruct (b eq_refl) as (b1 & _). rewrite h7 in b1. lia. }
  match goal with |- InvL (modvc (modth s2 c ?f) v ?g) =>
    assert (J3 : InvL (modth s2 c f)) end.
  { apply invL_modth_free; auto. unfold thr_ok. cbn. destruct Jr as [j1 j2]. split; [left; auto|].
    intros _. rewrite Dz. split; [lia|]. intro X. discriminate. }
  eapply (invL_pend _ v _ (PDie c)); [exact J3| |reflexivity].
  unfold pend_ok. rewrite th_modth, Nat.eqb_refl. cbn. rewrite h7, Fin0. repeat split; auto.
Qed.

Lemma invL_exec_pend : forall s v, Inv2 s -> InvL s -> InvL (exec_pend s v).
Proof.
  intros s v I2 I. unfold exec_pend, getvc, getth.
  destruct (v_pend (s_vc s v)) as [|from d|t] eqn:Ep; auto.
  - assert (I0 : InvL (modvc s v (fun x => set_v_pend x PNone))).
    { apply (invL_pend s v _ PNone); auto. exact Logic.I. }
    destruct d as [|t|t u]; auto.
    + (* DUnlock t *)
      destruct (l_unl _ I v from t Ep) as (a & b & c & d).
      apply invL_modth_free; auto.
      * intros v0 E. rewrite vc_modvc in E. destruct (Nat.eqb v0 v) eqn:E0; [cbn in E; discriminate|].
        destruct (l_die _ I v0 t E) as (_ & x & _). congruence.
      * intros v0 f' E. rewrite vc_modvc in E. destruct (Nat.eqb v0 v) eqn:E0; [cbn in E; discriminate|].
        apply Nat.eqb_neq in E0. apply E0. eapply d; eauto.
      * rewrite th_modvc. destruct (l_thr _ I t) as [T1 T2]. unfold thr_ok. cbn.
        split.
        -- destruct T1 as [T1|(x & _)]; [left; auto|lia].
        -- intro Ej. destruct (T2 Ej) as (x & y). split; auto. intro Z. destruct (y Z) as (_ & y2). congruence.
    + (* DMigrate *)
      destruct (do_migrate _ v t u) as [[s1 b]|] eqn:M; auto.
      apply (invL_frame (modvc s v (fun x => set_v_pend x PNone))); auto. eapply Lrel_migrate; eauto.
  - (* PDie t *)
    destruct (l_die _ I v t Ep) as (a & b & c & d).
    assert (I0 : InvL (modvc s v (fun x => set_v_pend x PNone))).
    { apply (invL_pend s v _ PNone); auto. exact Logic.I. }
    assert (Nd : forall v0, v_pend (s_vc (modvc s v (fun x => set_v_pend x PNone)) v0) <> PDie t).
    { intros v0 E. rewrite vc_modvc in E. destruct (Nat.eqb v0 v) eqn:E0; [cbn in E; discriminate|].
      apply Nat.eqb_neq in E0. apply E0. eapply d; eauto. }
    assert (Nu : forall v0 f', v_pend (s_vc (modvc s v (fun x => set_v_pend x PNone)) v0) <> PSwitch f' (DUnlock t)).
    { intros v0 f' E. rewrite vc_modvc in E. destruct (Nat.eqb v0 v) eqn:E0; [cbn in E; discriminate|].
      destruct (l_unl _ I v0 f' t E) as (x & _). congruence. }
    destruct (l_thr _ I t) as [T1 T2].
    rewrite th_modvc.
    destruct (th_joinable (s_th s t)) eqn:Ej; apply invL_modth_free; auto; rewrite th_modvc; unfold thr_ok; cbn; rewrite ?Ej.
    + split; [|intro; discriminate]. destruct T1 as [T1|(_ & _ & _ & _ & x & _)]; [left; auto|congruence].
    + split.
      * destruct T1 as [(x & y)|(_ & x & _)]; [left; split; auto; intro; discriminate|congruence].
      * intros _. rewrite c. split; [lia|]. intros _. auto.
Qed.

Lemma invL_join_check : forall s v c j, Inv2 s -> InvL s -> InvL (join_check s v c j).
Proof.
  intros s v c j I2 I. unfold join_check, getth.
  destruct (tstate_eqb (th_state (s_th s j)) NOTCREATED) eqn:Enc. { apply (invL_frame s); [apply Lrel_same; reflexivity|auto]. }
  destruct (th_joinable (s_th s j)) eqn:Ej; cbn [negb]; [|apply (invL_frame s); [apply Lrel_ret|auto]].
  destruct (lock_free (th_lock (s_th s j))) eqn:Lk; cbn [negb]; auto.
  assert (Lf : th_lock (s_th s j) = LFree) by (destruct (th_lock (s_th s j)); try discriminate; reflexivity).
  assert (Nd : forall v0, v_pend (s_vc s v0) <> PDie j).
  { intros v0 E. destruct (l_die _ I v0 j E) as (_ & x & _). congruence. }
  assert (Nu : forall v0 f', v_pend (s_vc s v0) <> PSwitch f' (DUnlock j)).
  { intros v0 f' E. destruct (l_unl _ I v0 f' j E) as (x & _). congruence. }
  destruct (l_thr _ I j) as [T1 T2].
  assert (Jr : g_joinret (s_th s j) = 0 /\ g_disposed (s_th s j) = 0).
  { destruct T1 as [(x & y)|(_ & _ & _ & _ & x & _)]; [split; auto|congruence]. }
  destruct Jr as [Jr Dz].
  destruct (tstate_eqb (th_state (s_th s j)) DONE) eqn:Ed.
  - (* DONE: retval, dispose *)
    assert (Fin : g_finished (s_th s j) = 1). { destruct (I2 j) as (a & _). rewrite a, Ed. reflexivity. }
    apply (invL_frame (modth s j (fun x => set_g_joinval (set_g_joinret (set_g_disposed (set_th_lock x LJoin) (S (g_disposed x))) (S (g_joinret x))) (th_retval x))));
      [apply Lrel_ret|].
    apply invL_modth_free; auto. unfold thr_ok. cbn. rewrite Ej, Jr, Dz, Fin. split; [right; repeat split; auto|intro; discriminate].
  - destruct (negb _); auto.
    (* cond.wait(lock): keep the lock, sleep, unlock on the next stack *)
    set (s1 := modth s j (fun x => set_th_lock x LJoin)).
    assert (I1 : InvL s1).
    { apply invL_modth_free; auto. unfold thr_ok. cbn. rewrite Ej, Jr, Dz. split; [left; auto|intro; discriminate]. }
    apply invL_sleep.
    + apply (invL_frame s1); auto. apply Lrel_setk.
    + intro c0. apply (pend_ok_rel s1); [apply Lrel_setk|].
      assert (Snc : th_state (s_th s j) <> NOTCREATED). { intro X. rewrite X in Enc. discriminate. }
      unfold pend_ok, s1. rewrite th_modth, Nat.eqb_refl. cbn. repeat split; auto.
Qed.

Ltac lframe := first [ eapply invL_frame; [first [apply Lrel_ret | apply Lrel_setk | apply Lrel_refl]|] ].
Lemma pend_ok_trivial_none : forall s v c, pend_ok s v (PSwitch c DNone). Proof. intros. exact Logic.I. Qed.
Lemma pend_ok_trivial_mig : forall s v c t u, pend_ok s v (PSwitch c (DMigrate t u)). Proof. intros. exact Logic.I. Qed.

Lemma invL_wait_all_op : forall progs s v c f, Inv2 s -> InvL s -> InvL (wait_all_op progs s v c f).
Proof.
  intros progs s v c f I2 I. unfold wait_all_op, getth.
  assert (W : InvL (wait_check progs s v c f)).
  { unfold wait_check, getth, getvc. destruct (wait_cond s v); [|lframe; auto].
    destruct (v_sleepq (s_vc s v)).
    - apply invL_yield; [lframe; auto|intro; exact Logic.I].
    - destruct (expired _ _).
      + apply invL_yield; [lframe; auto|intro; exact Logic.I].
      + destruct (lock_free _); auto. apply invL_sleep; [lframe; auto|intro; exact Logic.I]. }
  destruct (Nat.eqb c v); [|destruct f; [apply (invL_frame s); [apply Lrel_same; reflexivity|auto]|lframe; auto]].
  destruct (th_k (s_th s c)) as [|[|[|k]]]; auto.
  - pose proof (Lrel_sen s c) as X. destruct (set_error_number s c) as [[s1 r] e]. cbn in X.
    lframe. eapply invL_frame; eauto.
  - lframe; auto.
Qed.

Lemma invL_exec_op : forall progs s v c o, Inv2 s -> InvL s -> InvL (exec_op progs s v c o).
Proof.
  intros progs s v c o I2 I. unfold exec_op, getth, getvc.
  destruct o as [d| |j e|j jn ws|j| | |j|j u| |]; try now apply invL_wait_all_op.
  - destruct (th_k (s_th s c)) as [|[|k]].
    + destruct (expired _ _).
      * apply invL_yield; [lframe; auto|intro; exact Logic.I].
      * destruct (lock_free _); auto. apply invL_sleep; [lframe; auto|intro; exact Logic.I].
    + pose proof (Lrel_sen s c) as X. destruct (set_error_number s c) as [[s1 r] e]. cbn in X.
      lframe. eapply invL_frame; eauto.
    + destruct (Z.eqb _ 0); lframe; auto.
  - destruct (th_k (s_th s c)).
    + apply invL_yield; [lframe; auto|intro; exact Logic.I].
    + lframe; auto.
  - destruct (alive progs s j); [|lframe; auto].
    destruct (do_interrupt s v j e) as [s1|] eqn:D; auto.
    lframe. eapply invL_frame; [eapply Lrel_interrupt; eauto|auto].
  - destruct (_ && _) eqn:C; [|lframe; auto].
    lframe. apply invL_create; auto.
    apply andb_true_iff in C. destruct C as [_ C]. unfold getth in C.
    destruct (th_state (s_th s j)); try discriminate; reflexivity.
  - destruct (th_k (s_th s c)) as [|[|k]].
    + destruct (_ && _); [|lframe; auto]. lframe. eapply invL_frame; [|eauto]. apply Lrel_modth. lsame.
    + now apply invL_join_check.
    + pose proof (Lrel_sen s c) as X. destruct (set_error_number s c) as [[s1 r] e]. cbn in X.
      lframe. eapply invL_frame; eauto.
  - lframe; auto.
  - lframe; auto.
  - destruct (_ && _); lframe; auto.
  - destruct (th_k (s_th s c)); [|lframe; auto].
    destruct (negb _); [lframe; auto|].
    destruct (Nat.eqb u v); [lframe; auto|].
    destruct (Nat.eqb j c).
    { apply invL_yield; [lframe; auto|intro; exact Logic.I]. }
    destruct (negb _); [lframe; auto|].
    destruct (negb _); [lframe; auto|].
    destruct (do_migrate s v j u) as [[s1 [|]]|] eqn:M; auto; lframe; (eapply invL_frame; [eapply Lrel_migrate; eauto|auto]).
Qed.

Lemma invL_step_vcpu : forall progs s v, Inv2 s -> InvL s -> InvL (step_vcpu progs s v).
Proof.
  intros progs s v I2 I. unfold step_vcpu, getvc, getth.
  destruct (negb _). { now apply invL_exec_pend. }
  destruct (v_runq (s_vc s v)) as [|c rest] eqn:Hq. { apply (invL_frame s); [apply Lrel_same; reflexivity|auto]. }
  destruct (th_state (s_th s c)) eqn:Es; try (apply (invL_frame s); [apply Lrel_same; reflexivity|auto]).
  assert (Hr : head_run s v). { intros c' r' E. rewrite Hq in E. inversion E; subst. auto. }
  destruct (th_kind (s_th s c)).
  - destruct (nth_error _ _); [now apply invL_exec_op|].
    destruct (th_k (s_th s c)).
    + destruct (lock_free _); auto. apply invL_sleep; [lframe; auto|intro; exact Logic.I].
    + pose proof (Lrel_sen s c) as X. destruct (set_error_number s c) as [[s1 r] e]. cbn in X.
      lframe. eapply invL_frame; eauto.
  - destruct rest; auto. apply invL_yield; auto. intro; exact Logic.I.
  - destruct (nth_error _ _); [now apply invL_exec_op|].
    destruct (do_die s v _) as [s1|] eqn:D; auto. eapply invL_die; eauto.
Qed.

Lemma invL_step : forall progs s l, Inv2 s -> InvL s -> InvL (step progs s l).
Proof.
  intros progs s l I2 I. unfold step. destruct (s_stuck s); [exact I|]. destruct (frozen _ _ _); [exact I|].
  destruct l as [v|v|v|v u t|d].
  - destruct (Nat.ltb _ _); [|exact I].
    destruct (pend_to_offline _ _ _); [apply (invL_frame s); [apply Lrel_same; reflexivity|exact I]|]. now apply invL_step_vcpu.
  - destruct (_ && _); [|exact I]. unfold do_drain. eapply invL_frame; [apply Lrel_drain_list|exact I].
  - destruct (_ && _); [|exact I]. eapply invL_frame; [apply Lrel_resume|exact I].
  - destruct (_ && _); [|exact I]. eapply invL_frame; [apply Lrel_steal|exact I].
  - destruct (Z.leb _ _); [|exact I]. eapply invL_frame; [|exact I]. apply Lrel_same; reflexivity.
Qed.

Lemma inv12L_run : forall progs ls s, Inv1 s -> Inv2 s -> InvL s ->
  Inv1 (run progs s ls) /\ Inv2 (run progs s ls) /\ InvL (run progs s ls).
Proof.
  induction ls; cbn; intros s I1 I2 IL; auto.
  destruct (inv12_step progs s a I1 I2). apply IHls; auto. now apply invL_step.
Qed.

Lemma invL_init : forall nv n flags t0, nv <= n -> InvL (init_state nv n flags t0).
Proof.
  intros nv n flags t0 Hn. constructor.
  - intros v t. unfold init_state. cbn [s_vc]. destruct (init_vcpu_cases nv n flags v) as [(V1 & _)|[V1 E]].
    + unfold init_vcpu. assert (Nat.ltb v nv = true) as -> by (now apply Nat.ltb_lt). cbn. discriminate.
    + rewrite E. cbn. discriminate.
  - intros v f t. unfold init_state. cbn [s_vc]. destruct (init_vcpu_cases nv n flags v) as [(V1 & _)|[V1 E]].
    + unfold init_vcpu. assert (Nat.ltb v nv = true) as -> by (now apply Nat.ltb_lt). cbn. discriminate.
    + rewrite E. cbn. discriminate.
  - intro t. unfold init_state. cbn [s_th].
    destruct (init_thread_cases nv n t Hn) as [[_ ->]|[[_ ->]|(_ & _ & ->)]]; apply thr_ok_zero; reflexivity.
Qed.

(* ---- join_exact ---------------------------------------------------------------------------- *)
Lemma join_exact_proof : forall progs nv n flags t0 s, nv <= n -> reachable progs nv n flags t0 s ->
  forall t,
    (* thread_join(t) returns at most once; when it has returned the entry function of t had returned
       (t is DONE) and the value handed to the joiner is its return value *)
    g_joinret (s_th s t) <= 1 /\
    (g_joinret (s_th s t) = 1 -> th_state (s_th s t) = DONE /\ g_joinval (s_th s t) = th_retval (s_th s t) /\ th_joinable (s_th s t) = true) /\
    (* the stack is handed back at most once, only after the thread is DONE, and never while the dying
       thread's own switch (PDie) is still pending, i.e. while a vCPU may still be on that stack *)
    g_disposed (s_th s t) <= 1 /\
    (g_disposed (s_th s t) = 1 -> th_state (s_th s t) = DONE /\ forall v, v_pend (s_vc s v) <> PDie t) /\
    (* joinable: released exactly when (and not before) the join returns *)
    (th_joinable (s_th s t) = true -> g_disposed (s_th s t) = g_joinret (s_th s t)) /\
    (* not joinable: never joined *)
    (th_joinable (s_th s t) = false -> g_joinret (s_th s t) = 0).
Proof.
  intros progs nv n flags t0 s Hn [ls ->] t.
  destruct (inv12L_run progs ls _ (inv1_init nv n flags t0 Hn) (inv2_init nv n flags t0 Hn) (invL_init nv n flags t0 Hn))
    as (I1 & I2 & IL).
  set (s := run progs (init_state nv n flags t0) ls) in *.
  destruct (l_thr _ IL t) as [T1 T2]. destruct (I2 t) as (a & _).
  assert (FD : g_finished (s_th s t) = 1 -> th_state (s_th s t) = DONE).
  { rewrite a. destruct (th_state (s_th s t)); cbn; intros; try discriminate; reflexivity. }
  assert (ND : g_disposed (s_th s t) = 1 -> forall v, v_pend (s_vc s v) <> PDie t).
  { intros D v E. destruct (l_die _ IL v t E) as (_ & _ & z & _). lia. }
  destruct (th_joinable (s_th s t)) eqn:Ej.
  - destruct T1 as [(x & y)|(x & _ & y & z & _ & w)].
    + rewrite x, (y eq_refl). repeat split; auto; try lia; intros; try discriminate.
    + rewrite x, y. repeat split; auto; try lia; intros; try discriminate; auto.
  - destruct (T2 eq_refl) as (d1 & d2).
    destruct T1 as [(x & y)|(_ & x & _)]; [|discriminate].
    rewrite x. repeat split; auto; try lia; intros; try discriminate; try (apply FD; apply d2; auto); try (apply ND; auto).
Qed.
