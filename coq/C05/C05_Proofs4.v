(* C05_Proofs4.v — fourth invariant layer: vcpu.nthreads = (main + idler) + number of live program threads
   whose `vcpu` is this vCPU (nthreads_restored). *)
From Coq Require Import ZArith List Bool Arith Lia.
From PV Require Import Base.U64 C05.C05_Model C05.C05_Proofs C05.C05_Proofs2 C05.C05_Proofs3.
Import ListNotations.
Local Open Scope nat_scope.

Definition created (th : thread) : bool := negb (tstate_eqb (th_state th) NOTCREATED).
(* program thread, exists, entry function not finished, owned by vCPU v *)
Definition counts (s : state) (v : nat) (t : tid) : bool :=
  is_user (th_kind (s_th s t)) && created (s_th s t) && Nat.eqb (g_finished (s_th s t)) 0 && Nat.eqb (th_vcpu (s_th s t)) v.
Definition users_on (s : state) (v : nat) : nat := length (filter (counts s v) (seq 0 (s_n s))).
Definition base (s : state) (v : nat) : Z := if Nat.ltb v (s_nv s) then 2%Z else 0%Z.

Record InvN (s : state) : Prop := mkInvN {
  n_kind : forall t, is_user (th_kind (s_th s t)) = false -> th_ws (s_th s t) = false;
  n_range : forall t, is_user (th_kind (s_th s t)) = true -> created (s_th s t) = true -> t < s_n s;
  n_mig : forall v f t u, v_pend (s_vc s v) = PSwitch f (DMigrate t u) -> is_user (th_kind (s_th s t)) = true;
  n_cnt : forall v, v_nthreads (s_vc s v) = (base s v + Z.of_nat (users_on s v))%Z
}.

(* ---- counting under a point update ---------------------------------------------------------- *)
Definition b2n (b : bool) : nat := if b then 1 else 0.
Lemma filter_upd : forall (f g : nat -> bool) t l, (forall x, x <> t -> f x = g x) ->
  length (filter g l) + cnt t l * b2n (f t) = length (filter f l) + cnt t l * b2n (g t).
Proof.
  intros f g t l H. induction l as [|a l IH]; cbn [filter length].
  - rewrite cnt_nil. lia.
  - rewrite cnt_cons. destruct (Nat.eqb a t) eqn:E.
    + apply Nat.eqb_eq in E. subst a. destruct (f t), (g t); cbn [length b2n] in *; lia.
    + apply Nat.eqb_neq in E. rewrite (H a E). destruct (g a); cbn [length]; lia.
Qed.
Lemma cnt_seq : forall t n, t < n -> cnt t (seq 0 n) = 1.
Proof.
  intros t n H. unfold cnt.
  assert (I : In t (seq 0 n)) by (apply in_seq; lia).
  pose proof (seq_NoDup n 0) as ND. rewrite (NoDup_count_occ Nat.eq_dec) in ND. specialize (ND t).
  apply (count_occ_In Nat.eq_dec) in I. lia.
Qed.

Lemma users_upd : forall s s' v t, s_n s' = s_n s -> (forall x, x <> t -> counts s' v x = counts s v x) -> t < s_n s ->
  users_on s' v + b2n (counts s v t) = users_on s v + b2n (counts s' v t).
Proof.
  intros s s' v t En H Ht. unfold users_on. rewrite En.
  pose proof (filter_upd (counts s v) (counts s' v) t (seq 0 (s_n s))) as F.
  rewrite (cnt_seq t (s_n s) Ht) in F. rewrite !Nat.mul_1_l in F. apply F. intros x Nx. symmetry. auto.
Qed.
Lemma users_same : forall s s' v, s_n s' = s_n s -> (forall x, counts s' v x = counts s v x) -> users_on s' v = users_on s v.
Proof.
  intros s s' v En H. unfold users_on. rewrite En. f_equal. apply filter_ext. auto.
Qed.

(* ---- neutral functions: kind / ws / vcpu / finished / created of every thread, and nthreads / pend / cfg kept *)
Definition Nsame (a b : thread) : Prop :=
  th_kind a = th_kind b /\ th_ws a = th_ws b /\ th_vcpu a = th_vcpu b /\ g_finished a = g_finished b /\ created a = created b.
Definition Nrel (s s' : state) : Prop :=
  (forall x, Nsame (s_th s' x) (s_th s x)) /\
  (forall v, v_nthreads (s_vc s' v) = v_nthreads (s_vc s v) /\ v_pend (s_vc s' v) = v_pend (s_vc s v)) /\
  same_cfg s s'.
Lemma Nsame_refl : forall a, Nsame a a. Proof. intro. unfold Nsame. repeat split; auto. Qed.
Lemma Nrel_refl : forall s, Nrel s s. Proof. intro. split; [|split]; intros; auto using Nsame_refl, same_cfg_refl. Qed.
Lemma Nrel_trans : forall a b c, Nrel a b -> Nrel b c -> Nrel a c.
Proof.
  intros a b c (A1 & A2 & A3) (B1 & B2 & B3). split; [|split].
  - intro x. destruct (A1 x) as (a1&a2&a3&a4&a5), (B1 x) as (b1&b2&b3&b4&b5). unfold Nsame. repeat split; congruence.
  - intro v. destruct (A2 v), (B2 v). split; congruence.
  - eapply same_cfg_trans; eauto.
Qed.
Lemma counts_rel : forall s s' v x, Nsame (s_th s' x) (s_th s x) -> counts s' v x = counts s v x.
Proof. unfold counts, Nsame. intros s s' v x (a&b&c&d&e). rewrite a, c, d, e. reflexivity. Qed.

Lemma invN_frame : forall s s', Nrel s s' -> InvN s -> InvN s'.
Proof.
  intros s s' (Ht & Hv & Hc) I. destruct Hc as [Cn Cv]. constructor.
  - intros t. destruct (Ht t) as (a&b&c&d&e). rewrite a, b. apply (n_kind _ I).
  - intros t. destruct (Ht t) as (a&b&c&d&e). rewrite a, e, Cn. apply (n_range _ I).
  - intros v f t u E. destruct (Hv v) as [_ P]. rewrite P in E. destruct (Ht t) as (a&_). rewrite a. eapply n_mig; eauto.
  - intro v. destruct (Hv v) as [Nn _]. rewrite Nn, (n_cnt _ I v). unfold base. rewrite Cv. f_equal. f_equal.
    symmetry. apply users_same; auto. intro x. apply counts_rel. auto.
Qed.

Lemma Nrel_modth : forall s t f, (forall th, Nsame (f th) th) -> Nrel s (modth s t f).
Proof.
  intros s t f Hf. split; [|split; [intro; split; reflexivity|split; reflexivity]].
  intro x. rewrite th_modth. destruct (Nat.eqb x t) eqn:E; [|apply Nsame_refl]. apply Nat.eqb_eq in E. subst. apply Hf.
Qed.
(* the same for an update that (re)writes the state of a thread that exists *)
Lemma Nrel_modth_st : forall s t f, created (s_th s t) = true ->
  (forall th, th_kind (f th) = th_kind th /\ th_ws (f th) = th_ws th /\ th_vcpu (f th) = th_vcpu th /\
              g_finished (f th) = g_finished th /\ created (f th) = true) -> Nrel s (modth s t f).
Proof.
  intros s t f Hc Hf. split; [|split; [intro; split; reflexivity|split; reflexivity]].
  intro x. rewrite th_modth. destruct (Nat.eqb x t) eqn:E; [|apply Nsame_refl]. apply Nat.eqb_eq in E. subst.
  destruct (Hf (s_th s t)) as (a&b&c&d&e). unfold Nsame. repeat split; auto. congruence.
Qed.
Lemma Nrel_modvc : forall s v g, (forall x, v_nthreads (g x) = v_nthreads x /\ v_pend (g x) = v_pend x) -> Nrel s (modvc s v g).
Proof.
  intros s v g Hg. split; [intro; apply Nsame_refl|split; [|split; reflexivity]].
  intro y. rewrite vc_modvc. destruct (Nat.eqb y v) eqn:E; auto. apply Nat.eqb_eq in E. subst. apply Hg.
Qed.
Lemma Nrel_same : forall s s', s_th s' = s_th s -> s_vc s' = s_vc s -> s_n s' = s_n s -> s_nv s' = s_nv s -> Nrel s s'.
Proof. intros s s' A B C D. split; [|split; [|split; auto]]; intros; rewrite ?A, ?B; auto using Nsame_refl. Qed.

Ltac nsame := intro th; unfold Nsame, created; cbn; repeat split; auto.
Ltac nstep :=
  match goal with
  | |- Nrel ?s ?s => apply Nrel_refl
  | |- Nrel ?s (modvc ?x ?v ?g) => apply (Nrel_trans s x); [|apply Nrel_modvc; intro; split; reflexivity]
  | |- Nrel ?s (modth ?x ?t ?f) => apply (Nrel_trans s x); [|apply Nrel_modth; nsame]
  end.

Lemma created_of_state : forall th st, th_state th = st -> st <> NOTCREATED -> created th = true.
Proof. intros th st E N. unfold created. rewrite E. destruct st; auto; congruence. Qed.

Lemma Nrel_switch_in : forall s n, created (s_th s n) = true -> Nrel s (switch_in s n).
Proof.
  intros s n Hc. unfold switch_in. apply Nrel_modth_st; [exact Hc|]. intro th. destruct (th_fresh th); cbn; repeat split; auto.
Qed.
Lemma Nrel_dequeue : forall s t, Nrel s (dequeue s t).
Proof. intros. unfold dequeue. destruct (th_waitq _); repeat nstep. Qed.
Lemma created_rel : forall s s' x, Nrel s s' -> created (s_th s' x) = created (s_th s x).
Proof. intros s s' x (H & _). destruct (H x) as (_&_&_&_&e). auto. Qed.
Lemma Nrel_wake : forall s v t e, th_state (s_th s t) = SLEEPING -> Nrel s (wake s v t e).
Proof.
  intros s v t e Es. unfold wake. set (s1 := dequeue _ t).
  assert (R : Nrel s s1). { unfold s1. eapply Nrel_trans; [|apply Nrel_dequeue]. repeat nstep. }
  assert (C1 : created (s_th s1 t) = true).
  { rewrite (created_rel s s1 t R). eapply created_of_state; eauto. discriminate. }
  destruct (Nat.eqb _ v); (apply (Nrel_trans s s1); [exact R|]).
  - nstep. apply Nrel_modth_st; [exact C1|intro th; cbn; repeat split; auto].
  - nstep. apply Nrel_modth_st; [exact C1|intro th; cbn; repeat split; auto].
Qed.
Lemma Nrel_interrupt : forall s v t e s', do_interrupt s v t e = Some s' -> Nrel s s'.
Proof.
  intros s v t e s'. unfold do_interrupt, getth. destruct (th_state (s_th s t)) eqn:Es; intro H; try (inversion H; subst; apply Nrel_refl).
  - destruct (Z.eqb _ 0); inversion H; subst; repeat nstep.
  - destruct (lock_free _); inversion H; subst. now apply Nrel_wake.
Qed.
Lemma Nrel_ret : forall s c r e, Nrel s (ret s c r e).
Proof. intros. unfold ret. nstep. apply Nrel_same; reflexivity. Qed.
Lemma Nrel_setk : forall s c k, Nrel s (setk s c k). Proof. intros. unfold setk. repeat nstep. Qed.
Lemma Nrel_sen : forall s c, Nrel s (fst (fst (set_error_number s c))).
Proof. intros. unfold set_error_number. destruct (Z.eqb _ 0); cbn; repeat nstep. Qed.

(* ---- one thread changes its contribution ------------------------------------------------------ *)
Lemma invN_upd1 : forall s s' t, InvN s -> t < s_n s ->
  same_cfg s s' ->
  (forall x, x <> t -> Nsame (s_th s' x) (s_th s x)) ->
  (is_user (th_kind (s_th s' t)) = false -> th_ws (s_th s' t) = false) ->
  (forall v f x u, v_pend (s_vc s' v) = PSwitch f (DMigrate x u) -> exists v0 f0, v_pend (s_vc s v0) = PSwitch f0 (DMigrate x u)) ->
  (is_user (th_kind (s_th s t)) = true -> is_user (th_kind (s_th s' t)) = true) ->
  (forall v, (v_nthreads (s_vc s' v) + Z.of_nat (b2n (counts s v t)) = v_nthreads (s_vc s v) + Z.of_nat (b2n (counts s' v t)))%Z) ->
  InvN s'.
Proof.
  intros s s' t I Ht [Cn Cv] Hx Hk Hp Hm Hn. constructor.
  - intro x. destruct (Nat.eq_dec x t) as [->|N]; auto. destruct (Hx x N) as (a&b&_). rewrite a, b. apply (n_kind _ I).
  - intro x. rewrite Cn. destruct (Nat.eq_dec x t) as [->|N]; auto. destruct (Hx x N) as (a&_&_&_&e). rewrite a, e. apply (n_range _ I).
  - intros v f x u E. destruct (Hp v f x u E) as (v0 & f0 & E0). pose proof (n_mig _ I v0 f0 x u E0) as U.
    destruct (Nat.eq_dec x t) as [->|N]; auto. destruct (Hx x N) as (a&_). rewrite a. exact U.
  - intro v. specialize (Hn v). rewrite (n_cnt _ I v) in Hn. unfold base in *. rewrite Cv.
    pose proof (users_upd s s' v t Cn) as U.
    assert (U' : users_on s' v + b2n (counts s v t) = users_on s v + b2n (counts s' v t)).
    { apply U; auto. intros x N. apply counts_rel. auto. }
    lia.
Qed.

Definition pendN_ok (s : state) (p : pending) : Prop :=
  match p with PSwitch _ (DMigrate t _) => is_user (th_kind (s_th s t)) = true | _ => True end.
Lemma invN_pend : forall s v g p, InvN s -> pendN_ok s p ->
  (forall x, v_nthreads (g x) = v_nthreads x /\ v_pend (g x) = p) -> InvN (modvc s v g).
Proof.
  intros s v g p I P Hg. constructor.
  - intro t. rewrite th_modvc. apply (n_kind _ I).
  - intro t. rewrite th_modvc. apply (n_range _ I).
  - intros v0 f t u. rewrite vc_modvc, th_modvc. destruct (Nat.eqb v0 v) eqn:E; [|apply (n_mig _ I)].
    destruct (Hg (s_vc s v)) as [_ ->]. intro Ep. subst p. exact P.
  - intro v0. rewrite vc_modvc. unfold base, users_on. cbn [s_nv s_n modvc set_s_vc].
    assert (U : length (filter (counts (modvc s v g) v0) (seq 0 (s_n s))) = length (filter (counts s v0) (seq 0 (s_n s)))).
    { reflexivity. }
    change (s_n (modvc s v g)) with (s_n s). change (s_nv (modvc s v g)) with (s_nv s).
    rewrite U. destruct (Nat.eqb v0 v) eqn:E; [|apply (n_cnt _ I)].
    apply Nat.eqb_eq in E. subst v0. destruct (Hg (s_vc s v)) as [-> _]. apply (n_cnt _ I).
Qed.
Lemma pendN_ok_rel : forall s s' p, Nrel s s' -> pendN_ok s p -> pendN_ok s' p.
Proof.
  intros s s' p (Ht & _) P. destruct p as [|f d|t]; auto. destruct d as [|t|t u]; auto.
  cbn in *. destruct (Ht t) as (a&_). congruence.
Qed.

Lemma head_created : forall s v c rest, Inv1 s -> v_runq (s_vc s v) = c :: rest -> forall n, cnt n (c :: rest) >= 1 -> created (s_th s n) = true.
Proof.
  intros s v c rest I Hq n Hn. rewrite <- Hq in Hn.
  destruct (in_runq_facts s n v (i_placed _ I n v) Hn) as (l1 & _). unfold live in l1. unfold created.
  apply andb_true_iff in l1. tauto.
Qed.

Lemma invN_yield : forall s v ce d, Inv1 s -> InvN s -> head_run s v -> (forall c, pendN_ok s (PSwitch c d)) -> InvN (do_yield s v ce d).
Proof.
  intros s v ce d I1 I Hr P. unfold do_yield, getvc.
  destruct (v_runq (s_vc s v)) as [|c [|n rest]] eqn:Hq; try (apply (invN_frame s); [apply Nrel_same; reflexivity|auto]).
  assert (Cn : created (s_th s n) = true). { apply (head_created s v c (n :: rest) I1 Hq). rewrite !cnt_cons, Nat.eqb_refl. lia. }
  set (s2 := modth (switch_in s n) c _).
  assert (R : Nrel s s2).
  { unfold s2. apply (Nrel_trans s (switch_in s n)); [now apply Nrel_switch_in|].
    apply Nrel_modth_st.
    - rewrite (created_rel s _ c (Nrel_switch_in s n Cn)). eapply created_of_state; [apply (Hr c _ Hq)|discriminate].
    - intro th. destruct ce; cbn; repeat split; auto. }
  apply (invN_pend s2 v _ (PSwitch c d)); [apply (invN_frame s); auto|eapply pendN_ok_rel; eauto|intro; split; reflexivity].
Qed.

Lemma invN_sleep : forall s v exp wq d, Inv1 s -> InvN s -> head_run s v -> (forall c, pendN_ok s (PSwitch c d)) -> InvN (do_sleep s v exp wq d).
Proof.
  intros s v exp wq d I1 I Hr P. unfold do_sleep, getvc.
  destruct (v_runq (s_vc s v)) as [|c [|n rest]] eqn:Hq; try (apply (invN_frame s); [apply Nrel_same; reflexivity|auto]).
  assert (Cn : created (s_th s n) = true). { apply (head_created s v c (n :: rest) I1 Hq). rewrite !cnt_cons, Nat.eqb_refl. lia. }
  set (s2 := modth (switch_in s n) c _).
  assert (R2 : Nrel s s2).
  { unfold s2. apply (Nrel_trans s (switch_in s n)); [now apply Nrel_switch_in|].
    apply Nrel_modth_st.
    - rewrite (created_rel s _ c (Nrel_switch_in s n Cn)). eapply created_of_state; [apply (Hr c _ Hq)|discriminate].
    - intro th. cbn. repeat split; auto. }
  set (s3 := match wq with Some x => modth s2 x _ | None => s2 end).
  assert (R3 : Nrel s s3). { unfold s3. destruct wq; auto. apply (Nrel_trans s s2); auto. apply Nrel_modth. nsame. }
  match goal with |- InvN (if ?b then set_s_tie ?X true else ?X) =>
    assert (IX : InvN X); [| destruct b; auto; apply (invN_frame X); [apply Nrel_same; reflexivity|auto]] end.
  apply (invN_pend s3 v _ (PSwitch c d)); [apply (invN_frame s); auto|eapply pendN_ok_rel; eauto|intro; split; reflexivity].
Qed.

Ltac pend_case v0 v := 
  rewrite ?vc_modvc, ?vc_modth; destruct (Nat.eqb v0 v) eqn:?E; [apply Nat.eqb_eq in E; subst v0|].

Lemma invN_create : forall s v k jn ws, InvN s -> th_state (s_th s k) = NOTCREATED -> k < s_n s -> InvN (do_create s v k jn ws).
Proof.
  intros s v k jn ws I En Hk. unfold do_create, getth.
  eapply (invN_upd1 s _ k I Hk).
  - split; reflexivity.
  - intros x N. rewrite th_modvc. cbn [s_th set_s_th]. rewrite updp_neq by auto. apply Nsame_refl.
  - rewrite th_modvc. cbn [s_th set_s_th]. rewrite updp_eq. cbn. discriminate.
  - intros v0 f x u. rewrite vc_modvc. destruct (Nat.eqb v0 v) eqn:E.
    + apply Nat.eqb_eq in E. subst v0. cbn. intro X. exists v, f. exact X.
    + intro X. exists v0, f. exact X.
  - intros _. rewrite th_modvc. cbn [s_th set_s_th]. rewrite updp_eq. reflexivity.
  - intro v0. rewrite vc_modvc. unfold counts. rewrite th_modvc. cbn [s_th set_s_th]. rewrite updp_eq. cbn.
    unfold created. rewrite En. cbn. rewrite andb_false_r. cbn.
    destruct (Nat.eqb v0 v) eqn:E.
    + apply Nat.eqb_eq in E. subst v0. rewrite Nat.eqb_refl. cbn. lia.
    + rewrite (Nat.eqb_sym v v0), E. cbn. lia.
Qed.

Lemma invN_migrate : forall s v t u s' b, Inv2 s -> InvN s -> is_user (th_kind (s_th s t)) = true ->
  do_migrate s v t u = Some (s', b) -> InvN s'.
Proof.
  intros s v t u s' b I2 I Hu. unfold do_migrate, getth, getvc.
  destruct (negb _); [discriminate|].
  match goal with |- (if ?c then _ else _) = _ -> _ => destruct c eqn:C end; intro H; inversion H; subst; auto.
  repeat (apply andb_true_iff in C; destruct C as [C ?]).
  assert (Es : th_state (s_th s t) = READY) by (destruct (th_state (s_th s t)); try discriminate; reflexivity).
  assert (Ev : th_vcpu (s_th s t) = v) by (match goal with H : Nat.eqb (th_vcpu _) v = true |- _ => now apply Nat.eqb_eq in H end).
  assert (Nuv : u <> v).
  { match goal with H : negb (Nat.eqb u v) = true |- _ => apply negb_true_iff in H; now apply Nat.eqb_neq in H end. }
  assert (Cr : created (s_th s t) = true) by (eapply created_of_state; eauto; discriminate).
  assert (Fin : g_finished (s_th s t) = 0). { destruct (I2 t) as (a & _). rewrite a, Es. reflexivity. }
  eapply (invN_upd1 s _ t I (n_range _ I t Hu Cr)).
  - split; reflexivity.
  - intros x N. rewrite !th_modvc, th_modth. apply Nat.eqb_neq in N. rewrite N. apply Nsame_refl.
  - rewrite !th_modvc, th_modth, Nat.eqb_refl. cbn. rewrite Hu. discriminate.
  - intros v0 f x u0. rewrite !vc_modvc, vc_modth.
    destruct (Nat.eqb v0 u) eqn:E1; [apply Nat.eqb_eq in E1; subst v0|].
    + destruct (Nat.eqb u v); cbn; intro X; eauto.
    + destruct (Nat.eqb v0 v) eqn:E2; [apply Nat.eqb_eq in E2; subst v0|]; cbn; intro X; eauto.
  - intros _. rewrite !th_modvc, th_modth, Nat.eqb_refl. cbn. exact Hu.
  - intro v0. rewrite !vc_modvc, vc_modth. unfold counts. rewrite !th_modvc, th_modth, Nat.eqb_refl. cbn. rewrite Hu, Fin, Ev. unfold created. rewrite Es. cbn.
    destruct (Nat.eqb v0 u) eqn:E1; [apply Nat.eqb_eq in E1; subst v0|].
    + rewrite Nat.eqb_refl. replace (Nat.eqb v u) with false by (symmetry; apply Nat.eqb_neq; congruence).
      replace (Nat.eqb u v) with false by (symmetry; apply Nat.eqb_neq; congruence). cbn. lia.
    + replace (Nat.eqb u v0) with false by (symmetry; apply Nat.eqb_neq; apply Nat.eqb_neq in E1; congruence).
      destruct (Nat.eqb v0 v) eqn:E2; [apply Nat.eqb_eq in E2; subst v0; rewrite Nat.eqb_refl; cbn; lia|].
      rewrite (Nat.eqb_sym v v0), E2. cbn. lia.
Qed.

Lemma invN_die : forall s v rv s', Inv1 s -> Inv2 s -> InvN s -> head_run s v ->
  (forall c rest, v_runq (s_vc s v) = c :: rest -> is_user (th_kind (s_th s c)) = true) ->
  do_die s v rv = Some s' -> InvN s'.
Proof.
  intros s v rv s' I1 I2 I Hr Hu. unfold do_die, getvc, getth.
  destruct (v_runq (s_vc s v)) as [|c [|n rest]] eqn:Hq;
    try (intro H; inversion H; subst; apply (invN_frame s); [apply Nrel_same; reflexivity|auto]).
  cbv zeta. match goal with |- (if negb ?b then _ else _) = _ -> _ => destruct b end; cbn [negb]; [|discriminate].
  intro H. inversion H; subst s'; clear H.
  pose proof (Hr c _ Hq) as Ec. pose proof (Hu c _ eq_refl) as Uc.
  assert (Cn : created (s_th s n) = true). { apply (head_created s v c (n :: rest) I1 Hq). rewrite !cnt_cons, Nat.eqb_refl. lia. }
  assert (Hc : cnt c (v_runq (s_vc s v)) >= 1) by (rewrite Hq; apply cnt_head).
  destruct (in_runq_facts s c v (i_placed _ I1 c v) Hc) as (_ & Evc & _).
  set (s1 := match th_joiners (s_th s c) with j :: _ => wake s v j (-1) | [] => s end).
  assert (R1 : Nrel s s1).
  { unfold s1. destruct (th_joiners (s_th s c)) as [|j js] eqn:Ej; [apply Nrel_refl|].
    apply Nrel_wake. destruct (i_waits _ I1 j c) as [A B]. rewrite Ej, cnt_cons, Nat.eqb_refl in A.
    apply B. destruct (th_waitq (s_th s j)); [discriminate|]. cbn in A. lia. }
  set (s2 := switch_in s1 n).
  assert (R2 : Nrel s s2).
  { apply (Nrel_trans s s1); auto. apply Nrel_switch_in. rewrite (created_rel s s1 n R1). exact Cn. }
  clearbody s2. clear s1 R1.
  pose proof (invN_frame s s2 R2 I) as J2. destruct R2 as (Rt & Rv & Rc).
  destruct (Rt c) as (k1&k2&k3&k4&k5).
  assert (Fin : g_finished (s_th s c) = 0). { destruct (I2 c) as (a & _). rewrite a, Ec. reflexivity. }
  assert (Cc : created (s_th s c) = true) by (eapply created_of_state; eauto; discriminate).
  assert (Hlt : c < s_n s2). { apply (n_range _ J2); [rewrite k1; auto|rewrite k5; auto]. }
  eapply (invN_upd1 s2 _ c J2 Hlt).
  - split; reflexivity.
  - intros x N. rewrite th_modvc, th_modth. apply Nat.eqb_neq in N. rewrite N. apply Nsame_refl.
  - rewrite th_modvc, th_modth, Nat.eqb_refl. cbn. rewrite k1, Uc. discriminate.
  - intros v0 f x u. rewrite vc_modvc, vc_modth. destruct (Nat.eqb v0 v) eqn:E; cbn; intro X; [discriminate|eauto].
  - intros _. rewrite th_modvc, th_modth, Nat.eqb_refl. cbn. rewrite k1. exact Uc.
  - intro v0. rewrite vc_modvc, vc_modth. unfold counts. rewrite th_modvc, th_modth, Nat.eqb_refl. cbn. rewrite k1, k3, k4, k5, Uc, Cc, Fin, Evc.
    cbn. destruct (Nat.eqb v0 v) eqn:E.
    + apply Nat.eqb_eq in E. subst v0. rewrite Nat.eqb_refl. cbn. lia.
    + rewrite (Nat.eqb_sym v v0), E. cbn. lia.
Qed.

Lemma live_facts : forall s t, Inv2 s -> live (s_th s t) = true -> created (s_th s t) = true /\ g_finished (s_th s t) = 0.
Proof.
  intros s t I2 L. unfold live in L. apply andb_true_iff in L. destruct L as [L1 L2]. split; [exact L1|].
  destruct (I2 t) as (a & _). rewrite a. apply negb_true_iff in L2. rewrite L2. reflexivity.
Qed.

Lemma invN_steal : forall s v u t, Inv1 s -> Inv2 s -> InvN s -> InvN (do_steal s v u t).
Proof.
  intros s v u t I1 I2 I. unfold do_steal, getth, getvc.
  destruct (negb _) eqn:G; auto. apply negb_false_iff in G.
  repeat (apply andb_true_iff in G; destruct G as [G ?]).
  assert (Nuv : u <> v).
  { match goal with H : negb (Nat.eqb u v) = true |- _ => apply negb_true_iff in H; now apply Nat.eqb_neq in H end. }
  assert (Ws : th_ws (s_th s t) = true).
  { match goal with H : stealable _ = true |- _ => unfold stealable in H; apply andb_true_iff in H; tauto end. }
  assert (Ut : is_user (th_kind (s_th s t)) = true).
  { destruct (is_user (th_kind (s_th s t))) eqn:E; auto. rewrite (n_kind _ I t E) in Ws. discriminate. }
  assert (Main : forall s0, s_th s0 = s_th s -> (forall y, v_nthreads (s_vc s0 y) = v_nthreads (s_vc s y) /\ v_pend (s_vc s0 y) = v_pend (s_vc s y)) ->
            s_n s0 = s_n s -> s_nv s0 = s_nv s -> live (s_th s t) = true -> th_vcpu (s_th s t) = u ->
            InvN (modvc (modvc (modth s0 t (fun x => set_th_vcpu x v)) u (fun x => set_v_nthreads x (v_nthreads x - 1)))
                        v (fun x => set_v_nthreads (set_v_runq x (v_runq x ++ [t])) (v_nthreads x + 1)))).
  { intros s0 Et Ev En Env L Eu.
    destruct (live_facts s t I2 L) as [Cr Fin].
    eapply (invN_upd1 s _ t I (n_range _ I t Ut Cr)).
    - split; cbn; auto.
    - intros x N. rewrite !th_modvc, th_modth, Et. apply Nat.eqb_neq in N. rewrite N. apply Nsame_refl.
    - rewrite !th_modvc, th_modth, Nat.eqb_refl, Et. cbn. rewrite Ut. discriminate.
    - intros v0 f x u0. rewrite !vc_modvc, vc_modth.
      destruct (Nat.eqb v0 v) eqn:E1; [apply Nat.eqb_eq in E1; subst v0|].
      + destruct (Nat.eqb v u); cbn; intro X; [destruct (Ev u) as [_ P]|destruct (Ev v) as [_ P]]; rewrite P in X; eauto.
      + destruct (Nat.eqb v0 u) eqn:E2; [apply Nat.eqb_eq in E2; subst v0|]; cbn; intro X;
          [destruct (Ev u) as [_ P]|destruct (Ev v0) as [_ P]]; rewrite P in X; eauto.
    - intros _. rewrite !th_modvc, th_modth, Nat.eqb_refl, Et. cbn. exact Ut.
    - intro v0. rewrite !vc_modvc, vc_modth. unfold counts. rewrite !th_modvc, th_modth, Nat.eqb_refl, Et. unfold created in *. cbn.
      rewrite Ut, Cr, Fin, Eu. cbn.
      destruct (Nat.eqb v0 v) eqn:E1; [apply Nat.eqb_eq in E1; subst v0|].
      + rewrite Nat.eqb_refl. replace (Nat.eqb u v) with false by (symmetry; apply Nat.eqb_neq; congruence).
        replace (Nat.eqb v u) with false by (symmetry; apply Nat.eqb_neq; congruence). cbn.
        rewrite ?vc_modth. destruct (Ev v) as [P _]. rewrite ?P. lia.
      + replace (Nat.eqb v v0) with false by (symmetry; apply Nat.eqb_neq; apply Nat.eqb_neq in E1; congruence).
        destruct (Nat.eqb v0 u) eqn:E2; [apply Nat.eqb_eq in E2; subst v0; rewrite Nat.eqb_refl; cbn; destruct (Ev u) as [P _]; rewrite P; lia|].
        rewrite (Nat.eqb_sym u v0), E2. cbn. destruct (Ev v0) as [P _]. rewrite P. lia. }
  destruct (mem_tid t (v_standby (s_vc s u))) eqn:M1.
  - apply mem_cnt in M1. destruct (in_standby_facts s t u (i_placed _ I1 t u) M1) as (l1 & l2 & _).
    apply Main; auto. intro y. rewrite vc_modvc. destruct (Nat.eqb y u) eqn:E; [apply Nat.eqb_eq in E; subst y|]; split; reflexivity.
  - destruct (_ && _) eqn:M2; auto. apply andb_true_iff in M2. destruct M2 as [M2 M3]. apply mem_cnt in M2.
    destruct (in_runq_facts s t u (i_placed _ I1 t u) M2) as (l1 & l2 & _).
    apply Main; auto. intro y. rewrite vc_modvc. destruct (Nat.eqb y u) eqn:E; [apply Nat.eqb_eq in E; subst y|]; split; reflexivity.
Qed.

Lemma Nrel_drain_one : forall s v t, Inv1 s -> Nrel s (drain_one s v t).
Proof.
  intros s v t I1. unfold drain_one, getvc. destruct (mem_tid t (v_standby (s_vc s v))) eqn:M; cbn [negb]; [|apply Nrel_refl].
  apply mem_cnt in M. destruct (in_standby_facts s t v (i_placed _ I1 t v) M) as (l1 & _).
  nstep. apply Nrel_modth_st.
  - unfold live in l1. apply andb_true_iff in l1. unfold created. tauto.
  - intro th. cbn. repeat split; auto.
Qed.
Lemma invN_drain_list : forall l s v, Inv1 s -> InvN s -> InvN (drain_list s v l).
Proof.
  induction l; cbn; intros s v I1 I; auto. apply IHl; [now apply inv1_drain_one|].
  eapply invN_frame; [apply Nrel_drain_one; auto|auto].
Qed.
Lemma Nrel_resume : forall s v, Nrel s (do_resume s v).
Proof.
  intros. unfold do_resume, getvc, getth. destruct (v_sleepq _) as [|t rest]; [apply Nrel_refl|].
  destruct (Z.ltb _ _); [apply Nrel_refl|]. destruct (negb _); [apply Nrel_refl|].
  destruct (tstate_eqb (th_state (s_th s t)) SLEEPING) eqn:Es.
  - assert (Es' : th_state (s_th s t) = SLEEPING) by (destruct (th_state (s_th s t)); try discriminate; reflexivity).
    nstep. apply (Nrel_trans s (dequeue s t)); [apply Nrel_dequeue|]. apply Nrel_modth_st.
    + rewrite (created_rel s _ t (Nrel_dequeue s t)). eapply created_of_state; eauto. discriminate.
    + intro th. cbn. repeat split; auto.
  - repeat nstep.
Qed.

Lemma invN_exec_pend : forall s v, Inv2 s -> InvN s -> InvN (exec_pend s v).
Proof.
  intros s v I2 I. unfold exec_pend, getvc, getth.
  destruct (v_pend (s_vc s v)) as [|from d|t] eqn:Ep; auto.
  - assert (I0 : InvN (modvc s v (fun x => set_v_pend x PNone))).
    { apply (invN_pend s v _ PNone); [exact I|exact Logic.I|intro; split; reflexivity]. }
    destruct d as [|t|t u]; auto.
    + eapply invN_frame; [|exact I0]. apply Nrel_modth. nsame.
    + destruct (do_migrate _ v t u) as [[s1 b]|] eqn:M; auto.
      apply (invN_migrate (modvc s v (fun x => set_v_pend x PNone)) v t u s1 b); auto.
      rewrite th_modvc. eapply n_mig; eauto.
  - assert (I0 : InvN (modvc s v (fun x => set_v_pend x PNone))).
    { apply (invN_pend s v _ PNone); [exact I|exact Logic.I|intro; split; reflexivity]. }
    destruct (th_joinable _); (eapply invN_frame; [|exact I0]); apply Nrel_modth; nsame.
Qed.

Lemma invN_join_check : forall s v c j, Inv1 s -> InvN s -> head_run s v -> InvN (join_check s v c j).
Proof.
  intros s v c j I1 I Hr. unfold join_check, getth.
  destruct (tstate_eqb _ NOTCREATED). { apply (invN_frame s); [apply Nrel_same; reflexivity|auto]. }
  destruct (negb (th_joinable _)). { eapply invN_frame; [apply Nrel_ret|auto]. }
  destruct (negb _); auto.
  destruct (tstate_eqb _ DONE).
  - eapply invN_frame; [apply Nrel_ret|]. eapply invN_frame; [|exact I]. apply Nrel_modth. nsame.
  - destruct (negb _); auto.
    apply invN_sleep.
    + apply inv1_setk. apply inv1_neutral; [intro th; repeat split | auto].
    + eapply invN_frame; [apply Nrel_setk|]. eapply invN_frame; [|exact I]. apply Nrel_modth. nsame.
    + unfold setk. apply head_run_neutral; [intro th; repeat split|]. apply head_run_neutral; [intro th; repeat split | auto].
    + intro; exact Logic.I.
Qed.

Ltac nframe := eapply invN_frame; [first [apply Nrel_ret | apply Nrel_setk | apply Nrel_refl]|].
Ltac hr_n := unfold setk; apply head_run_neutral; [intro th; repeat split | auto].

Lemma invN_wait_all_op : forall progs s v c f, Inv1 s -> Inv2 s -> InvN s -> head_run s v -> InvN (wait_all_op progs s v c f).
Proof.
  intros progs s v c f I1 I2 I Hr. unfold wait_all_op, getth.
  assert (W : InvN (wait_check progs s v c f)).
  { unfold wait_check, getth, getvc. destruct (wait_cond s v); [|nframe; auto].
    destruct (v_sleepq (s_vc s v)).
    - apply invN_yield; [now apply inv1_setk|nframe; auto|hr_n|intro; exact Logic.I].
    - destruct (expired _ _).
      + apply invN_yield; [now apply inv1_setk|nframe; auto|hr_n|intro; exact Logic.I].
      + destruct (lock_free _); auto. apply invN_sleep; [now apply inv1_setk|nframe; auto|hr_n|intro; exact Logic.I]. }
  destruct (Nat.eqb c v); [|destruct f; [apply (invN_frame s); [apply Nrel_same; reflexivity|auto]|nframe; auto]].
  destruct (th_k (s_th s c)) as [|[|[|k]]]; auto.
  - pose proof (Nrel_sen s c) as X. destruct (set_error_number s c) as [[s1 r] e]. cbn in X.
    nframe. eapply invN_frame; eauto.
  - nframe; auto.
Qed.

Lemma invN_exec_op : forall progs s v c o, Inv1 s -> Inv2 s -> InvN s -> head_run s v -> InvN (exec_op progs s v c o).
Proof.
  intros progs s v c o I1 I2 I Hr. unfold exec_op, getth, getvc.
  destruct o as [d| |j e|j jn ws|j| | |j|j u| |]; try now apply invN_wait_all_op.
  - destruct (th_k (s_th s c)) as [|[|k]].
    + destruct (expired _ _).
      * apply invN_yield; [now apply inv1_setk|nframe; auto|hr_n|intro; exact Logic.I].
      * destruct (lock_free _); auto. apply invN_sleep; [now apply inv1_setk|nframe; auto|hr_n|intro; exact Logic.I].
    + pose proof (Nrel_sen s c) as X. destruct (set_error_number s c) as [[s1 r] e]. cbn in X.
      nframe. eapply invN_frame; eauto.
    + destruct (Z.eqb _ 0); nframe; auto.
  - destruct (th_k (s_th s c)).
    + apply invN_yield; [now apply inv1_setk|nframe; auto|hr_n|intro; exact Logic.I].
    + nframe; auto.
  - destruct (alive progs s j); [|nframe; auto].
    destruct (do_interrupt s v j e) as [s1|] eqn:D; auto.
    nframe. eapply invN_frame; [eapply Nrel_interrupt; eauto|auto].
  - destruct (_ && _) eqn:C; [|nframe; auto].
    nframe. apply andb_true_iff in C. destruct C as [C1 C]. apply andb_true_iff in C1. destruct C1 as [_ C1].
    apply invN_create; auto.
    + unfold getth in C. destruct (th_state (s_th s j)); try discriminate; reflexivity.
    + now apply Nat.ltb_lt in C1.
  - destruct (th_k (s_th s c)) as [|[|k]].
    + destruct (_ && _); [|nframe; auto]. nframe. eapply invN_frame; [|eauto]. apply Nrel_modth. nsame.
    + now apply invN_join_check.
    + pose proof (Nrel_sen s c) as X. destruct (set_error_number s c) as [[s1 r] e]. cbn in X.
      nframe. eapply invN_frame; eauto.
  - nframe; auto.
  - nframe; auto.
  - destruct (_ && _); nframe; auto.
  - destruct (th_k (s_th s c)); [|nframe; auto].
    destruct (negb _) eqn:G; [nframe; auto|].
    apply negb_false_iff in G. repeat (apply andb_true_iff in G; destruct G as [G ?]).
    destruct (Nat.eqb u v); [nframe; auto|].
    destruct (Nat.eqb j c) eqn:Ejc.
    { apply Nat.eqb_eq in Ejc. subst j.
      apply invN_yield; [now apply inv1_setk|nframe; auto|hr_n|].
      intro c0. unfold pendN_ok, setk. rewrite th_modth, Nat.eqb_refl. cbn. unfold getth in *. assumption. }
    destruct (negb (Nat.eqb (th_vcpu (s_th s j)) v)); [nframe; auto|].
    destruct (negb (tstate_eqb (th_state (s_th s j)) READY)); [nframe; auto|].
    destruct (do_migrate s v j u) as [[s1 [|]]|] eqn:M; [| |exact I];
      (nframe; eapply (invN_migrate s v j u); [exact I2|exact I| |exact M]; unfold getth in *; assumption).
Qed.

Lemma invN_step_vcpu : forall progs s v, Inv1 s -> Inv2 s -> InvN s -> InvN (step_vcpu progs s v).
Proof.
  intros progs s v I1 I2 I. unfold step_vcpu, getvc, getth.
  destruct (negb _). { now apply invN_exec_pend. }
  destruct (v_runq (s_vc s v)) as [|c rest] eqn:Hq. { apply (invN_frame s); [apply Nrel_same; reflexivity|auto]. }
  destruct (th_state (s_th s c)) eqn:Es; try (apply (invN_frame s); [apply Nrel_same; reflexivity|auto]).
  assert (Hr : head_run s v). { intros c' r' E. rewrite Hq in E. inversion E; subst. auto. }
  destruct (th_kind (s_th s c)) eqn:Ek.
  - destruct (nth_error _ _); [now apply invN_exec_op|].
    destruct (th_k (s_th s c)).
    + destruct (lock_free _); auto. apply invN_sleep; [now apply inv1_setk|nframe; auto|hr_n|intro; exact Logic.I].
    + pose proof (Nrel_sen s c) as X. destruct (set_error_number s c) as [[s1 r] e]. cbn in X.
      nframe. eapply invN_frame; eauto.
  - destruct rest; auto. apply invN_yield; auto. intro; exact Logic.I.
  - destruct (nth_error _ _); [now apply invN_exec_op|].
    destruct (do_die s v _) as [s1|] eqn:D; auto. eapply invN_die; eauto.
    intros c' r' E. rewrite Hq in E. inversion E; subst. rewrite Ek. reflexivity.
Qed.

Lemma invN_step : forall progs s l, Inv1 s -> Inv2 s -> InvN s -> InvN (step progs s l).
Proof.
  intros progs s l I1 I2 I. unfold step. destruct (s_stuck s); [exact I|]. destruct (frozen _ _ _); [exact I|].
  destruct l as [v|v|v|v u t|d].
  - destruct (Nat.ltb _ _); [|exact I].
    destruct (pend_to_offline _ _ _); [apply (invN_frame s); [apply Nrel_same; reflexivity|exact I]|]. now apply invN_step_vcpu.
  - destruct (_ && _); [|exact I]. unfold do_drain. now apply invN_drain_list.
  - destruct (_ && _); [|exact I]. eapply invN_frame; [apply Nrel_resume|exact I].
  - destruct (_ && _); [|exact I]. now apply invN_steal.
  - destruct (Z.leb _ _); [|exact I]. eapply invN_frame; [|exact I]. apply Nrel_same; reflexivity.
Qed.

Lemma inv12N_run : forall progs ls s, Inv1 s -> Inv2 s -> InvN s ->
  Inv1 (run progs s ls) /\ Inv2 (run progs s ls) /\ InvN (run progs s ls).
Proof.
  induction ls; cbn; intros s I1 I2 IN; auto.
  destruct (inv12_step progs s a I1 I2). apply IHls; auto. now apply invN_step.
Qed.

Lemma users_on_zero : forall s v, (forall t, t < s_n s -> counts s v t = false) -> users_on s v = 0.
Proof.
  intros s v H. unfold users_on.
  assert (G : forall l, (forall t, In t l -> counts s v t = false) -> length (filter (counts s v) l) = 0).
  { induction l as [|a l IH]; cbn; intros; auto. rewrite (H0 a (or_introl eq_refl)). apply IH. intros; apply H0; now right. }
  apply G. intros t Ht. apply H. apply in_seq in Ht. lia.
Qed.

Lemma invN_init : forall nv n flags t0, nv <= n -> InvN (init_state nv n flags t0).
Proof.
  intros nv n flags t0 Hn. constructor.
  - intro t. unfold init_state. cbn [s_th].
    destruct (init_thread_cases nv n t Hn) as [[_ ->]|[[_ ->]|(_ & _ & ->)]]; cbn; intros; try reflexivity; try discriminate.
  - intro t. unfold init_state. cbn [s_th s_n].
    destruct (init_thread_cases nv n t Hn) as [[_ ->]|[[_ ->]|(_ & _ & ->)]]; cbn; intros; discriminate.
  - intros v f t u. unfold init_state. cbn [s_vc]. destruct (init_vcpu_cases nv n flags v) as [(V1 & _)|[V1 E]].
    + unfold init_vcpu. assert (Nat.ltb v nv = true) as -> by (now apply Nat.ltb_lt). cbn. discriminate.
    + rewrite E. cbn. discriminate.
  - intro v. rewrite users_on_zero.
    + unfold base, init_state. cbn [s_vc s_nv]. unfold init_vcpu. destruct (Nat.ltb v nv); reflexivity.
    + intros t _. unfold counts, init_state. cbn [s_th].
      destruct (init_thread_cases nv n t Hn) as [[_ ->]|[[_ ->]|(_ & _ & ->)]]; reflexivity.
Qed.

(* ---- nthreads_restored ----------------------------------------------------------------------- *)
Lemma nthreads_proof : forall progs nv n flags t0 s, nv <= n -> reachable progs nv n flags t0 s ->
  s_n s = n /\ s_nv s = nv /\
  forall v,
    (* the counter of a vCPU = main + idler + the program threads that exist, have not finished, and belong to it *)
    v_nthreads (s_vc s v) = ((if Nat.ltb v nv then 2 else 0) + Z.of_nat (users_on s v))%Z /\
    (* restored: when every created program thread is DONE the counter is back to its initial value *)
    ((forall t, is_user (th_kind (s_th s t)) = true -> th_state (s_th s t) = NOTCREATED \/ th_state (s_th s t) = DONE) ->
       v_nthreads (s_vc s v) = v_nthreads (s_vc (init_state nv n flags t0) v)).
Proof.
  intros progs nv n flags t0 s Hn [ls ->].
  destruct (inv12N_run progs ls _ (inv1_init nv n flags t0 Hn) (inv2_init nv n flags t0 Hn) (invN_init nv n flags t0 Hn))
    as (I1 & I2 & IN).
  destruct (cfg_run progs ls (init_state nv n flags t0)) as [Cn Cv]. cbn in Cn, Cv.
  set (s := run progs (init_state nv n flags t0) ls) in *.
  split; [exact Cn|split; [exact Cv|]]. intro v.
  pose proof (n_cnt _ IN v) as E. unfold base in E. rewrite Cv in E. split; [exact E|].
  intro Q. rewrite E, users_on_zero.
  - cbn [init_state s_vc]. unfold init_vcpu. destruct (Nat.ltb v nv); cbn; lia.
  - intros t _. unfold counts. destruct (is_user (th_kind (s_th s t))) eqn:U; auto.
    destruct (Q t U) as [X|X].
    + unfold created. rewrite X. reflexivity.
    + destruct (I2 t) as (a & _). rewrite a, X. cbn. rewrite andb_false_r. reflexivity.
Qed.
