(* C05_Proofs4.v — fourth invariant layer: vcpu.nthreads = (main + idler) + number of live program threads
   whose `vcpu` is this vCPU (nthreads_restored). *)
From Coq Require Import ZArith List Bool Arith Lia.
From PV Require Import Base.U64 C05.C05_Model C05.C05_Proofs C05.C05_Proofs2 C05.C05_Proofs3.
Import ListNotations.
Local Open Scope nat_scope.

Definition created (th : thread) : bool := negb (tstate_eqb (th_state th) NOTCREATED).
(* program thread, exists, entry function not finished, owned by vCPU v *)
Definition counts (s : state) (v : nat) (t : tid) : bool :=
  is_user (th_kind (s_th s t)) && created (s_th s t) && Nat.eqb (g_finished (s_th s t)) 0 && Nat.eqb (th_vcpu (s_th s t)) v.
Definition users_on (s : state) (v : nat) : nat := length (filter (counts s v) (seq 0 (s_n s))).
Definition base (s : state) (v : nat) : Z := if Nat.ltb v (s_nv s) then 2%Z else 0%Z.

Record InvN (s : state) : Prop := mkInvN {
  n_kind : forall t, is_user (th_kind (s_th s t)) = false -> th_ws (s_th s t) = false;
  n_range : forall t, is_user (th_kind (s_th s t)) = true -> created (s_th s t) = true -> t < s_n s;
  n_mig : forall v f t u, v_pend (s_vc s v) = PSwitch f (DMigrate t u) -> is_user (th_kind (s_th s t)) = true;
  n_cnt : forall v, v_nthreads (s_vc s v) = (base s v + Z.of_nat (users_on s v))%Z
}.

(* ---- counting under a point update ---------------------------------------------------------- *)
Definition b2n (b : bool) : nat := if b then 1 else 0.
Lemma filter_upd : forall (f g : nat -> bool) t l, (forall x, x <> t -> f x = g x) ->
  length (filter g l) + cnt t l * b2n (f t) = length (filter f l) + cnt t l * b2n (g t).
Proof.
  intros f g t l H. induction l as [|a l IH]; cbn [filter length].
  - rewrite cnt_nil. lia.
  - rewrite cnt_cons. destruct (Nat.eqb a t) eqn:E.
    + apply Nat.eqb_eq in E. subst a. destruct (f t), (g t); cbn [length b2n] in *; lia.
    + apply Nat.eqb_neq in E. rewrite (H a E). destruct (g a); cbn [length]; lia.
Qed.
Lemma cnt_seq : forall t n, t < n -> cnt t (seq 0 n) = 1.
Proof.
  intros t n H. unfold cnt.
  assert (I : In t (seq 0 n)) by (apply in_seq; lia).
  pose proof (seq_NoDup n 0) as ND. rewrite (NoDup_count_occ Nat.eq_dec) in ND. specialize (ND t).
  apply (count_occ_In Nat.eq_dec) in I. lia.
Qed.

Lemma users_upd : forall s s' v t, s_n s' = s_n s -> (forall x, x <> t -> counts s' v x = counts s v x) -> t < s_n s ->
  users_on s' v + b2n (counts s v t) = users_on s v + b2n (counts s' v t).
Proof.
  intros s s' v t En H Ht. unfold users_on. rewrite En.
  pose proof (filter_upd (counts s v) (counts s' v) t (seq 0 (s_n s))) as F.
  rewrite (cnt_seq t (s_n s) Ht) in F. rewrite !Nat.mul_1_l in F. apply F. intros x Nx. symmetry. auto.
Qed.
Lemma users_same : forall s s' v, s_n s' = s_n s -> (forall x, counts s' v x = counts s v x) -> users_on s' v = users_on s v.
Proof.
  intros s s' v En H. unfold users_on. rewrite En. f_equal. apply filter_ext. auto.
Qed.

(* ---- neutral functions: kind / ws / vcpu / finished / created of every thread, and nthreads / pend / cfg kept *)
Definition Nsame (a b : thread) : Prop :=
  th_kind a = th_kind b /\ th_ws a = th_ws b /\ th_vcpu a = th_vcpu b /\ g_finished a = g_finished b /\ created a = created b.
Definition Nrel (s s' : state) : Prop :=
  (forall x, Nsame (s_th s' x) (s_th s x)) /\
  (forall v, v_nthreads (s_vc s' v) = v_nthreads (s_vc s v) /\ v_pend (s_vc s' v) = v_pend (s_vc s v)) /\
  same_cfg s s'.
Lemma Nsame_refl : forall a, Nsame a a. Proof. intro. unfold Nsame. repeat split; auto. Qed.
Lemma Nrel_refl : forall s, Nrel s s. Proof. intro. split; [|split]; intros; auto using Nsame_refl, same_cfg_refl. Qed.
Lemma Nrel_trans : forall a b c, Nrel a b -> Nrel b c -> Nrel a c.
Proof.
  intros a b c (A1 & A2 & A3) (B1 & B2 & B3). split; [|split].
  - intro x. destruct (A1 x) as (a1&a2&a3&a4&a5), (B1 x) as (b1&b2&b3&b4&b5). unfold Nsame. repeat split; congruence.
  - intro v. destruct (A2 v), (B2 v). split; congruence.
  - eapply same_cfg_trans; eauto.
Qed.
Lemma counts_rel : forall s s' v x, Nsame (s_th s' x) (s_th s x) -> counts s' v x = counts s v x.
Proof. unfold counts, Nsame. intros s s' v x (a&b&c&d&e). rewrite a, c, d, e. reflexivity. Qed.

Lemma invN_frame : forall s s', Nrel s s' -> InvN s -> InvN s'.
Proof.
  intros s s' (Ht & Hv & Hc) I. destruct Hc as [Cn Cv]. constructor.
  - intros t. destruct (Ht t) as (a&b&c&d&e). rewrite a, b. apply (n_kind _ I).
  - intros t. destruct (Ht t) as (a&b&c&d&e). rewrite a, e, Cn. apply (n_range _ I).
  - intros v f t u E. destruct (Hv v) as [_ P]. rewrite P in E. destruct (Ht t) as (a&_). rewrite a. eapply n_mig; eauto.
  - intro v. destruct (Hv v) as [Nn _]. rewrite Nn, (n_cnt _ I v). unfold base. rewrite Cv. f_equal. f_equal.
    symmetry. apply users_same; auto. intro x. apply counts_rel. auto.
Qed.

Lemma Nrel_modth : forall s t f, (forall th, Nsame (f th) th) -> Nrel s (modth s t f).
Proof.
  intros s t f Hf. split; [|split; [intro; split; reflexivity|split; reflexivity]].
  intro x. rewrite th_modth. destruct (Nat.eqb x t) eqn:E; [|apply Nsame_refl]. apply Nat.eqb_eq in E. subst. apply Hf.
Qed.
(* the same for an update that (re)writes the state of a thread that exists *)
Lemma Nrel_modth_st : forall s t f, created (s_th s t) = true ->
  (forall th, th_kind (f th) = th_kind th /\ th_ws (f th) = th_ws th /\ th_vcpu (f th) = th_vcpu th /\
              g_finished (f th) = g_finished th /\ created (f th) = true) -> Nrel s (modth s t f).
Proof.
  intros s t f Hc Hf. split; [|split; [intro; split; reflexivity|split; reflexivity]].
  intro x. rewrite th_modth. destruct (Nat.eqb x t) eqn:E; [|apply Nsame_refl]. apply Nat.eqb_eq in E. subst.
  destruct (Hf (s_th s t)) as (a&b&c&d&e). unfold Nsame. repeat split; auto. congruence.
Qed.
Lemma Nrel_modvc : forall s v g, (forall x, v_nthreads (g x) = v_nthreads x /\ v_pend (g x) = v_pend x) -> Nrel s (modvc s v g).
Proof.
  intros s v g Hg. split; [intro; apply Nsame_refl|split; [|split; reflexivity]].
  intro y. rewrite vc_modvc. destruct (Nat.eqb y v) eqn:E; auto. apply Nat.eqb_eq in E. subst. apply Hg.
Qed.
Lemma Nrel_same : forall s s', s_th s' = s_th s -> s_vc s' = s_vc s -> s_n s' = s_n s -> s_nv s' = s_nv s -> Nrel s s'.
Proof. intros s s' A B C D. split; [|split; [|split; auto]]; intros; rewrite ?A, ?B; auto using Nsame_refl. Qed.

Ltac nsame := intro th; unfold Nsame, created; cbn; repeat split; auto.
Ltac nstep :=
  match goal with
  | |- Nrel ?s ?s => apply Nrel_refl
  | |- Nrel ?s (modvc ?x ?v ?g) => apply (Nrel_trans s x); [|apply Nrel_modvc; intro; split; reflexivity]
  | |- Nrel ?s (modth ?x ?t ?f) => apply (Nrel_trans s x); [|apply Nrel_modth; nsame]
  end.

Lemma created_of_state : forall th st, th_state th = st -> st <> NOTCREATED -> created th = true.
Proof. intros th st E N. unfold created. rewrite E. destruct st; auto. congruence. Qed.

Lemma Nrel_switch_in : forall s n, created (s_th s n) = true -> Nrel s (switch_in s n).
Proof.
  intros s n Hc. unfold switch_in. apply Nrel_modth_st; auto. intro th. destruct (th_fresh th); cbn; repeat split; auto.
Qed.
Lemma Nrel_dequeue : forall s t, Nrel s (dequeue s t).
Proof. intros. unfold dequeue. destruct (th_waitq _); repeat nstep. Qed.
Lemma created_rel : forall s s' x, Nrel s s' -> created (s_th s' x) = created (s_th s x).
Proof. intros s s' x (H & _). destruct (H x) as (_&_&_&_&e). auto. Qed.
Lemma Nrel_wake : forall s v t e, th_state (s_th s t) = SLEEPING -> Nrel s (wake s v t e).
Proof.
  intros s v t e Es. unfold wake. set (s1 := dequeue _ t).
  assert (R : Nrel s s1). { unfold s1. eapply Nrel_trans; [|apply Nrel_dequeue]. repeat nstep. }
  assert (C1 : created (s_th s1 t) = true).
  { rewrite (created_rel s s1 t R). eapply created_of_state; eauto. discriminate. }
  destruct (Nat.eqb _ v); (apply (Nrel_trans s s1); [exact R|]).
  - nstep. apply Nrel_modth_st; auto. intro th. cbn. repeat split; auto.
  - nstep. apply Nrel_modth_st; auto. intro th. cbn. repeat split; auto.
Qed.
Lemma Nrel_interrupt : forall s v t e s', do_interrupt s v t e = Some s' -> Nrel s s'.
Proof.
  intros s v t e s'. unfold do_interrupt, getth. destruct (th_state (s_th s t)) eqn:Es; intro H; try (inversion H; subst; apply Nrel_refl).
  - destruct (Z.eqb _ 0); inversion H; subst; repeat nstep.
  - destruct (lock_free _); inversion H; subst. now apply Nrel_wake.
Qed.
Lemma Nrel_ret : forall s c r e, Nrel s (ret s c r e).
Proof. intros. unfold ret. nstep. apply Nrel_same; reflexivity. Qed.
Lemma Nrel_setk : forall s c k, Nrel s (setk s c k). Proof. intros. unfold setk. repeat nstep. Qed.
Lemma Nrel_sen : forall s c, Nrel s (fst (fst (set_error_number s c))).
Proof. intros. unfold set_error_number. destruct (Z.eqb _ 0); cbn; repeat nstep. Qed.
