(* C05_Proofs2.v — second invariant layer of the life-cycle model: the ghost counters `started` / `finished`
   (runs_once).  Rests on the placement invariant Inv1 of C05_Proofs.v. *)
From Coq Require Import ZArith List Bool Arith Lia.
From PV Require Import Base.U64 C05.C05_Model C05.C05_Proofs.
Import ListNotations.
Local Open Scope nat_scope.

Definition g_ok (th : thread) : Prop :=
  g_finished th = (if tstate_eqb (th_state th) DONE then 1 else 0) /\
  g_started th = (if th_fresh th then 0 else 1) /\
  (th_state th = RUNNING \/ th_state th = DONE -> th_fresh th = false).

Definition Inv2 (s : state) : Prop := forall t, g_ok (s_th s t).

Lemma inv2_modth : forall s t f, Inv2 s -> g_ok (f (s_th s t)) -> Inv2 (modth s t f).
Proof.
  intros s t f I H x. rewrite th_modth. destruct (Nat.eqb x t) eqn:E; auto.
Qed.
Lemma inv2_same : forall s s', s_th s' = s_th s -> Inv2 s -> Inv2 s'.
Proof. intros s s' E I x. rewrite E. apply I. Qed.
Lemma inv2_modvc : forall s v g, Inv2 s -> Inv2 (modvc s v g).
Proof. intros. apply (inv2_same s); auto. Qed.

(* updates that keep state / fresh / started / finished *)
Definition same_ghost (a b : thread) : Prop :=
  th_state a = th_state b /\ th_fresh a = th_fresh b /\ g_started a = g_started b /\ g_finished a = g_finished b.
Lemma g_ok_same : forall a b, same_ghost a b -> g_ok b -> g_ok a.
Proof. unfold same_ghost, g_ok. intros a b (h1 & h2 & h3 & h4). rewrite h1, h2, h3, h4. auto. Qed.
Lemma inv2_neutral : forall s t f, (forall th, same_ghost (f th) th) -> Inv2 s -> Inv2 (modth s t f).
Proof. intros s t f Hf I. apply inv2_modth; auto. eapply g_ok_same; eauto. Qed.

(* a state change between live states *)
Lemma g_ok_set_state : forall th th' ns,
  th_state th <> DONE -> ns <> DONE -> ns <> RUNNING ->
  th_state th' = ns -> th_fresh th' = th_fresh th -> g_started th' = g_started th -> g_finished th' = g_finished th ->
  g_ok th -> g_ok th'.
Proof.
  unfold g_ok. intros th th' ns N1 N2 N3 h1 h2 h3 h4 (a & b & c). rewrite h1, h2, h3, h4.
  split; [|split]; auto.
  - rewrite a. destruct (th_state th), ns; try reflexivity; congruence.
  - intros [H|H]; congruence.
Qed.

Ltac ghost_neutral := apply inv2_neutral; [intro th; repeat split | auto].

Lemma inv2_switch_in : forall s v n, Inv1 s -> Inv2 s -> cnt n (v_runq (s_vc s v)) >= 1 -> Inv2 (switch_in s n).
Proof.
  intros s v n I1 I2 Hn. unfold switch_in. apply inv2_modth; auto.
  destruct (in_runq_facts s n v (i_placed _ I1 n v) Hn) as (_ & _ & _ & _ & _ & _ & l7).
  destruct (I2 n) as (a & b & c). unfold g_ok.
  destruct (th_fresh (s_th s n)) eqn:F; cbn; rewrite ?F; repeat split; auto; try lia;
    rewrite a; destruct l7 as [l7|[l7|l7]]; rewrite l7; reflexivity.
Qed.

Lemma inv2_dequeue : forall s t, Inv2 s -> Inv2 (dequeue s t).
Proof.
  intros s t I. unfold dequeue. destruct (th_waitq (getth s t)); auto. ghost_neutral. ghost_neutral.
Qed.

Lemma inv2_wake : forall s v t e, Inv2 s -> th_state (s_th s t) = SLEEPING -> Inv2 (wake s v t e).
Proof.
  intros s v t e I Es. unfold wake.
  set (s1 := dequeue (modth s t (fun th => set_th_err th e)) t).
  assert (I1 : Inv2 s1). { unfold s1. apply inv2_dequeue. ghost_neutral. }
  assert (E1 : th_state (s_th s1 t) = SLEEPING).
  { unfold s1. rewrite dequeue_state, th_modth, Nat.eqb_refl. exact Es. }
  destruct (Nat.eqb (th_vcpu (getth s1 t)) v); apply inv2_modvc; apply inv2_modth; auto.
  - apply (g_ok_set_state (s_th s1 t) _ READY); auto; try congruence.
  - apply (g_ok_set_state (s_th s1 t) _ STANDBY); auto; try congruence.
Qed.

Lemma inv2_interrupt : forall s v t e s', Inv2 s -> do_interrupt s v t e = Some s' -> Inv2 s'.
Proof.
  intros s v t e s' I. unfold do_interrupt, getth.
  destruct (th_state (s_th s t)) eqn:Es; intro H; try (inversion H; subst; auto; fail).
  - destruct (Z.eqb (th_err (s_th s t)) 0); inversion H; subst; auto. ghost_neutral.
  - destruct (lock_free (th_lock (s_th s t))); inversion H; subst. now apply inv2_wake.
Qed.

Lemma inv2_yield : forall s v ce d, Inv1 s -> Inv2 s -> head_run s v -> Inv2 (do_yield s v ce d).
Proof.
  intros s v ce d I1 I2 Hr. unfold do_yield, getvc.
  destruct (v_runq (s_vc s v)) as [|c [|n rest]] eqn:Hq; try (apply (inv2_same s); auto; fail).
  pose proof (head_not_second s v c n rest I1 Hq) as Ncn.
  assert (In : Inv2 (switch_in s n)).
  { apply (inv2_switch_in s v); auto. rewrite Hq, !cnt_cons, Nat.eqb_refl. lia. }
  apply inv2_modvc. apply inv2_modth; auto.
  apply (g_ok_set_state (s_th (switch_in s n) c) _ READY); try congruence; try (destruct ce; reflexivity); auto.
  rewrite switch_in_other by auto. rewrite (Hr c _ Hq). discriminate.
Qed.

Lemma inv2_do_sleep : forall s v exp wq d, Inv1 s -> Inv2 s -> head_run s v -> Inv2 (do_sleep s v exp wq d).
Proof.
  intros s v exp wq d I1 I2 Hr. unfold do_sleep, getvc.
  destruct (v_runq (s_vc s v)) as [|c [|n rest]] eqn:Hq; try (apply (inv2_same s); auto; fail).
  pose proof (head_not_second s v c n rest I1 Hq) as Ncn.
  assert (In : Inv2 (switch_in s n)).
  { apply (inv2_switch_in s v); auto. rewrite Hq, !cnt_cons, Nat.eqb_refl. lia. }
  match goal with |- Inv2 (if ?b then set_s_tie ?X true else ?X) =>
    assert (IX : Inv2 X); [| destruct b; auto; apply (inv2_same X); auto] end.
  apply inv2_modvc.
  assert (I3 : Inv2 (modth (switch_in s n) c
             (fun th => set_th_waitq (set_th_ts (set_th_insleep (set_th_state th SLEEPING) true) exp) wq))).
  { apply inv2_modth; auto. apply (g_ok_set_state (s_th (switch_in s n) c) _ SLEEPING); try congruence; auto.
    rewrite switch_in_other by auto. rewrite (Hr c _ Hq). discriminate. }
  destruct wq; auto. ghost_neutral.
Qed.

Lemma inv2_do_create : forall s v k jn ws, Inv2 s -> Inv2 (do_create s v k jn ws).
Proof.
  intros s v k jn ws I. unfold do_create. apply inv2_modvc. intro x. cbn [s_th set_s_th]. unfold updp.
  destruct (Nat.eqb x k); auto. unfold g_ok. cbn. repeat split; auto. intros [H|H]; discriminate.
Qed.

Lemma inv2_do_die : forall s v rv s', Inv1 s -> Inv2 s -> head_run s v -> do_die s v rv = Some s' -> Inv2 s'.
Proof.
  intros s v rv s' I1 I2 Hr. unfold do_die, getvc, getth.
  destruct (v_runq (s_vc s v)) as [|c [|n rest]] eqn:Hq;
    try (intro H; inversion H; subst; apply (inv2_same s); auto; fail).
  cbv zeta. match goal with |- (if negb ?b then _ else _) = _ -> _ => destruct b end; cbn [negb]; [|discriminate].
  intro H. inversion H; subst s'; clear H.
  pose proof (Hr c _ Hq) as Ec.
  pose proof (head_not_second s v c n rest I1 Hq) as Ncn.
  set (s1 := match th_joiners (s_th s c) with j :: _ => wake s v j (-1) | [] => s end).
  assert (S1 : Inv1 s1 /\ Inv2 s1 /\ (exists rest', v_runq (s_vc s1 v) = c :: rest' /\ cnt n rest' >= 1) /\
               th_state (s_th s1 c) = RUNNING).
  { unfold s1. destruct (th_joiners (s_th s c)) as [|j js] eqn:Ej.
    - split; [auto|split; [auto|split; [|auto]]]. exists (n :: rest). split; auto. rewrite cnt_cons, Nat.eqb_refl. lia.
    - destruct (i_waits _ I1 j c) as [A B]. rewrite Ej, cnt_cons, Nat.eqb_refl in A.
      assert (Wj : th_waitq (s_th s j) <> None).
      { destruct (th_waitq (s_th s j)); [discriminate|]. cbn in A. lia. }
      pose proof (B Wj) as Sj.
      assert (Njc : j <> c) by (intro; subst; congruence).
      split; [|split; [|split]].
      + now apply inv1_wake.
      + now apply inv2_wake.
      + destruct (wake_runq_head s v j (-1) c (n :: rest) Njc Hq) as (r' & E1 & E2).
        exists r'. split; auto. specialize (E2 n). rewrite cnt_cons, Nat.eqb_refl in E2. lia.
      + rewrite wake_other_thread; auto. }
  destruct S1 as (J1 & J2 & (rest' & Hq1 & Hn1) & Ec1).
  assert (K2 : Inv2 (switch_in s1 n)).
  { apply (inv2_switch_in s1 v); auto. rewrite Hq1, cnt_cons. lia. }
  apply inv2_modvc. apply inv2_modth; auto.
  rewrite switch_in_other by auto.
  destruct (J2 c) as (a & b & cc). unfold g_ok. cbn. rewrite Ec1 in *. cbn in a.
  repeat split; auto; try lia.
Qed.

Lemma inv2_do_migrate : forall s v t u s' b, Inv2 s -> do_migrate s v t u = Some (s', b) -> Inv2 s'.
Proof.
  intros s v t u s' b I. unfold do_migrate, getth, getvc.
  destruct (negb _); [discriminate|].
  match goal with |- (if ?c then _ else _) = _ -> _ => destruct c eqn:C end; intro H; inversion H; subst; auto.
  repeat (apply andb_true_iff in C; destruct C as [C ?]).
  assert (Es : th_state (s_th s t) = READY) by (destruct (th_state (s_th s t)); try discriminate; reflexivity).
  do 2 apply inv2_modvc. apply inv2_modth; auto.
  apply (g_ok_set_state (s_th s t) _ STANDBY); auto; congruence.
Qed.

Lemma inv2_exec_pend : forall s v, Inv2 s -> Inv2 (exec_pend s v).
Proof.
  intros s v I. unfold exec_pend, getvc, getth.
  destruct (v_pend (s_vc s v)) as [|from d|from]; auto.
  - destruct d as [|t|t u]; [now apply inv2_modvc| |].
    + apply inv2_neutral; [intro th; repeat split | now apply inv2_modvc].
    + destruct (do_migrate _ v t u) as [[s1 b]|] eqn:M; auto. eapply inv2_do_migrate; [|eauto]. now apply inv2_modvc.
  - destruct (th_joinable _); (apply inv2_neutral; [intro th; repeat split | now apply inv2_modvc]).
Qed.

Lemma inv2_ret : forall s c r e, Inv2 s -> Inv2 (ret s c r e).
Proof. intros. unfold ret. apply inv2_neutral; [intro th; repeat split | apply (inv2_same s); auto]. Qed.
Lemma inv2_setk : forall s c k, Inv2 s -> Inv2 (setk s c k).
Proof. intros. unfold setk. ghost_neutral. Qed.
Lemma inv2_sen : forall s c, Inv2 s -> Inv2 (fst (fst (set_error_number s c))).
Proof. intros. unfold set_error_number. destruct (Z.eqb _ 0); cbn; auto. ghost_neutral. Qed.

Lemma inv2_join_check : forall s v c j, Inv1 s -> Inv2 s -> head_run s v -> Inv2 (join_check s v c j).
Proof.
  intros s v c j I1 I2 Hr. unfold join_check, getth.
  destruct (tstate_eqb _ NOTCREATED). { apply (inv2_same s); auto. }
  destruct (negb (th_joinable _)). { now apply inv2_ret. }
  destruct (negb _); auto.
  destruct (tstate_eqb _ DONE).
  - apply inv2_ret. ghost_neutral.
  - destruct (negb _); auto.
    apply inv2_do_sleep.
    + apply inv1_setk. apply inv1_neutral; [intro th; repeat split | auto].
    + apply inv2_setk. ghost_neutral.
    + unfold setk. apply head_run_neutral; [intro th; repeat split|].
      apply head_run_neutral; [intro th; repeat split | auto].
Qed.

Ltac hr_neutral2 := unfold setk; apply head_run_neutral; [intro th; repeat split | auto].

Lemma inv2_wait_all_op : forall progs s v c f, Inv1 s -> Inv2 s -> head_run s v -> Inv2 (wait_all_op progs s v c f).
Proof.
  intros progs s v c f I1 I2 Hr. unfold wait_all_op, getth.
  assert (W : Inv2 (wait_check progs s v c f)).
  { unfold wait_check, getth, getvc. destruct (wait_cond s v); [|now apply inv2_ret].
    destruct (v_sleepq (s_vc s v)).
    - apply inv2_yield; [now apply inv1_setk|now apply inv2_setk|hr_neutral2].
    - destruct (expired _ _).
      + apply inv2_yield; [now apply inv1_setk|now apply inv2_setk|hr_neutral2].
      + destruct (lock_free _); auto.
        apply inv2_do_sleep; [now apply inv1_setk|now apply inv2_setk|hr_neutral2]. }
  destruct (Nat.eqb c v); [|destruct f; [apply (inv2_same s); auto|now apply inv2_ret]].
  destruct (th_k (s_th s c)) as [|[|[|k]]]; auto.
  - pose proof (inv2_sen s c I2) as X. destruct (set_error_number s c) as [[s1 r] e]. cbn in X. now apply inv2_setk.
  - now apply inv2_setk.
Qed.

Lemma inv2_exec_op : forall progs s v c o, Inv1 s -> Inv2 s -> head_run s v -> Inv2 (exec_op progs s v c o).
Proof.
  intros progs s v c o I1 I2 Hr. unfold exec_op, getth, getvc.
  destruct o as [d| |j e|j jn ws|j| | |j|j u| |]; try now apply inv2_wait_all_op.
  - destruct (th_k (s_th s c)) as [|[|k]].
    + destruct (expired _ _).
      * apply inv2_yield; [now apply inv1_setk|now apply inv2_setk|hr_neutral2].
      * destruct (lock_free _); auto.
        apply inv2_do_sleep; [now apply inv1_setk|now apply inv2_setk|hr_neutral2].
    + pose proof (inv2_sen s c I2) as X. destruct (set_error_number s c) as [[s1 r] e]. cbn in X. now apply inv2_ret.
    + destruct (Z.eqb _ 0); now apply inv2_ret.
  - destruct (th_k (s_th s c)).
    + apply inv2_yield; [now apply inv1_setk|now apply inv2_setk|hr_neutral2].
    + now apply inv2_ret.
  - destruct (alive progs s j); [|now apply inv2_ret].
    destruct (do_interrupt s v j e) as [s1|] eqn:D; auto.
    apply inv2_ret. eapply inv2_interrupt; eauto.
  - destruct (_ && _) eqn:C; [|now apply inv2_ret].
    apply inv2_ret. now apply inv2_do_create.
  - destruct (th_k (s_th s c)) as [|[|k]].
    + destruct (_ && _); [|now apply inv2_ret]. apply inv2_setk. ghost_neutral.
    + now apply inv2_join_check.
    + pose proof (inv2_sen s c I2) as X. destruct (set_error_number s c) as [[s1 r] e]. cbn in X. now apply inv2_setk.
  - now apply inv2_ret.
  - now apply inv2_ret.
  - destruct (_ && _); now apply inv2_ret.
  - destruct (th_k (s_th s c)); [|now apply inv2_ret].
    destruct (negb _); [now apply inv2_ret|].
    destruct (Nat.eqb u v); [now apply inv2_ret|].
    destruct (Nat.eqb j c).
    { apply inv2_yield; [now apply inv1_setk|now apply inv2_setk|hr_neutral2]. }
    destruct (negb _); [now apply inv2_ret|].
    destruct (negb _); [now apply inv2_ret|].
    destruct (do_migrate s v j u) as [[s1 [|]]|] eqn:M; auto; apply inv2_ret; eapply inv2_do_migrate; eauto.
Qed.

Lemma inv2_step_vcpu : forall progs s v, Inv1 s -> Inv2 s -> Inv2 (step_vcpu progs s v).
Proof.
  intros progs s v I1 I2. unfold step_vcpu, getvc, getth.
  destruct (negb _). { now apply inv2_exec_pend. }
  destruct (v_runq (s_vc s v)) as [|c rest] eqn:Hq. { apply (inv2_same s); auto. }
  destruct (th_state (s_th s c)) eqn:Es; try (apply (inv2_same s); auto; fail).
  assert (Hr : head_run s v). { intros c' r' E. rewrite Hq in E. inversion E; subst. auto. }
  destruct (th_kind (s_th s c)).
  - destruct (nth_error _ _); [now apply inv2_exec_op|].
    destruct (th_k (s_th s c)).
    + destruct (lock_free _); auto. apply inv2_do_sleep; [now apply inv1_setk|now apply inv2_setk|hr_neutral2].
    + pose proof (inv2_sen s c I2) as X. destruct (set_error_number s c) as [[s1 r] e]. cbn in X. now apply inv2_setk.
  - destruct rest; auto. apply inv2_yield; auto.
  - destruct (nth_error _ _); [now apply inv2_exec_op|].
    destruct (do_die s v _) as [s1|] eqn:D; auto. eapply inv2_do_die; eauto.
Qed.

Lemma inv2_drain_one : forall s v t, Inv1 s -> Inv2 s -> Inv2 (drain_one s v t).
Proof.
  intros s v t I1 I2. unfold drain_one, getvc.
  destruct (mem_tid t (v_standby (s_vc s v))) eqn:M; cbn [negb]; auto.
  apply mem_cnt in M.
  destruct (in_standby_facts s t v (i_placed _ I1 t v) M) as (_ & _ & l3 & _).
  apply inv2_modvc. apply inv2_modth; auto.
  apply (g_ok_set_state (s_th s t) _ READY); auto; congruence.
Qed.
Lemma inv12_drain_list : forall l s v, Inv1 s -> Inv2 s -> Inv1 (drain_list s v l) /\ Inv2 (drain_list s v l).
Proof.
  induction l; cbn; intros; auto. apply IHl; [now apply inv1_drain_one|now apply inv2_drain_one].
Qed.

Lemma inv2_do_resume : forall s v, Inv2 s -> Inv2 (do_resume s v).
Proof.
  intros s v I. unfold do_resume, getvc, getth.
  destruct (v_sleepq (s_vc s v)) as [|t rest] eqn:Hq; auto.
  destruct (Z.ltb _ _); auto. destruct (negb _); auto.
  destruct (tstate_eqb (th_state (s_th s t)) SLEEPING) eqn:Es.
  - assert (Es' : th_state (s_th s t) = SLEEPING) by (destruct (th_state (s_th s t)); try discriminate; reflexivity).
    apply inv2_modvc. apply inv2_modth; [now apply inv2_dequeue|].
    apply (g_ok_set_state (s_th (dequeue s t) t) _ READY); auto; try congruence.
    + rewrite dequeue_state. congruence.
    + apply inv2_dequeue; auto.
  - apply inv2_modvc. ghost_neutral.
Qed.

Lemma inv2_do_steal : forall s v u t, Inv2 s -> Inv2 (do_steal s v u t).
Proof.
  intros s v u t I. unfold do_steal, getth, getvc.
  destruct (negb _); auto.
  destruct (mem_tid t (v_standby (s_vc s u))).
  - do 2 apply inv2_modvc. apply inv2_neutral; [intro th; repeat split | now apply inv2_modvc].
  - destruct (_ && _); auto. do 2 apply inv2_modvc. apply inv2_neutral; [intro th; repeat split | now apply inv2_modvc].
Qed.

Lemma inv12_step : forall progs s l, Inv1 s -> Inv2 s -> Inv1 (step progs s l) /\ Inv2 (step progs s l).
Proof.
  intros progs s l I1 I2. split; [now apply inv1_step|].
  unfold step. destruct (s_stuck s); auto. destruct (frozen _ _ _); auto.
  destruct l as [v|v|v|v u t|d].
  - destruct (Nat.ltb _ _); auto. destruct (pend_to_offline _ _ _); [apply (inv2_same s); auto|]. now apply inv2_step_vcpu.
  - destruct (_ && _); auto. unfold do_drain. now apply inv12_drain_list.
  - destruct (_ && _); auto. now apply inv2_do_resume.
  - destruct (_ && _); auto. now apply inv2_do_steal.
  - destruct (Z.leb _ _); auto.
Qed.

Lemma inv12_run : forall progs ls s, Inv1 s -> Inv2 s -> Inv1 (run progs s ls) /\ Inv2 (run progs s ls).
Proof.
  induction ls; cbn; intros; auto. destruct (inv12_step progs s a H H0). now apply IHls.
Qed.

Lemma inv2_init : forall nv n flags t0, nv <= n -> Inv2 (init_state nv n flags t0).
Proof.
  intros nv n flags t0 Hn t. unfold init_state. cbn [s_th].
  destruct (init_thread_cases nv n t Hn) as [[_ ->]|[[_ ->]|(_ & _ & ->)]]; unfold g_ok; cbn;
    repeat split; auto; intros [H|H]; discriminate.
Qed.

(* ---- runs_once ---------------------------------------------------------------------------- *)
(* all program threads that were created have finished and nothing is left in any queue but main/idler threads *)
Definition quiescent (s : state) : Prop :=
  forall t, is_user (th_kind (s_th s t)) = true ->
    forall v, cnt t (v_runq (s_vc s v)) = 0 /\ cnt t (v_sleepq (s_vc s v)) = 0 /\ cnt t (v_standby (s_vc s v)) = 0.

Lemma runs_once_proof : forall progs nv n flags t0 s, nv <= n -> reachable progs nv n flags t0 s ->
  forall t,
    g_started (s_th s t) <= 1 /\ g_finished (s_th s t) <= g_started (s_th s t) /\
    (g_finished (s_th s t) = 1 <-> th_state (s_th s t) = DONE) /\
    (quiescent s -> is_user (th_kind (s_th s t)) = true -> th_state (s_th s t) <> NOTCREATED ->
       g_started (s_th s t) = 1 /\ g_finished (s_th s t) = 1).
Proof.
  intros progs nv n flags t0 s Hn [ls ->] t.
  destruct (inv12_run progs ls _ (inv1_init nv n flags t0 Hn) (inv2_init nv n flags t0 Hn)) as [I1 I2].
  set (s := run progs (init_state nv n flags t0) ls) in *.
  destruct (I2 t) as (a & b & c).
  assert (D : th_state (s_th s t) = DONE -> g_started (s_th s t) = 1 /\ g_finished (s_th s t) = 1).
  { intro E. rewrite a, b, E. cbn. rewrite (c (or_intror E)). auto. }
  split; [|split; [|split]].
  - rewrite b. destruct (th_fresh (s_th s t)); lia.
  - rewrite a, b. destruct (tstate_eqb (th_state (s_th s t)) DONE) eqn:E; [|lia].
    assert (E' : th_state (s_th s t) = DONE) by (destruct (th_state (s_th s t)); try discriminate; reflexivity).
    rewrite (c (or_intror E')). lia.
  - rewrite a. split.
    + destruct (th_state (s_th s t)); cbn; intros; try discriminate; reflexivity.
    + intros ->. reflexivity.
  - intros Q U N. apply D.
    destruct (live (s_th s t)) eqn:L.
    + exfalso. destruct (placed_iff_live_proof progs nv n flags t0 s Hn (ex_intro _ ls eq_refl) t) as [_ H].
      destruct (H L) as [v Hv]. destruct (Q t U v) as (q1 & q2 & q3). lia.
    + unfold live in L. destruct (th_state (s_th s t)); cbn in L; try discriminate; congruence.
Qed.

(* ---- non-vacuity: concrete reachable states ------------------------------------------------- *)
Definition ex_progs : tid -> list op :=
  fun t => match t with 0 => [OCreate 1 true false; OJoin 1; ONthreads] | 1 => [OYield; ONop] | _ => [] end.
Definition ex_state : state := run ex_progs (init_state 1 2 (fun _ => (false, false)) 1000) (repeat (LStep 0) 40).
Example ex_reachable : reachable ex_progs 1 2 (fun _ => (false, false)) 1000 ex_state.
Proof. exists (repeat (LStep 0) 40). reflexivity. Qed.
(* thread 1 was created, ran once, finished, was joined with its return value, its stack was handed back
   once, and the thread count is back to main + idler *)
Example ex_lifecycle :
  th_state (s_th ex_state 1) = DONE /\ g_started (s_th ex_state 1) = 1 /\ g_finished (s_th ex_state 1) = 1 /\
  g_joinret (s_th ex_state 1) = 1 /\ g_joinval (s_th ex_state 1) = 1001%Z /\ g_disposed (s_th ex_state 1) = 1 /\
  v_nthreads (s_vc ex_state 0) = 2%Z /\ s_stuck ex_state = false /\
  v_runq (s_vc ex_state 0) = [2] /\ v_sleepq (s_vc ex_state 0) = [0].
Proof. vm_compute. repeat split; reflexivity. Qed.
(* a state with the documented overlap: thread 2 sleeps on vCPU 0 and is interrupted from vCPU 1 *)
Definition ov_progs : tid -> list op :=
  fun t => match t with 0 => [OCreate 2 true false; OUsleep 100000] | 1 => [OYield; OInterrupt 2 4] | 2 => [OUsleep 5000] | _ => [] end.
Definition ov_state : state :=
  run ov_progs (init_state 2 3 (fun _ => (false, false)) 1000)
      [LStep 0; LStep 0; LStep 0; LStep 0; LStep 0; LStep 0; LStep 0; LStep 1; LStep 1; LStep 1; LStep 1; LStep 1; LStep 1].
Example ov_overlap :
  th_state (s_th ov_state 2) = STANDBY /\ th_insleep (s_th ov_state 2) = true /\
  cnt 2 (v_sleepq (s_vc ov_state 0)) = 1 /\ cnt 2 (v_standby (s_vc ov_state 0)) = 1 /\ s_stuck ov_state = false.
Proof. vm_compute. repeat split; reflexivity. Qed.
