(* C05_Pool.v — the ThreadPoolBase hand-shake (thread/thread-pool.cpp 33-139) for ONE control block
   (TPControl) through any number of rounds create -> run -> (join) -> recycle.
   EXECUTABLE DEFINITIONS ONLY (proofs: C05_PoolProofs.v).

   Every step is one block under `TPControl::m_mtx` (a spinlock; `cvar.wait(m_mtx)` releases it
   atomically with the enqueue — C03's theorem — so a waiting participant holds nothing):

     PCreate jn   thread_create_ex (53-62): take the block out of the identity pool (B::get), set
                  joinable / joining := false / start := the work, notify the worker
     PTake        wait_for_work (64-75): the pooled thread sees `start` and runs the entry function
     PFinish      the entry function returns (ctrl.start(ctrl.arg), 100)
     PAfter       after_work_done (76-91): joining -> notify the joiner; else joinable -> joining := true
                  and wait for the joiner; then clear the block and `put` it iff no joiner was waiting
     PWWake       the pooled thread's wait for its joiner ends (notified by the joiner)
     PJoin k      ThreadPoolBase::join / do_thread_join (111-139) by the holder of work k's handle (once)
     PJWake       the joiner's wait ends (notified by the pooled thread)
     PIntW / PIntJ  thread_interrupt of the pooled thread / of the joining thread while it waits:
                  the wait returns although nobody notified

   `fixed = false` is the code as it is: both waits are a single `cvar.wait`, so an interrupt has
   the same effect as the notification.  `fixed = true` is repo_patches/C05-fix-pool-join-interrupt.diff:
   both waits are `while (joining) cvar.wait(m_mtx)` and the side that ends the rendezvous clears
   `joining` before it notifies.

   Ghost state: runs k / done k (entry function of work k started / returned), joined k (join of
   work k returned), early (a join returned before the entry function had returned), dput (the
   block was put into the pool while it was already there), reuse (a new work item was written into
   the block while the previous one was still running). *)
From Coq Require Import List Bool Arith.
Import ListNotations.

Inductive startv : Type := SNone | SWork (k : nat).
Inductive wpc : Type := WWait | WRun (k : nat) | WDone (k : nat) | WJoinWait (k : nat).
Inductive jpc : Type := JIdle | JWait (k : nat).

Record pst : Type := mkP {
  p_start : startv; p_joinable : bool; p_joining : bool; p_inpool : bool;
  p_w : wpc; p_j : jpc; p_next : nat;
  p_wnote : bool; p_jnote : bool;              (* a notification is pending for the waiting worker / joiner *)
  p_jn : nat -> bool;                          (* work k was created joinable *)
  p_runs : nat -> nat; p_done : nat -> bool; p_joined : nat -> nat; p_jcalled : nat -> bool;
  p_early : bool; p_dput : bool; p_reuse : bool
}.

Inductive plabel : Type :=
| PCreate (jn : bool) | PTake | PFinish | PAfter | PWWake | PJoin (k : nat) | PJWake | PIntW | PIntJ.

Definition upf {A : Type} (f : nat -> A) (k : nat) (v : A) : nat -> A := fun x => if Nat.eqb x k then v else f x.

Definition pinit : pst :=
  mkP SNone false false true WWait JIdle 0 false false (fun _ => false) (fun _ => 0) (fun _ => false) (fun _ => 0) (fun _ => false)
      false false false.

(* B::put(ctrl) *)
Definition pput (s : pst) : pst :=
  mkP (p_start s) (p_joinable s) (p_joining s) true (p_w s) (p_j s) (p_next s) (p_wnote s) (p_jnote s) (p_jn s)
      (p_runs s) (p_done s) (p_joined s) (p_jcalled s) (p_early s) (p_dput s || p_inpool s) (p_reuse s).
(* the tail of after_work_done (87-90): joinable := false; joining := false; start := nullptr; worker back to wait_for_work *)
Definition pclear (s : pst) : pst :=
  mkP SNone false false (p_inpool s) WWait (p_j s) (p_next s) false (p_jnote s) (p_jn s)
      (p_runs s) (p_done s) (p_joined s) (p_jcalled s) (p_early s) (p_dput s) (p_reuse s).
(* do_thread_join returns for work k *)
Definition pjret (s : pst) (k : nat) : pst :=
  mkP (p_start s) (p_joinable s) (p_joining s) (p_inpool s) (p_w s) JIdle (p_next s) (p_wnote s) false (p_jn s)
      (p_runs s) (p_done s) (upf (p_joined s) k (S (p_joined s k))) (p_jcalled s)
      (p_early s || negb (p_done s k)) (p_dput s) (p_reuse s).

Definition pstep (fixed : bool) (s : pst) (l : plabel) : pst :=
  match l with
  | PCreate jn =>
      if p_inpool s then
        let k := p_next s in
        let busy := match p_w s with WWait => false | _ => true end in
        mkP (SWork k) jn false false (p_w s) (p_j s) (S k) (p_wnote s) (p_jnote s) (upf (p_jn s) k jn)
            (p_runs s) (p_done s) (p_joined s) (p_jcalled s) (p_early s) (p_dput s) (p_reuse s || busy)
      else s
  | PTake =>
      match p_w s, p_start s with
      | WWait, SWork k =>
          mkP (p_start s) (p_joinable s) (p_joining s) (p_inpool s) (WRun k) (p_j s) (p_next s) (p_wnote s) (p_jnote s) (p_jn s)
              (upf (p_runs s) k (S (p_runs s k))) (p_done s) (p_joined s) (p_jcalled s) (p_early s) (p_dput s) (p_reuse s)
      | _, _ => s
      end
  | PFinish =>
      match p_w s with
      | WRun k =>
          mkP (p_start s) (p_joinable s) (p_joining s) (p_inpool s) (WDone k) (p_j s) (p_next s) (p_wnote s) (p_jnote s) (p_jn s)
              (p_runs s) (upf (p_done s) k true) (p_joined s) (p_jcalled s) (p_early s) (p_dput s) (p_reuse s)
      | _ => s
      end
  | PAfter =>
      match p_w s with
      | WDone k =>
          if p_joining s then
            (* a joiner is waiting: wake it; it will put the block *)
            let s1 := pclear s in
            mkP (p_start s1) (p_joinable s1) (p_joining s1) (p_inpool s1) (p_w s1) (p_j s1) (p_next s1) (p_wnote s1) true (p_jn s1)
                (p_runs s1) (p_done s1) (p_joined s1) (p_jcalled s1) (p_early s1) (p_dput s1) (p_reuse s1)
          else if p_joinable s then
            mkP (p_start s) (p_joinable s) true (p_inpool s) (WJoinWait k) (p_j s) (p_next s) false (p_jnote s) (p_jn s)
                (p_runs s) (p_done s) (p_joined s) (p_jcalled s) (p_early s) (p_dput s) (p_reuse s)
          else pput (pclear s)
      | _ => s
      end
  | PWWake | PIntW =>
      match p_w s with
      | WJoinWait k =>
          let go := if fixed then negb (p_joining s)
                    else match l with PIntW => true | _ => p_wnote s end in
          if go then pput (pclear s) else s
      | _ => s
      end
  | PJoin k =>
      match p_j s with
      | JIdle =>
          if Nat.ltb k (p_next s) && p_jn s k && negb (p_jcalled s k) then
            let s0 := mkP (p_start s) (p_joinable s) (p_joining s) (p_inpool s) (p_w s) (p_j s) (p_next s) (p_wnote s) (p_jnote s) (p_jn s)
                          (p_runs s) (p_done s) (p_joined s) (upf (p_jcalled s) k true) (p_early s) (p_dput s) (p_reuse s) in
            if negb (p_joinable s0) then s0                                 (* "thread is not joinable" *)
            else match p_start s0 with
                 | SNone => s0                                              (* "thread is not running" *)
                 | SWork _ =>
                     if p_joining s0 then
                       (* the pooled thread waits for us: wake it; it will put the block *)
                       pjret (mkP (p_start s0) (p_joinable s0) (if fixed then false else p_joining s0) (p_inpool s0) (p_w s0) (p_j s0)
                                  (p_next s0) true (p_jnote s0) (p_jn s0) (p_runs s0) (p_done s0) (p_joined s0) (p_jcalled s0)
                                  (p_early s0) (p_dput s0) (p_reuse s0)) k
                     else
                       mkP (p_start s0) (p_joinable s0) true (p_inpool s0) (p_w s0) (JWait k) (p_next s0) (p_wnote s0) false (p_jn s0)
                           (p_runs s0) (p_done s0) (p_joined s0) (p_jcalled s0) (p_early s0) (p_dput s0) (p_reuse s0)
                 end
          else s
      | _ => s
      end
  | PJWake | PIntJ =>
      match p_j s with
      | JWait k =>
          let go := if fixed then negb (p_joining s)
                    else match l with PIntJ => true | _ => p_jnote s end in
          if go then pput (pjret s k) else s
      | _ => s
      end
  end.

Fixpoint prun (fixed : bool) (s : pst) (ls : list plabel) : pst :=
  match ls with [] => s | l :: r => prun fixed (pstep fixed s l) r end.

(* F24: the joiner is interrupted while the pooled entry function still runs *)
Definition f24_witness : list plabel := [PCreate true; PTake; PJoin 0; PIntJ].
(* ... and what follows: the block is recycled for new work while work 0 is still running *)
Definition f24_witness2 : list plabel := [PCreate true; PTake; PJoin 0; PIntJ; PCreate false].
