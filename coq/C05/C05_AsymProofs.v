(* C05_AsymProofs.v — mutual exclusion of asymmetric_spinLock under SC (inductive invariant, any
   number of stealers, any script lengths, any schedule) and its refutation under x86-TSO. *)
From Coq Require Import ZArith List Bool Arith Lia.
From PV Require Import E3.E3_Run C05.C05_Asym.
Import ListNotations.

Lemma updp_eq : forall A (f : nat -> A) k v, updp f k v k = v.
Proof. intros. unfold updp. now rewrite Nat.eqb_refl. Qed.
Lemma updp_neq : forall A (f : nat -> A) k v x, x <> k -> updp f k v x = f x.
Proof. intros. unfold updp. destruct (Nat.eqb x k) eqn:E; auto. apply Nat.eqb_eq in E. congruence. Qed.

(* a stealer "holds" background_locked from its successful exchange to its releasing store *)
Definition holds (c : pc) : bool :=
  match c with PB BChk _ | PB BRel _ | PB BIn _ => true | _ => false end.
(* the owner has foreground_locked set from its store to its releasing store *)
Definition flocked (c : pc) : bool :=
  match c with PF FSt _ => false | PF _ _ => true | PB _ _ => false end.

Record Inv (s : sc_state) : Prop := mkInv {
  i_wf0 : exists c r, pcs s 0 = PF c r;
  i_wfS : forall i, exists c r, pcs s (S i) = PB c r;
  i_fg : m_fg s = flocked (pcs s 0);
  i_uniq : forall i j, holds (pcs s i) = true -> holds (pcs s j) = true -> i = j;
  i_bg : forall i, holds (pcs s i) = true -> m_bg s = true;
  i_excl : in_cs (pcs s 0) = true -> forall i, in_cs (pcs s (S i)) = false
}.

Lemma inv_init : forall rf rb, Inv (sc_init rf rb).
Proof.
  intros. constructor; cbn.
  - eauto.
  - intros; eauto.
  - reflexivity.
  - intros i j H. destruct i; cbn in H; discriminate.
  - intros i H. destruct i; cbn in H; discriminate.
  - discriminate.
Qed.

Lemma incs_holds : forall c r, in_cs (PB c r) = true -> holds (PB c r) = true.
Proof. intros c r; destruct c; cbn; auto. Qed.

Lemma holds_PF : forall c r, holds (PF c r) = false.
Proof. reflexivity. Qed.

(* a step of the foreground: new pc c', new m_fg; nothing about the stealers changes *)
Lemma fg_step_inv : forall s c' fg',
  Inv s ->
  (exists c r, c' = PF c r) ->
  fg' = flocked c' ->
  (in_cs c' = true -> m_bg s = false \/ in_cs (pcs s 0) = true) ->
  Inv (mkSC fg' (m_bg s) (updp (pcs s) 0 c')).
Proof.
  intros s c' fg' I (c & r & Ec) Efg Hin.
  destruct (i_wf0 _ I) as (c0 & r0 & E0).
  assert (Hh : forall i, holds (updp (pcs s) 0 c' i) = holds (pcs s i)).
  { intro i. destruct i.
    - rewrite updp_eq, E0, Ec. reflexivity.
    - rewrite updp_neq by lia. reflexivity. }
  constructor; cbn [pcs m_fg m_bg].
  - rewrite updp_eq. eauto.
  - intro i. rewrite updp_neq by lia. apply (i_wfS _ I).
  - rewrite updp_eq. exact Efg.
  - intros i j. rewrite !Hh. apply (i_uniq _ I).
  - intros i. rewrite Hh. apply (i_bg _ I).
  - rewrite updp_eq. intros Hc i. rewrite updp_neq by lia.
    destruct (Hin Hc) as [Hb | Hold].
    + destruct (in_cs (pcs s (S i))) eqn:Ei; auto.
      destruct (i_wfS _ I i) as (ci & ri & Ei').
      rewrite Ei' in Ei. apply incs_holds in Ei. rewrite <- Ei' in Ei.
      apply (i_bg _ I) in Ei. congruence.
    + apply (i_excl _ I Hold).
Qed.

(* a step of stealer S i that neither takes nor drops background_locked *)
Lemma bg_step_keep : forall s i c',
  Inv s ->
  (exists c r, c' = PB c r) ->
  holds c' = holds (pcs s (S i)) ->
  (in_cs c' = true -> in_cs (pcs s (S i)) = true \/ m_fg s = false) ->
  Inv (mkSC (m_fg s) (m_bg s) (updp (pcs s) (S i) c')).
Proof.
  intros s i c' I (c & r & Ec) Hh Hin.
  assert (HH : forall k, holds (updp (pcs s) (S i) c' k) = holds (pcs s k)).
  { intro k. destruct (Nat.eq_dec k (S i)) as [->|N].
    - now rewrite updp_eq.
    - now rewrite updp_neq. }
  constructor; cbn [pcs m_fg m_bg].
  - rewrite updp_neq by lia. apply (i_wf0 _ I).
  - intro k. destruct (Nat.eq_dec k i) as [->|N].
    + rewrite updp_eq. eauto.
    + rewrite updp_neq by lia. apply (i_wfS _ I).
  - rewrite updp_neq by lia. apply (i_fg _ I).
  - intros a b. rewrite !HH. apply (i_uniq _ I).
  - intros a. rewrite HH. apply (i_bg _ I).
  - rewrite updp_neq by lia. intros Hc k.
    destruct (Nat.eq_dec k i) as [->|N].
    + rewrite updp_eq. destruct (in_cs c') eqn:Ei; auto.
      destruct (Hin eq_refl) as [Hold | Hf].
      * rewrite (i_excl _ I Hc i) in Hold. discriminate.
      * rewrite (i_fg _ I) in Hf. destruct (i_wf0 _ I) as (c0 & r0 & E0).
        rewrite E0 in Hf, Hc. destruct c0; cbn in *; congruence.
    + rewrite updp_neq by lia. apply (i_excl _ I Hc).
Qed.

(* stealer S i takes background_locked (exchange saw false) *)
Lemma bg_step_take : forall s i r,
  Inv s -> m_bg s = false ->
  Inv (mkSC (m_fg s) true (updp (pcs s) (S i) (PB BChk r))).
Proof.
  intros s i r I Hb.
  assert (Hno : forall k, holds (pcs s k) = false).
  { intro k. destruct (holds (pcs s k)) eqn:E; auto. apply (i_bg _ I) in E. congruence. }
  constructor; cbn [pcs m_fg m_bg].
  - rewrite updp_neq by lia. apply (i_wf0 _ I).
  - intro k. destruct (Nat.eq_dec k i) as [->|N].
    + rewrite updp_eq. eauto.
    + rewrite updp_neq by lia. apply (i_wfS _ I).
  - rewrite updp_neq by lia. apply (i_fg _ I).
  - intros a b Ha Hb'.
    destruct (Nat.eq_dec a (S i)) as [->|Na]; destruct (Nat.eq_dec b (S i)) as [->|Nb]; auto.
    + rewrite updp_neq in Hb' by auto. rewrite Hno in Hb'. discriminate.
    + rewrite updp_neq in Ha by auto. rewrite Hno in Ha. discriminate.
    + rewrite updp_neq in Ha by auto. rewrite Hno in Ha. discriminate.
  - reflexivity.
  - rewrite updp_neq by lia. intros Hc k.
    destruct (Nat.eq_dec k i) as [->|N].
    + rewrite updp_eq. reflexivity.
    + rewrite updp_neq by lia. apply (i_excl _ I Hc).
Qed.

(* stealer S i drops background_locked (it held it) *)
Lemma bg_step_drop : forall s i c',
  Inv s -> holds (pcs s (S i)) = true ->
  (exists r, c' = PB BWo r) ->
  Inv (mkSC (m_fg s) false (updp (pcs s) (S i) c')).
Proof.
  intros s i c' I Hh (r & Ec). subst c'.
  constructor; cbn [pcs m_fg m_bg].
  - rewrite updp_neq by lia. apply (i_wf0 _ I).
  - intro k. destruct (Nat.eq_dec k i) as [->|N].
    + rewrite updp_eq. eauto.
    + rewrite updp_neq by lia. apply (i_wfS _ I).
  - rewrite updp_neq by lia. apply (i_fg _ I).
  - intros a b Ha Hb.
    destruct (Nat.eq_dec a (S i)) as [->|Na]. { rewrite updp_eq in Ha. discriminate. }
    destruct (Nat.eq_dec b (S i)) as [->|Nb]. { rewrite updp_eq in Hb. discriminate. }
    rewrite updp_neq in Ha, Hb by auto. apply (i_uniq _ I); auto.
  - intros a Ha.
    destruct (Nat.eq_dec a (S i)) as [->|Na]. { rewrite updp_eq in Ha. discriminate. }
    rewrite updp_neq in Ha by auto.
    exfalso. apply Na. apply (i_uniq _ I); auto.
  - rewrite updp_neq by lia. intros Hc k.
    destruct (Nat.eq_dec k i) as [->|N].
    + rewrite updp_eq. reflexivity.
    + rewrite updp_neq by lia. apply (i_excl _ I Hc).
Qed.

Lemma sc_step_inv : forall s p, Inv s -> Inv (sc_step s p).
Proof.
  intros s p I. unfold sc_step, sc_step_obs.
  destruct p as [|i].
  - destruct (i_wf0 _ I) as (c & r & E). rewrite E.
    assert (Hfg : forall c', flocked c' = flocked (PF c r) -> m_fg s = flocked c').
    { intros c' H. rewrite H, <- E. apply (i_fg _ I). }
    destruct c; [destruct r as [|r]|..]; cbn [instr_of next_pc fst set_pc wr rd pcs m_fg m_bg].
    + exact I.
    + apply (fg_step_inv s (PF FWo (S r)) true I); eauto; cbn; discriminate.
    + apply (fg_step_inv s (PF FWo r) (m_fg s) I); eauto; cbn; discriminate.
    + destruct (m_bg s) eqn:Eb.
      * apply (fg_step_inv s (PF FWi r) (m_fg s) I); eauto; cbn; discriminate.
      * apply (fg_step_inv s (PF FIn r) (m_fg s) I); eauto.
    + destruct (m_bg s) eqn:Eb.
      * apply (fg_step_inv s (PF FWi r) (m_fg s) I); eauto; cbn; discriminate.
      * apply (fg_step_inv s (PF FWo r) (m_fg s) I); eauto; cbn; discriminate.
    + apply (fg_step_inv s (PF FSt (pred r)) false I); eauto; cbn; discriminate.
  - destruct (i_wfS _ I i) as (c & r & E). rewrite E.
    destruct c; [destruct r as [|r]|..]; cbn [instr_of next_pc fst set_pc wr rd pcs m_fg m_bg].
    + exact I.
    + destruct (m_fg s) eqn:Ef; unfold set_pc; cbn [m_fg m_bg pcs]; try rewrite <- Ef.
      * apply (bg_step_keep s i (PB BWi (S r)) I); eauto; rewrite ?E; cbn; auto; discriminate.
      * apply (bg_step_keep s i (PB BXg (S r)) I); eauto; rewrite ?E; cbn; auto; discriminate.
    + destruct (m_fg s) eqn:Ef; unfold set_pc; cbn [m_fg m_bg pcs]; try rewrite <- Ef.
      * apply (bg_step_keep s i (PB BWi r) I); eauto; rewrite ?E; cbn; auto; discriminate.
      * apply (bg_step_keep s i (PB BWo r) I); eauto; rewrite ?E; cbn; auto; discriminate.
    + destruct (m_bg s) eqn:Eb.
      * rewrite <- Eb. apply (bg_step_keep s i (PB BWo (pred r)) I); eauto; rewrite ?E; cbn; auto; discriminate.
      * apply (bg_step_take s i r I Eb).
    + destruct (m_fg s) eqn:Ef; unfold set_pc; cbn [m_fg m_bg pcs]; try rewrite <- Ef.
      * apply (bg_step_keep s i (PB BRel r) I); eauto; rewrite ?E; cbn; auto; discriminate.
      * apply (bg_step_keep s i (PB BIn r) I); eauto; rewrite ?E; cbn; auto.
    + apply (bg_step_drop s i (PB BWo r) I); eauto. rewrite E. reflexivity.
    + apply (bg_step_drop s i (PB BWo (pred r)) I); eauto. rewrite E. reflexivity.
Qed.

Lemma sc_run_inv : forall sched s, Inv s -> Inv (sc_run s sched).
Proof. induction sched; cbn; intros; auto. apply IHsched. now apply sc_step_inv. Qed.

Lemma inv_mutex : forall s p q, Inv s ->
  in_cs (pcs s p) = true -> in_cs (pcs s q) = true -> p = q.
Proof.
  intros s p q I Hp Hq.
  destruct p as [|i], q as [|j]; auto.
  - rewrite (i_excl _ I Hp j) in Hq. discriminate.
  - rewrite (i_excl _ I Hq i) in Hp. discriminate.
  - destruct (i_wfS _ I i) as (ci & ri & Ei), (i_wfS _ I j) as (cj & rj & Ej).
    apply (i_uniq _ I).
    + rewrite Ei in *. now apply incs_holds.
    + rewrite Ej in *. now apply incs_holds.
Qed.

(* asym_mutex_SC: for every number of stealers, every script length and every schedule, at most
   one participant is inside the lock *)
Lemma asym_mutex_SC_proof : forall rf rb sched p q,
  let s := sc_run (sc_init rf rb) sched in
  in_cs (pcs s p) = true -> in_cs (pcs s q) = true -> p = q.
Proof.
  intros. eapply inv_mutex; eauto. apply sc_run_inv, inv_init.
Qed.

(* the lock word discipline that the life-cycle model relies on: while the owner is inside, the
   flag the stealers test is set; while a stealer is inside, the flag the owner tests is set *)
Lemma asym_flags_SC_proof : forall rf rb sched,
  let s := sc_run (sc_init rf rb) sched in
  (in_cs (pcs s 0) = true -> m_fg s = true) /\
  (forall i, in_cs (pcs s (S i)) = true -> m_bg s = true).
Proof.
  intros rf rb sched s.
  assert (I : Inv s) by (apply sc_run_inv, inv_init).
  split.
  - intro H. rewrite (i_fg _ I). destruct (i_wf0 _ I) as (c & r & E). rewrite E in *.
    destruct c; cbn in *; congruence.
  - intros i H. apply (i_bg _ I (S i)).
    destruct (i_wfS _ I i) as (c & r & E). rewrite E in *. now apply incs_holds.
Qed.

(* non-vacuity: a schedule after which the owner is inside, and one after which a stealer is *)
Example sc_owner_inside :
  in_cs (pcs (sc_run (sc_init 1 (fun _ => 1)) [0; 0]) 0) = true.
Proof. reflexivity. Qed.
Example sc_stealer_inside :
  in_cs (pcs (sc_run (sc_init 1 (fun _ => 1)) [1; 1; 1]) 1) = true.
Proof. reflexivity. Qed.
(* the owner arriving while a stealer is inside waits (FWi), the stealer arriving second backs off *)
Example sc_owner_waits :
  pcs (sc_run (sc_init 1 (fun _ => 1)) [1; 1; 1; 0; 0]) 0 = PF FWi 1.
Proof. reflexivity. Qed.
Example sc_stealer_backs_off :
  pcs (sc_run (sc_init 1 (fun _ => 1)) [1; 1; 0; 0; 1]) 1 = PB BRel 1.
Proof. reflexivity. Qed.

(* ---- x86-TSO: refuted (finding F5) ------------------------------------------------------ *)
Definition tso_both_inside (s : tso_state) : bool :=
  in_cs (t_pcs s 0) && in_cs (t_pcs s 1).

Lemma asym_mutex_TSO_refuted_proof :
  exists ls s, tso_run false (tso_init 1 (fun _ => 1)) ls = Some s /\
               in_cs (t_pcs s 0) = true /\ in_cs (t_pcs s 1) = true /\
               (0 <> 1)%nat /\ length ls = 5%nat.
Proof.
  exists f5_witness.
  destruct (tso_run false (tso_init 1 (fun _ => 1)) f5_witness) as [s|] eqn:E.
  - exists s. vm_compute in E. inversion E; subst s. cbn. repeat split; auto.
  - vm_compute in E. discriminate.
Qed.

(* with the full fence of the proposed repair the same schedule is not even executable (the
   fence needs the store buffer drained) and after the drain the stealer backs off *)
Example f5_witness_blocked_by_fence :
  tso_run true (tso_init 1 (fun _ => 1)) f5_witness = None.
Proof. reflexivity. Qed.
Example f5_fenced_run :
  match tso_run true (tso_init 1 (fun _ => 1))
        [TExec 0; TFlush 0; TExec 0; TExec 0; TExec 1] with
  | Some s => in_cs (t_pcs s 0) = true /\ t_pcs s 1 = PB BWi 1
  | None => False
  end.
Proof. vm_compute. auto. Qed.
