(* C05_E4.v — engine E4 for C05: CONTROLLED multi-vCPU replay of the life-cycle model.
   EXECUTABLE DEFINITIONS ONLY (lemmas: C05_E4Proofs.v).  Line numbers: thread/thread.cpp at /repo adaeb93
   (commit 34f175e/598bacc shift everything after thread_interrupt by +14).

   The replay harness (harness/C05/e4_main.cpp) can stop the real scheduler only at GATES: between
   two ops of a thread program, in the (replaced) loop of the idler, and — through the hook
   photon_verif_c05_yield_window — between thread_yield's run-queue unlock and its context save.
   A COMMAND of a case is therefore a short sequence of labels of C05_Model.step, computed from
   the current model state exactly the way the code composes the corresponding blocks:

     CStep v    the CURRENT thread of vCPU v runs from its gate to the next gate of v:
                LStep v repeated until v has no pending switch and its CURRENT thread is at an
                op boundary (th_k = 0)            [the idler's step is its thread_yield()]
     CBlock v   like CStep, but when the next block is a thread_yield() it is the ring rotation
                ALONE (one LStep v): the vCPU parks inside the yield window, context not saved
     CResume v  idler of v calls resume_threads(): LDrain v, then LResume v while the front of the
                sleep queue has expired (1292-1334)
     CScan v    idler of v calls try_work_stealing() (2126-2146): victims u = v+1, v+2, ... (the
                pvcpu list order) with the passive flag; per victim first ws_scan_standbyq
                (2096-2118: a non-stealable front -> ws_scan_q over the rest; else the stealable,
                unlocked PREFIX), then ws_scan_runq (2120-2125: every unlocked, stealable, not RUNNING
                thread after the idler in ring order); the first non-empty result is taken:
                one LSteal v u t per thread, in list order
     CAuto v    what the library's own idler does in one round (2152-2155): CResume, then CScan if
                the idler is alone, then CStep; for any other CURRENT thread: CStep
     CTick d    LTick d

   `cmd_labels s c` is the label list; the command's effect is DEFINED as `run s (cmd_labels s c)`,
   so every state the replay visits is a state of the proved transition system (C05_E4Proofs.v:
   e4_reachable).  The guards of `step` itself stay in force: a label that the scan functions
   below emit although `do_steal` refuses it is a no-op of the model and shows up as a difference
   with the implementation's placement dump. *)
From Coq Require Import ZArith List Bool Arith.
From PV Require Import Base.U64 C05.C05_Model.
Import ListNotations.
Local Open Scope Z_scope.

Inductive cmd : Type :=
| CStep (v : nat) | CBlock (v : nat) | CResume (v : nat) | CScan (v : nat) | CAuto (v : nat) | CTick (d : Z).

Section E4.
  Variable progs : tid -> list op.

  Definition at_gate (s : state) (v : nat) : bool :=
    no_pending (v_pend (getvc s v)) &&
    match cur s v with Some c => Nat.eqb (th_k (getth s c)) 0 | None => true end.

  Fixpoint macro_labels (fuel : nat) (s : state) (v : nat) : list label :=
    match fuel with
    | O => []
    | S f =>
        let s1 := step progs s (LStep v) in
        LStep v :: (if at_gate s1 v || s_stuck s1 then [] else macro_labels f s1 v)
    end.
  Definition MACRO_FUEL : nat := 40.

  (* the next block of v's CURRENT thread is a call of photon::thread_yield() (1350-1361), the only
     place where the yield-window hook is *)
  Definition yields_next (s : state) (v : nat) : bool :=
    let vc := getvc s v in
    no_pending (v_pend vc) &&
    match v_runq vc with
    | [] => false
    | c :: rest =>
        let th := getth s c in
        tstate_eqb (th_state th) RUNNING &&
        match th_kind th with
        | KIdler => match rest with [] => false | _ => true end
        | _ =>
            match nth_error (progs c) (th_pc th) with
            | Some OYield => Nat.eqb (th_k th) 0
            | Some (OUsleep d) => Nat.eqb (th_k th) 0 && expired (s_now s) (timeout_of (s_now s) d)
            | Some OWaitAll | Some OFini =>       (* wait_all's first loop iteration is a thread_yield() *)
                Nat.eqb (th_k th) 0 && wait_cond s v && Nat.eqb c v &&
                (is_nil (v_sleepq vc) || expired (s_now s) (timeout_of (s_now s) 1000))
            | _ => false
            end
        end
    end.

  Fixpoint resume_labels (fuel : nat) (s : state) (v : nat) : list label :=
    match fuel with
    | O => []
    | S f =>
        match v_sleepq (getvc s v) with
        | t :: _ => if s_now s <? th_ts (getth s t) then []
                    else LResume v :: resume_labels f (step progs s (LResume v)) v
        | [] => []
        end
    end.
  Definition cresume_labels (s : state) (v : nat) : list label :=
    if idler_running s v then
      let s1 := step progs s (LDrain v) in
      LDrain v :: resume_labels (S (length (v_sleepq (getvc s1 v)))) s1 v
    else [].

  (* ---- try_work_stealing ---------------------------------------------------------------- *)
  Definition can_take (s : state) (possibly_running : bool) (t : tid) : bool :=
    let th := getth s t in
    lock_free (th_lock th) && stealable th && negb (possibly_running && tstate_eqb (th_state th) RUNNING).
  (* 2104-2116: do { try_lock front or break; pop; take } while (front->stealable()) *)
  Fixpoint steal_prefix (s : state) (l : list tid) : list tid :=
    match l with
    | [] => []
    | t :: r => if stealable (getth s t) && lock_free (th_lock (getth s t)) then t :: steal_prefix s r else []
    end.
  Definition scan_standby (s : state) (u : nat) : list tid :=
    match v_standby (getvc s u) with
    | [] => []
    | f :: rest =>
        if stealable (getth s f) then steal_prefix s (f :: rest)
        else filter (can_take s false) rest
    end.
  (* ring order starting after the idler *)
  Fixpoint after_idler (i : tid) (l pre : list tid) : list tid :=
    match l with
    | [] => rev pre                      (* idler not in the ring: cannot happen *)
    | x :: r => if Nat.eqb x i then r ++ rev pre else after_idler i r (x :: pre)
    end.
  Definition scan_runq (s : state) (u : nat) : list tid :=
    filter (can_take s true) (after_idler (idler_of s u) (v_runq (getvc s u)) []).
  Fixpoint first_victim (s : state) (v : nat) (us : list nat) : list label :=
    match us with
    | [] => []
    | u :: r =>
        if v_passive (getvc s u) then
          match scan_standby s u with
          | [] => match scan_runq s u with
                  | [] => first_victim s v r
                  | l => map (LSteal v u) l
                  end
          | l => map (LSteal v u) l
          end
        else first_victim s v r
    end.
  (* the pvcpu list: a finalised vCPU has left it (go_offline) *)
  Definition victims (s : state) (v : nat) : list nat :=
    filter (fun u => negb (offline progs s u)) (map (fun i => Nat.modulo (v + 1 + i) (s_nv s)) (seq 0 (pred (s_nv s)))).
  Definition cscan_labels (s : state) (v : nat) : list label :=
    if idler_running s v && v_active (getvc s v) then first_victim s v (victims s v) else [].

  Definition alone (s : state) (v : nat) : bool :=
    match v_runq (getvc s v) with [_] => true | _ => false end.

  (* a command for a vCPU that does not exist (any more) does nothing *)
  Definition on (s : state) (v : nat) : bool := Nat.ltb v (s_nv s) && negb (offline progs s v).
  Definition cmd_labels (s : state) (c : cmd) : list label :=
    match c with
    | CStep v => if on s v then macro_labels MACRO_FUEL s v else []
    | CBlock v => if on s v then
                    if yields_next s v then [LStep v] else macro_labels MACRO_FUEL s v
                  else []
    | CResume v => if on s v then cresume_labels s v else []
    | CScan v => if on s v then cscan_labels s v else []
    | CAuto v =>
        if on s v then
          let l1 := cresume_labels s v in
          let s1 := run progs s l1 in
          let l2 := if idler_running s1 v && alone s1 v then cscan_labels s1 v else [] in
          let s2 := run progs s1 l2 in
          l1 ++ l2 ++ macro_labels MACRO_FUEL s2 v
        else []
    | CTick d => [LTick d]
    end.

  Definition e4_cmd (s : state) (c : cmd) : state := run progs s (cmd_labels s c).
  Fixpoint e4_run (s : state) (cs : list cmd) : state :=
    match cs with [] => s | c :: r => e4_run (e4_cmd s c) r end.

  (* class guard of known finding F23: label l steals a thread whose context its old vCPU has not saved yet *)
  Definition f23_class (s : state) (l : label) : bool :=
    match l with
    | LSteal v u t => match v_pend (getvc s u) with PSwitch from _ => Nat.eqb from t | _ => false end
    | _ => false
    end.
  (* two vCPUs execute on the same stack (the manifestation of F23, stack_exclusive_refuted) *)
  Fixpoint phys_clash_with (s : state) (v : nat) (k : nat) : bool :=
    match k with
    | O => false
    | S m => (negb (Nat.eqb m v) &&
              match phys s v, phys s m with Some a, Some b => Nat.eqb a b | _, _ => false end)
             || phys_clash_with s v m
    end.
  Fixpoint phys_clash_upto (s : state) (k : nat) : bool :=
    match k with O => false | S m => phys_clash_with s m (s_nv s) || phys_clash_upto s m end.
  Definition phys_clash (s : state) : bool := phys_clash_upto s (s_nv s).
End E4.
