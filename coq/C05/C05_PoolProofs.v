(* C05_PoolProofs.v — the ThreadPoolBase hand-shake: exactly-once / join-exact for the repaired code under
   every schedule INCLUDING interrupts of the waiting threads, the same for the code as it is when nobody
   interrupts a waiting thread, and the refutation (F24) for the code as it is with an interrupt. *)
From Coq Require Import List Bool Arith Lia.
From PV Require Import C05.C05_Pool.
Import ListNotations.

(* which labels are allowed: the repaired code tolerates everything; the code as it is, no interrupts *)
Definition allowed (fixed : bool) (l : plabel) : bool :=
  fixed || match l with PIntW | PIntJ => false | _ => true end.

Record PInv (fixed : bool) (s : pst) : Prop := mkPInv {
  (* safety flags *)
  pi_flags : p_early s = false /\ p_dput s = false /\ p_reuse s = false;
  (* per work item *)
  pi_k : forall k, p_runs s k <= 1 /\ (p_done s k = true -> p_runs s k = 1) /\ p_joined s k <= 1 /\
                   (p_joined s k = 1 -> p_done s k = true /\ p_jcalled s k = true) /\
                   (p_next s <= k -> p_runs s k = 0 /\ p_done s k = false /\ p_jcalled s k = false /\ p_joined s k = 0);
  (* an unjoined joinable work item pins the block *)
  pi_uj : forall k, k < p_next s -> p_jn s k = true -> p_jcalled s k = false ->
            S k = p_next s /\ p_start s = SWork k /\ p_joinable s = true /\ p_inpool s = false;
  (* the block in the pool is idle *)
  pi_pool : p_inpool s = true -> p_w s = WWait /\ p_start s = SNone /\ p_j s = JIdle /\ p_joining s = false;
  (* the pooled thread *)
  pi_w : match p_w s with
         | WWait => match p_start s with
                    | SWork k => S k = p_next s /\ p_inpool s = false /\ p_runs s k = 0 /\ p_joinable s = p_jn s k /\ p_joined s k = 0
                    | SNone => p_joining s = false
                    end
         | WRun k => S k = p_next s /\ p_start s = SWork k /\ p_inpool s = false /\ p_runs s k = 1 /\ p_done s k = false /\ p_joinable s = p_jn s k /\ p_joined s k = 0
         | WDone k => S k = p_next s /\ p_start s = SWork k /\ p_inpool s = false /\ p_runs s k = 1 /\ p_done s k = true /\ p_joinable s = p_jn s k /\ p_joined s k = 0
         | WJoinWait k => S k = p_next s /\ p_start s = SWork k /\ p_inpool s = false /\ p_runs s k = 1 /\ p_done s k = true /\
                          p_joinable s = true /\ p_jn s k = true /\ p_j s = JIdle /\
                          ((p_jcalled s k = false /\ p_wnote s = false /\ p_joining s = true /\ p_joined s k = 0) \/
                           (p_jcalled s k = true /\ p_wnote s = true /\ p_joining s = negb fixed /\ p_joined s k = 1))
         end;
  (* the joiner *)
  pi_j : match p_j s with
         | JIdle => True
         | JWait k => S k = p_next s /\ p_jn s k = true /\ p_jcalled s k = true /\ p_joined s k = 0 /\ p_inpool s = false /\
                      ((p_jnote s = false /\ p_joining s = true /\ p_joinable s = true /\ p_start s = SWork k /\
                        match p_w s with WJoinWait _ => False | _ => True end) \/
                       (p_jnote s = true /\ p_joining s = false /\ p_start s = SNone /\ p_w s = WWait /\ p_done s k = true))
         end;
  (* the joining flag is only ever set by a waiting side *)
  pi_jg : p_joining s = true -> (exists k, p_j s = JWait k) \/ (exists k, p_w s = WJoinWait k);
  (* a join that was called has returned or is waiting *)
  pi_cj : forall k, p_jcalled s k = true -> p_joined s k = 1 \/ p_j s = JWait k
}.

Lemma pinv_init : forall fixed, PInv fixed pinit.
Proof.
  intro. constructor; cbn; auto.
  - intros k. repeat split; auto; intros; try discriminate; lia.
  - intros k H. lia.
  - discriminate.
  - discriminate.
Qed.

Ltac upf_tac :=
  repeat match goal with
  | |- context[upf _ ?k _ ?x] => unfold upf; destruct (Nat.eqb x k) eqn:?
  | H : context[upf _ ?k _ ?x] |- _ => unfold upf in H; destruct (Nat.eqb x k) eqn:?
  end;
  repeat match goal with
  | H : Nat.eqb _ _ = true |- _ => apply Nat.eqb_eq in H; subst
  | H : Nat.eqb _ _ = false |- _ => apply Nat.eqb_neq in H
  end.

Ltac fin := cbn in *; intros; upf_tac; subst; repeat split; intros; try discriminate; try congruence; try lia; auto.

Ltac ksame K := let k' := fresh "k'" in intro k'; apply (K k').

Lemma pstep_inv : forall fixed s l, allowed fixed l = true -> PInv fixed s -> PInv fixed (pstep fixed s l).
Proof.
  intros fixed s l Al I.
  destruct I as [(F1 & F2 & F3) K UJ PL W J JG CJ].
  destruct s as [st jb jg ip w j nx wn jnn jn runs dn jd jc ea dp ru]. cbn in *. subst ea dp ru.
  destruct l as [jn0| | | | |k0| | |]; cbn [pstep p_inpool p_next p_w p_start p_j p_joining p_joinable p_wnote p_jnote p_jn p_runs p_done p_joined p_jcalled p_early p_dput p_reuse].
  - (* PCreate *)
    destruct ip; [|constructor; cbn; auto].
    destruct (PL eq_refl) as (-> & -> & -> & ->).
    destruct (K nx) as (_ & _ & _ & _ & e). destruct (e (le_n _)) as (r1 & r2 & r3 & r4).
    constructor; cbn.
    + auto.
    + intro k. destruct (K k) as (a & b & c & d & e'). split; [auto|split; [auto|split; [auto|split; [auto|intro H; apply e'; lia]]]].
    + intros k Hk Hj Hc. unfold upf in Hj. destruct (Nat.eqb k nx) eqn:E.
      * apply Nat.eqb_eq in E. subst. auto.
      * apply Nat.eqb_neq in E. assert (k < nx) by lia. destruct (UJ k H Hj Hc) as (_ & _ & _ & X). discriminate.
    + discriminate.
    + unfold upf. rewrite Nat.eqb_refl. auto.
    + exact Logic.I.
    + discriminate.
    + exact CJ.
  - (* PTake *)
    destruct w as [|kw|kw|kw]; try (constructor; cbn; auto; fail).
    destruct st as [|k]; [constructor; cbn; auto|].
    destruct W as (w1 & w2 & w3 & w4 & w5). subst ip.
    assert (Dk : dn k = false). { destruct (dn k) eqn:E; auto. destruct (K k) as (_ & b & _). specialize (b E). lia. }
    constructor; cbn.
    + auto.
    + intro k'. destruct (K k') as (a & b & c & d & e). unfold upf. destruct (Nat.eqb k' k) eqn:E.
      * apply Nat.eqb_eq in E. subst k'. rewrite w3. repeat split; auto; intros; try lia; try (exfalso; lia).
        all: match goal with H : _ = 1 |- _ => destruct (d H); auto end.
      * auto.
    + exact UJ.
    + discriminate.
    + unfold upf. rewrite Nat.eqb_refl. repeat split; auto; lia.
    + destruct j as [|kj]; auto. destruct J as (j1 & j2 & j3 & j4 & j5 & [j6|j6]);
        [|destruct j6 as (_ & _ & X & _); discriminate].
      repeat split; auto; try (left; destruct j6 as (a & b & c & d & e); repeat split; auto).
    + intro H. destruct (JG H) as [X|[k0 X]]; auto. discriminate.
    + exact CJ.
  - (* PFinish *)
    destruct w as [|k|kw|kw]; try (constructor; cbn; auto; fail).
    destruct W as (w1 & w2 & w3 & w4 & w5 & w6 & w7). subst ip st.
    constructor; cbn.
    + auto.
    + intro k'. destruct (K k') as (a & b & c & d & e). unfold upf. destruct (Nat.eqb k' k) eqn:E.
      * apply Nat.eqb_eq in E. subst k'. repeat split; auto; intros; try lia; try (exfalso; lia); try (destruct (d H); auto).
      * auto.
    + exact UJ.
    + discriminate.
    + unfold upf. rewrite Nat.eqb_refl. repeat split; auto.
    + destruct j as [|kj]; auto. destruct J as (j1 & j2 & j3 & j4 & j5 & [j6|j6]);
        [|destruct j6 as (_ & _ & X & _); discriminate].
      repeat split; auto; try (left; destruct j6 as (a & b & c & d & e); repeat split; auto).
    + intro H. destruct (JG H) as [X|[k0 X]]; auto. discriminate.
    + exact CJ.
  - (* PAfter *)
    destruct w as [|kw|k|kw]; try (constructor; cbn; auto; fail).
    destruct W as (w1 & w2 & w3 & w4 & w5 & w6 & w7). subst ip st.
    destruct jg.
    + (* a joiner is waiting *)
      destruct (JG eq_refl) as [[kj X]|[kj X]]; [|discriminate]. subst j.
      destruct J as (j1 & j2 & j3 & j4 & j5 & [j6|j6]); [|destruct j6 as (_ & X & _); discriminate].
      assert (kj = k) by lia. subst kj.
      constructor; cbn.
      * auto.
      * ksame K.
      * intros k1 Hk Hj Hc. destruct (UJ k1 Hk Hj Hc) as (X & _). assert (k1 = k) by lia. subst. congruence.
      * discriminate.
      * reflexivity.
      * repeat split; auto; try (right; repeat split; auto).
      * discriminate.
      * exact CJ.
    + destruct jb.
      * (* joinable: wait for the joiner *)
        assert (Jj : j = JIdle).
        { destruct j as [|kj]; auto. destruct J as (_ & _ & _ & _ & _ & [j6|j6]).
          - destruct j6 as (_ & X & _). discriminate.
          - destruct j6 as (_ & _ & X & _). discriminate. }
        subst j.
        assert (Jc : jc k = false).
        { destruct (jc k) eqn:E; auto. destruct (CJ k E) as [X|X]; [lia|discriminate]. }
        constructor; cbn.
        -- auto.
        -- ksame K.
        -- exact UJ.
        -- discriminate.
        -- repeat split; auto; try (left; repeat split; auto).
        -- exact Logic.I.
        -- intros _. right. eauto.
        -- exact CJ.
      * (* not joinable: recycle *)
        assert (Jj : j = JIdle).
        { destruct j as [|kj]; auto. destruct J as (_ & _ & _ & _ & _ & [j6|j6]).
          - destruct j6 as (_ & X & _). discriminate.
          - destruct j6 as (_ & _ & X & _). discriminate. }
        subst j.
        constructor; cbn.
        -- auto.
        -- ksame K.
        -- intros k1 Hk Hj Hc. destruct (UJ k1 Hk Hj Hc) as (_ & _ & X & _). discriminate.
        -- auto.
        -- reflexivity.
        -- exact Logic.I.
        -- discriminate.
        -- exact CJ.
  - (* PWWake *)
    destruct w as [|kw|kw|k]; try (constructor; cbn; auto; fail).
    destruct W as (w1 & w2 & w3 & w4 & w5 & w6 & w7 & w8 & w9). subst ip st j jb.
    match goal with |- PInv _ (if ?g then _ else _) => destruct g eqn:Go end; [|constructor; cbn; auto; repeat split; auto].
    assert (Second : jc k = true /\ jd k = 1).
    { destruct w9 as [(a & b & c & d)|(a & b & c & d)]; auto. exfalso. subst. destruct fixed; cbn in *; discriminate. }
    destruct Second as [Jc Jd].
    constructor; cbn.
    + auto.
    + ksame K.
    + intros k1 Hk Hj Hc. destruct (UJ k1 Hk Hj Hc) as (X & _). assert (k1 = k) by lia. subst. congruence.
    + auto.
    + reflexivity.
    + exact Logic.I.
    + discriminate.
    + exact CJ.
  - (* PJoin *)
    destruct j as [|kj]; try (constructor; cbn; auto; fail).
    destruct (Nat.ltb k0 nx && jn k0 && negb (jc k0)) eqn:G; [|constructor; cbn; auto].
    apply andb_true_iff in G. destruct G as [G G3]. apply andb_true_iff in G. destruct G as [G1 G2].
    apply Nat.ltb_lt in G1. apply negb_true_iff in G3.
    destruct (UJ k0 G1 G2 G3) as (u1 & u2 & u3 & u4). subst st jb ip. cbn.
    destruct jg.
    + (* the pooled thread is waiting for us *)
      destruct (JG eq_refl) as [[kj X]|[kj X]]; [discriminate|]. subst w.
      destruct W as (w1 & w2 & w3 & w4 & w5 & w6 & w7 & w8 & w9).
      assert (kj = k0) by lia. subst kj.
      destruct w9 as [(a & b & c & d)|(a & _)]; [|congruence].
      constructor; cbn.
      * rewrite w5. auto.
      * intro k'. destruct (K k') as (a' & b' & c' & d' & e'). unfold upf. destruct (Nat.eqb k' k0) eqn:E.
        -- apply Nat.eqb_eq in E. subst k'. rewrite d. repeat split; auto; intros; try lia; try (exfalso; lia).
        -- auto.
      * intros k1 Hk Hj Hc. unfold upf in Hc. destruct (Nat.eqb k1 k0) eqn:E; [discriminate|].
        apply Nat.eqb_neq in E. destruct (UJ k1 Hk Hj Hc) as (X & _). lia.
      * discriminate.
      * unfold upf. rewrite Nat.eqb_refl. repeat split; auto. right. rewrite d. destruct fixed; repeat split; auto.
      * exact Logic.I.
      * intros _. right. eauto.
      * intros k1 H. unfold upf in *. destruct (Nat.eqb k1 k0) eqn:E.
        -- left. rewrite d. reflexivity.
        -- destruct (CJ k1 H) as [X|X]; auto.
    + (* wait for the pooled thread *)
      assert (Nw : match w with WJoinWait _ => False | _ => True end).
      { destruct w as [|kw|kw|kw]; auto. destruct W as (w1 & _ & _ & _ & _ & _ & _ & _ & [(_ & _ & X & _)|(X & _)]).
        - discriminate.
        - assert (kw = k0) by lia. subst. congruence. }
      assert (Jd : jd k0 = 0).
      { destruct w as [|kw|kw|kw]; cbn in *.
        - destruct W as (_ & _ & _ & _ & X). exact X.
        - destruct W as (_ & X & _ & _ & _ & _ & Y). inversion X. subst. exact Y.
        - destruct W as (_ & X & _ & _ & _ & _ & Y). inversion X. subst. exact Y.
        - contradiction. }
      constructor; cbn.
      * auto.
      * intro k'. destruct (K k') as (a' & b' & c' & d' & e'). unfold upf. destruct (Nat.eqb k' k0) eqn:E.
        -- apply Nat.eqb_eq in E. subst k'. repeat split; auto; intros; try lia; try (exfalso; lia); try (destruct (d' H); auto).
        -- auto.
      * intros k1 Hk Hj Hc. unfold upf in Hc. destruct (Nat.eqb k1 k0) eqn:E; [discriminate|].
        apply Nat.eqb_neq in E. destruct (UJ k1 Hk Hj Hc) as (X & _). lia.
      * discriminate.
      * destruct w as [|kw|kw|kw]; auto. contradiction.
      * unfold upf. rewrite Nat.eqb_refl. repeat split; auto. left. repeat split; auto.
      * intros _. left. eauto.
      * intros k1 H. unfold upf in *. destruct (Nat.eqb k1 k0) eqn:E.
        -- right. apply Nat.eqb_eq in E. subst. reflexivity.
        -- destruct (CJ k1 H) as [X|X]; auto. discriminate.
  - (* PJWake *)
    destruct j as [|k]; try (constructor; cbn; auto; fail).
    destruct J as (j1 & j2 & j3 & j4 & j5 & j6). subst ip.
    match goal with |- PInv _ (if ?g then _ else _) => destruct g eqn:Go end; [|constructor; cbn; auto; repeat split; auto].
    assert (B : jnn = true /\ jg = false /\ st = SNone /\ w = WWait /\ dn k = true).
    { destruct j6 as [(a & b & c & d)|X]; auto. exfalso. subst. destruct fixed; cbn in *; discriminate. }
    destruct B as (b1 & b2 & b3 & b4 & b5). subst.
    constructor; cbn.
    + rewrite b5. auto.
    + intro k'. destruct (K k') as (a & b & c & d & e). unfold upf. destruct (Nat.eqb k' k) eqn:E.
      * apply Nat.eqb_eq in E. subst k'. rewrite j4. repeat split; auto; intros; try lia; try (exfalso; lia).
        all: destruct (e H) as (_ & _ & X & _); congruence.
      * auto.
    + intros k1 Hk Hj Hc. destruct (UJ k1 Hk Hj Hc) as (_ & X & _). discriminate.
    + auto.
    + reflexivity.
    + exact Logic.I.
    + discriminate.
    + intros k1 H. unfold upf. destruct (Nat.eqb k1 k) eqn:E.
      * left. apply Nat.eqb_eq in E. subst. rewrite j4. reflexivity.
      * destruct (CJ k1 H) as [X|X]; auto. inversion X. subst. rewrite Nat.eqb_refl in E. discriminate.
  - (* PIntW *)
    destruct w as [|kw|kw|k]; try (constructor; cbn; auto; fail).
    destruct W as (w1 & w2 & w3 & w4 & w5 & w6 & w7 & w8 & w9). subst ip st j jb.
    match goal with |- PInv _ (if ?g then _ else _) => destruct g eqn:Go end; [|constructor; cbn; auto; repeat split; auto].
    assert (Second : jc k = true /\ jd k = 1).
    { destruct w9 as [(a & b & c & d)|(a & b & c & d)]; auto. exfalso. subst. destruct fixed; cbn in *; discriminate. }
    destruct Second as [Jc Jd].
    constructor; cbn.
    + auto.
    + ksame K.
    + intros k1 Hk Hj Hc. destruct (UJ k1 Hk Hj Hc) as (X & _). assert (k1 = k) by lia. subst. congruence.
    + auto.
    + reflexivity.
    + exact Logic.I.
    + discriminate.
    + exact CJ.
  - (* PIntJ *)
    destruct j as [|k]; try (constructor; cbn; auto; fail).
    destruct J as (j1 & j2 & j3 & j4 & j5 & j6). subst ip.
    match goal with |- PInv _ (if ?g then _ else _) => destruct g eqn:Go end; [|constructor; cbn; auto; repeat split; auto].
    assert (B : jnn = true /\ jg = false /\ st = SNone /\ w = WWait /\ dn k = true).
    { destruct j6 as [(a & b & c & d)|X]; auto. exfalso. subst. destruct fixed; cbn in *; discriminate. }
    destruct B as (b1 & b2 & b3 & b4 & b5). subst.
    constructor; cbn.
    + rewrite b5. auto.
    + intro k'. destruct (K k') as (a & b & c & d & e). unfold upf. destruct (Nat.eqb k' k) eqn:E.
      * apply Nat.eqb_eq in E. subst k'. rewrite j4. repeat split; auto; intros; try lia; try (exfalso; lia).
        all: destruct (e H) as (_ & _ & X & _); congruence.
      * auto.
    + intros k1 Hk Hj Hc. destruct (UJ k1 Hk Hj Hc) as (_ & X & _). discriminate.
    + auto.
    + reflexivity.
    + exact Logic.I.
    + discriminate.
    + intros k1 H. unfold upf. destruct (Nat.eqb k1 k) eqn:E.
      * left. apply Nat.eqb_eq in E. subst. rewrite j4. reflexivity.
      * destruct (CJ k1 H) as [X|X]; auto. inversion X. subst. rewrite Nat.eqb_refl in E. discriminate.
Qed.

(* every earlier round is complete; when the pooled thread is idle with an empty block, all rounds are *)
Definition PInv2 (s : pst) : Prop :=
  (forall k, S k < p_next s -> p_done s k = true) /\
  (p_w s = WWait -> p_start s = SNone -> forall k, k < p_next s -> p_done s k = true).

Lemma pstep_inv2 : forall fixed s l, PInv fixed s -> PInv2 s -> PInv2 (pstep fixed s l).
Proof.
  intros fixed s l I [O Idle].
  destruct I as [_ K UJ PL W J JG CJ].
  destruct s as [st jb jg ip w j nx wn jnn jn runs dn jd jc ea dp ru]. cbn in *.
  assert (Cur : forall k, (w = WDone k \/ w = WJoinWait k) -> forall k1, k1 < nx -> dn k1 = true).
  { intros k [->| ->] k1 H1.
    - destruct W as (w1 & _ & _ & _ & w5 & _). destruct (Nat.eq_dec k1 k); [subst; auto|apply O; lia].
    - destruct W as (w1 & _ & _ & _ & w5 & _). destruct (Nat.eq_dec k1 k); [subst; auto|apply O; lia]. }
  destruct l as [jn0| | | | |k0| | |]; cbn [pstep p_inpool p_next p_w p_start p_j p_joining p_joinable p_wnote p_jnote p_jn p_runs p_done p_joined p_jcalled p_early p_dput p_reuse].
  - destruct ip; [|split; auto]. destruct (PL eq_refl) as (-> & -> & _). split; cbn.
    + intros k H. apply Idle; auto. lia.
    + intros _ X. discriminate.
  - destruct w; try (split; auto; fail). destruct st; split; cbn; auto; intros; discriminate.
  - destruct w as [|k|k|k]; try (split; auto; fail). split; cbn.
    + intros k1 H. unfold upf. destruct (Nat.eqb k1 k); auto.
    + discriminate.
  - destruct w as [|k|k|k]; try (split; auto; fail).
    pose proof (Cur k (or_introl eq_refl)) as C.
    destruct jg; [|destruct jb]; split; cbn; auto; intros; try discriminate; auto.
  - destruct w as [|k|k|k]; try (split; auto; fail).
    pose proof (Cur k (or_intror eq_refl)) as C.
    match goal with |- PInv2 (if ?g then _ else _) => destruct g end; split; cbn; auto; intros; try discriminate; auto.
  - destruct j; [|split; auto].
    destruct (_ && _); [|split; auto]. cbn.
    destruct (negb jb); [split; auto|]. destruct st; [split; auto|].
    destruct jg; split; cbn; auto.
  - destruct j as [|k]; [split; auto|].
    match goal with |- PInv2 (if ?g then _ else _) => destruct g end; split; cbn; auto.
  - destruct w as [|k|k|k]; try (split; auto; fail).
    pose proof (Cur k (or_intror eq_refl)) as C.
    match goal with |- PInv2 (if ?g then _ else _) => destruct g end; split; cbn; auto; intros; try discriminate; auto.
  - destruct j as [|k]; [split; auto|].
    match goal with |- PInv2 (if ?g then _ else _) => destruct g end; split; cbn; auto.
Qed.

Lemma pinv2_init : PInv2 pinit.
Proof. split; cbn; intros; lia. Qed.

Lemma prun_inv : forall fixed ls s, forallb (allowed fixed) ls = true -> PInv fixed s -> PInv2 s ->
  PInv fixed (prun fixed s ls) /\ PInv2 (prun fixed s ls).
Proof.
  induction ls as [|l ls IH]; cbn; intros s A I I2; auto.
  apply andb_true_iff in A. destruct A as [A1 A2].
  apply IH; auto. - now apply pstep_inv. - eapply pstep_inv2; eauto.
Qed.

(* ---- the theorems --------------------------------------------------------------------------- *)
Definition pool_safe (s : pst) : Prop :=
  p_early s = false /\ p_dput s = false /\ p_reuse s = false /\
  (forall k, p_runs s k <= 1 /\ (p_done s k = true -> p_runs s k = 1) /\
             p_joined s k <= 1 /\ (p_joined s k = 1 -> p_done s k = true) /\
             (p_next s <= k -> p_runs s k = 0)) /\
  (* when the pooled thread is idle and the block is empty, every work item handed to the pool has run exactly once *)
  (p_w s = WWait -> p_start s = SNone -> forall k, k < p_next s -> p_runs s k = 1 /\ p_done s k = true).

Lemma pool_safe_of_inv : forall fixed s, PInv fixed s -> PInv2 s -> pool_safe s.
Proof.
  intros fixed s I [O Idle]. destruct (pi_flags _ _ I) as (a & b & c).
  split; [exact a|split; [exact b|split; [exact c|split]]].
  - intro k. destruct (pi_k _ _ I k) as (x1 & x2 & x3 & x4 & x5).
    split; [exact x1|split; [exact x2|split; [exact x3|split]]].
    + intro H. apply x4; auto.
    + intro H. apply x5; auto.
  - intros Hw Hs k Hk. destruct (pi_k _ _ I k) as (x1 & x2 & x3 & x4 & x5).
    pose proof (Idle Hw Hs k Hk) as D. split; auto.
Qed.

(* the repaired hand-shake: every schedule, interrupts of the waiting threads included *)
Lemma pool_exact_fixed_proof : forall ls, pool_safe (prun true pinit ls).
Proof.
  intro ls. destruct (prun_inv true ls pinit) as [I I2]; auto using pinv_init, pinv2_init.
  - clear. induction ls; cbn; auto.
  - eapply pool_safe_of_inv; eauto.
Qed.

(* the hand-shake as it is in the tree, provided no thread is interrupted while it waits in it *)
Definition no_interrupt (l : plabel) : bool := match l with PIntW | PIntJ => false | _ => true end.
Lemma pool_exact_nointr_proof : forall ls, forallb no_interrupt ls = true -> pool_safe (prun false pinit ls).
Proof.
  intros ls H. destruct (prun_inv false ls pinit) as [I I2]; auto using pinv_init, pinv2_init.
  eapply pool_safe_of_inv; eauto.
Qed.

(* F24: as it is, an interrupt of the joining thread makes join return before the pooled entry function returned,
   and the block is then handed to new work while the old work still runs *)
Lemma pool_join_refuted_proof :
  p_early (prun false pinit f24_witness) = true /\ p_done (prun false pinit f24_witness) 0 = false /\
  p_joined (prun false pinit f24_witness) 0 = 1 /\ p_reuse (prun false pinit f24_witness2) = true.
Proof. vm_compute. auto. Qed.
(* the same schedules are harmless for the repaired code *)
Example f24_fixed : p_early (prun true pinit f24_witness) = false /\ p_joined (prun true pinit f24_witness) 0 = 0 /\
                    p_reuse (prun true pinit f24_witness2) = false.
Proof. vm_compute. auto. Qed.
(* non-vacuity: a complete joinable round and a complete non-joinable round *)
Example pool_round :
  let s := prun false pinit [PCreate true; PTake; PFinish; PAfter; PJoin 0; PWWake; PCreate false; PTake; PFinish; PAfter] in
  p_runs s 0 = 1 /\ p_joined s 0 = 1 /\ p_runs s 1 = 1 /\ p_inpool s = true /\ p_next s = 2.
Proof. vm_compute. auto. Qed.
