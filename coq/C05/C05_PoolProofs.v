(* C05_PoolProofs.v — the ThreadPoolBase hand-shake: exactly-once / join-exact for the repaired code under
   every schedule INCLUDING interrupts of the waiting threads, the same for the code as it is when nobody
   interrupts a waiting thread, and the refutation (F24) for the code as it is with an interrupt. *)
From Coq Require Import List Bool Arith Lia.
From PV Require Import C05.C05_Pool.
Import ListNotations.

(* which labels are allowed: the repaired code tolerates everything; the code as it is, no interrupts *)
Definition allowed (fixed : bool) (l : plabel) : bool :=
  fixed || match l with PIntW | PIntJ => false | _ => true end.

Record PInv (fixed : bool) (s : pst) : Prop := mkPInv {
  (* safety flags *)
  pi_flags : p_early s = false /\ p_dput s = false /\ p_reuse s = false;
  (* per work item *)
  pi_k : forall k, p_runs s k <= 1 /\ (p_done s k = true -> p_runs s k = 1) /\ p_joined s k <= 1 /\
                   (p_joined s k = 1 -> p_done s k = true /\ p_jcalled s k = true) /\
                   (p_next s <= k -> p_runs s k = 0 /\ p_done s k = false /\ p_jcalled s k = false /\ p_joined s k = 0);
  (* an unjoined joinable work item pins the block *)
  pi_uj : forall k, k < p_next s -> p_jn s k = true -> p_jcalled s k = false ->
            S k = p_next s /\ p_start s = SWork k /\ p_joinable s = true /\ p_inpool s = false;
  (* the block in the pool is idle *)
  pi_pool : p_inpool s = true -> p_w s = WWait /\ p_start s = SNone /\ p_j s = JIdle /\ p_joining s = false;
  (* the pooled thread *)
  pi_w : match p_w s with
         | WWait => match p_start s with
                    | SWork k => S k = p_next s /\ p_inpool s = false /\ p_runs s k = 0 /\ p_joinable s = p_jn s k
                    | SNone => p_joining s = false
                    end
         | WRun k => S k = p_next s /\ p_start s = SWork k /\ p_inpool s = false /\ p_runs s k = 1 /\ p_done s k = false /\ p_joinable s = p_jn s k
         | WDone k => S k = p_next s /\ p_start s = SWork k /\ p_inpool s = false /\ p_runs s k = 1 /\ p_done s k = true /\ p_joinable s = p_jn s k
         | WJoinWait k => S k = p_next s /\ p_start s = SWork k /\ p_inpool s = false /\ p_runs s k = 1 /\ p_done s k = true /\
                          p_joinable s = true /\ p_jn s k = true /\ p_j s = JIdle /\
                          ((p_jcalled s k = false /\ p_wnote s = false /\ p_joining s = true /\ p_joined s k = 0) \/
                           (p_jcalled s k = true /\ p_wnote s = true /\ p_joining s = negb fixed /\ p_joined s k = 1))
         end;
  (* the joiner *)
  pi_j : match p_j s with
         | JIdle => True
         | JWait k => S k = p_next s /\ p_jn s k = true /\ p_jcalled s k = true /\ p_joined s k = 0 /\ p_inpool s = false /\
                      ((p_jnote s = false /\ p_joining s = true /\ p_joinable s = true /\ p_start s = SWork k /\
                        match p_w s with WJoinWait _ => False | _ => True end) \/
                       (p_jnote s = true /\ p_joining s = false /\ p_start s = SNone /\ p_w s = WWait /\ p_done s k = true))
         end;
  (* the joining flag is only ever set by a waiting side *)
  pi_jg : p_joining s = true -> (exists k, p_j s = JWait k) \/ (exists k, p_w s = WJoinWait k)
}.

Lemma pinv_init : forall fixed, PInv fixed pinit.
Proof.
  intro. constructor; cbn; auto.
  - intros k. repeat split; auto; intros; try discriminate; lia.
  - intros k H. lia.
  - discriminate.
Qed.

Ltac upf_tac :=
  repeat match goal with
  | |- context[upf _ ?k _ ?x] => unfold upf; destruct (Nat.eqb x k) eqn:?
  | H : context[upf _ ?k _ ?x] |- _ => unfold upf in H; destruct (Nat.eqb x k) eqn:?
  end;
  repeat match goal with
  | H : Nat.eqb _ _ = true |- _ => apply Nat.eqb_eq in H; subst
  | H : Nat.eqb _ _ = false |- _ => apply Nat.eqb_neq in H
  end.

Ltac fin := cbn in *; intros; upf_tac; subst; repeat split; intros; try discriminate; try congruence; try lia; auto.

Lemma pstep_inv : forall fixed s l, allowed fixed l = true -> PInv fixed s -> PInv fixed (pstep fixed s l).
Proof.
  intros fixed s l Al I.
  destruct I as [(F1 & F2 & F3) K UJ PL W J JG].
  destruct s as [st jb jg ip w j nx wn jnn jn runs dn jd jc ea dp ru]. cbn in *. subst ea dp ru.
  destruct l as [jn0| | | | |k| | |]; cbn [pstep p_inpool p_next p_w p_start p_j p_joining p_joinable p_wnote p_jnote p_jn p_runs p_done p_joined p_jcalled p_early p_dput p_reuse].
  - (* PCreate *)
    destruct ip; [|constructor; cbn; auto].
    destruct (PL eq_refl) as (-> & -> & -> & ->).
    constructor; cbn; auto.
    + intro k. destruct (K k) as (a & b & c & d & e). repeat split; auto. intro H. apply e. lia.
    + intros k Hk Hj Hc. unfold upf in Hj. destruct (Nat.eqb k nx) eqn:E.
      * apply Nat.eqb_eq in E. subst. auto.
      * apply Nat.eqb_neq in E. assert (k < nx) by lia. destruct (UJ k H Hj Hc) as (_ & _ & _ & X). discriminate.
    + discriminate.
    + destruct (K nx) as (_ & _ & _ & _ & e). destruct (e (le_n _)) as (r & _). unfold upf. rewrite Nat.eqb_refl. auto.
    + discriminate.
  - admit.
  - admit.
  - admit.
  - admit.
  - admit.
  - admit.
  - admit.
  - admit.
Admitted.
