(* C05_E4Proofs.v — the E4 command layer is a scheduler of labels of the PROVED transition system:
   every state a controlled multi-vCPU replay visits (the states whose placement dumps bin/check
   compares with the real scheduler) is `reachable`, so placement_unique, one_vcpu_at_a_time,
   runs_once, join_exact and nthreads_restored hold in it. *)
From Coq Require Import ZArith List Bool Arith Lia.
From PV Require Import Base.U64 C05.C05_Model C05.C05_Proofs C05.C05_Proofs4 C05.C05_E4.
Import ListNotations.

Lemma run_app : forall progs l1 l2 s, run progs s (l1 ++ l2) = run progs (run progs s l1) l2.
Proof. induction l1 as [|l r IH]; intros l2 s; cbn; [reflexivity|apply IH]. Qed.

(* the label sequence of a whole command list *)
Fixpoint e4_labels (progs : tid -> list op) (s : state) (cs : list cmd) : list label :=
  match cs with
  | [] => []
  | c :: r => cmd_labels progs s c ++ e4_labels progs (e4_cmd progs s c) r
  end.

Lemma e4_run_is_run : forall progs cs s, e4_run progs s cs = run progs s (e4_labels progs s cs).
Proof.
  induction cs as [|c r IH]; intros s; cbn [e4_run e4_labels]; [reflexivity|].
  rewrite run_app. apply IH.
Qed.

Lemma e4_reachable_proof : forall progs nv n flags t0 cs,
  reachable progs nv n flags t0 (e4_run progs (init_state nv n flags t0) cs).
Proof. intros. exists (e4_labels progs (init_state nv n flags t0) cs). apply e4_run_is_run. Qed.

(* e.g. the placement theorem instantiated to replay states *)
Lemma e4_placement_proof : forall progs nv n flags t0 cs, (nv <= n)%nat ->
  forall t v, placed (e4_run progs (init_state nv n flags t0) cs) t v.
Proof. intros. eapply placement_unique_proof; eauto using e4_reachable_proof. Qed.

(* non-vacuity + regression anchor: the standby-queue scenario of seeded change C05_1.  vCPU 0 (passive) holds in its standby
   queue the migrated stealable thread 3 and, behind it, the cross-vCPU-interrupted sleeper 2 that is still in its sleep
   queue; the steal scan of vCPU 1 takes thread 3 ONLY. *)
Definition c051_progs (t : tid) : list op :=
  match t with
  | 0%nat => [OCreate 2 true true; OUsleep 100000]
  | 1%nat => [OCreate 3 false true; OYield; OInterrupt 2 4]
  | 2%nat => [OUsleep 50000; ONop]
  | 3%nat => [OMigrate 3 0; ONop]
  | _ => []
  end.
Definition c051_flags (v : nat) : bool * bool := match v with 0%nat => (false, true) | _ => (true, false) end.
Definition c051_cmds : list cmd :=
  [CStep 0; CStep 0; CStep 0; CStep 0; CStep 1; CStep 1; CStep 1; CStep 1; CStep 1; CStep 1]%nat.
Example c051_scan :
  let s := e4_run c051_progs (init_state 2 4 c051_flags 1000) c051_cmds in
  v_standby (s_vc s 0%nat) = [3; 2]%nat /\ th_insleep (s_th s 2%nat) = true /\
  cmd_labels c051_progs s (CScan 1) = [LSteal 1 0 3]%nat /\
  let s' := e4_cmd c051_progs s (CScan 1) in
  v_standby (s_vc s' 0%nat) = [2]%nat /\ v_runq (s_vc s' 1%nat) = [5; 3]%nat /\ th_vcpu (s_th s' 2%nat) = 0%nat.
Proof. vm_compute. repeat split; reflexivity. Qed.
