(* C05_FiniProofs.v — vCPU wind-down: wait_all / vcpu_fini lose no thread (fini_loses_nothing), and the variant of
   wait_all without the standby-queue test does (fini_without_standby_test_refuted: seeded change C05_2).

   `offline progs s v` (C05_Model.v) = the main thread of vCPU v has completed a `fini` op.  Two frames are walked
   through every function of the model:
     pcq    the program counter of no thread 0..nv-1 changes (only `ret` advances one, and only of the CURRENT thread
            of the acting vCPU) — so a vCPU goes offline only by its own main thread returning from wait_check with
            the loop test false;
     vcq    the record of the watched vCPU v (queues, pending switch, counter) is not touched by a step of another
            vCPU w — except by a cross-vCPU wake-up of one of v's sleepers (excluded: v's sleep queue is empty), a
            migration into v (excluded by the guards: SKIPPED / undefined) and a steal from v (v has left the list). *)
From Coq Require Import ZArith List Bool Arith Lia.
From PV Require Import Base.U64 C05.C05_Model C05.C05_Proofs C05.C05_Proofs3.
Import ListNotations.
Local Open Scope nat_scope.

(* ---- frame 1: program counters ------------------------------------------------------------------ *)
Definition pcq (s s' : state) : Prop :=
  s_nv s' = s_nv s /\ forall x, x < s_nv s -> th_pc (s_th s' x) = th_pc (s_th s x).
(* ... except thread c *)
Definition pcx (c : tid) (s s' : state) : Prop :=
  s_nv s' = s_nv s /\ forall x, x < s_nv s -> x <> c -> th_pc (s_th s' x) = th_pc (s_th s x).

Lemma pcq_refl : forall s, pcq s s. Proof. split; auto. Qed.
Lemma pcq_trans : forall a b c, pcq a b -> pcq b c -> pcq a c.
Proof. intros a b c [A1 A2] [B1 B2]. split; [congruence|]. intros x Hx. rewrite B2, A2; auto. congruence. Qed.
Lemma pcq_pcx : forall c s s', pcq s s' -> pcx c s s'.
Proof. intros c s s' [A B]. split; auto. Qed.
Lemma pcx_trans : forall k a b c, pcx k a b -> pcx k b c -> pcx k a c.
Proof. intros k a b c [A1 A2] [B1 B2]. split; [congruence|]. intros x Hx N. rewrite B2, A2; auto. congruence. Qed.
Lemma pcq_modth : forall s t f, (forall th, th_pc (f th) = th_pc th) -> pcq s (modth s t f).
Proof. intros s t f H. split; [reflexivity|]. intros x _. rewrite th_modth. destruct (Nat.eqb x t) eqn:E; auto. apply Nat.eqb_eq in E. subst. apply H. Qed.
Lemma pcq_modvc : forall s u g, pcq s (modvc s u g).
Proof. intros. split; reflexivity. Qed.
Lemma pcq_same : forall s s', s_th s' = s_th s -> s_nv s' = s_nv s -> pcq s s'.
Proof. intros s s' A B. split; auto. intros. now rewrite A. Qed.

Ltac pcstep :=
  match goal with
  | |- pcq ?s ?s => apply pcq_refl
  | |- pcq ?s (modvc ?X _ _) => apply (pcq_trans s X); [|apply pcq_modvc]
  | |- pcq ?s (modth ?X _ _) => apply (pcq_trans s X); [|apply pcq_modth; intro; reflexivity]
  | |- pcq ?s (set_s_tie ?X _) => apply (pcq_trans s X); [|apply pcq_same; reflexivity]
  | |- pcq ?s (stuck ?X) => apply (pcq_trans s X); [|apply pcq_same; reflexivity]
  | |- pcq ?s (setk ?X _ _) => apply (pcq_trans s X); [|unfold setk; apply pcq_modth; intro; reflexivity]
  end.
Ltac pcauto := repeat pcstep; auto.

Lemma pcq_switch_in : forall s t, pcq s (switch_in s t).
Proof. intros. unfold switch_in. apply pcq_modth. intro th. destruct (th_fresh th); reflexivity. Qed.
Lemma pcq_yield : forall s v ce d, pcq s (do_yield s v ce d).
Proof.
  intros. unfold do_yield. destruct (v_runq _) as [|c [|n rest]]; try (pcauto; fail).
  pcstep. apply (pcq_trans s (switch_in s n)); [apply pcq_switch_in|]. apply pcq_modth. intro th. destruct ce; reflexivity.
Qed.
Lemma pcq_sleep : forall s v exp wq d, pcq s (do_sleep s v exp wq d).
Proof.
  intros. unfold do_sleep. destruct (v_runq _) as [|c [|n rest]]; try (pcauto; fail). cbv zeta.
  assert (A : pcq s (modth (switch_in s n) c (fun th => set_th_waitq (set_th_ts (set_th_insleep (set_th_state th SLEEPING) true) exp) wq))).
  { pcstep. apply pcq_switch_in. }
  assert (B : pcq s (match wq with
                     | Some x => modth (modth (switch_in s n) c (fun th => set_th_waitq (set_th_ts (set_th_insleep (set_th_state th SLEEPING) true) exp) wq)) x
                                   (fun th => set_th_joiners th (th_joiners th ++ [c]))
                     | None => modth (switch_in s n) c (fun th => set_th_waitq (set_th_ts (set_th_insleep (set_th_state th SLEEPING) true) exp) wq)
                     end)).
  { destruct wq; [pcstep|]; exact A. }
  match goal with |- pcq _ (if ?b then _ else _) => destruct b end; pcauto.
Qed.
Lemma pcq_dequeue : forall s t, pcq s (dequeue s t).
Proof. intros. unfold dequeue. destruct (th_waitq _); pcauto. Qed.
Lemma pcq_wake : forall s v t e, pcq s (wake s v t e).
Proof.
  intros. unfold wake. cbv zeta.
  assert (A : pcq s (dequeue (modth s t (fun th => set_th_err th e)) t)).
  { eapply pcq_trans; [|apply pcq_dequeue]. pcauto. }
  destruct (Nat.eqb _ v); pcauto.
Qed.
Lemma pcq_interrupt : forall s v t e s', do_interrupt s v t e = Some s' -> pcq s s'.
Proof.
  intros s v t e s'. unfold do_interrupt. destruct (th_state _); intro H; try (inversion H; subst; apply pcq_refl).
  - destruct (Z.eqb _ 0); inversion H; subst; pcauto.
  - destruct (lock_free _); inversion H; subst. apply pcq_wake.
Qed.
Lemma pcq_create : forall s v k jn ws, s_nv s <= k -> pcq s (do_create s v k jn ws).
Proof.
  intros s v k jn ws Hk. unfold do_create. cbv zeta. pcstep. split; [reflexivity|]. intros x Hx. cbn. unfold updp.
  destruct (Nat.eqb x k) eqn:E; auto. apply Nat.eqb_eq in E. lia.
Qed.
Lemma pcq_die : forall s v r s', do_die s v r = Some s' -> pcq s s'.
Proof.
  intros s v r s'. unfold do_die. destruct (v_runq _) as [|c [|n rest]]; try (intro H; inversion H; subst; pcauto; fail).
  cbv zeta. match goal with |- (if negb ?b then _ else _) = _ -> _ => destruct b end; cbn [negb]; [|discriminate].
  intro H. inversion H; subst s'; clear H. pcstep. pcstep.
  eapply pcq_trans; [|apply pcq_switch_in]. destruct (th_joiners _); [apply pcq_refl|apply pcq_wake].
Qed.
Lemma pcq_migrate : forall s v t u s' b, do_migrate s v t u = Some (s', b) -> pcq s s'.
Proof.
  intros s v t u s' b. unfold do_migrate. destruct (negb _); [discriminate|].
  match goal with |- (if ?c then _ else _) = _ -> _ => destruct c end; intro H; inversion H; subst; pcauto.
Qed.
Lemma pcq_exec_pend : forall s v, pcq s (exec_pend s v).
Proof.
  intros. unfold exec_pend. destruct (v_pend _) as [|f d|f]; try apply pcq_refl.
  - destruct d as [|t|t u]; try (pcauto; fail).
    destruct (do_migrate _ v t u) as [[s1 b]|] eqn:M; [|apply pcq_refl].
    apply pcq_migrate in M. eapply pcq_trans; [|exact M]. pcauto.
  - destruct (th_joinable _); pcauto.
Qed.
Lemma pcq_sen : forall s c, pcq s (fst (fst (set_error_number s c))).
Proof. intros. unfold set_error_number. destruct (Z.eqb _ 0); cbn; pcauto. Qed.

Lemma pcx_ret : forall s c r e, pcx c s (ret s c r e).
Proof.
  intros. split; [reflexivity|]. intros x _ N. unfold ret. rewrite th_modth.
  destruct (Nat.eqb x c) eqn:E; [apply Nat.eqb_eq in E; congruence|reflexivity].
Qed.
Lemma pc_ret_self : forall s c r e, th_pc (s_th (ret s c r e) c) = S (th_pc (s_th s c)).
Proof. intros. unfold ret. rewrite th_modth, Nat.eqb_refl. reflexivity. Qed.
Lemma vc_ret : forall s c r e, s_vc (ret s c r e) = s_vc s. Proof. reflexivity. Qed.

(* what a block of thread c does to c's own pc: nothing, or +1 (then `P` holds) *)
Definition selfpc (P : Prop) (c : tid) (s s' : state) : Prop :=
  th_pc (s_th s' c) = th_pc (s_th s c) \/ (th_pc (s_th s' c) = S (th_pc (s_th s c)) /\ P).
Lemma selfpc_q : forall P c s s', c < s_nv s -> pcq s s' -> selfpc P c s s'.
Proof. intros P c s s' Hc [_ H]. left. auto. Qed.
Lemma selfpc_ret : forall (P : Prop) c s X r e, c < s_nv s -> pcq s X -> P -> selfpc P c s (ret X c r e).
Proof. intros P c s X r e Hc [_ H] HP. right. rewrite pc_ret_self, H; auto. Qed.

Lemma pcx_join_check : forall s v c j, pcx c s (join_check s v c j).
Proof.
  intros. unfold join_check.
  destruct (tstate_eqb _ NOTCREATED); [apply pcq_pcx; pcauto|].
  destruct (negb (th_joinable _)); [apply pcx_ret|].
  destruct (negb _); [apply pcq_pcx, pcq_refl|].
  destruct (tstate_eqb _ DONE).
  - eapply pcx_trans; [|apply pcx_ret]. apply pcq_pcx. pcauto.
  - destruct (negb _); [apply pcq_pcx, pcq_refl|]. apply pcq_pcx. eapply pcq_trans; [|apply pcq_sleep]. pcauto.
Qed.
Lemma selfpc_join_check : forall s v c j, c < s_nv s -> selfpc True c s (join_check s v c j).
Proof.
  intros s v c j Hc. unfold join_check.
  destruct (tstate_eqb _ NOTCREATED); [apply selfpc_q; auto; pcauto|].
  destruct (negb (th_joinable _)); [apply selfpc_ret; auto; apply pcq_refl|].
  destruct (negb _); [apply selfpc_q; auto; apply pcq_refl|].
  destruct (tstate_eqb _ DONE).
  - apply selfpc_ret; auto. pcauto.
  - destruct (negb _); [apply selfpc_q; auto; apply pcq_refl|]. apply selfpc_q; auto.
    eapply pcq_trans; [|apply pcq_sleep]. pcauto.
Qed.

Section WALK.
  Variable progs : tid -> list op.

  Lemma pcx_wait_check : forall s v c f, pcx c s (wait_check progs s v c f).
  Proof.
    intros. unfold wait_check. destruct (wait_cond s v); [|apply pcx_ret]. apply pcq_pcx.
    destruct (v_sleepq _).
    - eapply pcq_trans; [|apply pcq_yield]. pcauto.
    - cbv zeta. destruct (expired _ _); [eapply pcq_trans; [|apply pcq_yield]; pcauto|].
      destruct (lock_free _); [|apply pcq_refl]. eapply pcq_trans; [|apply pcq_sleep]. pcauto.
  Qed.
  Lemma pcx_wait_all_op : forall s v c f, pcx c s (wait_all_op progs s v c f).
  Proof.
    intros. unfold wait_all_op. destruct (Nat.eqb c v); [|destruct f; [apply pcq_pcx; pcauto|apply pcx_ret]].
    destruct (th_k _) as [|[|[|k]]]; try apply pcx_wait_check; apply pcq_pcx.
    - pose proof (pcq_sen s c) as X. destruct (set_error_number s c) as [[s1 r] e]. cbn in X. pcstep. exact X.
    - pcauto.
  Qed.
  (* the only way past a `fini`: thread c = the main thread of the acting vCPU, loop test false, nothing else changes *)
  Definition fini_ret (s : state) (v : nat) (c : tid) (s' : state) : Prop :=
    c = v /\ wait_cond s v = false /\ s_vc s' = s_vc s.
  Lemma selfpc_wait_all_op : forall s v c f, c < s_nv s ->
    selfpc (f = true -> fini_ret s v c (wait_all_op progs s v c f)) c s (wait_all_op progs s v c f).
  Proof.
    intros s v c f Hc. unfold wait_all_op. destruct (Nat.eqb c v) eqn:Ecv.
    2:{ destruct f; [apply selfpc_q; auto; pcauto|]. apply selfpc_ret; auto; [apply pcq_refl|discriminate]. }
    apply Nat.eqb_eq in Ecv.
    assert (W : selfpc (f = true -> fini_ret s v c (wait_check progs s v c f)) c s (wait_check progs s v c f)).
    { unfold wait_check. destruct (wait_cond s v) eqn:Wc.
      - apply selfpc_q; auto. destruct (v_sleepq _).
        + eapply pcq_trans; [|apply pcq_yield]. pcauto.
        + cbv zeta. destruct (expired _ _); [eapply pcq_trans; [|apply pcq_yield]; pcauto|].
          destruct (lock_free _); [|apply pcq_refl]. eapply pcq_trans; [|apply pcq_sleep]. pcauto.
      - apply selfpc_ret; auto; [apply pcq_refl|]. intros _. repeat split; auto. }
    destruct (th_k _) as [|[|[|k]]]; auto; apply selfpc_q; auto.
    - pose proof (pcq_sen s c) as X. destruct (set_error_number s c) as [[s1 r] e]. cbn in X. pcstep. exact X.
    - pcauto.
  Qed.

  Lemma pcx_exec_op : forall s v c o, pcx c s (exec_op progs s v c o).
  Proof.
    intros. unfold exec_op. destruct o as [d| |j e|j jn ws|j| | |j|j u| |]; try apply pcx_wait_all_op.
    - destruct (th_k _) as [|[|k]].
      + apply pcq_pcx. destruct (expired _ _); [eapply pcq_trans; [|apply pcq_yield]; pcauto|].
        destruct (lock_free _); [|apply pcq_refl]. eapply pcq_trans; [|apply pcq_sleep]. pcauto.
      + pose proof (pcq_sen s c) as X. destruct (set_error_number s c) as [[s1 r] e]. cbn in X.
        eapply pcx_trans; [apply pcq_pcx; exact X|apply pcx_ret].
      + destruct (Z.eqb _ 0); apply pcx_ret.
    - destruct (th_k _); [|apply pcx_ret]. apply pcq_pcx. eapply pcq_trans; [|apply pcq_yield]. pcauto.
    - destruct (alive _ _ _); [|apply pcx_ret].
      destruct (do_interrupt s v j e) as [s1|] eqn:D; [|apply pcq_pcx, pcq_refl].
      eapply pcx_trans; [apply pcq_pcx; eapply pcq_interrupt; eauto|apply pcx_ret].
    - destruct (_ && _) eqn:C; [|apply pcx_ret].
      apply andb_true_iff in C. destruct C as [C _]. apply andb_true_iff in C. destruct C as [C _]. apply Nat.leb_le in C.
      eapply pcx_trans; [apply pcq_pcx; apply pcq_create; exact C|apply pcx_ret].
    - destruct (th_k _) as [|[|k]].
      + destruct (_ && _); [|apply pcx_ret]. apply pcq_pcx. pcauto.
      + apply pcx_join_check.
      + pose proof (pcq_sen s c) as X. destruct (set_error_number s c) as [[s1 r] e]. cbn in X. apply pcq_pcx. pcstep. exact X.
    - apply pcx_ret.
    - apply pcx_ret.
    - destruct (_ && _); apply pcx_ret.
    - destruct (th_k _); [|apply pcx_ret].
      destruct (negb _); [apply pcx_ret|].
      destruct (Nat.eqb u v); [apply pcx_ret|].
      destruct (Nat.eqb j c); [apply pcq_pcx; eapply pcq_trans; [|apply pcq_yield]; pcauto|].
      destruct (negb _); [apply pcx_ret|].
      destruct (negb _); [apply pcx_ret|].
      destruct (do_migrate s v j u) as [[s1 [|]]|] eqn:M; [| |apply pcq_pcx, pcq_refl];
        (eapply pcx_trans; [apply pcq_pcx; eapply pcq_migrate; eauto|apply pcx_ret]).
  Qed.

  Definition is_fini_op (o : op) : Prop := o = OFini.
  Lemma selfpc_exec_op : forall s v c o, c < s_nv s ->
    selfpc (o = OFini -> fini_ret s v c (exec_op progs s v c o)) c s (exec_op progs s v c o).
  Proof.
    intros s v c o Hc. unfold exec_op. destruct o as [d| |j e|j jn ws|j| | |j|j u| |].
    - destruct (th_k _) as [|[|k]].
      + apply selfpc_q; auto. destruct (expired _ _); [eapply pcq_trans; [|apply pcq_yield]; pcauto|].
        destruct (lock_free _); [|apply pcq_refl]. eapply pcq_trans; [|apply pcq_sleep]. pcauto.
      + pose proof (pcq_sen s c) as X. destruct (set_error_number s c) as [[s1 r] e]. cbn in X.
        apply selfpc_ret; auto. discriminate.
      + destruct (Z.eqb _ 0); apply selfpc_ret; auto using pcq_refl; discriminate.
    - destruct (th_k _); [|apply selfpc_ret; auto using pcq_refl; discriminate].
      apply selfpc_q; auto. eapply pcq_trans; [|apply pcq_yield]. pcauto.
    - destruct (alive _ _ _); [|apply selfpc_ret; auto using pcq_refl; discriminate].
      destruct (do_interrupt s v j e) as [s1|] eqn:D; [|apply selfpc_q; auto using pcq_refl].
      apply selfpc_ret; auto; [eapply pcq_interrupt; eauto|discriminate].
    - destruct (_ && _) eqn:C; [|apply selfpc_ret; auto using pcq_refl; discriminate].
      apply andb_true_iff in C. destruct C as [C _]. apply andb_true_iff in C. destruct C as [C _]. apply Nat.leb_le in C.
      apply selfpc_ret; auto; [apply pcq_create; exact C|discriminate].
    - destruct (th_k _) as [|[|k]].
      + destruct (_ && _); [|apply selfpc_ret; auto using pcq_refl; discriminate]. apply selfpc_q; auto. pcauto.
      + destruct (selfpc_join_check s v c j Hc) as [A|[A _]]; [left; auto|right; split; auto; discriminate].
      + pose proof (pcq_sen s c) as X. destruct (set_error_number s c) as [[s1 r] e]. cbn in X. apply selfpc_q; auto. pcstep. exact X.
    - apply selfpc_ret; auto using pcq_refl; discriminate.
    - apply selfpc_ret; auto using pcq_refl; discriminate.
    - destruct (_ && _); apply selfpc_ret; auto using pcq_refl; discriminate.
    - destruct (th_k _); [|apply selfpc_ret; auto using pcq_refl; discriminate].
      destruct (negb _); [apply selfpc_ret; auto using pcq_refl; discriminate|].
      destruct (Nat.eqb u v); [apply selfpc_ret; auto using pcq_refl; discriminate|].
      destruct (Nat.eqb j c); [apply selfpc_q; auto; eapply pcq_trans; [|apply pcq_yield]; pcauto|].
      destruct (negb _); [apply selfpc_ret; auto using pcq_refl; discriminate|].
      destruct (negb _); [apply selfpc_ret; auto using pcq_refl; discriminate|].
      destruct (do_migrate s v j u) as [[s1 [|]]|] eqn:M; [| |apply selfpc_q; auto using pcq_refl];
        (apply selfpc_ret; auto; [eapply pcq_migrate; eauto|discriminate]).
    - destruct (selfpc_wait_all_op s v c false Hc) as [A|[A _]]; [left; auto|right; split; auto; discriminate].
    - destruct (selfpc_wait_all_op s v c true Hc) as [A|[A B]]; [left; auto|right; split; auto].
  Qed.
End WALK.

Lemma pcq_drain_list : forall l s v, pcq s (drain_list s v l).
Proof.
  induction l; cbn; intros; [apply pcq_refl|]. eapply pcq_trans; [|apply IHl].
  unfold drain_one. destruct (negb _); pcauto.
Qed.
Lemma pcq_resume : forall s v, pcq s (do_resume s v).
Proof.
  intros. unfold do_resume. destruct (v_sleepq _) as [|t rest]; [apply pcq_refl|]. cbv zeta.
  destruct (Z.ltb _ _); [apply pcq_refl|]. destruct (negb _); [apply pcq_refl|].
  destruct (tstate_eqb _ _); pcauto. apply pcq_dequeue.
Qed.
Lemma pcq_steal : forall s v u t, pcq s (do_steal s v u t).
Proof.
  intros. unfold do_steal. cbv zeta. destruct (negb _); [apply pcq_refl|].
  destruct (mem_tid _ _); [pcauto|]. destruct (_ && _); pcauto.
Qed.

(* ---- frame 2: the record of the watched vCPU v ------------------------------------------------------ *)
Section VC.
  Variable v : nat.
  Definition vcq (s s' : state) : Prop := s_vc s' v = s_vc s v.
  Lemma vcq_refl : forall s, vcq s s. Proof. reflexivity. Qed.
  Lemma vcq_trans : forall a b c, vcq a b -> vcq b c -> vcq a c. Proof. unfold vcq. intros. congruence. Qed.
  Lemma vcq_modth : forall s t f, vcq s (modth s t f). Proof. reflexivity. Qed.
  Lemma vcq_modvc : forall s u g, u <> v -> vcq s (modvc s u g).
  Proof. intros s u g N. unfold vcq. rewrite vc_modvc. destruct (Nat.eqb v u) eqn:E; auto. apply Nat.eqb_eq in E. congruence. Qed.
  Lemma vcq_same : forall s s', s_vc s' = s_vc s -> vcq s s'. Proof. unfold vcq. intros s s' ->. reflexivity. Qed.

  Lemma vcq_tie : forall X b, vcq X (set_s_tie X b). Proof. reflexivity. Qed.
  Lemma vcq_stuck : forall X, vcq X (stuck X). Proof. reflexivity. Qed.
  Lemma vcq_setk : forall X c k, vcq X (setk X c k). Proof. reflexivity. Qed.
  Lemma vcq_ret : forall X c r e, vcq X (ret X c r e). Proof. reflexivity. Qed.
  Lemma vcq_switch_in : forall X n, vcq X (switch_in X n). Proof. reflexivity. Qed.
  Ltac vcstep :=
    match goal with
    | |- vcq ?s ?s => apply vcq_refl
    | |- vcq ?s (modvc ?X _ _) => apply (vcq_trans s X); [|apply vcq_modvc; auto]
    | |- vcq ?s (modth ?X _ _) => apply (vcq_trans s X); [|apply vcq_modth]
    | |- vcq ?s (set_s_tie ?X _) => apply (vcq_trans s X); [|apply vcq_tie]
    | |- vcq ?s (stuck ?X) => apply (vcq_trans s X); [|apply vcq_stuck]
    | |- vcq ?s (setk ?X _ _) => apply (vcq_trans s X); [|apply vcq_setk]
    | |- vcq ?s (ret ?X _ _ _) => apply (vcq_trans s X); [|apply vcq_ret]
    | |- vcq ?s (switch_in ?X _) => apply (vcq_trans s X); [|apply vcq_switch_in]
    end.
  Ltac vcauto := repeat vcstep; auto.

  Lemma vcq_yield : forall s w ce d, w <> v -> vcq s (do_yield s w ce d).
  Proof. intros. unfold do_yield. destruct (v_runq _) as [|c [|n rest]]; vcauto. Qed.
  Lemma vcq_sleep : forall s w exp wq d, w <> v -> vcq s (do_sleep s w exp wq d).
  Proof.
    intros. unfold do_sleep. destruct (v_runq _) as [|c [|n rest]]; try (vcauto; fail). cbv zeta.
    match goal with |- vcq _ (if ?b then _ else _) => destruct b end; destruct wq; vcauto.
  Qed.
  Lemma vcq_dequeue : forall s t, vcq s (dequeue s t).
  Proof. intros. unfold dequeue. destruct (th_waitq _); vcauto. Qed.
  Lemma vcq_wake : forall s w t e, w <> v -> th_vcpu (s_th s t) <> v -> vcq s (wake s w t e).
  Proof.
    intros s w t e Nw Nt. unfold wake. cbv zeta.
    set (s1 := dequeue (modth s t (fun th => set_th_err th e)) t).
    assert (A : vcq s s1). { unfold s1. eapply vcq_trans; [|apply vcq_dequeue]. apply vcq_modth. }
    assert (U : th_vcpu (getth s1 t) = th_vcpu (s_th s t)).
    { unfold s1, getth. destruct (dequeue_self (modth s t (fun th => set_th_err th e)) t) as (_ & _ & ->).
      rewrite th_modth, Nat.eqb_refl. reflexivity. }
    rewrite U. destruct (Nat.eqb _ w); vcauto.
  Qed.
  Lemma no_sleeper : forall s t, Inv1 s -> v_sleepq (s_vc s v) = [] -> th_state (s_th s t) = SLEEPING -> th_vcpu (s_th s t) <> v.
  Proof.
    intros s t I Q S E. generalize (i_placed _ I t v). unfold placed, live, place_ok. rewrite S, E, Nat.eqb_refl, Q. cbn.
    rewrite cnt_nil. destruct (th_insleep _); intuition discriminate.
  Qed.
  Lemma vcq_interrupt : forall s w t e s', Inv1 s -> v_sleepq (s_vc s v) = [] -> w <> v ->
    do_interrupt s w t e = Some s' -> vcq s s'.
  Proof.
    intros s w t e s' I Q Nw. unfold do_interrupt. destruct (th_state _) eqn:St; intro H; try (inversion H; subst; apply vcq_refl).
    - destruct (Z.eqb _ 0); inversion H; subst; vcauto.
    - destruct (lock_free _); inversion H; subst. apply vcq_wake; auto. apply no_sleeper; auto.
  Qed.
  Lemma vcq_create : forall s w k jn ws, w <> v -> vcq s (do_create s w k jn ws).
  Proof. intros. unfold do_create. cbv zeta. vcstep. unfold vcq. reflexivity. Qed.
  Lemma vcq_die : forall s w r s', Inv1 s -> v_sleepq (s_vc s v) = [] -> w <> v -> do_die s w r = Some s' -> vcq s s'.
  Proof.
    intros s w r s' I Q Nw. unfold do_die. destruct (v_runq _) as [|c [|n rest]]; try (intro H; inversion H; subst; vcauto; fail).
    cbv zeta. match goal with |- (if negb ?b then _ else _) = _ -> _ => destruct b end; cbn [negb]; [|discriminate].
    intro H. inversion H; subst s'; clear H. vcstep. vcstep. vcstep.
    destruct (th_joiners _) as [|j js] eqn:J; [apply vcq_refl|]. apply vcq_wake; auto. apply no_sleeper; auto.
    destruct (i_waits _ I j c) as [A B]. unfold getth in J. rewrite J in A. rewrite cnt_cons, Nat.eqb_refl in A.
    apply B. intro W. rewrite W in A. cbn in A. lia.
  Qed.
  Lemma vcq_migrate : forall s w t u s' b, w <> v -> u <> v -> do_migrate s w t u = Some (s', b) -> vcq s s'.
  Proof.
    intros s w t u s' b Nw Nu. unfold do_migrate. destruct (negb _); [discriminate|].
    match goal with |- (if ?c then _ else _) = _ -> _ => destruct c end; intro H; inversion H; subst; vcauto.
  Qed.
  Lemma vcq_exec_pend : forall s w, w <> v ->
    (forall f t u, v_pend (s_vc s w) = PSwitch f (DMigrate t u) -> u <> v) -> vcq s (exec_pend s w).
  Proof.
    intros s w Nw Hm. unfold exec_pend, getvc. destruct (v_pend (s_vc s w)) as [|f d|f] eqn:P; try apply vcq_refl.
    - destruct d as [|t|t u]; try (vcauto; fail).
      destruct (do_migrate _ w t u) as [[s1 b]|] eqn:M; [|apply vcq_refl].
      eapply vcq_trans; [|eapply (vcq_migrate _ w t u); eauto]. vcauto.
    - destruct (th_joinable _); vcauto.
  Qed.
  Lemma vcq_sen : forall s c, vcq s (fst (fst (set_error_number s c))).
  Proof. intros. unfold set_error_number. destruct (Z.eqb _ 0); cbn; vcauto. Qed.
  Lemma vcq_join_check : forall s w c j, w <> v -> vcq s (join_check s w c j).
  Proof.
    intros. unfold join_check.
    destruct (tstate_eqb _ NOTCREATED); [vcauto|].
    destruct (negb (th_joinable _)); [vcauto|].
    destruct (negb _); [apply vcq_refl|].
    destruct (tstate_eqb _ DONE); [vcauto|].
    destruct (negb _); [apply vcq_refl|]. eapply vcq_trans; [|apply vcq_sleep; auto]. vcauto.
  Qed.

  Section WALK2.
    Variable progs : tid -> list op.
    Lemma vcq_wait_all_op : forall s w c f, w <> v -> vcq s (wait_all_op progs s w c f).
    Proof.
      intros s w c f Nw. unfold wait_all_op. destruct (Nat.eqb c w); [|destruct f; vcauto].
      assert (W : vcq s (wait_check progs s w c f)).
      { unfold wait_check. destruct (wait_cond s w); [|vcauto]. destruct (v_sleepq _).
        - eapply vcq_trans; [|apply vcq_yield; auto]. vcauto.
        - cbv zeta. destruct (expired _ _); [eapply vcq_trans; [|apply vcq_yield; auto]; vcauto|].
          destruct (lock_free _); [|apply vcq_refl]. eapply vcq_trans; [|apply vcq_sleep; auto]. vcauto. }
      destruct (th_k _) as [|[|[|k]]]; auto.
      - pose proof (vcq_sen s c) as X. destruct (set_error_number s c) as [[s1 r] e]. cbn in X. vcstep. exact X.
      - vcauto.
    Qed.
    Lemma vcq_exec_op : forall s w c o, Inv1 s -> v_sleepq (s_vc s v) = [] -> offline progs s v = true -> w <> v ->
      vcq s (exec_op progs s w c o).
    Proof.
      intros s w c o I Q Off Nw. unfold exec_op. destruct o as [d| |j e|j jn ws|j| | |j|j u| |]; try (apply vcq_wait_all_op; auto).
      - destruct (th_k _) as [|[|k]].
        + destruct (expired _ _); [eapply vcq_trans; [|apply vcq_yield; auto]; vcauto|].
          destruct (lock_free _); [|apply vcq_refl]. eapply vcq_trans; [|apply vcq_sleep; auto]. vcauto.
        + pose proof (vcq_sen s c) as X. destruct (set_error_number s c) as [[s1 r] e]. cbn in X. vcstep. exact X.
        + destruct (Z.eqb _ 0); vcauto.
      - destruct (th_k _); [|vcauto]. eapply vcq_trans; [|apply vcq_yield; auto]. vcauto.
      - destruct (alive _ _ _); [|vcauto].
        destruct (do_interrupt s w j e) as [s1|] eqn:D; [|apply vcq_refl]. vcstep. eapply vcq_interrupt; eauto.
      - destruct (_ && _); [|vcauto]. vcstep. apply vcq_create; auto.
      - destruct (th_k _) as [|[|k]].
        + destruct (_ && _); vcauto.
        + apply vcq_join_check; auto.
        + pose proof (vcq_sen s c) as X. destruct (set_error_number s c) as [[s1 r] e]. cbn in X. vcstep. exact X.
      - vcauto.
      - vcauto.
      - destruct (_ && _); vcauto.
      - destruct (th_k _); [|vcauto].
        destruct (negb _) eqn:G; [vcauto|].
        apply negb_false_iff in G. apply andb_true_iff in G. destruct G as [_ G]. apply negb_true_iff in G.
        assert (Nu : u <> v) by (intro; subst; congruence).
        destruct (Nat.eqb u w); [vcauto|].
        destruct (Nat.eqb j c); [eapply vcq_trans; [|apply vcq_yield; auto]; vcauto|].
        destruct (negb _); [vcauto|].
        destruct (negb _); [vcauto|].
        destruct (do_migrate s w j u) as [[s1 [|]]|] eqn:M; [| |apply vcq_refl]; (vcstep; eapply (vcq_migrate s w j u); eauto).
    Qed.
    Lemma vcq_step_vcpu : forall s w, Inv1 s -> v_sleepq (s_vc s v) = [] -> offline progs s v = true -> w <> v ->
      pend_to_offline progs s w = false -> vcq s (step_vcpu progs s w).
    Proof.
      intros s w I Q Off Nw Po. unfold step_vcpu. cbv zeta.
      destruct (negb _).
      { apply vcq_exec_pend; auto. intros f t u E. unfold pend_to_offline, getvc in Po. rewrite E in Po. intro; subst; congruence. }
      destruct (v_runq _) as [|c rest]; [vcauto|].
      destruct (th_state _); try (vcauto; fail).
      destruct (th_kind _).
      - destruct (nth_error _ _); [apply vcq_exec_op; auto|].
        destruct (th_k _).
        + destruct (lock_free _); [|apply vcq_refl]. eapply vcq_trans; [|apply vcq_sleep; auto]. vcauto.
        + pose proof (vcq_sen s c) as X. destruct (set_error_number s c) as [[s1 r] e]. cbn in X. vcstep. exact X.
      - destruct rest; [apply vcq_refl|apply vcq_yield; auto].
      - destruct (nth_error _ _); [apply vcq_exec_op; auto|].
        destruct (do_die s w _) as [s1|] eqn:D; [|apply vcq_refl]. eapply vcq_die; eauto.
    Qed.
  End WALK2.
  Lemma vcq_drain_list : forall l s w, w <> v -> vcq s (drain_list s w l).
  Proof.
    induction l; cbn; intros; [apply vcq_refl|]. eapply vcq_trans; [|apply IHl; auto].
    unfold drain_one. destruct (negb _); vcauto.
  Qed.
  Lemma vcq_resume : forall s w, w <> v -> vcq s (do_resume s w).
  Proof.
    intros. unfold do_resume. destruct (v_sleepq _) as [|t rest]; [apply vcq_refl|]. cbv zeta.
    destruct (Z.ltb _ _); [apply vcq_refl|]. destruct (negb _); [apply vcq_refl|].
    destruct (tstate_eqb _ _); vcauto. apply vcq_dequeue.
  Qed.
  Lemma vcq_steal : forall s w u t, w <> v -> u <> v -> vcq s (do_steal s w u t).
  Proof.
    intros. unfold do_steal. cbv zeta. destruct (negb _); [apply vcq_refl|].
    destruct (mem_tid _ _); [vcauto|]. destruct (_ && _); vcauto.
  Qed.
End VC.

(* ---- the invariant ------------------------------------------------------------------------------------ *)
Section MAIN.
  Variable progs : tid -> list op.

  (* what vcpu_fini leaves behind: nothing but the (now destroyed) main thread and idler — no sleeper, no thread in
     the standby queue, no pending switch, at most two ring members with the main thread v at the head *)
  Definition clean (s : state) (v : nat) : Prop :=
    v_sleepq (s_vc s v) = [] /\ v_standby (s_vc s v) = [] /\ v_pend (s_vc s v) = PNone /\
    length (v_runq (s_vc s v)) <= 2 /\ hd_error (v_runq (s_vc s v)) = Some v.
  Definition FiniOK (s : state) : Prop := forall v, offline progs s v = true -> clean s v.

  Lemma clean_vcq : forall s s' v, vcq v s s' -> clean s v -> clean s' v.
  Proof. unfold vcq, clean. intros s s' v ->. auto. Qed.
  Lemma offline_pcq : forall s s' v, pcq s s' -> offline progs s' v = offline progs s v.
  Proof.
    intros s s' v [A B]. unfold offline, getth. rewrite A. destruct (Nat.ltb v (s_nv s)) eqn:E; [|reflexivity].
    apply Nat.ltb_lt in E. rewrite (B v E). reflexivity.
  Qed.
  Lemma offline_pcx : forall c s s' v, pcx c s s' -> v <> c -> offline progs s' v = offline progs s v.
  Proof.
    intros c s s' v [A B] N. unfold offline, getth. rewrite A. destruct (Nat.ltb v (s_nv s)) eqn:E; [|reflexivity].
    apply Nat.ltb_lt in E. rewrite (B v E N). reflexivity.
  Qed.
  Lemma existsb_firstn_S : forall (f : op -> bool) l n o, nth_error l n = Some o ->
    existsb f (firstn (S n) l) = existsb f (firstn n l) || f o.
  Proof.
    intros f l. induction l as [|a l IH]; intros n o H; destruct n; cbn in *; try discriminate.
    - inversion H; subst. now rewrite orb_false_r.
    - rewrite (IH n o H). now rewrite orb_assoc.
  Qed.
  Lemma wait_cond_false : forall s v, wait_cond s v = false ->
    v_sleepq (s_vc s v) = [] /\ v_standby (s_vc s v) = [] /\ length (v_runq (s_vc s v)) <= 2.
  Proof.
    intros s v. unfold wait_cond, getvc. intro H.
    apply orb_false_iff in H. destruct H as [H H3]. apply orb_false_iff in H. destruct H as [H1 H2].
    apply negb_false_iff in H1, H2, H3. apply Nat.leb_le in H1.
    destruct (v_sleepq _); [|discriminate]. destruct (v_standby _); [|discriminate]. auto.
  Qed.

  Lemma fini_exec_op : forall s w c o v rest,
    offline progs s v = false -> offline progs (exec_op progs s w c o) v = true ->
    nth_error (progs c) (th_pc (s_th s c)) = Some o ->
    v_pend (s_vc s w) = PNone -> v_runq (s_vc s w) = c :: rest ->
    clean (exec_op progs s w c o) v.
  Proof.
    intros s w c o v rest Off Off' No Pn Hq.
    destruct (Nat.eq_dec v c) as [->|N].
    2:{ rewrite (offline_pcx c _ _ v (pcx_exec_op progs s w c o) N) in Off'. congruence. }
    pose proof (pcx_exec_op progs s w c o) as [Env _].
    assert (Hc : c < s_nv s).
    { unfold offline in Off'. apply andb_true_iff in Off'. destruct Off' as [L _]. apply Nat.ltb_lt in L. lia. }
    destruct (selfpc_exec_op progs s w c o Hc) as [Same|[Inc Fin]].
    - unfold offline, getth in *. rewrite Env, Same in Off'. congruence.
    - assert (Eo : o = OFini).
      { unfold offline, getth in *. rewrite Env, Inc in Off'. rewrite (existsb_firstn_S _ _ _ _ No) in Off'.
        destruct (Nat.ltb c (s_nv s)); cbn [andb] in *; [|discriminate]. rewrite Off in Off'. cbn in Off'.
        destruct o; try discriminate. reflexivity. }
      destruct (Fin Eo) as (Ecw & Wc & Evc). subst w.
      destruct (wait_cond_false s c Wc) as (A & B & C).
      unfold clean. rewrite Evc. repeat split; auto. rewrite Hq. reflexivity.
  Qed.

  Lemma finiok_step_vcpu : forall s w v, Inv1 s -> offline progs s v = false -> offline progs (step_vcpu progs s w) v = true ->
    clean (step_vcpu progs s w) v.
  Proof.
    intros s w v I Off. unfold step_vcpu, getvc, getth. cbv zeta.
    destruct (no_pending (v_pend (s_vc s w))) eqn:Np; cbn [negb].
    2:{ intro Off'. rewrite (offline_pcq _ _ v (pcq_exec_pend s w)) in Off'. congruence. }
    assert (Pn : v_pend (s_vc s w) = PNone) by (destruct (v_pend (s_vc s w)); try discriminate; reflexivity).
    destruct (v_runq (s_vc s w)) as [|c rest] eqn:Hq.
    { intro Off'. rewrite (offline_pcq s _ v) in Off'; [congruence|]. pcauto. }
    assert (St : forall s0, s0 = stuck s -> offline progs s0 v = true -> clean s0 v).
    { intros s0 -> Off'. rewrite (offline_pcq s _ v) in Off'; [congruence|]. pcauto. }
    destruct (th_state (s_th s c)); try (apply St; reflexivity).
    destruct (th_kind (s_th s c)).
    - destruct (nth_error _ _) as [o|] eqn:No; [intro Off'; eapply fini_exec_op; eauto|].
      destruct (th_k (s_th s c)).
      + destruct (lock_free _); intro Off'; [|congruence].
        rewrite (offline_pcq s _ v) in Off'; [congruence|]. eapply pcq_trans; [|apply pcq_sleep]. pcauto.
      + pose proof (pcq_sen s c) as X. destruct (set_error_number s c) as [[s1 r] e]. cbn in X. intro Off'.
        rewrite (offline_pcq s _ v) in Off'; [congruence|]. pcstep. exact X.
    - destruct rest; intro Off'; [congruence|]. rewrite (offline_pcq _ _ v (pcq_yield s w true DNone)) in Off'. congruence.
    - destruct (nth_error _ _) as [o|] eqn:No; [intro Off'; eapply fini_exec_op; eauto|].
      destruct (do_die s w _) as [s1|] eqn:D; intro Off'; [|congruence].
      rewrite (offline_pcq _ _ v (pcq_die _ _ _ _ D)) in Off'. congruence.
  Qed.

  Lemma finiok_step : forall s l, Inv1 s -> FiniOK s -> FiniOK (step progs s l).
  Proof.
    intros s l I F v. unfold step.
    destruct (s_stuck s); [apply F|]. destruct (frozen progs s l) eqn:Fr; [apply F|].
    destruct (offline progs s v) eqn:Off.
    - (* v is offline already: only other vCPUs act; they do not touch v *)
      intros _. pose proof (F v Off) as C. destruct C as (Q & C').
      assert (C : clean s v) by (split; auto). clear C'.
      destruct l as [w|w|w|w u t|d]; cbn [frozen] in Fr.
      + assert (Nw : w <> v) by (intro; subst; congruence).
        destruct (Nat.ltb _ _); [|exact C]. destruct (pend_to_offline progs s w) eqn:Po.
        * eapply clean_vcq; [apply vcq_stuck|exact C].
        * eapply clean_vcq; [apply vcq_step_vcpu; eauto|exact C].
      + assert (Nw : w <> v) by (intro; subst; congruence).
        destruct (_ && _); [|exact C]. eapply clean_vcq; [apply vcq_drain_list; auto|exact C].
      + assert (Nw : w <> v) by (intro; subst; congruence).
        destruct (_ && _); [|exact C]. eapply clean_vcq; [apply vcq_resume; auto|exact C].
      + apply orb_false_iff in Fr. destruct Fr as [F1 F2].
        assert (Nw : w <> v) by (intro; subst; congruence). assert (Nu : u <> v) by (intro; subst; congruence).
        destruct (_ && _); [|exact C]. eapply clean_vcq; [apply vcq_steal; auto|exact C].
      + destruct (Z.leb _ _); exact C.
    - (* v goes offline in this very step: its main thread returns from the last wait_all test *)
      destruct l as [w|w|w|w u t|d].
      + destruct (Nat.ltb _ _); [|congruence]. destruct (pend_to_offline progs s w).
        * intro Off'. rewrite (offline_pcq s _ v) in Off'; [congruence|]. pcauto.
        * now apply finiok_step_vcpu.
      + destruct (_ && _); [|congruence]. intro Off'. unfold do_drain in Off'.
        rewrite (offline_pcq _ _ v (pcq_drain_list _ s w)) in Off'. congruence.
      + destruct (_ && _); [|congruence]. intro Off'. rewrite (offline_pcq _ _ v (pcq_resume s w)) in Off'. congruence.
      + destruct (_ && _); [|congruence]. intro Off'. rewrite (offline_pcq _ _ v (pcq_steal s w u t)) in Off'. congruence.
      + destruct (Z.leb _ _); [|congruence]. intro Off'. rewrite (offline_pcq s _ v) in Off'; [congruence|].
        apply pcq_same; reflexivity.
  Qed.

  Lemma finiok_run : forall ls s, Inv1 s -> FiniOK s -> FiniOK (run progs s ls).
  Proof.
    induction ls as [|l r IH]; cbn; intros s I F; auto. apply IH; [now apply inv1_step|now apply finiok_step].
  Qed.

  Lemma finiok_init : forall nv n flags t0, FiniOK (init_state nv n flags t0).
  Proof.
    intros nv n flags t0 v. unfold offline, init_state, getth. cbn [s_th s_nv]. unfold init_thread.
    destruct (Nat.ltb v nv); cbn; discriminate.
  Qed.

  (* fini_loses_nothing *)
  Lemma fini_loses_nothing_proof : forall nv n flags t0 s v, nv <= n -> reachable progs nv n flags t0 s ->
    offline progs s v = true ->
    clean s v /\
    (* ... so every thread that is live and belongs to v is one of the (at most two) members of v's run queue:
       the main thread that ran vcpu_fini and the idler it joined *)
    (forall t, live (s_th s t) = true -> th_vcpu (s_th s t) = v -> In t (v_runq (s_vc s v))) /\
    (* ... and no thread is asleep or waiting in a standby queue there *)
    (forall t, th_vcpu (s_th s t) = v -> th_state (s_th s t) <> SLEEPING /\ th_state (s_th s t) <> STANDBY \/ In t (v_runq (s_vc s v))).
  Proof.
    intros nv n flags t0 s v Hn [ls ->] Off.
    pose proof (inv1_run progs ls _ (inv1_init nv n flags t0 Hn)) as I.
    pose proof (finiok_run ls _ (inv1_init nv n flags t0 Hn) (finiok_init nv n flags t0) v Off) as C.
    set (s := run progs (init_state nv n flags t0) ls) in *.
    destruct C as (Q & B & P & L & H).
    assert (K : forall t, live (s_th s t) = true -> th_vcpu (s_th s t) = v -> In t (v_runq (s_vc s v))).
    { intros t Lv Ev. generalize (i_placed _ I t v). unfold placed. rewrite Lv, Ev, Nat.eqb_refl. cbn [andb].
      rewrite Q, B, !cnt_nil. unfold place_ok. intro PO.
      assert (cnt t (v_runq (s_vc s v)) >= 1).
      { destruct (th_state (s_th s t)), (th_insleep (s_th s t)); try tauto; lia. }
      unfold cnt in H0. apply (count_occ_In Nat.eq_dec). lia. }
    split; [repeat split; auto|]. split; [exact K|].
    intros t Ev. destruct (th_state (s_th s t)) eqn:St; try (left; split; discriminate); right; apply K; auto; unfold live; rewrite St; reflexivity.
  Qed.
End MAIN.

(* non-vacuity: the scenario of seeded change C05_2 — vCPU 1 creates thread 2 and migrates it into vCPU 0's standby queue,
   then vCPU 0's main thread runs vcpu_fini: wait_all yields until the idler has drained the standby queue and thread 2
   has run to completion; only then vCPU 0 goes offline, clean. *)
Definition c052_progs (t : tid) : list op :=
  match t with
  | 0 => [OFini]
  | 1 => [OCreate 2 false false; OMigrate 2 0; ONop]
  | 2 => [ONop]
  | _ => []
  end.
Definition c052_flags (v : nat) : bool * bool := (false, false).
Definition c052_pre : list label := [LStep 1; LStep 1].
Definition c052_fini : list label :=
  [LStep 0; LStep 0; LDrain 0; LStep 0; LStep 0; LStep 0; LStep 0; LStep 0; LStep 0; LStep 0; LStep 0; LStep 0; LStep 0; LStep 0; LStep 0].
Example c052_scenario :
  let s1 := run c052_progs (init_state 2 3 c052_flags 1000) c052_pre in
  let s2 := run c052_progs s1 c052_fini in
  v_standby (s_vc s1 0) = [2] /\ th_state (s_th s1 2) = STANDBY /\ th_vcpu (s_th s1 2) = 0 /\ wait_cond s1 0 = true /\
  offline c052_progs s1 0 = false /\
  offline c052_progs s2 0 = true /\ th_state (s_th s2 2) = DONE /\ g_started (s_th s2 2) = 1 /\ g_finished (s_th s2 2) = 1 /\
  s_stuck s2 = false.
Proof. vm_compute. repeat split; reflexivity. Qed.

(* ---- refuted: wait_all WITHOUT the standby-queue test (seeded change C05_2) -------------------------------
   The variant differs from the code in one place: the loop test.  Its transition function `step_ns` is `step` except that
   a `fini` / `waitall` block of a main thread whose loop test differs (standby queue not empty, everything else empty)
   takes the variant's branch: wait_all returns at once. *)
Definition wait_cond_ns (s : state) (v : nat) : bool :=
  let vc := getvc s v in negb (Nat.leb (length (v_runq vc)) 2) || negb (is_nil (v_sleepq vc)).
Definition at_wait_test (progs : tid -> list op) (s : state) (v : nat) : option bool :=
  match v_pend (getvc s v), v_runq (getvc s v) with
  | PNone, c :: _ =>
      if Nat.eqb c v && tstate_eqb (th_state (getth s c)) RUNNING &&
         (Nat.eqb (th_k (getth s c)) 0 || Nat.eqb (th_k (getth s c)) 3) then
        match nth_error (progs c) (th_pc (getth s c)) with
        | Some OFini => Some true | Some OWaitAll => Some false | _ => None
        end
      else None
  | _, _ => None
  end.
Definition step_ns (progs : tid -> list op) (s : state) (l : label) : state :=
  match l with
  | LStep v =>
      if negb (s_stuck s) && negb (frozen progs s l) && Nat.ltb v (s_nv s) && wait_cond s v && negb (wait_cond_ns s v) then
        match at_wait_test progs s v with
        | Some f => ret s v (if f then online_count progs s - 1 else 0)%Z 0     (* the variant's wait_all returns here *)
        | None => step progs s l
        end
      else step progs s l
  | _ => step progs s l
  end.
Fixpoint run_ns (progs : tid -> list op) (s : state) (ls : list label) : state :=
  match ls with [] => s | l :: r => run_ns progs (step_ns progs s l) r end.

Lemma fini_without_standby_test_refuted_proof :
  exists ls t, let s := run_ns c052_progs (init_state 2 3 c052_flags 1000) ls in
    s_stuck s = false /\ offline c052_progs s 0 = true /\
    (* a live thread that never ran belongs to the finalised vCPU and sits in its standby queue: lost *)
    live (s_th s t) = true /\ th_vcpu (s_th s t) = 0 /\ g_started (s_th s t) = 0 /\ v_standby (s_vc s 0) = [t].
Proof. exists (c052_pre ++ [LStep 0]), 2. vm_compute. repeat split; reflexivity. Qed.
