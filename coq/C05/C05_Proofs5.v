(* C05_Proofs5.v — the positive side of finding F23: if work stealing never takes a thread whose context switch is
   still pending on its vCPU (the class guard of the finding), no two vCPUs ever execute on the same stack. *)
From Coq Require Import ZArith List Bool Arith Lia.
From PV Require Import Base.U64 C05.C05_Model C05.C05_Proofs C05.C05_Proofs2 C05.C05_Proofs3 C05.C05_Proofs4.
Import ListNotations.
Local Open Scope nat_scope.

Definition pend_from (p : pending) : option tid :=
  match p with PSwitch f _ => Some f | PDie f => Some f | PNone => None end.

(* the guard: the thief does not take thread t from vCPU u while u still has to finish switching away from t *)
Definition steal_ok (s : state) (l : label) : bool :=
  match l with
  | LSteal v u t => match pend_from (v_pend (s_vc s u)) with Some f => negb (Nat.eqb f t) | None => true end
  | _ => true
  end.
Definition gstep (progs : tid -> list op) (s : state) (l : label) : state := if steal_ok s l then step progs s l else s.
Fixpoint grun (progs : tid -> list op) (s : state) (ls : list label) : state :=
  match ls with [] => s | l :: r => grun progs (gstep progs s l) r end.

(* the thread a vCPU is switching away from exists and: (context switch) still belongs to that vCPU and has not
   finished; (die) has finished *)
Definition pend_okP (s : state) (v : nat) (p : pending) : Prop :=
  match p with
  | PSwitch f _ => created (s_th s f) = true /\ th_vcpu (s_th s f) = v /\ g_finished (s_th s f) = 0
  | PDie f => created (s_th s f) = true /\ g_finished (s_th s f) = 1
  | PNone => True
  end.
Definition PH (s : state) : Prop := forall v, pend_okP s v (v_pend (s_vc s v)).

Lemma pend_okP_rel : forall s s' v p, Nrel s s' -> pend_okP s v p -> pend_okP s' v p.
Proof.
  intros s s' v p (Ht & _) H. destruct p as [|f d|f]; auto; cbn in *; destruct (Ht f) as (_ & _ & c & d0 & e); rewrite e, ?c, d0; auto.
Qed.
Lemma PH_frame : forall s s', Nrel s s' -> PH s -> PH s'.
Proof.
  intros s s' R P v. destruct R as (Ht & Hv & Hc). destruct (Hv v) as [_ Ep]. rewrite Ep.
  apply (pend_okP_rel s); [split; [exact Ht|split; [exact Hv|exact Hc]]|apply P].
Qed.

(* setting the pending action of v *)
Lemma PH_pend : forall s v (g : vcpu -> vcpu) p, PH s -> pend_okP s v p -> (forall x, v_pend (g x) = p) -> PH (modvc s v g).
Proof.
  intros s v g p P Hp Hg v0. rewrite vc_modvc. destruct (Nat.eqb v0 v) eqn:E.
  - apply Nat.eqb_eq in E. subst. rewrite Hg. destruct p; auto.
  - generalize (P v0). destruct (v_pend (s_vc s v0)); auto.
Qed.

Lemma Nrel_yield_pre : forall s v c n rest (ce : bool), Inv1 s -> head_run s v -> v_runq (s_vc s v) = c :: n :: rest ->
  Nrel s (modth (switch_in s n) c (fun th => set_th_state (if ce then set_th_err th 0%Z else th) READY)).
Proof.
  intros s v c n rest ce I1 Hr Hq.
  assert (Cn : created (s_th s n) = true). { apply (head_created s v c (n :: rest) I1 Hq). rewrite !cnt_cons, Nat.eqb_refl. lia. }
  apply (Nrel_trans s (switch_in s n)); [now apply Nrel_switch_in|].
  apply Nrel_modth_st.
  - rewrite (created_rel s _ c (Nrel_switch_in s n Cn)). eapply created_of_state; [apply (Hr c _ Hq)|discriminate].
  - intro th. destruct ce; cbn; repeat split; auto.
Qed.

Lemma head_facts : forall s v c rest, Inv1 s -> head_run s v -> v_runq (s_vc s v) = c :: rest ->
  created (s_th s c) = true /\ th_vcpu (s_th s c) = v.
Proof.
  intros s v c rest I1 Hr Hq.
  assert (Hc : cnt c (v_runq (s_vc s v)) >= 1) by (rewrite Hq; apply cnt_head).
  destruct (in_runq_facts s c v (i_placed _ I1 c v) Hc) as (_ & Ev & _). split; auto.
  eapply created_of_state; [apply (Hr c _ Hq)|discriminate].
Qed.

Lemma run_fin0 : forall s c, Inv2 s -> th_state (s_th s c) = RUNNING -> g_finished (s_th s c) = 0.
Proof. intros s c I2 E. destruct (I2 c) as (a & _). rewrite a, E. reflexivity. Qed.

Lemma PH_yield : forall s v ce d, Inv1 s -> Inv2 s -> PH s -> head_run s v -> PH (do_yield s v ce d).
Proof.
  intros s v ce d I1 I2 P Hr. unfold do_yield, getvc.
  destruct (v_runq (s_vc s v)) as [|c [|n rest]] eqn:Hq; try (apply (PH_frame s); [apply Nrel_same; reflexivity|auto]).
  pose proof (Nrel_yield_pre s v c n rest ce I1 Hr Hq) as R.
  destruct (head_facts s v c _ I1 Hr Hq) as [Cc Vc].
  eapply (PH_pend _ v _ (PSwitch c d)); [apply (PH_frame s); eauto| |reflexivity].
  apply (pend_okP_rel s); auto. cbn. repeat split; auto. apply run_fin0; auto. apply (Hr c _ Hq).
Qed.

Lemma PH_sleep : forall s v exp wq d, Inv1 s -> Inv2 s -> PH s -> head_run s v -> PH (do_sleep s v exp wq d).
Proof.
  intros s v exp wq d I1 I2 P Hr. unfold do_sleep, getvc.
  destruct (v_runq (s_vc s v)) as [|c [|n rest]] eqn:Hq; try (apply (PH_frame s); [apply Nrel_same; reflexivity|auto]).
  assert (Cn : created (s_th s n) = true). { apply (head_created s v c (n :: rest) I1 Hq). rewrite !cnt_cons, Nat.eqb_refl. lia. }
  destruct (head_facts s v c _ I1 Hr Hq) as [Cc Vc].
  set (s2 := modth (switch_in s n) c _).
  assert (R2 : Nrel s s2).
  { unfold s2. apply (Nrel_trans s (switch_in s n)); [now apply Nrel_switch_in|].
    apply Nrel_modth_st.
    - rewrite (created_rel s _ c (Nrel_switch_in s n Cn)). exact Cc.
    - intro th. cbn. repeat split; auto. }
  set (s3 := match wq with Some x => modth s2 x _ | None => s2 end).
  assert (R3 : Nrel s s3). { unfold s3. destruct wq; auto. apply (Nrel_trans s s2); auto. apply Nrel_modth. nsame. }
  match goal with |- PH (if ?b then set_s_tie ?X true else ?X) =>
    assert (IX : PH X); [| destruct b; auto; try (apply (PH_frame X); [apply Nrel_same; reflexivity|auto])] end.
  eapply (PH_pend _ v _ (PSwitch c d)); [apply (PH_frame s); eauto| |reflexivity].
  apply (pend_okP_rel s); auto. cbn. repeat split; auto. apply run_fin0; auto. apply (Hr c _ Hq).
Qed.

(* no other vCPU is switching away from the CURRENT thread of v *)
Lemma no_pend_on_head : forall s v c rest, Inv1 s -> Inv2 s -> PH s -> head_run s v -> v_runq (s_vc s v) = c :: rest ->
  v_pend (s_vc s v) = PNone -> forall v0, pend_from (v_pend (s_vc s v0)) <> Some c.
Proof.
  intros s v c rest I1 I2 P Hr Hq Pn v0 E.
  destruct (head_facts s v c _ I1 Hr Hq) as [Cc Vc].
  generalize (P v0). destruct (v_pend (s_vc s v0)) as [|f d|f] eqn:Pv; cbn in E; try discriminate; inversion E; subst f; cbn.
  - intros (_ & a & _). assert (v0 = v) by congruence. subst. congruence.
  - intros (_ & a). rewrite (run_fin0 s c I2 (Hr c _ Hq)) in a. discriminate.
Qed.

Lemma PH_die : forall s v rv s', Inv1 s -> Inv2 s -> PH s -> head_run s v -> v_pend (s_vc s v) = PNone ->
  do_die s v rv = Some s' -> PH s'.
Proof.
  intros s v rv s' I1 I2 P Hr Pn. unfold do_die, getvc, getth.
  destruct (v_runq (s_vc s v)) as [|c [|n rest]] eqn:Hq;
    try (intro H; inversion H; subst; apply (PH_frame s); [apply Nrel_same; reflexivity|auto]).
  cbv zeta. match goal with |- (if negb ?b then _ else _) = _ -> _ => destruct b end; cbn [negb]; [|discriminate].
  intro H. inversion H; subst s'; clear H.
  assert (Cn : created (s_th s n) = true). { apply (head_created s v c (n :: rest) I1 Hq). rewrite !cnt_cons, Nat.eqb_refl. lia. }
  destruct (head_facts s v c _ I1 Hr Hq) as [Cc Vc].
  pose proof (no_pend_on_head s v c _ I1 I2 P Hr Hq Pn) as Np.
  set (s1 := match th_joiners (s_th s c) with j :: _ => wake s v j (-1) | [] => s end).
  assert (R1 : Nrel s s1).
  { unfold s1. destruct (th_joiners (s_th s c)) as [|j js] eqn:Ej; [apply Nrel_refl|].
    apply Nrel_wake. destruct (i_waits _ I1 j c) as [A B]. rewrite Ej, cnt_cons, Nat.eqb_refl in A.
    apply B. destruct (th_waitq (s_th s j)); [discriminate|]. cbn in A. lia. }
  set (s2 := switch_in s1 n).
  assert (R2 : Nrel s s2).
  { apply (Nrel_trans s s1); auto. apply Nrel_switch_in. rewrite (created_rel s s1 n R1). exact Cn. }
  clearbody s2. clear s1 R1.
  pose proof (PH_frame s s2 R2 P) as P2. destruct R2 as (Rt & Rv & _).
  destruct (Rt c) as (_ & _ & a & a4 & b).
  assert (Fin : g_finished (s_th s2 c) = 0). { rewrite a4. apply run_fin0; auto. apply (Hr c _ Hq). }
  match goal with |- PH (modvc (modth s2 c ?f) v ?g) => assert (P3 : PH (modth s2 c f)) end.
  { intro v0. rewrite vc_modth. generalize (P2 v0). destruct (Rv v0) as [_ Ep].
    destruct (v_pend (s_vc s2 v0)) as [|f0 d0|f0] eqn:Pv; auto; unfold pend_okP; rewrite th_modth;
      (destruct (Nat.eqb f0 c) eqn:E0; [apply Nat.eqb_eq in E0; subst f0; exfalso; apply (Np v0); rewrite <- Ep; reflexivity|auto]). }
  eapply (PH_pend _ v _ (PDie c)); [exact P3| |reflexivity].
  unfold pend_okP. rewrite th_modth, Nat.eqb_refl. unfold created. cbn. rewrite Fin. auto.
Qed.

Lemma PH_create : forall s v k jn ws, PH s -> th_state (s_th s k) = NOTCREATED -> PH (do_create s v k jn ws).
Proof.
  intros s v k jn ws P En. unfold do_create, getth. intro v0.
  assert (Nk : forall f, created (s_th s f) = true -> f <> k).
  { intros f C E. subst. unfold created in C. rewrite En in C. discriminate. }
  rewrite vc_modvc.
  assert (X : pend_okP (modvc (set_s_th s (updp (s_th s) k
              (mkT READY v KUser 0 0 false None (th_joiners (s_th s k)) jn ws LFree 0 0 0 false true 0 0 0 0 0))) v
              (fun x => set_v_nthreads (set_v_runq x (v_runq x ++ [k])) (v_nthreads x + 1))) v0 (v_pend (s_vc s v0))).
  { generalize (P v0). destruct (v_pend (s_vc s v0)) as [|f d|f]; auto; cbn; intros H;
      (assert (f <> k) by (apply Nk; tauto)); rewrite updp_neq by auto; auto. }
  destruct (Nat.eqb v0 v) eqn:E; auto. apply Nat.eqb_eq in E. subst. exact X.
Qed.

Lemma PH_migrate : forall s v t u s' b, Inv2 s -> PH s -> pend_from (v_pend (s_vc s v)) <> Some t ->
  do_migrate s v t u = Some (s', b) -> PH s'.
Proof.
  intros s v t u s' b I2 P Np. unfold do_migrate, getth, getvc.
  destruct (negb _); [discriminate|].
  match goal with |- (if ?c then _ else _) = _ -> _ => destruct c eqn:C end; intro H; inversion H; subst; auto.
  repeat (apply andb_true_iff in C; destruct C as [C ?]).
  assert (Es : th_state (s_th s t) = READY) by (destruct (th_state (s_th s t)); try discriminate; reflexivity).
  assert (Ev : th_vcpu (s_th s t) = v) by (match goal with H : Nat.eqb (th_vcpu _) v = true |- _ => now apply Nat.eqb_eq in H end).
  assert (Fin : g_finished (s_th s t) = 0). { destruct (I2 t) as (a & _). rewrite a, Es. reflexivity. }
  assert (No : forall v0, pend_from (v_pend (s_vc s v0)) <> Some t).
  { intros v0 E. generalize (P v0). destruct (v_pend (s_vc s v0)) as [|f d|f] eqn:Pv; cbn in E; try discriminate; inversion E; subst f; cbn.
    - intros (_ & a & _). assert (v0 = v) by congruence. subst. apply Np. rewrite Pv. reflexivity.
    - intros (_ & a). lia. }
  intro v0.
  assert (Ep : v_pend (s_vc (modvc (modvc (modth s t (fun x => set_th_vcpu (set_th_state x STANDBY) u)) v
                 (fun x => set_v_nthreads (set_v_runq x (remove_tid t (v_runq x))) (v_nthreads x - 1))) u
                 (fun x => set_v_nthreads (set_v_standby x (v_standby x ++ [t])) (v_nthreads x + 1))) v0) = v_pend (s_vc s v0)).
  { rewrite !vc_modvc, vc_modth. destruct (Nat.eqb v0 u) eqn:X1; [apply Nat.eqb_eq in X1; subst v0|].
    - destruct (Nat.eqb u v) eqn:X2; [apply Nat.eqb_eq in X2; subst|]; reflexivity.
    - destruct (Nat.eqb v0 v) eqn:X2; [apply Nat.eqb_eq in X2; subst|]; reflexivity. }
  rewrite Ep. generalize (P v0) (No v0). destruct (v_pend (s_vc s v0)) as [|f d|f]; auto; unfold pend_okP, pend_from; intros HH NN;
    rewrite !th_modvc, th_modth; (destruct (Nat.eqb f t) eqn:Eft; [apply Nat.eqb_eq in Eft; subst; congruence|auto]).
Qed.

Lemma PH_steal : forall s v u t, Inv1 s -> Inv2 s -> PH s -> steal_ok s (LSteal v u t) = true -> PH (do_steal s v u t).
Proof.
  intros s v u t I1 I2 P G. unfold do_steal, getth, getvc.
  destruct (negb _) eqn:Gd; auto.
  assert (Main : forall s0, s_th s0 = s_th s -> (forall y, v_pend (s_vc s0 y) = v_pend (s_vc s y)) ->
            live (s_th s t) = true -> th_vcpu (s_th s t) = u ->
            PH (modvc (modvc (modth s0 t (fun x => set_th_vcpu x v)) u (fun x => set_v_nthreads x (v_nthreads x - 1)))
                        v (fun x => set_v_nthreads (set_v_runq x (v_runq x ++ [t])) (v_nthreads x + 1)))).
  { intros s0 Et Ep L Eu. destruct (live_facts s t I2 L) as [Cr Fin].
    assert (No : forall v0, pend_from (v_pend (s_vc s v0)) <> Some t).
    { intros v0 E. generalize (P v0). destruct (v_pend (s_vc s v0)) as [|f d|f] eqn:Pv; cbn in E; try discriminate; inversion E; subst f; cbn.
      - intros (_ & a & _). assert (v0 = u) by congruence. subst. cbn in G. rewrite Pv in G. cbn in G. rewrite Nat.eqb_refl in G. discriminate.
      - intros (_ & a). lia. }
    intro v0.
    assert (Epp : v_pend (s_vc (modvc (modvc (modth s0 t (fun x => set_th_vcpu x v)) u (fun x => set_v_nthreads x (v_nthreads x - 1)))
                        v (fun x => set_v_nthreads (set_v_runq x (v_runq x ++ [t])) (v_nthreads x + 1))) v0) = v_pend (s_vc s v0)).
    { rewrite !vc_modvc, vc_modth. destruct (Nat.eqb v0 v) eqn:X1; [apply Nat.eqb_eq in X1; subst v0|].
      - destruct (Nat.eqb v u) eqn:X2; [apply Nat.eqb_eq in X2; subst|]; cbn; apply Ep.
      - destruct (Nat.eqb v0 u) eqn:X2; [apply Nat.eqb_eq in X2; subst|]; cbn; apply Ep. }
    rewrite Epp. generalize (P v0) (No v0). destruct (v_pend (s_vc s v0)) as [|f d|f]; auto; unfold pend_okP, pend_from; intros HH NN;
      rewrite !th_modvc, th_modth, Et; (destruct (Nat.eqb f t) eqn:Eft; [apply Nat.eqb_eq in Eft; subst; congruence|auto]). }
  destruct (mem_tid t (v_standby (s_vc s u))) eqn:M1.
  - apply mem_cnt in M1. destruct (in_standby_facts s t u (i_placed _ I1 t u) M1) as (l1 & l2 & _).
    apply Main; auto. intro y. rewrite vc_modvc. destruct (Nat.eqb y u) eqn:E; [apply Nat.eqb_eq in E; subst y|]; reflexivity.
  - destruct (mem_tid t (v_runq (s_vc s u)) && negb (tstate_eqb (th_state (s_th s t)) RUNNING)) eqn:M2; auto.
    apply andb_true_iff in M2. destruct M2 as [M2 M3]. apply mem_cnt in M2.
    destruct (in_runq_facts s t u (i_placed _ I1 t u) M2) as (l1 & l2 & _).
    apply Main; auto. intro y. rewrite vc_modvc. destruct (Nat.eqb y u) eqn:E; [apply Nat.eqb_eq in E; subst y|]; reflexivity.
Qed.

Lemma PH_clear : forall s v, PH s -> PH (modvc s v (fun x => set_v_pend x PNone)).
Proof. intros. eapply (PH_pend s v _ PNone); auto. exact Logic.I. Qed.

Lemma PH_exec_pend : forall s v, Inv2 s -> PH s -> PH (exec_pend s v).
Proof.
  intros s v I2 P. unfold exec_pend, getvc, getth.
  destruct (v_pend (s_vc s v)) as [|from d|t] eqn:Ep; auto.
  - pose proof (PH_clear s v P) as P0.
    destruct d as [|t|t u]; auto.
    + eapply PH_frame; [|exact P0]. apply Nrel_modth. nsame.
    + destruct (do_migrate _ v t u) as [[s1 b]|] eqn:M; auto.
      eapply (PH_migrate _ v t u s1 b); [| exact P0 | |exact M].
      * intro x. apply I2.
      * rewrite vc_modvc, Nat.eqb_refl. cbn. discriminate.
  - pose proof (PH_clear s v P) as P0.
    destruct (th_joinable _); (eapply PH_frame; [|exact P0]); apply Nrel_modth; nsame.
Qed.

Lemma PH_join_check : forall s v c j, Inv1 s -> Inv2 s -> PH s -> head_run s v -> PH (join_check s v c j).
Proof.
  intros s v c j I1 I2 P Hr. unfold join_check, getth.
  destruct (tstate_eqb _ NOTCREATED). { apply (PH_frame s); [apply Nrel_same; reflexivity|auto]. }
  destruct (negb (th_joinable _)). { eapply PH_frame; [apply Nrel_ret|auto]. }
  destruct (negb _); auto.
  destruct (tstate_eqb _ DONE).
  - eapply PH_frame; [apply Nrel_ret|]. eapply PH_frame; [|exact P]. apply Nrel_modth. nsame.
  - destruct (negb _); auto.
    apply PH_sleep.
    + apply inv1_setk. apply inv1_neutral; [intro th; repeat split | auto].
    + apply inv2_setk. apply inv2_neutral; [intro th; repeat split | auto].
    + eapply PH_frame; [apply Nrel_setk|]. eapply PH_frame; [|exact P]. apply Nrel_modth. nsame.
    + unfold setk. apply head_run_neutral; [intro th; repeat split|]. apply head_run_neutral; [intro th; repeat split | auto].
Qed.

Ltac pframe := eapply PH_frame; [first [apply Nrel_ret | apply Nrel_setk | apply Nrel_refl]|].

Lemma PH_wait_all_op : forall progs s v c f, Inv1 s -> Inv2 s -> PH s -> head_run s v -> PH (wait_all_op progs s v c f).
Proof.
  intros progs s v c f I1 I2 P Hr. unfold wait_all_op, getth.
  assert (W : PH (wait_check progs s v c f)).
  { unfold wait_check, getth, getvc. destruct (wait_cond s v); [|pframe; auto].
    destruct (v_sleepq (s_vc s v)).
    - apply PH_yield; [now apply inv1_setk|now apply inv2_setk|pframe; auto|hr_n].
    - destruct (expired _ _).
      + apply PH_yield; [now apply inv1_setk|now apply inv2_setk|pframe; auto|hr_n].
      + destruct (lock_free _); auto. apply PH_sleep; [now apply inv1_setk|now apply inv2_setk|pframe; auto|hr_n]. }
  destruct (Nat.eqb c v); [|destruct f; [apply (PH_frame s); [apply Nrel_same; reflexivity|auto]|pframe; auto]].
  destruct (th_k (s_th s c)) as [|[|[|k]]]; auto.
  - pose proof (Nrel_sen s c) as X. destruct (set_error_number s c) as [[s1 r] e]. cbn in X.
    pframe. eapply PH_frame; eauto.
  - pframe; auto.
Qed.

Lemma PH_exec_op : forall progs s v c o, Inv1 s -> Inv2 s -> PH s -> head_run s v -> v_pend (s_vc s v) = PNone ->
  PH (exec_op progs s v c o).
Proof.
  intros progs s v c o I1 I2 P Hr Pn. unfold exec_op, getth, getvc.
  destruct o as [d| |j e|j jn ws|j| | |j|j u| |]; try now apply PH_wait_all_op.
  - destruct (th_k (s_th s c)) as [|[|k]].
    + destruct (expired _ _).
      * apply PH_yield; [now apply inv1_setk|now apply inv2_setk|pframe; auto|hr_n].
      * destruct (lock_free _); auto. apply PH_sleep; [now apply inv1_setk|now apply inv2_setk|pframe; auto|hr_n].
    + pose proof (Nrel_sen s c) as X. destruct (set_error_number s c) as [[s1 r] e]. cbn in X.
      pframe. eapply PH_frame; eauto.
    + destruct (Z.eqb _ 0); pframe; auto.
  - destruct (th_k (s_th s c)).
    + apply PH_yield; [now apply inv1_setk|now apply inv2_setk|pframe; auto|hr_n].
    + pframe; auto.
  - destruct (alive progs s j); [|pframe; auto].
    destruct (do_interrupt s v j e) as [s1|] eqn:D; auto.
    pframe. eapply PH_frame; [eapply Nrel_interrupt; eauto|auto].
  - destruct (_ && _) eqn:C; [|pframe; auto].
    pframe. apply andb_true_iff in C. destruct C as [_ C]. apply PH_create; auto.
    unfold getth in C. destruct (th_state (s_th s j)); try discriminate; reflexivity.
  - destruct (th_k (s_th s c)) as [|[|k]].
    + destruct (_ && _); [|pframe; auto]. pframe. eapply PH_frame; [|eauto]. apply Nrel_modth. nsame.
    + now apply PH_join_check.
    + pose proof (Nrel_sen s c) as X. destruct (set_error_number s c) as [[s1 r] e]. cbn in X.
      pframe. eapply PH_frame; eauto.
  - pframe; auto.
  - pframe; auto.
  - destruct (_ && _); pframe; auto.
  - destruct (th_k (s_th s c)); [|pframe; auto].
    destruct (negb _) eqn:G; [pframe; auto|].
    destruct (Nat.eqb u v); [pframe; auto|].
    destruct (Nat.eqb j c) eqn:Ejc.
    { apply PH_yield; [now apply inv1_setk|now apply inv2_setk|pframe; auto|hr_n]. }
    destruct (negb (Nat.eqb (th_vcpu (s_th s j)) v)); [pframe; auto|].
    destruct (negb (tstate_eqb (th_state (s_th s j)) READY)); [pframe; auto|].
    destruct (do_migrate s v j u) as [[s1 [|]]|] eqn:M; [| |exact P];
      (pframe; eapply (PH_migrate s v j u); [exact I2|exact P| |exact M]; rewrite Pn; cbn; discriminate).
Qed.

Lemma PH_step_vcpu : forall progs s v, Inv1 s -> Inv2 s -> PH s -> PH (step_vcpu progs s v).
Proof.
  intros progs s v I1 I2 P. unfold step_vcpu, getvc, getth.
  destruct (no_pending (v_pend (s_vc s v))) eqn:Np; cbn [negb]; [|now apply PH_exec_pend].
  assert (Pn : v_pend (s_vc s v) = PNone) by (destruct (v_pend (s_vc s v)); try discriminate; reflexivity).
  destruct (v_runq (s_vc s v)) as [|c rest] eqn:Hq. { apply (PH_frame s); [apply Nrel_same; reflexivity|auto]. }
  destruct (th_state (s_th s c)) eqn:Es; try (apply (PH_frame s); [apply Nrel_same; reflexivity|auto]).
  assert (Hr : head_run s v). { intros c' r' E. rewrite Hq in E. inversion E; subst. auto. }
  destruct (th_kind (s_th s c)) eqn:Ek.
  - destruct (nth_error _ _); [now apply PH_exec_op|].
    destruct (th_k (s_th s c)).
    + destruct (lock_free _); auto. apply PH_sleep; [now apply inv1_setk|now apply inv2_setk|pframe; auto|hr_n].
    + pose proof (Nrel_sen s c) as X. destruct (set_error_number s c) as [[s1 r] e]. cbn in X.
      pframe. eapply PH_frame; eauto.
  - destruct rest; auto. apply PH_yield; auto.
  - destruct (nth_error _ _); [now apply PH_exec_op|].
    destruct (do_die s v _) as [s1|] eqn:D; auto. eapply PH_die; eauto.
Qed.

Lemma PH_drain_list : forall l s v, Inv1 s -> PH s -> PH (drain_list s v l).
Proof.
  induction l; cbn; intros s v I1 P; auto. apply IHl; [now apply inv1_drain_one|].
  eapply PH_frame; [apply Nrel_drain_one; auto|auto].
Qed.

Lemma PH_gstep : forall progs s l, Inv1 s -> Inv2 s -> PH s -> PH (gstep progs s l).
Proof.
  intros progs s l I1 I2 P. unfold gstep. destruct (steal_ok s l) eqn:G; [|exact P].
  unfold step. destruct (s_stuck s); [exact P|]. destruct (frozen _ _ _); [exact P|].
  destruct l as [v|v|v|v u t|d].
  - destruct (Nat.ltb _ _); [|exact P].
    destruct (pend_to_offline _ _ _); [apply (PH_frame s); [apply Nrel_same; reflexivity|exact P]|]. now apply PH_step_vcpu.
  - destruct (_ && _); [|exact P]. unfold do_drain. now apply PH_drain_list.
  - destruct (_ && _); [|exact P]. eapply PH_frame; [apply Nrel_resume|exact P].
  - destruct (_ && _); [|exact P]. now apply PH_steal.
  - destruct (Z.leb _ _); [|exact P]. eapply PH_frame; [|exact P]. apply Nrel_same; reflexivity.
Qed.

Lemma gstep_is_step : forall progs s l, gstep progs s l = step progs s l \/ gstep progs s l = s.
Proof. intros. unfold gstep. destruct (steal_ok s l); auto. Qed.

Lemma inv_grun : forall progs ls s, Inv1 s -> Inv2 s -> InvL s -> PH s ->
  Inv1 (grun progs s ls) /\ Inv2 (grun progs s ls) /\ InvL (grun progs s ls) /\ PH (grun progs s ls).
Proof.
  induction ls as [|l ls IH]; cbn; intros s I1 I2 IL P; auto.
  pose proof (PH_gstep progs s l I1 I2 P) as P'.
  destruct (gstep_is_step progs s l) as [E|E]; rewrite E in *.
  - destruct (inv12_step progs s l I1 I2). apply IH; auto. now apply invL_step.
  - apply IH; auto.
Qed.

Lemma PH_init : forall nv n flags t0, PH (init_state nv n flags t0).
Proof.
  intros nv n flags t0 v. unfold init_state. cbn [s_vc]. destruct (init_vcpu_cases nv n flags v) as [(V1 & _)|[V1 E]].
  - unfold init_vcpu. assert (Nat.ltb v nv = true) as -> by (now apply Nat.ltb_lt). exact Logic.I.
  - rewrite E. exact Logic.I.
Qed.

(* ---- stack_exclusive_guarded ------------------------------------------------------------------ *)
Lemma stack_exclusive_guarded_proof : forall progs nv n flags t0 ls, nv <= n ->
  let s := grun progs (init_state nv n flags t0) ls in
  forall v v' t, phys s v = Some t -> phys s v' = Some t -> v = v'.
Proof.
  intros progs nv n flags t0 ls Hn s v v' t.
  destruct (inv_grun progs ls _ (inv1_init nv n flags t0 Hn) (inv2_init nv n flags t0 Hn) (invL_init nv n flags t0 Hn) (PH_init nv n flags t0))
    as (I1 & I2 & IL & P). fold s in I1, I2, IL, P.
  assert (CurF : forall y x, cur s y = Some x -> live (s_th s x) = true /\ th_vcpu (s_th s x) = y).
  { intros y x C. unfold cur, getvc in C. destruct (v_runq (s_vc s y)) as [|a r] eqn:Q; [discriminate|]. inversion C; subst a.
    assert (H1 : cnt x (v_runq (s_vc s y)) >= 1) by (rewrite Q; apply cnt_head).
    destruct (in_runq_facts s x y (i_placed _ I1 x y) H1) as (a1 & a2 & _). auto. }
  unfold phys, getvc.
  generalize (P v) (P v').
  destruct (v_pend (s_vc s v)) as [|f d|f] eqn:Pv; destruct (v_pend (s_vc s v')) as [|f' d'|f'] eqn:Pv'; cbn;
    intros A B H1 H2; try (inversion H1; subst f); try (inversion H2; subst f').
  - destruct (CurF v t H1) as [_ a], (CurF v' t H2) as [_ b]. congruence.
  - destruct (CurF v t H1) as [_ a]. destruct B as (_ & b & _). congruence.
  - destruct (CurF v t H1) as [a _]. destruct B as (_ & b). destruct (live_facts s t I2 a) as [_ c]. lia.
  - destruct (CurF v' t H2) as [_ a]. destruct A as (_ & b & _). congruence.
  - destruct A as (_ & a & _), B as (_ & b & _). congruence.
  - destruct A as (_ & _ & a), B as (_ & b). lia.
  - destruct (CurF v' t H2) as [a _]. destruct A as (_ & b). destruct (live_facts s t I2 a) as [_ c]. lia.
  - destruct A as (_ & a), B as (_ & _ & b). lia.
  - destruct (l_die _ IL _ _ Pv) as (_ & _ & _ & U). symmetry. apply U. exact Pv'.
Qed.

(* the guard is exactly what the F23 witness violates *)
Example f23_witness_violates_guard :
  steal_ok (run f20_progs (init_state 2 3 f20_flags 1000) (firstn 8 f20_schedule)) (LSteal 1 0 2) = false.
Proof. vm_compute. reflexivity. Qed.
