(* C05_Proofs5.v — the positive side of finding F23: if work stealing never takes a thread whose context switch is
   still pending on its vCPU (the class guard of the finding), no two vCPUs ever execute on the same stack. *)
From Coq Require Import ZArith List Bool Arith Lia.
From PV Require Import Base.U64 C05.C05_Model C05.C05_Proofs C05.C05_Proofs2 C05.C05_Proofs3 C05.C05_Proofs4.
Import ListNotations.
Local Open Scope nat_scope.

Definition pend_from (p : pending) : option tid :=
  match p with PSwitch f _ => Some f | PDie f => Some f | PNone => None end.

(* the guard: the thief does not take thread t from vCPU u while u still has to finish switching away from t *)
Definition steal_ok (s : state) (l : label) : bool :=
  match l with
  | LSteal v u t => match pend_from (v_pend (s_vc s u)) with Some f => negb (Nat.eqb f t) | None => true end
  | _ => true
  end.
Definition gstep (progs : tid -> list op) (s : state) (l : label) : state := if steal_ok s l then step progs s l else s.
Fixpoint grun (progs : tid -> list op) (s : state) (ls : list label) : state :=
  match ls with [] => s | l :: r => grun progs (gstep progs s l) r end.

(* the thread a vCPU is switching away from still belongs to that vCPU (or has finished), and exists *)
Definition PH (s : state) : Prop :=
  forall v f, pend_from (v_pend (s_vc s v)) = Some f ->
    created (s_th s f) = true /\ (g_finished (s_th s f) = 1 \/ th_vcpu (s_th s f) = v).

Lemma PH_frame : forall s s', Nrel s s' -> PH s -> PH s'.
Proof.
  intros s s' (Ht & Hv & _) P v f E. destruct (Hv v) as [_ Ep]. rewrite Ep in E.
  destruct (P v f E) as [a b]. destruct (Ht f) as (_ & _ & c & d & e). rewrite e, c, d. auto.
Qed.

(* setting the pending action of v *)
Lemma PH_pend : forall s v (g : vcpu -> vcpu) p, PH s ->
  (forall f, pend_from p = Some f -> created (s_th s f) = true /\ (g_finished (s_th s f) = 1 \/ th_vcpu (s_th s f) = v)) ->
  (forall x, v_pend (g x) = p) -> PH (modvc s v g).
Proof.
  intros s v g p P Hp Hg v0 f. rewrite vc_modvc, th_modvc. destruct (Nat.eqb v0 v) eqn:E.
  - apply Nat.eqb_eq in E. subst. rewrite Hg. apply Hp.
  - apply P.
Qed.

Lemma Nrel_yield_pre : forall s v c n rest (ce : bool), Inv1 s -> head_run s v -> v_runq (s_vc s v) = c :: n :: rest ->
  Nrel s (modth (switch_in s n) c (fun th => set_th_state (if ce then set_th_err th 0%Z else th) READY)).
Proof.
  intros s v c n rest ce I1 Hr Hq.
  assert (Cn : created (s_th s n) = true). { apply (head_created s v c (n :: rest) I1 Hq). rewrite !cnt_cons, Nat.eqb_refl. lia. }
  apply (Nrel_trans s (switch_in s n)); [now apply Nrel_switch_in|].
  apply Nrel_modth_st.
  - rewrite (created_rel s _ c (Nrel_switch_in s n Cn)). eapply created_of_state; [apply (Hr c _ Hq)|discriminate].
  - intro th. destruct ce; cbn; repeat split; auto.
Qed.

Lemma head_facts : forall s v c rest, Inv1 s -> head_run s v -> v_runq (s_vc s v) = c :: rest ->
  created (s_th s c) = true /\ th_vcpu (s_th s c) = v.
Proof.
  intros s v c rest I1 Hr Hq.
  assert (Hc : cnt c (v_runq (s_vc s v)) >= 1) by (rewrite Hq; apply cnt_head).
  destruct (in_runq_facts s c v (i_placed _ I1 c v) Hc) as (_ & Ev & _). split; auto.
  eapply created_of_state; [apply (Hr c _ Hq)|discriminate].
Qed.

Lemma PH_yield : forall s v ce d, Inv1 s -> PH s -> head_run s v -> PH (do_yield s v ce d).
Proof.
  intros s v ce d I1 P Hr. unfold do_yield, getvc.
  destruct (v_runq (s_vc s v)) as [|c [|n rest]] eqn:Hq; try (apply (PH_frame s); [apply Nrel_same; reflexivity|auto]).
  pose proof (Nrel_yield_pre s v c n rest ce I1 Hr Hq) as R.
  destruct (head_facts s v c _ I1 Hr Hq) as [Cc Vc].
  eapply (PH_pend _ v _ (PSwitch c d)); [apply (PH_frame s); eauto| |reflexivity].
  intros f E. inversion E; subst f. destruct R as (Rt & _). destruct (Rt c) as (_ & _ & a & _ & b). rewrite a, b. auto.
Qed.

Lemma PH_sleep : forall s v exp wq d, Inv1 s -> PH s -> head_run s v -> PH (do_sleep s v exp wq d).
Proof.
  intros s v exp wq d I1 P Hr. unfold do_sleep, getvc.
  destruct (v_runq (s_vc s v)) as [|c [|n rest]] eqn:Hq; try (apply (PH_frame s); [apply Nrel_same; reflexivity|auto]).
  assert (Cn : created (s_th s n) = true). { apply (head_created s v c (n :: rest) I1 Hq). rewrite !cnt_cons, Nat.eqb_refl. lia. }
  destruct (head_facts s v c _ I1 Hr Hq) as [Cc Vc].
  set (s2 := modth (switch_in s n) c _).
  assert (R2 : Nrel s s2).
  { unfold s2. apply (Nrel_trans s (switch_in s n)); [now apply Nrel_switch_in|].
    apply Nrel_modth_st.
    - rewrite (created_rel s _ c (Nrel_switch_in s n Cn)). exact Cc.
    - intro th. cbn. repeat split; auto. }
  set (s3 := match wq with Some x => modth s2 x _ | None => s2 end).
  assert (R3 : Nrel s s3). { unfold s3. destruct wq; auto. apply (Nrel_trans s s2); auto. apply Nrel_modth. nsame. }
  match goal with |- PH (if ?b then set_s_tie ?X true else ?X) =>
    assert (IX : PH X); [| destruct b; auto; try (apply (PH_frame X); [apply Nrel_same; reflexivity|auto])] end.
  eapply (PH_pend _ v _ (PSwitch c d)); [apply (PH_frame s); eauto| |reflexivity].
  intros f E. inversion E; subst f. destruct R3 as (Rt & _). destruct (Rt c) as (_ & _ & a & _ & b). rewrite a, b. auto.
Qed.

Lemma PH_die : forall s v rv s', Inv1 s -> PH s -> head_run s v -> do_die s v rv = Some s' -> PH s'.
Proof.
  intros s v rv s' I1 P Hr. unfold do_die, getvc, getth.
  destruct (v_runq (s_vc s v)) as [|c [|n rest]] eqn:Hq;
    try (intro H; inversion H; subst; apply (PH_frame s); [apply Nrel_same; reflexivity|auto]).
  cbv zeta. match goal with |- (if negb ?b then _ else _) = _ -> _ => destruct b end; cbn [negb]; [|discriminate].
  intro H. inversion H; subst s'; clear H.
  assert (Cn : created (s_th s n) = true). { apply (head_created s v c (n :: rest) I1 Hq). rewrite !cnt_cons, Nat.eqb_refl. lia. }
  destruct (head_facts s v c _ I1 Hr Hq) as [Cc Vc].
  set (s1 := match th_joiners (s_th s c) with j :: _ => wake s v j (-1) | [] => s end).
  assert (R1 : Nrel s s1).
  { unfold s1. destruct (th_joiners (s_th s c)) as [|j js] eqn:Ej; [apply Nrel_refl|].
    apply Nrel_wake. destruct (i_waits _ I1 j c) as [A B]. rewrite Ej, cnt_cons, Nat.eqb_refl in A.
    apply B. destruct (th_waitq (s_th s j)); [discriminate|]. cbn in A. lia. }
  set (s2 := switch_in s1 n).
  assert (R2 : Nrel s s2).
  { apply (Nrel_trans s s1); auto. apply Nrel_switch_in. rewrite (created_rel s s1 n R1). exact Cn. }
  clearbody s2. clear s1 R1.
  pose proof (PH_frame s s2 R2 P) as P2. destruct R2 as (Rt & _).
  destruct (Rt c) as (_ & _ & a & _ & b).
  (* c becomes DONE / finished: every pending reference to c stays valid; then v's pending action is PDie c *)
  match goal with |- PH (modvc (modth s2 c ?f) v ?g) => assert (P3 : PH (modth s2 c f)) end.
  { intros v0 f0 E. rewrite vc_modth in E. destruct (P2 v0 f0 E) as [x y]. rewrite th_modth.
    destruct (Nat.eqb f0 c) eqn:E0; [|split; auto]. unfold created. cbn. split; auto. }
  eapply (PH_pend _ v _ (PDie c)); [exact P3| |reflexivity].
  intros f E. inversion E; subst f. rewrite th_modth, Nat.eqb_refl. unfold created. cbn. auto.
Qed.
