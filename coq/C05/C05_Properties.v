From Coq Require Import ZArith List Bool Arith.
From PV Require Import Base.U64 E3.E3_Run C05.C05_Asym C05.C05_AsymProofs C05.C05_AsymTSO C05.C05_Model C05.C05_Proofs C05.C05_Proofs2 C05.C05_Proofs3 C05.C05_Proofs4 C05.C05_Proofs5 C05.C05_Pool C05.C05_PoolProofs C05.C05_E4 C05.C05_E4Proofs C05.C05_FiniProofs.
Import ListNotations.

(* ---- asymmetric_spinLock (the run-queue lock) ------------------------------------------------- *)
(* under sequential consistency: for every number of stealers, every script length and every
   schedule, at most one participant is inside *)
Theorem asym_mutex_SC : forall rf rb sched p q,
  let s := sc_run (sc_init rf rb) sched in
  in_cs (pcs s p) = true -> in_cs (pcs s q) = true -> p = q.
Proof. exact asym_mutex_SC_proof. Qed.
Print Assumptions asym_mutex_SC.

(* under x86-TSO (the lock as written: release store then acquire load, no fence) owner and stealer
   are inside together after 5 steps: finding F5 *)
Theorem asym_mutex_TSO_refuted :
  exists ls s, tso_run false (tso_init 1 (fun _ => 1%nat)) ls = Some s /\
               in_cs (t_pcs s 0) = true /\ in_cs (t_pcs s 1) = true /\ (0 <> 1)%nat /\ length ls = 5%nat.
Proof. exact asym_mutex_TSO_refuted_proof. Qed.
Print Assumptions asym_mutex_TSO_refuted.

(* with the full fence of the proposed repair (store; fence; loads) the lock IS mutually exclusive under x86-TSO:
   every number of stealers, every script length, every schedule of instruction and store-buffer-flush steps *)
Theorem asym_mutex_TSO_fenced : forall rf rb ls s p q,
  tso_run true (tso_init rf rb) ls = Some s ->
  in_cs (t_pcs s p) = true -> in_cs (t_pcs s q) = true -> p = q.
Proof. exact asym_mutex_TSO_fenced_proof. Qed.
Print Assumptions asym_mutex_TSO_fenced.

(* ---- life-cycle / placement: every program, every number of vCPUs and threads, every schedule ---- *)
Theorem placement_unique : forall progs nv n flags t0 s, (nv <= n)%nat -> reachable progs nv n flags t0 s ->
  forall t v, placed s t v.
Proof. exact placement_unique_proof. Qed.
Print Assumptions placement_unique.

Theorem placement_exactly_one : forall progs nv n flags t0 s, (nv <= n)%nat -> reachable progs nv n flags t0 s ->
  forall t, live (s_th s t) = true ->
    let v := th_vcpu (s_th s t) in
    (cnt t (v_runq (s_vc s v)) + cnt t (v_sleepq (s_vc s v)) +
      (if th_insleep (s_th s t) then 0 else cnt t (v_standby (s_vc s v))) = 1)%nat /\
    (forall u, u <> v -> cnt t (v_runq (s_vc s u)) = 0%nat /\ cnt t (v_sleepq (s_vc s u)) = 0%nat /\ cnt t (v_standby (s_vc s u)) = 0%nat).
Proof. exact placement_exactly_one_proof. Qed.
Print Assumptions placement_exactly_one.

Theorem placed_iff_live : forall progs nv n flags t0 s, (nv <= n)%nat -> reachable progs nv n flags t0 s ->
  forall t, (exists v, (cnt t (v_runq (s_vc s v)) + cnt t (v_sleepq (s_vc s v)) + cnt t (v_standby (s_vc s v)) >= 1)%nat)
            <-> live (s_th s t) = true.
Proof. exact placed_iff_live_proof. Qed.
Print Assumptions placed_iff_live.

Theorem one_vcpu_at_a_time : forall progs nv n flags t0 s, (nv <= n)%nat -> reachable progs nv n flags t0 s ->
  forall v v' t, cur s v = Some t -> cur s v' = Some t ->
    v = v' /\ live (s_th s t) = true /\ th_vcpu (s_th s t) = v.
Proof. exact one_vcpu_at_a_time_proof. Qed.
Print Assumptions one_vcpu_at_a_time.

Theorem join_queue_sound : forall progs nv n flags t0 s, (nv <= n)%nat -> reachable progs nv n flags t0 s ->
  forall j x, (cnt j (th_joiners (s_th s x)) >= 1)%nat ->
    th_state (s_th s j) = SLEEPING /\ th_waitq (s_th s j) = Some x /\ cnt j (th_joiners (s_th s x)) = 1%nat.
Proof. exact join_queue_proof. Qed.
Print Assumptions join_queue_sound.

(* below the queues — which stack a vCPU is physically executing on — exclusiveness FAILS: finding F23 *)
Theorem stack_exclusive_refuted :
  exists s, reachable f20_progs 2 3 f20_flags 1000 s /\
            phys s 0 = Some 2%nat /\ phys s 1 = Some 2%nat /\ s_stuck s = false.
Proof. exact stack_exclusive_refuted_proof. Qed.
Print Assumptions stack_exclusive_refuted.

(* runs_once: the entry of a thread starts at most once, finishes at most once and only after it started,
   `finished = 1` exactly for DONE threads, and at quiescence (no program thread left in any queue) every
   created program thread has started once and finished once *)
Theorem runs_once : forall progs nv n flags t0 s, (nv <= n)%nat -> reachable progs nv n flags t0 s ->
  forall t,
    (g_started (s_th s t) <= 1)%nat /\ (g_finished (s_th s t) <= g_started (s_th s t))%nat /\
    (g_finished (s_th s t) = 1%nat <-> th_state (s_th s t) = DONE) /\
    (quiescent s -> is_user (th_kind (s_th s t)) = true -> th_state (s_th s t) <> NOTCREATED ->
       g_started (s_th s t) = 1%nat /\ g_finished (s_th s t) = 1%nat).
Proof. exact runs_once_proof. Qed.
Print Assumptions runs_once.

(* join_exact: thread_join returns at most once, only for a DONE thread, with its return value; the stack is
   handed back at most once, only after DONE and never while the dying thread's own context switch is still
   pending; for a joinable thread exactly together with the join, a non-joinable thread is never joined *)
Theorem join_exact : forall progs nv n flags t0 s, (nv <= n)%nat -> reachable progs nv n flags t0 s ->
  forall t,
    (g_joinret (s_th s t) <= 1)%nat /\
    (g_joinret (s_th s t) = 1%nat -> th_state (s_th s t) = DONE /\ g_joinval (s_th s t) = th_retval (s_th s t) /\ th_joinable (s_th s t) = true) /\
    (g_disposed (s_th s t) <= 1)%nat /\
    (g_disposed (s_th s t) = 1%nat -> th_state (s_th s t) = DONE /\ forall v, v_pend (s_vc s v) <> PDie t) /\
    (th_joinable (s_th s t) = true -> g_disposed (s_th s t) = g_joinret (s_th s t)) /\
    (th_joinable (s_th s t) = false -> g_joinret (s_th s t) = 0%nat).
Proof. exact join_exact_proof. Qed.
Print Assumptions join_exact.

(* nthreads_restored: vcpu.nthreads = main + idler + the program threads that exist, have not finished and belong
   to that vCPU (whatever migrated / was stolen in between); when all created program threads are DONE every
   vCPU's count is back to its initial value *)
Theorem nthreads_restored : forall progs nv n flags t0 s, (nv <= n)%nat -> reachable progs nv n flags t0 s ->
  s_n s = n /\ s_nv s = nv /\
  forall v,
    v_nthreads (s_vc s v) = ((if Nat.ltb v nv then 2 else 0) + Z.of_nat (users_on s v))%Z /\
    ((forall t, is_user (th_kind (s_th s t)) = true -> th_state (s_th s t) = NOTCREATED \/ th_state (s_th s t) = DONE) ->
       v_nthreads (s_vc s v) = v_nthreads (s_vc (init_state nv n flags t0) v)).
Proof. exact nthreads_proof. Qed.
Print Assumptions nthreads_restored.

(* the positive side of F23: if work stealing never takes a thread from a vCPU that still has the pending part of a
   context switch away from that thread (the class guard of the finding; `gstep` skips exactly those steals), no two
   vCPUs ever execute on the same stack — every program, every number of vCPUs, every schedule *)
Theorem stack_exclusive_guarded : forall progs nv n flags t0 ls, (nv <= n)%nat ->
  let s := grun progs (init_state nv n flags t0) ls in
  forall v v' t, phys s v = Some t -> phys s v' = Some t -> v = v'.
Proof. exact stack_exclusive_guarded_proof. Qed.
Print Assumptions stack_exclusive_guarded.

(* ---- ThreadPoolBase hand-shake (thread-pool.cpp 33-139), one control block, any number of rounds ---- *)
(* the repaired code (repo_patches/C05-fix-pool-join-interrupt.diff): for EVERY schedule, interrupts of the waiting threads
   included: no join returns before the pooled entry function returned, the block is never put twice nor re-used while
   work is running, every work item runs at most once, a join returns at most once and only after the work is done, and when
   the pooled thread is idle with an empty block every work item handed to the pool has run exactly once *)
Theorem pool_exact_fixed : forall ls, pool_safe (prun true pinit ls).
Proof. exact pool_exact_fixed_proof. Qed.
Print Assumptions pool_exact_fixed.

(* the code as it is: the same, provided no thread is interrupted while it waits inside the hand-shake *)
Theorem pool_exact_nointr : forall ls, forallb no_interrupt ls = true -> pool_safe (prun false pinit ls).
Proof. exact pool_exact_nointr_proof. Qed.
Print Assumptions pool_exact_nointr.

(* the code as it is, with an interrupt of the joining thread: finding F24 *)
Theorem pool_join_refuted :
  p_early (prun false pinit f24_witness) = true /\ p_done (prun false pinit f24_witness) 0 = false /\
  p_joined (prun false pinit f24_witness) 0 = 1%nat /\ p_reuse (prun false pinit f24_witness2) = true.
Proof. exact pool_join_refuted_proof. Qed.
Print Assumptions pool_join_refuted.

(* ---- engine E4: every state visited by a controlled multi-vCPU replay (the states whose placement dumps are compared
   with the real scheduler after every command) is a reachable state of the proved transition system ---- *)
Theorem e4_reachable : forall progs nv n flags t0 cs,
  reachable progs nv n flags t0 (e4_run progs (init_state nv n flags t0) cs).
Proof. exact e4_reachable_proof. Qed.
Print Assumptions e4_reachable.

(* ---- vCPU wind-down: wait_all / vcpu_fini (thread.cpp 2200-2217, 2334-2350) ---------------------------------------------
   `offline progs s v` = the main thread of vCPU v has returned from vcpu_fini.  In every reachable state (any programs, any
   number of vCPUs, any schedule — including migrations into v, cross-vCPU wake-ups and steals while v's main thread is inside
   wait_all) a finalised vCPU has an empty sleep queue, an empty standby queue, no pending switch and at most two ring members
   headed by its main thread; every live thread that belongs to it is one of those two (the main thread and the idler that
   vcpu_fini joins and destroys): wait_all returned only when run queue (minus main / idler), sleep queue AND standby queue
   were empty, and nothing entered afterwards.  No thread is lost by finalising a vCPU. *)
Theorem fini_loses_nothing : forall progs nv n flags t0 s v, (nv <= n)%nat -> reachable progs nv n flags t0 s ->
  offline progs s v = true ->
  clean s v /\
  (forall t, live (s_th s t) = true -> th_vcpu (s_th s t) = v -> In t (v_runq (s_vc s v))) /\
  (forall t, th_vcpu (s_th s t) = v -> th_state (s_th s t) <> SLEEPING /\ th_state (s_th s t) <> STANDBY \/ In t (v_runq (s_vc s v))).
Proof. exact fini_loses_nothing_proof. Qed.
Print Assumptions fini_loses_nothing.

(* the same system with wait_all's loop test WITHOUT `!standbyq.empty()` (seeded change C05_2): a thread migrated into the
   standby queue of a vCPU whose main thread then calls vcpu_fini is lost — it is live, never ran, belongs to the finalised
   vCPU and sits in its standby queue for ever *)
Theorem fini_without_standby_test_refuted :
  exists ls t, let s := run_ns c052_progs (init_state 2 3 c052_flags 1000) ls in
    s_stuck s = false /\ offline c052_progs s 0%nat = true /\
    live (s_th s t) = true /\ th_vcpu (s_th s t) = 0%nat /\ g_started (s_th s t) = 0%nat /\ v_standby (s_vc s 0%nat) = [t].
Proof. exact fini_without_standby_test_refuted_proof. Qed.
Print Assumptions fini_without_standby_test_refuted.
