From Coq Require Import ZArith List Bool Arith.
From PV Require Import Base.U64 E3.E3_Run C05.C05_Asym C05.C05_AsymProofs C05.C05_Model C05.C05_Proofs.
Import ListNotations.

(* asymmetric_spinLock under sequential consistency: for every number of stealers, every script
   length and every schedule, at most one participant is inside *)
Theorem asym_mutex_SC : forall rf rb sched p q,
  let s := sc_run (sc_init rf rb) sched in
  in_cs (pcs s p) = true -> in_cs (pcs s q) = true -> p = q.
Proof. exact asym_mutex_SC_proof. Qed.
Print Assumptions asym_mutex_SC.

(* under x86-TSO (the lock as written: release store then acquire load, no fence) owner and stealer
   are inside together after 5 steps: finding F5 *)
Theorem asym_mutex_TSO_refuted :
  exists ls s, tso_run false (tso_init 1 (fun _ => 1%nat)) ls = Some s /\
               in_cs (t_pcs s 0) = true /\ in_cs (t_pcs s 1) = true /\ (0 <> 1)%nat /\ length ls = 5%nat.
Proof. exact asym_mutex_TSO_refuted_proof. Qed.
Print Assumptions asym_mutex_TSO_refuted.
