(* C05_Asym.v — `class asymmetric_spinLock` (thread/thread.cpp 489-534), the run-queue lock used
   by a vCPU (the single FOREGROUND participant) against work stealers (any number of
   BACKGROUND participants).  EXECUTABLE DEFINITIONS ONLY (proofs: C05_AsymProofs.v).

   One transition = one atomic access of the C++:

     foreground_lock()        FSt : foreground_locked.store(true, release)            (504)
                              FWo : wait_while(background_locked), outer load(acquire) (495)
                              FWi :                                inner load(relaxed) (497)
     (critical section)       FIn : ... then foreground_unlock(): store(false,release) (529)
     background_try_lock()    BWo/BWi : wait_while(foreground_locked)                  (512)
                              BXg : background_locked.exchange(true, acquire)          (515)
                                    old = true  -> return false                        (516)
                              BChk: foreground_locked.load(acquire)                    (519)
                                    false -> return true (inside)
                              BRel: background_locked.store(false, release); retry     (523)
     (critical section)       BIn : ... then background_unlock(): store(false,release) (532)

   Participant 0 is the foreground (the owner vCPU: exactly one OS thread ever calls
   foreground_lock on a given lock, AtomicRunQ 626-643); participants 1,2,... are stealers.
   Each participant runs a script: the foreground `rounds` lock/unlock pairs, a background
   `rounds` calls of background_try_lock (each followed by background_unlock when it returned
   true).  The theorems hold for every script length.

   Two memory semantics over the SAME program (`instr_of`, `next_pc`):
     sc_step   sequential consistency;
     tso_step  operational x86-TSO: every participant has a FIFO store buffer; a store is
               appended to it; a load reads the newest buffered store of its own to that
               address, else memory; an RMW (exchange) needs the buffer empty and acts on
               memory; `TFlush p` moves p's oldest buffered store to memory at any time.
   The `fenced` flag adds a full fence (the store buffer must be empty) between the store and
   the loads of foreground_lock — the repair discussed for finding F5; the C++ has fenced=false. *)
From Coq Require Import ZArith List Bool Arith.
From PV Require Import E3.E3_Run.
Import ListNotations.

Inductive addr : Type := FG | BG.          (* foreground_locked, background_locked *)
Definition addr_eqb (a b : addr) : bool :=
  match a, b with FG, FG | BG, BG => true | _, _ => false end.

Inductive instr : Type :=
| ILoad (a : addr)
| IStore (a : addr) (v : bool)
| IXchg (a : addr) (v : bool)
| IFence                                   (* only in the `fenced` variant *)
| IHalt.

Inductive fpc : Type := FSt | FFence | FWo | FWi | FIn.
Inductive bpc : Type := BWo | BWi | BXg | BChk | BRel | BIn.
Inductive pc : Type :=
| PF (c : fpc) (rounds : nat)
| PB (c : bpc) (rounds : nat).

Definition instr_of (p : pc) : instr :=
  match p with
  | PF FSt O => IHalt
  | PF FSt (S _) => IStore FG true
  | PF FFence _ => IFence
  | PF FWo _ => ILoad BG
  | PF FWi _ => ILoad BG
  | PF FIn _ => IStore FG false
  | PB BWo O => IHalt
  | PB BWo (S _) => ILoad FG
  | PB BWi _ => ILoad FG
  | PB BXg _ => IXchg BG true
  | PB BChk _ => ILoad FG
  | PB BRel _ => IStore BG false
  | PB BIn _ => IStore BG false
  end.

(* pc after the instruction; `v` = value loaded / old value of the exchange (ignored for stores) *)
Definition next_pc (fenced : bool) (p : pc) (v : bool) : pc :=
  match p with
  | PF FSt r => if fenced then PF FFence r else PF FWo r
  | PF FFence r => PF FWo r
  | PF FWo r => if v then PF FWi r else PF FIn r
  | PF FWi r => if v then PF FWi r else PF FWo r
  | PF FIn r => PF FSt (pred r)
  | PB BWo r => if v then PB BWi r else PB BXg r
  | PB BWi r => if v then PB BWi r else PB BWo r
  | PB BXg r => if v then PB BWo (pred r) else PB BChk r      (* old=true: return false *)
  | PB BChk r => if v then PB BRel r else PB BIn r
  | PB BRel r => PB BWo r                                      (* release, wait, repeat *)
  | PB BIn r => PB BWo (pred r)
  end.

Definition in_cs (p : pc) : bool :=
  match p with PF FIn _ | PB BIn _ => true | _ => false end.
Definition halted (p : pc) : bool :=
  match instr_of p with IHalt => true | _ => false end.

Definition updp {A : Type} (f : nat -> A) (k : nat) (v : A) : nat -> A :=
  fun x => if Nat.eqb x k then v else f x.

(* ---- sequential consistency ------------------------------------------------------------- *)
Record sc_state : Type := mkSC { m_fg : bool; m_bg : bool; pcs : nat -> pc }.

Definition rd (s : sc_state) (a : addr) : bool := match a with FG => m_fg s | BG => m_bg s end.
Definition wr (s : sc_state) (a : addr) (v : bool) : sc_state :=
  match a with FG => mkSC v (m_bg s) (pcs s) | BG => mkSC (m_fg s) v (pcs s) end.
Definition set_pc (s : sc_state) (p : nat) (c : pc) : sc_state :=
  mkSC (m_fg s) (m_bg s) (updp (pcs s) p c).

Definition addr_code (a : addr) : Z := match a with FG => 0%Z | BG => 1%Z end.
Definition b2z (b : bool) : Z := if b then 1%Z else 0%Z.

(* one step of participant p (a halted participant stutters); also returns the E3 log entry *)
Definition sc_step_obs (s : sc_state) (p : nat) : sc_state * obs :=
  let c := pcs s p in
  match instr_of c with
  | ILoad a => let v := rd s a in (set_pc s p (next_pc false c v), ob_ld (addr_code a) (-1) (b2z v))
  | IStore a v => (set_pc (wr s a v) p (next_pc false c false), ob_st (addr_code a) (-1) (b2z v))
  | IXchg a v => let o := rd s a in (set_pc (wr s a v) p (next_pc false c o), ob_xg (addr_code a) (-1) (b2z v) (b2z o))
  | IFence => (set_pc s p (next_pc false c false), ob_none)
  | IHalt => (s, ob_none)
  end.
Definition sc_step (s : sc_state) (p : nat) : sc_state := fst (sc_step_obs s p).

(* participant 0 = foreground with rf rounds; participant i>0 = background with rb i rounds *)
Definition sc_init (rf : nat) (rb : nat -> nat) : sc_state :=
  mkSC false false (fun p => match p with O => PF FSt rf | S _ => PB BWo (rb p) end).

Fixpoint sc_run (s : sc_state) (sched : list nat) : sc_state :=
  match sched with [] => s | p :: r => sc_run (sc_step s p) r end.

(* E3 adapters (coq/E3/E3_Run.v): flavor unused *)
Definition e3_step (s : sc_state) (p f : nat) : sc_state * obs := sc_step_obs s p.
Definition e3_fin (s : sc_state) (p : nat) : bool := halted (pcs s p).
Definition asym_e3 (n rounds : nat) (sched : list nat) (bound : nat) :=
  e3_run e3_step e3_fin n bound sched (n - 1) (sc_init rounds (fun _ => rounds)) [].

(* ---- x86-TSO ------------------------------------------------------------------------------ *)
Record tso_state : Type := mkTSO {
  t_fg : bool; t_bg : bool;
  t_pcs : nat -> pc;
  t_buf : nat -> list (addr * bool)          (* oldest first *)
}.
Inductive tso_label : Type := TExec (p : nat) | TFlush (p : nat).

Definition t_mem (s : tso_state) (a : addr) : bool := match a with FG => t_fg s | BG => t_bg s end.
Definition t_wmem (s : tso_state) (a : addr) (v : bool) : tso_state :=
  match a with
  | FG => mkTSO v (t_bg s) (t_pcs s) (t_buf s)
  | BG => mkTSO (t_fg s) v (t_pcs s) (t_buf s)
  end.
(* newest buffered store to `a` *)
Fixpoint buf_lookup (b : list (addr * bool)) (a : addr) : option bool :=
  match b with
  | [] => None
  | (a', v) :: r => match buf_lookup r a with
                    | Some w => Some w
                    | None => if addr_eqb a' a then Some v else None
                    end
  end.
Definition t_read (s : tso_state) (p : nat) (a : addr) : bool :=
  match buf_lookup (t_buf s p) a with Some v => v | None => t_mem s a end.
Definition t_set_pc (s : tso_state) (p : nat) (c : pc) : tso_state :=
  mkTSO (t_fg s) (t_bg s) (updp (t_pcs s) p c) (t_buf s).
Definition t_set_buf (s : tso_state) (p : nat) (b : list (addr * bool)) : tso_state :=
  mkTSO (t_fg s) (t_bg s) (t_pcs s) (updp (t_buf s) p b).

(* None = the label is not enabled (RMW / fence with a non-empty buffer, flush of an empty one) *)
Definition tso_step (fenced : bool) (s : tso_state) (l : tso_label) : option tso_state :=
  match l with
  | TFlush p =>
      match t_buf s p with
      | [] => None
      | (a, v) :: r => Some (t_set_buf (t_wmem s a v) p r)
      end
  | TExec p =>
      let c := t_pcs s p in
      match instr_of c with
      | ILoad a => Some (t_set_pc s p (next_pc fenced c (t_read s p a)))
      | IStore a v => Some (t_set_pc (t_set_buf s p (t_buf s p ++ [(a, v)])) p (next_pc fenced c false))
      | IXchg a v =>
          match t_buf s p with
          | [] => Some (t_set_pc (t_wmem s a v) p (next_pc fenced c (t_mem s a)))
          | _ => None
          end
      | IFence => match t_buf s p with [] => Some (t_set_pc s p (next_pc fenced c false)) | _ => None end
      | IHalt => Some s
      end
  end.

Definition tso_init (rf : nat) (rb : nat -> nat) : tso_state :=
  mkTSO false false (fun p => match p with O => PF FSt rf | S _ => PB BWo (rb p) end) (fun _ => []).

Fixpoint tso_run (fenced : bool) (s : tso_state) (ls : list tso_label) : option tso_state :=
  match ls with
  | [] => Some s
  | l :: r => match tso_step fenced s l with Some s' => tso_run fenced s' r | None => None end
  end.

(* the F5 witness: the owner's store of foreground_locked is still in its store buffer when it
   reads background_locked = false and enters; the stealer reads foreground_locked = false from
   memory, wins the exchange, re-checks foreground_locked = false (still buffered) and enters *)
Definition f5_witness : list tso_label :=
  [TExec 0; TExec 0; TExec 1; TExec 1; TExec 1].
