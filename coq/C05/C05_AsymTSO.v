(* C05_AsymTSO.v — the proposed repair of F5 is sufficient: with a full fence between the store and the loads of
   foreground_lock, asymmetric_spinLock is mutually exclusive under x86-TSO for every number of stealers, every
   script length and every schedule of instruction and store-buffer-flush steps. *)
From Coq Require Import ZArith List Bool Arith Lia.
From PV Require Import E3.E3_Run C05.C05_Asym C05.C05_AsymProofs.
Import ListNotations.

Definition fpart (s : tso_state) : Prop :=
  match t_pcs s 0 with
  | PF FSt _ => (t_buf s 0 = [] /\ t_fg s = false) \/ (t_buf s 0 = [(FG, false)] /\ t_fg s = true)
  | PF FFence _ => (t_buf s 0 = [] /\ t_fg s = true) \/ (t_buf s 0 = [(FG, true)] /\ t_fg s = false) \/
                   (t_buf s 0 = [(FG, false); (FG, true)] /\ t_fg s = true)
  | PF _ _ => t_buf s 0 = [] /\ t_fg s = true
  | PB _ _ => False
  end.
Definition bpart (s : tso_state) (i : nat) : Prop :=
  exists c r, t_pcs s (S i) = PB c r /\
    match c with
    | BChk | BRel | BIn => t_buf s (S i) = []
    | _ => t_buf s (S i) = [] \/ t_buf s (S i) = [(BG, false)]
    end.
(* stealer i holds background_locked, or its releasing store is still in its store buffer *)
Definition hp (s : tso_state) (i : nat) : Prop := holds (t_pcs s (S i)) = true \/ t_buf s (S i) <> [].

Record TInv (s : tso_state) : Prop := mkTInv {
  ti_f : fpart s;
  ti_b : forall i, bpart s i;
  ti_uniq : forall i j, hp s i -> hp s j -> i = j;
  ti_bg : forall i, hp s i -> t_bg s = true;
  ti_excl : in_cs (t_pcs s 0) = true -> forall i, in_cs (t_pcs s (S i)) = false
}.

Lemma tinv_init : forall rf rb, TInv (tso_init rf rb).
Proof.
  intros. constructor; cbn.
  - unfold fpart. cbn. left. split; reflexivity.
  - intro i. unfold bpart. cbn. exists BWo, (rb (S i)). split; auto.
  - intros i j [H|H]; cbn in H; [discriminate|congruence].
  - intros i [H|H]; cbn in H; [discriminate|congruence].
  - discriminate.
Qed.

Lemma lookup_nil : forall a, buf_lookup [] a = None. Proof. reflexivity. Qed.
Lemma lookup_bgf_fg : buf_lookup [(BG, false)] FG = None. Proof. reflexivity. Qed.

Ltac upd_simp := repeat rewrite ?updp_eq, ?updp_neq by lia.

(* a step of stealer S i that changes only its pc (between non-holding states, or between holding states) *)
Lemma t_bstep_pc : forall s i c',
  TInv s -> t_buf s (S i) = [] \/ (holds c' = false /\ t_buf s (S i) = [(BG, false)]) ->
  (exists c r, c' = PB c r) ->
  holds c' = holds (t_pcs s (S i)) ->
  (in_cs c' = true -> in_cs (t_pcs s (S i)) = true \/ t_fg s = false) ->
  TInv (t_set_pc s (S i) c').
Proof.
  intros s i c' I Hb (c & r & Ec) Hh Hin.
  assert (HP : forall k, hp (t_set_pc s (S i) c') k <-> hp s k).
  { intro k. unfold hp, t_set_pc. cbn. destruct (Nat.eq_dec k i) as [->|N]; upd_simp; [rewrite Hh|]; tauto. }
  constructor.
  - generalize (ti_f _ I). unfold fpart, t_set_pc. cbn. upd_simp. auto.
  - intro k. unfold bpart, t_set_pc. cbn. destruct (Nat.eq_dec k i) as [->|N]; upd_simp; [|apply (ti_b _ I)].
    exists c, r. split; auto. subst c'. destruct Hb as [Hb|[Hb1 Hb2]]; rewrite ?Hb, ?Hb2; destruct c; auto; cbn in Hb1; discriminate.
  - intros a b Ha Hb'. apply HP in Ha. apply HP in Hb'. apply (ti_uniq _ I); auto.
  - intros a Ha. apply HP in Ha. apply (ti_bg _ I a Ha).
  - unfold t_set_pc. cbn. upd_simp. intros Hc k. destruct (Nat.eq_dec k i) as [->|N]; upd_simp; [|apply (ti_excl _ I Hc)].
    destruct (in_cs c') eqn:E; auto. destruct (Hin eq_refl) as [H|H].
    + rewrite (ti_excl _ I Hc i) in H. discriminate.
    + generalize (ti_f _ I). unfold fpart. destruct (t_pcs s 0) as [fc fr|]; [|tauto].
      destruct fc; cbn in Hc; try discriminate. intros [_ X]. congruence.
Qed.

Lemma tso_step_inv : forall s l s', TInv s -> tso_step true s l = Some s' -> TInv s'.
Proof.
  intros s l s' I. destruct l as [p|p]; cbn [tso_step].
  - (* an instruction *)
    destruct p as [|i].
    + (* the owner *)
      generalize (ti_f _ I). unfold fpart. destruct (t_pcs s 0) as [fc fr|] eqn:E0; [|tauto].
      assert (HPs : forall s1, t_pcs s1 = updp (t_pcs s) 0 (t_pcs s1 0) -> (forall k, t_buf s1 (S k) = t_buf s (S k)) ->
                    forall k, hp s1 k <-> hp s k).
      { intros s1 H1 H2 k. unfold hp. rewrite H1, H2. upd_simp. tauto. }
      destruct fc; [destruct fr as [|fr]|..]; cbn [instr_of next_pc].
      * intros _ H. inversion H; subst. exact I.
      * (* store true *)
        intros F H. inversion H; subst s'; clear H.
        constructor.
        -- unfold fpart, t_set_pc, t_set_buf. cbn. upd_simp. cbn. destruct F as [[-> ->]|[-> ->]]; cbn; auto.
        -- intro k. generalize (ti_b _ I k). unfold bpart, t_set_pc, t_set_buf. cbn. upd_simp. auto.
        -- intros a b Ha Hb. apply (ti_uniq _ I); [revert Ha|revert Hb]; unfold hp, t_set_pc, t_set_buf; cbn; upd_simp; auto.
        -- intros a Ha. apply (ti_bg _ I a). revert Ha. unfold hp, t_set_pc, t_set_buf; cbn; upd_simp; auto.
        -- unfold t_set_pc. cbn. upd_simp. cbn. discriminate.
      * (* fence *)
        intros F. destruct (t_buf s 0) eqn:B0; [|discriminate]. intro H. inversion H; subst s'; clear H.
        destruct F as [[_ Ff]|[[X _]|[X _]]]; try discriminate.
        constructor.
        -- unfold fpart, t_set_pc. cbn. upd_simp. auto.
        -- intro k. generalize (ti_b _ I k). unfold bpart, t_set_pc. cbn. upd_simp. auto.
        -- intros a b Ha Hb. apply (ti_uniq _ I); [revert Ha|revert Hb]; unfold hp, t_set_pc; cbn; upd_simp; auto.
        -- intros a Ha. apply (ti_bg _ I a). revert Ha. unfold hp, t_set_pc; cbn; upd_simp; auto.
        -- unfold t_set_pc. cbn. upd_simp. cbn. discriminate.
      * (* outer load of background_locked *)
        intros [B0 Ff] H. inversion H; subst s'; clear H.
        assert (Rd : t_read s 0 BG = t_bg s). { unfold t_read. rewrite B0. reflexivity. }
        rewrite Rd.
        constructor.
        -- unfold fpart, t_set_pc. cbn. upd_simp. destruct (t_bg s); auto.
        -- intro k. generalize (ti_b _ I k). unfold bpart, t_set_pc. cbn. upd_simp. auto.
        -- intros a b Ha Hb. apply (ti_uniq _ I); [revert Ha|revert Hb]; unfold hp, t_set_pc; cbn; upd_simp; auto.
        -- intros a Ha. apply (ti_bg _ I a). revert Ha. unfold hp, t_set_pc; cbn; upd_simp; auto.
        -- unfold t_set_pc. cbn. upd_simp. destruct (t_bg s) eqn:Eb; cbn; [discriminate|].
           intros _ k. upd_simp. destruct (in_cs (t_pcs s (S k))) eqn:Ei; auto.
           destruct (ti_b _ I k) as (c & r & Ec & _). rewrite Ec in Ei.
           assert (hp s k). { left. rewrite Ec. now apply incs_holds. }
           rewrite (ti_bg _ I k H) in Eb. discriminate.
      * (* inner load *)
        intros [B0 Ff] H. inversion H; subst s'; clear H.
        constructor.
        -- unfold fpart, t_set_pc. cbn. upd_simp. destruct (t_read s 0 BG); auto.
        -- intro k. generalize (ti_b _ I k). unfold bpart, t_set_pc. cbn. upd_simp. auto.
        -- intros a b Ha Hb. apply (ti_uniq _ I); [revert Ha|revert Hb]; unfold hp, t_set_pc; cbn; upd_simp; auto.
        -- intros a Ha. apply (ti_bg _ I a). revert Ha. unfold hp, t_set_pc; cbn; upd_simp; auto.
        -- unfold t_set_pc. cbn. upd_simp. destruct (t_read s 0 BG); cbn; discriminate.
      * (* unlock *)
        intros [B0 Ff] H. inversion H; subst s'; clear H.
        constructor.
        -- unfold fpart, t_set_pc, t_set_buf. cbn. upd_simp. cbn. rewrite B0. cbn. auto.
        -- intro k. generalize (ti_b _ I k). unfold bpart, t_set_pc, t_set_buf. cbn. upd_simp. auto.
        -- intros a b Ha Hb. apply (ti_uniq _ I); [revert Ha|revert Hb]; unfold hp, t_set_pc, t_set_buf; cbn; upd_simp; auto.
        -- intros a Ha. apply (ti_bg _ I a). revert Ha. unfold hp, t_set_pc, t_set_buf; cbn; upd_simp; auto.
        -- unfold t_set_pc. cbn. upd_simp. cbn. discriminate.
    + (* a stealer *)
      destruct (ti_b _ I i) as (c & r & Ec & Bc). rewrite Ec.
      assert (Rfg : (t_buf s (S i) = [] \/ t_buf s (S i) = [(BG, false)]) -> t_read s (S i) FG = t_fg s).
      { intros [H|H]; unfold t_read; rewrite H; reflexivity. }
      destruct c; [destruct r as [|r]|..]; cbn [instr_of next_pc].
      * intro H. inversion H; subst. exact I.
      * intro H. inversion H; subst s'; clear H. rewrite (Rfg Bc).
        destruct (t_fg s) eqn:Ef; apply t_bstep_pc; eauto; try (rewrite Ec; reflexivity); try (cbn; discriminate);
          destruct Bc as [B|B]; auto.
      * intro H. inversion H; subst s'; clear H. rewrite (Rfg Bc).
        destruct (t_fg s) eqn:Ef; apply t_bstep_pc; eauto; try (rewrite Ec; reflexivity); try (cbn; discriminate);
          destruct Bc as [B|B]; auto.
      * (* exchange *)
        destruct (t_buf s (S i)) eqn:B0; [|discriminate]. intro H. inversion H; subst s'; clear H.
        cbn [t_mem]. destruct (t_bg s) eqn:Eb; cbn [next_pc].
        -- (* lost: return false *)
           assert (Es : mkTSO (t_fg s) true (t_pcs s) (t_buf s) = s) by (destruct s; cbn in *; congruence).
           unfold t_wmem. rewrite Es. apply t_bstep_pc; eauto; try (rewrite Ec; reflexivity). cbn. discriminate.
        -- (* won *)
           assert (Hno : forall k, ~ hp s k). { intros k H. rewrite (ti_bg _ I k H) in Eb. discriminate. }
           constructor.
           ++ generalize (ti_f _ I). unfold fpart, t_set_pc, t_wmem. cbn. upd_simp. auto.
           ++ intro k. unfold bpart, t_set_pc, t_wmem. cbn. destruct (Nat.eq_dec k i) as [->|N]; upd_simp; [|apply (ti_b _ I)].
              exists BChk, r. split; auto.
           ++ intros a b Ha Hb. unfold hp, t_set_pc, t_wmem in Ha, Hb. cbn in Ha, Hb.
              destruct (Nat.eq_dec a i) as [->|Na]; destruct (Nat.eq_dec b i) as [->|Nb]; auto;
                revert Ha Hb; upd_simp; intros; exfalso; [eapply (Hno b)|eapply (Hno a)|eapply (Hno a)]; eauto.
           ++ intros _ _. reflexivity.
           ++ unfold t_set_pc, t_wmem. cbn. upd_simp. intros Hc k. destruct (Nat.eq_dec k i) as [->|N]; upd_simp; auto.
              apply (ti_excl _ I Hc).
      * (* re-check *)
        intro H. inversion H; subst s'; clear H. rewrite (Rfg (or_introl Bc)).
        destruct (t_fg s) eqn:Ef; apply t_bstep_pc; eauto; try (rewrite Ec; reflexivity); try (cbn; discriminate).
      * (* release and retry: the store goes to the buffer, the stealer still counts as pending *)
        intro H. inversion H; subst s'; clear H. rewrite Bc. cbn [app].
        assert (HP : forall k, hp (t_set_pc (t_set_buf s (S i) [(BG, false)]) (S i) (PB BWo r)) k <-> hp s k).
        { intro k. unfold hp, t_set_pc, t_set_buf. cbn. destruct (Nat.eq_dec k i) as [->|N]; upd_simp; [|tauto].
          rewrite Ec. cbn. split; intros _; [left; reflexivity|right; discriminate]. }
        constructor.
        -- generalize (ti_f _ I). unfold fpart, t_set_pc, t_set_buf. cbn. upd_simp. auto.
        -- intro k. unfold bpart, t_set_pc, t_set_buf. cbn. destruct (Nat.eq_dec k i) as [->|N]; upd_simp; [|apply (ti_b _ I)].
           exists BWo, r. split; auto.
        -- intros a b Ha Hb. apply HP in Ha. apply HP in Hb. apply (ti_uniq _ I); auto.
        -- intros a Ha. apply HP in Ha. apply (ti_bg _ I a Ha).
        -- unfold t_set_pc, t_set_buf. cbn. upd_simp. intros Hc k. destruct (Nat.eq_dec k i) as [->|N]; upd_simp; auto.
           apply (ti_excl _ I Hc).
      * (* unlock *)
        intro H. inversion H; subst s'; clear H. rewrite Bc. cbn [app].
        assert (HP : forall k, hp (t_set_pc (t_set_buf s (S i) [(BG, false)]) (S i) (PB BWo (pred r))) k <-> hp s k).
        { intro k. unfold hp, t_set_pc, t_set_buf. cbn. destruct (Nat.eq_dec k i) as [->|N]; upd_simp; [|tauto].
          rewrite Ec. cbn. split; intros _; [left; reflexivity|right; discriminate]. }
        constructor.
        -- generalize (ti_f _ I). unfold fpart, t_set_pc, t_set_buf. cbn. upd_simp. auto.
        -- intro k. unfold bpart, t_set_pc, t_set_buf. cbn. destruct (Nat.eq_dec k i) as [->|N]; upd_simp; [|apply (ti_b _ I)].
           exists BWo, (pred r). split; auto.
        -- intros a b Ha Hb. apply HP in Ha. apply HP in Hb. apply (ti_uniq _ I); auto.
        -- intros a Ha. apply HP in Ha. apply (ti_bg _ I a Ha).
        -- unfold t_set_pc, t_set_buf. cbn. upd_simp. intros Hc k. destruct (Nat.eq_dec k i) as [->|N]; upd_simp; auto.
           apply (ti_excl _ I Hc).
  - (* a store-buffer flush *)
    destruct (t_buf s p) as [|[a v] rest] eqn:Bp; [discriminate|]. intro H. inversion H; subst s'; clear H.
    destruct p as [|i].
    + (* the owner's buffer: only stores of foreground_locked *)
      generalize (ti_f _ I). unfold fpart. destruct (t_pcs s 0) as [fc fr|] eqn:E0; [|tauto].
      intro F.
      assert (Ea : a = FG /\ ((fc = FSt /\ rest = [] /\ v = false /\ t_fg s = true) \/
                              (fc = FFence /\ rest = [] /\ v = true /\ t_fg s = false) \/
                              (fc = FFence /\ rest = [(FG, true)] /\ v = false /\ t_fg s = true))).
      { destruct fc; rewrite Bp in F.
        - destruct F as [[X _]|[X Y]]; [discriminate|]. inversion X; subst. split; [reflexivity|left; repeat split; auto].
        - destruct F as [[X _]|[[X Y]|[X Y]]]; [discriminate| |]; inversion X; subst.
          + split; [reflexivity|right; left; repeat split; auto].
          + split; [reflexivity|right; right; repeat split; auto].
        - destruct F as [X _]; discriminate.
        - destruct F as [X _]; discriminate.
        - destruct F as [X _]; discriminate. }
      destruct Ea as [-> Ea].
      constructor.
      * unfold fpart, t_set_buf, t_wmem. cbn. rewrite E0. upd_simp.
        destruct Ea as [(-> & -> & -> & _)|[(-> & -> & -> & _)|(-> & -> & -> & _)]]; auto.
      * intro k. generalize (ti_b _ I k). unfold bpart, t_set_buf, t_wmem. cbn. upd_simp. auto.
      * intros x y Hx Hy. apply (ti_uniq _ I); [revert Hx|revert Hy]; unfold hp, t_set_buf, t_wmem; cbn; upd_simp; auto.
      * intros x Hx. unfold t_set_buf, t_wmem. cbn. apply (ti_bg _ I x). revert Hx. unfold hp, t_set_buf, t_wmem; cbn; upd_simp; auto.
      * unfold t_set_buf, t_wmem. cbn. apply (ti_excl _ I).
    + (* a stealer's buffer: its one releasing store *)
      destruct (ti_b _ I i) as (c & r & Ec & Bc).
      assert (Eb : a = BG /\ v = false /\ rest = [] /\ holds (t_pcs s (S i)) = false).
      { rewrite Ec. destruct c; rewrite Bp in Bc; try discriminate;
          (destruct Bc as [X|X]; [discriminate|inversion X; subst; auto]). }
      destruct Eb as (-> & -> & -> & Hh).
      assert (Hi : hp s i) by (right; rewrite Bp; discriminate).
      constructor.
      * generalize (ti_f _ I). unfold fpart, t_set_buf, t_wmem. cbn. upd_simp. auto.
      * intro k. unfold bpart, t_set_buf, t_wmem. cbn. destruct (Nat.eq_dec k i) as [->|N]; upd_simp; [|apply (ti_b _ I)].
        exists c, r. split; auto. destruct c; auto.
      * intros x y Hx Hy.
        assert (X : forall z, hp (t_set_buf (t_wmem s BG false) (S i) []) z -> hp s z /\ z <> i).
        { intros z Hz. unfold hp, t_set_buf, t_wmem in Hz. cbn in Hz. destruct (Nat.eq_dec z i) as [->|N].
          - revert Hz. upd_simp. rewrite Hh. intros [Z|Z]; [discriminate|congruence].
          - revert Hz. upd_simp. unfold hp. auto. }
        destruct (X x Hx) as [Hx' Nx]. exfalso. apply Nx. apply (ti_uniq _ I); auto.
      * intros x Hx.
        assert (X : hp s x /\ x <> i).
        { unfold hp, t_set_buf, t_wmem in Hx. cbn in Hx. destruct (Nat.eq_dec x i) as [->|N].
          - revert Hx. upd_simp. rewrite Hh. intros [Z|Z]; [discriminate|congruence].
          - revert Hx. upd_simp. unfold hp. auto. }
        destruct X as [Hx' Nx]. exfalso. apply Nx. apply (ti_uniq _ I); auto.
      * unfold t_set_buf, t_wmem. cbn. apply (ti_excl _ I).
Qed.

Lemma tso_run_inv : forall ls s s', TInv s -> tso_run true s ls = Some s' -> TInv s'.
Proof.
  induction ls as [|l ls IH]; cbn; intros s s' I H.
  - inversion H; subst; auto.
  - destruct (tso_step true s l) as [s1|] eqn:E; [|discriminate]. eapply IH; [|eauto]. eapply tso_step_inv; eauto.
Qed.

(* asym_mutex_TSO_fenced *)
Lemma asym_mutex_TSO_fenced_proof : forall rf rb ls s p q,
  tso_run true (tso_init rf rb) ls = Some s ->
  in_cs (t_pcs s p) = true -> in_cs (t_pcs s q) = true -> p = q.
Proof.
  intros rf rb ls s p q R Hp Hq.
  pose proof (tso_run_inv ls _ _ (tinv_init rf rb) R) as I.
  destruct p as [|i], q as [|j]; auto.
  - rewrite (ti_excl _ I Hp j) in Hq. discriminate.
  - rewrite (ti_excl _ I Hq i) in Hp. discriminate.
  - f_equal. destruct (ti_b _ I i) as (ci & ri & Ei & _), (ti_b _ I j) as (cj & rj & Ej & _).
    apply (ti_uniq _ I); left.
    + rewrite Ei in *. now apply incs_holds.
    + rewrite Ej in *. now apply incs_holds.
Qed.
