(* C05_Model.v — multi-vCPU thread life-cycle / PLACEMENT model of thread/thread.cpp (pinned tree).
   EXECUTABLE DEFINITIONS ONLY (proofs: C05_Proofs.v).

   Participants are vCPUs (OS threads) 0 .. nv-1.  Every vCPU has a run queue (the ring, CURRENT
   first), a sleep queue, a standby queue, the counter `nthreads` and at most one PENDING action:
   the part of a context switch that runs after the queue manipulation — on the next thread's
   stack — i.e. saving the old context plus the deferred call of switch_context_defer /
   _photon_switch_context_defer_die.  Threads are numbered: 0..nv-1 the main threads of the
   vCPUs, nv..n-1 the threads started by `create`, n+v the idler of vCPU v.

   One transition (`step s l`) = one block of the C++ executed under a lock all of whose footprint
   is protected by that lock (AtomicRunQ = the run-queue lock, proved mutually exclusive in
   C05_AsymProofs.v under SC; thread.lock; standbyq.lock; waitq.lock), by ONE vCPU:

     LStep v     the pending action of v if there is one, else the next block of v's CURRENT
                 thread: the block of the op at its pc/phase (below), `thread::die` when the program
                 is finished, `thread_yield` for the idler
     LDrain v    idler of v: resume_threads, standby part (1270-1278)
     LResume v   idler of v: resume_threads, one expired sleeper (1284-1298)
     LSteal v u t  idler of v: try_work_stealing takes thread t from vCPU u (2002-2091);
                 one thread per step — a scan that takes k threads is k consecutive steps
     LTick d     time passes (any amount)
   vCPU wind-down (2200-2217, 2334-2350): ops `waitall` / `fini` of the main thread of a vCPU = photon::wait_all() /
   vcpu_fini().  wait_all's loop is one block per evaluation of its test (`wait_check`): ring has > 2 members or the
   sleep queue or the standby queue is not empty -> thread_usleep(1000) (sleep queue not empty) or thread_yield(), else
   return.  vcpu_fini's tail (go_offline, state = DONE, join of the idler, which exits, vcpu_destroy) is merged into the
   block of the last test; from then on the vCPU is `offline`: it executes nothing (`frozen`), no steal scan visits it,
   its main thread is no valid target any more (`alive`), `migrate k v` is skipped by the harness, and a deferred
   self-migration that finds its target finalised in between is undefined (`pend_to_offline` -> stuck).

   Blocks of the thread API (line numbers: thread/thread.cpp)
     create (1040-1084)   new READY thread at the run-queue tail of the creator's vCPU, nthreads++
     yield  (1315-1323)   error_number := 0, rotate the ring; pending: save context
     usleep (1358-1391, 1448-1457)  under own thread.lock: leave the ring, SLEEPING, enter the
                          sleep queue (and the wait queue); pending: save context + deferred unlock
     interrupt (1459-1492) unlocked test, then under the target's thread.lock: same vCPU -> READY,
                          out of the sleep queue, run-queue tail; other vCPU -> STANDBY, pushed
                          to the target vCPU's standby queue (still in its sleep queue: the overlap)
     die (997-1024)       take own thread.lock; DONE; cond.notify_one (wake the joiner);
                          nthreads--; leave the ring; pending: dispose (not joinable) or unlock
     join (1544-1557)     take the target's thread.lock; DONE -> retval, dispose; else
                          cond.wait(lock): sleep in the target's wait queue, pending: unlock
     migrate (2145-2194)  other thread: under AtomicRunQ + thread.lock: READY thread leaves the
                          ring, nthreads moves, STANDBY, pushed to the target standby queue;
                          self: rotate the ring, pending: save context + do_thread_migrate(self)
     steal (2002-2091)    under the victim's queue lock + try_lock(thread.lock): a thread that is
                          not RUNNING, allows stealing and is in no sleep queue (stealable(), 231)
                          moves to the thief: nthreads moves, appended to the thief's ring

   A thread spinning on a held thread.lock is a stutter step (the state is returned unchanged).
   thread.lock is held ACROSS steps only by a dying thread (until its pending unlock/dispose) and
   by a joiner (from its check until the pending unlock of cond.wait).

   Granularity notes (what is merged, and why it is sound for the safety theorems):
     * `nthreads` is an atomic counter that no control flow reads: its update is merged into the
       adjacent queue block;
     * a steal scan / a resume pass handles several threads in one lock hold; here each thread is
       its own step (more interleavings than the code, never fewer), and the thief's later
       insert_list_tail is merged into the steal;
     * thread_create + thread_enable_join are one step (the model creates with the joinable flag).
   The single-vCPU cooperative run `coop_run` (bottom of the file) drives the SAME `step` with
   the idler's own rule and the E2 idle rule for time; it is what bin/check compares with the real
   library under engine E2. *)
From Coq Require Import ZArith List Bool Arith.
From PV Require Import Base.U64.
Import ListNotations.
Local Open Scope Z_scope.

Definition tid := nat.
Definition EINVAL : Z := 22.
Definition SKIPPED : Z := -2.
Definition IDLE_CAP : Z := 10 * 1024 * 1024.

Inductive tstate : Type := NOTCREATED | READY | RUNNING | SLEEPING | STANDBY | DONE.
Definition tstate_eqb (a b : tstate) : bool :=
  match a, b with
  | NOTCREATED, NOTCREATED | READY, READY | RUNNING, RUNNING
  | SLEEPING, SLEEPING | STANDBY, STANDBY | DONE, DONE => true
  | _, _ => false
  end.
Inductive kind : Type := KMain | KIdler | KUser.
Definition is_user (k : kind) : bool := match k with KUser => true | _ => false end.
(* thread.lock: free / held by the thread itself while dying / held by its joiner *)
Inductive lockst : Type := LFree | LSelf | LJoin.
Definition lock_free (l : lockst) : bool := match l with LFree => true | _ => false end.

Inductive deferred : Type := DNone | DUnlock (t : tid) | DMigrate (t : tid) (u : nat).
Inductive pending : Type := PNone | PSwitch (from : tid) (d : deferred) | PDie (from : tid).
Definition no_pending (p : pending) : bool := match p with PNone => true | _ => false end.

Record event : Type := mkEv { ev_tid : nat; ev_pc : nat; ev_ret : Z; ev_err : Z; ev_time : Z }.

Inductive op : Type :=
| OUsleep (d : Z)                       (* usleep d       photon::thread_usleep(d) *)
| OYield                                (* yield          photon::thread_yield() *)
| OInterrupt (k : tid) (e : Z)          (* interrupt k e  photon::thread_interrupt *)
| OCreate (k : tid) (jn ws : bool)      (* create k j [ws] thread_create (flags) *)
| OJoin (k : tid)                       (* join k         photon::thread_join *)
| ONop
| ONthreads                             (* nthreads       get_info(INFO_THREAD_NUM) of the own vCPU *)
| OReleased (k : tid)                   (* released k     how often the stack of thread k was handed back *)
| OMigrate (k : tid) (u : nat)          (* migrate k u    photon::thread_migrate(thread k, vCPU u) *)
| OWaitAll                              (* waitall        photon::wait_all() by the main thread of a vCPU (2200-2217) *)
| OFini.                                (* fini           photon::vcpu_fini() by the main thread of a vCPU (2334-2350) *)
Definition is_fini (o : op) : bool := match o with OFini => true | _ => false end.
Definition is_nil {A : Type} (l : list A) : bool := match l with [] => true | _ => false end.

Inductive label : Type :=
| LStep (v : nat) | LDrain (v : nat) | LResume (v : nat) | LSteal (v u : nat) (t : tid) | LTick (d : Z).

Record thread : Type := mkT {
  th_state : tstate;
  th_vcpu : nat;
  th_kind : kind;
  th_err : Z;
  th_ts : Z;
  th_insleep : bool;
  th_waitq : option nat;
  th_joiners : list nat;
  th_joinable : bool;
  th_ws : bool;
  th_lock : lockst;
  th_retval : Z;
  th_pc : nat;
  th_k : nat;
  th_claimed : bool;
  th_fresh : bool;
  g_started : nat;
  g_finished : nat;
  g_disposed : nat;
  g_joinret : nat;
  g_joinval : Z
}.
Definition set_th_state (r : thread) (x : tstate) : thread := mkT x (th_vcpu r) (th_kind r) (th_err r) (th_ts r) (th_insleep r) (th_waitq r) (th_joiners r) (th_joinable r) (th_ws r) (th_lock r) (th_retval r) (th_pc r) (th_k r) (th_claimed r) (th_fresh r) (g_started r) (g_finished r) (g_disposed r) (g_joinret r) (g_joinval r).
Definition set_th_vcpu (r : thread) (x : nat) : thread := mkT (th_state r) x (th_kind r) (th_err r) (th_ts r) (th_insleep r) (th_waitq r) (th_joiners r) (th_joinable r) (th_ws r) (th_lock r) (th_retval r) (th_pc r) (th_k r) (th_claimed r) (th_fresh r) (g_started r) (g_finished r) (g_disposed r) (g_joinret r) (g_joinval r).
Definition set_th_kind (r : thread) (x : kind) : thread := mkT (th_state r) (th_vcpu r) x (th_err r) (th_ts r) (th_insleep r) (th_waitq r) (th_joiners r) (th_joinable r) (th_ws r) (th_lock r) (th_retval r) (th_pc r) (th_k r) (th_claimed r) (th_fresh r) (g_started r) (g_finished r) (g_disposed r) (g_joinret r) (g_joinval r).
Definition set_th_err (r : thread) (x : Z) : thread := mkT (th_state r) (th_vcpu r) (th_kind r) x (th_ts r) (th_insleep r) (th_waitq r) (th_joiners r) (th_joinable r) (th_ws r) (th_lock r) (th_retval r) (th_pc r) (th_k r) (th_claimed r) (th_fresh r) (g_started r) (g_finished r) (g_disposed r) (g_joinret r) (g_joinval r).
Definition set_th_ts (r : thread) (x : Z) : thread := mkT (th_state r) (th_vcpu r) (th_kind r) (th_err r) x (th_insleep r) (th_waitq r) (th_joiners r) (th_joinable r) (th_ws r) (th_lock r) (th_retval r) (th_pc r) (th_k r) (th_claimed r) (th_fresh r) (g_started r) (g_finished r) (g_disposed r) (g_joinret r) (g_joinval r).
Definition set_th_insleep (r : thread) (x : bool) : thread := mkT (th_state r) (th_vcpu r) (th_kind r) (th_err r) (th_ts r) x (th_waitq r) (th_joiners r) (th_joinable r) (th_ws r) (th_lock r) (th_retval r) (th_pc r) (th_k r) (th_claimed r) (th_fresh r) (g_started r) (g_finished r) (g_disposed r) (g_joinret r) (g_joinval r).
Definition set_th_waitq (r : thread) (x : option nat) : thread := mkT (th_state r) (th_vcpu r) (th_kind r) (th_err r) (th_ts r) (th_insleep r) x (th_joiners r) (th_joinable r) (th_ws r) (th_lock r) (th_retval r) (th_pc r) (th_k r) (th_claimed r) (th_fresh r) (g_started r) (g_finished r) (g_disposed r) (g_joinret r) (g_joinval r).
Definition set_th_joiners (r : thread) (x : list nat) : thread := mkT (th_state r) (th_vcpu r) (th_kind r) (th_err r) (th_ts r) (th_insleep r) (th_waitq r) x (th_joinable r) (th_ws r) (th_lock r) (th_retval r) (th_pc r) (th_k r) (th_claimed r) (th_fresh r) (g_started r) (g_finished r) (g_disposed r) (g_joinret r) (g_joinval r).
Definition set_th_joinable (r : thread) (x : bool) : thread := mkT (th_state r) (th_vcpu r) (th_kind r) (th_err r) (th_ts r) (th_insleep r) (th_waitq r) (th_joiners r) x (th_ws r) (th_lock r) (th_retval r) (th_pc r) (th_k r) (th_claimed r) (th_fresh r) (g_started r) (g_finished r) (g_disposed r) (g_joinret r) (g_joinval r).
Definition set_th_ws (r : thread) (x : bool) : thread := mkT (th_state r) (th_vcpu r) (th_kind r) (th_err r) (th_ts r) (th_insleep r) (th_waitq r) (th_joiners r) (th_joinable r) x (th_lock r) (th_retval r) (th_pc r) (th_k r) (th_claimed r) (th_fresh r) (g_started r) (g_finished r) (g_disposed r) (g_joinret r) (g_joinval r).
Definition set_th_lock (r : thread) (x : lockst) : thread := mkT (th_state r) (th_vcpu r) (th_kind r) (th_err r) (th_ts r) (th_insleep r) (th_waitq r) (th_joiners r) (th_joinable r) (th_ws r) x (th_retval r) (th_pc r) (th_k r) (th_claimed r) (th_fresh r) (g_started r) (g_finished r) (g_disposed r) (g_joinret r) (g_joinval r).
Definition set_th_retval (r : thread) (x : Z) : thread := mkT (th_state r) (th_vcpu r) (th_kind r) (th_err r) (th_ts r) (th_insleep r) (th_waitq r) (th_joiners r) (th_joinable r) (th_ws r) (th_lock r) x (th_pc r) (th_k r) (th_claimed r) (th_fresh r) (g_started r) (g_finished r) (g_disposed r) (g_joinret r) (g_joinval r).
Definition set_th_pc (r : thread) (x : nat) : thread := mkT (th_state r) (th_vcpu r) (th_kind r) (th_err r) (th_ts r) (th_insleep r) (th_waitq r) (th_joiners r) (th_joinable r) (th_ws r) (th_lock r) (th_retval r) x (th_k r) (th_claimed r) (th_fresh r) (g_started r) (g_finished r) (g_disposed r) (g_joinret r) (g_joinval r).
Definition set_th_k (r : thread) (x : nat) : thread := mkT (th_state r) (th_vcpu r) (th_kind r) (th_err r) (th_ts r) (th_insleep r) (th_waitq r) (th_joiners r) (th_joinable r) (th_ws r) (th_lock r) (th_retval r) (th_pc r) x (th_claimed r) (th_fresh r) (g_started r) (g_finished r) (g_disposed r) (g_joinret r) (g_joinval r).
Definition set_th_claimed (r : thread) (x : bool) : thread := mkT (th_state r) (th_vcpu r) (th_kind r) (th_err r) (th_ts r) (th_insleep r) (th_waitq r) (th_joiners r) (th_joinable r) (th_ws r) (th_lock r) (th_retval r) (th_pc r) (th_k r) x (th_fresh r) (g_started r) (g_finished r) (g_disposed r) (g_joinret r) (g_joinval r).
Definition set_th_fresh (r : thread) (x : bool) : thread := mkT (th_state r) (th_vcpu r) (th_kind r) (th_err r) (th_ts r) (th_insleep r) (th_waitq r) (th_joiners r) (th_joinable r) (th_ws r) (th_lock r) (th_retval r) (th_pc r) (th_k r) (th_claimed r) x (g_started r) (g_finished r) (g_disposed r) (g_joinret r) (g_joinval r).
Definition set_g_started (r : thread) (x : nat) : thread := mkT (th_state r) (th_vcpu r) (th_kind r) (th_err r) (th_ts r) (th_insleep r) (th_waitq r) (th_joiners r) (th_joinable r) (th_ws r) (th_lock r) (th_retval r) (th_pc r) (th_k r) (th_claimed r) (th_fresh r) x (g_finished r) (g_disposed r) (g_joinret r) (g_joinval r).
Definition set_g_finished (r : thread) (x : nat) : thread := mkT (th_state r) (th_vcpu r) (th_kind r) (th_err r) (th_ts r) (th_insleep r) (th_waitq r) (th_joiners r) (th_joinable r) (th_ws r) (th_lock r) (th_retval r) (th_pc r) (th_k r) (th_claimed r) (th_fresh r) (g_started r) x (g_disposed r) (g_joinret r) (g_joinval r).
Definition set_g_disposed (r : thread) (x : nat) : thread := mkT (th_state r) (th_vcpu r) (th_kind r) (th_err r) (th_ts r) (th_insleep r) (th_waitq r) (th_joiners r) (th_joinable r) (th_ws r) (th_lock r) (th_retval r) (th_pc r) (th_k r) (th_claimed r) (th_fresh r) (g_started r) (g_finished r) x (g_joinret r) (g_joinval r).
Definition set_g_joinret (r : thread) (x : nat) : thread := mkT (th_state r) (th_vcpu r) (th_kind r) (th_err r) (th_ts r) (th_insleep r) (th_waitq r) (th_joiners r) (th_joinable r) (th_ws r) (th_lock r) (th_retval r) (th_pc r) (th_k r) (th_claimed r) (th_fresh r) (g_started r) (g_finished r) (g_disposed r) x (g_joinval r).
Definition set_g_joinval (r : thread) (x : Z) : thread := mkT (th_state r) (th_vcpu r) (th_kind r) (th_err r) (th_ts r) (th_insleep r) (th_waitq r) (th_joiners r) (th_joinable r) (th_ws r) (th_lock r) (th_retval r) (th_pc r) (th_k r) (th_claimed r) (th_fresh r) (g_started r) (g_finished r) (g_disposed r) (g_joinret r) x.

Record vcpu : Type := mkV {
  v_runq : list nat;
  v_sleepq : list nat;
  v_standby : list nat;
  v_nthreads : Z;
  v_pend : pending;
  v_active : bool;
  v_passive : bool
}.
Definition set_v_runq (r : vcpu) (x : list nat) : vcpu := mkV x (v_sleepq r) (v_standby r) (v_nthreads r) (v_pend r) (v_active r) (v_passive r).
Definition set_v_sleepq (r : vcpu) (x : list nat) : vcpu := mkV (v_runq r) x (v_standby r) (v_nthreads r) (v_pend r) (v_active r) (v_passive r).
Definition set_v_standby (r : vcpu) (x : list nat) : vcpu := mkV (v_runq r) (v_sleepq r) x (v_nthreads r) (v_pend r) (v_active r) (v_passive r).
Definition set_v_nthreads (r : vcpu) (x : Z) : vcpu := mkV (v_runq r) (v_sleepq r) (v_standby r) x (v_pend r) (v_active r) (v_passive r).
Definition set_v_pend (r : vcpu) (x : pending) : vcpu := mkV (v_runq r) (v_sleepq r) (v_standby r) (v_nthreads r) x (v_active r) (v_passive r).
Definition set_v_active (r : vcpu) (x : bool) : vcpu := mkV (v_runq r) (v_sleepq r) (v_standby r) (v_nthreads r) (v_pend r) x (v_passive r).
Definition set_v_passive (r : vcpu) (x : bool) : vcpu := mkV (v_runq r) (v_sleepq r) (v_standby r) (v_nthreads r) (v_pend r) (v_active r) x.

Record state : Type := mkS {
  s_now : Z;
  s_nv : nat;
  s_n : nat;
  s_th : nat -> thread;
  s_vc : nat -> vcpu;
  s_trace : list event;
  s_tie : bool;
  s_stuck : bool
}.
Definition set_s_now (r : state) (x : Z) : state := mkS x (s_nv r) (s_n r) (s_th r) (s_vc r) (s_trace r) (s_tie r) (s_stuck r).
Definition set_s_nv (r : state) (x : nat) : state := mkS (s_now r) x (s_n r) (s_th r) (s_vc r) (s_trace r) (s_tie r) (s_stuck r).
Definition set_s_n (r : state) (x : nat) : state := mkS (s_now r) (s_nv r) x (s_th r) (s_vc r) (s_trace r) (s_tie r) (s_stuck r).
Definition set_s_th (r : state) (x : nat -> thread) : state := mkS (s_now r) (s_nv r) (s_n r) x (s_vc r) (s_trace r) (s_tie r) (s_stuck r).
Definition set_s_vc (r : state) (x : nat -> vcpu) : state := mkS (s_now r) (s_nv r) (s_n r) (s_th r) x (s_trace r) (s_tie r) (s_stuck r).
Definition set_s_trace (r : state) (x : list event) : state := mkS (s_now r) (s_nv r) (s_n r) (s_th r) (s_vc r) x (s_tie r) (s_stuck r).
Definition set_s_tie (r : state) (x : bool) : state := mkS (s_now r) (s_nv r) (s_n r) (s_th r) (s_vc r) (s_trace r) x (s_stuck r).
Definition set_s_stuck (r : state) (x : bool) : state := mkS (s_now r) (s_nv r) (s_n r) (s_th r) (s_vc r) (s_trace r) (s_tie r) x.

Definition updp {A : Type} (f : nat -> A) (k : nat) (v : A) : nat -> A :=
  fun x => if Nat.eqb x k then v else f x.

Definition thread0 : thread :=
  mkT NOTCREATED 0 KUser 0 0 false None [] false false LFree 0 0 0 false true 0 0 0 0 0.
Definition vcpu0 : vcpu := mkV [] [] [] 0 PNone false false.

(* ---- list helpers ----------------------------------------------------------------------- *)
Fixpoint remove_tid (t : tid) (l : list tid) : list tid :=
  match l with
  | [] => []
  | x :: r => if Nat.eqb x t then r else x :: remove_tid t r
  end.
Fixpoint mem_tid (t : tid) (l : list tid) : bool :=
  match l with [] => false | x :: r => Nat.eqb x t || mem_tid t r end.
(* the sleep queue is kept sorted by deadline (stable); with pairwise different finite deadlines
   this is the order in which the C++ heap (C04) hands the threads out *)
Fixpoint ins_sorted (ts : tid -> Z) (t : tid) (l : list tid) : list tid :=
  match l with
  | [] => [t]
  | x :: r => if ts t <? ts x then t :: l else x :: ins_sorted ts t r
  end.
Fixpoint has_ts (ts : tid -> Z) (x : Z) (l : list tid) : bool :=
  match l with [] => false | y :: r => (ts y =? x) || has_ts ts x r end.

(* ---- accessors ---------------------------------------------------------------------------- *)
Definition getth (s : state) (t : tid) : thread := s_th s t.
Definition modth (s : state) (t : tid) (f : thread -> thread) : state :=
  set_s_th s (updp (s_th s) t (f (s_th s t))).
Definition getvc (s : state) (v : nat) : vcpu := s_vc s v.
Definition modvc (s : state) (v : nat) (f : vcpu -> vcpu) : state :=
  set_s_vc s (updp (s_vc s) v (f (s_vc s v))).
Definition idler_of (s : state) (v : nat) : tid := (s_n s + v)%nat.
Definition cur (s : state) (v : nat) : option tid :=
  match v_runq (getvc s v) with [] => None | t :: _ => Some t end.
Definition ts_of (s : state) : tid -> Z := fun t => th_ts (getth s t).
Definition stuck (s : state) : state := set_s_stuck s true.

(* class Timeout (common/timeout.h 36-81) *)
Definition timeout_of (now x : Z) : Z := if x =? 0 then 0 else sat_add now x.
Definition expired (now exp : Z) : bool := (exp =? 0) || (exp <=? now).

Section RUN.
  Variable progs : tid -> list op.

  (* the test harness may pass thread k to the photon API (harness/E2 Env::alive): it has been
     created and its `thread` object still exists *)
  Definition finished_h (s : state) (k : tid) : bool := Nat.leb (length (progs k)) (th_pc (getth s k)).
  (* the harness marks a thread finished when its entry function is about to return; T0 (a main thread)
     parks instead and stays a valid target *)
  Definition finished_a (s : state) (k : tid) : bool :=
    is_user (th_kind (getth s k)) && negb (th_fresh (getth s k)) && finished_h s k.
  (* vCPU v is OFFLINE: its main thread (thread v) has completed a `fini` op = photon::vcpu_fini() returned: the
     vCPU left the pvcpu list (go_offline), its idler was joined and the vcpu_t and the main thread object were
     destroyed (2343-2349).  No new state: the fact is read off the main thread's pc. *)
  Definition offline (s : state) (v : nat) : bool :=
    Nat.ltb v (s_nv s) && existsb is_fini (firstn (th_pc (getth s v)) (progs v)).
  Definition alive (s : state) (k : tid) : bool :=
    let th := getth s k in
    Nat.ltb k (s_n s) && negb (tstate_eqb (th_state th) NOTCREATED) &&
    (negb (finished_a s k) || (th_joinable th && Nat.eqb (g_joinret th) 0)) &&
    negb (offline s k).                                     (* the main thread object of a finished vCPU is deleted *)

  (* the thread whose stack vCPU v is physically executing on: until the pending part of a switch
     has run this is still the OLD thread *)
  Definition phys (s : state) (v : nat) : option tid :=
    match v_pend (getvc s v) with
    | PSwitch from _ => Some from
    | PDie from => Some from
    | PNone => cur s v
    end.

  (* to->state = RUNNING; the first switch to a fresh stack enters _photon_thread_stub *)
  Definition switch_in (s : state) (t : tid) : state :=
    modth s t (fun th =>
      let th1 := set_th_state th RUNNING in
      if th_fresh th then set_g_started (set_th_fresh th1 false) (S (g_started th)) else th1).

  (* thread_yield / AtomicRunQ::goto_next (666-677) + switch_context: pending = save context *)
  Definition do_yield (s : state) (v : nat) (clear_err : bool) (d : deferred) : state :=
    match v_runq (getvc s v) with
    | c :: n :: rest =>
        let s1 := switch_in s n in
        let s2 := modth s1 c (fun th => set_th_state (if clear_err then set_th_err th 0 else th) READY) in
        modvc s2 v (fun x => set_v_pend (set_v_runq x (n :: rest ++ [c])) (PSwitch c d))
    | _ => stuck s
    end.

  (* prepare_usleep (1358-1374) + switch_context[_defer]; the caller has checked own lock free *)
  Definition do_sleep (s : state) (v : nat) (exp : Z) (wq : option tid) (d : deferred) : state :=
    match v_runq (getvc s v) with
    | c :: n :: rest =>
        let s1 := switch_in s n in
        let s2 := modth s1 c (fun th => set_th_waitq (set_th_ts (set_th_insleep (set_th_state th SLEEPING) true) exp) wq) in
        let s3 := match wq with Some x => modth s2 x (fun th => set_th_joiners th (th_joiners th ++ [c])) | None => s2 end in
        let tie := (exp <? MAX64) && has_ts (ts_of s3) exp (v_sleepq (getvc s3 v)) in
        let s4 := modvc s3 v (fun x => set_v_pend (set_v_sleepq (set_v_runq x (n :: rest))
                                                    (ins_sorted (ts_of s3) c (v_sleepq x))) (PSwitch c d)) in
        if tie then set_s_tie s4 true else s4
    | _ => stuck s
    end.

  (* thread::dequeue_ready_atomic (724-736): leave the wait queue *)
  Definition dequeue (s : state) (t : tid) : state :=
    match th_waitq (getth s t) with
    | Some x => modth (modth s x (fun th => set_th_joiners th (remove_tid t (th_joiners th)))) t (fun th => set_th_waitq th None)
    | None => s
    end.

  (* prelocked_thread_interrupt (1459-1475) executed by vCPU v on a SLEEPING thread t *)
  Definition wake (s : state) (v : nat) (t : tid) (e : Z) : state :=
    let s1 := dequeue (modth s t (fun th => set_th_err th e)) t in
    let u := th_vcpu (getth s1 t) in
    if Nat.eqb u v then
      let s2 := modth s1 t (fun th => set_th_insleep (set_th_state th READY) false) in
      modvc s2 v (fun x => set_v_runq (set_v_sleepq x (remove_tid t (v_sleepq x))) (v_runq x ++ [t]))
    else
      let s2 := modth s1 t (fun th => set_th_state th STANDBY) in
      modvc s2 u (fun x => set_v_standby x (v_standby x ++ [t])).

  (* thread_interrupt (1476-1492); None = spinning on the target's lock *)
  Definition do_interrupt (s : state) (v : nat) (t : tid) (e : Z) : option state :=
    let th := getth s t in
    match th_state th with
    | SLEEPING => if lock_free (th_lock th) then Some (wake s v t e) else None
    | READY => Some (if th_err th =? 0 then modth s t (fun x => set_th_err x e) else s)
    | _ => Some s
    end.

  (* thread_create (1040-1084) *)
  Definition do_create (s : state) (v : nat) (k : tid) (jn ws : bool) : state :=
    (* the new `thread` object; its join queue (thread::cond) is the empty queue that the slot of a
       thread which does not exist yet always has (nobody can wait for it) *)
    let th := mkT READY v KUser 0 0 false None (th_joiners (getth s k)) jn ws LFree 0 0 0 false true 0 0 0 0 0 in
    let s1 := set_s_th s (updp (s_th s) k th) in
    modvc s1 v (fun x => set_v_nthreads (set_v_runq x (v_runq x ++ [k])) (v_nthreads x + 1)).

  (* thread::die (997-1024); None = spinning on a lock *)
  Definition do_die (s : state) (v : nat) (retval : Z) : option state :=
    match v_runq (getvc s v) with
    | c :: n :: rest =>
        let th := getth s c in
        let ok := lock_free (th_lock th) &&
                  match th_joiners th with j :: _ => lock_free (th_lock (getth s j)) | [] => true end in
        if negb ok then None else
        (* one block under thread.lock; the sub-steps touch different threads, listed here in an order
           in which every intermediate state is well formed: cond.notify_one, the switch, DONE + leave *)
        let s1 := match th_joiners th with j :: _ => wake s v j (-1) | [] => s end in
        let s2 := switch_in s1 n in
        let s3 := modth s2 c (fun x => set_g_finished (set_th_retval (set_th_state (set_th_lock x LSelf) DONE) retval)
                                                     (S (g_finished x))) in
        Some (modvc s3 v (fun x => set_v_pend (set_v_nthreads (set_v_runq x (remove_tid c (v_runq x))) (v_nthreads x - 1)) (PDie c)))
    | _ => Some (stuck s)
    end.

  (* do_thread_migrate (2178-2194) executed by vCPU v.  None = spinning; Some (s, ok) *)
  Definition do_migrate (s : state) (v : nat) (t : tid) (u : nat) : option (state * bool) :=
    let th := getth s t in
    if negb (lock_free (th_lock th)) then None else
    if tstate_eqb (th_state th) READY && Nat.eqb (th_vcpu th) v && negb (Nat.eqb u v)
       && mem_tid t (v_runq (getvc s v)) && negb (match cur s v with Some c => Nat.eqb c t | None => true end)
    then
      let s1 := modth s t (fun x => set_th_vcpu (set_th_state x STANDBY) u) in
      let s2 := modvc s1 v (fun x => set_v_nthreads (set_v_runq x (remove_tid t (v_runq x))) (v_nthreads x - 1)) in
      Some (modvc s2 u (fun x => set_v_nthreads (set_v_standby x (v_standby x ++ [t])) (v_nthreads x + 1)), true)
    else Some (s, false).

  (* the part of a context switch that runs on the next thread's stack *)
  Definition exec_pend (s : state) (v : nat) : state :=
    match v_pend (getvc s v) with
    | PNone => s
    | PSwitch from d =>
        let s0 := modvc s v (fun x => set_v_pend x PNone) in
        match d with
        | DNone => s0
        | DUnlock t => modth s0 t (fun th => set_th_lock th LFree)
        | DMigrate t u =>
            match do_migrate s0 v t u with
            | Some (s1, _) => s1
            | None => s                       (* spinning on t's lock: the deferred call is still pending *)
            end
        end
    | PDie from =>
        let s0 := modvc s v (fun x => set_v_pend x PNone) in
        if th_joinable (getth s0 from)
        then modth s0 from (fun th => set_th_lock th LFree)                       (* spinlock_unlock(&lock) *)
        else modth s0 from (fun th => set_g_disposed th (S (g_disposed th)))      (* thread::dispose *)
    end.

  (* an op returns: one trace event, pc+1 *)
  Definition ret (s : state) (c : tid) (r e : Z) : state :=
    let th := getth s c in
    let s1 := set_s_trace s (mkEv c (th_pc th) r e (s_now s) :: s_trace s) in
    modth s1 c (fun x => set_th_k (set_th_pc x (S (th_pc x))) 0%nat).
  Definition setk (s : state) (c : tid) (k : nat) : state := modth s c (fun x => set_th_k x k).
  (* thread::set_error_number (232-239) *)
  Definition set_error_number (s : state) (c : tid) : state * Z * Z :=
    let e := th_err (getth s c) in
    if e =? 0 then (s, 0, 0) else (modth s c (fun x => set_th_err x 0), -1, e).

  (* thread_join (1544-1557): lock; DONE -> retval + dispose; else cond.wait(lock) *)
  Definition join_check (s : state) (v : nat) (c j : tid) : state :=
    let tj := getth s j in
    if tstate_eqb (th_state tj) NOTCREATED then stuck s else                       (* no such thread: undefined in C++ *)
    if negb (th_joinable tj) then ret s c 0 38 else                                (* 1546-1548: not joinable -> nullptr, ENOSYS *)
    if negb (lock_free (th_lock tj)) then s else                                   (* spin *)
    if tstate_eqb (th_state tj) DONE then
      let s1 := modth s j (fun x => set_g_joinval (set_g_joinret (set_g_disposed (set_th_lock x LJoin) (S (g_disposed x)))
                                                   (S (g_joinret x))) (th_retval x)) in
      ret s1 c (th_retval tj) 0
    else if negb (lock_free (th_lock (getth s c))) then s                          (* spin in prepare_usleep *)
    else
      let s1 := modth s j (fun x => set_th_lock x LJoin) in
      do_sleep (setk s1 c 2) v MAX64 (Some j) (DUnlock j).

  (* wait_all (2200-2212): `while (!AtomicRunQ(rq).size_1or2() || !sleepq.empty() || !standbyq.empty())`;
     size_1or2 (688) = `current->next() == current->prev()` = the ring has one or two members *)
  Definition wait_cond (s : state) (v : nat) : bool :=
    let vc := getvc s v in
    negb (Nat.leb (length (v_runq vc)) 2) || negb (is_nil (v_sleepq vc)) || negb (is_nil (v_standby vc)).
  Definition online_count (s : state) : Z :=
    Z.of_nat (length (filter (fun u => negb (offline s u)) (seq 0 (s_nv s)))).
  (* one evaluation of the loop test and the block that follows it: thread_usleep(1000) if the sleep queue is not
     empty, else thread_yield(); when the test fails wait_all returns 0, and vcpu_fini goes on (2343-2349, merged
     into this block: go_offline, state = DONE, join of the idler, which exits, vcpu_destroy; returns --_n_vcpu) *)
  Definition wait_check (s : state) (v : nat) (c : tid) (fini : bool) : state :=
    if wait_cond s v then
      match v_sleepq (getvc s v) with
      | [] => do_yield (setk s c 2) v true DNone
      | _ :: _ =>
          let exp := timeout_of (s_now s) 1000 in
          if expired (s_now s) exp then do_yield (setk s c 2) v true DNone
          else if lock_free (th_lock (getth s c)) then do_sleep (setk s c 1) v exp None DNone
          else s
      end
    else ret s c (if fini then online_count s - 1 else 0) 0.
  (* phases: 0 = entry (a gate of the replay), 3 = loop head again, 1 = back from thread_usleep, 2 = back from thread_yield.
     Only the main thread of the executing vCPU (thread v on vCPU v) may call it here: a stolen / migrated caller of wait_all
     would go on with the RunQ and vcpu_t of its old vCPU (not modelled: the replay harness skips the call), and vcpu_fini
     by any other thread destroys a vCPU under its running main thread (undefined) *)
  Definition wait_all_op (s : state) (v : nat) (c : tid) (fini : bool) : state :=
    let th := getth s c in
    if Nat.eqb c v then
      match th_k th with
      | S O => let '(s1, _, _) := set_error_number s c in setk s1 c 3
      | S (S O) => setk s c 3
      | _ => wait_check s v c fini
      end
    else if fini then stuck s else ret s c SKIPPED 0.

  Definition exec_op (s : state) (v : nat) (c : tid) (o : op) : state :=
    let th := getth s c in
    match o with
    | OUsleep d =>
        match th_k th with
        | O =>
            let exp := timeout_of (s_now s) d in
            if expired (s_now s) exp then do_yield (setk s c 2) v true DNone                 (* yield_as_sleep *)
            else if lock_free (th_lock th) then do_sleep (setk s c 1) v exp None DNone
            else s
        | S O => let '(s1, r, e) := set_error_number s c in ret s1 c r e
        | _ => let e := th_err th in if e =? 0 then ret s c 0 0 else ret s c (-1) e           (* 1375-1379 *)
        end
    | OYield =>
        match th_k th with
        | O => do_yield (setk s c 1) v true DNone
        | _ => ret s c (th_err th) 0
        end
    | OInterrupt j e =>
        if alive s j then
          match do_interrupt s v j e with Some s1 => ret s1 c 0 0 | None => s end
        else ret s c SKIPPED 0
    | OCreate j jn ws =>
        if Nat.leb (s_nv s) j && Nat.ltb j (s_n s) && tstate_eqb (th_state (getth s j)) NOTCREATED
        then ret (do_create s v j jn ws) c 0 0 else ret s c SKIPPED 0
    | OJoin j =>
        match th_k th with
        | O =>
            if alive s j && negb (Nat.eqb j c) && th_joinable (getth s j) && negb (th_claimed (getth s j))
            then setk (modth s j (fun x => set_th_claimed x true)) c 1
            else ret s c SKIPPED 0
        | S O => join_check s v c j
        | _ => let '(s1, _, _) := set_error_number s c in setk s1 c 1
        end
    | ONop => ret s c 0 0
    | ONthreads => ret s c (v_nthreads (getvc s v)) 0
    | OReleased j =>
        if Nat.leb (s_nv s) j && Nat.ltb j (s_n s) && negb (tstate_eqb (th_state (getth s j)) NOTCREATED)
        then ret s c (Z.of_nat (g_disposed (getth s j))) 0 else ret s c SKIPPED 0
    | OMigrate j u =>                                            (* thread_migrate (2158-2177) *)
        match th_k th with
        | O =>
            if negb (alive s j && Nat.ltb u (s_nv s) && is_user (th_kind (getth s j)) && negb (offline s u)) then ret s c SKIPPED 0
            else if Nat.eqb u v then ret s c 0 0
            else if Nat.eqb j c then do_yield (setk s c 1) v false (DMigrate c u)       (* defer_migrate_current *)
            else if negb (Nat.eqb (th_vcpu (getth s j)) v) then ret s c (-1) EINVAL
            else if negb (tstate_eqb (th_state (getth s j)) READY) then ret s c (-1) EINVAL
            else match do_migrate s v j u with
                 | None => s
                 | Some (s1, true) => ret s1 c 0 0
                 | Some (s1, false) => ret s1 c (-1) EINVAL
                 end
        | _ => ret s c 0 0
        end
    | OWaitAll => wait_all_op s v c false
    | OFini => wait_all_op s v c true
    end.

  Definition retval_of (t : tid) : Z := 1000 + Z.of_nat t.

  (* next block of vCPU v *)
  Definition step_vcpu (s : state) (v : nat) : state :=
    let vc := getvc s v in
    if negb (no_pending (v_pend vc)) then exec_pend s v else
    match v_runq vc with
    | [] => stuck s
    | c :: _ =>
        let th := getth s c in
        match th_state th with
        | RUNNING =>
          match th_kind th with
          | KIdler => match v_runq vc with [_] => s | _ => do_yield s v true DNone end
          | k =>
            match nth_error (progs c) (th_pc th) with
            | Some o => exec_op s v c o
            | None =>
                match k with
                | KUser => match do_die s v (retval_of c) with Some s1 => s1 | None => s end
                | _ => (* a main thread parks for ever: `while (true) thread_usleep(-1)` *)
                    match th_k th with
                    | O => if lock_free (th_lock th) then do_sleep (setk s c 1) v MAX64 None DNone else s
                    | _ => let '(s1, _, _) := set_error_number s c in setk s1 c 0
                    end
                end
            end
          end
        | _ => stuck s                 (* the CURRENT thread of a vCPU is not RUNNING: zombie *)
        end
    end.

  Definition idler_running (s : state) (v : nat) : bool :=
    no_pending (v_pend (getvc s v)) &&
    match cur s v with Some c => Nat.eqb c (idler_of s v) | None => false end.

  (* resume_threads_inlined, standby part (1270-1278): the whole standby queue becomes READY,
     leaves the sleep queue, and is appended to the run queue (1299-1302) *)
  Definition drain_one (s : state) (v : nat) (t : tid) : state :=
    if negb (mem_tid t (v_standby (getvc s v))) then s else
    let s1 := modth s t (fun th => set_th_insleep (set_th_state th READY) false) in
    modvc s1 v (fun x => set_v_runq (set_v_sleepq (set_v_standby x (remove_tid t (v_standby x)))
                                                  (remove_tid t (v_sleepq x))) (v_runq x ++ [t])).
  Fixpoint drain_list (s : state) (v : nat) (l : list tid) : state :=
    match l with
    | [] => s
    | t :: r => drain_list (drain_one s v t) v r
    end.
  Definition do_drain (s : state) (v : nat) : state := drain_list s v (v_standby (getvc s v)).

  (* resume_threads_inlined, one iteration of the expiry loop (1284-1298) *)
  Definition do_resume (s : state) (v : nat) : state :=
    match v_sleepq (getvc s v) with
    | [] => s
    | t :: rest =>
        let th := getth s t in
        if s_now s <? th_ts th then s else
        if negb (lock_free (th_lock th)) then s else
        if tstate_eqb (th_state th) SLEEPING then
          let s1 := dequeue s t in
          let s2 := modth s1 t (fun x => set_th_insleep (set_th_state x READY) false) in
          modvc s2 v (fun x => set_v_runq (set_v_sleepq x (remove_tid t (v_sleepq x))) (v_runq x ++ [t]))
        else
          (* interrupted from another vCPU after the standby pass: it stays in the standby queue *)
          modvc (modth s t (fun x => set_th_insleep x false)) v (fun x => set_v_sleepq x (remove_tid t (v_sleepq x)))
    end.

  (* ws_scan_q / ws_scan_standbyq (2002-2063), one thread *)
  Definition stealable (th : thread) : bool := th_ws th && negb (th_insleep th).
  Definition do_steal (s : state) (v u : nat) (t : tid) : state :=
    let th := getth s t in
    let vu := getvc s u in
    if negb (Nat.ltb u (s_nv s) && negb (Nat.eqb u v) && v_active (getvc s v) && v_passive vu
             && stealable th && lock_free (th_lock th)) then s else
    let take (s0 : state) : state :=
      let s1 := modth s0 t (fun x => set_th_vcpu x v) in
      let s2 := modvc s1 u (fun x => set_v_nthreads x (v_nthreads x - 1)) in
      modvc s2 v (fun x => set_v_nthreads (set_v_runq x (v_runq x ++ [t])) (v_nthreads x + 1)) in
    if mem_tid t (v_standby vu) then
      take (modvc s u (fun x => set_v_standby x (remove_tid t (v_standby x))))
    else if mem_tid t (v_runq vu) && negb (tstate_eqb (th_state th) RUNNING)
    then take (modvc s u (fun x => set_v_runq x (remove_tid t (v_runq x))))
    else s.

  (* an offline vCPU executes nothing and is in no pvcpu list (no steal scan visits it) *)
  Definition frozen (s : state) (l : label) : bool :=
    match l with
    | LStep v | LDrain v | LResume v => offline s v
    | LSteal v u _ => offline s v || offline s u
    | LTick _ => false
    end.
  (* the deferred do_thread_migrate(CURRENT, u) of a self-migration whose target vCPU was finalised between the call and
     the deferred part: the code pushes into a freed vcpu_t — undefined *)
  Definition pend_to_offline (s : state) (v : nat) : bool :=
    match v_pend (getvc s v) with PSwitch _ (DMigrate _ u) => offline s u | _ => false end.

  Definition step (s : state) (l : label) : state :=
    if s_stuck s then s else
    if frozen s l then s else
    match l with
    | LStep v => if Nat.ltb v (s_nv s) then (if pend_to_offline s v then stuck s else step_vcpu s v) else s
    | LDrain v => if Nat.ltb v (s_nv s) && idler_running s v then do_drain s v else s
    | LResume v => if Nat.ltb v (s_nv s) && idler_running s v then do_resume s v else s
    | LSteal v u t => if Nat.ltb v (s_nv s) && idler_running s v then do_steal s v u t else s
    | LTick d => if 0 <=? d then set_s_now s (sat_add (s_now s) d) else s
    end.

  Fixpoint run (s : state) (ls : list label) : state :=
    match ls with [] => s | l :: r => run (step s l) r end.

  (* ---- initial state: nv vCPUs after vcpu_init (2230-2258), n program threads ---------------- *)
  Definition init_thread (nv n : nat) (t : tid) : thread :=
    if Nat.ltb t nv then mkT RUNNING t KMain 0 0 false None [] false false LFree 0 0 0 false false 1 0 0 0 0
    else if Nat.leb n t && Nat.ltb t (n + nv)
    then mkT READY (t - n) KIdler 0 0 false None [] true false LFree 0 0 0 false true 0 0 0 0 0
    else thread0.
  Definition init_vcpu (nv n : nat) (flags : nat -> bool * bool) (v : nat) : vcpu :=
    if Nat.ltb v nv then mkV [v; (n + v)%nat] [] [] 2 PNone (fst (flags v)) (snd (flags v)) else vcpu0.
  Definition init_state (nv n : nat) (flags : nat -> bool * bool) (t0 : Z) : state :=
    mkS t0 nv n (init_thread nv n) (init_vcpu nv n flags) [] false false.

  (* ---- the cooperative single-vCPU run (engine E2) ------------------------------------------- *)
  Fixpoint resume_loop (fuel : nat) (s : state) : state :=
    match fuel with
    | O => s
    | S f =>
        match v_sleepq (getvc s 0%nat) with
        | t :: _ => if s_now s <? th_ts (getth s t) then s else resume_loop f (step s (LResume 0%nat))
        | [] => s
        end
    end.
  (* one round of the idler (2092-2121) under the E2 idle rule; returns (state, run ended) *)
  Definition idler_round (s : state) : state * bool :=
    let s1 := step s (LDrain 0%nat) in
    let s2 := resume_loop (S (length (v_sleepq (getvc s1 0%nat)))) s1 in
    match v_runq (getvc s2 0%nat) with
    | [_] =>
        match v_sleepq (getvc s2 0%nat) with
        | [] => (s2, true)
        | t :: _ =>
            let ts := th_ts (getth s2 t) in
            if ts =? MAX64 then (s2, true)
            else (step s2 (LTick (Z.min IDLE_CAP (sat_sub ts (s_now s2)))), false)
        end
    | _ => (step s2 (LStep 0%nat), false)
    end.
  Definition coop_step (s : state) : state * bool :=
    if idler_running s 0%nat then idler_round s else (step s (LStep 0%nat), false).
  Fixpoint coop_run (fuel : nat) (s : state) : state * bool :=
    match fuel with
    | O => (s, false)
    | S f => if s_stuck s then (s, false) else
             let '(s1, e) := coop_step s in if e then (s1, true) else coop_run f s1
    end.

  Fixpoint blocked_from (s : state) (k n : nat) : list (tid * nat) :=
    match n with
    | O => []
    | S m =>
        let th := getth s k in
        let rest := blocked_from s (S k) m in
        if negb (tstate_eqb (th_state th) NOTCREATED) && negb (finished_h s k)
        then (k, th_pc th) :: rest else rest
    end.

  (* result of a cooperative run: trace (oldest first), blocked threads, now, ended, stuck, tie,
     per-thread ghost counters (started, finished, disposed, join returns), final nthreads *)
  Definition coop_result (n : nat) (fuel : nat) (t0 : Z) :=
    let '(s, e) := coop_run fuel (init_state 1 n (fun _ => (false, false)) t0) in
    (rev (s_trace s), blocked_from s 0 n, s_now s, (e, s_stuck s, s_tie s),
     map (fun k => let th := getth s k in (g_started th, g_finished th, g_disposed th, g_joinret th)) (seq 0 n),
     v_nthreads (getvc s 0%nat)).
End RUN.
