(* C05_Proofs.v — inductive invariants of the life-cycle model (C05_Model.v) over every schedule
   (`run (init_state ...) labels`), any number of vCPUs and threads, every program. *)
From Coq Require Import ZArith List Bool Arith Lia.
From PV Require Import Base.U64 C05.C05_Model.
Import ListNotations.
Local Open Scope nat_scope.

(* ---- generic ---------------------------------------------------------------------------- *)
Lemma updp_eq : forall A (f : nat -> A) k v, updp f k v k = v.
Proof. intros. unfold updp. now rewrite Nat.eqb_refl. Qed.
Lemma updp_neq : forall A (f : nat -> A) k v x, x <> k -> updp f k v x = f x.
Proof. intros. unfold updp. destruct (Nat.eqb x k) eqn:E; auto. apply Nat.eqb_eq in E. congruence. Qed.

Definition cnt (x : tid) (l : list tid) : nat := count_occ Nat.eq_dec l x.

Lemma cnt_nil : forall x, cnt x [] = 0. Proof. reflexivity. Qed.
Arguments cnt : simpl never.
Lemma cnt_cons : forall x a l, cnt x (a :: l) = (if Nat.eqb a x then 1 else 0) + cnt x l.
Proof.
  intros. unfold cnt. cbn. destruct (Nat.eq_dec a x) as [->|N].
  - now rewrite Nat.eqb_refl.
  - apply Nat.eqb_neq in N. now rewrite N.
Qed.
Lemma cnt_app : forall x l1 l2, cnt x (l1 ++ l2) = cnt x l1 + cnt x l2.
Proof. intros. unfold cnt. apply count_occ_app. Qed.
Lemma cnt_snoc : forall x a l, cnt x (l ++ [a]) = cnt x l + (if Nat.eqb a x then 1 else 0).
Proof. intros. rewrite cnt_app, cnt_cons, cnt_nil. lia. Qed.
Lemma cnt_remove_same : forall a l, cnt a (remove_tid a l) = pred (cnt a l).
Proof.
  induction l as [|x r IH]; cbn [remove_tid]; auto.
  destruct (Nat.eqb x a) eqn:E.
  - rewrite cnt_cons, E. cbn. reflexivity.
  - rewrite !cnt_cons, E, IH. cbn. reflexivity.
Qed.
Lemma cnt_remove_other : forall x a l, x <> a -> cnt x (remove_tid a l) = cnt x l.
Proof.
  induction l as [|y r IH]; cbn [remove_tid]; auto. intro N.
  destruct (Nat.eqb y a) eqn:E.
  - apply Nat.eqb_eq in E. subst y. rewrite cnt_cons.
    assert (Nat.eqb a x = false) by (apply Nat.eqb_neq; congruence). rewrite H. reflexivity.
  - rewrite !cnt_cons, IH; auto.
Qed.
Lemma cnt_ins : forall ts x a l, cnt x (ins_sorted ts a l) = (if Nat.eqb a x then 1 else 0) + cnt x l.
Proof.
  induction l as [|y r IH]; cbn [ins_sorted].
  - rewrite cnt_cons. reflexivity.
  - destruct (Z.ltb (ts a) (ts y)).
    + rewrite cnt_cons. reflexivity.
    + rewrite !cnt_cons, IH. lia.
Qed.
Lemma mem_cnt : forall x l, mem_tid x l = true <-> cnt x l >= 1.
Proof.
  induction l as [|y r IH]; cbn [mem_tid].
  - rewrite cnt_nil. split; [discriminate|lia].
  - rewrite cnt_cons, orb_true_iff, IH. destruct (Nat.eqb y x); split; intros H.
    + lia.
    + now left.
    + destruct H as [H|H]; [discriminate|lia].
    + right. lia.
Qed.
Lemma cnt_head : forall x l, cnt x (x :: l) >= 1.
Proof. intros. rewrite cnt_cons, Nat.eqb_refl. lia. Qed.

(* ---- projections through the state transformers ------------------------------------------ *)
Lemma th_modth : forall s t f x, s_th (modth s t f) x = if Nat.eqb x t then f (s_th s t) else s_th s x.
Proof. reflexivity. Qed.
Lemma vc_modth : forall s t f, s_vc (modth s t f) = s_vc s. Proof. reflexivity. Qed.
Lemma th_modvc : forall s v g, s_th (modvc s v g) = s_th s. Proof. reflexivity. Qed.
Lemma vc_modvc : forall s v g y, s_vc (modvc s v g) y = if Nat.eqb y v then g (s_vc s v) else s_vc s y.
Proof. reflexivity. Qed.
Lemma nv_modth : forall s t f, s_nv (modth s t f) = s_nv s. Proof. reflexivity. Qed.
Lemma nv_modvc : forall s v g, s_nv (modvc s v g) = s_nv s. Proof. reflexivity. Qed.
Lemma n_modth : forall s t f, s_n (modth s t f) = s_n s. Proof. reflexivity. Qed.
Lemma n_modvc : forall s v g, s_n (modvc s v g) = s_n s. Proof. reflexivity. Qed.

Definition live (th : thread) : bool :=
  negb (tstate_eqb (th_state th) NOTCREATED) && negb (tstate_eqb (th_state th) DONE).

(* ---- the placement invariant ---------------------------------------------------------------
   For thread t and vCPU v let (r, q, b) be the number of occurrences of t in v's run queue,
   sleep queue and standby queue.  They are determined by the thread's own fields: *)
Definition place_ok (th : thread) (r q b : nat) : Prop :=
  match th_state th, th_insleep th with
  | SLEEPING, true => r = 0 /\ q = 1 /\ b = 0
  | STANDBY, true => r = 0 /\ q = 1 /\ b = 1               (* the documented overlap *)
  | STANDBY, false => q = 0 /\ r + b = 1                    (* in a standby queue, or stolen from one *)
  | READY, false => r = 1 /\ q = 0 /\ b = 0
  | RUNNING, false => r = 1 /\ q = 0 /\ b = 0
  | _, _ => False
  end.

Definition placed (s : state) (t : tid) (v : nat) : Prop :=
  let th := s_th s t in let vc := s_vc s v in
  let r := cnt t (v_runq vc) in let q := cnt t (v_sleepq vc) in let b := cnt t (v_standby vc) in
  if live th && Nat.eqb (th_vcpu th) v then place_ok th r q b else r = 0 /\ q = 0 /\ b = 0.

(* wait queues (thread::cond of the thread being joined): j is in x's queue iff j.waitq = x,
   and only SLEEPING threads wait *)
Definition opt_eqb (a : option nat) (x : nat) : bool :=
  match a with Some y => Nat.eqb y x | None => false end.
Definition waits (s : state) (j x : tid) : Prop :=
  cnt j (th_joiners (s_th s x)) = (if opt_eqb (th_waitq (s_th s j)) x then 1 else 0) /\
  (th_waitq (s_th s j) <> None -> th_state (s_th s j) = SLEEPING).

Record Inv1 (s : state) : Prop := mkInv1 {
  i_placed : forall t v, placed s t v;
  i_waits : forall j x, waits s j x
}.

Ltac simp_st := repeat rewrite ?th_modth, ?vc_modth, ?th_modvc, ?vc_modvc.
Ltac simp_st_in H := repeat rewrite ?th_modth, ?vc_modth, ?th_modvc, ?vc_modvc in H.

Lemma eqb_sym_false : forall a b, Nat.eqb a b = false -> Nat.eqb b a = false.
Proof. intros. rewrite Nat.eqb_sym. auto. Qed.

(* facts about a thread that occurs in a run queue *)
Lemma in_runq_facts : forall s t v, placed s t v -> cnt t (v_runq (s_vc s v)) >= 1 ->
  live (s_th s t) = true /\ th_vcpu (s_th s t) = v /\ th_insleep (s_th s t) = false /\
  cnt t (v_runq (s_vc s v)) = 1 /\ cnt t (v_sleepq (s_vc s v)) = 0 /\ cnt t (v_standby (s_vc s v)) = 0 /\
  (th_state (s_th s t) = READY \/ th_state (s_th s t) = RUNNING \/ th_state (s_th s t) = STANDBY).
Proof.
  unfold placed. intros s t v P H.
  destruct (live (s_th s t) && Nat.eqb (th_vcpu (s_th s t)) v) eqn:E.
  - apply andb_true_iff in E. destruct E as [E1 E2]. apply Nat.eqb_eq in E2.
    unfold place_ok in P. destruct (th_state (s_th s t)), (th_insleep (s_th s t)); try tauto; intuition lia.
  - lia.
Qed.

Lemma in_sleepq_facts : forall s t v, placed s t v -> cnt t (v_sleepq (s_vc s v)) >= 1 ->
  live (s_th s t) = true /\ th_vcpu (s_th s t) = v /\ th_insleep (s_th s t) = true /\
  cnt t (v_runq (s_vc s v)) = 0 /\ cnt t (v_sleepq (s_vc s v)) = 1 /\
  ((th_state (s_th s t) = SLEEPING /\ cnt t (v_standby (s_vc s v)) = 0) \/
   (th_state (s_th s t) = STANDBY /\ cnt t (v_standby (s_vc s v)) = 1)).
Proof.
  unfold placed. intros s t v P H.
  destruct (live (s_th s t) && Nat.eqb (th_vcpu (s_th s t)) v) eqn:E.
  - apply andb_true_iff in E. destruct E as [E1 E2]. apply Nat.eqb_eq in E2.
    unfold place_ok in P. destruct (th_state (s_th s t)), (th_insleep (s_th s t)); try tauto; intuition lia.
  - lia.
Qed.

Lemma in_standby_facts : forall s t v, placed s t v -> cnt t (v_standby (s_vc s v)) >= 1 ->
  live (s_th s t) = true /\ th_vcpu (s_th s t) = v /\ th_state (s_th s t) = STANDBY /\
  cnt t (v_runq (s_vc s v)) = 0 /\ cnt t (v_standby (s_vc s v)) = 1 /\
  cnt t (v_sleepq (s_vc s v)) = (if th_insleep (s_th s t) then 1 else 0).
Proof.
  unfold placed. intros s t v P H.
  destruct (live (s_th s t) && Nat.eqb (th_vcpu (s_th s t)) v) eqn:E.
  - apply andb_true_iff in E. destruct E as [E1 E2]. apply Nat.eqb_eq in E2.
    unfold place_ok in P. destruct (th_state (s_th s t)), (th_insleep (s_th s t)); try tauto; intuition lia.
  - lia.
Qed.

(* a thread in state SLEEPING sits in the sleep queue of its vCPU *)
Lemma sleeping_facts : forall s t, (forall v, placed s t v) -> th_state (s_th s t) = SLEEPING ->
  let v := th_vcpu (s_th s t) in
  th_insleep (s_th s t) = true /\ cnt t (v_runq (s_vc s v)) = 0 /\ cnt t (v_sleepq (s_vc s v)) = 1 /\
  cnt t (v_standby (s_vc s v)) = 0.
Proof.
  intros s t P E v. specialize (P v). unfold placed in P.
  unfold live in P. rewrite E in P. cbn in P. fold v in P. rewrite Nat.eqb_refl in P.
  unfold place_ok in P. rewrite E in P. destruct (th_insleep (s_th s t)); tauto.
Qed.

(* updates of a thread that leave its scheduling fields alone *)
Definition same_sched (a b : thread) : Prop :=
  th_state a = th_state b /\ th_vcpu a = th_vcpu b /\ th_insleep a = th_insleep b /\
  th_waitq a = th_waitq b /\ th_joiners a = th_joiners b.

Lemma inv1_neutral : forall s t f, (forall th, same_sched (f th) th) -> Inv1 s -> Inv1 (modth s t f).
Proof.
  intros s t f Hf I. constructor.
  - intros x v. generalize (i_placed _ I x v). unfold placed, live, place_ok. simp_st.
    destruct (Nat.eqb x t) eqn:E; auto.
    apply Nat.eqb_eq in E. subst x. destruct (Hf (s_th s t)) as (h1 & h2 & h3 & h4 & h5).
    rewrite h1, h2, h3. auto.
  - intros j x. generalize (i_waits _ I j x). unfold waits. simp_st.
    destruct (Nat.eqb x t) eqn:Ex; destruct (Nat.eqb j t) eqn:Ej;
      try (apply Nat.eqb_eq in Ex; subst x); try (apply Nat.eqb_eq in Ej; subst j);
      try destruct (Hf (s_th s t)) as (h1 & h2 & h3 & h4 & h5); rewrite ?h1, ?h4, ?h5; auto.
Qed.

Lemma placed_ext : forall s s' t v,
  s_th s' t = s_th s t ->
  cnt t (v_runq (s_vc s' v)) = cnt t (v_runq (s_vc s v)) ->
  cnt t (v_sleepq (s_vc s' v)) = cnt t (v_sleepq (s_vc s v)) ->
  cnt t (v_standby (s_vc s' v)) = cnt t (v_standby (s_vc s v)) ->
  placed s t v -> placed s' t v.
Proof. unfold placed. intros s s' t v -> -> -> ->. auto. Qed.

(* same, when only the scheduling fields of the thread are kept *)
Lemma placed_ext2 : forall s s' t v,
  th_state (s_th s' t) = th_state (s_th s t) -> th_vcpu (s_th s' t) = th_vcpu (s_th s t) ->
  th_insleep (s_th s' t) = th_insleep (s_th s t) ->
  cnt t (v_runq (s_vc s' v)) = cnt t (v_runq (s_vc s v)) ->
  cnt t (v_sleepq (s_vc s' v)) = cnt t (v_sleepq (s_vc s v)) ->
  cnt t (v_standby (s_vc s' v)) = cnt t (v_standby (s_vc s v)) ->
  placed s t v -> placed s' t v.
Proof. unfold placed, live, place_ok. intros s s' t v -> -> -> -> -> ->. auto. Qed.

Lemma waits_ext : forall s s' j x,
  th_joiners (s_th s' x) = th_joiners (s_th s x) ->
  th_waitq (s_th s' j) = th_waitq (s_th s j) ->
  (th_waitq (s_th s j) <> None -> th_state (s_th s' j) = th_state (s_th s j)) ->
  waits s j x -> waits s' j x.
Proof.
  unfold waits. intros s s' j x -> -> H [A B]. split; auto. intro N. rewrite (H N). auto.
Qed.

Ltac neq_tac :=
  repeat match goal with
  | H : Nat.eqb ?a ?b = false |- _ => apply Nat.eqb_neq in H
  | H : Nat.eqb ?a ?b = true |- _ => apply Nat.eqb_eq in H
  end.

Ltac split_eqb :=
  repeat match goal with
  | |- context[if Nat.eqb ?a ?b then _ else _] =>
      let E := fresh "E" in destruct (Nat.eqb a b) eqn:E;
      [apply Nat.eqb_eq in E; try subst | apply Nat.eqb_neq in E]
  end.
Ltac eqb_false a b := replace (Nat.eqb a b) with false by (symmetry; apply Nat.eqb_neq; congruence).
Ltac cnt_norm :=
  cbn [v_runq v_sleepq v_standby v_nthreads v_pend set_v_runq set_v_sleepq set_v_standby set_v_nthreads set_v_pend];
  rewrite ?cnt_snoc, ?cnt_app, ?cnt_cons, ?cnt_ins, ?cnt_nil, ?Nat.eqb_refl;
  repeat (rewrite cnt_remove_other by congruence);
  rewrite ?cnt_remove_same.
Ltac solve_cnt := simp_st; split_eqb; cnt_norm; split_eqb; try congruence; try lia; auto.

(* ---- elementary moves ---------------------------------------------------------------------- *)
(* E1: a SLEEPING thread (no wait queue) becomes READY at the tail of its own vCPU's run queue *)
Definition mv_wake_same (s : state) (v : nat) (t : tid) : state :=
  modvc (modth s t (fun th => set_th_insleep (set_th_state th READY) false)) v
        (fun x => set_v_runq (set_v_sleepq x (remove_tid t (v_sleepq x))) (v_runq x ++ [t])).

Lemma inv1_wake_same : forall s v t, Inv1 s ->
  th_state (s_th s t) = SLEEPING -> th_vcpu (s_th s t) = v -> th_waitq (s_th s t) = None ->
  Inv1 (mv_wake_same s v t).
Proof.
  intros s v t I Es Ev Ew.
  destruct (sleeping_facts s t (i_placed _ I t) Es) as (f1 & f2 & f3 & f4). rewrite Ev in *.
  constructor.
  - intros x y. unfold mv_wake_same.
    destruct (Nat.eq_dec x t) as [->|Nx].
    + generalize (i_placed _ I t y). unfold placed, live, place_ok. simp_st. rewrite Nat.eqb_refl. cbn.
      rewrite Es, Ev, f1. cbn.
      destruct (Nat.eqb v y) eqn:Evy; neq_tac.
      * subst y. rewrite Nat.eqb_refl. cbn. rewrite cnt_snoc, cnt_remove_same, Nat.eqb_refl. lia.
      * assert (Nat.eqb y v = false) as -> by (apply Nat.eqb_neq; congruence). auto.
    + apply (placed_ext s); [solve_cnt ..| apply (i_placed _ I)].
  - intros j x. unfold mv_wake_same. apply (waits_ext s); [solve_cnt ..| apply (i_waits _ I)].
Qed.
