(* C05_Proofs.v — inductive invariants of the life-cycle model (C05_Model.v) over every schedule
   (`run (init_state ...) labels`), any number of vCPUs and threads, every program. *)
From Coq Require Import ZArith List Bool Arith Lia.
From PV Require Import Base.U64 C05.C05_Model.
Import ListNotations.
Local Open Scope nat_scope.

(* ---- generic ---------------------------------------------------------------------------- *)
Lemma updp_eq : forall A (f : nat -> A) k v, updp f k v k = v.
Proof. intros. unfold updp. now rewrite Nat.eqb_refl. Qed.
Lemma updp_neq : forall A (f : nat -> A) k v x, x <> k -> updp f k v x = f x.
Proof. intros. unfold updp. destruct (Nat.eqb x k) eqn:E; auto. apply Nat.eqb_eq in E. congruence. Qed.

Definition cnt (x : tid) (l : list tid) : nat := count_occ Nat.eq_dec l x.

Lemma cnt_nil : forall x, cnt x [] = 0. Proof. reflexivity. Qed.
Arguments cnt : simpl never.
Lemma cnt_cons : forall x a l, cnt x (a :: l) = (if Nat.eqb a x then 1 else 0) + cnt x l.
Proof.
  intros. unfold cnt. cbn. destruct (Nat.eq_dec a x) as [->|N].
  - now rewrite Nat.eqb_refl.
  - apply Nat.eqb_neq in N. now rewrite N.
Qed.
Lemma cnt_app : forall x l1 l2, cnt x (l1 ++ l2) = cnt x l1 + cnt x l2.
Proof. intros. unfold cnt. apply count_occ_app. Qed.
Lemma cnt_snoc : forall x a l, cnt x (l ++ [a]) = cnt x l + (if Nat.eqb a x then 1 else 0).
Proof. intros. rewrite cnt_app, cnt_cons, cnt_nil. lia. Qed.
Lemma cnt_remove_same : forall a l, cnt a (remove_tid a l) = pred (cnt a l).
Proof.
  induction l as [|x r IH]; cbn [remove_tid]; auto.
  destruct (Nat.eqb x a) eqn:E.
  - rewrite cnt_cons, E. cbn. reflexivity.
  - rewrite !cnt_cons, E, IH. cbn. reflexivity.
Qed.
Lemma cnt_remove_other : forall x a l, x <> a -> cnt x (remove_tid a l) = cnt x l.
Proof.
  induction l as [|y r IH]; cbn [remove_tid]; auto. intro N.
  destruct (Nat.eqb y a) eqn:E.
  - apply Nat.eqb_eq in E. subst y. rewrite cnt_cons.
    assert (Nat.eqb a x = false) by (apply Nat.eqb_neq; congruence). rewrite H. reflexivity.
  - rewrite !cnt_cons, IH; auto.
Qed.
Lemma cnt_ins : forall ts x a l, cnt x (ins_sorted ts a l) = (if Nat.eqb a x then 1 else 0) + cnt x l.
Proof.
  induction l as [|y r IH]; cbn [ins_sorted].
  - rewrite cnt_cons. reflexivity.
  - destruct (Z.ltb (ts a) (ts y)).
    + rewrite cnt_cons. reflexivity.
    + rewrite !cnt_cons, IH. lia.
Qed.
Lemma mem_cnt : forall x l, mem_tid x l = true <-> cnt x l >= 1.
Proof.
  induction l as [|y r IH]; cbn [mem_tid].
  - rewrite cnt_nil. split; [discriminate|lia].
  - rewrite cnt_cons, orb_true_iff, IH. destruct (Nat.eqb y x); split; intros H.
    + lia.
    + now left.
    + destruct H as [H|H]; [discriminate|lia].
    + right. lia.
Qed.
Lemma cnt_head : forall x l, cnt x (x :: l) >= 1.
Proof. intros. rewrite cnt_cons, Nat.eqb_refl. lia. Qed.

(* ---- projections through the state transformers ------------------------------------------ *)
Lemma th_modth : forall s t f x, s_th (modth s t f) x = if Nat.eqb x t then f (s_th s t) else s_th s x.
Proof. reflexivity. Qed.
Lemma vc_modth : forall s t f, s_vc (modth s t f) = s_vc s. Proof. reflexivity. Qed.
Lemma th_modvc : forall s v g, s_th (modvc s v g) = s_th s. Proof. reflexivity. Qed.
Lemma vc_modvc : forall s v g y, s_vc (modvc s v g) y = if Nat.eqb y v then g (s_vc s v) else s_vc s y.
Proof. reflexivity. Qed.
Lemma nv_modth : forall s t f, s_nv (modth s t f) = s_nv s. Proof. reflexivity. Qed.
Lemma nv_modvc : forall s v g, s_nv (modvc s v g) = s_nv s. Proof. reflexivity. Qed.
Lemma n_modth : forall s t f, s_n (modth s t f) = s_n s. Proof. reflexivity. Qed.
Lemma n_modvc : forall s v g, s_n (modvc s v g) = s_n s. Proof. reflexivity. Qed.

Definition live (th : thread) : bool :=
  negb (tstate_eqb (th_state th) NOTCREATED) && negb (tstate_eqb (th_state th) DONE).

(* ---- the placement invariant ---------------------------------------------------------------
   For thread t and vCPU v let (r, q, b) be the number of occurrences of t in v's run queue,
   sleep queue and standby queue.  They are determined by the thread's own fields: *)
Definition place_ok (th : thread) (r q b : nat) : Prop :=
  match th_state th, th_insleep th with
  | SLEEPING, true => r = 0 /\ q = 1 /\ b = 0
  | STANDBY, true => r = 0 /\ q = 1 /\ b = 1               (* the documented overlap *)
  | STANDBY, false => q = 0 /\ r + b = 1                    (* in a standby queue, or stolen from one *)
  | READY, false => r = 1 /\ q = 0 /\ b = 0
  | RUNNING, false => r = 1 /\ q = 0 /\ b = 0
  | _, _ => False
  end.

Definition placed (s : state) (t : tid) (v : nat) : Prop :=
  let th := s_th s t in let vc := s_vc s v in
  let r := cnt t (v_runq vc) in let q := cnt t (v_sleepq vc) in let b := cnt t (v_standby vc) in
  if live th && Nat.eqb (th_vcpu th) v then place_ok th r q b else r = 0 /\ q = 0 /\ b = 0.

(* wait queues (thread::cond of the thread being joined): j is in x's queue iff j.waitq = x,
   and only SLEEPING threads wait *)
Definition opt_eqb (a : option nat) (x : nat) : bool :=
  match a with Some y => Nat.eqb y x | None => false end.
Definition waits (s : state) (j x : tid) : Prop :=
  cnt j (th_joiners (s_th s x)) = (if opt_eqb (th_waitq (s_th s j)) x then 1 else 0) /\
  (th_waitq (s_th s j) <> None -> th_state (s_th s j) = SLEEPING).

Record Inv1 (s : state) : Prop := mkInv1 {
  i_placed : forall t v, placed s t v;
  i_waits : forall j x, waits s j x
}.

Ltac simp_st := repeat rewrite ?th_modth, ?vc_modth, ?th_modvc, ?vc_modvc.
Ltac simp_st_in H := repeat rewrite ?th_modth, ?vc_modth, ?th_modvc, ?vc_modvc in H.

Lemma eqb_sym_false : forall a b, Nat.eqb a b = false -> Nat.eqb b a = false.
Proof. intros. rewrite Nat.eqb_sym. auto. Qed.

(* facts about a thread that occurs in a run queue *)
Lemma in_runq_facts : forall s t v, placed s t v -> cnt t (v_runq (s_vc s v)) >= 1 ->
  live (s_th s t) = true /\ th_vcpu (s_th s t) = v /\ th_insleep (s_th s t) = false /\
  cnt t (v_runq (s_vc s v)) = 1 /\ cnt t (v_sleepq (s_vc s v)) = 0 /\ cnt t (v_standby (s_vc s v)) = 0 /\
  (th_state (s_th s t) = READY \/ th_state (s_th s t) = RUNNING \/ th_state (s_th s t) = STANDBY).
Proof.
  unfold placed. intros s t v P H.
  destruct (live (s_th s t) && Nat.eqb (th_vcpu (s_th s t)) v) eqn:E.
  - apply andb_true_iff in E. destruct E as [E1 E2]. apply Nat.eqb_eq in E2.
    unfold place_ok in P. destruct (th_state (s_th s t)), (th_insleep (s_th s t)); try tauto; intuition lia.
  - lia.
Qed.

Lemma in_sleepq_facts : forall s t v, placed s t v -> cnt t (v_sleepq (s_vc s v)) >= 1 ->
  live (s_th s t) = true /\ th_vcpu (s_th s t) = v /\ th_insleep (s_th s t) = true /\
  cnt t (v_runq (s_vc s v)) = 0 /\ cnt t (v_sleepq (s_vc s v)) = 1 /\
  ((th_state (s_th s t) = SLEEPING /\ cnt t (v_standby (s_vc s v)) = 0) \/
   (th_state (s_th s t) = STANDBY /\ cnt t (v_standby (s_vc s v)) = 1)).
Proof.
  unfold placed. intros s t v P H.
  destruct (live (s_th s t) && Nat.eqb (th_vcpu (s_th s t)) v) eqn:E.
  - apply andb_true_iff in E. destruct E as [E1 E2]. apply Nat.eqb_eq in E2.
    unfold place_ok in P. destruct (th_state (s_th s t)), (th_insleep (s_th s t)); try tauto; intuition lia.
  - lia.
Qed.

Lemma in_standby_facts : forall s t v, placed s t v -> cnt t (v_standby (s_vc s v)) >= 1 ->
  live (s_th s t) = true /\ th_vcpu (s_th s t) = v /\ th_state (s_th s t) = STANDBY /\
  cnt t (v_runq (s_vc s v)) = 0 /\ cnt t (v_standby (s_vc s v)) = 1 /\
  cnt t (v_sleepq (s_vc s v)) = (if th_insleep (s_th s t) then 1 else 0).
Proof.
  unfold placed. intros s t v P H.
  destruct (live (s_th s t) && Nat.eqb (th_vcpu (s_th s t)) v) eqn:E.
  - apply andb_true_iff in E. destruct E as [E1 E2]. apply Nat.eqb_eq in E2.
    unfold place_ok in P. destruct (th_state (s_th s t)), (th_insleep (s_th s t)); try tauto; intuition lia.
  - lia.
Qed.

(* a thread in state SLEEPING sits in the sleep queue of its vCPU *)
Lemma sleeping_facts : forall s t, (forall v, placed s t v) -> th_state (s_th s t) = SLEEPING ->
  let v := th_vcpu (s_th s t) in
  th_insleep (s_th s t) = true /\ cnt t (v_runq (s_vc s v)) = 0 /\ cnt t (v_sleepq (s_vc s v)) = 1 /\
  cnt t (v_standby (s_vc s v)) = 0.
Proof.
  intros s t P E v. specialize (P v). unfold placed in P.
  unfold live in P. rewrite E in P. cbn in P. fold v in P. rewrite Nat.eqb_refl in P.
  unfold place_ok in P. rewrite E in P. destruct (th_insleep (s_th s t)); tauto.
Qed.

(* updates of a thread that leave its scheduling fields alone *)
Definition same_sched (a b : thread) : Prop :=
  th_state a = th_state b /\ th_vcpu a = th_vcpu b /\ th_insleep a = th_insleep b /\
  th_waitq a = th_waitq b /\ th_joiners a = th_joiners b.

Lemma inv1_neutral : forall s t f, (forall th, same_sched (f th) th) -> Inv1 s -> Inv1 (modth s t f).
Proof.
  intros s t f Hf I. constructor.
  - intros x v. generalize (i_placed _ I x v). unfold placed, live, place_ok. simp_st.
    destruct (Nat.eqb x t) eqn:E; auto.
    apply Nat.eqb_eq in E. subst x. destruct (Hf (s_th s t)) as (h1 & h2 & h3 & h4 & h5).
    rewrite h1, h2, h3. auto.
  - intros j x. generalize (i_waits _ I j x). unfold waits. simp_st.
    destruct (Nat.eqb x t) eqn:Ex; destruct (Nat.eqb j t) eqn:Ej;
      try (apply Nat.eqb_eq in Ex; subst x); try (apply Nat.eqb_eq in Ej; subst j);
      try destruct (Hf (s_th s t)) as (h1 & h2 & h3 & h4 & h5); rewrite ?h1, ?h4, ?h5; auto.
Qed.

Lemma placed_ext : forall s s' t v,
  s_th s' t = s_th s t ->
  cnt t (v_runq (s_vc s' v)) = cnt t (v_runq (s_vc s v)) ->
  cnt t (v_sleepq (s_vc s' v)) = cnt t (v_sleepq (s_vc s v)) ->
  cnt t (v_standby (s_vc s' v)) = cnt t (v_standby (s_vc s v)) ->
  placed s t v -> placed s' t v.
Proof. unfold placed. intros s s' t v -> -> -> ->. auto. Qed.

(* same, when only the scheduling fields of the thread are kept *)
Lemma placed_ext2 : forall s s' t v,
  th_state (s_th s' t) = th_state (s_th s t) -> th_vcpu (s_th s' t) = th_vcpu (s_th s t) ->
  th_insleep (s_th s' t) = th_insleep (s_th s t) ->
  cnt t (v_runq (s_vc s' v)) = cnt t (v_runq (s_vc s v)) ->
  cnt t (v_sleepq (s_vc s' v)) = cnt t (v_sleepq (s_vc s v)) ->
  cnt t (v_standby (s_vc s' v)) = cnt t (v_standby (s_vc s v)) ->
  placed s t v -> placed s' t v.
Proof. unfold placed, live, place_ok. intros s s' t v -> -> -> -> -> ->. auto. Qed.

Lemma waits_ext : forall s s' j x,
  th_joiners (s_th s' x) = th_joiners (s_th s x) ->
  th_waitq (s_th s' j) = th_waitq (s_th s j) ->
  (th_waitq (s_th s j) <> None -> th_state (s_th s' j) = th_state (s_th s j)) ->
  waits s j x -> waits s' j x.
Proof.
  unfold waits. intros s s' j x -> -> H [A B]. split; auto. intro N. rewrite (H N). auto.
Qed.

Ltac neq_tac :=
  repeat match goal with
  | H : Nat.eqb ?a ?b = false |- _ => apply Nat.eqb_neq in H
  | H : Nat.eqb ?a ?b = true |- _ => apply Nat.eqb_eq in H
  end.

Ltac split_eqb :=
  repeat match goal with
  | |- context[if Nat.eqb ?a ?b then _ else _] =>
      let E := fresh "E" in destruct (Nat.eqb a b) eqn:E;
      [apply Nat.eqb_eq in E; try subst | apply Nat.eqb_neq in E]
  end.
Ltac eqb_false a b := replace (Nat.eqb a b) with false by (symmetry; apply Nat.eqb_neq; congruence).
Ltac cnt_norm :=
  cbn [v_runq v_sleepq v_standby v_nthreads v_pend set_v_runq set_v_sleepq set_v_standby set_v_nthreads set_v_pend];
  rewrite ?cnt_snoc, ?cnt_app, ?cnt_cons, ?cnt_ins, ?cnt_nil, ?Nat.eqb_refl;
  repeat (rewrite cnt_remove_other by congruence);
  rewrite ?cnt_remove_same.
Ltac solve_cnt := simp_st; split_eqb; cnt_norm; split_eqb; try congruence; try lia; auto.

(* ---- elementary moves ---------------------------------------------------------------------- *)
(* E1: a SLEEPING thread (no wait queue) becomes READY at the tail of its own vCPU's run queue *)
Definition mv_wake_same (s : state) (v : nat) (t : tid) : state :=
  modvc (modth s t (fun th => set_th_insleep (set_th_state th READY) false)) v
        (fun x => set_v_runq (set_v_sleepq x (remove_tid t (v_sleepq x))) (v_runq x ++ [t])).

Lemma inv1_wake_same : forall s v t, Inv1 s ->
  th_state (s_th s t) = SLEEPING -> th_vcpu (s_th s t) = v -> th_waitq (s_th s t) = None ->
  Inv1 (mv_wake_same s v t).
Proof.
  intros s v t I Es Ev Ew.
  destruct (sleeping_facts s t (i_placed _ I t) Es) as (f1 & f2 & f3 & f4). rewrite Ev in *.
  constructor.
  - intros x y. unfold mv_wake_same.
    destruct (Nat.eq_dec x t) as [->|Nx].
    + generalize (i_placed _ I t y). unfold placed, live, place_ok. simp_st. rewrite Nat.eqb_refl. cbn.
      rewrite Es, Ev, f1. cbn.
      destruct (Nat.eqb v y) eqn:Evy; neq_tac.
      * subst y. rewrite Nat.eqb_refl. cbn. rewrite cnt_snoc, cnt_remove_same, Nat.eqb_refl. lia.
      * assert (Nat.eqb y v = false) as -> by (apply Nat.eqb_neq; congruence). auto.
    + apply (placed_ext s); [solve_cnt ..| apply (i_placed _ I)].
  - intros j x. unfold mv_wake_same. apply (waits_ext s); [solve_cnt ..| apply (i_waits _ I)].
Qed.

(* generic shape of the "changed thread" case: unfold `placed` for thread t on vCPU y *)
Ltac open_placed I t y :=
  generalize (i_placed _ I t y); unfold placed, live, place_ok; simp_st; rewrite ?Nat.eqb_refl;
  cbn [th_state th_vcpu th_insleep set_th_state set_th_vcpu set_th_insleep set_th_err set_th_ts set_th_waitq
       set_th_lock set_th_retval set_g_finished set_th_fresh set_g_started set_th_joiners].

(* E2: a SLEEPING thread becomes STANDBY in the standby queue of its vCPU (cross-vCPU wake-up) *)
Definition mv_wake_cross (s : state) (u : nat) (t : tid) : state :=
  modvc (modth s t (fun th => set_th_state th STANDBY)) u (fun x => set_v_standby x (v_standby x ++ [t])).

Lemma inv1_wake_cross : forall s u t, Inv1 s ->
  th_state (s_th s t) = SLEEPING -> th_vcpu (s_th s t) = u -> th_waitq (s_th s t) = None ->
  Inv1 (mv_wake_cross s u t).
Proof.
  intros s u t I Es Ev Ew.
  destruct (sleeping_facts s t (i_placed _ I t) Es) as (f1 & f2 & f3 & f4). rewrite Ev in *.
  constructor.
  - intros x y. unfold mv_wake_cross.
    destruct (Nat.eq_dec x t) as [->|Nx].
    + open_placed I t y. rewrite Es, Ev, f1. cbn.
      destruct (Nat.eqb u y) eqn:Euy; neq_tac.
      * subst y. rewrite Nat.eqb_refl. cnt_norm. lia.
      * eqb_false y u. auto.
    + apply (placed_ext s); [solve_cnt ..| apply (i_placed _ I)].
  - intros j x. unfold mv_wake_cross. apply (waits_ext s); [solve_cnt ..| apply (i_waits _ I)].
Qed.

(* E4: switch_in: a thread of the run queue becomes RUNNING *)
Lemma inv1_switch_in : forall s v n, Inv1 s -> cnt n (v_runq (s_vc s v)) >= 1 -> Inv1 (switch_in s n).
Proof.
  intros s v n I Hn.
  destruct (in_runq_facts s n v (i_placed _ I n v) Hn) as (l1 & l2 & l3 & l4 & l5 & l6 & l7).
  assert (Hw : th_waitq (s_th s n) = None).
  { destruct (th_waitq (s_th s n)) eqn:E; auto.
    destruct (i_waits _ I n 0) as [_ W]. rewrite E in W. specialize (W ltac:(discriminate)).
    destruct l7 as [l7|[l7|l7]]; congruence. }
  constructor.
  - intros x y. unfold switch_in.
    destruct (Nat.eq_dec x n) as [->|Nx].
    + generalize (i_placed _ I n y). unfold placed, live, place_ok. simp_st. rewrite Nat.eqb_refl.
      destruct (th_fresh (s_th s n)); cbn; rewrite l3, l2;
        destruct l7 as [l7|[l7|l7]]; rewrite l7; cbn;
        (destruct (Nat.eqb v y) eqn:Evy; [apply Nat.eqb_eq in Evy; subst y|]; auto; lia).
    + apply (placed_ext s); [solve_cnt ..| apply (i_placed _ I)].
  - intros j x. unfold switch_in. apply (waits_ext s); simp_st.
    + destruct (Nat.eqb x n) eqn:E; auto. neq_tac. subst x. destruct (th_fresh (s_th s n)); reflexivity.
    + destruct (Nat.eqb j n) eqn:E; auto. neq_tac. subst j. destruct (th_fresh (s_th s n)); reflexivity.
    + destruct (Nat.eqb j n) eqn:E; auto. neq_tac. subst j. congruence.
    + apply (i_waits _ I).
Qed.

Lemma switch_in_vc : forall s n, s_vc (switch_in s n) = s_vc s. Proof. reflexivity. Qed.
Lemma switch_in_other : forall s n x, x <> n -> s_th (switch_in s n) x = s_th s x.
Proof. intros. unfold switch_in. simp_st. apply Nat.eqb_neq in H. now rewrite H. Qed.
Lemma switch_in_state : forall s n, th_state (s_th (switch_in s n) n) = RUNNING.
Proof. intros. unfold switch_in. simp_st. rewrite Nat.eqb_refl. destruct (th_fresh (s_th s n)); reflexivity. Qed.

(* E3: the head of the run queue (RUNNING) goes to the tail as READY *)
Lemma inv1_rotate : forall s v c rest f, Inv1 s ->
  v_runq (s_vc s v) = c :: rest -> th_state (s_th s c) = RUNNING ->
  (forall th, th_vcpu (f th) = th_vcpu th /\ th_insleep (f th) = th_insleep th /\
              th_waitq (f th) = th_waitq th /\ th_joiners (f th) = th_joiners th /\ th_state (f th) = READY) ->
  forall p, Inv1 (modvc (modth s c f) v (fun x => set_v_pend (set_v_runq x (rest ++ [c])) p)).
Proof.
  intros s v c rest f I Hq Es Hf p.
  assert (Hc : cnt c (v_runq (s_vc s v)) >= 1) by (rewrite Hq; apply cnt_head).
  destruct (in_runq_facts s c v (i_placed _ I c v) Hc) as (l1 & l2 & l3 & l4 & l5 & l6 & l7).
  destruct (Hf (s_th s c)) as (h1 & h2 & h3 & h4 & h5).
  constructor.
  - intros x y.
    destruct (Nat.eq_dec x c) as [->|Nx].
    + generalize (i_placed _ I c y). unfold placed, live, place_ok. simp_st. rewrite Nat.eqb_refl.
      rewrite h1, h2, h5, Es, l3, l2. cbn.
      destruct (Nat.eqb v y) eqn:Evy; neq_tac.
      * subst y. rewrite Nat.eqb_refl. cbn. rewrite Hq. cnt_norm. lia.
      * eqb_false y v. auto.
    + apply (placed_ext s); [solve_cnt ..| apply (i_placed _ I)].
      rewrite Hq. cnt_norm. split_eqb; try congruence; lia.
  - intros j x. apply (waits_ext s); simp_st.
    + destruct (Nat.eqb x c) eqn:E; auto. neq_tac. subst. auto.
    + destruct (Nat.eqb j c) eqn:E; auto. neq_tac. subst. auto.
    + destruct (Nat.eqb j c) eqn:E; auto. neq_tac. subst j. intro N.
      destruct (i_waits _ I c 0) as [_ W]. specialize (W N). congruence.
    + apply (i_waits _ I).
Qed.

Lemma running_no_waitq : forall s c, Inv1 s -> th_state (s_th s c) = RUNNING -> th_waitq (s_th s c) = None.
Proof.
  intros s c I E. destruct (th_waitq (s_th s c)) eqn:W; auto.
  destruct (i_waits _ I c 0) as [_ H]. rewrite W in H. specialize (H ltac:(discriminate)). congruence.
Qed.

(* E5: the head of the run queue goes to sleep (optionally into the wait queue of thread x) *)
Lemma inv1_sleep : forall s v c rest exp wq ts p, Inv1 s ->
  v_runq (s_vc s v) = c :: rest -> th_state (s_th s c) = RUNNING ->
  let s2 := modth s c (fun th => set_th_waitq (set_th_ts (set_th_insleep (set_th_state th SLEEPING) true) exp) wq) in
  let s3 := match wq with Some x => modth s2 x (fun th => set_th_joiners th (th_joiners th ++ [c])) | None => s2 end in
  Inv1 (modvc s3 v (fun x => set_v_pend (set_v_sleepq (set_v_runq x rest) (ins_sorted ts c (v_sleepq x))) p)).
Proof.
  intros s v c rest exp wq ts p I Hq Es s2 s3.
  assert (Hc : cnt c (v_runq (s_vc s v)) >= 1) by (rewrite Hq; apply cnt_head).
  destruct (in_runq_facts s c v (i_placed _ I c v) Hc) as (l1 & l2 & l3 & l4 & l5 & l6 & l7).
  pose proof (running_no_waitq s c I Es) as Hw.
  assert (Hr : cnt c rest = 0). { rewrite Hq, cnt_cons, Nat.eqb_refl in l4. lia. }
  assert (T3 : forall x, th_state (s_th s3 x) = (if Nat.eqb x c then SLEEPING else th_state (s_th s x)) /\
                         th_vcpu (s_th s3 x) = th_vcpu (s_th s x) /\
                         th_insleep (s_th s3 x) = (if Nat.eqb x c then true else th_insleep (s_th s x)) /\
                         th_waitq (s_th s3 x) = (if Nat.eqb x c then wq else th_waitq (s_th s x))).
  { intro x. unfold s3, s2. destruct wq as [w|]; simp_st;
      repeat match goal with |- context[Nat.eqb ?a ?b] => destruct (Nat.eqb a b) eqn:? end; neq_tac; subst;
      rewrite ?Nat.eqb_refl; cbn; auto; try congruence.
 }
  assert (V3 : s_vc s3 = s_vc s). { unfold s3, s2. destruct wq; reflexivity. }
  constructor.
  - intros x y. generalize (i_placed _ I x y). unfold placed, live, place_ok. simp_st. rewrite V3.
    destruct (T3 x) as (t1 & t2 & t3 & t4). rewrite t1, t2, t3.
    destruct (Nat.eqb x c) eqn:Exc; neq_tac.
    + subst x. rewrite Es, l3, l2. cbn.
      destruct (Nat.eqb v y) eqn:Evy; neq_tac.
      * subst y. rewrite Nat.eqb_refl. cnt_norm. rewrite Hr. lia.
      * eqb_false y v. auto.
    + destruct (Nat.eqb y v) eqn:Eyv; neq_tac; auto. subst y. cnt_norm. rewrite Hq. cnt_norm.
      eqb_false c x. cbn. auto.
  - intros j x. generalize (i_waits _ I j x). unfold waits. simp_st.
    destruct (T3 j) as (t1 & t2 & t3 & t4). rewrite t1, t4.
    assert (J : th_joiners (s_th s3 x) =
                (if opt_eqb wq x then th_joiners (s_th s x) ++ [c] else th_joiners (s_th s x))).
    { unfold s3, s2. destruct wq as [w|]; simp_st; cbn [opt_eqb];
        repeat match goal with |- context[Nat.eqb ?a ?b] => destruct (Nat.eqb a b) eqn:? end; neq_tac; subst;
        rewrite ?Nat.eqb_refl; cbn; auto; try congruence. }
    rewrite J.
    destruct (Nat.eqb j c) eqn:Ejc; neq_tac.
    + subst j. rewrite Hw. cbn [opt_eqb]. intros [A _]. split; [|auto].
      destruct (opt_eqb wq x); cnt_norm; lia.
    + intros [A B]. split; auto.
      destruct (opt_eqb wq x); auto. cnt_norm. eqb_false c j. lia.
Qed.

(* E6: the head of the run queue dies *)
Lemma inv1_die : forall s v c rest f p nt, Inv1 s ->
  v_runq (s_vc s v) = c :: rest -> th_state (s_th s c) = RUNNING ->
  (forall th, th_waitq (f th) = th_waitq th /\ th_joiners (f th) = th_joiners th /\ th_state (f th) = DONE) ->
  Inv1 (modvc (modth s c f) v (fun x => set_v_pend (set_v_nthreads (set_v_runq x (remove_tid c (v_runq x))) (nt x)) p)).
Proof.
  intros s v c rest f p nt I Hq Es Hf.
  assert (Hc : cnt c (v_runq (s_vc s v)) >= 1) by (rewrite Hq; apply cnt_head).
  destruct (in_runq_facts s c v (i_placed _ I c v) Hc) as (l1 & l2 & l3 & l4 & l5 & l6 & l7).
  pose proof (running_no_waitq s c I Es) as Hw.
  destruct (Hf (s_th s c)) as (h1 & h2 & h3).
  constructor.
  - intros x y.
    destruct (Nat.eq_dec x c) as [->|Nx].
    + generalize (i_placed _ I c y). unfold placed, live, place_ok. simp_st. rewrite Nat.eqb_refl, h3.
      cbn. destruct (Nat.eqb y v) eqn:Eyv; neq_tac.
      * subst y. cnt_norm. rewrite l4, l5, l6. auto.
      * rewrite Es, l2. cbn. eqb_false v y. cbn. auto.
    + apply (placed_ext s); [solve_cnt ..| apply (i_placed _ I)].
  - intros j x. apply (waits_ext s); simp_st.
    + destruct (Nat.eqb x c) eqn:E; auto. neq_tac. subst. auto.
    + destruct (Nat.eqb j c) eqn:E; auto. neq_tac. subst. auto.
    + destruct (Nat.eqb j c) eqn:E; auto. neq_tac. subst j. congruence.
    + apply (i_waits _ I).
Qed.

(* a thread that does not exist (any more) is in no queue and nobody waits in its queue *)
Lemma dead_facts : forall s t v, placed s t v -> live (s_th s t) = false ->
  cnt t (v_runq (s_vc s v)) = 0 /\ cnt t (v_sleepq (s_vc s v)) = 0 /\ cnt t (v_standby (s_vc s v)) = 0.
Proof. unfold placed. intros s t v P L. rewrite L in P. cbn in P. auto. Qed.

(* E7: thread_create *)
Lemma inv1_create : forall s v k th nt, Inv1 s ->
  th_state (s_th s k) = NOTCREATED ->
  th_state th = READY -> th_vcpu th = v -> th_insleep th = false -> th_waitq th = None ->
  th_joiners th = th_joiners (s_th s k) ->
  Inv1 (modvc (set_s_th s (updp (s_th s) k th)) v (fun x => set_v_nthreads (set_v_runq x (v_runq x ++ [k])) (nt x))).
Proof.
  intros s v k th nt I En h1 h2 h3 h4 h5.
  assert (L : live (s_th s k) = false) by (unfold live; rewrite En; reflexivity).
  assert (Hw : th_waitq (s_th s k) = None).
  { destruct (th_waitq (s_th s k)) eqn:W; auto. destruct (i_waits _ I k 0) as [_ H]. rewrite W in H.
    specialize (H ltac:(discriminate)). congruence. }
  constructor.
  - intros x y. destruct (Nat.eq_dec x k) as [->|Nx].
    + destruct (dead_facts s k y (i_placed _ I k y) L) as (d1 & d2 & d3).
      unfold placed, live, place_ok. simp_st. cbn [s_th set_s_th]. rewrite updp_eq, h1, h2, h3. cbn.
      destruct (Nat.eqb v y) eqn:Evy; neq_tac.
      * subst y. rewrite Nat.eqb_refl. cnt_norm. lia.
      * eqb_false y v. auto.
    + apply (placed_ext s); [ | solve_cnt .. | apply (i_placed _ I)].
      simp_st. cbn [s_th set_s_th]. now rewrite updp_neq.
  - intros j x. generalize (i_waits _ I j x). unfold waits. simp_st. cbn [s_th set_s_th]. unfold updp.
    destruct (Nat.eqb x k) eqn:Ex; destruct (Nat.eqb j k) eqn:Ej; neq_tac; subst; rewrite ?h1, ?h4, ?h5, ?Hw; auto;
      intros [A B]; split; auto; intro N; exfalso; apply N; reflexivity.
Qed.

(* E8: do_thread_migrate: a READY thread of v's run queue goes to u's standby queue *)
Lemma inv1_migrate : forall s v u t ntv ntu, Inv1 s -> u <> v ->
  cnt t (v_runq (s_vc s v)) >= 1 -> th_state (s_th s t) = READY ->
  Inv1 (modvc (modvc (modth s t (fun x => set_th_vcpu (set_th_state x STANDBY) u)) v
                 (fun x => set_v_nthreads (set_v_runq x (remove_tid t (v_runq x))) (ntv x))) u
              (fun x => set_v_nthreads (set_v_standby x (v_standby x ++ [t])) (ntu x))).
Proof.
  intros s v u t ntv ntu I Nuv Hc Es.
  destruct (in_runq_facts s t v (i_placed _ I t v) Hc) as (l1 & l2 & l3 & l4 & l5 & l6 & l7).
  assert (Hw : th_waitq (s_th s t) = None).
  { destruct (th_waitq (s_th s t)) eqn:W; auto. destruct (i_waits _ I t 0) as [_ H]. rewrite W in H.
    specialize (H ltac:(discriminate)). congruence. }
  constructor.
  - intros x y. destruct (Nat.eq_dec x t) as [->|Nx].
    + generalize (i_placed _ I t y). unfold placed, live, place_ok. simp_st. rewrite Nat.eqb_refl.
      cbn. rewrite Es, l2, l3. cbn.
      destruct (Nat.eqb y u) eqn:Eyu; neq_tac.
      * subst y. rewrite Nat.eqb_refl. eqb_false v u. eqb_false u v. cbn. cnt_norm. intros (a & b & c). lia.
      * eqb_false u y. destruct (Nat.eqb y v) eqn:Eyv; neq_tac.
        -- subst y. rewrite Nat.eqb_refl. cbn. cnt_norm. lia.
        -- eqb_false v y. cbn. auto.
    + apply (placed_ext s); [solve_cnt ..| apply (i_placed _ I)].
  - intros j x. apply (waits_ext s); simp_st.
    + destruct (Nat.eqb x t) eqn:E; auto. neq_tac. subst. auto.
    + destruct (Nat.eqb j t) eqn:E; auto. neq_tac. subst. auto.
    + destruct (Nat.eqb j t) eqn:E; auto. neq_tac. subst j. congruence.
    + apply (i_waits _ I).
Qed.

(* E9: one thread of the standby queue is resumed by its vCPU *)
Lemma inv1_drain_one : forall s v t, Inv1 s -> Inv1 (drain_one s v t).
Proof.
  intros s v t I. unfold drain_one, getvc.
  destruct (mem_tid t (v_standby (s_vc s v))) eqn:M; cbn [negb]; auto.
  apply mem_cnt in M.
  destruct (in_standby_facts s t v (i_placed _ I t v) M) as (l1 & l2 & l3 & l4 & l5 & l6).
  assert (Hw : th_waitq (s_th s t) = None).
  { destruct (th_waitq (s_th s t)) eqn:W; auto. destruct (i_waits _ I t 0) as [_ H]. rewrite W in H.
    specialize (H ltac:(discriminate)). congruence. }
  constructor.
  - intros x y. destruct (Nat.eq_dec x t) as [->|Nx].
    + generalize (i_placed _ I t y). unfold placed, live, place_ok. simp_st. rewrite Nat.eqb_refl.
      cbn. rewrite l3, l2. cbn.
      destruct (Nat.eqb v y) eqn:Evy; neq_tac.
      * subst y. rewrite Nat.eqb_refl. cnt_norm. rewrite l4, l5, l6.
        destruct (th_insleep (s_th s t)); cbn; lia.
      * eqb_false y v. auto.
    + apply (placed_ext s); [solve_cnt ..| apply (i_placed _ I)].
  - intros j x. apply (waits_ext s); simp_st.
    + destruct (Nat.eqb x t) eqn:E; auto. neq_tac. subst. auto.
    + destruct (Nat.eqb j t) eqn:E; auto. neq_tac. subst. auto.
    + destruct (Nat.eqb j t) eqn:E; auto. neq_tac. subst j. congruence.
    + apply (i_waits _ I).
Qed.

Lemma inv1_drain_list : forall l s v, Inv1 s -> Inv1 (drain_list s v l).
Proof. induction l; cbn; intros; auto. apply IHl; auto. now apply inv1_drain_one. Qed.

(* E10: an expired sleeper that was interrupted from another vCPU leaves the sleep queue only *)
Lemma inv1_resume_pop : forall s v t, Inv1 s ->
  cnt t (v_sleepq (s_vc s v)) >= 1 -> th_state (s_th s t) <> SLEEPING ->
  Inv1 (modvc (modth s t (fun x => set_th_insleep x false)) v (fun x => set_v_sleepq x (remove_tid t (v_sleepq x)))).
Proof.
  intros s v t I Hc Ns.
  destruct (in_sleepq_facts s t v (i_placed _ I t v) Hc) as (l1 & l2 & l3 & l4 & l5 & [[l6 l7]|[l6 l7]]); [congruence|].
  constructor.
  - intros x y. destruct (Nat.eq_dec x t) as [->|Nx].
    + generalize (i_placed _ I t y). unfold placed, live, place_ok. simp_st. rewrite Nat.eqb_refl.
      cbn. rewrite l6, l2, l3. cbn.
      destruct (Nat.eqb v y) eqn:Evy; neq_tac.
      * subst y. rewrite Nat.eqb_refl. cnt_norm. lia.
      * eqb_false y v. auto.
    + apply (placed_ext s); [solve_cnt ..| apply (i_placed _ I)].
  - intros j x. apply (waits_ext s); simp_st.
    + destruct (Nat.eqb x t) eqn:E; auto. neq_tac. subst. auto.
    + destruct (Nat.eqb j t) eqn:E; auto. neq_tac. subst. auto.
    + destruct (Nat.eqb j t) eqn:E; auto. neq_tac. subst j. auto.
    + apply (i_waits _ I).
Qed.

(* E11: work stealing moves a thread that is in u's run queue (not RUNNING) or standby queue, and in no
   sleep queue, to the tail of the thief's run queue *)
Lemma inv1_steal : forall s v u t (from_standby : bool) ntu ntv, Inv1 s -> u <> v ->
  th_insleep (s_th s t) = false ->
  (if from_standby then cnt t (v_standby (s_vc s u)) >= 1
   else cnt t (v_runq (s_vc s u)) >= 1 /\ th_state (s_th s t) <> RUNNING) ->
  let s0 := modvc s u (fun x => if from_standby then set_v_standby x (remove_tid t (v_standby x))
                                else set_v_runq x (remove_tid t (v_runq x))) in
  Inv1 (modvc (modvc (modth s0 t (fun x => set_th_vcpu x v)) u (fun x => set_v_nthreads x (ntu x))) v
              (fun x => set_v_nthreads (set_v_runq x (v_runq x ++ [t])) (ntv x))).
Proof.
  intros s v u t fs ntu ntv I Nuv Hi Hc s0.
  assert (F : live (s_th s t) = true /\ th_vcpu (s_th s t) = u /\
              cnt t (v_sleepq (s_vc s u)) = 0 /\
              (th_state (s_th s t) = READY \/ th_state (s_th s t) = STANDBY) /\
              (if fs then cnt t (v_standby (s_vc s u)) = 1 /\ cnt t (v_runq (s_vc s u)) = 0 /\ th_state (s_th s t) = STANDBY
               else cnt t (v_runq (s_vc s u)) = 1 /\ cnt t (v_standby (s_vc s u)) = 0)).
  { destruct fs.
    - destruct (in_standby_facts s t u (i_placed _ I t u) Hc) as (l1 & l2 & l3 & l4 & l5 & l6).
      rewrite Hi in l6. intuition.
    - destruct Hc as [Hc Nr].
      destruct (in_runq_facts s t u (i_placed _ I t u) Hc) as (l1 & l2 & l3 & l4 & l5 & l6 & l7).
      intuition. }
  destruct F as (l1 & l2 & l5 & l7 & F).
  assert (Hw : th_waitq (s_th s t) = None).
  { destruct (th_waitq (s_th s t)) eqn:W; auto. destruct (i_waits _ I t 0) as [_ H]. rewrite W in H.
    specialize (H ltac:(discriminate)). destruct l7; congruence. }
  constructor.
  - intros x y. unfold s0. destruct (Nat.eq_dec x t) as [->|Nx].
    + generalize (i_placed _ I t y). unfold placed, live, place_ok. simp_st. rewrite Nat.eqb_refl.
      cbn. rewrite Hi, l2.
      destruct (Nat.eqb y v) eqn:Eyv; neq_tac.
      * subst y. rewrite Nat.eqb_refl. eqb_false u v. eqb_false v u. cbn.
        destruct l7 as [l7|l7]; rewrite l7; cbn; intros (a & b & c); cnt_norm; lia.
      * eqb_false v y. destruct (Nat.eqb y u) eqn:Eyu; neq_tac.
        -- subst y. rewrite Nat.eqb_refl. cbn.
           destruct l7 as [l7|l7]; rewrite l7; cbn; intros _; destruct fs; cnt_norm; intuition lia.
        -- eqb_false u y. destruct l7 as [l7|l7]; rewrite l7; cbn; auto.
    + apply (placed_ext s); [ | | | | apply (i_placed _ I)]; simp_st; split_eqb; destruct fs; cnt_norm;
        try congruence; try lia; auto.
      all: eqb_false t x; lia.
  - intros j x. unfold s0. apply (waits_ext s); simp_st.
    + destruct (Nat.eqb x t) eqn:E; auto. neq_tac. subst. auto.
    + destruct (Nat.eqb j t) eqn:E; auto. neq_tac. subst. auto.
    + destruct (Nat.eqb j t) eqn:E; auto. neq_tac. subst j. auto.
    + apply (i_waits _ I).
Qed.

(* E12: thread::dequeue_ready_atomic *)
Lemma inv1_dequeue : forall s t, Inv1 s -> Inv1 (dequeue s t).
Proof.
  intros s t I. unfold dequeue, getth.
  destruct (th_waitq (s_th s t)) as [w|] eqn:W; auto.
  constructor.
  - intros x y. apply (placed_ext2 s); [ .. | apply (i_placed _ I)]; simp_st;
      repeat match goal with |- context[Nat.eqb ?a ?b] => destruct (Nat.eqb a b) eqn:? end; neq_tac; subst;
      rewrite ?Nat.eqb_refl; cbn; auto.
  - intros j x.
    set (s' := modth (modth s w (fun th => set_th_joiners th (remove_tid t (th_joiners th)))) t (fun th => set_th_waitq th None)).
    assert (J : th_joiners (s_th s' x) = if Nat.eqb x w then remove_tid t (th_joiners (s_th s w)) else th_joiners (s_th s x)).
    { unfold s'. simp_st. destruct (Nat.eqb x t) eqn:E1; neq_tac; subst.
      - destruct (Nat.eqb t w) eqn:E2; neq_tac; subst; reflexivity.
      - destruct (Nat.eqb x w) eqn:E2; neq_tac; subst; reflexivity. }
    assert (Wq : th_waitq (s_th s' j) = if Nat.eqb j t then None else th_waitq (s_th s j)).
    { unfold s'. simp_st. destruct (Nat.eqb j t) eqn:E1; neq_tac; subst.
      - destruct (Nat.eqb t w) eqn:E2; neq_tac; subst; reflexivity.
      - destruct (Nat.eqb j w) eqn:E2; neq_tac; subst; reflexivity. }
    assert (St : th_state (s_th s' j) = th_state (s_th s j)).
    { unfold s'. simp_st. destruct (Nat.eqb j t) eqn:E1; neq_tac; subst.
      - destruct (Nat.eqb t w) eqn:E2; neq_tac; subst; reflexivity.
      - destruct (Nat.eqb j w) eqn:E2; neq_tac; subst; reflexivity. }
    unfold waits. fold s'. rewrite J, Wq, St.
    destruct (i_waits _ I j x) as [A B]. destruct (i_waits _ I t w) as [A0 B0].
    rewrite W in A0. cbn [opt_eqb] in A0. rewrite Nat.eqb_refl in A0.
    destruct (Nat.eqb j t) eqn:Ejt; neq_tac.
    + subst j. cbn [opt_eqb]. split; [|congruence].
      destruct (Nat.eqb x w) eqn:Exw; neq_tac.
      * subst x. rewrite cnt_remove_same. lia.
      * rewrite A, W. cbn [opt_eqb]. eqb_false w x. reflexivity.
    + split; auto. destruct (Nat.eqb x w) eqn:Exw; neq_tac; auto.
      subst x. rewrite cnt_remove_other by congruence. auto.
Qed.

(* ---- the model's functions ------------------------------------------------------------------ *)
Lemma inv1_same : forall s s', s_th s' = s_th s -> s_vc s' = s_vc s -> Inv1 s -> Inv1 s'.
Proof.
  intros s s' Ht Hv I. constructor.
  - intros t v. generalize (i_placed _ I t v). unfold placed. now rewrite Ht, Hv.
  - intros j x. generalize (i_waits _ I j x). unfold waits. now rewrite Ht.
Qed.

Lemma inv1_vc_neutral : forall s v g,
  (forall x, v_runq (g x) = v_runq x /\ v_sleepq (g x) = v_sleepq x /\ v_standby (g x) = v_standby x) ->
  Inv1 s -> Inv1 (modvc s v g).
Proof.
  intros s v g Hg I. constructor.
  - intros t y. apply (placed_ext s); [reflexivity | .. | apply (i_placed _ I)]; simp_st;
      (destruct (Nat.eqb y v) eqn:E; auto; neq_tac; subst y; destruct (Hg (s_vc s v)) as (a & b & c); congruence).
  - intros j x. apply (waits_ext s); auto. apply (i_waits _ I).
Qed.

Lemma dequeue_vc : forall s t, s_vc (dequeue s t) = s_vc s.
Proof. intros. unfold dequeue. destruct (th_waitq (getth s t)); reflexivity. Qed.
Lemma dequeue_self : forall s t,
  th_waitq (s_th (dequeue s t) t) = None /\ th_state (s_th (dequeue s t) t) = th_state (s_th s t) /\
  th_vcpu (s_th (dequeue s t) t) = th_vcpu (s_th s t).
Proof.
  intros. unfold dequeue, getth. destruct (th_waitq (s_th s t)) as [w|] eqn:W; auto.
  simp_st. rewrite Nat.eqb_refl. destruct (Nat.eqb t w) eqn:E; neq_tac; subst; cbn; auto.
Qed.

Lemma inv1_wake : forall s v t e, Inv1 s -> th_state (s_th s t) = SLEEPING -> Inv1 (wake s v t e).
Proof.
  intros s v t e I Es. unfold wake.
  set (s0 := modth s t (fun th => set_th_err th e)).
  assert (I0 : Inv1 s0). { apply inv1_neutral; [intro th; repeat split | auto]. }
  assert (E0 : th_state (s_th s0 t) = SLEEPING). { unfold s0. simp_st. rewrite Nat.eqb_refl. exact Es. }
  pose proof (inv1_dequeue s0 t I0) as I1.
  destruct (dequeue_self s0 t) as (d1 & d2 & d3).
  unfold getth.
  destruct (Nat.eqb (th_vcpu (s_th (dequeue s0 t) t)) v) eqn:Ev.
  - neq_tac. apply (inv1_wake_same (dequeue s0 t) v t I1); congruence.
  - apply (inv1_wake_cross (dequeue s0 t) _ t I1); congruence.
Qed.

Lemma wake_runq_head : forall s v t e c rest, t <> c ->
  v_runq (s_vc s v) = c :: rest ->
  exists rest', v_runq (s_vc (wake s v t e) v) = c :: rest' /\
                (forall x, cnt x rest <= cnt x rest').
Proof.
  intros s v t e c rest N Hq. unfold wake, getth.
  set (s1 := dequeue (modth s t (fun th => set_th_err th e)) t).
  assert (V : s_vc s1 = s_vc s). { unfold s1. rewrite dequeue_vc. reflexivity. }
  destruct (Nat.eqb (th_vcpu (s_th s1 t)) v) eqn:Ev.
  - simp_st. rewrite Nat.eqb_refl, V. cbn. rewrite Hq. exists (rest ++ [t]). split; auto.
    intro x. rewrite cnt_app. lia.
  - simp_st. rewrite V. neq_tac. destruct (Nat.eqb v (th_vcpu (s_th s1 t))) eqn:E2; neq_tac; [congruence|].
    rewrite Hq. exists rest. split; auto.
Qed.

Lemma dequeue_state : forall s t x, th_state (s_th (dequeue s t) x) = th_state (s_th s x).
Proof.
  intros. unfold dequeue, getth. destruct (th_waitq (s_th s t)) as [w|]; auto. simp_st.
  destruct (Nat.eqb x t) eqn:E1; neq_tac; subst.
  - destruct (Nat.eqb t w) eqn:E2; neq_tac; subst; reflexivity.
  - destruct (Nat.eqb x w) eqn:E2; neq_tac; subst; reflexivity.
Qed.

Lemma wake_other_thread : forall s v t e x, x <> t ->
  th_state (s_th (wake s v t e) x) = th_state (s_th s x).
Proof.
  intros s v t e x N. unfold wake, getth.
  set (s0 := modth s t (fun th => set_th_err th e)).
  assert (D : th_state (s_th (dequeue s0 t) x) = th_state (s_th s x)).
  { rewrite dequeue_state. unfold s0. simp_st. apply Nat.eqb_neq in N. now rewrite N. }
  destruct (Nat.eqb (th_vcpu (s_th (dequeue s0 t) t)) v); simp_st; apply Nat.eqb_neq in N; rewrite N; exact D.
Qed.

Lemma inv1_interrupt : forall s v t e s', Inv1 s -> do_interrupt s v t e = Some s' -> Inv1 s'.
Proof.
  intros s v t e s' I. unfold do_interrupt, getth.
  destruct (th_state (s_th s t)) eqn:Es; intro H; try (inversion H; subst; auto; fail).
  - destruct (Z.eqb (th_err (s_th s t)) 0); inversion H; subst; auto.
    apply inv1_neutral; [intro th; repeat split | auto].
  - destruct (lock_free (th_lock (s_th s t))); inversion H; subst. now apply inv1_wake.
Qed.

Lemma head_not_second : forall s v c n rest, Inv1 s -> v_runq (s_vc s v) = c :: n :: rest -> c <> n.
Proof.
  intros s v c n rest I Hq E. subst n.
  assert (Hc : cnt c (v_runq (s_vc s v)) >= 1) by (rewrite Hq; apply cnt_head).
  destruct (in_runq_facts s c v (i_placed _ I c v) Hc) as (_ & _ & _ & l4 & _).
  rewrite Hq, !cnt_cons, Nat.eqb_refl in l4. lia.
Qed.

Lemma inv1_yield : forall s v ce d, Inv1 s ->
  (forall c rest, v_runq (s_vc s v) = c :: rest -> th_state (s_th s c) = RUNNING) ->
  Inv1 (do_yield s v ce d).
Proof.
  intros s v ce d I Hr. unfold do_yield, getvc.
  destruct (v_runq (s_vc s v)) as [|c [|n rest]] eqn:Hq; try (apply (inv1_same s); auto; fail).
  pose proof (head_not_second s v c n rest I Hq) as Ncn.
  assert (In : Inv1 (switch_in s n)).
  { apply (inv1_switch_in s v); auto. rewrite Hq, !cnt_cons, Nat.eqb_refl. lia. }
  apply (inv1_rotate (switch_in s n) v c (n :: rest)); auto.
  - rewrite switch_in_other by auto. eapply Hr; eauto.
  - intro th. destruct ce; cbn; repeat split.
Qed.

Lemma inv1_do_sleep : forall s v exp wq d, Inv1 s ->
  (forall c rest, v_runq (s_vc s v) = c :: rest -> th_state (s_th s c) = RUNNING) ->
  Inv1 (do_sleep s v exp wq d).
Proof.
  intros s v exp wq d I Hr. unfold do_sleep, getvc.
  destruct (v_runq (s_vc s v)) as [|c [|n rest]] eqn:Hq; try (apply (inv1_same s); auto; fail).
  pose proof (head_not_second s v c n rest I Hq) as Ncn.
  assert (In : Inv1 (switch_in s n)).
  { apply (inv1_switch_in s v); auto. rewrite Hq, !cnt_cons, Nat.eqb_refl. lia. }
  match goal with |- Inv1 (if ?b then set_s_tie ?X true else ?X) =>
    assert (IX : Inv1 X); [| destruct b; auto; apply (inv1_same X); auto] end.
  apply (inv1_sleep (switch_in s n) v c (n :: rest)); auto.
  rewrite switch_in_other by auto. eapply Hr; eauto.
Qed.

Lemma inv1_do_create : forall s v k jn ws, Inv1 s -> th_state (s_th s k) = NOTCREATED -> Inv1 (do_create s v k jn ws).
Proof.
  intros s v k jn ws I En. unfold do_create, getth.
  apply (inv1_create s v k _ (fun x => (v_nthreads x + 1)%Z)); auto.
Qed.

Lemma head_running : forall s v, 
  (forall c rest, v_runq (s_vc s v) = c :: rest -> th_state (s_th s c) = RUNNING) -> True.
Proof. auto. Qed.

Lemma inv1_do_die : forall s v rv s', Inv1 s ->
  (forall c rest, v_runq (s_vc s v) = c :: rest -> th_state (s_th s c) = RUNNING) ->
  do_die s v rv = Some s' -> Inv1 s'.
Proof.
  intros s v rv s' I Hr. unfold do_die, getvc, getth.
  destruct (v_runq (s_vc s v)) as [|c [|n rest]] eqn:Hq;
    try (intro H; inversion H; subst; apply (inv1_same s); auto; fail).
  cbv zeta. match goal with |- (if negb ?b then _ else _) = _ -> _ => destruct b end; cbn [negb]; [|discriminate].
  intro H. inversion H; subst s'; clear H.
  pose proof (Hr c _ eq_refl) as Ec.
  pose proof (head_not_second s v c n rest I Hq) as Ncn.
  (* cond.notify_one *)
  set (s1 := match th_joiners (s_th s c) with j :: _ => wake s v j (-1) | [] => s end).
  assert (S1 : Inv1 s1 /\ (exists rest', v_runq (s_vc s1 v) = c :: rest' /\ cnt n rest' >= 1) /\
               th_state (s_th s1 c) = RUNNING).
  { unfold s1. destruct (th_joiners (s_th s c)) as [|j js] eqn:Ej.
    - split; [auto|split; [|auto]]. exists (n :: rest). split; auto. rewrite cnt_cons, Nat.eqb_refl. lia.
    - destruct (i_waits _ I j c) as [A B]. rewrite Ej, cnt_cons, Nat.eqb_refl in A.
      assert (Wj : th_waitq (s_th s j) <> None).
      { destruct (th_waitq (s_th s j)); [discriminate|]. cbn in A. lia. }
      pose proof (B Wj) as Sj.
      assert (Njc : j <> c) by (intro; subst; congruence).
      split; [|split].
      + now apply inv1_wake.
      + destruct (wake_runq_head s v j (-1) c (n :: rest) Njc Hq) as (r' & E1 & E2).
        exists r'. split; auto. specialize (E2 n). rewrite cnt_cons, Nat.eqb_refl in E2. lia.
      + rewrite wake_other_thread; auto. }
  destruct S1 as (I1 & (rest' & Hq1 & Hn1) & Ec1).
  assert (I2 : Inv1 (switch_in s1 n)).
  { apply (inv1_switch_in s1 v); auto. rewrite Hq1, cnt_cons. lia. }
  apply (inv1_die (switch_in s1 n) v c rest' _ (PDie c) (fun x => (v_nthreads x - 1)%Z)); auto.
  rewrite switch_in_other; auto.
Qed.

Lemma inv1_do_migrate : forall s v t u s' b, Inv1 s -> do_migrate s v t u = Some (s', b) -> Inv1 s'.
Proof.
  intros s v t u s' b I. unfold do_migrate, getth, getvc.
  destruct (negb _); [discriminate|].
  match goal with |- (if ?c then _ else _) = _ -> _ => destruct c eqn:C end; intro H; inversion H; subst; auto.
  repeat (apply andb_true_iff in C; destruct C as [C ?]).
  apply (inv1_migrate s v u t (fun x => (v_nthreads x - 1)%Z) (fun x => (v_nthreads x + 1)%Z)); auto.
  - match goal with H : negb (Nat.eqb u v) = true |- _ => apply negb_true_iff in H; now apply Nat.eqb_neq in H end.
  - match goal with H : mem_tid _ _ = true |- _ => now apply mem_cnt in H end.
  - destruct (th_state (s_th s t)); try discriminate; reflexivity.
Qed.

Lemma inv1_exec_pend : forall s v, Inv1 s -> Inv1 (exec_pend s v).
Proof.
  intros s v I. unfold exec_pend, getvc, getth.
  assert (I0 : Inv1 (modvc s v (fun x => set_v_pend x PNone))).
  { apply inv1_vc_neutral; [intro x; repeat split | auto]. }
  destruct (v_pend (s_vc s v)) as [|from d|from]; auto.
  - destruct d as [|t|t u]; auto.
    + apply inv1_neutral; [intro th; repeat split | auto].
    + destruct (do_migrate _ v t u) as [[s1 b]|] eqn:M; auto. eapply inv1_do_migrate; eauto.
  - destruct (th_joinable _); (apply inv1_neutral; [intro th; repeat split | auto]).
Qed.

Lemma inv1_ret : forall s c r e, Inv1 s -> Inv1 (ret s c r e).
Proof.
  intros. unfold ret. apply inv1_neutral; [intro th; repeat split|]. apply (inv1_same s); auto.
Qed.
Lemma inv1_setk : forall s c k, Inv1 s -> Inv1 (setk s c k).
Proof. intros. unfold setk. apply inv1_neutral; [intro th; repeat split | auto]. Qed.
Lemma inv1_sen : forall s c, Inv1 s -> Inv1 (fst (fst (set_error_number s c))).
Proof.
  intros. unfold set_error_number. destruct (Z.eqb _ 0); cbn; auto.
  apply inv1_neutral; [intro th; repeat split | auto].
Qed.

(* the CURRENT thread of v is RUNNING: kept through the neutral updates *)
Definition head_run (s : state) (v : nat) : Prop :=
  forall c rest, v_runq (s_vc s v) = c :: rest -> th_state (s_th s c) = RUNNING.
Lemma head_run_neutral : forall s v t f, (forall th, same_sched (f th) th) -> head_run s v -> head_run (modth s t f) v.
Proof.
  unfold head_run. intros s v t f Hf H c rest. simp_st. intro Hq.
  destruct (Nat.eqb c t) eqn:E; neq_tac; subst; eauto.
  destruct (Hf (s_th s t)) as (h1 & _). rewrite h1. eauto.
Qed.
Lemma head_run_same : forall s s' v, s_th s' = s_th s -> s_vc s' = s_vc s -> head_run s v -> head_run s' v.
Proof. unfold head_run. intros s s' v -> ->. auto. Qed.

Lemma inv1_join_check : forall s v c j, Inv1 s -> head_run s v -> Inv1 (join_check s v c j).
Proof.
  intros s v c j I Hr. unfold join_check, getth.
  destruct (tstate_eqb _ NOTCREATED). { apply (inv1_same s); auto. }
  destruct (negb (th_joinable _)). { now apply inv1_ret. }
  destruct (negb _); auto.
  destruct (tstate_eqb _ DONE).
  - apply inv1_ret. apply inv1_neutral; [intro th; repeat split | auto].
  - destruct (negb _); auto.
    apply inv1_do_sleep.
    + apply inv1_setk. apply inv1_neutral; [intro th; repeat split | auto].
    + unfold setk. apply head_run_neutral; [intro th; repeat split|].
      apply head_run_neutral; [intro th; repeat split | auto].
Qed.

Ltac neutral := apply inv1_neutral; [intro th; repeat split | auto].
Ltac hr_neutral := apply head_run_neutral; [intro th; repeat split | auto].

Lemma inv1_wait_all_op : forall progs s v c f, Inv1 s -> head_run s v -> Inv1 (wait_all_op progs s v c f).
Proof.
  intros progs s v c f I Hr. unfold wait_all_op, getth.
  assert (W : Inv1 (wait_check progs s v c f)).
  { unfold wait_check, getth, getvc. destruct (wait_cond s v); [|now apply inv1_ret].
    destruct (v_sleepq (s_vc s v)).
    - apply inv1_yield; [now apply inv1_setk|]. unfold setk. hr_neutral.
    - destruct (expired _ _).
      + apply inv1_yield; [now apply inv1_setk|]. unfold setk. hr_neutral.
      + destruct (lock_free _); auto.
        apply inv1_do_sleep; [now apply inv1_setk|]. unfold setk. hr_neutral. }
  destruct (Nat.eqb c v); [|destruct f; [apply (inv1_same s); auto|now apply inv1_ret]].
  destruct (th_k (s_th s c)) as [|[|[|k]]]; auto.
  - pose proof (inv1_sen s c I) as X. destruct (set_error_number s c) as [[s1 r] e]. cbn in X. now apply inv1_setk.
  - now apply inv1_setk.
Qed.

Lemma inv1_exec_op : forall progs s v c o, Inv1 s -> head_run s v -> Inv1 (exec_op progs s v c o).
Proof.
  intros progs s v c o I Hr. unfold exec_op, getth, getvc.
  destruct o as [d| |j e|j jn ws|j| | |j|j u| |]; try now apply inv1_wait_all_op.
  - (* usleep *)
    destruct (th_k (s_th s c)) as [|[|k]].
    + destruct (expired _ _).
      * apply inv1_yield; [now apply inv1_setk|]. unfold setk. hr_neutral.
      * destruct (lock_free _); auto.
        apply inv1_do_sleep; [now apply inv1_setk|]. unfold setk. hr_neutral.
    + pose proof (inv1_sen s c I) as X. destruct (set_error_number s c) as [[s1 r] e]. cbn in X. now apply inv1_ret.
    + destruct (Z.eqb _ 0); now apply inv1_ret.
  - (* yield *)
    destruct (th_k (s_th s c)).
    + apply inv1_yield; [now apply inv1_setk|]. unfold setk. hr_neutral.
    + now apply inv1_ret.
  - (* interrupt *)
    destruct (alive progs s j); [|now apply inv1_ret].
    destruct (do_interrupt s v j e) as [s1|] eqn:D; auto.
    apply inv1_ret. eapply inv1_interrupt; eauto.
  - (* create *)
    destruct (_ && _) eqn:C; [|now apply inv1_ret].
    apply inv1_ret. apply inv1_do_create; auto.
    apply andb_true_iff in C. destruct C as [_ C]. unfold getth in C.
    destruct (th_state (s_th s j)); try discriminate; reflexivity.
  - (* join *)
    destruct (th_k (s_th s c)) as [|[|k]].
    + destruct (_ && _); [|now apply inv1_ret]. apply inv1_setk. neutral.
    + now apply inv1_join_check.
    + pose proof (inv1_sen s c I) as X. destruct (set_error_number s c) as [[s1 r] e]. cbn in X. now apply inv1_setk.
  - now apply inv1_ret.
  - now apply inv1_ret.
  - destruct (_ && _); now apply inv1_ret.
  - (* migrate *)
    destruct (th_k (s_th s c)); [|now apply inv1_ret].
    destruct (negb _); [now apply inv1_ret|].
    destruct (Nat.eqb u v); [now apply inv1_ret|].
    destruct (Nat.eqb j c).
    { apply inv1_yield; [now apply inv1_setk|]. unfold setk. hr_neutral. }
    destruct (negb _); [now apply inv1_ret|].
    destruct (negb _); [now apply inv1_ret|].
    destruct (do_migrate s v j u) as [[s1 [|]]|] eqn:M; auto; apply inv1_ret; eapply inv1_do_migrate; eauto.
Qed.

Lemma inv1_step_vcpu : forall progs s v, Inv1 s -> Inv1 (step_vcpu progs s v).
Proof.
  intros progs s v I. unfold step_vcpu, getvc, getth.
  destruct (negb _). { now apply inv1_exec_pend. }
  destruct (v_runq (s_vc s v)) as [|c rest] eqn:Hq. { apply (inv1_same s); auto. }
  destruct (th_state (s_th s c)) eqn:Es; try (apply (inv1_same s); auto; fail).
  assert (Hr : head_run s v). { intros c' r' E. rewrite Hq in E. inversion E; subst. auto. }
  destruct (th_kind (s_th s c)).
  - (* main *)
    destruct (nth_error _ _); [now apply inv1_exec_op|].
    destruct (th_k (s_th s c)).
    + destruct (lock_free _); auto. apply inv1_do_sleep; [now apply inv1_setk|]. unfold setk. hr_neutral.
    + pose proof (inv1_sen s c I) as X. destruct (set_error_number s c) as [[s1 r] e]. cbn in X. now apply inv1_setk.
  - (* idler *)
    destruct rest; auto. apply inv1_yield; auto.
  - (* user *)
    destruct (nth_error _ _); [now apply inv1_exec_op|].
    destruct (do_die s v _) as [s1|] eqn:D; auto. eapply inv1_do_die; eauto.
Qed.

Lemma inv1_do_drain : forall s v, Inv1 s -> Inv1 (do_drain s v).
Proof. intros. unfold do_drain. now apply inv1_drain_list. Qed.

Lemma inv1_do_resume : forall s v, Inv1 s -> Inv1 (do_resume s v).
Proof.
  intros s v I. unfold do_resume, getvc, getth.
  destruct (v_sleepq (s_vc s v)) as [|t rest] eqn:Hq; auto.
  destruct (Z.ltb _ _); auto. destruct (negb _); auto.
  assert (Hc : cnt t (v_sleepq (s_vc s v)) >= 1) by (rewrite Hq; apply cnt_head).
  destruct (tstate_eqb (th_state (s_th s t)) SLEEPING) eqn:Es.
  - assert (Es' : th_state (s_th s t) = SLEEPING) by (destruct (th_state (s_th s t)); try discriminate; reflexivity).
    destruct (in_sleepq_facts s t v (i_placed _ I t v) Hc) as (l1 & l2 & _).
    pose proof (inv1_dequeue s t I) as I1. destruct (dequeue_self s t) as (d1 & d2 & d3).
    apply (inv1_wake_same (dequeue s t) v t I1); congruence.
  - apply inv1_resume_pop; auto. intro E. rewrite E in Es. discriminate.
Qed.

Lemma inv1_do_steal : forall s v u t, Inv1 s -> Inv1 (do_steal s v u t).
Proof.
  intros s v u t I. unfold do_steal, getth, getvc.
  destruct (negb _) eqn:G; auto. apply negb_false_iff in G.
  repeat (apply andb_true_iff in G; destruct G as [G ?]).
  assert (Nuv : u <> v).
  { match goal with H : negb (Nat.eqb u v) = true |- _ => apply negb_true_iff in H; now apply Nat.eqb_neq in H end. }
  assert (Hi : th_insleep (s_th s t) = false).
  { match goal with H : stealable _ = true |- _ => unfold stealable in H; apply andb_true_iff in H; destruct H as [_ H];
      now apply negb_true_iff in H end. }
  destruct (mem_tid t (v_standby (s_vc s u))) eqn:M1.
  - apply mem_cnt in M1.
    apply (inv1_steal s v u t true (fun x => (v_nthreads x - 1)%Z) (fun x => (v_nthreads x + 1)%Z)); auto.
  - destruct (_ && _) eqn:M2; auto. apply andb_true_iff in M2. destruct M2 as [M2 M3]. apply mem_cnt in M2.
    apply (inv1_steal s v u t false (fun x => (v_nthreads x - 1)%Z) (fun x => (v_nthreads x + 1)%Z)); auto.
    split; auto. intro E. rewrite E in M3. discriminate.
Qed.

Lemma inv1_step : forall progs s l, Inv1 s -> Inv1 (step progs s l).
Proof.
  intros progs s l I. unfold step. destruct (s_stuck s); auto. destruct (frozen _ _ _); auto.
  destruct l as [v|v|v|v u t|d].
  - destruct (Nat.ltb _ _); auto. destruct (pend_to_offline _ _ _); [apply (inv1_same s); auto|]. now apply inv1_step_vcpu.
  - destruct (_ && _); auto. now apply inv1_do_drain.
  - destruct (_ && _); auto. now apply inv1_do_resume.
  - destruct (_ && _); auto. now apply inv1_do_steal.
  - destruct (Z.leb _ _); auto. apply (inv1_same s); auto.
Qed.

Lemma inv1_run : forall progs ls s, Inv1 s -> Inv1 (run progs s ls).
Proof. induction ls; cbn; intros; auto. apply IHls. now apply inv1_step. Qed.

Lemma init_thread_cases : forall nv n t, nv <= n ->
  (t < nv /\ init_thread nv n t = mkT RUNNING t KMain 0 0 false None [] false false LFree 0 0 0 false false 1 0 0 0 0) \/
  (n <= t < n + nv /\ init_thread nv n t = mkT READY (t - n) KIdler 0 0 false None [] true false LFree 0 0 0 false true 0 0 0 0 0) \/
  (nv <= t /\ (t < n \/ n + nv <= t) /\ init_thread nv n t = thread0).
Proof.
  intros nv n t Hn. unfold init_thread.
  destruct (Nat.ltb t nv) eqn:E1.
  - apply Nat.ltb_lt in E1. left. auto.
  - apply Nat.ltb_ge in E1. destruct (Nat.leb n t) eqn:E2; cbn [andb].
    + apply Nat.leb_le in E2. destruct (Nat.ltb t (n + nv)) eqn:E3.
      * apply Nat.ltb_lt in E3. right. left. auto.
      * apply Nat.ltb_ge in E3. right. right. auto.
    + apply Nat.leb_gt in E2. right. right. auto.
Qed.
Lemma init_vcpu_cases : forall nv n flags v,
  (v < nv /\ v_runq (init_vcpu nv n flags v) = [v; n + v] /\ v_sleepq (init_vcpu nv n flags v) = [] /\ v_standby (init_vcpu nv n flags v) = []) \/
  (nv <= v /\ init_vcpu nv n flags v = vcpu0).
Proof.
  intros. unfold init_vcpu. destruct (Nat.ltb v nv) eqn:E.
  - apply Nat.ltb_lt in E. left. auto.
  - apply Nat.ltb_ge in E. right. auto.
Qed.

Ltac eqbf a b := replace (Nat.eqb a b) with false by (symmetry; apply Nat.eqb_neq; lia).
Lemma inv1_init : forall nv n flags t0, nv <= n -> Inv1 (init_state nv n flags t0).
Proof.
  intros nv n flags t0 Hn. constructor.
  - intros t v. unfold placed, init_state. cbn [s_th s_vc].
    destruct (init_thread_cases nv n t Hn) as [[T1 ->]|[[T1 ->]|(T1 & T2 & ->)]];
    destruct (init_vcpu_cases nv n flags v) as [(V1 & -> & -> & ->)|[V1 ->]];
      cbn [live th_state th_vcpu th_insleep tstate_eqb negb andb thread0 vcpu0 v_runq v_sleepq v_standby place_ok];
      rewrite ?cnt_cons, ?cnt_nil.
    + destruct (Nat.eqb t v) eqn:E; neq_tac.
      * subst v. rewrite Nat.eqb_refl. eqbf (n + t) t. lia.
      * eqbf v t. eqbf (n + v) t. auto.
    + eqbf t v. auto.
    + destruct (Nat.eqb (t - n) v) eqn:E; neq_tac.
      * subst v. eqbf (t - n) t. replace (n + (t - n)) with t by lia. rewrite Nat.eqb_refl. lia.
      * eqbf v t. eqbf (n + v) t. auto.
    + eqbf (t - n) v. auto.
    + eqbf v t. eqbf (n + v) t. auto.
    + auto.
  - intros j x. unfold waits, init_state. cbn [s_th].
    destruct (init_thread_cases nv n j Hn) as [[_ ->]|[[_ ->]|(_ & _ & ->)]];
    destruct (init_thread_cases nv n x Hn) as [[_ ->]|[[_ ->]|(_ & _ & ->)]];
      cbn; (split; [reflexivity|congruence]).
Qed.

(* ---- the theorems about placement ---------------------------------------------------------- *)
Definition reachable (progs : tid -> list op) (nv n : nat) (flags : nat -> bool * bool) (t0 : Z) (s : state) : Prop :=
  exists ls, s = run progs (init_state nv n flags t0) ls.

Lemma reachable_inv1 : forall progs nv n flags t0 s, nv <= n -> reachable progs nv n flags t0 s -> Inv1 s.
Proof. intros progs nv n flags t0 s Hn [ls ->]. apply inv1_run. now apply inv1_init. Qed.

(* placement_unique: in every reachable state, for every thread t and every vCPU v, the numbers of
   occurrences of t in v's run / sleep / standby queue are exactly those dictated by t's own state
   and vCPU: a live thread is in exactly one place of its own vCPU (plus the documented
   sleep-queue/standby-queue overlap), in no queue of any other vCPU, and a thread that does not
   exist (any more) is in no queue at all *)
Lemma placement_unique_proof : forall progs nv n flags t0 s, nv <= n -> reachable progs nv n flags t0 s ->
  forall t v, placed s t v.
Proof. intros. eapply i_placed, reachable_inv1; eauto. Qed.

(* the same, read as "exactly one": occurrences over ALL vCPUs and queues *)
Lemma placement_exactly_one_proof : forall progs nv n flags t0 s, nv <= n -> reachable progs nv n flags t0 s ->
  forall t, live (s_th s t) = true ->
    let v := th_vcpu (s_th s t) in
    cnt t (v_runq (s_vc s v)) + cnt t (v_sleepq (s_vc s v)) +
      (if th_insleep (s_th s t) then 0 else cnt t (v_standby (s_vc s v))) = 1 /\
    (forall u, u <> v -> cnt t (v_runq (s_vc s u)) = 0 /\ cnt t (v_sleepq (s_vc s u)) = 0 /\ cnt t (v_standby (s_vc s u)) = 0).
Proof.
  intros progs nv n flags t0 s Hn R t L v.
  pose proof (reachable_inv1 _ _ _ _ _ _ Hn R) as I. split.
  - generalize (i_placed _ I t v). unfold placed. rewrite L. fold v. rewrite Nat.eqb_refl. cbn.
    unfold place_ok. destruct (th_state (s_th s t)), (th_insleep (s_th s t)); try tauto; lia.
  - intros u Nu. generalize (i_placed _ I t u). unfold placed. rewrite L. fold v.
    assert (Nat.eqb v u = false) as -> by (apply Nat.eqb_neq; congruence). auto.
Qed.

(* not lost / not resurrected: a thread is in some queue iff it exists and is not DONE *)
Lemma placed_iff_live_proof : forall progs nv n flags t0 s, nv <= n -> reachable progs nv n flags t0 s ->
  forall t, (exists v, cnt t (v_runq (s_vc s v)) + cnt t (v_sleepq (s_vc s v)) + cnt t (v_standby (s_vc s v)) >= 1)
            <-> live (s_th s t) = true.
Proof.
  intros progs nv n flags t0 s Hn R t.
  pose proof (reachable_inv1 _ _ _ _ _ _ Hn R) as I. split.
  - intros [v H]. generalize (i_placed _ I t v). unfold placed.
    destruct (live (s_th s t)); auto. cbn. lia.
  - intro L. exists (th_vcpu (s_th s t)).
    destruct (placement_exactly_one_proof _ _ _ _ _ _ Hn R t L) as [H _]. cbn in H.
    destruct (th_insleep (s_th s t)); lia.
Qed.

(* one_vcpu_at_a_time (queue level): a thread is never the CURRENT thread of two vCPUs, and the
   CURRENT thread of a vCPU always exists and is not DONE *)
Lemma one_vcpu_at_a_time_proof : forall progs nv n flags t0 s, nv <= n -> reachable progs nv n flags t0 s ->
  forall v v' t, cur s v = Some t -> cur s v' = Some t ->
    v = v' /\ live (s_th s t) = true /\ th_vcpu (s_th s t) = v.
Proof.
  intros progs nv n flags t0 s Hn R v v' t C1 C2.
  pose proof (reachable_inv1 _ _ _ _ _ _ Hn R) as I.
  unfold cur, getvc in *.
  destruct (v_runq (s_vc s v)) as [|a r] eqn:Q1; [discriminate|]. inversion C1; subst a.
  destruct (v_runq (s_vc s v')) as [|a r'] eqn:Q2; [discriminate|]. inversion C2; subst a.
  assert (H1 : cnt t (v_runq (s_vc s v)) >= 1) by (rewrite Q1; apply cnt_head).
  assert (H2 : cnt t (v_runq (s_vc s v')) >= 1) by (rewrite Q2; apply cnt_head).
  destruct (in_runq_facts s t v (i_placed _ I t v) H1) as (a1 & a2 & _).
  destruct (in_runq_facts s t v' (i_placed _ I t v') H2) as (b1 & b2 & _).
  repeat split; congruence.
Qed.

(* a thread waiting in a join queue is SLEEPING (so it is in the sleep queue of its vCPU and will be
   found by thread::die's notify_one) and is in that one queue only *)
Lemma join_queue_proof : forall progs nv n flags t0 s, nv <= n -> reachable progs nv n flags t0 s ->
  forall j x, cnt j (th_joiners (s_th s x)) >= 1 ->
    th_state (s_th s j) = SLEEPING /\ th_waitq (s_th s j) = Some x /\ cnt j (th_joiners (s_th s x)) = 1.
Proof.
  intros progs nv n flags t0 s Hn R j x H.
  pose proof (reachable_inv1 _ _ _ _ _ _ Hn R) as I.
  destruct (i_waits _ I j x) as [A B].
  destruct (th_waitq (s_th s j)) as [w|] eqn:W; cbn [opt_eqb] in A.
  - destruct (Nat.eqb w x) eqn:E; [|lia]. neq_tac. subst w. repeat split; auto. apply B. discriminate.
  - lia.
Qed.

(* ---- stack level: refuted (finding F23) ------------------------------------------------------
   `phys s v` is the thread whose stack vCPU v is physically executing on: after the queue block of
   a context switch and until its pending part (context save) has run, that is still the OLD
   thread, which is already READY in the run queue.  A thief may take it in that window and switch
   to it: two vCPUs are then on the same stack.  Witness: vCPU 0 (passive) runs thread 2
   (stealable) which yields; before vCPU 0 saves the context, vCPU 1 (active, idle) steals thread 2
   and switches to it. *)
Definition f20_progs : tid -> list op :=
  fun t => match t with
           | 0 => [OCreate 2 true true; OYield]
           | 1 => [OUsleep 1000]
           | 2 => [OYield; ONop]
           | _ => []
           end.
Definition f20_flags : nat -> bool * bool := fun v => match v with 0 => (false, true) | _ => (true, false) end.
Definition f20_schedule : list label :=
  [ LStep 0;            (* main of vCPU 0: create 2 *)
    LStep 0;            (* main of vCPU 0: yield -> queue block, CURRENT := idler ... *)
    LStep 0;            (*   pending part: context of main saved *)
    LStep 0;            (* idler of vCPU 0 yields: CURRENT := thread 2 *)
    LStep 0;            (*   pending part *)
    LStep 1; LStep 1;   (* main of vCPU 1 goes to sleep (queue block + pending part): its idler runs *)
    LStep 0;            (* thread 2: thread_yield(): queue block done (READY, run-queue lock released) ... *)
    LSteal 1 0 2;       (* ... vCPU 1 steals thread 2 BEFORE vCPU 0 has saved its context *)
    LStep 1;            (* idler of vCPU 1 yields: CURRENT := thread 2 *)
    LStep 1 ].          (*   pending part: vCPU 1 now executes on the stack of thread 2 *)

Lemma stack_exclusive_refuted_proof :
  exists s, reachable f20_progs 2 3 f20_flags 1000 s /\
            phys s 0 = Some 2 /\ phys s 1 = Some 2 /\ s_stuck s = false.
Proof.
  exists (run f20_progs (init_state 2 3 f20_flags 1000) f20_schedule).
  split; [exists f20_schedule; reflexivity|]. vm_compute. auto.
Qed.
