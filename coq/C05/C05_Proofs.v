(* C05_Proofs.v — inductive invariants of the life-cycle model (C05_Model.v) over every schedule
   (`run (init_state ...) labels`), any number of vCPUs and threads, every program. *)
From Coq Require Import ZArith List Bool Arith Lia.
From PV Require Import Base.U64 C05.C05_Model.
Import ListNotations.
Local Open Scope nat_scope.

(* ---- generic ---------------------------------------------------------------------------- *)
Lemma updp_eq : forall A (f : nat -> A) k v, updp f k v k = v.
Proof. intros. unfold updp. now rewrite Nat.eqb_refl. Qed.
Lemma updp_neq : forall A (f : nat -> A) k v x, x <> k -> updp f k v x = f x.
Proof. intros. unfold updp. destruct (Nat.eqb x k) eqn:E; auto. apply Nat.eqb_eq in E. congruence. Qed.

Definition cnt (x : tid) (l : list tid) : nat := count_occ Nat.eq_dec l x.

Lemma cnt_nil : forall x, cnt x [] = 0. Proof. reflexivity. Qed.
Arguments cnt : simpl never.
Lemma cnt_cons : forall x a l, cnt x (a :: l) = (if Nat.eqb a x then 1 else 0) + cnt x l.
Proof.
  intros. unfold cnt. cbn. destruct (Nat.eq_dec a x) as [->|N].
  - now rewrite Nat.eqb_refl.
  - apply Nat.eqb_neq in N. now rewrite N.
Qed.
Lemma cnt_app : forall x l1 l2, cnt x (l1 ++ l2) = cnt x l1 + cnt x l2.
Proof. intros. unfold cnt. apply count_occ_app. Qed.
Lemma cnt_snoc : forall x a l, cnt x (l ++ [a]) = cnt x l + (if Nat.eqb a x then 1 else 0).
Proof. intros. rewrite cnt_app, cnt_cons, cnt_nil. lia. Qed.
Lemma cnt_remove_same : forall a l, cnt a (remove_tid a l) = pred (cnt a l).
Proof.
  induction l as [|x r IH]; cbn [remove_tid]; auto.
  destruct (Nat.eqb x a) eqn:E.
  - rewrite cnt_cons, E. cbn. reflexivity.
  - rewrite !cnt_cons, E, IH. cbn. reflexivity.
Qed.
Lemma cnt_remove_other : forall x a l, x <> a -> cnt x (remove_tid a l) = cnt x l.
Proof.
  induction l as [|y r IH]; cbn [remove_tid]; auto. intro N.
  destruct (Nat.eqb y a) eqn:E.
  - apply Nat.eqb_eq in E. subst y. rewrite cnt_cons.
    assert (Nat.eqb a x = false) by (apply Nat.eqb_neq; congruence). rewrite H. reflexivity.
  - rewrite !cnt_cons, IH; auto.
Qed.
Lemma cnt_ins : forall ts x a l, cnt x (ins_sorted ts a l) = (if Nat.eqb a x then 1 else 0) + cnt x l.
Proof.
  induction l as [|y r IH]; cbn [ins_sorted].
  - rewrite cnt_cons. reflexivity.
  - destruct (Z.ltb (ts a) (ts y)).
    + rewrite cnt_cons. reflexivity.
    + rewrite !cnt_cons, IH. lia.
Qed.
Lemma mem_cnt : forall x l, mem_tid x l = true <-> cnt x l >= 1.
Proof.
  induction l as [|y r IH]; cbn [mem_tid].
  - rewrite cnt_nil. split; [discriminate|lia].
  - rewrite cnt_cons, orb_true_iff, IH. destruct (Nat.eqb y x); split; intros H.
    + lia.
    + now left.
    + destruct H as [H|H]; [discriminate|lia].
    + right. lia.
Qed.
Lemma cnt_head : forall x l, cnt x (x :: l) >= 1.
Proof. intros. rewrite cnt_cons, Nat.eqb_refl. lia. Qed.

(* ---- projections through the state transformers ------------------------------------------ *)
Lemma th_modth : forall s t f x, s_th (modth s t f) x = if Nat.eqb x t then f (s_th s t) else s_th s x.
Proof. reflexivity. Qed.
Lemma vc_modth : forall s t f, s_vc (modth s t f) = s_vc s. Proof. reflexivity. Qed.
Lemma th_modvc : forall s v g, s_th (modvc s v g) = s_th s. Proof. reflexivity. Qed.
Lemma vc_modvc : forall s v g y, s_vc (modvc s v g) y = if Nat.eqb y v then g (s_vc s v) else s_vc s y.
Proof. reflexivity. Qed.
Lemma nv_modth : forall s t f, s_nv (modth s t f) = s_nv s. Proof. reflexivity. Qed.
Lemma nv_modvc : forall s v g, s_nv (modvc s v g) = s_nv s. Proof. reflexivity. Qed.
Lemma n_modth : forall s t f, s_n (modth s t f) = s_n s. Proof. reflexivity. Qed.
Lemma n_modvc : forall s v g, s_n (modvc s v g) = s_n s. Proof. reflexivity. Qed.

Definition live (th : thread) : bool :=
  negb (tstate_eqb (th_state th) NOTCREATED) && negb (tstate_eqb (th_state th) DONE).

(* ---- the placement invariant ---------------------------------------------------------------
   For thread t and vCPU v let (r, q, b) be the number of occurrences of t in v's run queue,
   sleep queue and standby queue.  They are determined by the thread's own fields: *)
Definition place_ok (th : thread) (r q b : nat) : Prop :=
  match th_state th, th_insleep th with
  | SLEEPING, true => r = 0 /\ q = 1 /\ b = 0
  | STANDBY, true => r = 0 /\ q = 1 /\ b = 1               (* the documented overlap *)
  | STANDBY, false => q = 0 /\ r + b = 1                    (* in a standby queue, or stolen from one *)
  | READY, false => r = 1 /\ q = 0 /\ b = 0
  | RUNNING, false => r = 1 /\ q = 0 /\ b = 0
  | _, _ => False
  end.

Definition placed (s : state) (t : tid) (v : nat) : Prop :=
  let th := s_th s t in let vc := s_vc s v in
  let r := cnt t (v_runq vc) in let q := cnt t (v_sleepq vc) in let b := cnt t (v_standby vc) in
  if live th && Nat.eqb (th_vcpu th) v then place_ok th r q b else r = 0 /\ q = 0 /\ b = 0.

(* wait queues (thread::cond of the thread being joined): j is in x's queue iff j.waitq = x,
   and only SLEEPING threads wait *)
Definition opt_eqb (a : option nat) (x : nat) : bool :=
  match a with Some y => Nat.eqb y x | None => false end.
Definition waits (s : state) (j x : tid) : Prop :=
  cnt j (th_joiners (s_th s x)) = (if opt_eqb (th_waitq (s_th s j)) x then 1 else 0) /\
  (th_waitq (s_th s j) <> None -> th_state (s_th s j) = SLEEPING).

Record Inv1 (s : state) : Prop := mkInv1 {
  i_placed : forall t v, placed s t v;
  i_waits : forall j x, waits s j x
}.

Ltac simp_st := repeat rewrite ?th_modth, ?vc_modth, ?th_modvc, ?vc_modvc.
Ltac simp_st_in H := repeat rewrite ?th_modth, ?vc_modth, ?th_modvc, ?vc_modvc in H.

Lemma eqb_sym_false : forall a b, Nat.eqb a b = false -> Nat.eqb b a = false.
Proof. intros. rewrite Nat.eqb_sym. auto. Qed.

(* facts about a thread that occurs in a run queue *)
Lemma in_runq_facts : forall s t v, placed s t v -> cnt t (v_runq (s_vc s v)) >= 1 ->
  live (s_th s t) = true /\ th_vcpu (s_th s t) = v /\ th_insleep (s_th s t) = false /\
  cnt t (v_runq (s_vc s v)) = 1 /\ cnt t (v_sleepq (s_vc s v)) = 0 /\ cnt t (v_standby (s_vc s v)) = 0 /\
  (th_state (s_th s t) = READY \/ th_state (s_th s t) = RUNNING \/ th_state (s_th s t) = STANDBY).
Proof.
  unfold placed. intros s t v P H.
  destruct (live (s_th s t) && Nat.eqb (th_vcpu (s_th s t)) v) eqn:E.
  - apply andb_true_iff in E. destruct E as [E1 E2]. apply Nat.eqb_eq in E2.
    unfold place_ok in P. destruct (th_state (s_th s t)), (th_insleep (s_th s t)); try tauto; intuition lia.
  - lia.
Qed.

Lemma in_sleepq_facts : forall s t v, placed s t v -> cnt t (v_sleepq (s_vc s v)) >= 1 ->
  live (s_th s t) = true /\ th_vcpu (s_th s t) = v /\ th_insleep (s_th s t) = true /\
  cnt t (v_runq (s_vc s v)) = 0 /\ cnt t (v_sleepq (s_vc s v)) = 1 /\
  ((th_state (s_th s t) = SLEEPING /\ cnt t (v_standby (s_vc s v)) = 0) \/
   (th_state (s_th s t) = STANDBY /\ cnt t (v_standby (s_vc s v)) = 1)).
Proof.
  unfold placed. intros s t v P H.
  destruct (live (s_th s t) && Nat.eqb (th_vcpu (s_th s t)) v) eqn:E.
  - apply andb_true_iff in E. destruct E as [E1 E2]. apply Nat.eqb_eq in E2.
    unfold place_ok in P. destruct (th_state (s_th s t)), (th_insleep (s_th s t)); try tauto; intuition lia.
  - lia.
Qed.

Lemma in_standby_facts : forall s t v, placed s t v -> cnt t (v_standby (s_vc s v)) >= 1 ->
  live (s_th s t) = true /\ th_vcpu (s_th s t) = v /\ th_state (s_th s t) = STANDBY /\
  cnt t (v_runq (s_vc s v)) = 0 /\ cnt t (v_standby (s_vc s v)) = 1 /\
  cnt t (v_sleepq (s_vc s v)) = (if th_insleep (s_th s t) then 1 else 0).
Proof.
  unfold placed. intros s t v P H.
  destruct (live (s_th s t) && Nat.eqb (th_vcpu (s_th s t)) v) eqn:E.
  - apply andb_true_iff in E. destruct E as [E1 E2]. apply Nat.eqb_eq in E2.
    unfold place_ok in P. destruct (th_state (s_th s t)), (th_insleep (s_th s t)); try tauto; intuition lia.
  - lia.
Qed.

(* a thread in state SLEEPING sits in the sleep queue of its vCPU *)
Lemma sleeping_facts : forall s t, (forall v, placed s t v) -> th_state (s_th s t) = SLEEPING ->
  let v := th_vcpu (s_th s t) in
  th_insleep (s_th s t) = true /\ cnt t (v_runq (s_vc s v)) = 0 /\ cnt t (v_sleepq (s_vc s v)) = 1 /\
  cnt t (v_standby (s_vc s v)) = 0.
Proof.
  intros s t P E v. specialize (P v). unfold placed in P.
  unfold live in P. rewrite E in P. cbn in P. fold v in P. rewrite Nat.eqb_refl in P.
  unfold place_ok in P. rewrite E in P. destruct (th_insleep (s_th s t)); tauto.
Qed.

(* updates of a thread that leave its scheduling fields alone *)
Definition same_sched (a b : thread) : Prop :=
  th_state a = th_state b /\ th_vcpu a = th_vcpu b /\ th_insleep a = th_insleep b /\
  th_waitq a = th_waitq b /\ th_joiners a = th_joiners b.

Lemma inv1_neutral : forall s t f, (forall th, same_sched (f th) th) -> Inv1 s -> Inv1 (modth s t f).
Proof.
  intros s t f Hf I. constructor.
  - intros x v. generalize (i_placed _ I x v). unfold placed, live, place_ok. simp_st.
    destruct (Nat.eqb x t) eqn:E; auto.
    apply Nat.eqb_eq in E. subst x. destruct (Hf (s_th s t)) as (h1 & h2 & h3 & h4 & h5).
    rewrite h1, h2, h3. auto.
  - intros j x. generalize (i_waits _ I j x). unfold waits. simp_st.
    destruct (Nat.eqb x t) eqn:Ex; destruct (Nat.eqb j t) eqn:Ej;
      try (apply Nat.eqb_eq in Ex; subst x); try (apply Nat.eqb_eq in Ej; subst j);
      try destruct (Hf (s_th s t)) as (h1 & h2 & h3 & h4 & h5); rewrite ?h1, ?h4, ?h5; auto.
Qed.

Lemma placed_ext : forall s s' t v,
  s_th s' t = s_th s t ->
  cnt t (v_runq (s_vc s' v)) = cnt t (v_runq (s_vc s v)) ->
  cnt t (v_sleepq (s_vc s' v)) = cnt t (v_sleepq (s_vc s v)) ->
  cnt t (v_standby (s_vc s' v)) = cnt t (v_standby (s_vc s v)) ->
  placed s t v -> placed s' t v.
Proof. unfold placed. intros s s' t v -> -> -> ->. auto. Qed.

(* same, when only the scheduling fields of the thread are kept *)
Lemma placed_ext2 : forall s s' t v,
  th_state (s_th s' t) = th_state (s_th s t) -> th_vcpu (s_th s' t) = th_vcpu (s_th s t) ->
  th_insleep (s_th s' t) = th_insleep (s_th s t) ->
  cnt t (v_runq (s_vc s' v)) = cnt t (v_runq (s_vc s v)) ->
  cnt t (v_sleepq (s_vc s' v)) = cnt t (v_sleepq (s_vc s v)) ->
  cnt t (v_standby (s_vc s' v)) = cnt t (v_standby (s_vc s v)) ->
  placed s t v -> placed s' t v.
Proof. unfold placed, live, place_ok. intros s s' t v -> -> -> -> -> ->. auto. Qed.

Lemma waits_ext : forall s s' j x,
  th_joiners (s_th s' x) = th_joiners (s_th s x) ->
  th_waitq (s_th s' j) = th_waitq (s_th s j) ->
  (th_waitq (s_th s j) <> None -> th_state (s_th s' j) = th_state (s_th s j)) ->
  waits s j x -> waits s' j x.
Proof.
  unfold waits. intros s s' j x -> -> H [A B]. split; auto. intro N. rewrite (H N). auto.
Qed.

Ltac neq_tac :=
  repeat match goal with
  | H : Nat.eqb ?a ?b = false |- _ => apply Nat.eqb_neq in H
  | H : Nat.eqb ?a ?b = true |- _ => apply Nat.eqb_eq in H
  end.

Ltac split_eqb :=
  repeat match goal with
  | |- context[if Nat.eqb ?a ?b then _ else _] =>
      let E := fresh "E" in destruct (Nat.eqb a b) eqn:E;
      [apply Nat.eqb_eq in E; try subst | apply Nat.eqb_neq in E]
  end.
Ltac eqb_false a b := replace (Nat.eqb a b) with false by (symmetry; apply Nat.eqb_neq; congruence).
Ltac cnt_norm :=
  cbn [v_runq v_sleepq v_standby v_nthreads v_pend set_v_runq set_v_sleepq set_v_standby set_v_nthreads set_v_pend];
  rewrite ?cnt_snoc, ?cnt_app, ?cnt_cons, ?cnt_ins, ?cnt_nil, ?Nat.eqb_refl;
  repeat (rewrite cnt_remove_other by congruence);
  rewrite ?cnt_remove_same.
Ltac solve_cnt := simp_st; split_eqb; cnt_norm; split_eqb; try congruence; try lia; auto.

(* ---- elementary moves ---------------------------------------------------------------------- *)
(* E1: a SLEEPING thread (no wait queue) becomes READY at the tail of its own vCPU's run queue *)
Definition mv_wake_same (s : state) (v : nat) (t : tid) : state :=
  modvc (modth s t (fun th => set_th_insleep (set_th_state th READY) false)) v
        (fun x => set_v_runq (set_v_sleepq x (remove_tid t (v_sleepq x))) (v_runq x ++ [t])).

Lemma inv1_wake_same : forall s v t, Inv1 s ->
  th_state (s_th s t) = SLEEPING -> th_vcpu (s_th s t) = v -> th_waitq (s_th s t) = None ->
  Inv1 (mv_wake_same s v t).
Proof.
  intros s v t I Es Ev Ew.
  destruct (sleeping_facts s t (i_placed _ I t) Es) as (f1 & f2 & f3 & f4). rewrite Ev in *.
  constructor.
  - intros x y. unfold mv_wake_same.
    destruct (Nat.eq_dec x t) as [->|Nx].
    + generalize (i_placed _ I t y). unfold placed, live, place_ok. simp_st. rewrite Nat.eqb_refl. cbn.
      rewrite Es, Ev, f1. cbn.
      destruct (Nat.eqb v y) eqn:Evy; neq_tac.
      * subst y. rewrite Nat.eqb_refl. cbn. rewrite cnt_snoc, cnt_remove_same, Nat.eqb_refl. lia.
      * assert (Nat.eqb y v = false) as -> by (apply Nat.eqb_neq; congruence). auto.
    + apply (placed_ext s); [solve_cnt ..| apply (i_placed _ I)].
  - intros j x. unfold mv_wake_same. apply (waits_ext s); [solve_cnt ..| apply (i_waits _ I)].
Qed.

(* generic shape of the "changed thread" case: unfold `placed` for thread t on vCPU y *)
Ltac open_placed I t y :=
  generalize (i_placed _ I t y); unfold placed, live, place_ok; simp_st; rewrite ?Nat.eqb_refl;
  cbn [th_state th_vcpu th_insleep set_th_state set_th_vcpu set_th_insleep set_th_err set_th_ts set_th_waitq
       set_th_lock set_th_retval set_g_finished set_th_fresh set_g_started set_th_joiners].

(* E2: a SLEEPING thread becomes STANDBY in the standby queue of its vCPU (cross-vCPU wake-up) *)
Definition mv_wake_cross (s : state) (u : nat) (t : tid) : state :=
  modvc (modth s t (fun th => set_th_state th STANDBY)) u (fun x => set_v_standby x (v_standby x ++ [t])).

Lemma inv1_wake_cross : forall s u t, Inv1 s ->
  th_state (s_th s t) = SLEEPING -> th_vcpu (s_th s t) = u -> th_waitq (s_th s t) = None ->
  Inv1 (mv_wake_cross s u t).
Proof.
  intros s u t I Es Ev Ew.
  destruct (sleeping_facts s t (i_placed _ I t) Es) as (f1 & f2 & f3 & f4). rewrite Ev in *.
  constructor.
  - intros x y. unfold mv_wake_cross.
    destruct (Nat.eq_dec x t) as [->|Nx].
    + open_placed I t y. rewrite Es, Ev, f1. cbn.
      destruct (Nat.eqb u y) eqn:Euy; neq_tac.
      * subst y. rewrite Nat.eqb_refl. cnt_norm. lia.
      * eqb_false y u. auto.
    + apply (placed_ext s); [solve_cnt ..| apply (i_placed _ I)].
  - intros j x. unfold mv_wake_cross. apply (waits_ext s); [solve_cnt ..| apply (i_waits _ I)].
Qed.

(* E4: switch_in: a thread of the run queue becomes RUNNING *)
Lemma inv1_switch_in : forall s v n, Inv1 s -> cnt n (v_runq (s_vc s v)) >= 1 -> Inv1 (switch_in s n).
Proof.
  intros s v n I Hn.
  destruct (in_runq_facts s n v (i_placed _ I n v) Hn) as (l1 & l2 & l3 & l4 & l5 & l6 & l7).
  assert (Hw : th_waitq (s_th s n) = None).
  { destruct (th_waitq (s_th s n)) eqn:E; auto.
    destruct (i_waits _ I n 0) as [_ W]. rewrite E in W. specialize (W ltac:(discriminate)).
    destruct l7 as [l7|[l7|l7]]; congruence. }
  constructor.
  - intros x y. unfold switch_in.
    destruct (Nat.eq_dec x n) as [->|Nx].
    + generalize (i_placed _ I n y). unfold placed, live, place_ok. simp_st. rewrite Nat.eqb_refl.
      destruct (th_fresh (s_th s n)); cbn; rewrite l3, l2;
        destruct l7 as [l7|[l7|l7]]; rewrite l7; cbn;
        (destruct (Nat.eqb v y) eqn:Evy; [apply Nat.eqb_eq in Evy; subst y|]; auto; lia).
    + apply (placed_ext s); [solve_cnt ..| apply (i_placed _ I)].
  - intros j x. unfold switch_in. apply (waits_ext s); simp_st.
    + destruct (Nat.eqb x n) eqn:E; auto. neq_tac. subst x. destruct (th_fresh (s_th s n)); reflexivity.
    + destruct (Nat.eqb j n) eqn:E; auto. neq_tac. subst j. destruct (th_fresh (s_th s n)); reflexivity.
    + destruct (Nat.eqb j n) eqn:E; auto. neq_tac. subst j. congruence.
    + apply (i_waits _ I).
Qed.

Lemma switch_in_vc : forall s n, s_vc (switch_in s n) = s_vc s. Proof. reflexivity. Qed.
Lemma switch_in_other : forall s n x, x <> n -> s_th (switch_in s n) x = s_th s x.
Proof. intros. unfold switch_in. simp_st. apply Nat.eqb_neq in H. now rewrite H. Qed.
Lemma switch_in_state : forall s n, th_state (s_th (switch_in s n) n) = RUNNING.
Proof. intros. unfold switch_in. simp_st. rewrite Nat.eqb_refl. destruct (th_fresh (s_th s n)); reflexivity. Qed.

(* E3: the head of the run queue (RUNNING) goes to the tail as READY *)
Lemma inv1_rotate : forall s v c rest f, Inv1 s ->
  v_runq (s_vc s v) = c :: rest -> th_state (s_th s c) = RUNNING ->
  (forall th, th_vcpu (f th) = th_vcpu th /\ th_insleep (f th) = th_insleep th /\
              th_waitq (f th) = th_waitq th /\ th_joiners (f th) = th_joiners th /\ th_state (f th) = READY) ->
  forall p, Inv1 (modvc (modth s c f) v (fun x => set_v_pend (set_v_runq x (rest ++ [c])) p)).
Proof.
  intros s v c rest f I Hq Es Hf p.
  assert (Hc : cnt c (v_runq (s_vc s v)) >= 1) by (rewrite Hq; apply cnt_head).
  destruct (in_runq_facts s c v (i_placed _ I c v) Hc) as (l1 & l2 & l3 & l4 & l5 & l6 & l7).
  destruct (Hf (s_th s c)) as (h1 & h2 & h3 & h4 & h5).
  constructor.
  - intros x y.
    destruct (Nat.eq_dec x c) as [->|Nx].
    + generalize (i_placed _ I c y). unfold placed, live, place_ok. simp_st. rewrite Nat.eqb_refl.
      rewrite h1, h2, h5, Es, l3, l2. cbn.
      destruct (Nat.eqb v y) eqn:Evy; neq_tac.
      * subst y. rewrite Nat.eqb_refl. cbn. rewrite Hq. cnt_norm. lia.
      * eqb_false y v. auto.
    + apply (placed_ext s); [solve_cnt ..| apply (i_placed _ I)].
      rewrite Hq. cnt_norm. split_eqb; try congruence; lia.
  - intros j x. apply (waits_ext s); simp_st.
    + destruct (Nat.eqb x c) eqn:E; auto. neq_tac. subst. auto.
    + destruct (Nat.eqb j c) eqn:E; auto. neq_tac. subst. auto.
    + destruct (Nat.eqb j c) eqn:E; auto. neq_tac. subst j. intro N.
      destruct (i_waits _ I c 0) as [_ W]. specialize (W N). congruence.
    + apply (i_waits _ I).
Qed.

Lemma running_no_waitq : forall s c, Inv1 s -> th_state (s_th s c) = RUNNING -> th_waitq (s_th s c) = None.
Proof.
  intros s c I E. destruct (th_waitq (s_th s c)) eqn:W; auto.
  destruct (i_waits _ I c 0) as [_ H]. rewrite W in H. specialize (H ltac:(discriminate)). congruence.
Qed.

(* E5: the head of the run queue goes to sleep (optionally into the wait queue of thread x) *)
Lemma inv1_sleep : forall s v c rest exp wq ts p, Inv1 s ->
  v_runq (s_vc s v) = c :: rest -> th_state (s_th s c) = RUNNING ->
  let s2 := modth s c (fun th => set_th_waitq (set_th_ts (set_th_insleep (set_th_state th SLEEPING) true) exp) wq) in
  let s3 := match wq with Some x => modth s2 x (fun th => set_th_joiners th (th_joiners th ++ [c])) | None => s2 end in
  Inv1 (modvc s3 v (fun x => set_v_pend (set_v_sleepq (set_v_runq x rest) (ins_sorted ts c (v_sleepq x))) p)).
Proof.
  intros s v c rest exp wq ts p I Hq Es s2 s3.
  assert (Hc : cnt c (v_runq (s_vc s v)) >= 1) by (rewrite Hq; apply cnt_head).
  destruct (in_runq_facts s c v (i_placed _ I c v) Hc) as (l1 & l2 & l3 & l4 & l5 & l6 & l7).
  pose proof (running_no_waitq s c I Es) as Hw.
  assert (Hr : cnt c rest = 0). { rewrite Hq, cnt_cons, Nat.eqb_refl in l4. lia. }
  assert (T3 : forall x, th_state (s_th s3 x) = (if Nat.eqb x c then SLEEPING else th_state (s_th s x)) /\
                         th_vcpu (s_th s3 x) = th_vcpu (s_th s x) /\
                         th_insleep (s_th s3 x) = (if Nat.eqb x c then true else th_insleep (s_th s x)) /\
                         th_waitq (s_th s3 x) = (if Nat.eqb x c then wq else th_waitq (s_th s x))).
  { intro x. unfold s3, s2. destruct wq as [w|]; simp_st;
      repeat match goal with |- context[Nat.eqb ?a ?b] => destruct (Nat.eqb a b) eqn:? end; neq_tac; subst;
      rewrite ?Nat.eqb_refl; cbn; auto; try congruence.
 }
  assert (V3 : s_vc s3 = s_vc s). { unfold s3, s2. destruct wq; reflexivity. }
  constructor.
  - intros x y. generalize (i_placed _ I x y). unfold placed, live, place_ok. simp_st. rewrite V3.
    destruct (T3 x) as (t1 & t2 & t3 & t4). rewrite t1, t2, t3.
    destruct (Nat.eqb x c) eqn:Exc; neq_tac.
    + subst x. rewrite Es, l3, l2. cbn.
      destruct (Nat.eqb v y) eqn:Evy; neq_tac.
      * subst y. rewrite Nat.eqb_refl. cnt_norm. rewrite Hr. lia.
      * eqb_false y v. auto.
    + destruct (Nat.eqb y v) eqn:Eyv; neq_tac; auto. subst y. cnt_norm. rewrite Hq. cnt_norm.
      eqb_false c x. cbn. auto.
  - intros j x. generalize (i_waits _ I j x). unfold waits. simp_st.
    destruct (T3 j) as (t1 & t2 & t3 & t4). rewrite t1, t4.
    assert (J : th_joiners (s_th s3 x) =
                (if opt_eqb wq x then th_joiners (s_th s x) ++ [c] else th_joiners (s_th s x))).
    { unfold s3, s2. destruct wq as [w|]; simp_st; cbn [opt_eqb];
        repeat match goal with |- context[Nat.eqb ?a ?b] => destruct (Nat.eqb a b) eqn:? end; neq_tac; subst;
        rewrite ?Nat.eqb_refl; cbn; auto; try congruence. }
    rewrite J.
    destruct (Nat.eqb j c) eqn:Ejc; neq_tac.
    + subst j. rewrite Hw. cbn [opt_eqb]. intros [A _]. split; [|auto].
      destruct (opt_eqb wq x); cnt_norm; lia.
    + intros [A B]. split; auto.
      destruct (opt_eqb wq x); auto. cnt_norm. eqb_false c j. lia.
Qed.

(* E6: the head of the run queue dies *)
Lemma inv1_die : forall s v c rest f p nt, Inv1 s ->
  v_runq (s_vc s v) = c :: rest -> th_state (s_th s c) = RUNNING ->
  (forall th, th_waitq (f th) = th_waitq th /\ th_joiners (f th) = th_joiners th /\ th_state (f th) = DONE) ->
  Inv1 (modvc (modth s c f) v (fun x => set_v_pend (set_v_nthreads (set_v_runq x (remove_tid c (v_runq x))) (nt x)) p)).
Proof.
  intros s v c rest f p nt I Hq Es Hf.
  assert (Hc : cnt c (v_runq (s_vc s v)) >= 1) by (rewrite Hq; apply cnt_head).
  destruct (in_runq_facts s c v (i_placed _ I c v) Hc) as (l1 & l2 & l3 & l4 & l5 & l6 & l7).
  pose proof (running_no_waitq s c I Es) as Hw.
  destruct (Hf (s_th s c)) as (h1 & h2 & h3).
  constructor.
  - intros x y.
    destruct (Nat.eq_dec x c) as [->|Nx].
    + generalize (i_placed _ I c y). unfold placed, live, place_ok. simp_st. rewrite Nat.eqb_refl, h3.
      cbn. destruct (Nat.eqb y v) eqn:Eyv; neq_tac.
      * subst y. cnt_norm. rewrite l4, l5, l6. auto.
      * rewrite Es, l2. cbn. eqb_false v y. cbn. auto.
    + apply (placed_ext s); [solve_cnt ..| apply (i_placed _ I)].
  - intros j x. apply (waits_ext s); simp_st.
    + destruct (Nat.eqb x c) eqn:E; auto. neq_tac. subst. auto.
    + destruct (Nat.eqb j c) eqn:E; auto. neq_tac. subst. auto.
    + destruct (Nat.eqb j c) eqn:E; auto. neq_tac. subst j. congruence.
    + apply (i_waits _ I).
Qed.

(* a thread that does not exist (any more) is in no queue and nobody waits in its queue *)
Lemma dead_facts : forall s t v, placed s t v -> live (s_th s t) = false ->
  cnt t (v_runq (s_vc s v)) = 0 /\ cnt t (v_sleepq (s_vc s v)) = 0 /\ cnt t (v_standby (s_vc s v)) = 0.
Proof. unfold placed. intros s t v P L. rewrite L in P. cbn in P. auto. Qed.

(* E7: thread_create *)
Lemma inv1_create : forall s v k th nt, Inv1 s ->
  th_state (s_th s k) = NOTCREATED ->
  th_state th = READY -> th_vcpu th = v -> th_insleep th = false -> th_waitq th = None ->
  th_joiners th = th_joiners (s_th s k) ->
  Inv1 (modvc (set_s_th s (updp (s_th s) k th)) v (fun x => set_v_nthreads (set_v_runq x (v_runq x ++ [k])) (nt x))).
Proof.
  intros s v k th nt I En h1 h2 h3 h4 h5.
  assert (L : live (s_th s k) = false) by (unfold live; rewrite En; reflexivity).
  assert (Hw : th_waitq (s_th s k) = None).
  { destruct (th_waitq (s_th s k)) eqn:W; auto. destruct (i_waits _ I k 0) as [_ H]. rewrite W in H.
    specialize (H ltac:(discriminate)). congruence. }
  constructor.
  - intros x y. destruct (Nat.eq_dec x k) as [->|Nx].
    + destruct (dead_facts s k y (i_placed _ I k y) L) as (d1 & d2 & d3).
      unfold placed, live, place_ok. simp_st. cbn [s_th set_s_th]. rewrite updp_eq, h1, h2, h3. cbn.
      destruct (Nat.eqb v y) eqn:Evy; neq_tac.
      * subst y. rewrite Nat.eqb_refl. cnt_norm. lia.
      * eqb_false y v. auto.
    + apply (placed_ext s); [ | solve_cnt .. | apply (i_placed _ I)].
      simp_st. cbn [s_th set_s_th]. now rewrite updp_neq.
  - intros j x. generalize (i_waits _ I j x). unfold waits. simp_st. cbn [s_th set_s_th]. unfold updp.
    destruct (Nat.eqb x k) eqn:Ex; destruct (Nat.eqb j k) eqn:Ej; neq_tac; subst; rewrite ?h1, ?h4, ?h5, ?Hw; auto;
      intros [A B]; split; auto; intro N; exfalso; apply N; reflexivity.
Qed.

(* E8: do_thread_migrate: a READY thread of v's run queue goes to u's standby queue *)
Lemma inv1_migrate : forall s v u t ntv ntu, Inv1 s -> u <> v ->
  cnt t (v_runq (s_vc s v)) >= 1 -> th_state (s_th s t) = READY ->
  Inv1 (modvc (modvc (modth s t (fun x => set_th_vcpu (set_th_state x STANDBY) u)) v
                 (fun x => set_v_nthreads (set_v_runq x (remove_tid t (v_runq x))) (ntv x))) u
              (fun x => set_v_nthreads (set_v_standby x (v_standby x ++ [t])) (ntu x))).
Proof.
  intros s v u t ntv ntu I Nuv Hc Es.
  destruct (in_runq_facts s t v (i_placed _ I t v) Hc) as (l1 & l2 & l3 & l4 & l5 & l6 & l7).
  assert (Hw : th_waitq (s_th s t) = None).
  { destruct (th_waitq (s_th s t)) eqn:W; auto. destruct (i_waits _ I t 0) as [_ H]. rewrite W in H.
    specialize (H ltac:(discriminate)). congruence. }
  constructor.
  - intros x y. destruct (Nat.eq_dec x t) as [->|Nx].
    + generalize (i_placed _ I t y). unfold placed, live, place_ok. simp_st. rewrite Nat.eqb_refl.
      cbn. rewrite Es, l2, l3. cbn.
      destruct (Nat.eqb y u) eqn:Eyu; neq_tac.
      * subst y. rewrite Nat.eqb_refl. eqb_false v u. eqb_false u v. cbn. cnt_norm. intros (a & b & c). lia.
      * eqb_false u y. destruct (Nat.eqb y v) eqn:Eyv; neq_tac.
        -- subst y. rewrite Nat.eqb_refl. cbn. cnt_norm. lia.
        -- eqb_false v y. cbn. auto.
    + apply (placed_ext s); [solve_cnt ..| apply (i_placed _ I)].
  - intros j x. apply (waits_ext s); simp_st.
    + destruct (Nat.eqb x t) eqn:E; auto. neq_tac. subst. auto.
    + destruct (Nat.eqb j t) eqn:E; auto. neq_tac. subst. auto.
    + destruct (Nat.eqb j t) eqn:E; auto. neq_tac. subst j. congruence.
    + apply (i_waits _ I).
Qed.

(* E9: one thread of the standby queue is resumed by its vCPU *)
Lemma inv1_drain_one : forall s v t, Inv1 s -> Inv1 (drain_one s v t).
Proof.
  intros s v t I. unfold drain_one, getvc.
  destruct (mem_tid t (v_standby (s_vc s v))) eqn:M; cbn [negb]; auto.
  apply mem_cnt in M.
  destruct (in_standby_facts s t v (i_placed _ I t v) M) as (l1 & l2 & l3 & l4 & l5 & l6).
  assert (Hw : th_waitq (s_th s t) = None).
  { destruct (th_waitq (s_th s t)) eqn:W; auto. destruct (i_waits _ I t 0) as [_ H]. rewrite W in H.
    specialize (H ltac:(discriminate)). congruence. }
  constructor.
  - intros x y. destruct (Nat.eq_dec x t) as [->|Nx].
    + generalize (i_placed _ I t y). unfold placed, live, place_ok. simp_st. rewrite Nat.eqb_refl.
      cbn. rewrite l3, l2. cbn.
      destruct (Nat.eqb v y) eqn:Evy; neq_tac.
      * subst y. rewrite Nat.eqb_refl. cnt_norm. rewrite l4, l5, l6.
        destruct (th_insleep (s_th s t)); cbn; lia.
      * eqb_false y v. auto.
    + apply (placed_ext s); [solve_cnt ..| apply (i_placed _ I)].
  - intros j x. apply (waits_ext s); simp_st.
    + destruct (Nat.eqb x t) eqn:E; auto. neq_tac. subst. auto.
    + destruct (Nat.eqb j t) eqn:E; auto. neq_tac. subst. auto.
    + destruct (Nat.eqb j t) eqn:E; auto. neq_tac. subst j. congruence.
    + apply (i_waits _ I).
Qed.

Lemma inv1_drain_list : forall l s v, Inv1 s -> Inv1 (drain_list s v l).
Proof. induction l; cbn; intros; auto. apply IHl; auto. now apply inv1_drain_one. Qed.

(* E10: an expired sleeper that was interrupted from another vCPU leaves the sleep queue only *)
Lemma inv1_resume_pop : forall s v t, Inv1 s ->
  cnt t (v_sleepq (s_vc s v)) >= 1 -> th_state (s_th s t) <> SLEEPING ->
  Inv1 (modvc (modth s t (fun x => set_th_insleep x false)) v (fun x => set_v_sleepq x (remove_tid t (v_sleepq x)))).
Proof.
  intros s v t I Hc Ns.
  destruct (in_sleepq_facts s t v (i_placed _ I t v) Hc) as (l1 & l2 & l3 & l4 & l5 & [[l6 l7]|[l6 l7]]); [congruence|].
  constructor.
  - intros x y. destruct (Nat.eq_dec x t) as [->|Nx].
    + generalize (i_placed _ I t y). unfold placed, live, place_ok. simp_st. rewrite Nat.eqb_refl.
      cbn. rewrite l6, l2, l3. cbn.
      destruct (Nat.eqb v y) eqn:Evy; neq_tac.
      * subst y. rewrite Nat.eqb_refl. cnt_norm. lia.
      * eqb_false y v. auto.
    + apply (placed_ext s); [solve_cnt ..| apply (i_placed _ I)].
  - intros j x. apply (waits_ext s); simp_st.
    + destruct (Nat.eqb x t) eqn:E; auto. neq_tac. subst. auto.
    + destruct (Nat.eqb j t) eqn:E; auto. neq_tac. subst. auto.
    + destruct (Nat.eqb j t) eqn:E; auto. neq_tac. subst j. auto.
    + apply (i_waits _ I).
Qed.

(* E11: work stealing moves a thread that is in u's run queue (not RUNNING) or standby queue, and in no
   sleep queue, to the tail of the thief's run queue *)
Lemma inv1_steal : forall s v u t (from_standby : bool) ntu ntv, Inv1 s -> u <> v ->
  th_insleep (s_th s t) = false ->
  (if from_standby then cnt t (v_standby (s_vc s u)) >= 1
   else cnt t (v_runq (s_vc s u)) >= 1 /\ th_state (s_th s t) <> RUNNING) ->
  let s0 := modvc s u (fun x => if from_standby then set_v_standby x (remove_tid t (v_standby x))
                                else set_v_runq x (remove_tid t (v_runq x))) in
  Inv1 (modvc (modvc (modth s0 t (fun x => set_th_vcpu x v)) u (fun x => set_v_nthreads x (ntu x))) v
              (fun x => set_v_nthreads (set_v_runq x (v_runq x ++ [t])) (ntv x))).
Proof.
  intros s v u t fs ntu ntv I Nuv Hi Hc s0.
  assert (F : live (s_th s t) = true /\ th_vcpu (s_th s t) = u /\
              cnt t (v_sleepq (s_vc s u)) = 0 /\
              (th_state (s_th s t) = READY \/ th_state (s_th s t) = STANDBY) /\
              (if fs then cnt t (v_standby (s_vc s u)) = 1 /\ cnt t (v_runq (s_vc s u)) = 0 /\ th_state (s_th s t) = STANDBY
               else cnt t (v_runq (s_vc s u)) = 1 /\ cnt t (v_standby (s_vc s u)) = 0)).
  { destruct fs.
    - destruct (in_standby_facts s t u (i_placed _ I t u) Hc) as (l1 & l2 & l3 & l4 & l5 & l6).
      rewrite Hi in l6. intuition.
    - destruct Hc as [Hc Nr].
      destruct (in_runq_facts s t u (i_placed _ I t u) Hc) as (l1 & l2 & l3 & l4 & l5 & l6 & l7).
      intuition. }
  destruct F as (l1 & l2 & l5 & l7 & F).
  assert (Hw : th_waitq (s_th s t) = None).
  { destruct (th_waitq (s_th s t)) eqn:W; auto. destruct (i_waits _ I t 0) as [_ H]. rewrite W in H.
    specialize (H ltac:(discriminate)). destruct l7; congruence. }
  constructor.
  - intros x y. unfold s0. destruct (Nat.eq_dec x t) as [->|Nx].
    + generalize (i_placed _ I t y). unfold placed, live, place_ok. simp_st. rewrite Nat.eqb_refl.
      cbn. rewrite Hi, l2.
      destruct (Nat.eqb y v) eqn:Eyv; neq_tac.
      * subst y. rewrite Nat.eqb_refl. eqb_false u v. eqb_false v u. cbn.
        destruct l7 as [l7|l7]; rewrite l7; cbn; intros (a & b & c); cnt_norm; lia.
      * eqb_false v y. destruct (Nat.eqb y u) eqn:Eyu; neq_tac.
        -- subst y. rewrite Nat.eqb_refl. cbn.
           destruct l7 as [l7|l7]; rewrite l7; cbn; intros _; destruct fs; cnt_norm; intuition lia.
        -- eqb_false u y. destruct l7 as [l7|l7]; rewrite l7; cbn; auto.
    + apply (placed_ext s); [ | | | | apply (i_placed _ I)]; simp_st; split_eqb; destruct fs; cnt_norm;
        try congruence; try lia; auto.
      all: eqb_false t x; lia.
  - intros j x. unfold s0. apply (waits_ext s); simp_st.
    + destruct (Nat.eqb x t) eqn:E; auto. neq_tac. subst. auto.
    + destruct (Nat.eqb j t) eqn:E; auto. neq_tac. subst. auto.
    + destruct (Nat.eqb j t) eqn:E; auto. neq_tac. subst j. auto.
    + apply (i_waits _ I).
Qed.

(* E12: thread::dequeue_ready_atomic *)
Lemma inv1_dequeue : forall s t, Inv1 s -> Inv1 (dequeue s t).
Proof.
  intros s t I. unfold dequeue, getth.
  destruct (th_waitq (s_th s t)) as [w|] eqn:W; auto.
  constructor.
  - intros x y. apply (placed_ext2 s); [ .. | apply (i_placed _ I)]; simp_st;
      repeat match goal with |- context[Nat.eqb ?a ?b] => destruct (Nat.eqb a b) eqn:? end; neq_tac; subst;
      rewrite ?Nat.eqb_refl; cbn; auto.
  - intros j x. generalize (i_waits _ I j x). unfold waits. simp_st.
    destruct (i_waits _ I t w) as [A0 B0]. rewrite W in A0, B0. cbn [opt_eqb] in A0. rewrite Nat.eqb_refl in A0.
    repeat match goal with |- context[Nat.eqb ?a ?b] => destruct (Nat.eqb a b) eqn:? end; neq_tac; subst;
      rewrite ?Nat.eqb_refl; cbn; rewrite ?W; cbn [opt_eqb]; rewrite ?Nat.eqb_refl;
      intros [A B]; (split; [|try tauto; try (intros; exfalso; congruence)]);
      rewrite ?cnt_remove_same; try (rewrite cnt_remove_other by congruence); try lia; auto.
    all: try (replace (Nat.eqb w x) with false by (symmetry; apply Nat.eqb_neq; congruence); lia).
Qed.
