(* Sched/Example.v — WORKED EXAMPLE of extending the E2 model with a primitive, in a file of its
   own: `photon::condition_variable` used without a lock (wait_no_lock / notify_one / notify_all,
   thread.h 431-455, thread.cpp 1696-1712, 1740-1759).  Copy this pattern (see notes/E2.md).
   Harness side: harness/E2/ops_example.cpp; runner: ocaml/E2_example_run.ml. *)
From Coq Require Import ZArith List Bool Arith.
From PV Require Import Base.U64 C04.C04_Heap Sched.Core Sched.Prog.
Import ListNotations.
Local Open Scope Z_scope.

(* 1. your op type.  Object arguments are indices into the case line's decl list. *)
Inductive cv_op : Type :=
| CvWait (i : nat) (t : Z)        (* cv_wait i t      cv[i].wait_no_lock(Timeout(t)) *)
| CvNotify (i : nat)              (* cv_notify i      cv[i].notify_one() != nullptr *)
| CvNotifyAll (i : nat).          (* cv_notify_all i  cv[i].notify_all() *)

(* 2. your state.  This primitive needs none beyond its wait queue `QUser i`, which Core keeps. *)
Definition cv_state : Type := unit.

(* waitq_translate_errno (1696-1705) applied to the (ret, errno) of thread_usleep *)
Definition waitq_translate (r e : Z) : Z * Z :=
  if r =? 0 then (-1, ETIMEDOUT) else if e =? -1 then (0, 0) else (-1, e).

(* 3. your step function: one phase of the op per call; `k` = [] at the start of the op, else
   the resume point you put into the action. *)
Definition cv_step (st : state cv_state) (t : tid) (o : cv_op) (k : kont)
  : state cv_state * action cv_state :=
  match o with
  | CvWait i d =>
      match k with
      | [] => (* waitq::wait -> static thread_usleep(timeout, &q): no shutdown cap (F8) *)
          (st, act_usleep_wq st (timeout_of (s_now st) d) (Some (QUser i)) [1] [2])
      | [1] => let '(st1, r, e) := ret_after_sleep st t in
               let '(r', e') := waitq_translate r e in (st1, ARet r' e')
      | [2] => let '(r, e) := ret_after_yield st t in
               let '(r', e') := waitq_translate r e in (st, ARet r' e')
      | _ => (st, AStuck)
      end
  | CvNotify i =>
      match waitq_resume_one st (QUser i) (-1) with
      | (st1, Some _) => (st1, ARet 1 0)
      | (st1, None) => (st1, ARet 0 0)
      end
  | CvNotifyAll i =>
      let '(st1, n) := waitq_resume_all st (QUser i) (-1) in (st1, ARet n 0)
  end.

(* 4. the run function you extract *)
Definition cv_run (fuel : nat) (ps : list (list (op cv_op))) :=
  coop_result cv_step ps fuel VCLOCK_START tt.
