(* Sched/Prog.v — thread programs and the cooperative interpreter `coop_run` over Sched/Core.v.
   EXECUTABLE DEFINITIONS ONLY.

   A thread is an explicit pc machine: a list of ops, `th_pc`, and a continuation `th_k` saying
   where INSIDE the current op it is (`[]` = not started).  Executing (a phase of) an op yields
   an `action`:
       ARet ret errno            the op is complete: one trace event, pc+1, the thread goes on
       ASleep exp wq defer k     prepare_usleep(Timeout{exp}, wq) + switch (+ `defer` run right
                                 after the switch, as switch_context_defer does); resume at k
       AYield k                  thread_yield(); resume at k   (the caller then reads th_err)
       AYieldTo th k             thread_yield_to's try_goto arm; resume at k
       AStuck                    outside the domain where the C++ is defined
   One `step` = one such phase of the CURRENT thread (head of the ring); the code of one photon
   thread between two context switches is a maximal sequence of steps ending in a non-ARet
   action.  This is exact on one vCPU because photon threads are never pre-empted.

   EXTENSION POINT: the interpreter is a Section over
       U : Type                                           your primitives' state  (Core.state U)
       X : Type                                           your op type
       prim_step : state U -> tid -> X -> kont -> state U * action U
   Instantiate it in YOUR OWN file (e.g. coq/C01/C01_Model.v); use the Core API
   (waitq_resume_one, thread_interrupt, set_error_number, wq_get, s_user/set_user, ...) and the
   helpers `act_usleep_wq`, `ret_after_sleep`, `ret_after_yield` below.  See notes/E2.md. *)
From Coq Require Import ZArith List Bool Arith.
From PV Require Import Base.U64 C04.C04_Heap Sched.Core.
Import ListNotations.
Local Open Scope Z_scope.

(* the scheduler-level ops (harness/E2/ops_core.cpp implements the same names) *)
Inductive core_op : Type :=
| OUsleep (t : Z)                     (* usleep t          photon::thread_usleep(t); t in [0,2^64) *)
| OYield                              (* yield             photon::thread_yield() *)
| OYieldTo (k : tid)                  (* yield_to k *)
| OInterrupt (k : tid) (e : Z)        (* interrupt k e     photon::thread_interrupt *)
| OShutdown (k : tid) (flag : bool)   (* shutdown k flag   photon::thread_shutdown *)
| OCreate (k : tid) (joinable : bool) (* create k j        thread_create (+ thread_enable_join) *)
| OJoin (k : tid)                     (* join k            photon::thread_join *)
| OState (k : tid)                    (* state k           photon::thread_stat *)
| ONop.

Inductive op (X : Type) : Type :=
| OCore (c : core_op)
| OUser (o : X).
Arguments OCore {X}. Arguments OUser {X}.

Section ACTION.
  Variable U : Type.
  Inductive action : Type :=
  | ARet (ret err : Z)
  | ASleep (exp : Z) (wq : option qid) (defer : option (state U -> state U)) (k : kont)
  | AYield (k : kont)
  | AYieldTo (th : tid) (k : kont)
  | AStuck.

  (* helpers for primitives ---------------------------------------------------------------- *)
  (* static thread_usleep(Timeout, waitq) (1381-1391): an expired timeout only yields
     (yield_as_sleep), otherwise sleep; kS / kY = where to resume after the sleep / the yield *)
  Definition act_usleep_wq (st : state U) (exp : Z) (wq : option qid) (kS kY : kont) : action :=
    if expired (s_now st) exp then AYield kY else ASleep exp wq None kS.
  (* value of thread_usleep after the sleep: r.from->set_error_number() *)
  Definition ret_after_sleep (st : state U) (t : tid) : state U * Z * Z := set_error_number st t.
  (* value of yield_as_sleep after the yield (1375-1379): error_number is read, NOT cleared *)
  Definition ret_after_yield (st : state U) (t : tid) : Z * Z :=
    let e := th_err (getth st t) in if e =? 0 then (0, 0) else (-1, e).
End ACTION.
Arguments ARet {U}. Arguments ASleep {U}. Arguments AYield {U}. Arguments AYieldTo {U}. Arguments AStuck {U}.
Arguments act_usleep_wq {U}. Arguments ret_after_sleep {U}. Arguments ret_after_yield {U}.

Definition SKIPPED : Z := -2.       (* the op's target thread does not exist (any more) *)
Definition SHUTDOWN_CAP : Z := 10 * 1000.

Section INTERP.
  Variables U X : Type.
  Variable prim_step : state U -> tid -> X -> kont -> state U * action U.
  Variable progs : list (list (op X)).      (* program of thread k = nth k progs *)

  Definition prog_of (t : tid) : list (op X) := nth t progs [].

  (* thread_join(th) (1544-1557): `while (state != DONE) th->cond.wait(th->lock)`; the wait is
     cvar_do_wait -> thread_usleep_defer(Timeout() = never, &cond.q, spinlock_unlock): NO expiry
     check and NO shutdown cap (F8) *)
  Definition join_check (st : state U) (j : tid) : state U * action U :=
    if tstate_eqb (th_state (getth st j)) DONE
    then (modth st j (fun x => set_tjoined x true), ARet (th_retval (getth st j)) 0)
    else (st, ASleep MAX64 (Some (QJoin j)) None [1]).

  Definition exec_core (st : state U) (t : tid) (c : core_op) (k : kont) : state U * action U :=
    match c with
    | OUsleep d =>                                         (* thread_usleep(Timeout) 1448-1457 *)
        match k with
        | [] =>
            let exp := timeout_of (s_now st) d in
            if expired (s_now st) exp then (st, AYield [2])                       (* yield_as_sleep *)
            else if th_shutdown (getth st t)
            then (st, ASleep (timeout_at_most (s_now st) exp SHUTDOWN_CAP) None None [3])   (* do_shutdown_usleep *)
            else (st, ASleep exp None None [1])                                   (* do_thread_usleep *)
        | [1] => let '(st1, r, e) := set_error_number st t in (st1, ARet r e)
        | [2] => let '(r, e) := ret_after_yield st t in (st, ARet r e)
        | [3] => let '(st1, r, e) := set_error_number st t in
                 (st1, if 0 <=? r then ARet (-1) EPERM else ARet (-1) e)          (* 1441-1447 *)
        | _ => (st, AStuck)
        end
    | OYield =>                                            (* thread_yield 1315-1323 *)
        match k with
        | [] => (st, AYield [1])
        | [1] => (st, ARet (th_err (getth st t)) 0)
        | _ => (st, AStuck)
        end
    | OYieldTo j =>                                        (* thread_yield_to 1331-1356 *)
        match k with
        | [] =>
            if negb (alive st j) then (st, ARet SKIPPED 0)
            else if Nat.eqb j t then (update_now st, ARet 0 0)
            else match th_state (getth st j) with
                 | STANDBY => (st, AStuck)                 (* cross-vCPU only *)
                 | READY => match s_runq st with
                            | _ :: nx :: _ => if Nat.eqb nx j then (st, AYield [1]) else (st, AYieldTo j [1])
                            | _ => (st, AStuck)
                            end
                 | _ => (st, ARet (-1) EINVAL)
                 end
        | [1] => (st, ARet (th_err (getth st t)) 0)
        | _ => (st, AStuck)
        end
    | OInterrupt j e =>
        if alive st j then (thread_interrupt st j e, ARet 0 0) else (st, ARet SKIPPED 0)
    | OShutdown j flag =>
        if alive st j then (thread_shutdown st j flag, ARet 0 0) else (st, ARet SKIPPED 0)
    | OCreate j jn =>
        if Nat.ltb 0 j && Nat.ltb j (idler_tid st) && tstate_eqb (th_state (getth st j)) NOTCREATED
        then (do_create st j jn, ARet 0 0) else (st, ARet SKIPPED 0)
    | OJoin j =>
        match k with
        | [] =>
            if alive st j && negb (Nat.eqb j t) && th_joinable (getth st j) && negb (th_join_claimed (getth st j))
            then join_check (modth st j (fun x => set_tjoin_claimed x true)) j
            else (st, ARet SKIPPED 0)
        | [1] => let '(st1, _, _) := set_error_number st t in join_check st1 j
        | _ => (st, AStuck)
        end
    | OState j =>
        if alive st j then (st, ARet (tstate_code (th_state (getth st j))) 0) else (st, ARet SKIPPED 0)
    | ONop => (st, ARet 0 0)
    end.

  Definition exec (st : state U) (t : tid) (o : op X) (k : kont) : state U * action U :=
    match o with
    | OCore c => exec_core st t c k
    | OUser u => prim_step st t u k
    end.

  Definition apply_action (st : state U) (t : tid) (a : action U) (record : bool) : state U :=
    match a with
    | ARet r e =>
        let th := getth st t in
        let st1 := if record
                   then set_trace st (mkEv t (th_pc th) r e (s_now st) (th_issued th) (th_shut_issue th) (th_k th) (th_esrc th) :: s_trace st)
                   else st in
        modth st1 t (fun x => set_tk (if record then set_tpc x (S (th_pc x)) else x) [])
    | ASleep exp wq defer k =>
        let st1 := do_sleep (modth st t (fun x => set_tk x k)) exp wq in
        match defer with Some f => f st1 | None => st1 end
    | AYield k => do_yield (modth st t (fun x => set_tk x k))
    | AYieldTo j k => do_yield_to (modth st t (fun x => set_tk x k)) j
    | AStuck => set_stuck st
    end.

  Definition retval_of (t : tid) : Z := 1000 + Z.of_nat t.

  (* one phase of the current thread *)
  Definition step (st : state U) : state U :=
    if s_end st || s_stuck st then st else
    match s_runq st with
    | [] => set_stuck st
    | t :: _ =>
        if Nat.eqb t (idler_tid st) then idler_round st
        else
          let th := getth st t in
          match nth_error (prog_of t) (th_pc th) with
          | Some o =>
              let st0 := match th_k th with
                         | [] => modth st t (fun x => set_tshut_issue (set_tissued x (s_now st)) (th_shutdown x))
                         | _ => st
                         end in
              let '(st1, a) := exec st0 t o (th_k th) in
              apply_action st1 t a true
          | None =>
              if Nat.eqb t 0
              then (* the main thread parks for ever: `while (true) thread_usleep(-1)` *)
                   let '(st1, a) := exec_core st t (OUsleep MAX64) (th_k th) in
                   apply_action st1 t a false
              else do_die st t (retval_of t)         (* the entry function returns: thread::die *)
          end
    end.

  Fixpoint coop_run (fuel : nat) (st : state U) : state U :=
    match fuel with
    | O => st
    | S f => if s_end st || s_stuck st then st else coop_run f (step st)
    end.

  (* threads whose program is not finished when the run ends: (tid, pc) *)
  Fixpoint blocked_from (st : state U) (k : nat) (n : nat) : list (tid * nat) :=
    match n with
    | O => []
    | S m =>
        let th := getth st k in
        let rest := blocked_from st (S k) m in
        if negb (tstate_eqb (th_state th) NOTCREATED) && negb (tstate_eqb (th_state th) DONE)
           && Nat.ltb (th_pc th) (length (prog_of k))
        then (k, th_pc th) :: rest else rest
    end.
  Definition blocked (st : state U) : list (tid * nat) := blocked_from st 0 (idler_tid st).

  (* the observable result of a run: trace oldest first, blocked set, final photon::now,
     flags (ended normally, stuck) *)
  Definition coop_result (fuel : nat) (t0 : Z) (u : U)
    : list event * list (tid * nat) * Z * bool * bool :=
    let st := coop_run fuel (init_state (length progs) t0 u) in
    (rev (s_trace st), blocked st, s_now st, s_end st, s_stuck st).

End INTERP.

Arguments prog_of {X}. Arguments exec_core {U}. Arguments exec {U X}. Arguments apply_action {U}.
Arguments step {U X}. Arguments coop_run {U X}. Arguments blocked {U X}. Arguments coop_result {U X}.
Arguments join_check {U}.

(* ---- the instance with no user primitives (C04) --------------------------------------------- *)
Inductive no_op : Type := .
Definition no_prim (st : state unit) (t : tid) (o : no_op) (k : kont) : state unit * action unit :=
  match o with end.
Definition VCLOCK_START : Z := 1000.
Definition core_progs (ps : list (list core_op)) : list (list (op no_op)) := map (map OCore) ps.
Definition core_run (fuel : nat) (ps : list (list core_op)) :=
  coop_result no_prim (core_progs ps) fuel VCLOCK_START tt.
