(* Sched/Lemmas.v — generic lemmas about the data structures and accessors of Sched/Core.v
   (any user state U).  Shared: extend in your own files. *)
From Coq Require Import ZArith List Bool Arith Lia.
From PV Require Import Base.U64 C04.C04_Heap Sched.Core.
Import ListNotations.
Local Open Scope Z_scope.

(* ---- upd_nth ------------------------------------------------------------------------------- *)
Lemma upd_nth_length {A} (l : list A) i v : length (upd_nth l i v) = length l.
Proof. revert i; induction l as [|x r IH]; intros [|i]; simpl; auto. Qed.

Lemma nth_upd_nth_same {A} (l : list A) i v d : (i < length l)%nat -> nth i (upd_nth l i v) d = v.
Proof. revert i; induction l as [|x r IH]; intros [|i] H; simpl in *; try lia; auto. apply IH; lia. Qed.

Lemma nth_upd_nth_other {A} (l : list A) i j v d : i <> j -> nth j (upd_nth l i v) d = nth j l d.
Proof.
  revert i j; induction l as [|x r IH]; intros [|i] [|j] H; simpl; auto; try congruence.
Qed.

Lemma upd_nth_out {A} (l : list A) i v : (length l <= i)%nat -> upd_nth l i v = l.
Proof. revert i; induction l as [|x r IH]; intros [|i] H; simpl in *; auto; try lia. f_equal. apply IH; lia. Qed.

(* ---- remove_tid ---------------------------------------------------------------------------- *)
Lemma remove_tid_notin t l : ~ In t l -> remove_tid t l = l.
Proof.
  induction l as [|x r IH]; simpl; auto. intros H.
  destruct (Nat.eqb_spec x t) as [->|Hne]; [exfalso; auto|]. f_equal; auto.
Qed.

Lemma In_remove_tid t l u : NoDup l -> (In u (remove_tid t l) <-> In u l /\ u <> t).
Proof.
  induction l as [|x r IH]; simpl; intros Hnd; [tauto|].
  inversion Hnd as [|? ? Hx Hr]; subst.
  destruct (Nat.eqb_spec x t) as [->|Hne].
  - split; [intros H; split; [auto|intros ->; auto] | intros [[->|H] Hu]; [congruence|auto]].
  - simpl. rewrite IH by auto. split.
    + intros [->|[H1 H2]]; auto.
    + intros [[->|H1] H2]; auto.
Qed.

Lemma In_remove_tid_weak t l u : In u (remove_tid t l) -> In u l.
Proof.
  induction l as [|x r IH]; simpl; auto.
  destruct (Nat.eqb_spec x t); simpl; intros H; auto. destruct H; auto.
Qed.

Lemma NoDup_remove_tid t l : NoDup l -> NoDup (remove_tid t l).
Proof.
  induction l as [|x r IH]; simpl; intros H; auto. inversion H; subst.
  destruct (Nat.eqb_spec x t); auto. constructor; auto.
  intros Hin. apply In_remove_tid_weak in Hin. auto.
Qed.

Lemma NoDup_app_single (l : list tid) t : NoDup l -> ~ In t l -> NoDup (l ++ [t]).
Proof.
  induction l as [|x r IH]; simpl; intros Hnd Hn.
  - constructor; [intros []|constructor].
  - inversion Hnd; subst. constructor.
    + rewrite in_app_iff. simpl. intros [H|[H|[]]]; auto.
    + apply IH; auto.
Qed.

(* ---- qid, wait-queue maps ------------------------------------------------------------------- *)
Lemma qid_eqb_spec a b : reflect (a = b) (qid_eqb a b).
Proof.
  destruct a as [x|x], b as [y|y]; simpl; try (constructor; congruence);
  destruct (Nat.eqb_spec x y); constructor; congruence.
Qed.

Lemma tstate_eqb_spec a b : reflect (a = b) (tstate_eqb a b).
Proof. destruct a, b; simpl; constructor; congruence. Qed.

Section WQ.
  Variable U : Type.
  Implicit Types st : state U.

  Lemma wq_lookup_update_same l q v : wq_lookup (wq_update l q v) q = v.
  Proof.
    induction l as [|[q' v'] r IH]; simpl.
    - destruct (qid_eqb_spec q q); congruence.
    - destruct (qid_eqb_spec q' q) as [->|Hne]; simpl.
      + destruct (qid_eqb_spec q q); congruence.
      + destruct (qid_eqb_spec q' q); congruence.
  Qed.

  Lemma wq_lookup_update_other l q q2 v : q <> q2 -> wq_lookup (wq_update l q v) q2 = wq_lookup l q2.
  Proof.
    intros Hne. induction l as [|[q' v'] r IH]; simpl.
    - destruct (qid_eqb_spec q q2); congruence.
    - destruct (qid_eqb_spec q' q) as [->|Hne']; simpl.
      + destruct (qid_eqb_spec q q2); congruence.
      + destruct (qid_eqb_spec q' q2); auto.
  Qed.

  Lemma wq_get_set_same st q v : wq_get (wq_set st q v) q = v.
  Proof. unfold wq_get, wq_set; simpl. apply wq_lookup_update_same. Qed.
  Lemma wq_get_set_other st q q2 v : q <> q2 -> wq_get (wq_set st q v) q2 = wq_get st q2.
  Proof. unfold wq_get, wq_set; simpl. apply wq_lookup_update_other. Qed.

  (* ---- thread accessors -------------------------------------------------------------------- *)
  Definition nthreads st : nat := length (s_threads st).

  Lemma getth_setth_same st t v : (t < nthreads st)%nat -> getth (setth st t v) t = v.
  Proof. intros H. unfold getth, setth; simpl. apply nth_upd_nth_same; auto. Qed.
  Lemma getth_setth_other st t t' v : t <> t' -> getth (setth st t v) t' = getth st t'.
  Proof. intros H. unfold getth, setth; simpl. apply nth_upd_nth_other; auto. Qed.
  Lemma getth_setth_out st t v t' : (nthreads st <= t)%nat -> getth (setth st t v) t' = getth st t'.
  Proof. intros H. unfold getth, setth; simpl. rewrite upd_nth_out; auto. Qed.
  Lemma nthreads_setth st t v : nthreads (setth st t v) = nthreads st.
  Proof. unfold nthreads, setth; simpl. apply upd_nth_length. Qed.

  Lemma getth_modth st t f t' :
    getth (modth st t f) t' = if Nat.eqb t' t && Nat.ltb t (nthreads st) then f (getth st t) else getth st t'.
  Proof.
    unfold modth. destruct (Nat.eqb_spec t' t) as [->|Hne]; simpl.
    - destruct (Nat.ltb_spec t (nthreads st)).
      + apply getth_setth_same; auto.
      + apply getth_setth_out; auto.
    - apply getth_setth_other; auto.
  Qed.
  Lemma getth_modth_same st t f : (t < nthreads st)%nat -> getth (modth st t f) t = f (getth st t).
  Proof. intros H. rewrite getth_modth, Nat.eqb_refl. destruct (Nat.ltb_spec t (nthreads st)); auto; lia. Qed.
  Lemma getth_modth_other st t f t' : t' <> t -> getth (modth st t f) t' = getth st t'.
  Proof. intros H. rewrite getth_modth. destruct (Nat.eqb_spec t' t); auto; congruence. Qed.
  Lemma nthreads_modth st t f : nthreads (modth st t f) = nthreads st.
  Proof. apply nthreads_setth. Qed.

  Lemma getth_out st t : (nthreads st <= t)%nat -> getth st t = thread0.
  Proof. intros H. unfold getth. apply nth_overflow; auto. Qed.

  (* a field-wise view of modth: if f preserves a projection, so does modth *)
  Lemma getth_modth_proj {A} (p : thread -> A) st t f t' :
    (forall th, p (f th) = p th) -> p (getth (modth st t f) t') = p (getth st t').
  Proof.
    intros H. rewrite getth_modth.
    destruct (Nat.eqb_spec t' t) as [->|]; simpl; auto.
    destruct (Nat.ltb t (nthreads st)); auto.
  Qed.
End WQ.

Arguments nthreads {U}.
