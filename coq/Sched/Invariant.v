(* Sched/Invariant.v — the structural invariant WF of the cooperative scheduler model and its
   preservation by every scheduler operation of Sched/Core.v (any user state U).
   Shared: primitives' proofs compose these lemmas. *)
From Coq Require Import ZArith List Bool Arith Lia Permutation.
From PV Require Import Base.U64 C04.C04_Heap C04.C04_HeapProofs Sched.Core Sched.Lemmas.
Import ListNotations.
Local Open Scope Z_scope.

Ltac thsimpl :=
  cbn [th_state th_err th_waitq th_ts th_joinable th_shutdown th_retval th_pc th_k th_issued
       th_shut_issue th_esrc th_join_claimed th_joined
       set_tstate set_terr set_twaitq set_tts set_tshutdown set_tretval set_tk set_tpc set_tissued
       set_tshut_issue set_tesrc set_tjoin_claimed set_tjoined] in *.
Ltac stsimpl :=
  cbn [s_clock s_now s_runq s_sleepq s_standby s_threads s_waitqs s_user s_trace s_end s_stuck
       set_clock set_now set_runq set_sleepq set_standby set_threads set_waitqs set_user set_trace
       set_end set_stuck] in *.

Section INV.
  Variable U : Type.
  Implicit Types st : state U.

  (* a member of the run-queue ring is neither asleep nor non-existent *)
  Definition ring_ok (s : tstate) : Prop := s <> SLEEPING /\ s <> NOTCREATED.

  Record WF st : Prop := mkWF {
    wf_nodup : NoDup (s_runq st);
    wf_runq : forall t, In t (s_runq st) -> ring_ok (th_state (getth st t));
    wf_idler : In (idler_tid st) (s_runq st);
    wf_heap : Inv (ts_of st) (s_sleepq st);
    wf_sleep : forall t, In t (hq (s_sleepq st)) <-> th_state (getth st t) = SLEEPING;
    wf_standby : s_standby st = [];
    wf_wq_in : forall q t, In t (wq_get st q) -> th_state (getth st t) = SLEEPING /\ th_waitq (getth st t) = Some q;
    wf_wq_of : forall t q, th_waitq (getth st t) = Some q -> In t (wq_get st q);
    wf_wq_nodup : forall q, NoDup (wq_get st q);
    wf_clock : s_now st <= s_clock st
  }.

  (* the components WF talks about *)
  Definition same_sched st st' : Prop :=
    s_runq st' = s_runq st /\ s_sleepq st' = s_sleepq st /\ s_standby st' = s_standby st /\
    s_waitqs st' = s_waitqs st /\ s_now st' = s_now st /\ s_clock st' = s_clock st /\
    nthreads st' = nthreads st /\
    (forall t, th_state (getth st' t) = th_state (getth st t) /\
               th_ts (getth st' t) = th_ts (getth st t) /\
               th_waitq (getth st' t) = th_waitq (getth st t)).

  Lemma idler_tid_nthreads st st' : nthreads st' = nthreads st -> idler_tid st' = idler_tid st.
  Proof. unfold idler_tid, nthreads. intros ->. reflexivity. Qed.

  Lemma WF_same st st' : same_sched st st' -> WF st -> WF st'.
  Proof.
    intros (Hr & Hs & Hb & Hw & Hn & Hc & Hl & Ht) W.
    assert (Hwq : forall q, wq_get st' q = wq_get st q) by (intros; unfold wq_get; rewrite Hw; auto).
    constructor.
    - rewrite Hr. apply W.
    - intros t. rewrite Hr. destruct (Ht t) as (-> & _). apply W.
    - rewrite Hr, (idler_tid_nthreads _ _ Hl). apply W.
    - rewrite Hs. eapply Inv_ts_ext; [apply W|]. intros t _. unfold ts_of. apply Ht.
    - intros t. rewrite Hs. destruct (Ht t) as (-> & _). apply W.
    - rewrite Hb. apply W.
    - intros q t. rewrite Hwq. destruct (Ht t) as (-> & _ & ->). apply W.
    - intros t q. rewrite Hwq. destruct (Ht t) as (_ & _ & ->). apply W.
    - intros q. rewrite Hwq. apply W.
    - rewrite Hn, Hc. apply W.
  Qed.

  (* modth with a function that preserves state/ts/waitq is invisible to WF *)
  Definition sched_neutral (f : thread -> thread) : Prop :=
    forall th, th_state (f th) = th_state th /\ th_ts (f th) = th_ts th /\ th_waitq (f th) = th_waitq th.

  Lemma same_sched_modth st t f : sched_neutral f -> same_sched st (modth st t f).
  Proof.
    intros Hf. unfold same_sched. repeat split; try reflexivity.
    - apply nthreads_modth.
    - apply (getth_modth_proj U th_state). intros; apply Hf.
    - apply (getth_modth_proj U th_ts). intros; apply Hf.
    - apply (getth_modth_proj U th_waitq). intros; apply Hf.
  Qed.

  Lemma WF_modth_neutral st t f : sched_neutral f -> WF st -> WF (modth st t f).
  Proof. intros Hf. apply WF_same, same_sched_modth, Hf. Qed.

  Lemma same_sched_refl st : same_sched st st.
  Proof. unfold same_sched; repeat split; reflexivity. Qed.
  Lemma same_sched_trans a b c : same_sched a b -> same_sched b c -> same_sched a c.
  Proof.
    unfold same_sched. intros (A1&A2&A3&A4&A5&A6&A7&A8) (B1&B2&B3&B4&B5&B6&B7&B8).
    split; [congruence|]. split; [congruence|]. split; [congruence|]. split; [congruence|].
    split; [congruence|]. split; [congruence|]. split; [congruence|].
    intros t. destruct (A8 t) as (X&Y&Z); destruct (B8 t) as (X'&Y'&Z'). repeat split; congruence.
  Qed.

  Lemma same_sched_set_trace st x : same_sched st (set_trace st x).
  Proof. unfold same_sched; repeat split; reflexivity. Qed.
  Lemma same_sched_set_user st x : same_sched st (set_user st x).
  Proof. unfold same_sched; repeat split; reflexivity. Qed.
  Lemma same_sched_set_stuck st : same_sched st (set_stuck st).
  Proof. unfold same_sched; repeat split; reflexivity. Qed.
  Lemma same_sched_set_end st : same_sched st (set_end st).
  Proof. unfold same_sched; repeat split; reflexivity. Qed.

  (* ---- basic consequences ------------------------------------------------------------------ *)
  Lemma sleeping_in_range st t : th_state (getth st t) = SLEEPING -> (t < nthreads st)%nat.
  Proof.
    intros H. destruct (Nat.ltb_spec t (nthreads st)); auto.
    rewrite getth_out in H by auto. discriminate.
  Qed.
  Lemma ring_in_range st t : WF st -> In t (s_runq st) -> (t < nthreads st)%nat.
  Proof.
    intros W H. destruct (Nat.ltb_spec t (nthreads st)); auto.
    apply (wf_runq _ W) in H. rewrite getth_out in H by auto. destruct H as (_ & H). exfalso; apply H; reflexivity.
  Qed.
  Lemma sleeping_not_in_ring st t : WF st -> th_state (getth st t) = SLEEPING -> ~ In t (s_runq st).
  Proof. intros W H Hin. apply (wf_runq _ W) in Hin. destruct Hin; congruence. Qed.
  Lemma ring_not_in_heap st t : WF st -> In t (s_runq st) -> ~ In t (hq (s_sleepq st)).
  Proof. intros W H Hin. apply (wf_sleep _ W) in Hin. apply (wf_runq _ W) in H. destruct H; congruence. Qed.
  Lemma not_sleeping_no_queue st t q : WF st -> th_state (getth st t) <> SLEEPING -> ~ In t (wq_get st q).
  Proof. intros W H Hin. apply (wf_wq_in _ W) in Hin. destruct Hin; congruence. Qed.

  Lemma perm_nodup_in (l l' : list tid) t :
    NoDup l -> Permutation l (t :: l') -> (forall u, In u l' <-> In u l /\ u <> t) /\ NoDup l'.
  Proof.
    intros Hnd Hp.
    assert (Hnd' : NoDup (t :: l')) by (eapply Permutation_NoDup; eauto).
    inversion Hnd' as [|? ? Hnt Hl']; subst. split; auto.
    intros u. split.
    - intros Hu. split.
      + eapply Permutation_in; [apply Permutation_sym; eauto|]. right; auto.
      + intros ->. auto.
    - intros (Hu & Hne). eapply Permutation_in in Hu; [|eauto]. destruct Hu; congruence.
  Qed.

  (* ---- dequeue_ready / prelocked_interrupt -------------------------------------------------- *)
  Lemma getth_dequeue_ready st t ns u :
    getth (dequeue_ready st t ns) u =
    if Nat.eqb u t && Nat.ltb t (nthreads st)
    then set_tstate (set_twaitq (getth st t) None) ns else getth st u.
  Proof.
    unfold dequeue_ready.
    destruct (th_waitq (getth st t)) as [q|] eqn:Eq.
    - rewrite getth_modth, nthreads_modth. unfold wq_set at 1.
      destruct (Nat.eqb_spec u t) as [->|Hne]; simpl.
      + destruct (Nat.ltb_spec t (nthreads (set_waitqs st (wq_update (s_waitqs st) q (remove_tid t (wq_get st q)))))) as [Hl|Hl];
          change (nthreads (set_waitqs st (wq_update (s_waitqs st) q (remove_tid t (wq_get st q))))) with (nthreads st) in Hl.
        * destruct (Nat.ltb_spec t (nthreads st)); [|lia].
          rewrite getth_modth_same by exact Hl. reflexivity.
        * destruct (Nat.ltb_spec t (nthreads st)); [lia|].
          rewrite getth_modth, Nat.eqb_refl. simpl.
          destruct (Nat.ltb_spec t (nthreads (wq_set st q (remove_tid t (wq_get st q))))) as [Hl2|]; auto.
          exfalso. change (nthreads (wq_set st q (remove_tid t (wq_get st q)))) with (nthreads st) in Hl2. lia.
      + rewrite getth_modth_other by auto. reflexivity.
    - rewrite getth_modth.
      destruct (Nat.eqb_spec u t) as [->|Hne]; simpl; auto.
      destruct (Nat.ltb t (nthreads st)); auto.
      destruct (getth st t); simpl in *. subst. reflexivity.
  Qed.

  Lemma wq_get_dequeue_ready st t ns q :
    wq_get (dequeue_ready st t ns) q =
    if (match th_waitq (getth st t) with Some q0 => qid_eqb q0 q | None => false end)
    then remove_tid t (wq_get st q) else wq_get st q.
  Proof.
    unfold dequeue_ready. destruct (th_waitq (getth st t)) as [q0|] eqn:Eq.
    - change (wq_get (modth (modth (wq_set st q0 (remove_tid t (wq_get st q0))) t (fun th => set_twaitq th None)) t
                            (fun th => set_tstate th ns)) q)
        with (wq_get (wq_set st q0 (remove_tid t (wq_get st q0))) q).
      destruct (qid_eqb_spec q0 q) as [->|Hne].
      + apply wq_get_set_same.
      + apply wq_get_set_other; auto.
    - reflexivity.
  Qed.

  Lemma dequeue_ready_frame st t ns :
    s_runq (dequeue_ready st t ns) = s_runq st /\ s_sleepq (dequeue_ready st t ns) = s_sleepq st /\
    s_standby (dequeue_ready st t ns) = s_standby st /\ s_now (dequeue_ready st t ns) = s_now st /\
    s_clock (dequeue_ready st t ns) = s_clock st /\ nthreads (dequeue_ready st t ns) = nthreads st /\
    s_trace (dequeue_ready st t ns) = s_trace st /\ s_user (dequeue_ready st t ns) = s_user st /\
    s_end (dequeue_ready st t ns) = s_end st /\ s_stuck (dequeue_ready st t ns) = s_stuck st.
  Proof.
    unfold dequeue_ready. destruct (th_waitq (getth st t)); repeat split; try reflexivity;
    rewrite ?nthreads_modth; reflexivity.
  Qed.

  (* the wake-up of a SLEEPING thread: WF is preserved *)
  Lemma WF_prelocked_interrupt st t e :
    WF st -> th_state (getth st t) = SLEEPING -> WF (prelocked_interrupt st t e).
  Proof.
    intros W Hs.
    pose proof (sleeping_in_range _ _ Hs) as Hr.
    unfold prelocked_interrupt.
    set (st1 := modth st t (fun th => set_tesrc (set_terr th e) (length (s_trace st)))).
    assert (W1 : WF st1).
    { apply WF_modth_neutral; auto. intros th; repeat split; reflexivity. }
    assert (Hs1 : th_state (getth st1 t) = SLEEPING).
    { unfold st1. rewrite getth_modth_same by auto. exact Hs. }
    assert (Hr1 : (t < nthreads st1)%nat) by (unfold st1; rewrite nthreads_modth; auto).
    clearbody st1. clear W Hs Hr st. rename st1 into st, W1 into W, Hs1 into Hs, Hr1 into Hr.
    set (st2 := dequeue_ready st t READY).
    destruct (dequeue_ready_frame st t READY) as (F1&F2&F3&F4&F5&F6&F7&F8&F9&F10). fold st2 in F1,F2,F3,F4,F5,F6,F7,F8,F9,F10.
    assert (G : forall u, getth st2 u = if Nat.eqb u t then set_tstate (set_twaitq (getth st t) None) READY else getth st u).
    { intros u. unfold st2. rewrite getth_dequeue_ready.
      destruct (Nat.eqb u t); simpl; auto. destruct (Nat.ltb_spec t (nthreads st)); auto; lia. }
    assert (Hts : forall u, ts_of st2 u = ts_of st u).
    { intros u. unfold ts_of. rewrite G. destruct (Nat.eqb_spec u t) as [->|]; auto. }
    assert (Hin : In t (hq (s_sleepq st))) by (apply (wf_sleep _ W); auto).
    assert (HI2 : Inv (ts_of st2) (s_sleepq st2)).
    { rewrite F2. eapply Inv_ts_ext; [apply W|]. intros; apply Hts. }
    destruct (pop_correct (ts_of st2) (s_sleepq st2) t HI2) as (h' & Hpop & HI' & Hperm & Hidx).
    { rewrite F2; auto. }
    rewrite Hpop. cbn [fst].
    destruct (perm_nodup_in _ _ _ ltac:(destruct HI2 as (_&_&_&_&X); exact X) Hperm) as (Hmem & _).
    rewrite F2 in Hmem.
    match goal with |- WF ?x => set (st3 := x) end.
    assert (R3 : s_runq st3 = s_runq st ++ [t]) by (unfold st3; stsimpl; rewrite F1; reflexivity).
    assert (H3 : s_sleepq st3 = h') by reflexivity.
    assert (G3 : forall u, getth st3 u = if Nat.eqb u t then set_tstate (set_twaitq (getth st t) None) READY else getth st u)
      by (intros u; rewrite <- G; reflexivity).
    assert (Q3 : forall q, wq_get st3 q = if (match th_waitq (getth st t) with Some q0 => qid_eqb q0 q | None => false end)
                                          then remove_tid t (wq_get st q) else wq_get st q).
    { intros q. change (wq_get st3 q) with (wq_get st2 q). unfold st2. apply wq_get_dequeue_ready. }
    assert (I3 : idler_tid st3 = idler_tid st) by (apply idler_tid_nthreads; exact F6).
    assert (T3 : forall u, ts_of st3 u = ts_of st2 u) by reflexivity.
    assert (B3 : s_standby st3 = s_standby st) by exact F3.
    assert (N3 : s_now st3 = s_now st) by exact F4.
    assert (C3 : s_clock st3 = s_clock st) by exact F5.
    clearbody st3.
    constructor.
    - rewrite R3. apply NoDup_app_single; [apply W|]. apply sleeping_not_in_ring; auto.
    - intros u. rewrite R3, in_app_iff, G3. intros [Hu|[<-|[]]].
      + destruct (Nat.eqb_spec u t) as [->|]; [exfalso; eapply sleeping_not_in_ring; eauto|]. apply W; auto.
      + rewrite Nat.eqb_refl. thsimpl. split; discriminate.
    - rewrite R3, I3, in_app_iff. left. apply W.
    - rewrite H3. eapply Inv_ts_ext; [exact HI'|]. intros; apply T3.
    - intros u. rewrite H3, Hmem, G3, (wf_sleep _ W).
      destruct (Nat.eqb_spec u t) as [->|Hne]; thsimpl.
      + split; [intros (_&X); congruence|discriminate].
      + tauto.
    - rewrite B3. apply W.
    - intros q u. rewrite Q3, G3.
      destruct (th_waitq (getth st t)) as [q0|] eqn:Eq.
      + destruct (qid_eqb_spec q0 q) as [->|Hne].
        * rewrite In_remove_tid by apply W. intros (Hu & Hne).
          destruct (Nat.eqb_spec u t); [congruence|]. apply W; auto.
        * intros Hu. destruct (Nat.eqb_spec u t) as [->|]; [|apply W; auto].
          apply (wf_wq_in _ W) in Hu. destruct Hu as (_ & Hu). congruence.
      + intros Hu. destruct (Nat.eqb_spec u t) as [->|]; [|apply W; auto].
        apply (wf_wq_in _ W) in Hu. destruct Hu as (_ & Hu). congruence.
    - intros u q. rewrite Q3, G3.
      destruct (Nat.eqb_spec u t) as [->|Hne]; thsimpl; [discriminate|].
      intros Hq. pose proof (wf_wq_of _ W _ _ Hq) as Hu.
      destruct (th_waitq (getth st t)) as [q0|]; auto.
      destruct (qid_eqb_spec q0 q) as [->|]; auto.
      rewrite In_remove_tid by apply W. auto.
    - intros q. rewrite Q3.
      destruct (th_waitq (getth st t)) as [q0|]; [|apply W].
      destruct (qid_eqb q0 q); [apply NoDup_remove_tid|]; apply W.
    - rewrite N3, C3. apply W.
  Qed.

  Lemma prelocked_interrupt_frame st t e :
    let st' := prelocked_interrupt st t e in
    s_runq st' = s_runq st ++ [t] /\ nthreads st' = nthreads st /\ s_now st' = s_now st /\
    s_clock st' = s_clock st /\ s_trace st' = s_trace st /\ s_standby st' = s_standby st /\
    s_end st' = s_end st /\ s_stuck st' = s_stuck st /\ s_user st' = s_user st.
  Proof.
    unfold prelocked_interrupt. cbv zeta.
    set (st1 := modth st t (fun th => set_tesrc (set_terr th e) (length (s_trace st)))).
    destruct (dequeue_ready_frame st1 t READY) as (F1&F2&F3&F4&F5&F6&F7&F8&F9&F10).
    set (st2 := dequeue_ready st1 t READY) in *.
    stsimpl. rewrite F1, F4, F5, F7, F3, F9, F10, F8.
    change (nthreads (set_runq ?a ?b)) with (nthreads a). change (nthreads (set_sleepq ?a ?b)) with (nthreads a).
    rewrite F6. unfold st1. rewrite nthreads_modth. repeat split; reflexivity.
  Qed.

  Lemma WF_thread_interrupt st t e : WF st -> WF (thread_interrupt st t e).
  Proof.
    intros W. unfold thread_interrupt.
    destruct (th_state (getth st t)) eqn:Es; auto.
    - destruct (th_err (getth st t) =? 0); auto.
      apply WF_modth_neutral; auto. intros th; repeat split; reflexivity.
    - apply WF_prelocked_interrupt; auto.
  Qed.

  Lemma WF_thread_shutdown st t flag : WF st -> WF (thread_shutdown st t flag).
  Proof.
    intros W. unfold thread_shutdown.
    assert (W1 : WF (modth st t (fun th => set_tshutdown th flag))).
    { apply WF_modth_neutral; auto. intros th; repeat split; reflexivity. }
    destruct (tstate_eqb _ SLEEPING); auto. apply WF_thread_interrupt; auto.
  Qed.

  Lemma WF_waitq_resume_one st q e : WF st -> WF (fst (waitq_resume_one st q e)).
  Proof.
    intros W. unfold waitq_resume_one. destruct (wq_get st q) as [|h r] eqn:Eq; simpl; auto.
    apply WF_prelocked_interrupt; auto.
    apply (wf_wq_in _ W q h). rewrite Eq. left; auto.
  Qed.

  Lemma WF_set_error_number st t : WF st -> WF (fst (fst (set_error_number st t))).
  Proof.
    intros W. unfold set_error_number. destruct (th_err (getth st t) =? 0); simpl; auto.
    apply WF_modth_neutral; auto. intros th; repeat split; reflexivity.
  Qed.

  (* ---- create ---------------------------------------------------------------------------- *)
  Lemma WF_do_create st k j :
    WF st -> (k < nthreads st)%nat -> th_state (getth st k) = NOTCREATED -> WF (do_create st k j).
  Proof.
    intros W Hk Hs. unfold do_create. cbv zeta.
    set (th := mkThread READY 0 None 0 j false 0 0 [] 0 false 0 false false).
    match goal with |- WF ?x => set (st3 := x) end.
    assert (G : forall u, getth st3 u = if Nat.eqb u k then th else getth st u).
    { intros u. change (getth st3 u) with (getth (setth st k th) u).
      destruct (Nat.eqb_spec u k) as [->|]; [apply getth_setth_same; auto|apply getth_setth_other; auto]. }
    assert (R3 : s_runq st3 = s_runq st ++ [k]) by reflexivity.
    assert (H3 : s_sleepq st3 = s_sleepq st) by reflexivity.
    assert (Q3 : forall q, wq_get st3 q = wq_get st q) by reflexivity.
    assert (I3 : idler_tid st3 = idler_tid st).
    { apply idler_tid_nthreads. change (nthreads st3) with (nthreads (setth st k th)). apply nthreads_setth. }
    assert (B3 : s_standby st3 = s_standby st) by reflexivity.
    assert (N3 : s_now st3 = s_now st) by reflexivity.
    assert (C3 : s_clock st3 = s_clock st) by reflexivity.
    clearbody st3.
    assert (Hnr : ~ In k (s_runq st)).
    { intros Hin. apply (wf_runq _ W) in Hin. destruct Hin; congruence. }
    assert (Hnh : ~ In k (hq (s_sleepq st))).
    { intros Hin. apply (wf_sleep _ W) in Hin. congruence. }
    constructor.
    - rewrite R3. apply NoDup_app_single; auto. apply W.
    - intros u. rewrite R3, in_app_iff, G. intros [Hu|[<-|[]]].
      + destruct (Nat.eqb_spec u k) as [->|]; [tauto|]. apply W; auto.
      + rewrite Nat.eqb_refl. split; discriminate.
    - rewrite R3, I3, in_app_iff. left. apply W.
    - rewrite H3. eapply Inv_ts_ext; [apply W|]. intros u Hu. unfold ts_of. rewrite G.
      destruct (Nat.eqb_spec u k) as [->|]; tauto.
    - intros u. rewrite H3, G. destruct (Nat.eqb_spec u k) as [->|]; [|apply W].
      split; [tauto|discriminate].
    - rewrite B3. apply W.
    - intros q u. rewrite Q3, G. intros Hu. destruct (Nat.eqb_spec u k) as [->|]; [|apply W; auto].
      apply (wf_wq_in _ W) in Hu. destruct Hu; congruence.
    - intros u q. rewrite Q3, G. destruct (Nat.eqb_spec u k) as [->|]; [discriminate|apply W].
    - intros q. rewrite Q3. apply W.
    - rewrite N3, C3. apply W.
  Qed.

  (* ---- a generic "nobody falls asleep or wakes up" lemma -------------------------------------
     st' differs from st only in th_state of threads that are awake before and after (and in
     fields WF ignores), in the run queue, and in the clock *)
  Lemma WF_restate st st' :
    WF st ->
    (forall u, th_ts (getth st' u) = th_ts (getth st u) /\ th_waitq (getth st' u) = th_waitq (getth st u)) ->
    (forall u, th_state (getth st' u) = SLEEPING <-> th_state (getth st u) = SLEEPING) ->
    s_sleepq st' = s_sleepq st -> s_standby st' = s_standby st -> s_waitqs st' = s_waitqs st ->
    nthreads st' = nthreads st -> s_now st' <= s_clock st' ->
    NoDup (s_runq st') -> (forall u, In u (s_runq st') -> ring_ok (th_state (getth st' u))) ->
    In (idler_tid st) (s_runq st') -> WF st'.
  Proof.
    intros W Hf Hsl Hq Hb Hw Hn Hc Hnd Hro Hid.
    assert (Hwq : forall q, wq_get st' q = wq_get st q) by (intros; unfold wq_get; rewrite Hw; auto).
    constructor.
    - auto.
    - auto.
    - rewrite (idler_tid_nthreads _ _ Hn). auto.
    - rewrite Hq. eapply Inv_ts_ext; [apply W|]. intros u _. unfold ts_of. apply Hf.
    - intros u. rewrite Hq, Hsl. apply W.
    - rewrite Hb. apply W.
    - intros q u. rewrite Hwq. intros Hu. apply (wf_wq_in _ W) in Hu. destruct Hu as (A & B).
      split; [apply Hsl; auto|]. destruct (Hf u) as (_ & ->). auto.
    - intros u q. rewrite Hwq. destruct (Hf u) as (_ & ->). apply W.
    - intros q. rewrite Hwq. apply W.
    - auto.
  Qed.

  Lemma WF_update_now st : WF st -> WF (update_now st).
  Proof.
    intros W. apply (WF_restate st); auto; try reflexivity; try apply W.
  Qed.

  Lemma In_idler_tail st from rest :
    WF st -> s_runq st = from :: rest -> from <> idler_tid st -> In (idler_tid st) rest.
  Proof.
    intros W Hr Hne. pose proof (wf_idler _ W) as Hi. rewrite Hr in Hi. destruct Hi; congruence.
  Qed.

  (* ---- yield ------------------------------------------------------------------------------- *)
  Lemma getth_do_yield st from to rest u :
    s_runq st = from :: to :: rest -> from <> to -> (from < nthreads st)%nat -> (to < nthreads st)%nat ->
    getth (do_yield st) u =
    if Nat.eqb u to then set_tstate (getth st to) RUNNING
    else if Nat.eqb u from then set_tstate (set_terr (getth st from) 0) READY else getth st u.
  Proof.
    intros Hr Hne Hf Ht. unfold do_yield. rewrite Hr.
    change (getth (set_runq ?x ?y) u) with (getth x u).
    rewrite getth_modth, nthreads_modth. change (nthreads (update_now st)) with (nthreads st).
    destruct (Nat.eqb_spec u to) as [->|Hu]; simpl.
    - destruct (Nat.ltb_spec to (nthreads st)); [|lia].
      rewrite getth_modth_other by auto. reflexivity.
    - rewrite getth_modth. change (nthreads (update_now st)) with (nthreads st).
      destruct (Nat.eqb_spec u from) as [->|]; simpl; auto.
      destruct (Nat.ltb_spec from (nthreads st)); [|lia]. reflexivity.
  Qed.

  Lemma WF_do_yield st from to rest :
    WF st -> s_runq st = from :: to :: rest -> WF (do_yield st).
  Proof.
    intros W Hr.
    pose proof (wf_nodup _ W) as Hnd. rewrite Hr in Hnd.
    assert (Hne : from <> to) by (inversion Hnd as [|? ? Hx _]; subst; intros ->; apply Hx; left; auto).
    assert (Hf : (from < nthreads st)%nat) by (apply ring_in_range; auto; rewrite Hr; simpl; auto).
    assert (Ht : (to < nthreads st)%nat) by (apply ring_in_range; auto; rewrite Hr; simpl; auto).
    assert (Hfs : th_state (getth st from) <> SLEEPING) by (apply (wf_runq _ W); rewrite Hr; simpl; auto).
    assert (Hts : th_state (getth st to) <> SLEEPING) by (apply (wf_runq _ W); rewrite Hr; simpl; auto).
    pose proof (fun u => getth_do_yield st from to rest u Hr Hne Hf Ht) as G.
    assert (R : s_runq (do_yield st) = to :: rest ++ [from]) by (unfold do_yield; rewrite Hr; reflexivity).
    apply (WF_restate st); auto.
    - intros u. rewrite G. destruct (Nat.eqb_spec u to) as [->|]; [split; reflexivity|].
      destruct (Nat.eqb_spec u from) as [->|]; split; reflexivity.
    - intros u. rewrite G. destruct (Nat.eqb_spec u to) as [->|]; thsimpl; [split; [discriminate|tauto]|].
      destruct (Nat.eqb_spec u from) as [->|]; thsimpl; [split; [discriminate|tauto]|tauto].
    - unfold do_yield; rewrite Hr; reflexivity.
    - unfold do_yield; rewrite Hr; reflexivity.
    - unfold do_yield; rewrite Hr; reflexivity.
    - unfold do_yield; rewrite Hr. cbv zeta. change (nthreads (set_runq ?a ?b)) with (nthreads a).
      rewrite !nthreads_modth. reflexivity.
    - unfold do_yield; rewrite Hr. simpl. lia.
    - rewrite R. inversion Hnd as [|? ? Hx Hy]; subst.
      change (to :: rest ++ [from]) with ((to :: rest) ++ [from]). apply NoDup_app_single; auto.
    - intros u. rewrite R, G. intros Hu.
      destruct (Nat.eqb_spec u to) as [->|]; thsimpl; [split; discriminate|].
      destruct (Nat.eqb_spec u from) as [->|]; thsimpl; [split; discriminate|].
      apply W. rewrite Hr. simpl in Hu. destruct Hu as [?|Hu]; [congruence|].
      rewrite in_app_iff in Hu. simpl in *. destruct Hu as [?|[?|[]]]; auto; congruence.
    - rewrite R. pose proof (wf_idler _ W) as Hi. rewrite Hr in Hi.
      simpl in *. rewrite in_app_iff. simpl. destruct Hi as [?|[?|?]]; auto.
  Qed.

  (* ---- yield_to ---------------------------------------------------------------------------- *)
  Lemma getth_do_yield_to st from rest k u :
    s_runq st = from :: rest -> from <> k -> (from < nthreads st)%nat -> (k < nthreads st)%nat ->
    getth (do_yield_to st k) u =
    if Nat.eqb u k then set_tstate (getth st k) RUNNING
    else if Nat.eqb u from then set_tstate (set_terr (getth st from) 0) READY else getth st u.
  Proof.
    intros Hr Hne Hf Ht. unfold do_yield_to. rewrite Hr.
    change (getth (set_runq ?x ?y) u) with (getth x u).
    rewrite getth_modth, nthreads_modth. change (nthreads (update_now st)) with (nthreads st).
    destruct (Nat.eqb_spec u k) as [->|Hu]; simpl.
    - destruct (Nat.ltb_spec k (nthreads st)); [|lia].
      rewrite getth_modth_other by auto. reflexivity.
    - rewrite getth_modth. change (nthreads (update_now st)) with (nthreads st).
      destruct (Nat.eqb_spec u from) as [->|]; simpl; auto.
      destruct (Nat.ltb_spec from (nthreads st)); [|lia]. reflexivity.
  Qed.

  Lemma WF_do_yield_to st from rest k :
    WF st -> s_runq st = from :: rest -> from <> k -> th_state (getth st k) = READY -> WF (do_yield_to st k).
  Proof.
    intros W Hr Hne Hk.
    pose proof (wf_nodup _ W) as Hnd. rewrite Hr in Hnd. inversion Hnd as [|? ? Hx Hy]; subst.
    assert (Hf : (from < nthreads st)%nat) by (apply ring_in_range; auto; rewrite Hr; simpl; auto).
    assert (Ht : (k < nthreads st)%nat).
    { destruct (Nat.ltb_spec k (nthreads st)); auto. rewrite getth_out in Hk by auto. discriminate. }
    assert (Hfs : th_state (getth st from) <> SLEEPING) by (apply (wf_runq _ W); rewrite Hr; simpl; auto).
    pose proof (fun u => getth_do_yield_to st from rest k u Hr Hne Hf Ht) as G.
    assert (R : s_runq (do_yield_to st k) = k :: from :: remove_tid k rest) by (unfold do_yield_to; rewrite Hr; reflexivity).
    apply (WF_restate st); auto.
    - intros u. rewrite G. destruct (Nat.eqb_spec u k) as [->|]; [split; reflexivity|].
      destruct (Nat.eqb_spec u from) as [->|]; split; reflexivity.
    - intros u. rewrite G. destruct (Nat.eqb_spec u k) as [->|]; thsimpl; [split; [discriminate|congruence]|].
      destruct (Nat.eqb_spec u from) as [->|]; thsimpl; [split; [discriminate|tauto]|tauto].
    - unfold do_yield_to; rewrite Hr; reflexivity.
    - unfold do_yield_to; rewrite Hr; reflexivity.
    - unfold do_yield_to; rewrite Hr; reflexivity.
    - unfold do_yield_to; rewrite Hr. cbv zeta. change (nthreads (set_runq ?a ?b)) with (nthreads a).
      rewrite !nthreads_modth. reflexivity.
    - unfold do_yield_to; rewrite Hr. simpl. lia.
    - rewrite R. constructor.
      + simpl. intros [?|Hin]; [congruence|]. apply In_remove_tid in Hin; auto. tauto.
      + constructor.
        * intros Hin. apply In_remove_tid_weak in Hin. auto.
        * apply NoDup_remove_tid; auto.
    - intros u. rewrite R, G. intros Hu.
      destruct (Nat.eqb_spec u k) as [->|]; thsimpl; [split; discriminate|].
      destruct (Nat.eqb_spec u from) as [->|]; thsimpl; [split; discriminate|].
      apply W. rewrite Hr. simpl in Hu. destruct Hu as [?|[?|Hu]]; try congruence.
      right. eapply In_remove_tid_weak; eauto.
    - rewrite R. pose proof (wf_idler _ W) as Hi. rewrite Hr in Hi.
      destruct (Nat.eq_dec (idler_tid st) k) as [->|Hik]; [left; auto|].
      right. destruct Hi as [?|Hi]; [left; auto|right]. apply In_remove_tid; auto.
  Qed.

  (* ---- remove_current to a non-sleeping state (die) ---------------------------------------- *)
  Lemma getth_remove_current st from to rest ns u :
    s_runq st = from :: to :: rest -> from <> to -> (from < nthreads st)%nat -> (to < nthreads st)%nat ->
    getth (remove_current st ns) u =
    if Nat.eqb u to then set_tstate (getth st to) RUNNING
    else if Nat.eqb u from then set_tstate (getth st from) ns else getth st u.
  Proof.
    intros Hr Hne Hf Ht. unfold remove_current. rewrite Hr.
    change (getth (set_runq ?x ?y) u) with (getth x u).
    rewrite getth_modth, nthreads_modth.
    destruct (Nat.eqb_spec u to) as [->|Hu]; simpl.
    - destruct (Nat.ltb_spec to (nthreads st)); [|lia].
      rewrite getth_modth_other by auto. reflexivity.
    - rewrite getth_modth.
      destruct (Nat.eqb_spec u from) as [->|]; simpl; auto.
      destruct (Nat.ltb_spec from (nthreads st)); [|lia]. reflexivity.
  Qed.

  Lemma remove_current_frame st from to rest ns :
    s_runq st = from :: to :: rest ->
    let st' := remove_current st ns in
    s_runq st' = to :: rest /\ s_sleepq st' = s_sleepq st /\ s_standby st' = s_standby st /\
    s_waitqs st' = s_waitqs st /\ s_now st' = s_now st /\ s_clock st' = s_clock st /\
    nthreads st' = nthreads st /\ s_trace st' = s_trace st.
  Proof.
    intros Hr. unfold remove_current. rewrite Hr. cbv zeta. repeat split; try reflexivity.
    change (nthreads (set_runq ?a ?b)) with (nthreads a). rewrite !nthreads_modth. reflexivity.
  Qed.

  Lemma WF_remove_current st from to rest ns :
    WF st -> s_runq st = from :: to :: rest -> from <> idler_tid st -> ns <> SLEEPING ->
    WF (remove_current st ns).
  Proof.
    intros W Hr Hid Hns.
    pose proof (wf_nodup _ W) as Hnd. rewrite Hr in Hnd.
    assert (Hne : from <> to) by (inversion Hnd as [|? ? Hx _]; subst; intros ->; apply Hx; left; auto).
    assert (Hf : (from < nthreads st)%nat) by (apply ring_in_range; auto; rewrite Hr; simpl; auto).
    assert (Ht : (to < nthreads st)%nat) by (apply ring_in_range; auto; rewrite Hr; simpl; auto).
    assert (Hfs : th_state (getth st from) <> SLEEPING) by (apply (wf_runq _ W); rewrite Hr; simpl; auto).
    assert (Hts : th_state (getth st to) <> SLEEPING) by (apply (wf_runq _ W); rewrite Hr; simpl; auto).
    pose proof (fun u => getth_remove_current st from to rest ns u Hr Hne Hf Ht) as G.
    destruct (remove_current_frame st from to rest ns Hr) as (R&F2&F3&F4&F5&F6&F7&F8).
    apply (WF_restate st); auto.
    - intros u. rewrite G. destruct (Nat.eqb_spec u to) as [->|]; [split; reflexivity|].
      destruct (Nat.eqb_spec u from) as [->|]; split; reflexivity.
    - intros u. rewrite G. destruct (Nat.eqb_spec u to) as [->|]; thsimpl; [split; [discriminate|tauto]|].
      destruct (Nat.eqb_spec u from) as [->|]; thsimpl; [split; [congruence|tauto]|tauto].
    - rewrite F5, F6. apply W.
    - rewrite R. inversion Hnd; auto.
    - intros u. rewrite R, G. intros Hu.
      destruct (Nat.eqb_spec u to) as [->|]; thsimpl; [split; discriminate|].
      destruct (Nat.eqb_spec u from) as [->|].
      + exfalso. inversion Hnd as [|? ? Hx _]; subst. apply Hx. auto.
      + apply W. rewrite Hr. right; auto.
    - rewrite R. eapply In_idler_tail; eauto.
  Qed.

  Lemma WF_modth_awake st t f ns :
    WF st -> th_state (getth st t) <> SLEEPING -> ns <> SLEEPING -> (In t (s_runq st) -> ring_ok ns) ->
    (forall th, th_state (f th) = ns /\ th_ts (f th) = th_ts th /\ th_waitq (f th) = th_waitq th) ->
    WF (modth st t f).
  Proof.
    intros W Hs Hns Hro Hf.
    apply (WF_restate st); auto; try reflexivity; try apply W.
    - intros u. rewrite getth_modth. destruct (Nat.eqb u t && Nat.ltb t (nthreads st)) eqn:E; [|split; reflexivity].
      apply andb_true_iff in E. destruct E as (E & _). apply Nat.eqb_eq in E. subst. split; apply Hf.
    - intros u. rewrite getth_modth. destruct (Nat.eqb u t && Nat.ltb t (nthreads st)) eqn:E; [|tauto].
      apply andb_true_iff in E. destruct E as (E & _). apply Nat.eqb_eq in E. subst.
      destruct (Hf (getth st t)) as (-> & _). tauto.
    - apply nthreads_modth.
    - intros u Hu. change (s_runq (modth st t f)) with (s_runq st) in Hu. rewrite getth_modth.
      destruct (Nat.eqb u t && Nat.ltb t (nthreads st)) eqn:E; [|apply W; auto].
      apply andb_true_iff in E. destruct E as (E & _). apply Nat.eqb_eq in E. subst.
      destruct (Hf (getth st t)) as (-> & _). auto.
  Qed.

  Lemma WF_do_die st t rv rest :
    WF st -> s_runq st = t :: rest -> t <> idler_tid st -> WF (do_die st t rv).
  Proof.
    intros W Hr Hid. unfold do_die.
    assert (Hts : th_state (getth st t) <> SLEEPING) by (apply (wf_runq _ W); rewrite Hr; simpl; auto).
    set (st1 := modth st t (fun th => set_tretval (set_tstate th DONE) rv)).
    assert (W1 : WF st1).
    { apply (WF_modth_awake st t _ DONE); auto; try discriminate.
      all: try (intros _; split; discriminate).
      all: try (intros th; repeat split; reflexivity). }
    assert (I1 : idler_tid st1 = idler_tid st) by (apply idler_tid_nthreads, nthreads_modth).
    assert (R1 : s_runq st1 = t :: rest) by exact Hr.
    clearbody st1.
    pose proof (WF_waitq_resume_one st1 (QJoin t) (-1) W1) as W2.
    set (st2 := fst (waitq_resume_one st1 (QJoin t) (-1))) in *.
    assert (R2 : exists l, s_runq st2 = t :: rest ++ l).
    { unfold st2, waitq_resume_one. destruct (wq_get st1 (QJoin t)) as [|h r]; cbn [fst].
      - exists []. rewrite app_nil_r. auto.
      - exists [h]. destruct (prelocked_interrupt_frame st1 h (-1)) as (F1&_). rewrite F1, R1. reflexivity. }
    assert (I2 : idler_tid st2 = idler_tid st).
    { rewrite <- I1. apply idler_tid_nthreads. unfold st2, waitq_resume_one.
      destruct (wq_get st1 (QJoin t)) as [|h r]; cbn [fst]; auto.
      destruct (prelocked_interrupt_frame st1 h (-1)) as (_&F2&_). exact F2. }
    clearbody st2. destruct R2 as (l & R2).
    pose proof (wf_idler _ W2) as Hi. rewrite R2, I2 in Hi.
    destruct Hi as [?|Hi]; [congruence|].
    destruct (rest ++ l) as [|to rest'] eqn:El; [destruct Hi|].
    eapply WF_remove_current; eauto; try discriminate. congruence.
  Qed.

  (* ---- going to sleep ------------------------------------------------------------------------ *)
  Definition sleep_waitq (old : option qid) (wq : option qid) : option qid :=
    match wq with Some q => Some q | None => old end.

  Lemma do_sleep_spec st from to rest exp wq :
    WF st -> s_runq st = from :: to :: rest ->
    let st' := do_sleep st exp wq in
    (forall u, th_state (getth st' u) =
               if Nat.eqb u to then RUNNING else if Nat.eqb u from then SLEEPING else th_state (getth st u)) /\
    (forall u, th_ts (getth st' u) = if Nat.eqb u from then exp else th_ts (getth st u)) /\
    (forall u, th_waitq (getth st' u) =
               if Nat.eqb u from then sleep_waitq (th_waitq (getth st from)) wq else th_waitq (getth st u)) /\
    (forall u, u <> from -> u <> to -> getth st' u = getth st u) /\
    (forall q, wq_get st' q = match wq with
                              | Some q0 => if qid_eqb q0 q then wq_get st q ++ [from] else wq_get st q
                              | None => wq_get st q end) /\
    s_runq st' = to :: rest /\
    (exists ts', (forall u, ts' u = if Nat.eqb u from then exp else th_ts (getth st u)) /\
                 s_sleepq st' = push ts' (s_sleepq st) from) /\
    s_standby st' = s_standby st /\ s_now st' = s_clock st /\ s_clock st' = s_clock st /\
    nthreads st' = nthreads st /\ s_trace st' = s_trace st /\ s_user st' = s_user st /\
    s_end st' = s_end st /\ s_stuck st' = s_stuck st /\
    (forall (p : thread -> Z), (forall th s, p (set_tstate th s) = p th) -> (forall th q, p (set_twaitq th q) = p th) ->
        (forall th x, p (set_tts th x) = p th) -> forall u, p (getth st' u) = p (getth st u)).
  Proof.
    intros W Hr.
    pose proof (wf_nodup _ W) as Hnd. rewrite Hr in Hnd.
    assert (Hne : from <> to) by (inversion Hnd as [|? ? Hx _]; subst; intros ->; apply Hx; left; auto).
    assert (Hf : (from < nthreads st)%nat) by (apply ring_in_range; auto; rewrite Hr; simpl; auto).
    assert (Ht : (to < nthreads st)%nat) by (apply ring_in_range; auto; rewrite Hr; simpl; auto).
    unfold do_sleep. rewrite Hr. cbv zeta.
    pose proof (fun u => getth_remove_current st from to rest SLEEPING u Hr Hne Hf Ht) as G1.
    destruct (remove_current_frame st from to rest SLEEPING Hr) as (R1&F2&F3&F4&F5&F6&F7&F8).
    assert (Hu1 : s_user (remove_current st SLEEPING) = s_user st) by (unfold remove_current; rewrite Hr; reflexivity).
    assert (He1 : s_end (remove_current st SLEEPING) = s_end st) by (unfold remove_current; rewrite Hr; reflexivity).
    assert (Hk1 : s_stuck (remove_current st SLEEPING) = s_stuck st) by (unfold remove_current; rewrite Hr; reflexivity).
    set (st1 := remove_current st SLEEPING) in *.
    set (st2 := match wq with
                | Some q => modth (wq_set st1 q (wq_get st1 q ++ [from])) from (fun th => set_twaitq th (Some q))
                | None => st1 end).
    assert (G2 : forall u, getth st2 u = if Nat.eqb u from then
                    match wq with Some q => set_twaitq (getth st1 from) (Some q) | None => getth st1 from end
                    else getth st1 u).
    { intros u. unfold st2. destruct wq as [q|].
      - rewrite getth_modth. change (nthreads (wq_set st1 q (wq_get st1 q ++ [from]))) with (nthreads st1).
        destruct (Nat.eqb_spec u from) as [->|]; simpl; auto.
        destruct (Nat.ltb_spec from (nthreads st1)); [reflexivity|lia].
      - destruct (Nat.eqb_spec u from) as [->|]; auto. }
    assert (N2 : nthreads st2 = nthreads st).
    { unfold st2. destruct wq; [rewrite nthreads_modth|]; exact F7. }
    assert (Q2 : forall q, wq_get st2 q = match wq with
                              | Some q0 => if qid_eqb q0 q then wq_get st q ++ [from] else wq_get st q
                              | None => wq_get st q end).
    { intros q. assert (Hq1 : forall q, wq_get st1 q = wq_get st q) by (intros; unfold wq_get; rewrite F4; auto).
      unfold st2. destruct wq as [q0|]; [|apply Hq1].
      change (wq_get (modth (wq_set st1 q0 (wq_get st1 q0 ++ [from])) from (fun th => set_twaitq th (Some q0))) q)
        with (wq_get (wq_set st1 q0 (wq_get st1 q0 ++ [from])) q).
      destruct (qid_eqb_spec q0 q) as [->|].
      - rewrite wq_get_set_same, Hq1. reflexivity.
      - rewrite wq_get_set_other, Hq1 by auto. reflexivity. }
    assert (C2 : s_runq st2 = to :: rest /\ s_sleepq st2 = s_sleepq st /\ s_standby st2 = s_standby st /\
                 s_clock st2 = s_clock st /\ s_trace st2 = s_trace st /\ s_user st2 = s_user st /\
                 s_end st2 = s_end st /\ s_stuck st2 = s_stuck st).
    { unfold st2. destruct wq; repeat split; assumption. }
    destruct C2 as (R2&S2&B2&C2&T2&U2&E2&K2).
    clearbody st2.
    set (st4 := modth (update_now st2) from (fun th => set_tts th exp)).
    assert (G4 : forall u, getth st4 u = if Nat.eqb u from then set_tts (getth st2 from) exp else getth st2 u).
    { intros u. unfold st4. rewrite getth_modth. change (nthreads (update_now st2)) with (nthreads st2).
      destruct (Nat.eqb_spec u from) as [->|]; simpl; auto.
      destruct (Nat.ltb_spec from (nthreads st2)); [reflexivity|lia]. }
    match goal with |- context [set_sleepq st4 ?h] => set (hh := h) end.
    assert (G5 : forall u, getth (set_sleepq st4 hh) u = getth st4 u) by reflexivity.
    assert (Hneb : Nat.eqb from to = false) by (apply Nat.eqb_neq; auto).
    split; [|split; [|split; [|split; [|split; [|split; [|split]]]]]].
    - intros u. rewrite G5, G4, !G2, !G1, Nat.eqb_refl, ?Hneb.
      destruct (Nat.eqb_spec u from) as [->|].
      + rewrite ?Hneb. destruct wq; reflexivity.
      + destruct (Nat.eqb_spec u to) as [->|]; reflexivity.
    - intros u. rewrite G5, G4, !G2, !G1, Nat.eqb_refl, ?Hneb.
      destruct (Nat.eqb_spec u from) as [->|]; [reflexivity|].
      destruct (Nat.eqb_spec u to) as [->|]; reflexivity.
    - intros u. rewrite G5, G4, !G2, !G1, Nat.eqb_refl, ?Hneb.
      destruct (Nat.eqb_spec u from) as [->|].
      + rewrite ?Hneb. destruct wq; reflexivity.
      + destruct (Nat.eqb_spec u to) as [->|]; reflexivity.
    - intros u H1 H2. rewrite G5, G4, !G2, !G1, Nat.eqb_refl, ?Hneb.
      destruct (Nat.eqb_spec u from); [congruence|]. destruct (Nat.eqb_spec u to); [congruence|]. reflexivity.
    - intros q. change (wq_get (set_sleepq st4 hh) q) with (wq_get st2 q). apply Q2.
    - exact R2.
    - exists (ts_of st4). split.
      + intros u. unfold ts_of. rewrite G4, !G2, !G1, Nat.eqb_refl, ?Hneb.
        destruct (Nat.eqb_spec u from) as [->|]; [reflexivity|].
        destruct (Nat.eqb_spec u to) as [->|]; reflexivity.
      + unfold hh. change (s_sleepq st4) with (s_sleepq st2). rewrite S2. reflexivity.
    - repeat split; try assumption.
      + change (nthreads (set_sleepq st4 hh)) with (nthreads st4). unfold st4. rewrite nthreads_modth. exact N2.
      + intros p P1 P2 P3 u. rewrite G5, G4, !G2, !G1, Nat.eqb_refl, ?Hneb.
        destruct (Nat.eqb_spec u from) as [->|].
        * rewrite P3, ?Hneb. destruct wq; rewrite ?P2, ?P1; reflexivity.
        * destruct (Nat.eqb_spec u to) as [->|]; rewrite ?P1; reflexivity.
  Qed.

  Lemma getth_do_sleep st from to rest exp wq u :
    WF st -> s_runq st = from :: to :: rest ->
    getth (do_sleep st exp wq) u =
    if Nat.eqb u from
    then set_tts (match wq with
                  | Some q => set_twaitq (set_tstate (getth st from) SLEEPING) (Some q)
                  | None => set_tstate (getth st from) SLEEPING end) exp
    else if Nat.eqb u to then set_tstate (getth st to) RUNNING else getth st u.
  Proof.
    intros W Hr.
    pose proof (wf_nodup _ W) as Hnd. rewrite Hr in Hnd.
    assert (Hne : from <> to) by (inversion Hnd as [|? ? Hx _]; subst; intros ->; apply Hx; left; auto).
    assert (Hf : (from < nthreads st)%nat) by (apply ring_in_range; auto; rewrite Hr; simpl; auto).
    assert (Ht : (to < nthreads st)%nat) by (apply ring_in_range; auto; rewrite Hr; simpl; auto).
    unfold do_sleep. rewrite Hr. cbv zeta.
    pose proof (fun u => getth_remove_current st from to rest SLEEPING u Hr Hne Hf Ht) as G1.
    destruct (remove_current_frame st from to rest SLEEPING Hr) as (R1&F2&F3&F4&F5&F6&F7&F8).
    set (st1 := remove_current st SLEEPING) in *.
    set (st2 := match wq with
                | Some q => modth (wq_set st1 q (wq_get st1 q ++ [from])) from (fun th => set_twaitq th (Some q))
                | None => st1 end).
    assert (G2 : forall u, getth st2 u = if Nat.eqb u from then
                    match wq with Some q => set_twaitq (getth st1 from) (Some q) | None => getth st1 from end
                    else getth st1 u).
    { intros v. unfold st2. destruct wq as [q|].
      - rewrite getth_modth. change (nthreads (wq_set st1 q (wq_get st1 q ++ [from]))) with (nthreads st1).
        destruct (Nat.eqb_spec v from) as [->|]; simpl; auto.
        destruct (Nat.ltb_spec from (nthreads st1)); [reflexivity|lia].
      - destruct (Nat.eqb_spec v from) as [->|]; auto. }
    assert (N2 : nthreads st2 = nthreads st).
    { unfold st2. destruct wq; [rewrite nthreads_modth|]; exact F7. }
    clearbody st2.
    change (getth (set_sleepq ?a ?b) u) with (getth a u).
    rewrite getth_modth. change (nthreads (update_now st2)) with (nthreads st2).
    change (getth (update_now st2) ?x) with (getth st2 x).
    assert (Hneb : Nat.eqb from to = false) by (apply Nat.eqb_neq; auto).
    destruct (Nat.eqb_spec u from) as [->|Hu]; simpl.
    - destruct (Nat.ltb_spec from (nthreads st2)); [|lia].
      rewrite G2, Nat.eqb_refl, G1, Nat.eqb_refl, Hneb. destruct wq; reflexivity.
    - rewrite G2. destruct (Nat.eqb_spec u from); [congruence|]. rewrite G1.
      destruct (Nat.eqb_spec u to) as [->|]; [reflexivity|].
      destruct (Nat.eqb_spec u from); [congruence|reflexivity].
  Qed.

  Lemma WF_do_sleep st from to rest exp wq :
    WF st -> s_runq st = from :: to :: rest -> from <> idler_tid st ->
    th_waitq (getth st from) = None -> WF (do_sleep st exp wq).
  Proof.
    intros W Hr Hid Hwq.
    destruct (do_sleep_spec st from to rest exp wq W Hr) as (Gs&Gt&Gw&Go&Q&R&(ts'&Hts'&Hh)&B&N&C&L&_).
    set (st' := do_sleep st exp wq) in *. clearbody st'.
    pose proof (wf_nodup _ W) as Hnd. rewrite Hr in Hnd.
    assert (Hne : from <> to) by (inversion Hnd as [|? ? Hx _]; subst; intros ->; apply Hx; left; auto).
    assert (Hfs : th_state (getth st from) <> SLEEPING) by (apply (wf_runq _ W); rewrite Hr; simpl; auto).
    assert (Htos : th_state (getth st to) <> SLEEPING) by (apply (wf_runq _ W); rewrite Hr; simpl; auto).
    assert (Hfh : ~ In from (hq (s_sleepq st))) by (apply ring_not_in_heap; auto; rewrite Hr; simpl; auto).
    assert (HI : Inv ts' (s_sleepq st)).
    { eapply Inv_ts_ext; [apply W|]. intros u Hu. rewrite Hts'. unfold ts_of.
      destruct (Nat.eqb_spec u from); [congruence|reflexivity]. }
    assert (Hidx : hidx (s_sleepq st) from = -1) by (destruct (wf_heap _ W) as (_&_&_&X&_); apply X; auto).
    pose proof (push_Inv ts' _ from HI Hidx) as HI'.
    pose proof (push_perm ts' _ from HI Hidx) as Hp.
    assert (Hmem : forall u, In u (hq (s_sleepq st')) <-> u = from \/ In u (hq (s_sleepq st))).
    { intros u. rewrite Hh. split.
      - intros Hu. eapply Permutation_in in Hu; [|exact Hp]. destruct Hu; auto.
      - intros Hu. eapply Permutation_in; [apply Permutation_sym; exact Hp|]. destruct Hu; [left|right]; auto. }
    constructor.
    - rewrite R. inversion Hnd; auto.
    - intros u. rewrite R, Gs. intros Hu.
      destruct (Nat.eqb_spec u to); [split; discriminate|].
      destruct (Nat.eqb_spec u from) as [->|].
      + exfalso. inversion Hnd as [|? ? Hx _]; subst. auto.
      + apply W. rewrite Hr. right; auto.
    - rewrite R, (idler_tid_nthreads _ _ L). eapply In_idler_tail; eauto.
    - rewrite Hh. eapply Inv_ts_ext; [exact HI'|]. intros u _. unfold ts_of. rewrite Gt, Hts'. reflexivity.
    - intros u. rewrite Hmem, Gs, (wf_sleep _ W).
      destruct (Nat.eqb_spec u to) as [->|].
      + split; [intros [?|?]; congruence|discriminate].
      + destruct (Nat.eqb_spec u from) as [->|]; [tauto|]. split; [intros [?|?]; congruence|auto].
    - rewrite B. apply W.
    - intros q u. rewrite Q, Gs, Gw. intros Hu.
      assert (Hcase : (u = from /\ wq = Some q) \/ In u (wq_get st q)).
      { destruct wq as [q0|]; auto. destruct (qid_eqb_spec q0 q) as [->|]; auto.
        rewrite in_app_iff in Hu. simpl in Hu. destruct Hu as [?|[<-|[]]]; auto. }
      destruct Hcase as [(-> & ->)|Hin].
      + rewrite Nat.eqb_refl. destruct (Nat.eqb_spec from to); [congruence|]. split; reflexivity.
      + destruct (wf_wq_in _ W _ _ Hin) as (A & B').
        destruct (Nat.eqb_spec u to) as [->|]; [congruence|].
        destruct (Nat.eqb_spec u from) as [->|]; [congruence|]. auto.
    - intros u q. rewrite Q, Gw.
      destruct (Nat.eqb_spec u from) as [->|].
      + rewrite Hwq. unfold sleep_waitq. destruct wq as [q0|]; [|discriminate].
        intros [= ->]. destruct (qid_eqb_spec q q); [|congruence]. rewrite in_app_iff. right; left; auto.
      + intros Hq. pose proof (wf_wq_of _ W _ _ Hq) as Hin.
        destruct wq as [q0|]; auto. destruct (qid_eqb q0 q); auto. rewrite in_app_iff; auto.
    - intros q. rewrite Q. destruct wq as [q0|]; [|apply W].
      destruct (qid_eqb q0 q); [|apply W]. apply NoDup_app_single; [apply W|].
      apply not_sleeping_no_queue; auto.
    - rewrite N, C. lia.
  Qed.

  (* ---- the timer wake-up: resume_threads_inlined ---------------------------------------------- *)
  Definition wake_timer st (t : tid) : state U :=
    dequeue_ready (set_sleepq st (fst (pop_front (ts_of st) (s_sleepq st)))) t READY.

  Record frame_eq st st' : Prop := mkFrame {
    fr_now : s_now st' = s_now st; fr_clock : s_clock st' = s_clock st; fr_trace : s_trace st' = s_trace st;
    fr_n : nthreads st' = nthreads st; fr_standby : s_standby st' = s_standby st; fr_user : s_user st' = s_user st;
    fr_end : s_end st' = s_end st; fr_stuck : s_stuck st' = s_stuck st
  }.
  Lemma frame_eq_refl st : frame_eq st st.
  Proof. constructor; reflexivity. Qed.
  Lemma frame_eq_trans a b c : frame_eq a b -> frame_eq b c -> frame_eq a c.
  Proof. intros [] []; constructor; congruence. Qed.

  Lemma wake_timer_spec st t :
    WF st -> front (s_sleepq st) = Some t ->
    let st' := wake_timer st t in
    WF st' /\ s_runq st' = s_runq st /\ th_state (getth st t) = SLEEPING /\
    getth st' t = set_tstate (set_twaitq (getth st t) None) READY /\
    (forall u, u <> t -> getth st' u = getth st u) /\
    (forall u, In u (hq (s_sleepq st')) <-> In u (hq (s_sleepq st)) /\ u <> t) /\
    frame_eq st st'.
  Proof.
    intros W Hfr. cbv zeta.
    assert (Hne : hq (s_sleepq st) <> []) by (unfold front in Hfr; destruct (hq (s_sleepq st)); discriminate).
    destruct (pop_front_correct (ts_of st) (s_sleepq st) (wf_heap _ W) Hne) as (h' & t0 & Hpop & Hfr' & Hmin & HI' & Hperm & Hidx).
    assert (t0 = t) by congruence. subst t0.
    assert (Hin : In t (hq (s_sleepq st))).
    { eapply Permutation_in; [apply Permutation_sym; exact Hperm|left; auto]. }
    assert (Hs : th_state (getth st t) = SLEEPING) by (apply (wf_sleep _ W); auto).
    pose proof (sleeping_in_range _ _ Hs) as Hr.
    destruct (perm_nodup_in _ _ _ ltac:(destruct (wf_heap _ W) as (_&_&_&_&X); exact X) Hperm) as (Hmem & _).
    unfold wake_timer. rewrite Hpop. cbn [fst].
    set (st1 := set_sleepq st h').
    destruct (dequeue_ready_frame st1 t READY) as (F1&F2&F3&F4&F5&F6&F7&F8&F9&F10).
    assert (G : forall u, getth (dequeue_ready st1 t READY) u =
                          if Nat.eqb u t then set_tstate (set_twaitq (getth st t) None) READY else getth st u).
    { intros u. rewrite getth_dequeue_ready. change (nthreads st1) with (nthreads st). change (getth st1 ?x) with (getth st x).
      destruct (Nat.eqb u t); simpl; auto. destruct (Nat.ltb_spec t (nthreads st)); auto; lia. }
    assert (Q : forall q, wq_get (dequeue_ready st1 t READY) q =
                if (match th_waitq (getth st t) with Some q0 => qid_eqb q0 q | None => false end)
                then remove_tid t (wq_get st q) else wq_get st q).
    { intros q. rewrite wq_get_dequeue_ready. reflexivity. }
    set (st' := dequeue_ready st1 t READY) in *. clearbody st'.
    change (s_runq st1) with (s_runq st) in F1. change (s_sleepq st1) with h' in F2.
    change (s_standby st1) with (s_standby st) in F3. change (s_now st1) with (s_now st) in F4.
    change (s_clock st1) with (s_clock st) in F5. change (nthreads st1) with (nthreads st) in F6.
    change (s_trace st1) with (s_trace st) in F7. change (s_user st1) with (s_user st) in F8.
    change (s_end st1) with (s_end st) in F9. change (s_stuck st1) with (s_stuck st) in F10.
    clear st1.
    split; [|split; [exact F1|split; [exact Hs|split; [|split; [|split]]]]].
    - constructor.
      + rewrite F1. apply W.
      + intros u. rewrite F1, G. intros Hu.
        destruct (Nat.eqb_spec u t) as [->|]; [split; discriminate|]. apply W; auto.
      + rewrite F1, (idler_tid_nthreads _ _ F6). apply W.
      + rewrite F2. eapply Inv_ts_ext; [exact HI'|]. intros u _. unfold ts_of. rewrite G.
        destruct (Nat.eqb_spec u t) as [->|]; reflexivity.
      + intros u. rewrite F2, Hmem, G, (wf_sleep _ W).
        destruct (Nat.eqb_spec u t) as [->|Hne']; thsimpl.
        * split; [intros (_&X); congruence|discriminate].
        * tauto.
      + rewrite F3. apply W.
      + intros q u. rewrite Q, G.
        destruct (th_waitq (getth st t)) as [q0|] eqn:Eq.
        * destruct (qid_eqb_spec q0 q) as [->|Hne'].
          -- rewrite In_remove_tid by apply W. intros (Hu & Hne').
             destruct (Nat.eqb_spec u t); [congruence|]. apply W; auto.
          -- intros Hu. destruct (Nat.eqb_spec u t) as [->|]; [|apply W; auto].
             apply (wf_wq_in _ W) in Hu. destruct Hu as (_ & Hu). congruence.
        * intros Hu. destruct (Nat.eqb_spec u t) as [->|]; [|apply W; auto].
          apply (wf_wq_in _ W) in Hu. destruct Hu as (_ & Hu). congruence.
      + intros u q. rewrite Q, G.
        destruct (Nat.eqb_spec u t) as [->|Hne']; thsimpl; [discriminate|].
        intros Hq. pose proof (wf_wq_of _ W _ _ Hq) as Hu.
        destruct (th_waitq (getth st t)) as [q0|]; auto.
        destruct (qid_eqb_spec q0 q) as [->|]; auto.
        rewrite In_remove_tid by apply W. auto.
      + intros q. rewrite Q.
        destruct (th_waitq (getth st t)) as [q0|]; [|apply W].
        destruct (qid_eqb q0 q); [apply NoDup_remove_tid|]; apply W.
      + rewrite F4, F5. apply W.
    - rewrite G, Nat.eqb_refl. reflexivity.
    - intros u Hu. rewrite G. destruct (Nat.eqb_spec u t); [congruence|reflexivity].
    - intros u. rewrite F2. apply Hmem.
    - constructor; assumption.
  Qed.

  Definition resume_post st st' (woken : list tid) : Prop :=
      WF st' /\ NoDup woken /\ s_runq st' = s_runq st /\
      (forall u, In u woken -> th_state (getth st u) = SLEEPING /\ th_ts (getth st u) <= s_now st /\
                               getth st' u = set_tstate (set_twaitq (getth st u) None) READY) /\
      (forall u, ~ In u woken -> getth st' u = getth st u) /\
      (forall u, th_state (getth st' u) = SLEEPING -> s_now st < th_ts (getth st' u)) /\
      frame_eq st st'.

  Lemma resume_post_nil st :
    WF st -> (forall u, th_state (getth st u) = SLEEPING -> s_now st < th_ts (getth st u)) -> resume_post st st [].
  Proof.
    intros W H. unfold resume_post. split; [exact W|]. split; [constructor|]. split; [reflexivity|].
    split; [intros u []|]. split; [reflexivity|]. split; [exact H|apply frame_eq_refl].
  Qed.

  Lemma resume_expired_spec : forall fuel st acc,
    WF st -> (length (hq (s_sleepq st)) <= fuel)%nat ->
    exists woken,
      snd (resume_expired fuel st acc) = acc ++ woken /\
      resume_post st (fst (resume_expired fuel st acc)) woken.
  Proof.
    induction fuel as [|f IH]; intros st acc W Hlen.
    - exists []. simpl. rewrite app_nil_r. split; [reflexivity|]. apply resume_post_nil; auto.
      intros u Hu. apply (wf_sleep _ W) in Hu. destruct (hq (s_sleepq st)); simpl in *; [tauto|lia].
    - simpl. destruct (front (s_sleepq st)) as [t|] eqn:Hfr.
      + destruct (s_now st <? th_ts (getth st t)) eqn:Hlt.
        * exists []. simpl. rewrite app_nil_r. split; [reflexivity|]. apply resume_post_nil; auto.
          intros u Hu. apply (wf_sleep _ W) in Hu.
          pose proof (front_is_min _ _ _ (wf_heap _ W) Hfr u Hu) as Hmin. unfold ts_of in Hmin.
          apply Z.ltb_lt in Hlt. lia.
        * destruct (wake_timer_spec st t W Hfr) as (W1 & R1 & Hs & Gt & Go & Hmem & Fr).
          unfold wake_timer in *.
          set (st1 := set_sleepq st (fst (pop_front (ts_of st) (s_sleepq st)))) in *.
          change (getth st1 t) with (getth st t). rewrite Hs. simpl tstate_eqb. cbv iota.
          set (st2 := dequeue_ready st1 t READY) in *.
          assert (Hlen2 : (length (hq (s_sleepq st2)) <= f)%nat).
          { assert (Hnd : NoDup (hq (s_sleepq st))) by (destruct (wf_heap _ W) as (_&_&_&_&X); exact X).
            assert (Hnd2 : NoDup (hq (s_sleepq st2))) by (destruct (wf_heap _ W1) as (_&_&_&_&X); exact X).
            assert (Hin : In t (hq (s_sleepq st))) by (apply (wf_sleep _ W); auto).
            assert (Hl : (length (t :: hq (s_sleepq st2)) <= length (hq (s_sleepq st)))%nat).
            { apply NoDup_incl_length.
              - constructor; auto. intros X. apply Hmem in X. tauto.
              - intros u [<-|Hu]; auto. apply Hmem in Hu. tauto. }
            cbn [length] in Hl. lia. }
          destruct (IH st2 (acc ++ [t]) W1 Hlen2) as (wk & Hacc & W' & Hnd & R' & Hw & Ho & Hd & Fr').
          clearbody st2. clear st1.
          exists (t :: wk). rewrite Hacc, <- app_assoc. split; [reflexivity|].
          assert (Htw : ~ In t wk).
          { intros X. apply Hw in X. destruct X as (X & _). rewrite Gt in X. discriminate. }
          unfold resume_post.
          split; [exact W'|]. split; [constructor; auto|]. split; [congruence|].
          split; [|split; [|split]].
          -- intros u [<-|Hu].
             ++ split; [exact Hs|]. split; [apply Z.ltb_ge in Hlt; lia|]. rewrite Ho by auto. exact Gt.
             ++ destruct (Hw _ Hu) as (X1 & X2 & X3).
                assert (Hne : u <> t) by (intros ->; tauto).
                rewrite Go in X1, X2, X3 by auto. rewrite (fr_now _ _ Fr) in X2. auto.
          -- intros u Hu. simpl in Hu. rewrite Ho by tauto. apply Go. intros ->. apply Hu. left; auto.
          -- intros u Hu. apply Hd in Hu. rewrite (fr_now _ _ Fr) in Hu. exact Hu.
          -- eapply frame_eq_trans; eauto.
      + exists []. simpl. rewrite app_nil_r. split; [reflexivity|]. apply resume_post_nil; auto.
        intros u Hu. apply (wf_sleep _ W) in Hu. unfold front in Hfr. destruct (hq (s_sleepq st)); [destruct Hu|discriminate].
  Qed.

  Lemma NoDup_app_disjoint (a b : list tid) :
    NoDup a -> NoDup b -> (forall u, In u b -> ~ In u a) -> NoDup (a ++ b).
  Proof.
    induction a as [|x a IH]; simpl; intros Ha Hb Hd; auto.
    inversion Ha; subst. constructor.
    - rewrite in_app_iff. intros [?|Hx]; [auto|]. apply (Hd x Hx). left; auto.
    - apply IH; auto. intros u Hu Hin. apply (Hd u Hu). right; auto.
  Qed.

  Lemma WF_append_ring st (l : list tid) :
    WF st -> NoDup l -> (forall u, In u l -> th_state (getth st u) = READY /\ ~ In u (s_runq st)) ->
    WF (set_runq st (s_runq st ++ l)).
  Proof.
    intros W Hnd Hl.
    apply (WF_restate st);
      [exact W | intros; split; reflexivity | intros; reflexivity | reflexivity | reflexivity | reflexivity
       | reflexivity | apply W | | | ].
    - stsimpl. apply NoDup_app_disjoint; auto; [apply W|]. intros u Hu. apply Hl; auto.
    - intros u. stsimpl. change (getth (set_runq st (s_runq st ++ l)) u) with (getth st u).
      rewrite in_app_iff. intros [Hu|Hu]; [apply W; auto|].
      destruct (Hl _ Hu) as (-> & _). split; discriminate.
    - stsimpl. rewrite in_app_iff. left. apply W.
  Qed.

  Lemma resume_threads_spec st :
    WF st ->
    exists woken,
      let st' := fst (resume_threads st) in
      let now' := if hempty (s_sleepq st) then s_now st else s_clock st in
      snd (resume_threads st) = length woken /\
      WF st' /\ NoDup woken /\ s_runq st' = s_runq st ++ woken /\
      s_now st' = now' /\ s_clock st' = s_clock st /\ s_trace st' = s_trace st /\ nthreads st' = nthreads st /\
      s_user st' = s_user st /\ s_end st' = s_end st /\ s_stuck st' = s_stuck st /\
      (forall u, In u woken -> th_state (getth st u) = SLEEPING /\ th_ts (getth st u) <= now' /\
                               getth st' u = set_tstate (set_twaitq (getth st u) None) READY) /\
      (forall u, ~ In u woken -> getth st' u = getth st u) /\
      (forall u, th_state (getth st' u) = SLEEPING -> now' < th_ts (getth st' u)).
  Proof.
    intros W. unfold resume_threads. rewrite (wf_standby _ W). cbn [drain_standby].
    set (st1 := set_standby st []).
    assert (W1 : WF st1).
    { apply (WF_same st); auto. unfold same_sched, st1; repeat split; try reflexivity. stsimpl. symmetry. apply W. }
    change (s_sleepq st1) with (s_sleepq st).
    destruct (hempty (s_sleepq st)) eqn:He.
    - exists []. cbn [fst snd length]. rewrite !app_nil_r.
      assert (Hns : forall u, th_state (getth st u) <> SLEEPING).
      { intros u Hu. apply (wf_sleep _ W) in Hu. unfold hempty in He. destruct (hq (s_sleepq st)); [destruct Hu|discriminate]. }
      split; [reflexivity|]. split.
      { apply (WF_same st1); auto. unfold same_sched; repeat split; reflexivity. }
      split; [constructor|]. split; [reflexivity|].
      split; [reflexivity|]. split; [reflexivity|]. split; [reflexivity|]. split; [reflexivity|].
      split; [reflexivity|]. split; [reflexivity|]. split; [reflexivity|].
      split; [intros u []|]. split; [reflexivity|].
      intros u Hu. exfalso. eapply Hns; eauto.
    - set (st2 := update_now st1).
      assert (W2 : WF st2) by (apply WF_update_now; auto).
      destruct (resume_expired_spec (length (hq (s_sleepq st2))) st2 [] W2 (le_n _)) as (wk & Hacc & W3 & Hnd & R3 & Hw & Ho & Hd & Fr).
      destruct (resume_expired (length (hq (s_sleepq st2))) st2 []) as (st3, woken) eqn:Er.
      cbn [fst snd] in *. simpl in Hacc. subst woken.
      exists wk. cbn [app]. split; [reflexivity|].
      assert (Hwk : forall u, In u wk -> th_state (getth st3 u) = READY /\ ~ In u (s_runq st3)).
      { intros u Hu. destruct (Hw _ Hu) as (X1 & X2 & X3). split.
        - rewrite X3. reflexivity.
        - rewrite R3. apply sleeping_not_in_ring; auto. }
      split; [apply WF_append_ring; auto|]. split; [exact Hnd|].
      split; [stsimpl; rewrite R3; reflexivity|].
      split; [exact (fr_now _ _ Fr)|]. split; [exact (fr_clock _ _ Fr)|]. split; [exact (fr_trace _ _ Fr)|].
      split; [exact (fr_n _ _ Fr)|]. split; [exact (fr_user _ _ Fr)|]. split; [exact (fr_end _ _ Fr)|].
      split; [exact (fr_stuck _ _ Fr)|].
      split; [|split].
      + intros u Hu. destruct (Hw _ Hu) as (X1 & X2 & X3). auto.
      + intros u Hu. apply (Ho u Hu).
      + intros u Hu. apply (Hd u Hu).
  Qed.

  (* ---- the idler's round ------------------------------------------------------------------------ *)
  Lemma WF_set_clock st x : WF st -> s_now st <= x -> WF (set_clock st x).
  Proof.
    intros W Hx.
    apply (WF_restate st);
      [exact W | intros; split; reflexivity | intros; reflexivity | reflexivity | reflexivity | reflexivity
       | reflexivity | exact Hx | apply W | apply W | apply W].
  Qed.

  Lemma WF_idler_round st : WF st -> WF (idler_round st).
  Proof.
    intros W. unfold idler_round.
    destruct (resume_threads_spec st W) as (wk & Hn & W1 & _ & R1 & N1 & C1 & _).
    destruct (resume_threads st) as (st1, count). cbn [fst snd] in *.
    destruct (negb (Nat.eqb count 0) || negb (match s_runq st1 with [_] => true | _ => false end)) eqn:E.
    - (* yield *)
      destruct (s_runq st1) as [|a [|b r]] eqn:Er.
      + exfalso. pose proof (wf_idler _ W1) as X. rewrite Er in X. destruct X.
      + (* single: then count <> 0, i.e. wk <> [], but runq st1 = runq st ++ wk has >= 2 elements *)
        exfalso. rewrite orb_false_r in E. apply negb_true_iff, Nat.eqb_neq in E.
        pose proof (wf_idler _ W) as X. destruct (s_runq st) as [|x r']; [destruct X|].
        destruct wk as [|y wk']; [simpl in Hn; congruence|].
        simpl in R1. destruct r'; simpl in R1; [discriminate|discriminate].
      + eapply WF_do_yield; eauto.
    - destruct (front (s_sleepq st1)) as [t|].
      + destruct (th_ts (getth st1 t) =? MAX64); [apply (WF_same st1); auto; apply same_sched_set_end|].
        apply WF_set_clock; auto.
        pose proof (wf_clock _ W1). assert (0 <= Z.min IDLE_CAP (sat_sub (th_ts (getth st1 t)) (s_now st1))).
        { unfold sat_sub, IDLE_CAP. destruct (_ <? _) eqn:X; [lia|]. apply Z.ltb_ge in X. lia. }
        lia.
      + apply (WF_same st1); auto; apply same_sched_set_end.
  Qed.

End INV.

Arguments WF {U}. Arguments same_sched {U}.
