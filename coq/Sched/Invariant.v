(* Sched/Invariant.v — the structural invariant WF of the cooperative scheduler model and its
   preservation by every scheduler operation of Sched/Core.v (any user state U).
   Shared: primitives' proofs compose these lemmas. *)
From Coq Require Import ZArith List Bool Arith Lia Permutation.
From PV Require Import Base.U64 C04.C04_Heap C04.C04_HeapProofs Sched.Core Sched.Lemmas.
Import ListNotations.
Local Open Scope Z_scope.

Ltac thsimpl :=
  cbn [th_state th_err th_waitq th_ts th_joinable th_shutdown th_retval th_pc th_k th_issued
       th_shut_issue th_esrc th_join_claimed th_joined
       set_tstate set_terr set_twaitq set_tts set_tshutdown set_tretval set_tk set_tpc set_tissued
       set_tshut_issue set_tesrc set_tjoin_claimed set_tjoined] in *.
Ltac stsimpl :=
  cbn [s_clock s_now s_runq s_sleepq s_standby s_threads s_waitqs s_user s_trace s_end s_stuck
       set_clock set_now set_runq set_sleepq set_standby set_threads set_waitqs set_user set_trace
       set_end set_stuck] in *.

Section INV.
  Variable U : Type.
  Implicit Types st : state U.

  (* a member of the run-queue ring is neither asleep nor non-existent *)
  Definition ring_ok (s : tstate) : Prop := s <> SLEEPING /\ s <> NOTCREATED.

  Record WF st : Prop := mkWF {
    wf_nodup : NoDup (s_runq st);
    wf_runq : forall t, In t (s_runq st) -> ring_ok (th_state (getth st t));
    wf_idler : In (idler_tid st) (s_runq st);
    wf_heap : Inv (ts_of st) (s_sleepq st);
    wf_sleep : forall t, In t (hq (s_sleepq st)) <-> th_state (getth st t) = SLEEPING;
    wf_standby : s_standby st = [];
    wf_wq_in : forall q t, In t (wq_get st q) -> th_state (getth st t) = SLEEPING /\ th_waitq (getth st t) = Some q;
    wf_wq_of : forall t q, th_waitq (getth st t) = Some q -> In t (wq_get st q);
    wf_wq_nodup : forall q, NoDup (wq_get st q);
    wf_clock : s_now st <= s_clock st
  }.

  (* the components WF talks about *)
  Definition same_sched st st' : Prop :=
    s_runq st' = s_runq st /\ s_sleepq st' = s_sleepq st /\ s_standby st' = s_standby st /\
    s_waitqs st' = s_waitqs st /\ s_now st' = s_now st /\ s_clock st' = s_clock st /\
    nthreads st' = nthreads st /\
    (forall t, th_state (getth st' t) = th_state (getth st t) /\
               th_ts (getth st' t) = th_ts (getth st t) /\
               th_waitq (getth st' t) = th_waitq (getth st t)).

  Lemma idler_tid_nthreads st st' : nthreads st' = nthreads st -> idler_tid st' = idler_tid st.
  Proof. unfold idler_tid, nthreads. intros ->. reflexivity. Qed.

  Lemma WF_same st st' : same_sched st st' -> WF st -> WF st'.
  Proof.
    intros (Hr & Hs & Hb & Hw & Hn & Hc & Hl & Ht) W.
    assert (Hwq : forall q, wq_get st' q = wq_get st q) by (intros; unfold wq_get; rewrite Hw; auto).
    constructor.
    - rewrite Hr. apply W.
    - intros t. rewrite Hr. destruct (Ht t) as (-> & _). apply W.
    - rewrite Hr, (idler_tid_nthreads _ _ Hl). apply W.
    - rewrite Hs. eapply Inv_ts_ext; [apply W|]. intros t _. unfold ts_of. apply Ht.
    - intros t. rewrite Hs. destruct (Ht t) as (-> & _). apply W.
    - rewrite Hb. apply W.
    - intros q t. rewrite Hwq. destruct (Ht t) as (-> & _ & ->). apply W.
    - intros t q. rewrite Hwq. destruct (Ht t) as (_ & _ & ->). apply W.
    - intros q. rewrite Hwq. apply W.
    - rewrite Hn, Hc. apply W.
  Qed.

  (* modth with a function that preserves state/ts/waitq is invisible to WF *)
  Definition sched_neutral (f : thread -> thread) : Prop :=
    forall th, th_state (f th) = th_state th /\ th_ts (f th) = th_ts th /\ th_waitq (f th) = th_waitq th.

  Lemma same_sched_modth st t f : sched_neutral f -> same_sched st (modth st t f).
  Proof.
    intros Hf. unfold same_sched. repeat split; try reflexivity.
    - apply nthreads_modth.
    - apply (getth_modth_proj U th_state). intros; apply Hf.
    - apply (getth_modth_proj U th_ts). intros; apply Hf.
    - apply (getth_modth_proj U th_waitq). intros; apply Hf.
  Qed.

  Lemma WF_modth_neutral st t f : sched_neutral f -> WF st -> WF (modth st t f).
  Proof. intros Hf. apply WF_same, same_sched_modth, Hf. Qed.

  Lemma same_sched_refl st : same_sched st st.
  Proof. unfold same_sched; repeat split; reflexivity. Qed.
  Lemma same_sched_trans a b c : same_sched a b -> same_sched b c -> same_sched a c.
  Proof.
    unfold same_sched. intros (A1&A2&A3&A4&A5&A6&A7&A8) (B1&B2&B3&B4&B5&B6&B7&B8).
    split; [congruence|]. split; [congruence|]. split; [congruence|]. split; [congruence|].
    split; [congruence|]. split; [congruence|]. split; [congruence|].
    intros t. destruct (A8 t) as (X&Y&Z); destruct (B8 t) as (X'&Y'&Z'). repeat split; congruence.
  Qed.

  Lemma same_sched_set_trace st x : same_sched st (set_trace st x).
  Proof. unfold same_sched; repeat split; reflexivity. Qed.
  Lemma same_sched_set_user st x : same_sched st (set_user st x).
  Proof. unfold same_sched; repeat split; reflexivity. Qed.
  Lemma same_sched_set_stuck st : same_sched st (set_stuck st).
  Proof. unfold same_sched; repeat split; reflexivity. Qed.
  Lemma same_sched_set_end st : same_sched st (set_end st).
  Proof. unfold same_sched; repeat split; reflexivity. Qed.

  (* ---- basic consequences ------------------------------------------------------------------ *)
  Lemma sleeping_in_range st t : th_state (getth st t) = SLEEPING -> (t < nthreads st)%nat.
  Proof.
    intros H. destruct (Nat.ltb_spec t (nthreads st)); auto.
    rewrite getth_out in H by auto. discriminate.
  Qed.
  Lemma ring_in_range st t : WF st -> In t (s_runq st) -> (t < nthreads st)%nat.
  Proof.
    intros W H. destruct (Nat.ltb_spec t (nthreads st)); auto.
    apply (wf_runq _ W) in H. rewrite getth_out in H by auto. destruct H as (_ & H). congruence.
  Qed.
  Lemma sleeping_not_in_ring st t : WF st -> th_state (getth st t) = SLEEPING -> ~ In t (s_runq st).
  Proof. intros W H Hin. apply (wf_runq _ W) in Hin. destruct Hin; congruence. Qed.
  Lemma ring_not_in_heap st t : WF st -> In t (s_runq st) -> ~ In t (hq (s_sleepq st)).
  Proof. intros W H Hin. apply (wf_sleep _ W) in Hin. apply (wf_runq _ W) in H. destruct H; congruence. Qed.
  Lemma not_sleeping_no_queue st t q : WF st -> th_state (getth st t) <> SLEEPING -> ~ In t (wq_get st q).
  Proof. intros W H Hin. apply (wf_wq_in _ W) in Hin. destruct Hin; congruence. Qed.

  Lemma perm_nodup_in (l l' : list tid) t :
    NoDup l -> Permutation l (t :: l') -> (forall u, In u l' <-> In u l /\ u <> t) /\ NoDup l'.
  Proof.
    intros Hnd Hp.
    assert (Hnd' : NoDup (t :: l')) by (eapply Permutation_NoDup; eauto).
    inversion Hnd' as [|? ? Hnt Hl']; subst. split; auto.
    intros u. split.
    - intros Hu. split.
      + eapply Permutation_in; [apply Permutation_sym; eauto|]. right; auto.
      + intros ->. auto.
    - intros (Hu & Hne). eapply Permutation_in in Hu; [|eauto]. destruct Hu; congruence.
  Qed.

  (* ---- dequeue_ready / prelocked_interrupt -------------------------------------------------- *)
  Lemma getth_dequeue_ready st t ns u :
    getth (dequeue_ready st t ns) u =
    if Nat.eqb u t && Nat.ltb t (nthreads st)
    then set_tstate (set_twaitq (getth st t) None) ns else getth st u.
  Proof.
    unfold dequeue_ready.
    destruct (th_waitq (getth st t)) as [q|] eqn:Eq.
    - rewrite getth_modth, nthreads_modth. unfold wq_set at 1.
      destruct (Nat.eqb_spec u t) as [->|Hne]; simpl.
      + destruct (Nat.ltb_spec t (nthreads (set_waitqs st (wq_update (s_waitqs st) q (remove_tid t (wq_get st q)))))) as [Hl|Hl];
          change (nthreads (set_waitqs st (wq_update (s_waitqs st) q (remove_tid t (wq_get st q))))) with (nthreads st) in Hl.
        * destruct (Nat.ltb_spec t (nthreads st)); [|lia].
          rewrite getth_modth_same by exact Hl. reflexivity.
        * destruct (Nat.ltb_spec t (nthreads st)); [lia|].
          rewrite getth_modth, Nat.eqb_refl. simpl.
          destruct (Nat.ltb_spec t (nthreads (wq_set st q (remove_tid t (wq_get st q))))) as [Hl2|]; auto.
          exfalso. change (nthreads (wq_set st q (remove_tid t (wq_get st q)))) with (nthreads st) in Hl2. lia.
      + rewrite getth_modth_other by auto. reflexivity.
    - rewrite getth_modth.
      destruct (Nat.eqb_spec u t) as [->|Hne]; simpl; auto.
      destruct (Nat.ltb t (nthreads st)); auto.
      destruct (getth st t); simpl in *. subst. reflexivity.
  Qed.

  Lemma wq_get_dequeue_ready st t ns q :
    wq_get (dequeue_ready st t ns) q =
    if (match th_waitq (getth st t) with Some q0 => qid_eqb q0 q | None => false end)
    then remove_tid t (wq_get st q) else wq_get st q.
  Proof.
    unfold dequeue_ready. destruct (th_waitq (getth st t)) as [q0|] eqn:Eq.
    - change (wq_get (modth (modth (wq_set st q0 (remove_tid t (wq_get st q0))) t (fun th => set_twaitq th None)) t
                            (fun th => set_tstate th ns)) q)
        with (wq_get (wq_set st q0 (remove_tid t (wq_get st q0))) q).
      destruct (qid_eqb_spec q0 q) as [->|Hne].
      + apply wq_get_set_same.
      + apply wq_get_set_other; auto.
    - reflexivity.
  Qed.

  Lemma dequeue_ready_frame st t ns :
    s_runq (dequeue_ready st t ns) = s_runq st /\ s_sleepq (dequeue_ready st t ns) = s_sleepq st /\
    s_standby (dequeue_ready st t ns) = s_standby st /\ s_now (dequeue_ready st t ns) = s_now st /\
    s_clock (dequeue_ready st t ns) = s_clock st /\ nthreads (dequeue_ready st t ns) = nthreads st /\
    s_trace (dequeue_ready st t ns) = s_trace st /\ s_user (dequeue_ready st t ns) = s_user st /\
    s_end (dequeue_ready st t ns) = s_end st /\ s_stuck (dequeue_ready st t ns) = s_stuck st.
  Proof.
    unfold dequeue_ready. destruct (th_waitq (getth st t)); repeat split; try reflexivity;
    rewrite ?nthreads_modth; reflexivity.
  Qed.

  (* the wake-up of a SLEEPING thread: WF is preserved *)
  Lemma WF_prelocked_interrupt st t e :
    WF st -> th_state (getth st t) = SLEEPING -> WF (prelocked_interrupt st t e).
  Proof.
    intros W Hs.
    pose proof (sleeping_in_range _ _ Hs) as Hr.
    unfold prelocked_interrupt.
    set (st1 := modth st t (fun th => set_tesrc (set_terr th e) (length (s_trace st)))).
    assert (W1 : WF st1).
    { apply WF_modth_neutral; auto. intros th; repeat split; reflexivity. }
    assert (Hs1 : th_state (getth st1 t) = SLEEPING).
    { unfold st1. rewrite getth_modth_same by auto. exact Hs. }
    assert (Hr1 : (t < nthreads st1)%nat) by (unfold st1; rewrite nthreads_modth; auto).
    clearbody st1. clear W Hs Hr st. rename st1 into st, W1 into W, Hs1 into Hs, Hr1 into Hr.
    set (st2 := dequeue_ready st t READY).
    destruct (dequeue_ready_frame st t READY) as (F1&F2&F3&F4&F5&F6&F7&F8&F9&F10). fold st2 in F1,F2,F3,F4,F5,F6,F7,F8,F9,F10.
    assert (G : forall u, getth st2 u = if Nat.eqb u t then set_tstate (set_twaitq (getth st t) None) READY else getth st u).
    { intros u. unfold st2. rewrite getth_dequeue_ready.
      destruct (Nat.eqb u t); simpl; auto. destruct (Nat.ltb_spec t (nthreads st)); auto; lia. }
    assert (Hts : forall u, ts_of st2 u = ts_of st u).
    { intros u. unfold ts_of. rewrite G. destruct (Nat.eqb_spec u t) as [->|]; auto. }
    assert (Hin : In t (hq (s_sleepq st))) by (apply (wf_sleep _ W); auto).
    assert (HI2 : Inv (ts_of st2) (s_sleepq st2)).
    { rewrite F2. eapply Inv_ts_ext; [apply W|]. intros; apply Hts. }
    destruct (pop_correct (ts_of st2) (s_sleepq st2) t HI2) as (h' & Hpop & HI' & Hperm & Hidx).
    { rewrite F2; auto. }
    rewrite Hpop. cbn [fst].
    destruct (perm_nodup_in _ _ _ ltac:(destruct HI2 as (_&_&_&_&X); exact X) Hperm) as (Hmem & _).
    rewrite F2 in Hmem.
    constructor; stsimpl.
    - rewrite F1. apply NoDup_app_single; [apply W|]. apply sleeping_not_in_ring; auto.
    - intros u. rewrite F1, in_app_iff. change (getth (set_runq (set_sleepq st2 h') (s_runq st ++ [t])) u) with (getth st2 u).
      rewrite G. intros [Hu|[<-|[]]].
      + destruct (Nat.eqb_spec u t) as [->|]; [exfalso; eapply sleeping_not_in_ring; eauto|]. apply W; auto.
      + rewrite Nat.eqb_refl. thsimpl. split; discriminate.
    - rewrite F1, in_app_iff. left.
      change (idler_tid (set_runq (set_sleepq st2 h') (s_runq st ++ [t]))) with (idler_tid st2).
      rewrite (idler_tid_nthreads _ _ F6). apply W.
    - eapply Inv_ts_ext; [exact HI'|]. intros; reflexivity.
    - intros u. change (getth (set_runq (set_sleepq st2 h') (s_runq st ++ [t])) u) with (getth st2 u).
      rewrite Hmem, G, (wf_sleep _ W).
      destruct (Nat.eqb_spec u t) as [->|Hne]; thsimpl.
      + split; [intros (_&X); congruence|discriminate].
      + tauto.
    - rewrite F3. apply W.
    - intros q u.
      change (wq_get (set_runq (set_sleepq st2 h') (s_runq st ++ [t])) q) with (wq_get st2 q).
      change (getth (set_runq (set_sleepq st2 h') (s_runq st ++ [t])) u) with (getth st2 u).
      unfold st2. rewrite wq_get_dequeue_ready. fold st2. rewrite G.
      destruct (th_waitq (getth st t)) as [q0|] eqn:Eq.
      + destruct (qid_eqb_spec q0 q) as [->|Hne].
        * rewrite In_remove_tid by apply W. intros (Hu & Hne).
          destruct (Nat.eqb_spec u t); [congruence|]. apply W; auto.
        * intros Hu. destruct (Nat.eqb_spec u t) as [->|]; [|apply W; auto].
          apply (wf_wq_in _ W) in Hu. destruct Hu as (_ & Hu). congruence.
      + intros Hu. destruct (Nat.eqb_spec u t) as [->|]; [|apply W; auto].
        apply (wf_wq_in _ W) in Hu. destruct Hu as (_ & Hu). congruence.
    - intros u q.
      change (wq_get (set_runq (set_sleepq st2 h') (s_runq st ++ [t])) q) with (wq_get st2 q).
      change (getth (set_runq (set_sleepq st2 h') (s_runq st ++ [t])) u) with (getth st2 u).
      unfold st2. rewrite wq_get_dequeue_ready. fold st2. rewrite G.
      destruct (Nat.eqb_spec u t) as [->|Hne]; thsimpl; [discriminate|].
      intros Hq. pose proof (wf_wq_of _ W _ _ Hq) as Hu.
      destruct (th_waitq (getth st t)) as [q0|]; auto.
      destruct (qid_eqb_spec q0 q) as [->|]; auto.
      rewrite In_remove_tid by apply W. auto.
    - intros q.
      change (wq_get (set_runq (set_sleepq st2 h') (s_runq st ++ [t])) q) with (wq_get st2 q).
      unfold st2. rewrite wq_get_dequeue_ready.
      destruct (th_waitq (getth st t)) as [q0|]; [|apply W].
      destruct (qid_eqb q0 q); [apply NoDup_remove_tid|]; apply W.
    - rewrite F4, F5. apply W.
  Qed.

  Lemma WF_thread_interrupt st t e : WF st -> WF (thread_interrupt st t e).
  Proof.
    intros W. unfold thread_interrupt.
    destruct (th_state (getth st t)) eqn:Es; auto.
    - destruct (th_err (getth st t) =? 0); auto.
      apply WF_modth_neutral; auto. intros th; repeat split; reflexivity.
    - apply WF_prelocked_interrupt; auto.
  Qed.

  Lemma WF_thread_shutdown st t flag : WF st -> WF (thread_shutdown st t flag).
  Proof.
    intros W. unfold thread_shutdown.
    assert (W1 : WF (modth st t (fun th => set_tshutdown th flag))).
    { apply WF_modth_neutral; auto. intros th; repeat split; reflexivity. }
    destruct (tstate_eqb _ SLEEPING); auto. apply WF_thread_interrupt; auto.
  Qed.

  Lemma WF_waitq_resume_one st q e : WF st -> WF (fst (waitq_resume_one st q e)).
  Proof.
    intros W. unfold waitq_resume_one. destruct (wq_get st q) as [|h r] eqn:Eq; simpl; auto.
    apply WF_prelocked_interrupt; auto.
    apply (wf_wq_in _ W q h). rewrite Eq. left; auto.
  Qed.

  Lemma WF_set_error_number st t : WF st -> WF (fst (fst (set_error_number st t))).
  Proof.
    intros W. unfold set_error_number. destruct (th_err (getth st t) =? 0); simpl; auto.
    apply WF_modth_neutral; auto. intros th; repeat split; reflexivity.
  Qed.

  (* ---- create ---------------------------------------------------------------------------- *)
  Lemma WF_do_create st k j :
    WF st -> (k < nthreads st)%nat -> th_state (getth st k) = NOTCREATED -> WF (do_create st k j).
  Proof.
    intros W Hk Hs. unfold do_create.
    set (th := mkThread READY 0 None 0 j false 0 0 [] 0 false 0 false false).
    assert (G : forall u, getth (set_runq (setth st k th) (s_runq st ++ [k])) u = if Nat.eqb u k then th else getth st u).
    { intros u. change (getth (set_runq (setth st k th) (s_runq st ++ [k])) u) with (getth (setth st k th) u).
      destruct (Nat.eqb_spec u k) as [->|]; [apply getth_setth_same; auto|apply getth_setth_other; auto]. }
    assert (Hnr : ~ In k (s_runq st)).
    { intros Hin. apply (wf_runq _ W) in Hin. destruct Hin; congruence. }
    assert (Hnh : ~ In k (hq (s_sleepq st))).
    { intros Hin. apply (wf_sleep _ W) in Hin. congruence. }
    constructor; stsimpl.
    - apply NoDup_app_single; auto. apply W.
    - intros u. rewrite in_app_iff, G. intros [Hu|[<-|[]]].
      + destruct (Nat.eqb_spec u k) as [->|]; [tauto|]. apply W; auto.
      + rewrite Nat.eqb_refl. split; discriminate.
    - rewrite in_app_iff. left.
      change (idler_tid (set_runq (setth st k th) (s_runq st ++ [k]))) with (idler_tid (setth st k th)).
      rewrite (idler_tid_nthreads (setth st k th) st (nthreads_setth _ _ _ _)). apply W.
    - eapply Inv_ts_ext; [apply W|]. intros u Hu. unfold ts_of. rewrite G.
      destruct (Nat.eqb_spec u k) as [->|]; tauto.
    - intros u. rewrite G. destruct (Nat.eqb_spec u k) as [->|]; [|apply W].
      split; [tauto|discriminate].
    - apply W.
    - intros q u Hu. change (wq_get (set_runq (setth st k th) (s_runq st ++ [k])) q) with (wq_get st q) in Hu.
      rewrite G. destruct (Nat.eqb_spec u k) as [->|]; [|apply W; auto].
      apply (wf_wq_in _ W) in Hu. destruct Hu; congruence.
    - intros u q. change (wq_get (set_runq (setth st k th) (s_runq st ++ [k])) q) with (wq_get st q).
      rewrite G. destruct (Nat.eqb_spec u k) as [->|]; [discriminate|apply W].
    - intros q. apply W.
    - apply W.
  Qed.

End INV.

Arguments WF {U}. Arguments same_sched {U}. Arguments ring_ok.
