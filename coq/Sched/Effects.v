(* Sched/Effects.v — what each scheduler operation of Core.v does to every thread record and to
   the other state components (any U).  Used by the per-property invariants. *)
From Coq Require Import ZArith List Bool Arith Lia Permutation.
From PV Require Import Base.U64 C04.C04_Heap C04.C04_HeapProofs Sched.Core Sched.Lemmas Sched.Invariant.
Import ListNotations.
Local Open Scope Z_scope.

Section EFF.
  Variable U : Type.
  Implicit Types st : state U.

  (* ---- prelocked_interrupt / thread_interrupt / thread_shutdown ------------------------------- *)
  Lemma getth_prelocked_interrupt st t e u :
    (t < nthreads st)%nat ->
    getth (prelocked_interrupt st t e) u =
    if Nat.eqb u t
    then set_tstate (set_twaitq (set_tesrc (set_terr (getth st t) e) (length (s_trace st))) None) READY
    else getth st u.
  Proof.
    intros Hr. unfold prelocked_interrupt. cbv zeta.
    change (getth (set_runq ?a ?b) u) with (getth a u). change (getth (set_sleepq ?a ?b) u) with (getth a u).
    rewrite getth_dequeue_ready, nthreads_modth.
    destruct (Nat.eqb_spec u t) as [->|Hne]; simpl.
    - destruct (Nat.ltb_spec t (nthreads st)); [|lia]. rewrite getth_modth_same by auto. reflexivity.
    - rewrite getth_modth_other by auto. reflexivity.
  Qed.

  Definition interrupted (th : thread) (e : Z) (src : nat) : thread :=
    match th_state th with
    | SLEEPING => set_tstate (set_twaitq (set_tesrc (set_terr th e) src) None) READY
    | READY => if th_err th =? 0 then set_tesrc (set_terr th e) src else th
    | _ => th
    end.

  Lemma getth_thread_interrupt st t e u :
    getth (thread_interrupt st t e) u =
    if Nat.eqb u t then interrupted (getth st t) e (length (s_trace st)) else getth st u.
  Proof.
    unfold thread_interrupt, interrupted.
    destruct (th_state (getth st t)) eqn:Es.
    - destruct (Nat.eqb_spec u t) as [->|]; reflexivity.
    - destruct (th_err (getth st t) =? 0).
      + rewrite getth_modth. destruct (Nat.eqb_spec u t) as [->|]; simpl; auto.
        destruct (Nat.ltb_spec t (nthreads st)); auto.
        rewrite getth_out in Es by auto. discriminate.
      + destruct (Nat.eqb_spec u t) as [->|]; reflexivity.
    - destruct (Nat.eqb_spec u t) as [->|]; reflexivity.
    - apply getth_prelocked_interrupt. apply sleeping_in_range; auto.
    - destruct (Nat.eqb_spec u t) as [->|]; reflexivity.
    - destruct (Nat.eqb_spec u t) as [->|]; reflexivity.
  Qed.

  Lemma thread_interrupt_frame st t e :
    let st' := thread_interrupt st t e in
    s_runq st' = (if tstate_eqb (th_state (getth st t)) SLEEPING then s_runq st ++ [t] else s_runq st) /\
    nthreads st' = nthreads st /\ s_now st' = s_now st /\ s_clock st' = s_clock st /\ s_trace st' = s_trace st /\
    s_end st' = s_end st /\ s_stuck st' = s_stuck st /\ s_user st' = s_user st.
  Proof.
    unfold thread_interrupt. destruct (th_state (getth st t)) eqn:Es; cbn [tstate_eqb];
      try (repeat split; reflexivity).
    - destruct (th_err (getth st t) =? 0); repeat split; try reflexivity. apply nthreads_modth.
    - destruct (prelocked_interrupt_frame _ st t e) as (A&B&C&D&E&F&G&H&I). repeat split; assumption.
  Qed.

  Lemma getth_thread_shutdown st t flag u :
    getth (thread_shutdown st t flag) u =
    if Nat.eqb u t && Nat.ltb t (nthreads st)
    then (let th := set_tshutdown (getth st t) flag in
          if tstate_eqb (th_state th) SLEEPING then interrupted th EPERM (length (s_trace st)) else th)
    else getth st u.
  Proof.
    unfold thread_shutdown.
    set (st1 := modth st t (fun th => set_tshutdown th flag)).
    assert (G1 : forall v, getth st1 v = if Nat.eqb v t && Nat.ltb t (nthreads st) then set_tshutdown (getth st t) flag else getth st v)
      by (intros; apply getth_modth).
    destruct (Nat.ltb_spec t (nthreads st)) as [Hr|Hr].
    - rewrite andb_true_r in *.
      destruct (tstate_eqb (th_state (getth st1 t)) SLEEPING) eqn:Es.
      + rewrite getth_thread_interrupt. change (s_trace st1) with (s_trace st).
        rewrite (G1 t), Nat.eqb_refl in Es. simpl in Es. rewrite (G1 t), Nat.eqb_refl. cbv zeta. thsimpl. rewrite Es.
        destruct (Nat.eqb_spec u t) as [->|]; auto. rewrite G1. destruct (Nat.eqb_spec u t); [congruence|]. reflexivity.
      + rewrite G1. rewrite (G1 t), Nat.eqb_refl in Es. simpl in Es. cbv zeta. thsimpl. rewrite Es.
        destruct (Nat.eqb_spec u t); reflexivity.
    - rewrite andb_false_r in *.
      assert (E0 : getth st1 t = thread0) by (rewrite G1, andb_false_r; apply getth_out; auto).
      rewrite E0. simpl. rewrite G1, andb_false_r. reflexivity.
  Qed.

  Lemma thread_shutdown_frame st t flag :
    let st' := thread_shutdown st t flag in
    s_runq st' = (if tstate_eqb (th_state (getth st t)) SLEEPING then s_runq st ++ [t] else s_runq st) /\
    nthreads st' = nthreads st /\ s_now st' = s_now st /\ s_clock st' = s_clock st /\ s_trace st' = s_trace st /\
    s_end st' = s_end st /\ s_stuck st' = s_stuck st /\ s_user st' = s_user st.
  Proof.
    unfold thread_shutdown. cbv zeta.
    set (st1 := modth st t (fun th => set_tshutdown th flag)).
    assert (Es : th_state (getth st1 t) = th_state (getth st t)).
    { unfold st1. apply (getth_modth_proj U th_state). reflexivity. }
    rewrite Es.
    destruct (tstate_eqb (th_state (getth st t)) SLEEPING) eqn:E.
    - destruct (thread_interrupt_frame st1 t EPERM) as (A&B&C&D&F&G&H&I). rewrite Es, E in A.
      repeat split; try assumption. rewrite B. apply nthreads_modth.
    - repeat split; try reflexivity. apply nthreads_modth.
  Qed.

  (* ---- set_error_number ------------------------------------------------------------------------ *)
  Lemma set_error_number_spec st t :
    let '(st', r, e) := set_error_number st t in
    (forall u, getth st' u = if Nat.eqb u t && Nat.ltb t (nthreads st) then set_terr (getth st t) 0 else getth st u) /\
    (if th_err (getth st t) =? 0 then r = 0 /\ e = 0 else r = -1 /\ e = th_err (getth st t)) /\
    same_sched st st' /\ s_trace st' = s_trace st /\ s_end st' = s_end st /\ s_stuck st' = s_stuck st /\ s_user st' = s_user st.
  Proof.
    unfold set_error_number. destruct (th_err (getth st t) =? 0) eqn:E.
    - split; [|split; [auto|split; [apply same_sched_refl|repeat split]]].
      intros u. destruct (Nat.eqb_spec u t) as [->|]; simpl; auto.
      destruct (Nat.ltb t (nthreads st)); auto.
      apply Z.eqb_eq in E. destruct (getth st t); simpl in *; subst; reflexivity.
    - split; [intros; apply getth_modth|]. split; [auto|].
      split; [apply same_sched_modth; intros th; repeat split; reflexivity|repeat split].
  Qed.

  (* ---- create ---------------------------------------------------------------------------------- *)
  Lemma getth_do_create st k j u :
    (k < nthreads st)%nat ->
    getth (do_create st k j) u =
    if Nat.eqb u k then mkThread READY 0 None 0 j false 0 0 [] 0 false 0 false false else getth st u.
  Proof.
    intros Hk. unfold do_create. cbv zeta. change (getth (set_runq ?a ?b) u) with (getth a u).
    destruct (Nat.eqb_spec u k) as [->|]; [apply getth_setth_same; auto|apply getth_setth_other; auto].
  Qed.

  (* ---- die --------------------------------------------------------------------------------------- *)
  Lemma do_die_spec st t rv to rest :
    WF st -> s_runq st = t :: to :: rest -> t <> idler_tid st ->
    let st' := do_die st t rv in
    let h := match wq_get st (QJoin t) with [] => None | x :: _ => Some x end in
    (forall u, getth st' u =
       if Nat.eqb u t then set_tretval (set_tstate (getth st t) DONE) rv
       else let th := (match h with
                       | Some x => if Nat.eqb u x then set_tstate (set_twaitq (set_tesrc (set_terr (getth st x) (-1)) (length (s_trace st))) None) READY
                                   else getth st u
                       | None => getth st u end) in
            if Nat.eqb u to then set_tstate th RUNNING else th) /\
    s_runq st' = (to :: rest) ++ (match h with Some x => [x] | None => [] end) /\
    nthreads st' = nthreads st /\ s_now st' = s_now st /\ s_clock st' = s_clock st /\ s_trace st' = s_trace st /\
    s_end st' = s_end st /\ s_stuck st' = s_stuck st /\ s_user st' = s_user st /\
    (forall x, h = Some x -> th_state (getth st x) = SLEEPING /\ th_waitq (getth st x) = Some (QJoin t) /\ x <> t /\ x <> to).
  Proof.
    intros W Hr Hid. cbv zeta. unfold do_die.
    pose proof (wf_nodup _ _ W) as Hnd. rewrite Hr in Hnd.
    assert (Hne : t <> to) by (inversion Hnd as [|? ? Hx _]; subst; intros ->; apply Hx; left; auto).
    assert (Ht : (t < nthreads st)%nat) by (apply (ring_in_range U); auto; rewrite Hr; simpl; auto).
    assert (Hto : (to < nthreads st)%nat) by (apply (ring_in_range U); auto; rewrite Hr; simpl; auto).
    set (st1 := modth st t (fun th => set_tretval (set_tstate th DONE) rv)).
    assert (G1 : forall u, getth st1 u = if Nat.eqb u t then set_tretval (set_tstate (getth st t) DONE) rv else getth st u).
    { intros u. unfold st1. rewrite getth_modth. destruct (Nat.eqb u t); simpl; auto.
      destruct (Nat.ltb_spec t (nthreads st)); auto; lia. }
    assert (N1 : nthreads st1 = nthreads st) by apply nthreads_modth.
    assert (Q1 : wq_get st1 (QJoin t) = wq_get st (QJoin t)) by reflexivity.
    unfold waitq_resume_one. rewrite Q1.
    destruct (wq_get st (QJoin t)) as [|x r] eqn:Eq; cbn [fst].
    - (* nobody joins *)
      assert (Hr1 : s_runq st1 = t :: to :: rest) by exact Hr.
      pose proof (fun u => getth_remove_current U st1 t to rest DONE u Hr1 Hne ltac:(lia) ltac:(lia)) as G2.
      destruct (remove_current_frame U st1 t to rest DONE Hr1) as (R&F2&F3&F4&F5&F6&F7&F8).
      split; [|split; [rewrite app_nil_r; exact R|]].
      + assert (B3 : Nat.eqb to t = false) by (apply Nat.eqb_neq; auto).
        assert (B4 : Nat.eqb t to = false) by (apply Nat.eqb_neq; auto).
        intros u. rewrite G2, !G1, ?Nat.eqb_refl, ?B3, ?B4.
        destruct (Nat.eqb_spec u t) as [->|]; [rewrite ?B4; reflexivity|].
        destruct (Nat.eqb_spec u to) as [->|]; [rewrite ?B3|]; reflexivity.
      + assert (E1 : s_end (remove_current st1 DONE) = s_end st) by (unfold remove_current; rewrite Hr1; reflexivity).
        assert (E2 : s_stuck (remove_current st1 DONE) = s_stuck st) by (unfold remove_current; rewrite Hr1; reflexivity).
        assert (E3 : s_user (remove_current st1 DONE) = s_user st) by (unfold remove_current; rewrite Hr1; reflexivity).
        split; [congruence|]. split; [exact F5|]. split; [exact F6|]. split; [exact F8|].
        split; [exact E1|]. split; [exact E2|]. split; [exact E3|]. intros x0 Hx0; discriminate.
    - assert (Hx : th_state (getth st x) = SLEEPING /\ th_waitq (getth st x) = Some (QJoin t)).
      { apply (wf_wq_in _ _ W). rewrite Eq. left; auto. }
      destruct Hx as (Hxs & Hxw).
      assert (Hxr : (x < nthreads st)%nat) by (apply (sleeping_in_range U); auto).
      assert (Hxt : x <> t).
      { intros ->. apply (sleeping_not_in_ring U st t W Hxs). rewrite Hr. left; auto. }
      assert (Hxto : x <> to).
      { intros ->. apply (sleeping_not_in_ring U st to W Hxs). rewrite Hr. right; left; auto. }
      set (st2 := prelocked_interrupt st1 x (-1)).
      assert (G2 : forall u, getth st2 u = if Nat.eqb u x
                     then set_tstate (set_twaitq (set_tesrc (set_terr (getth st x) (-1)) (length (s_trace st))) None) READY
                     else getth st1 u).
      { intros u. unfold st2. rewrite getth_prelocked_interrupt by lia. change (s_trace st1) with (s_trace st).
        rewrite (G1 x). destruct (Nat.eqb_spec x t); [congruence|]. reflexivity. }
      destruct (prelocked_interrupt_frame U st1 x (-1)) as (R2&N2&A2&B2&C2&D2&E2&F2&H2). fold st2 in R2,N2,A2,B2,C2,D2,E2,F2,H2.
      assert (Hr2 : s_runq st2 = t :: to :: (rest ++ [x])) by (rewrite R2; change (s_runq st1) with (s_runq st); rewrite Hr; reflexivity).
      clearbody st2.
      pose proof (fun u => getth_remove_current U st2 t to (rest ++ [x]) DONE u Hr2 Hne ltac:(lia) ltac:(lia)) as G3.
      destruct (remove_current_frame U st2 t to (rest ++ [x]) DONE Hr2) as (R&F2'&F3&F4&F5&F6&F7&F8).
      split; [|split; [exact R|]].
      + assert (B1 : Nat.eqb t x = false) by (apply Nat.eqb_neq; auto).
        assert (B2' : Nat.eqb to x = false) by (apply Nat.eqb_neq; auto).
        assert (B3 : Nat.eqb to t = false) by (apply Nat.eqb_neq; auto).
        assert (B4 : Nat.eqb t to = false) by (apply Nat.eqb_neq; auto).
        assert (B5 : Nat.eqb x t = false) by (apply Nat.eqb_neq; auto).
        assert (B6 : Nat.eqb x to = false) by (apply Nat.eqb_neq; auto).
        intros u. rewrite G3, !G2, !G1, ?Nat.eqb_refl, ?B1, ?B2', ?B3, ?B4, ?B5, ?B6.
        destruct (Nat.eqb_spec u t) as [->|].
        * rewrite ?B1, ?B4. reflexivity.
        * destruct (Nat.eqb_spec u to) as [->|]; [rewrite ?B2', ?B3; reflexivity|].
          destruct (Nat.eqb_spec u x) as [->|]; reflexivity.
      + assert (E1 : s_end (remove_current st2 DONE) = s_end st) by (unfold remove_current; rewrite Hr2; simpl; rewrite E2; reflexivity).
        assert (E2' : s_stuck (remove_current st2 DONE) = s_stuck st) by (unfold remove_current; rewrite Hr2; simpl; rewrite F2; reflexivity).
        assert (E3 : s_user (remove_current st2 DONE) = s_user st) by (unfold remove_current; rewrite Hr2; simpl; rewrite H2; reflexivity).
        split; [congruence|]. split; [rewrite F5; exact A2|]. split; [rewrite F6; exact B2|]. split; [rewrite F8; exact C2|].
        split; [exact E1|]. split; [exact E2'|]. split; [exact E3|].
        intros x0 Hx0. injection Hx0 as <-. auto.
  Qed.

End EFF.
