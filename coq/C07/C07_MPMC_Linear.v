(* C07_MPMC_Linear.v — the fine-grained MPMC ring queue (CAS variant push / pop, C07_MPMC_Model.v) IS an atomic bounded
   FIFO at its linearisation points: the composition step between the queue theorems and the RingChannel protocol
   theorems (C07_Chan_Inv*.v), whose model uses an atomic bounded FIFO `c_q` (push fails iff full, pop fails iff empty).

   Abstraction function: absq st = the values of the indices claimed by a push and not yet claimed by a pop,
   [m_gh st, m_gt st), in index order.  For scripts of push / pop only (no send / recv), any number of participants, any
   schedule, below the 2^64 index wrap:
   * mpmc_abs_step: every step of the fine-grained model either leaves absq unchanged, or is a successful tail CAS and
     appends the pushed value to a non-full absq, or is a successful head CAS and removes the first element of absq;
   * mpmc_linearisable: every COMPLETED call has a linearisation point — a step of the calling thread itself, inside that
     call (same list of completed results before it) — at which the abstract FIFO makes exactly the transition of the atomic
     operation with the result the call returns later (fifo_lp): push-true appends its value to a non-full queue,
     push-false sees exactly `capacity` elements, pop-true removes the value it returns from the front, pop-false sees
     the empty queue.  The LPs: the successful CAS on tail / head; for a failing call the middle load (C07_MPMC_Report.v).
   Together: the history of any run is linearisable with respect to the atomic bounded FIFO, with LPs inside the calls. *)
From Coq Require Import ZArith Znumtheory Lia List Bool Arith Sorted.
From PV Require Import Base.U64 E3.E3_Run C07.C07_Model C07.C07_Arith C07.C07_Lists C07.C07_MPMC_Model C07.C07_MPMC_Proofs C07.C07_MPMC_Report.
Import ListNotations.
Local Open Scope Z_scope.

Definition absq (st : mstate) : list Z := map (m_gval st) (zrange (m_gh st) (m_gt st)).

(* the atomic bounded FIFO: state before, result of the operation, state after *)
Inductive fifo_lp (cap : Z) : list Z -> res -> list Z -> Prop :=
| lp_push q i v : Z.of_nat (length q) < cap -> fifo_lp cap q (RPushOk i v) (q ++ [v])
| lp_pushfail q : Z.of_nat (length q) = cap -> fifo_lp cap q RPushFail q
| lp_pop q i v : fifo_lp cap (v :: q) (RPopOk i v) q
| lp_popfail : fifo_lp cap [] RPopFail [].

Lemma zrange_cons a b : a < b -> zrange a b = a :: zrange (a + 1) b.
Proof.
  intros H. unfold zrange. replace (Z.to_nat (b - a)) with (S (Z.to_nat (b - (a + 1)))) by lia. reflexivity.
Qed.
Lemma absq_length st : m_gh st <= m_gt st -> Z.of_nat (length (absq st)) = m_gt st - m_gh st.
Proof. intros H. unfold absq. rewrite map_length. apply zrange_length; exact H. Qed.

Ltac step_split :=
  cbn [fst];
  repeat match goal with |- context [if ?b then _ else _] => destruct b eqn:? end;
  unfold m_finish, m_goto, m_set_thr, m_set_mark, m_set_slot, m_claim_tail, m_claim_head;
  cbn [fst m_head m_tail m_mark m_slot m_gh m_gt m_gval m_gwho m_gpop m_thr].

(* ---------------- what a step does to the claim counters and to the ghost values ---------------- *)
Lemma gval_stable_step c st q i : i < m_gt st -> m_gval (fst (mpmc_step c st q)) i = m_gval st i.
Proof.
  intros H. unfold mpmc_step. destruct (t_pc (m_thr st q)) as [pc|]; [|reflexivity].
  destruct pc; step_split; try reflexivity; apply updZ_other; lia.
Qed.
Lemma gval_stable_run c st l i : i < m_gt st -> m_gval (mrun c st l) i = m_gval st i.
Proof.
  revert st; induction l as [|q l IH]; intros st H; simpl; [reflexivity|].
  rewrite IH by (destruct (step_mono c st q); lia). apply gval_stable_step; exact H.
Qed.

Lemma step_whold c st q pc pc' i :
  t_pc (m_thr st q) = Some pc -> t_pc (m_thr (fst (mpmc_step c st q)) q) = Some pc' -> whold pc' = Some i ->
  t_res (m_thr (fst (mpmc_step c st q)) q) = t_res (m_thr st q) /\
  (whold pc = Some i \/ (m_gt st = i /\ m_gt (fst (mpmc_step c st q)) = i + 1)).
Proof.
  intros E. unfold mpmc_step. rewrite E.
  destruct pc; step_split; rewrite upd_same; intros E' Hh;
    try (apply finish_pc in E'; destruct E' as [o E']; subst pc'; destruct o; discriminate);
    cbn [thr_goto t_pc t_res] in E' |- *; inversion E'; subst pc'; cbn [whold] in Hh |- *;
    try discriminate; (split; [reflexivity|]);
    first [ left; exact Hh | right; inversion Hh; split; reflexivity ].
Qed.
Lemma step_rhold c st q pc pc' i :
  t_pc (m_thr st q) = Some pc -> t_pc (m_thr (fst (mpmc_step c st q)) q) = Some pc' -> rhold pc' = Some i ->
  t_res (m_thr (fst (mpmc_step c st q)) q) = t_res (m_thr st q) /\
  (rhold pc = Some i \/ (m_gh st = i /\ m_gh (fst (mpmc_step c st q)) = i + 1)).
Proof.
  intros E. unfold mpmc_step. rewrite E.
  destruct pc; step_split; rewrite upd_same; intros E' Hh;
    try (apply finish_pc in E'; destruct E' as [o E']; subst pc'; destruct o; discriminate);
    cbn [thr_goto t_pc t_res] in E' |- *; inversion E'; subst pc'; cbn [rhold] in Hh |- *;
    try discriminate; (split; [reflexivity|]);
    first [ left; exact Hh | right; inversion Hh; split; reflexivity ].
Qed.

(* the only way to complete a call with `true` *)
Lemma step_pushok c st p i v :
  t_res (m_thr (fst (mpmc_step c st p)) p) = RPushOk i v :: t_res (m_thr st p) ->
  exists t, t_pc (m_thr st p) = Some (MPushStM false v t i).
Proof.
  unfold mpmc_step. destruct (t_pc (m_thr st p)) as [pc|] eqn:E; [|intros X; cbn [fst] in X; destruct (cons_neq _ _ X)].
  destruct pc; step_split; rewrite upd_same; intros X;
    try (cbn [thr_goto t_res] in X; destruct (cons_neq _ _ X));
    try (rewrite finish_tres in X; inversion X as [Y]; try (destruct snd; inversion Y; subst; eauto; fail); try (destruct rcv; discriminate)).
Qed.
Lemma step_popok c st p i v :
  t_res (m_thr (fst (mpmc_step c st p)) p) = RPopOk i v :: t_res (m_thr st p) ->
  exists h, t_pc (m_thr st p) = Some (MPopStM false h i v).
Proof.
  unfold mpmc_step. destruct (t_pc (m_thr st p)) as [pc|] eqn:E; [|intros X; cbn [fst] in X; destruct (cons_neq _ _ X)].
  destruct pc; step_split; rewrite upd_same; intros X;
    try (cbn [thr_goto t_res] in X; destruct (cons_neq _ _ X));
    try (rewrite finish_tres in X; inversion X as [Y]; try (destruct snd; discriminate); try (destruct rcv; inversion Y; subst; eauto; fail)).
Qed.

Section Linear.
  Variable c : cfg.
  Hypothesis Hc : cfg_ok c.
  Variable s : Z.
  Hypothesis Hs0 : 0 <= s.
  Variable scripts : list (list op).
  Let cap := c_cap c.
  Let st0 := mpmc_init c s scripts.

  (* ---------------- the abstract queue along one step ---------------- *)
  Lemma abs_step st q : MInv c s st -> norecv st -> m_gh st <= m_gt st ->
    (m_gt (fst (mpmc_step c st q)) = m_gt st /\ m_gh (fst (mpmc_step c st q)) = m_gh st /\
     absq (fst (mpmc_step c st q)) = absq st) \/
    (m_gt (fst (mpmc_step c st q)) = m_gt st + 1 /\ m_gh (fst (mpmc_step c st q)) = m_gh st /\
     absq (fst (mpmc_step c st q)) = absq st ++ [m_gval (fst (mpmc_step c st q)) (m_gt st)]) \/
    (m_gt (fst (mpmc_step c st q)) = m_gt st /\ m_gh (fst (mpmc_step c st q)) = m_gh st + 1 /\
     absq st = m_gval st (m_gh st) :: absq (fst (mpmc_step c st q))).
  Proof.
    intros I NR B.
    assert (Tail : forall v, map (updZ (m_gval st) (m_gt st) v) (zrange (m_gh st) (m_gt st + 1)) = absq st ++ [updZ (m_gval st) (m_gt st) v (m_gt st)]).
    { intros v. rewrite zrange_snoc by exact B. rewrite map_app. simpl. f_equal. unfold absq.
      apply map_ext_in. intros j Hj. apply zrange_In in Hj. apply updZ_other. lia. }
    unfold mpmc_step. destruct (t_pc (m_thr st q)) as [pc|] eqn:Epc; [|left; auto].
    pose proof (mv_pc c s st I q pc Epc) as K. pose proof (mv_head c s st I) as Hhd.
    unfold absq at 1 3 5.
    destruct pc; cbn [pc_ok] in K; step_split;
      try (left; repeat split; reflexivity);
      try (right; left; split; [reflexivity|]; split; [reflexivity|]; apply Tail).
    - (* MPopCas success *) right; right. split; [reflexivity|]. split; [reflexivity|]. destruct K as [K1 K2].
      match goal with H : (_ =? _) = true |- _ => apply Z.eqb_eq in H; rewrite Hhd in H; subst h end.
      assert (L : m_gh st < m_gt st).
      { destruct (Z_lt_dec (m_gh st) (m_gt st)) as [L|G]; [exact L|]. exfalso.
        assert (G' : m_gt st <= m_gh st) by lia.
        pose proof (mv_wunp c s st I (m_gh st) (proj1 (mv_lo c s st I)) (or_introl G')) as U. lia. }
      unfold absq. rewrite (zrange_cons _ _ L). reflexivity.
    - (* MRecvFa *) exfalso. apply (proj1 (NR q)). exact Epc.
  Qed.

  (* ---------------- history: who holds a claimed index claimed it by its own step inside the same call ---------------- *)
  Definition HW (l : list nat) : Prop :=
    forall p pc i, t_pc (m_thr (mrun c st0 l) p) = Some pc -> whold pc = Some i ->
    exists l1 l2, l = l1 ++ p :: l2 /\
      t_res (m_thr (mrun c st0 l1) p) = t_res (m_thr (mrun c st0 l) p) /\
      m_gt (mrun c st0 l1) = i /\ m_gt (fst (mpmc_step c (mrun c st0 l1) p)) = i + 1.
  Definition HR (l : list nat) : Prop :=
    forall p pc i, t_pc (m_thr (mrun c st0 l) p) = Some pc -> rhold pc = Some i ->
    exists l1 l2, l = l1 ++ p :: l2 /\
      t_res (m_thr (mrun c st0 l1) p) = t_res (m_thr (mrun c st0 l) p) /\
      m_gh (mrun c st0 l1) = i /\ m_gh (fst (mpmc_step c (mrun c st0 l1) p)) = i + 1.

  Lemma hist2 l : HW l /\ HR l.
  Proof.
    induction l as [|q l IH] using rev_ind.
    - split; intros p pc i E Hh; simpl in E; apply (init_entry c s scripts) in E; destruct E as [o ->];
        destruct (entry_nohold o); congruence.
    - destruct IH as [IHw IHr]. set (st := mrun c st0 l) in *.
      split.
      + intros p pc' i E Hh. rewrite mrun_snoc in E |- *. fold st in E |- *.
        destruct (Nat.eq_dec p q) as [->|N].
        * destruct (t_pc (m_thr st q)) as [pc|] eqn:Epc; [|rewrite (step_idle c st q Epc) in E; congruence].
          destruct (step_whold c st q pc pc' i Epc E Hh) as [Eres [Hold|[G1 G2]]].
          -- destruct (IHw q pc i Epc Hold) as (l1 & l2 & -> & A & B & C0).
             exists l1, (l2 ++ [q]). split; [rewrite <- app_assoc; reflexivity|]. fold st in A. rewrite Eres. auto.
          -- exists l, []. split; [reflexivity|]. fold st. rewrite Eres. auto.
        * rewrite (step_other c st q p N) in E |- *.
          destruct (IHw p pc' i E Hh) as (l1 & l2 & -> & A & B & C0).
          exists l1, (l2 ++ [q]). split; [rewrite <- app_assoc; reflexivity|]. auto.
      + intros p pc' i E Hh. rewrite mrun_snoc in E |- *. fold st in E |- *.
        destruct (Nat.eq_dec p q) as [->|N].
        * destruct (t_pc (m_thr st q)) as [pc|] eqn:Epc; [|rewrite (step_idle c st q Epc) in E; congruence].
          destruct (step_rhold c st q pc pc' i Epc E Hh) as [Eres [Hold|[G1 G2]]].
          -- destruct (IHr q pc i Epc Hold) as (l1 & l2 & -> & A & B & C0).
             exists l1, (l2 ++ [q]). split; [rewrite <- app_assoc; reflexivity|]. fold st in A. rewrite Eres. auto.
          -- exists l, []. split; [reflexivity|]. fold st. rewrite Eres. auto.
        * rewrite (step_other c st q p N) in E |- *.
          destruct (IHr p pc' i E Hh) as (l1 & l2 & -> & A & B & C0).
          exists l1, (l2 ++ [q]). split; [rewrite <- app_assoc; reflexivity|]. auto.
  Qed.

  Hypothesis NR : norecv_scripts scripts.
  Hypothesis NS : nosend_scripts scripts.

  (* ---------------- every step is a stutter or an atomic FIFO transition ---------------- *)
  Lemma abs_step_run l q : nowrap c (fst (mpmc_step c (mrun c st0 l) q)) ->
    let st := mrun c st0 l in let st' := fst (mpmc_step c st q) in
    absq st' = absq st \/
    (exists v, absq st' = absq st ++ [v] /\ Z.of_nat (length (absq st)) < cap) \/
    (exists v, absq st = v :: absq st').
  Proof.
    intros NW'.
    assert (NW : nowrap c (mrun c st0 l)) by (destruct (step_mono c (mrun c st0 l) q); unfold nowrap in *; lia).
    cbv zeta. set (st := mrun c st0 l) in *. set (st' := fst (mpmc_step c st q)) in *.
    pose proof (run_inv c Hc s Hs0 scripts l NW) as I. fold st0 in I. fold st in I.
    pose proof (run_le c Hc s scripts Hs0 l NR NW) as Le. fold st0 in Le. fold st in Le.
    destruct (abs_step st q I (norecv_run c s scripts l NR) Le) as [(A & B & C0)|[(A & B & C0)|(A & B & C0)]]; fold st' in A, B, C0.
    - left. exact C0.
    - right; left. eexists. split; [exact C0|].
      rewrite (absq_length st Le).
      pose proof (run_ge c Hc s scripts Hs0 (l ++ [q]) NS) as Ge. rewrite mrun_snoc in Ge. fold st0 in Ge. fold st st' in Ge.
      specialize (Ge NW'). fold cap in Ge. lia.
    - right; right. eexists. exact C0.
  Qed.

  (* ---------------- every completed call has its linearisation point inside the call ---------------- *)
  Lemma linearisable l p r :
    nowrap c (fst (mpmc_step c (mrun c st0 l) p)) ->
    t_res (m_thr (fst (mpmc_step c (mrun c st0 l) p)) p) = r :: t_res (m_thr (mrun c st0 l) p) ->
    match r with RPushOk _ _ | RPushFail | RPopOk _ _ | RPopFail => True | _ => False end ->
    exists l1 l2, l = l1 ++ p :: l2 /\
      t_res (m_thr (mrun c st0 l1) p) = t_res (m_thr (mrun c st0 l) p) /\
      fifo_lp cap (absq (mrun c st0 l1)) r (absq (fst (mpmc_step c (mrun c st0 l1) p))).
  Proof.
    intros NW' X Hr.
    assert (NW : nowrap c (mrun c st0 l)) by (destruct (step_mono c (mrun c st0 l) p); unfold nowrap in *; lia).
    pose proof (run_inv c Hc s Hs0 scripts l NW) as I. fold st0 in I.
    (* facts about any earlier instant l = l1 ++ p :: l2 *)
    assert (Pre : forall l1 l2, l = l1 ++ p :: l2 ->
              nowrap c (fst (mpmc_step c (mrun c st0 l1) p)) /\ nowrap c (mrun c st0 l1) /\
              MInv c s (mrun c st0 l1) /\ m_gh (mrun c st0 l1) <= m_gt (mrun c st0 l1) /\
              mrun c st0 l = mrun c (fst (mpmc_step c (mrun c st0 l1) p)) l2).
    { intros l1 l2 El.
      assert (E2 : mrun c st0 l = mrun c (fst (mpmc_step c (mrun c st0 l1) p)) l2) by (rewrite El, mrun_app; reflexivity).
      assert (N1 : nowrap c (fst (mpmc_step c (mrun c st0 l1) p))) by (apply (nowrap_prefix c _ l2); rewrite <- E2; exact NW).
      assert (N0 : nowrap c (mrun c st0 l1)) by (apply (nowrap_prefix c _ (p :: l2)); rewrite <- mrun_app, <- El; exact NW).
      split; [exact N1|]. split; [exact N0|]. split; [apply (run_inv c Hc s Hs0 scripts l1 N0)|].
      split; [apply (run_le c Hc s scripts Hs0 l1 NR N0) | exact E2]. }
    destruct r; try contradiction.
    - (* RPushOk *)
      destruct (step_pushok c _ p i v X) as [t Epc].
      pose proof (mv_pc c s _ I p _ Epc) as K. cbn [pc_ok] in K. destruct K as (_ & (Hi & Hv & _) & _).
      destruct (hist2 l) as [HWl _]. destruct (HWl p _ i Epc eq_refl) as (l1 & l2 & El & A & B & C0).
      destruct (Pre l1 l2 El) as (N1 & N0 & I1 & Le & E2).
      exists l1, l2. split; [exact El|]. split; [exact A|].
      destruct (abs_step _ p I1 (norecv_run c s scripts l1 NR) Le) as [(G1 & _)|[(G1 & G2 & G3)|(G1 & _)]]; fold st0 in G1; try lia.
      fold st0 in G3. rewrite G3. rewrite B.
      assert (Ev : m_gval (fst (mpmc_step c (mrun c st0 l1) p)) i = v).
      { rewrite <- Hv. rewrite E2. symmetry. apply gval_stable_run. lia. }
      rewrite Ev. apply lp_push. rewrite (absq_length _ Le).
      pose proof (run_ge c Hc s scripts Hs0 (l1 ++ [p]) NS) as Ge. rewrite mrun_snoc in Ge. specialize (Ge N1). fold cap st0 in Ge. lia.
    - (* RPushFail *)
      destruct (push_fail_saw_full_cas c Hc s scripts Hs0 l p NR NW' X) as (l1 & l2 & v & t & El & A & B & _ & C0).
      specialize (C0 NS). fold st0 cap in A, B, C0.
      destruct (Pre l1 l2 El) as (N1 & N0 & I1 & Le & E2).
      exists l1, l2. split; [exact El|]. split; [exact B|].
      destruct (abs_step _ p I1 (norecv_run c s scripts l1 NR) Le) as [(G1 & G2 & G3)|[(G1 & _)|(_ & G2 & _)]].
      + rewrite G3. apply lp_pushfail. rewrite (absq_length _ Le). exact C0.
      + exfalso. revert G1. unfold mpmc_step. rewrite A. cbn. lia.
      + exfalso. revert G2. unfold mpmc_step. rewrite A. cbn. lia.
    - (* RPopOk *)
      destruct (step_popok c _ p i v X) as [h Epc].
      pose proof (mv_pc c s _ I p _ Epc) as K. cbn [pc_ok] in K. destruct K as (_ & (Hi & _) & Hm & Hv).
      destruct (hist2 l) as [_ HRl]. destruct (HRl p _ i Epc eq_refl) as (l1 & l2 & El & A & B & C0).
      destruct (Pre l1 l2 El) as (N1 & N0 & I1 & Le & E2).
      exists l1, l2. split; [exact El|]. split; [exact A|].
      destruct (abs_step _ p I1 (norecv_run c s scripts l1 NR) Le) as [(_ & G2 & _)|[(_ & G2 & _)|(G1 & G2 & G3)]]; fold st0 in G2; try lia.
      fold st0 in G3. rewrite G3, B.
      assert (Ev : m_gval (mrun c st0 l1) i = v).
      { rewrite Hv. rewrite El, mrun_app. symmetry. apply gval_stable_run.
        assert (Z.of_nat (length (absq (mrun c st0 l1))) = m_gt (mrun c st0 l1) - m_gh (mrun c st0 l1)) by (apply absq_length; exact Le).
        rewrite G3 in H. simpl length in H. lia. }
      rewrite Ev. apply lp_pop.
    - (* RPopFail *)
      destruct (pop_fail_saw_empty c Hc s Hs0 scripts l p NW' X) as (l1 & l2 & h & El & A & B & _ & C0). fold st0 in A, B, C0.
      destruct (Pre l1 l2 El) as (N1 & N0 & I1 & Le & E2).
      exists l1, l2. split; [exact El|]. split; [exact B|].
      assert (E0 : absq (mrun c st0 l1) = []) by (unfold absq; rewrite C0, zrange_nil; reflexivity).
      destruct (abs_step _ p I1 (norecv_run c s scripts l1 NR) Le) as [(G1 & G2 & G3)|[(G1 & _)|(_ & G2 & _)]].
      + rewrite G3, E0. apply lp_popfail.
      + exfalso. revert G1. unfold mpmc_step. rewrite A. cbn. lia.
      + exfalso. revert G2. unfold mpmc_step. rewrite A. cbn. lia.
  Qed.
End Linear.

(* the hypotheses of `linearisable` (and of the reporting lemmas of C07_MPMC_Report.v) are inhabited: capacity 2, the third
   push of thread 0 returns false while thread 1 has not started its pop *)
Example linear_ex :
  let c := cfg_of 2 in
  let scripts := [[OPush 1; OPush 2; OPush 3]; [OPop]] in
  let l := [0;0;0;0;0; 0;0;0;0;0; 0;0;0]%nat in
  let st := mrun c (mpmc_init c 0 scripts) l in
  cfg_ok c /\ norecv_scripts scripts /\ nosend_scripts scripts /\
  nowrap c (fst (mpmc_step c st 0%nat)) /\
  t_res (m_thr (fst (mpmc_step c st 0%nat)) 0%nat) = RPushFail :: t_res (m_thr st 0%nat) /\
  absq st = [1; 2].
Proof.
  cbv zeta. split; [split; [vm_compute; split; discriminate | reflexivity]|].
  split; [intros p; destruct p as [|[|[|p]]]; simpl; intuition discriminate|].
  split; [intros p v; destruct p as [|[|[|p]]]; simpl; intuition discriminate|].
  vm_compute. repeat split; reflexivity.
Qed.
