(* C07_Batch_Proofs.v — inductive invariant of the batch MPMC ring queue model (push_batch / pop_batch / push / pop
   with ordered publication through write_head / head): ANY number of participants, any scripts, any schedule, any
   capacity 2^k, any start index s >= 0, below the 2^64 index wrap (guard bnowrap: tail + capacity < 2^64, which rules
   out ABA on the claim CAS).  head <= read_tail <= write_head <= tail <= head + capacity; claimed intervals are
   pairwise disjoint; every element of [head, write_head) sits intact in its slot; every pop returns exactly the
   values pushed under the indices it claimed. *)
From Coq Require Import ZArith Znumtheory Lia List Bool Arith.
From PV Require Import Base.U64 E3.E3_Run C07.C07_Model C07.C07_Arith C07.C07_Lists C07.C07_Batch_Model C07.C07_Chan_Proofs.
Import ListNotations.
Local Open Scope Z_scope.

Definition wint (pc : bpc) : option (Z * Z) :=
  match pc with BPushWr _ _ _ wn i | BPushCasW _ _ wn i _ => Some (i, wn) | _ => None end.
Definition rint (pc : bpc) : option (Z * Z) :=
  match pc with BPopRd _ _ rn i | BPopCasH _ _ rn i _ => Some (i, rn) | _ => None end.
Definition bop_ok (o : op) : Prop := match o with OPopB n => 0 <= n | _ => True end.

Lemma gwrite_other {A} (g : Z -> A) i xs j : j < i \/ i + Z.of_nat (length xs) <= j -> gwrite g i xs j = g j.
Proof.
  revert g i; induction xs as [|x r IH]; intros g i H; simpl; [reflexivity|].
  rewrite IH by (simpl length in H; lia). apply updZ_other. simpl length in H. lia.
Qed.
Lemma gwrite_at (g : Z -> Z) i xs k : 0 <= k < Z.of_nat (length xs) -> gwrite g i xs (i + k) = nth (Z.to_nat k) xs 0.
Proof.
  revert g i k; induction xs as [|x r IH]; intros g i k H; simpl in *; [lia|].
  destruct (Z.eq_dec k 0) as [->|N].
  - rewrite Z.add_0_r. rewrite gwrite_other by lia. simpl. apply updZ_same.
  - replace (i + k) with (i + 1 + (k - 1)) by lia. rewrite IH by lia.
    replace (Z.to_nat k) with (S (Z.to_nat (k - 1))) by lia. reflexivity.
Qed.

Section Batch.
  Variable c : cfg.
  Hypothesis Hc : cfg_ok c.
  Variable s : Z.
  Let cap := c_cap c.

  Definition bpc_ok (st : bstate) (pc : bpc) : Prop :=
    let hd_ := b_head st in let tl := b_tail st in let wh := b_whead st in let rt_ := b_rtail st in
    match pc with
    | BPushLdT one vs => True
    | BPushLdH one vs wt => s <= wt <= tl
    | BPushCasT one vs wt wn => s <= wt <= tl /\ 0 < wn <= Z.of_nat (length vs) /\ (wt = tl -> tl + wn <= hd_ + cap)
    | BPushWr one vs wt wn i => wt = i /\ wh <= i /\ i + wn <= tl /\ 0 < wn <= Z.of_nat (length vs) /\
        (forall k, 0 <= k < wn -> b_gval st (i + k) = nth (Z.to_nat k) (firstn (Z.to_nat wn) vs) 0)
    | BPushCasW one wt wn i ws => wt = i /\ wh <= i /\ i + wn <= tl /\ 0 < wn /\ Z.of_nat (length ws) = wn /\
        (forall k, 0 <= k < wn -> b_gval st (i + k) = nth (Z.to_nat k) ws 0 /\
                                  b_slot st ((i + k) mod cap) = nth (Z.to_nat k) ws 0)
    | BPopLdRT one n => 0 <= n
    | BPopLdWH one n rt => 0 <= n /\ s <= rt <= rt_
    | BPopCasRT one n rt rn => 0 <= n /\ s <= rt <= rt_ /\ 0 < rn /\ (rt = rt_ -> rt_ + rn <= wh)
    | BPopRd one rt rn i => rt = i /\ hd_ <= i /\ i + rn <= rt_ /\ 0 < rn
    | BPopCasH one rt rn i vs => rt = i /\ hd_ <= i /\ i + rn <= rt_ /\ 0 < rn /\
        vs = map (b_gval st) (zseq i (Z.to_nat rn))
    end.

  Definition res_ok (st : bstate) (r : res) : Prop :=
    match r with
    | RPopOk i v => s <= i < b_tail st /\ v = b_gval st i
    | RPopB i vs => s <= i /\ i + Z.of_nat (length vs) <= b_tail st /\ vs = map (b_gval st) (zseq i (length vs))
    | RPushOk i v => i < b_tail st /\ b_gval st i = v
    | RPushB i ws => i + Z.of_nat (length ws) <= b_tail st /\
                     forall k, 0 <= k < Z.of_nat (length ws) -> b_gval st (i + k) = nth (Z.to_nat k) ws 0
    | _ => True
    end.

  Definition bnowrap (st : bstate) : Prop := b_tail st + cap < W64.

  Record BInv (st : bstate) : Prop := mkBInv {
    bv_s : 0 <= s;
    bv_gt : b_gt st = b_tail st;
    bv_grt : b_grt st = b_rtail st;
    bv_ord : s <= b_head st /\ b_head st <= b_rtail st /\ b_rtail st <= b_whead st /\ b_whead st <= b_tail st /\
             b_tail st <= b_head st + cap;
    bv_g : bnowrap st;
    bv_pc : forall p pc, t_pc (b_thr st p) = Some pc -> bpc_ok st pc;
    bv_ops : forall p, Forall bop_ok (t_ops (b_thr st p));
    bv_wdisj : forall p q pc1 pc2 a k b l, p <> q -> t_pc (b_thr st p) = Some pc1 -> t_pc (b_thr st q) = Some pc2 ->
               wint pc1 = Some (a, k) -> wint pc2 = Some (b, l) -> a + k <= b \/ b + l <= a;
    bv_rdisj : forall p q pc1 pc2 a k b l, p <> q -> t_pc (b_thr st p) = Some pc1 -> t_pc (b_thr st q) = Some pc2 ->
               rint pc1 = Some (a, k) -> rint pc2 = Some (b, l) -> a + k <= b \/ b + l <= a;
    bv_data : forall j, b_head st <= j < b_whead st -> b_slot st (j mod cap) = b_gval st j;
    bv_res : forall p r, In r (t_res (b_thr st p)) -> res_ok st r;
  }.

  Lemma Hcap0 : 0 < cap. Proof. pose proof (cfg_cap_pos c Hc). unfold cap. lia. Qed.

  Lemma bfinish_pc (th : thr bpc) r pc :
    t_pc (thr_finish batch_entry th r) = Some pc -> exists o rest, t_ops th = o :: rest /\ pc = batch_entry o.
  Proof. unfold thr_finish. destruct (t_ops th) as [|o rest]; simpl; intros E; [discriminate|]. inversion E. eauto. Qed.
  Lemma bfinish_ops (th : thr bpc) r : Forall bop_ok (t_ops th) -> Forall bop_ok (t_ops (thr_finish batch_entry th r)).
  Proof. unfold thr_finish. destruct (t_ops th) as [|o rest]; simpl; intros F; [constructor|]. inversion F; assumption. Qed.
  Lemma bfinish_res (th : thr bpc) r x : In x (t_res (thr_finish batch_entry th r)) -> x = r \/ In x (t_res th).
  Proof. unfold thr_finish. destruct (t_ops th); simpl; intros [H|H]; auto. Qed.
  Lemma entry_bok st o : bop_ok o -> bpc_ok st (batch_entry o).
  Proof. destruct o; simpl; intros H; try exact I; try lia. Qed.
  Lemma entry_noint o : wint (batch_entry o) = None /\ rint (batch_entry o) = None.
  Proof. destruct o; split; reflexivity. Qed.

  (* a step that only replaces the thread record of p, keeping its claimed interval *)
  Lemma binv_thr st p pc th' :
    BInv st -> t_pc (b_thr st p) = Some pc ->
    (forall pc', t_pc th' = Some pc' -> wint pc' = wint pc /\ rint pc' = rint pc /\ bpc_ok st pc') ->
    (t_pc th' = None -> wint pc = None /\ rint pc = None) ->
    Forall bop_ok (t_ops th') -> (forall r, In r (t_res th') -> res_ok st r) ->
    BInv (b_set_thr st p th').
  Proof.
    intros I Epc Hsome Hnone Hops Hres. destruct I.
    assert (Hint : forall q pcq, t_pc (b_thr (b_set_thr st p th') q) = Some pcq ->
              exists pc0, t_pc (b_thr st q) = Some pc0 /\ wint pcq = wint pc0 /\ rint pcq = rint pc0).
    { intros q pcq E. unfold b_set_thr in E; simpl in E. destruct (Nat.eq_dec q p) as [->|N].
      - rewrite upd_same in E. destruct (Hsome pcq E) as (A & B & _). exists pc. auto.
      - rewrite upd_other in E by exact N. exists pcq. auto. }
    constructor; try assumption.
    - intros q pcq E. unfold b_set_thr in E; simpl in E. destruct (Nat.eq_dec q p) as [->|N].
      + rewrite upd_same in E. apply Hsome; exact E.
      + rewrite upd_other in E by exact N. apply (bv_pc0 q pcq E).
    - intros q. unfold b_set_thr; simpl. destruct (Nat.eq_dec q p) as [->|N]; [rewrite upd_same; exact Hops | rewrite upd_other by exact N; apply bv_ops0].
    - intros q1 q2 pc1 pc2 a k b l N E1 E2 H1 H2.
      destruct (Hint q1 pc1 E1) as (pa & Ea & A1 & _). destruct (Hint q2 pc2 E2) as (pb & Eb & B1 & _).
      apply (bv_wdisj0 q1 q2 pa pb a k b l N Ea Eb); congruence.
    - intros q1 q2 pc1 pc2 a k b l N E1 E2 H1 H2.
      destruct (Hint q1 pc1 E1) as (pa & Ea & _ & A1). destruct (Hint q2 pc2 E2) as (pb & Eb & _ & B1).
      apply (bv_rdisj0 q1 q2 pa pb a k b l N Ea Eb); congruence.
    - intros q r. unfold b_set_thr; simpl. destruct (Nat.eq_dec q p) as [->|N]; [rewrite upd_same; apply Hres | rewrite upd_other by exact N; apply bv_res0].
  Qed.

  Lemma binv_goto st p pc pc' :
    BInv st -> t_pc (b_thr st p) = Some pc -> wint pc' = wint pc -> rint pc' = rint pc -> bpc_ok st pc' ->
    BInv (b_goto st p pc').
  Proof.
    intros I E Hw Hr K. unfold b_goto. apply (binv_thr st p pc); try assumption.
    - intros pc'' E'. cbn in E'. inversion E'; subst. auto.
    - intros E'. discriminate.
    - apply (bv_ops st I).
    - apply (bv_res st I).
  Qed.

  Lemma binv_fail st p pc r :
    BInv st -> t_pc (b_thr st p) = Some pc -> wint pc = None -> rint pc = None -> res_ok st r ->
    BInv (b_finish st p r).
  Proof.
    intros I E Hw Hr Hro. unfold b_finish. apply (binv_thr st p pc); try assumption.
    - intros pc' E'. apply bfinish_pc in E'. destruct E' as (o & rest & Eo & ->). destruct (entry_noint o) as [A B].
      rewrite A, B, Hw, Hr. repeat split. apply entry_bok. pose proof (bv_ops st I p) as F. rewrite Eo in F. inversion F; assumption.
    - intros _. auto.
    - apply bfinish_ops. apply (bv_ops st I).
    - intros x Hx. apply bfinish_res in Hx. destruct Hx as [->|Hx]; [exact Hro | apply (bv_res st I p x Hx)].
  Qed.

  Lemma res_ok_mono st st' r :
    b_tail st <= b_tail st' -> (forall j, j < b_tail st -> b_gval st' j = b_gval st j) -> res_ok st r -> res_ok st' r.
  Proof.
    intros Ht Hg K. destruct r; simpl in *; try exact K.
    - destruct K as [A B]. rewrite Hg by lia. split; [lia|exact B].
    - destruct K as [A B]. rewrite Hg by lia. split; [lia|exact B].
    - destruct K as [A B]. split; [lia|]. intros k Hk. rewrite Hg by lia. apply B; exact Hk.
    - destruct K as (A & B & C0). split; [exact A|]. split; [lia|]. rewrite C0 at 1. apply map_ext_in.
      intros j Hj. apply zseq_In in Hj. symmetry. apply Hg. lia.
  Qed.

  (* bpc_ok of another thread survives a tail claim *)
  Lemma bpc_ok_tailclaim st st' pc :
    b_head st' = b_head st -> b_whead st' = b_whead st -> b_rtail st' = b_rtail st -> b_slot st' = b_slot st ->
    b_tail st < b_tail st' -> (forall j, j < b_tail st -> b_gval st' j = b_gval st j) ->
    b_rtail st <= b_tail st ->
    bpc_ok st pc -> bpc_ok st' pc.
  Proof.
    intros E1 E2 E3 E4 Ht Hg Hrt K.
    destruct pc; cbn [bpc_ok] in *; rewrite ?E1, ?E2, ?E3, ?E4; try exact K; try lia;
      repeat match goal with H : _ /\ _ |- _ => destruct H end;
      repeat match goal with |- _ /\ _ => split end; try lia; try assumption.
    - intros k Hk. rewrite Hg by lia. auto.
    - intros k Hk. rewrite Hg by lia. auto.
    - subst vs. apply map_ext_in. intros j Hj. apply zseq_In in Hj. symmetry. apply Hg. lia.
  Qed.

  (* (C1) p claims [tail, tail+wn) *)
  Lemma binv_claim_tail st p one vs wn :
    BInv st -> t_pc (b_thr st p) = Some (BPushCasT one vs (b_tail st) wn) ->
    b_tail st + wn + cap < W64 ->
    BInv (b_goto (mkB (b_head st) (b_tail st + wn) (b_whead st) (b_rtail st) (b_slot st) (b_gt st + wn) (b_grt st)
                      (gwrite (b_gval st) (b_gt st) (firstn (Z.to_nat wn) vs))
                      (gwrite (b_gwho st) (b_gt st) (map (fun _ => p) (firstn (Z.to_nat wn) vs))) (b_thr st))
                 p (BPushWr one vs (b_tail st) wn (b_gt st))).
  Proof.
    intros I Epc NW. pose proof (bv_pc st I p _ Epc) as K. cbn [bpc_ok] in K. destruct K as (K1 & K2 & K3).
    specialize (K3 eq_refl).
    set (ws := firstn (Z.to_nat wn) vs).
    assert (Lws : Z.of_nat (length ws) = wn) by (unfold ws; rewrite firstn_length; lia).
    set (st' := b_goto _ p _).
    pose proof I as I0. destruct I. destruct bv_ord0 as (O1 & O2 & O3 & O4 & O5).
    assert (Hg : forall j, j < b_tail st -> b_gval st' j = b_gval st j).
    { intros j Hj. unfold st'. cbn. apply gwrite_other. lia. }
    constructor; try assumption.
    - unfold st'; cbn. lia.
    - unfold st'; cbn. repeat split; lia.
    - intros q pcq E. unfold st' in E; cbn in E. destruct (Nat.eq_dec q p) as [->|N].
      + rewrite upd_same in E. cbn in E. inversion E; subst pcq. cbn [bpc_ok]. unfold st'; cbn.
        repeat split; try lia. intros k Hk. fold ws. apply gwrite_at. lia.
      + rewrite upd_other in E by exact N. apply (bpc_ok_tailclaim st st'); try reflexivity; try (unfold st'; cbn; lia); try assumption.
        apply (bv_pc0 q pcq E).
    - intros q. unfold st'; cbn. destruct (Nat.eq_dec q p) as [->|N]; [rewrite upd_same; apply bv_ops0 | rewrite upd_other by exact N; apply bv_ops0].
    - intros q1 q2 pc1 pc2 a k b l N E1 E2 H1 H2. unfold st' in E1, E2; cbn in E1, E2.
      destruct (Nat.eq_dec q1 p) as [->|N1]; destruct (Nat.eq_dec q2 p) as [->|N2]; try contradiction.
      + rewrite upd_same in E1. cbn in E1. inversion E1; subst pc1. cbn in H1. inversion H1.
        rewrite upd_other in E2 by exact N2. pose proof (bv_pc0 q2 pc2 E2) as K.
        destruct pc2; cbn in H2; try discriminate; inversion H2; cbn [bpc_ok] in K; right; lia.
      + rewrite upd_same in E2. cbn in E2. inversion E2; subst pc2. cbn in H2. inversion H2.
        rewrite upd_other in E1 by exact N1. pose proof (bv_pc0 q1 pc1 E1) as K.
        destruct pc1; cbn in H1; try discriminate; inversion H1; cbn [bpc_ok] in K; left; lia.
      + rewrite upd_other in E1 by exact N1. rewrite upd_other in E2 by exact N2. apply (bv_wdisj0 q1 q2 pc1 pc2 a k b l N E1 E2 H1 H2).
    - intros q1 q2 pc1 pc2 a k b l N E1 E2 H1 H2. unfold st' in E1, E2; cbn in E1, E2.
      assert (A1 : q1 <> p) by (intros Eq; rewrite Eq, upd_same in E1; cbn in E1; inversion E1 as [Ex]; rewrite <- Ex in H1; discriminate).
      assert (A2 : q2 <> p) by (intros Eq; rewrite Eq, upd_same in E2; cbn in E2; inversion E2 as [Ex]; rewrite <- Ex in H2; discriminate).
      rewrite upd_other in E1 by exact A1. rewrite upd_other in E2 by exact A2. apply (bv_rdisj0 q1 q2 pc1 pc2 a k b l N E1 E2 H1 H2).
    - intros j Hj. unfold st' in Hj; cbn in Hj. rewrite Hg by lia. unfold st'; cbn. apply bv_data0; exact Hj.
    - intros q r Hr. apply (res_ok_mono st st'); [unfold st'; cbn; lia | exact Hg |].
      unfold st' in Hr; cbn in Hr. destruct (Nat.eq_dec q p) as [->|N]; [rewrite upd_same in Hr; cbn in Hr; apply (bv_res0 p r Hr) | rewrite upd_other in Hr by exact N; apply (bv_res0 q r Hr)].
  Qed.

  Lemma bpc_ok_rtclaim st st' pc :
    b_head st' = b_head st -> b_whead st' = b_whead st -> b_tail st' = b_tail st -> b_slot st' = b_slot st ->
    b_gval st' = b_gval st -> b_rtail st < b_rtail st' ->
    bpc_ok st pc -> bpc_ok st' pc.
  Proof.
    intros E1 E2 E3 E4 E5 Ht K.
    destruct pc; cbn [bpc_ok] in *; rewrite ?E1, ?E2, ?E3, ?E4, ?E5; try exact K; try lia;
      repeat match goal with H : _ /\ _ |- _ => destruct H end;
      repeat match goal with |- _ /\ _ => split end; try lia; try assumption.
  Qed.

  (* (C4) p claims [read_tail, read_tail+rn) *)
  Lemma binv_claim_rtail st p one n rn :
    BInv st -> t_pc (b_thr st p) = Some (BPopCasRT one n (b_rtail st) rn) ->
    BInv (b_goto (mkB (b_head st) (b_tail st) (b_whead st) (b_rtail st + rn) (b_slot st) (b_gt st) (b_grt st + rn)
                      (b_gval st) (b_gwho st) (b_thr st))
                 p (BPopRd one (b_rtail st) rn (b_grt st))).
  Proof.
    intros I Epc. pose proof (bv_pc st I p _ Epc) as K. cbn [bpc_ok] in K. destruct K as (K0 & K1 & K2 & K3).
    specialize (K3 eq_refl).
    set (st' := b_goto _ p _).
    pose proof I as I0. destruct I. destruct bv_ord0 as (O1 & O2 & O3 & O4 & O5).
    constructor; try assumption.
    - unfold st'; cbn. lia.
    - unfold st'; cbn. repeat split; lia.
    - intros q pcq E. unfold st' in E; cbn in E. destruct (Nat.eq_dec q p) as [->|N].
      + rewrite upd_same in E. cbn in E. inversion E as [Ex]. cbn [bpc_ok]. unfold st'; cbn. repeat split; lia.
      + rewrite upd_other in E by exact N. apply (bpc_ok_rtclaim st st'); try reflexivity; try (unfold st'; cbn; lia).
        apply (bv_pc0 q pcq E).
    - intros q. unfold st'; cbn. destruct (Nat.eq_dec q p) as [->|N]; [rewrite upd_same; apply bv_ops0 | rewrite upd_other by exact N; apply bv_ops0].
    - intros q1 q2 pc1 pc2 a k b l N E1 E2 H1 H2. unfold st' in E1, E2; cbn in E1, E2.
      assert (A1 : q1 <> p) by (intros Eq; rewrite Eq, upd_same in E1; cbn in E1; inversion E1 as [Ex]; rewrite <- Ex in H1; discriminate).
      assert (A2 : q2 <> p) by (intros Eq; rewrite Eq, upd_same in E2; cbn in E2; inversion E2 as [Ex]; rewrite <- Ex in H2; discriminate).
      rewrite upd_other in E1 by exact A1. rewrite upd_other in E2 by exact A2. apply (bv_wdisj0 q1 q2 pc1 pc2 a k b l N E1 E2 H1 H2).
    - intros q1 q2 pc1 pc2 a k b l N E1 E2 H1 H2. unfold st' in E1, E2; cbn in E1, E2.
      destruct (Nat.eq_dec q1 p) as [Eq1|N1]; destruct (Nat.eq_dec q2 p) as [Eq2|N2]; try (exfalso; congruence).
      + rewrite Eq1, upd_same in E1. cbn in E1. inversion E1 as [Ex]. rewrite <- Ex in H1. cbn in H1. inversion H1.
        rewrite upd_other in E2 by exact N2. pose proof (bv_pc0 q2 pc2 E2) as K.
        destruct pc2; cbn in H2; try discriminate; inversion H2; cbn [bpc_ok] in K; right; lia.
      + rewrite Eq2, upd_same in E2. cbn in E2. inversion E2 as [Ex]. rewrite <- Ex in H2. cbn in H2. inversion H2.
        rewrite upd_other in E1 by exact N1. pose proof (bv_pc0 q1 pc1 E1) as K.
        destruct pc1; cbn in H1; try discriminate; inversion H1; cbn [bpc_ok] in K; left; lia.
      + rewrite upd_other in E1 by exact N1. rewrite upd_other in E2 by exact N2. apply (bv_rdisj0 q1 q2 pc1 pc2 a k b l N E1 E2 H1 H2).
    - intros q r Hr. unfold st' in Hr; cbn in Hr.
      destruct (Nat.eq_dec q p) as [->|N]; [rewrite upd_same in Hr; cbn in Hr; apply (bv_res0 p r Hr) | rewrite upd_other in Hr by exact N; apply (bv_res0 q r Hr)].
  Qed.

  (* (C2) the memcpy into the claimed interval *)
  Lemma binv_write st p one vs wn i :
    BInv st -> t_pc (b_thr st p) = Some (BPushWr one vs i wn i) ->
    BInv (b_goto (mkB (b_head st) (b_tail st) (b_whead st) (b_rtail st)
                      (ring_write c (b_slot st) i (firstn (Z.to_nat wn) vs))
                      (b_gt st) (b_grt st) (b_gval st) (b_gwho st) (b_thr st))
                 p (BPushCasW one i wn i (firstn (Z.to_nat wn) vs))).
  Proof.
    intros I Epc. pose proof (bv_pc st I p _ Epc) as K. cbn [bpc_ok] in K. destruct K as (_ & K2 & K3 & K4 & K5).
    set (ws := firstn (Z.to_nat wn) vs) in *.
    assert (Lws : Z.of_nat (length ws) = wn) by (unfold ws; rewrite firstn_length; lia).
    pose proof Hcap0 as Hcp. pose proof (cfg_cap_lt_W c Hc) as HcW. fold cap in HcW.
    pose proof I as I0. destruct I. destruct bv_ord0 as (O1 & O2 & O3 & O4 & O5). unfold bnowrap in bv_g0.
    assert (Ei : wrap i = i) by (apply wrap_small; lia).
    set (st1 := mkB (b_head st) (b_tail st) (b_whead st) (b_rtail st) (ring_write c (b_slot st) i ws)
                    (b_gt st) (b_grt st) (b_gval st) (b_gwho st) (b_thr st)).
    assert (Hoth : forall j, (forall k, 0 <= k < wn -> j mod cap <> (i + k) mod cap) -> b_slot st1 (j mod cap) = b_slot st (j mod cap)).
    { intros j Hj. unfold st1; cbn. pose proof (ring_write_other c Hc (b_slot st) i ws (j mod cap)) as R. rewrite Ei in R. apply R.
      intros k Hk. fold cap. apply Hj. lia. }
    assert (I1 : BInv st1).
    { constructor; try assumption.
      - repeat split; assumption.
      - intros q pcq E. change (b_thr st1 q) with (b_thr st q) in E. pose proof (bv_pc0 q pcq E) as Kq.
        destruct pcq; try exact Kq. cbn [bpc_ok] in *. destruct Kq as (A & B & C0 & D & F & G).
        repeat split; try assumption; try (apply G; assumption).
        destruct (Nat.eq_dec q p) as [->|N]; [rewrite Epc in E; discriminate|].
        rewrite Hoth; [apply G; assumption|].
        intros k' Hk'. destruct (bv_wdisj0 q p _ _ i0 wn0 i wn N E Epc eq_refl eq_refl) as [Dj|Dj].
        + apply (slot_ne_of_close cap); lia.
        + intros Es. symmetry in Es. revert Es. apply (slot_ne_of_close cap); lia.
      - intros j Hj. change (b_gval st1 j) with (b_gval st j). rewrite Hoth; [apply bv_data0; exact Hj|].
        intros k Hk. apply (slot_ne_of_close cap); cbn in Hj; lia. }
    apply (binv_goto st1 p (BPushWr one vs i wn i)); try exact I1; try exact Epc; try reflexivity.
    cbn [bpc_ok]. change (b_whead st1) with (b_whead st). change (b_tail st1) with (b_tail st). change (b_gval st1) with (b_gval st).
    repeat split; try lia; try (apply K5; assumption).
    unfold st1; cbn. pose proof (ring_write_at c Hc (b_slot st) i ws k) as R. rewrite Ei in R. apply R; fold cap; lia.
  Qed.

  (* (C3) publication: write_head moves over the interval of its holder, which returns *)
  Lemma binv_publish st p one wn i ws :
    BInv st -> t_pc (b_thr st p) = Some (BPushCasW one i wn i ws) -> b_whead st = i ->
    BInv (b_finish (mkB (b_head st) (b_tail st) (i + wn) (b_rtail st) (b_slot st) (b_gt st) (b_grt st) (b_gval st) (b_gwho st) (b_thr st))
                   p (if one then RPushOk i (hd 0 ws) else RPushB i ws)).
  Proof.
    intros I Epc Ew. pose proof (bv_pc st I p _ Epc) as K. cbn [bpc_ok] in K. destruct K as (_ & K2 & K3 & K4 & K5 & K6).
    set (r := if one then RPushOk i (hd 0 ws) else RPushB i ws).
    set (st' := b_finish _ p r).
    pose proof I as I0. destruct I. destruct bv_ord0 as (O1 & O2 & O3 & O4 & O5).
    assert (Hthr : forall q, q <> p -> b_thr st' q = b_thr st q) by (intros q N; unfold st', b_finish, b_set_thr; cbn; apply upd_other; exact N).
    assert (Hthp : b_thr st' p = thr_finish batch_entry (b_thr st p) r) by (unfold st', b_finish, b_set_thr; cbn; apply upd_same).
    assert (Hro : res_ok st' r).
    { unfold r. destruct one; cbn [res_ok]; change (b_tail st') with (b_tail st); change (b_gval st') with (b_gval st).
      - split; [lia|]. destruct (K6 0 ltac:(lia)) as [G _]. rewrite Z.add_0_r in G. rewrite G. destruct ws; reflexivity.
      - split; [lia|]. intros k Hk. apply K6. lia. }
    constructor; try assumption.
    - unfold st'; cbn. repeat split; lia.
    - intros q pcq E. destruct (Nat.eq_dec q p) as [->|N].
      + rewrite Hthp in E. apply bfinish_pc in E. destruct E as (o & rest & Eo & ->). apply entry_bok.
        pose proof (bv_ops0 p) as F. rewrite Eo in F. inversion F; assumption.
      + rewrite Hthr in E by exact N. pose proof (bv_pc0 q pcq E) as Kq.
        destruct pcq; cbn [bpc_ok] in *; change (b_whead st') with (i + wn); change (b_tail st') with (b_tail st);
          change (b_head st') with (b_head st); change (b_rtail st') with (b_rtail st);
          change (b_gval st') with (b_gval st); change (b_slot st') with (b_slot st); try exact Kq;
          repeat match goal with H : _ /\ _ |- _ => destruct H end;
          repeat match goal with |- _ /\ _ => split end; try assumption; try lia;
          try (match goal with H : ?a = ?b -> _ |- ?a = ?b -> _ => let Hr := fresh in intros Hr; specialize (H Hr); lia end);
          try (destruct (bv_wdisj0 q p _ _ _ _ i wn N E Epc eq_refl eq_refl); lia).
    - intros q. destruct (Nat.eq_dec q p) as [->|N]; [rewrite Hthp; apply bfinish_ops; apply bv_ops0 | rewrite Hthr by exact N; apply bv_ops0].
    - intros q1 q2 pc1 pc2 a k b l N E1 E2 H1 H2.
      assert (A1 : q1 <> p) by (intros Eq; rewrite Eq, Hthp in E1; apply bfinish_pc in E1; destruct E1 as (o & ? & ? & ->); destruct (entry_noint o); congruence).
      assert (A2 : q2 <> p) by (intros Eq; rewrite Eq, Hthp in E2; apply bfinish_pc in E2; destruct E2 as (o & ? & ? & ->); destruct (entry_noint o); congruence).
      rewrite Hthr in E1 by exact A1. rewrite Hthr in E2 by exact A2. apply (bv_wdisj0 q1 q2 pc1 pc2 a k b l N E1 E2 H1 H2).
    - intros q1 q2 pc1 pc2 a k b l N E1 E2 H1 H2.
      assert (A1 : q1 <> p) by (intros Eq; rewrite Eq, Hthp in E1; apply bfinish_pc in E1; destruct E1 as (o & ? & ? & ->); destruct (entry_noint o); congruence).
      assert (A2 : q2 <> p) by (intros Eq; rewrite Eq, Hthp in E2; apply bfinish_pc in E2; destruct E2 as (o & ? & ? & ->); destruct (entry_noint o); congruence).
      rewrite Hthr in E1 by exact A1. rewrite Hthr in E2 by exact A2. apply (bv_rdisj0 q1 q2 pc1 pc2 a k b l N E1 E2 H1 H2).
    - intros j Hj. unfold st' in Hj; cbn in Hj. change (b_slot st' (j mod cap)) with (b_slot st (j mod cap)). change (b_gval st' j) with (b_gval st j).
      destruct (Z_lt_dec j i) as [L|G]; [apply bv_data0; lia|].
      destruct (K6 (j - i) ltac:(lia)) as [G1 G2]. replace (i + (j - i)) with j in * by lia. congruence.
    - intros q x Hx. destruct (Nat.eq_dec q p) as [->|N].
      + rewrite Hthp in Hx. apply bfinish_res in Hx. destruct Hx as [->|Hx]; [exact Hro | apply (bv_res0 p x Hx)].
      + rewrite Hthr in Hx by exact N. apply (bv_res0 q x Hx).
  Qed.

  (* (C5) release: head moves over the interval of its holder, which returns the values it read *)
  Lemma binv_release st p one rn i vs :
    BInv st -> t_pc (b_thr st p) = Some (BPopCasH one i rn i vs) -> b_head st = i ->
    BInv (b_finish (mkB (i + rn) (b_tail st) (b_whead st) (b_rtail st) (b_slot st) (b_gt st) (b_grt st) (b_gval st) (b_gwho st) (b_thr st))
                   p (if one then RPopOk i (hd 0 vs) else RPopB i vs)).
  Proof.
    intros I Epc Eh. pose proof (bv_pc st I p _ Epc) as K. cbn [bpc_ok] in K. destruct K as (_ & K2 & K3 & K4 & K5).
    set (r := if one then RPopOk i (hd 0 vs) else RPopB i vs).
    set (st' := b_finish _ p r).
    pose proof I as I0. destruct I. destruct bv_ord0 as (O1 & O2 & O3 & O4 & O5).
    assert (Hthr : forall q, q <> p -> b_thr st' q = b_thr st q) by (intros q N; unfold st', b_finish, b_set_thr; cbn; apply upd_other; exact N).
    assert (Hthp : b_thr st' p = thr_finish batch_entry (b_thr st p) r) by (unfold st', b_finish, b_set_thr; cbn; apply upd_same).
    assert (Lvs : length vs = Z.to_nat rn) by (rewrite K5, map_length, zseq_length; reflexivity).
    assert (Hro : res_ok st' r).
    { unfold r. destruct one; cbn [res_ok]; change (b_tail st') with (b_tail st); change (b_gval st') with (b_gval st).
      - split; [lia|]. rewrite K5. destruct (Z.to_nat rn) eqn:En; [lia|]. reflexivity.
      - split; [lia|]. split; [rewrite Lvs; lia|]. rewrite Lvs. exact K5. }
    constructor; try assumption.
    - unfold st'; cbn. repeat split; lia.
    - intros q pcq E. destruct (Nat.eq_dec q p) as [->|N].
      + rewrite Hthp in E. apply bfinish_pc in E. destruct E as (o & rest & Eo & ->). apply entry_bok.
        pose proof (bv_ops0 p) as F. rewrite Eo in F. inversion F; assumption.
      + rewrite Hthr in E by exact N. pose proof (bv_pc0 q pcq E) as Kq.
        destruct pcq; cbn [bpc_ok] in *; change (b_whead st') with (b_whead st); change (b_tail st') with (b_tail st);
          change (b_head st') with (i + rn); change (b_rtail st') with (b_rtail st);
          change (b_gval st') with (b_gval st); change (b_slot st') with (b_slot st); try exact Kq;
          repeat match goal with H : _ /\ _ |- _ => destruct H end;
          repeat match goal with |- _ /\ _ => split end; try assumption; try lia;
          try (match goal with H : ?a = ?b -> _ |- ?a = ?b -> _ => let Hr := fresh in intros Hr; specialize (H Hr); lia end);
          try (destruct (bv_rdisj0 q p _ _ _ _ i rn N E Epc eq_refl eq_refl); lia).
    - intros q. destruct (Nat.eq_dec q p) as [->|N]; [rewrite Hthp; apply bfinish_ops; apply bv_ops0 | rewrite Hthr by exact N; apply bv_ops0].
    - intros q1 q2 pc1 pc2 a k b l N E1 E2 H1 H2.
      assert (A1 : q1 <> p) by (intros Eq; rewrite Eq, Hthp in E1; apply bfinish_pc in E1; destruct E1 as (o & ? & ? & ->); destruct (entry_noint o); congruence).
      assert (A2 : q2 <> p) by (intros Eq; rewrite Eq, Hthp in E2; apply bfinish_pc in E2; destruct E2 as (o & ? & ? & ->); destruct (entry_noint o); congruence).
      rewrite Hthr in E1 by exact A1. rewrite Hthr in E2 by exact A2. apply (bv_wdisj0 q1 q2 pc1 pc2 a k b l N E1 E2 H1 H2).
    - intros q1 q2 pc1 pc2 a k b l N E1 E2 H1 H2.
      assert (A1 : q1 <> p) by (intros Eq; rewrite Eq, Hthp in E1; apply bfinish_pc in E1; destruct E1 as (o & ? & ? & ->); destruct (entry_noint o); congruence).
      assert (A2 : q2 <> p) by (intros Eq; rewrite Eq, Hthp in E2; apply bfinish_pc in E2; destruct E2 as (o & ? & ? & ->); destruct (entry_noint o); congruence).
      rewrite Hthr in E1 by exact A1. rewrite Hthr in E2 by exact A2. apply (bv_rdisj0 q1 q2 pc1 pc2 a k b l N E1 E2 H1 H2).
    - intros j Hj. unfold st' in Hj; cbn in Hj. change (b_slot st' (j mod cap)) with (b_slot st (j mod cap)). change (b_gval st' j) with (b_gval st j).
      apply bv_data0. lia.
    - intros q x Hx. destruct (Nat.eq_dec q p) as [->|N].
      + rewrite Hthp in Hx. apply bfinish_res in Hx. destruct Hx as [->|Hx]; [exact Hro | apply (bv_res0 p x Hx)].
      + rewrite Hthr in Hx by exact N. apply (bv_res0 q x Hx).
  Qed.

  Lemma zmin_spec a b : (zmin a b = a /\ a < b) \/ (zmin a b = b /\ b <= a).
  Proof. unfold zmin. destruct (Z.ltb_spec a b); [left|right]; split; auto. Qed.

  Lemma batch_step_inv st p : BInv st -> bnowrap (fst (batch_step c st p)) -> BInv (fst (batch_step c st p)).
  Proof.
    intros I NW. unfold batch_step in *. destruct (t_pc (b_thr st p)) as [pc|] eqn:Epc; [|exact I].
    pose proof (bv_pc st I p pc Epc) as K. pose proof (bv_s st I) as Hs0.
    pose proof (bv_gt st I) as Hgt. pose proof (bv_grt st I) as Hgrt. pose proof (bv_g st I) as Hg. unfold bnowrap in Hg.
    destruct (bv_ord st I) as (O1 & O2 & O3 & O4 & O5).
    pose proof Hcap0 as Hcp. pose proof (cfg_cap_lt_W c Hc) as HcW. fold cap in HcW.
    destruct pc; cbn [bpc_ok] in K; cbn [fst] in *.
    - (* BPushLdT *) apply (binv_goto st p _ _ I Epc); try reflexivity. cbn [bpc_ok]. lia.
    - (* BPushLdH *)
      set (wn := zmin (Z.of_nat (length vs)) (wrap (c_cap c - wrap (wt - b_head st)))) in *.
      assert (Hx : 0 <= wrap (c_cap c - wrap (wt - b_head st))) by apply wrap_range.
      destruct (Z.eqb_spec wn 0) as [E0|N0]; cbn [fst] in *.
      + apply (binv_fail st p _ _ I Epc); try reflexivity.
        destruct one; cbn [res_ok]; [exact Logic.I|]. simpl length. split; [lia|]. intros k Hk. simpl in Hk. lia.
      + apply (binv_goto st p _ _ I Epc); try reflexivity. cbn [bpc_ok].
        destruct (zmin_spec (Z.of_nat (length vs)) (wrap (c_cap c - wrap (wt - b_head st)))) as [[Em Hm]|[Em Hm]]; fold wn in Em.
        * repeat split; try lia. intros ->. rewrite (wrap_small (b_tail st - b_head st)) in Hm by lia.
          fold cap in Hm. rewrite (wrap_small (cap - (b_tail st - b_head st))) in Hm by lia. lia.
        * repeat split; try lia. intros ->. rewrite (wrap_small (b_tail st - b_head st)) in Em by lia.
          fold cap in Em. rewrite (wrap_small (cap - (b_tail st - b_head st))) in Em by lia. lia.
    - (* BPushCasT *) destruct K as (K1 & K2 & K3).
      destruct (Z.eqb_spec (b_tail st) wt) as [Eq|Nq]; cbn [fst] in *.
      + subst wt. specialize (K3 eq_refl). rewrite (wrap_small (b_tail st + wn)) in * by lia.
        apply (binv_claim_tail st p one vs wn I Epc). unfold bnowrap in NW. cbn in NW. fold cap in NW. lia.
      + apply (binv_goto st p _ _ I Epc); try reflexivity. cbn [bpc_ok]. lia.
    - (* BPushWr *) destruct K as (-> & K2). apply binv_write; assumption.
    - (* BPushCasW *) destruct K as (-> & K2 & K3 & K4).
      destruct (Z.eqb_spec (b_whead st) i) as [Eq|Nq]; cbn [fst] in *; [|exact I].
      rewrite (wrap_small (i + wn)) by lia. apply binv_publish; assumption.
    - (* BPopLdRT *) apply (binv_goto st p _ _ I Epc); try reflexivity. cbn [bpc_ok]. lia.
    - (* BPopLdWH *) destruct K as [Kn K].
      set (rn := zmin n (wrap (b_whead st - rt))) in *.
      assert (Hx : 0 <= wrap (b_whead st - rt)) by apply wrap_range.
      destruct (Z.eqb_spec rn 0) as [E0|N0]; cbn [fst] in *.
      + apply (binv_fail st p _ _ I Epc); try reflexivity.
        destruct one; cbn [res_ok]; [exact Logic.I|]. simpl length. repeat split; try lia.
      + apply (binv_goto st p _ _ I Epc); try reflexivity. cbn [bpc_ok].
        destruct (zmin_spec n (wrap (b_whead st - rt))) as [[Em Hm]|[Em Hm]]; fold rn in Em.
        * repeat split; try lia. intros ->. rewrite (wrap_small (b_whead st - b_rtail st)) in Hm by lia. lia.
        * repeat split; try lia. intros ->. rewrite (wrap_small (b_whead st - b_rtail st)) in Em by lia. lia.
    - (* BPopCasRT *) destruct K as (K0 & K1 & K2 & K3).
      destruct (Z.eqb_spec (b_rtail st) rt) as [Eq|Nq]; cbn [fst] in *.
      + subst rt. specialize (K3 eq_refl). rewrite (wrap_small (b_rtail st + rn)) by lia.
        apply (binv_claim_rtail st p one n rn I Epc).
      + apply (binv_goto st p _ _ I Epc); try reflexivity. cbn [bpc_ok]. lia.
    - (* BPopRd *) destruct K as (-> & K2 & K3 & K4).
      apply (binv_goto st p _ _ I Epc); try reflexivity. cbn [bpc_ok]. repeat split; try lia.
      pose proof (ring_read_spec c Hc (b_slot st) i (Z.to_nat rn)) as R. rewrite (wrap_small i) in R by lia. rewrite R.
      apply map_ext_in. intros j Hj. apply zseq_In in Hj. fold cap. apply (bv_data st I). lia.
    - (* BPopCasH *) destruct K as (-> & K2 & K3 & K4 & K5).
      destruct (Z.eqb_spec (b_head st) i) as [Eq|Nq]; cbn [fst] in *; [|exact I].
      rewrite (wrap_small (i + rn)) by lia. apply binv_release; assumption.
  Qed.

  Definition scripts_ok (scripts : list (list op)) : Prop := forall p, Forall bop_ok (nth p scripts []).

  Lemma binit_inv scripts : 0 <= s -> s + cap < W64 -> scripts_ok scripts -> BInv (batch_init s scripts).
  Proof.
    intros H0 HW Hok. pose proof Hcap0 as Hcp.
    assert (Ews : wrap s = s) by (apply wrap_small; lia).
    assert (Hnp : forall p pc, t_pc (b_thr (batch_init s scripts) p) = Some pc -> exists o, pc = batch_entry o /\ bop_ok o).
    { intros p pc E. simpl in E. unfold thr_init in E. specialize (Hok p). destruct (nth p scripts []) as [|o r]; simpl in E; [discriminate|].
      inversion E. exists o. split; [reflexivity|]. inversion Hok; assumption. }
    constructor; cbn [batch_init b_head b_tail b_whead b_rtail b_gt b_grt b_slot b_gval]; rewrite ?Ews; try lia.
    - unfold bnowrap. cbn. rewrite Ews. exact HW.
    - intros p pc E. destruct (Hnp p pc E) as (o & -> & Ho). apply entry_bok; exact Ho.
    - intros p. simpl. unfold thr_init. specialize (Hok p). destruct (nth p scripts []) as [|o r]; simpl; [constructor|]. inversion Hok; assumption.
    - intros p q pc1 pc2 a k b l N E1 E2 H1. destruct (Hnp p pc1 E1) as (o & -> & _). destruct (entry_noint o). congruence.
    - intros p q pc1 pc2 a k b l N E1 E2 H1. destruct (Hnp p pc1 E1) as (o & -> & _). destruct (entry_noint o). congruence.
    - intros p r Hr. simpl in Hr. unfold thr_init in Hr. destruct (nth p scripts []); simpl in Hr; contradiction.
  Qed.

  (* reachable by ANY sequence of participant choices, the index-wrap guard holding all along *)
  Inductive breach_nw (st0 : bstate) : bstate -> Prop :=
  | bnw0 : bnowrap st0 -> breach_nw st0 st0
  | bnwS st p : breach_nw st0 st -> bnowrap (fst (batch_step c st p)) -> breach_nw st0 (fst (batch_step c st p)).

  Lemma breach_inv scripts st : 0 <= s -> s + cap < W64 -> scripts_ok scripts -> breach_nw (batch_init s scripts) st -> BInv st.
  Proof.
    intros H0 HW Hok R. induction R as [NW|st p R IH NW].
    - apply binit_inv; assumption.
    - apply batch_step_inv; assumption.
  Qed.

  Lemma batch_e3step_reach st0 st p f : breach c st0 st -> breach c st0 (fst (batch_e3step c st p f)).
  Proof.
    intros R. unfold batch_e3step.
    destruct (batch_step c st p) as [st1 o] eqn:E1.
    assert (R1 : breach c st0 st1) by (replace st1 with (fst (batch_step c st p)) by (rewrite E1; reflexivity); constructor; exact R).
    destruct (t_pc (b_thr st1 p)) as [pc|]; [|exact R1].
    destruct (batch_silent pc); [|exact R1]. cbn [fst]. constructor. exact R1.
  Qed.
End Batch.
