(* C07_Arith.v — arithmetic facts about the ring index functions of C07_Model.v *)
From Coq Require Import ZArith Znumtheory Lia List Bool.
From PV Require Import Base.U64 C07.C07_Model.
Local Open Scope Z_scope.

(* a configuration the constructor can produce: capacity 2^k, 1 <= k <= 63, shift = k *)
Definition cfg_ok (c : cfg) : Prop := 1 <= c_shift c <= 63 /\ c_cap c = 2 ^ (c_shift c).

Lemma cfg_cap_pos c : cfg_ok c -> 2 <= c_cap c.
Proof.
  intros [Hk Hc]. rewrite Hc.
  replace 2 with (2 ^ 1) at 1 by reflexivity. apply Z.pow_le_mono_r; lia.
Qed.

Lemma cfg_cap_W c : cfg_ok c -> W64 = c_cap c * 2 ^ (lshift c).
Proof.
  intros [Hk Hc]. unfold lshift. rewrite Hc, <- Z.pow_add_r by lia.
  replace (c_shift c + (64 - c_shift c)) with 64 by lia. reflexivity.
Qed.

Lemma cfg_cap_lt_W c : cfg_ok c -> c_cap c < W64.
Proof.
  intros H. destruct H as [Hk Hc]. rewrite Hc. rewrite W64_eq.
  apply Z.pow_lt_mono_r; lia.
Qed.

Lemma cfg_cap_div_W c : cfg_ok c -> (c_cap c | W64).
Proof. intros H. exists (2 ^ lshift c). rewrite (cfg_cap_W c H). lia. Qed.

Lemma idx_mod c x : cfg_ok c -> idx c x = x mod c_cap c.
Proof.
  intros [Hk Hc]. unfold idx, mask. rewrite Hc.
  replace (2 ^ c_shift c - 1) with (Z.ones (c_shift c)) by (rewrite Z.ones_equiv; lia).
  apply Z.land_ones. lia.
Qed.

Lemma turn_div c x : cfg_ok c -> turn c x = x / c_cap c.
Proof. intros [Hk Hc]. unfold turn. rewrite Hc. apply Z.shiftr_div_pow2. lia. Qed.

Lemma wrap_mod_cap c x : cfg_ok c -> (wrap x) mod c_cap c = x mod c_cap c.
Proof.
  intros H. unfold wrap. symmetry. apply Zmod_div_mod.
  - pose proof (cfg_cap_pos c H). lia.
  - exact W64_pos.
  - apply cfg_cap_div_W; exact H.
Qed.

Lemma idx_wrap c x : cfg_ok c -> idx c (wrap x) = x mod c_cap c.
Proof. intros H. rewrite idx_mod by exact H. apply wrap_mod_cap; exact H. Qed.

Lemma idx_range c x : cfg_ok c -> 0 <= idx c x < c_cap c.
Proof. intros H. rewrite idx_mod by exact H. apply Z.mod_pos_bound. pose proof (cfg_cap_pos c H). lia. Qed.

Lemma mask_equal_spec c x y : cfg_ok c ->
  mask_equal c x y = true <-> x mod c_cap c = y mod c_cap c.
Proof.
  intros H. unfold mask_equal. rewrite Z.eqb_eq. unfold wrap.
  assert (Hl : 0 <= lshift c) by (destruct H; unfold lshift; lia).
  rewrite !Z.shiftl_mul_pow2 by exact Hl.
  rewrite (cfg_cap_W c H).
  assert (Hp : 0 < 2 ^ lshift c) by (apply Z.pow_pos_nonneg; lia).
  pose proof (cfg_cap_pos c H) as Hc.
  rewrite !Z.mul_mod_distr_r by lia.
  split; intros E.
  - apply Z.mul_cancel_r in E; lia.
  - rewrite E. reflexivity.
Qed.

Lemma wrap_eq_iff x y : wrap x = wrap y <-> (x - y) mod W64 = 0.
Proof.
  unfold wrap. pose proof W64_pos.
  split; intros E.
  - rewrite Zminus_mod, E, Z.sub_diag. reflexivity.
  - replace x with (y + (x - y)) by lia. rewrite Zplus_mod, E, Z.add_0_r, Z.mod_mod; lia.
Qed.

(* full / empty tests on wrapped indices, in terms of the ghost absolute indices *)
Lemma check_empty_wrap c gh gt : cfg_ok c -> 0 <= gt - gh <= c_cap c ->
  check_empty (wrap gh) (wrap gt) = true <-> gt = gh.
Proof.
  intros H Hr. unfold check_empty. rewrite Z.eqb_eq, wrap_eq_iff.
  pose proof (cfg_cap_lt_W c H).
  split; intros E.
  - destruct (Z.eq_dec gt gh) as [|N]; [assumption|].
    assert (0 < gt - gh < W64) by lia.
    replace (gh - gt) with (-(gt - gh)) in E by lia.
    apply Z_mod_zero_opp_full in E. rewrite Z.opp_involutive in E.
    rewrite Z.mod_small in E; lia.
  - subst. rewrite Z.sub_diag. reflexivity.
Qed.

Lemma mod_eq_diff c a b : 0 < c -> a mod c = b mod c <-> (a - b) mod c = 0.
Proof.
  intros Hc. split; intros E.
  - rewrite Zminus_mod, E, Z.sub_diag. apply Z.mod_0_l. lia.
  - replace a with (b + (a - b)) by lia. rewrite Zplus_mod, E, Z.add_0_r, Z.mod_mod; lia.
Qed.

Lemma check_full_wrap c gh gt : cfg_ok c -> 0 <= gt - gh <= c_cap c ->
  check_full c (wrap gh) (wrap gt) = true <-> gt - gh = c_cap c.
Proof.
  intros H Hr. unfold check_full. rewrite andb_true_iff, negb_true_iff.
  pose proof (cfg_cap_pos c H) as Hc.
  assert (E0 : (wrap gh =? wrap gt) = false <-> gt <> gh).
  { rewrite <- not_true_iff_false. pose proof (check_empty_wrap c gh gt H Hr) as Q.
    unfold check_empty in Q. rewrite Q. tauto. }
  rewrite E0, mask_equal_spec by exact H.
  rewrite !wrap_mod_cap by exact H.
  rewrite mod_eq_diff by lia.
  split.
  - intros [Hne Hm].
    destruct (Z.eq_dec (gt - gh) (c_cap c)) as [|N]; [assumption|].
    assert (0 < gt - gh < c_cap c) by lia.
    replace (gh - gt) with (-(gt - gh)) in Hm by lia.
    apply Z_mod_zero_opp_full in Hm. rewrite Z.opp_involutive in Hm.
    rewrite Z.mod_small in Hm; lia.
  - intros E. split; [lia|].
    replace (gh - gt) with (-1 * c_cap c) by lia. apply Z_mod_mult.
Qed.

(* u64 differences of in-range ghost indices *)
Lemma wrap_diff gh gt : 0 <= gt - gh < W64 -> wrap (wrap gt - wrap gh) = gt - gh.
Proof.
  intros Hr. unfold wrap. rewrite <- Zminus_mod. apply Z.mod_small. exact Hr.
Qed.

Lemma wrap_add_wrap x n : wrap (wrap x + n) = wrap (x + n).
Proof. unfold wrap. rewrite Zplus_mod_idemp_l. reflexivity. Qed.

(* two indices mapped to the same slot *)
Lemma same_slot_lt c i j : 0 < c -> i mod c = j mod c -> i < j -> i / c + 1 <= j / c.
Proof.
  intros Hc E L.
  pose proof (Z.div_mod i c ltac:(lia)). pose proof (Z.div_mod j c ltac:(lia)).
  pose proof (Z.mod_pos_bound i c Hc). 
  assert (c * (i / c) < c * (j / c)) by lia.
  assert (i / c < j / c) by (apply (Z.mul_lt_mono_pos_l c); lia). lia.
Qed.

Lemma same_slot_eq c i j : 0 < c -> i mod c = j mod c -> i / c = j / c -> i = j.
Proof.
  intros Hc E D.
  pose proof (Z.div_mod i c ltac:(lia)). pose proof (Z.div_mod j c ltac:(lia)). rewrite D, E in *. lia.
Qed.

Lemma slot_ne_of_close c i j : 0 < c -> i < j < i + c -> i mod c <> j mod c.
Proof.
  intros Hc R E.
  pose proof (same_slot_lt c i j Hc E ltac:(lia)).
  pose proof (Z.div_mod i c ltac:(lia)). pose proof (Z.div_mod j c ltac:(lia)).
  pose proof (Z.mod_pos_bound i c Hc). pose proof (Z.mod_pos_bound j c Hc).
  assert (c * (i / c) + c <= c * (j / c)) by nia. lia.
Qed.
