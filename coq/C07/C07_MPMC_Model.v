(* C07_MPMC_Model.v — LockfreeMPMCRingQueue (lockfree_queue.h 189-301): push / pop (CAS variant,
   227-271) and send / recv (ticket variant, 273-300) with the per-slot turn marks.
   One logged transition per atomic operation and per Pause::pause() iteration; the non-atomic
   slot accesses `slot = x` / `x = slot` are separate SILENT transitions (MPushWr / MPopRd), fused
   by the E3 replay function with the logged transition before them.
   Ghost: m_gh / m_gt count the claims on head / tail without wrapping (absolute indices),
   m_gval i / m_gwho i = value / producer of the element with absolute index i.                 *)
From Coq Require Import ZArith List Bool Arith.
From PV Require Import Base.U64 E3.E3_Run C07.C07_Model.
Import ListNotations.
Local Open Scope Z_scope.

Inductive mpc :=
(* push(x), 227-248 *)
| MPushLdT (v : Z)                    (* 228  t = tail.load(acquire)                                   *)
| MPushLdM (v t : Z)                  (* 233  mark.load(acquire) == last_turn_read(t) ?                *)
| MPushCas (v t : Z)                  (* 234  tail.compare_exchange_strong(t, t+1)                     *)
| MPushLdH (v t : Z)                  (* 241  h = head.load(acquire)             (else branch)         *)
| MPushLdT2 (v prev h : Z)            (* 242-245  t = tail.load; t==prev && check_full(h,t) ? false    *)
(* common tail of push and send *)
| MPushWr (snd : bool) (v t i : Z)    (* 235 / 283  slot = x                     (silent)              *)
| MPushStM (snd : bool) (v t i : Z)   (* 236 / 284  mark.store(this_turn_write(t), release)            *)
(* pop(x), 250-271 *)
| MPopLdH                             (* 251 *)
| MPopLdM (h : Z)                     (* 256  mark.load == this_turn_write(h) ?                        *)
| MPopCas (h : Z)                     (* 257  head.compare_exchange_strong(h, h+1)                     *)
| MPopLdT (h : Z)                     (* 264  t = tail.load(acquire)             (else branch)         *)
| MPopLdH2 (prev t : Z)               (* 265-268  h = head.load; h==prev && check_empty(h,t) ? false   *)
(* common tail of pop and recv *)
| MPopRd (rcv : bool) (h i : Z)       (* 258 / 297  x = slot                     (silent)              *)
| MPopStM (rcv : bool) (h i v : Z)    (* 259 / 298  mark.store(this_turn_read(h), release)             *)
(* send(x), 273-285 *)
| MSendFa (v : Z)                     (* 277  t = tail.fetch_add(1)                                    *)
| MSendLdM (v t i : Z)                (* 281  while (mark.load(acquire) != last_turn_read(t))          *)
| MSendSp (v t i : Z)                 (* 282      Pause::pause()                                       *)
(* recv(), 287-300 *)
| MRecvFa                             (* 291  h = head.fetch_add(1)                                    *)
| MRecvLdM (h i : Z)                  (* 295  while (mark.load(acquire) != this_turn_write(h))         *)
| MRecvSp (h i : Z).                  (* 296      Pause::pause()                                       *)

Definition mpmc_entry (o : op) : mpc :=
  match o with
  | OPush v => MPushLdT v
  | OPop => MPopLdH
  | OSend v => MSendFa v
  | ORecv => MRecvFa
  | OPushB vs => MPushLdT (hd 0 vs)      (* batch ops do not exist on this queue *)
  | OPopB _ => MPopLdH
  end.

Record mstate := mkM {
  m_head : Z; m_tail : Z;
  m_mark : Z -> Z;                   (* slots[i].mark *)
  m_slot : Z -> Z;                   (* slots[i].data *)
  m_gh : Z; m_gt : Z;                (* GHOST absolute head / tail *)
  m_gval : Z -> Z;                   (* GHOST value of element i    *)
  m_gwho : Z -> nat;                 (* GHOST producer of element i *)
  m_gpop : Z -> nat;                 (* GHOST consumer that claimed element i *)
  m_thr : nat -> thr mpc }.

Definition m_set_thr (st : mstate) (p : nat) (th : thr mpc) : mstate :=
  mkM (m_head st) (m_tail st) (m_mark st) (m_slot st) (m_gh st) (m_gt st) (m_gval st) (m_gwho st) (m_gpop st) (upd (m_thr st) p th).
Definition m_goto (st : mstate) (p : nat) (pc : mpc) : mstate := m_set_thr st p (thr_goto (m_thr st p) pc).
Definition m_finish (st : mstate) (p : nat) (r : res) : mstate := m_set_thr st p (thr_finish mpmc_entry (m_thr st p) r).
Definition m_set_mark (st : mstate) (j v : Z) : mstate :=
  mkM (m_head st) (m_tail st) (updZ (m_mark st) j v) (m_slot st) (m_gh st) (m_gt st) (m_gval st) (m_gwho st) (m_gpop st) (m_thr st).
Definition m_set_slot (st : mstate) (j v : Z) : mstate :=
  mkM (m_head st) (m_tail st) (m_mark st) (updZ (m_slot st) j v) (m_gh st) (m_gt st) (m_gval st) (m_gwho st) (m_gpop st) (m_thr st).
(* a producer claims the next tail index: tail := wrap(t+1); ghost: element m_gt gets (v, p) *)
Definition m_claim_tail (st : mstate) (p : nat) (t' v : Z) : mstate :=
  mkM (m_head st) t' (m_mark st) (m_slot st) (m_gh st) (m_gt st + 1)
      (updZ (m_gval st) (m_gt st) v) (updZ (m_gwho st) (m_gt st) p) (m_gpop st) (m_thr st).
Definition m_claim_head (st : mstate) (p : nat) (h' : Z) : mstate :=
  mkM h' (m_tail st) (m_mark st) (m_slot st) (m_gh st + 1) (m_gt st) (m_gval st) (m_gwho st)
      (updZ (m_gpop st) (m_gh st) p) (m_thr st).

Definition mpmc_step (c : cfg) (st : mstate) (p : nat) : mstate * obs :=
  match t_pc (m_thr st p) with
  | None => (st, ob_none)
  | Some pc =>
    match pc with
    | MPushLdT v => (m_goto st p (MPushLdM v (m_tail st)), ob_ld A_TAIL (-1) (m_tail st))
    | MPushLdM v t =>
        let m := m_mark st (idx c t) in
        (m_goto st p (if m =? last_turn_read c t then MPushCas v t else MPushLdH v t), ob_ld A_MARK (idx c t) m)
    | MPushCas v t =>
        let cur := m_tail st in
        let t' := wrap (t + 1) in
        if cur =? t
        then (m_goto (m_claim_tail st p t' v) p (MPushWr false v t (m_gt st)), ob_cas A_TAIL (-1) t t' cur true)
        else (m_goto st p (MPushLdM v cur), ob_cas A_TAIL (-1) t t' cur false)
    | MPushLdH v t => (m_goto st p (MPushLdT2 v t (m_head st)), ob_ld A_HEAD (-1) (m_head st))
    | MPushLdT2 v prev h =>
        let t := m_tail st in
        if (t =? prev) && check_full c h t then (m_finish st p RPushFail, ob_ld A_TAIL (-1) t)
        else (m_goto st p (MPushLdM v t), ob_ld A_TAIL (-1) t)
    | MPushWr snd v t i => (m_goto (m_set_slot st (idx c t) v) p (MPushStM snd v t i), ob_none)
    | MPushStM snd v t i =>
        let m := this_turn_write c t in
        (m_finish (m_set_mark st (idx c t) m) p (if snd then RSent i v else RPushOk i v), ob_st A_MARK (idx c t) m)
    | MPopLdH => (m_goto st p (MPopLdM (m_head st)), ob_ld A_HEAD (-1) (m_head st))
    | MPopLdM h =>
        let m := m_mark st (idx c h) in
        (m_goto st p (if m =? this_turn_write c h then MPopCas h else MPopLdT h), ob_ld A_MARK (idx c h) m)
    | MPopCas h =>
        let cur := m_head st in
        let h' := wrap (h + 1) in
        if cur =? h
        then (m_goto (m_claim_head st p h') p (MPopRd false h (m_gh st)), ob_cas A_HEAD (-1) h h' cur true)
        else (m_goto st p (MPopLdM cur), ob_cas A_HEAD (-1) h h' cur false)
    | MPopLdT h => (m_goto st p (MPopLdH2 h (m_tail st)), ob_ld A_TAIL (-1) (m_tail st))
    | MPopLdH2 prev t =>
        let h := m_head st in
        if (h =? prev) && check_empty h t then (m_finish st p RPopFail, ob_ld A_HEAD (-1) h)
        else (m_goto st p (MPopLdM h), ob_ld A_HEAD (-1) h)
    | MPopRd rcv h i => (m_goto st p (MPopStM rcv h i (m_slot st (idx c h))), ob_none)
    | MPopStM rcv h i v =>
        let m := this_turn_read c h in
        (m_finish (m_set_mark st (idx c h) m) p (if rcv then RRecv i v else RPopOk i v), ob_st A_MARK (idx c h) m)
    | MSendFa v =>
        let t := m_tail st in
        (m_goto (m_claim_tail st p (wrap (t + 1)) v) p (MSendLdM v t (m_gt st)), ob_fa A_TAIL (-1) 1 t)
    | MSendLdM v t i =>
        let m := m_mark st (idx c t) in
        (m_goto st p (if m =? last_turn_read c t then MPushWr true v t i else MSendSp v t i), ob_ld A_MARK (idx c t) m)
    | MSendSp v t i => (m_goto st p (MSendLdM v t i), ob_sp)
    | MRecvFa =>
        let h := m_head st in
        (m_goto (m_claim_head st p (wrap (h + 1))) p (MRecvLdM h (m_gh st)), ob_fa A_HEAD (-1) 1 h)
    | MRecvLdM h i =>
        let m := m_mark st (idx c h) in
        (m_goto st p (if m =? this_turn_write c h then MPopRd true h i else MRecvSp h i), ob_ld A_MARK (idx c h) m)
    | MRecvSp h i => (m_goto st p (MRecvLdM h i), ob_sp)
    end
  end.

Definition mpmc_silent (pc : mpc) : bool :=
  match pc with MPushWr _ _ _ _ | MPopRd _ _ _ => true | _ => false end.

Definition mpmc_e3step (c : cfg) (st : mstate) (p : nat) (_ : nat) : mstate * obs :=
  let '(st1, o) := mpmc_step c st p in
  match t_pc (m_thr st1 p) with
  | Some pc => if mpmc_silent pc then (fst (mpmc_step c st1 p), o) else (st1, o)
  | None => (st1, o)
  end.

Definition mpmc_fin (st : mstate) (p : nat) : bool :=
  match t_pc (m_thr st p) with None => true | Some _ => false end.

(* mark of slot j in the quiescent empty queue whose indices stand at `start`:
   last_turn_read of the next index >= start that maps to slot j *)
Definition init_mark (c : cfg) (start : Z) (j : Z) : Z :=
  let base := start - idx c start in               (* first index of start's turn *)
  let nxt := if j <? idx c start then base + j + c_cap c else base + j in
  last_turn_read c nxt.

Definition mpmc_init (c : cfg) (start : Z) (scripts : list (list op)) : mstate :=
  mkM (wrap start) (wrap start) (init_mark c start) (fun _ => 0) start start (fun _ => 0) (fun _ => O) (fun _ => O)
      (fun p => thr_init mpmc_entry (nth p scripts [])).

Definition mpmc_run (c : cfg) (bound : nat) (sched : list nat) (start : Z) (scripts : list (list op)) :=
  e3_run (mpmc_e3step c) mpmc_fin (length scripts) bound sched (pred (length scripts)) (mpmc_init c start scripts) [].
