(* C07_ChanQ_Proofs.v — RingChannel over the fine-grained MPMC queue (product model C07_ChanQ_Model.v) REFINES RingChannel over
   the atomic FIFO (C07_Chan_Model.v): for every run of the product model (any number of participants, any scripts, any
   schedule, any time-out pattern, below the 2^64 index wrap) there is a run of the atomic-FIFO protocol model whose state
   agrees with it on all protocol variables and semaphores, has the abstract queue absq as its FIFO, and whose participants
   stand at the same program points — except that a participant inside a queue call whose linearisation point has passed
   already stands behind the call (with the result the call will return).  The linearisation point of a failing call is only
   known by looking ahead in the schedule (`doomed`: the participant's next step completes the call with false), which is why
   the relation is indexed by the remaining schedule (a prophecy variable).  Consequently the channel theorems
   chan_no_lost_wakeup / chan_no_lost_wakeup_sender, proved over the atomic FIFO, hold for the product model. *)
From Coq Require Import ZArith Znumtheory Lia List Bool Arith Sorted.
From PV Require Import Base.U64 E3.E3_Run C07.C07_Model C07.C07_Arith C07.C07_Lists C07.C07_MPMC_Model C07.C07_MPMC_Proofs
  C07.C07_MPMC_Report C07.C07_MPMC_Linear C07.C07_Chan_Model C07.C07_Chan_Proofs C07.C07_ChanQ_Model.
Import ListNotations.
Local Open Scope Z_scope.

Ltac mstep_split :=
  cbn [fst];
  repeat match goal with |- context [if ?b then _ else _] => destruct b eqn:? end;
  unfold m_finish, m_goto, m_set_thr, m_set_mark, m_set_slot, m_claim_tail, m_claim_head;
  cbn [fst m_head m_tail m_mark m_slot m_gh m_gt m_gval m_gwho m_gpop m_thr].

(* ---------------- program points of a push(v) / of a pop of the CAS variant ---------------- *)
Definition push_pc (v : Z) (q : mpc) : Prop :=
  match q with
  | MPushLdT v' | MPushLdM v' _ | MPushCas v' _ | MPushLdH v' _ | MPushLdT2 v' _ _ => v' = v
  | MPushWr snd v' _ _ | MPushStM snd v' _ _ => snd = false /\ v' = v
  | _ => False
  end.
Definition pop_pc (q : mpc) : Prop :=
  match q with
  | MPopLdH | MPopLdM _ | MPopCas _ | MPopLdT _ | MPopLdH2 _ _ => True
  | MPopRd rcv _ _ | MPopStM rcv _ _ _ => rcv = false
  | _ => False
  end.
Definition site_ok (pc : cpc) (q : mpc) : Prop :=
  match pc with CSPush1 v | CSPush2 v _ => push_pc v q | CRPop1 | CRPop2 _ => pop_pc q | _ => False end.

Lemma finish_empty_ops (th : thr mpc) r : t_ops th = [] -> thr_finish mpmc_entry th r = mkThr None [] (r :: t_res th).
Proof. intros E. unfold thr_finish. rewrite E. reflexivity. Qed.

(* a queue thread with an empty script: its step either stays inside the call at a program point of the same kind, or
   finishes (t_pc = None) *)
Lemma site_step c st p pc q :
  t_ops (m_thr st p) = [] -> t_pc (m_thr st p) = Some q -> site_ok pc q ->
  t_ops (m_thr (fst (mpmc_step c st p)) p) = [] /\
  forall q', t_pc (m_thr (fst (mpmc_step c st p)) p) = Some q' -> site_ok pc q'.
Proof.
  intros Eo E. unfold mpmc_step. rewrite E.
  assert (F : forall r, t_ops (thr_finish mpmc_entry (m_thr st p) r) = [] /\
              forall q', t_pc (thr_finish mpmc_entry (m_thr st p) r) = Some q' -> site_ok pc q').
  { intros r. rewrite (finish_empty_ops _ r Eo). split; [reflexivity | discriminate]. }
  destruct pc; cbn [site_ok]; try contradiction;
    destruct q; cbn [push_pc pop_pc]; intros H; try contradiction; mstep_split; rewrite upd_same;
    try (apply F);
    (split; [exact Eo|]); intros q' E'; cbn [thr_goto t_pc] in E'; inversion E'; subst q'; cbn [push_pc pop_pc]; tauto.
Qed.

Section ChanQ.
  Variable c : cfg.
  Hypothesis Hc : cfg_ok c.
  Variable s : Z.
  Hypothesis Hs0 : 0 <= s.
  Variable Y : Z.
  Let cap := c_cap c.

  (* ---------------- an idle queue thread starts a call: the queue invariant is not affected ---------------- *)
  Lemma inv_start st p o : MInv c s st -> t_pc (m_thr st p) = None ->
    MInv c s (m_set_thr st p (mkThr (Some (mpmc_entry o)) [] (t_res (m_thr st p)))).
  Proof.
    intros I En. set (th' := mkThr (Some (mpmc_entry o)) [] (t_res (m_thr st p))). set (st' := m_set_thr st p th').
    assert (Hthr : forall q, q <> p -> m_thr st' q = m_thr st q) by (intros q N; unfold st', m_set_thr; simpl; apply upd_other; exact N).
    assert (Hthp : m_thr st' p = th') by (unfold st', m_set_thr; simpl; apply upd_same).
    assert (Hpu : forall q, pushed st' q = pushed st q).
    { intros q. unfold pushed, chron. destruct (Nat.eq_dec q p) as [->|N]; [rewrite Hthp; reflexivity | rewrite Hthr by exact N; reflexivity]. }
    assert (Hpo : forall q, popped st' q = popped st q).
    { intros q. unfold popped, chron. destruct (Nat.eq_dec q p) as [->|N]; [rewrite Hthp; reflexivity | rewrite Hthr by exact N; reflexivity]. }
    destruct (entry_nohold o) as [Hw Hr].
    assert (Hfw : forall q pcq, t_pc (m_thr st' q) = Some pcq -> (whold pcq <> None \/ rhold pcq <> None) -> t_pc (m_thr st q) = Some pcq).
    { intros q pcq E Hh. destruct (Nat.eq_dec q p) as [->|N].
      - rewrite Hthp in E. cbn in E. inversion E; subst pcq. rewrite Hw, Hr in Hh. destruct Hh; congruence.
      - rewrite Hthr in E by exact N. exact E. }
    assert (Hbw : forall q pc0, t_pc (m_thr st q) = Some pc0 -> t_pc (m_thr st' q) = Some pc0).
    { intros q pc0 E. assert (q <> p) by (intros ->; congruence). rewrite Hthr by assumption. exact E. }
    assert (Hwf' : forall i, wfree st' i -> wfree st i) by (intros i F q pc0 E0; apply (F q pc0); apply Hbw; exact E0).
    assert (Hrf' : forall i, rfree st' i -> rfree st i) by (intros i F q pc0 E0; apply (F q pc0); apply Hbw; exact E0).
    assert (Hwb' : forall i, wbusy st' i -> wbusy st i).
    { intros i (q & pcq & E & Hh). exists q, pcq. split; [apply Hfw; [exact E | left; congruence] | exact Hh]. }
    assert (Hrb' : forall i, rbusy st' i -> rbusy st i).
    { intros i (q & pcq & E & Hh). exists q, pcq. split; [apply Hfw; [exact E | right; congruence] | exact Hh]. }
    destruct I as [mv_s0 mv_head0 mv_tail0 mv_lo0 mv_g0 mv_pc0 mv_wuniq0 mv_runiq0 mv_wpub0 mv_wunp0 mv_rdone0 mv_rund0 mv_data0 mv_push0 mv_pop0 mv_psort0 mv_csort0 mv_wall0 mv_rall0].
    constructor; try assumption.
    - intros q pcq E. destruct (Nat.eq_dec q p) as [->|N].
      + rewrite Hthp in E. cbn in E. inversion E. apply entry_ok.
      + rewrite Hthr in E by exact N. apply (pc_ok_ext c s st st'); try reflexivity; [apply Hpu | apply Hpo | apply mv_pc0; exact E].
    - intros q1 q2 pc1 pc2 i E1 E2 H1 H2.
      apply (mv_wuniq0 q1 q2 pc1 pc2 i); try assumption; apply Hfw; try assumption; left; congruence.
    - intros q1 q2 pc1 pc2 i E1 E2 H1 H2.
      apply (mv_runiq0 q1 q2 pc1 pc2 i); try assumption; apply Hfw; try assumption; right; congruence.
    - intros i Hi F. apply mv_wpub0; [exact Hi | apply Hwf'; exact F].
    - intros i Hi [G|B]; apply mv_wunp0; auto.
    - intros i Hi F. apply mv_rdone0; [exact Hi | apply Hrf'; exact F].
    - intros i Hi [G|B]; apply mv_rund0; auto.
    - intros q i v. rewrite Hpu. apply mv_push0.
    - intros q i v. rewrite Hpo. apply mv_pop0.
    - intros q. rewrite Hpu. apply mv_psort0.
    - intros q. rewrite Hpo. apply mv_csort0.
    - intros i Hi. rewrite Hpu. destruct (mv_wall0 i Hi) as [L|(pc0 & E0 & Hh)]; [left; exact L|right].
      exists pc0. split; [apply Hbw; exact E0 | exact Hh].
    - intros i Hi. rewrite Hpo. destruct (mv_rall0 i Hi) as [L|(pc0 & E0 & Hh)]; [left; exact L|right].
      exists pc0. split; [apply Hbw; exact E0 | exact Hh].
  Qed.

  (* ---------------- facts about chan_step away from the call sites ---------------- *)
  Definition cfields (st : cstate) := (c_idler st, c_pending st, c_swait st, c_spend st, c_qsem st, c_ssem st).

  Ltac cunf :=
    unfold recv_done, c_finish, c_goto, c_set_thr, c_with_q, c_push, c_pop, c_with_idler, c_with_pending,
           c_with_swait, c_with_spend, c_with_qsem, c_with_ssem in *;
    cbn [fst c_q c_idler c_pending c_swait c_spend c_qsem c_ssem c_epoch c_tep c_fepoch c_tfep c_thr] in *.

  Lemma chan_step_other st p f q : q <> p -> c_thr (fst (chan_step cap Y st p f)) q = c_thr st q.
  Proof.
    intros N. unfold chan_step. destruct (t_pc (c_thr st p)) as [pc|]; [|reflexivity].
    destruct pc; cbn [fst]; unfold recv_done;
      repeat match goal with
             | |- context [if ?b then _ else _] => destruct b
             | |- context [match c_q ?s with [] => _ | _ :: _ => _ end] => destruct (c_q s)
             end; cunf; try reflexivity; apply upd_other; exact N.
  Qed.

  Lemma chan_step_nonsite st1 st2 q f pc :
    t_pc (c_thr st1 q) = Some pc -> is_site pc = false -> c_thr st2 q = c_thr st1 q -> cfields st2 = cfields st1 ->
    cfields (fst (chan_step cap Y st2 q f)) = cfields (fst (chan_step cap Y st1 q f)) /\
    c_thr (fst (chan_step cap Y st2 q f)) q = c_thr (fst (chan_step cap Y st1 q f)) q /\
    c_q (fst (chan_step cap Y st2 q f)) = c_q st2.
  Proof.
    intros E Hs Et Hf. unfold cfields in Hf. injection Hf as E1 E2 E3 E4 E5 E6.
    unfold chan_step. rewrite Et, E.
    destruct pc; try discriminate; cbn [fst]; unfold recv_done; rewrite ?E1, ?E2, ?E3, ?E4, ?E5, ?E6;
      repeat match goal with |- context [if ?b then _ else _] => destruct b end;
      unfold cfields; cunf; rewrite ?upd_same, ?Et, ?E1, ?E2, ?E3, ?E4, ?E5, ?E6; repeat split; reflexivity.
  Qed.

  (* ---------------- the product invariant ---------------- *)
  Definition thr_ok (st : xstate) (p : nat) : Prop :=
    t_ops (m_thr (x_m st) p) = [] /\
    match t_pc (c_thr (x_c st) p) with
    | Some pc => if is_site pc then exists q, t_pc (m_thr (x_m st) p) = Some q /\ site_ok pc q
                 else t_pc (m_thr (x_m st) p) = None
    | None => t_pc (m_thr (x_m st) p) = None
    end.

  Record Good (st : xstate) : Prop := mkGood {
    g_inv : MInv c s (x_m st);
    g_le : m_gh (x_m st) <= m_gt (x_m st);
    g_ge : m_gt (x_m st) <= m_gh (x_m st) + cap;
    g_thr : forall p, thr_ok st p;
  }.

  Lemma site_entry_spec pc : if is_site pc then exists e o, site_entry pc = Some e /\ e = mpmc_entry o /\ site_ok pc e
                             else site_entry pc = None.
  Proof.
    destruct pc; simpl; try reflexivity.
    - exists (MPushLdT v), (OPush v). repeat split; reflexivity.
    - exists (MPushLdT v), (OPush v). repeat split; reflexivity.
    - exists MPopLdH, OPop. repeat split; reflexivity.
    - exists MPopLdH, OPop. repeat split; reflexivity.
  Qed.

  Lemma arm_frame cst mst p :
    m_head (arm cst mst p) = m_head mst /\ m_tail (arm cst mst p) = m_tail mst /\ m_gh (arm cst mst p) = m_gh mst /\
    m_gt (arm cst mst p) = m_gt mst /\ m_gval (arm cst mst p) = m_gval mst /\
    (forall q, q <> p -> m_thr (arm cst mst p) q = m_thr mst q).
  Proof.
    unfold arm. destruct (t_pc (c_thr cst p)) as [pc|]; [|repeat split; reflexivity].
    destruct (site_entry pc); repeat split; try reflexivity. intros q N. unfold m_set_thr. simpl. apply upd_other; exact N.
  Qed.

  Lemma arm_inv cst mst p : MInv c s mst -> t_pc (m_thr mst p) = None -> MInv c s (arm cst mst p).
  Proof.
    intros I En. unfold arm. destruct (t_pc (c_thr cst p)) as [pc|]; [|exact I].
    pose proof (site_entry_spec pc) as S. destruct (is_site pc).
    - destruct S as (e & o & -> & -> & _). apply inv_start; assumption.
    - rewrite S. exact I.
  Qed.

  Lemma arm_thr cst mst p : t_pc (m_thr mst p) = None -> t_ops (m_thr mst p) = [] ->
    t_ops (m_thr (arm cst mst p) p) = [] /\
    match t_pc (c_thr cst p) with
    | Some pc => if is_site pc then exists q, t_pc (m_thr (arm cst mst p) p) = Some q /\ site_ok pc q /\ site_entry pc = Some q
                 else t_pc (m_thr (arm cst mst p) p) = None
    | None => t_pc (m_thr (arm cst mst p) p) = None
    end.
  Proof.
    intros En Eo. unfold arm. destruct (t_pc (c_thr cst p)) as [pc|]; [|auto].
    pose proof (site_entry_spec pc) as S. destruct (is_site pc).
    - destruct S as (e & o & -> & E2 & E3). unfold m_set_thr. simpl. rewrite upd_same. simpl. split; [reflexivity|]. exists e. auto.
    - rewrite S. auto.
  Qed.

  Lemma norecv_of_good st : Good st -> norecv (x_m st) /\ nosend (x_m st).
  Proof.
    intros G. split; intros p; destruct (g_thr st G p) as [Eo T]; rewrite Eo.
    - split; [|simpl; tauto]. intros E. destruct (t_pc (c_thr (x_c st) p)) as [pc|]; [|congruence].
      destruct (is_site pc) eqn:Es; [|congruence]. destruct T as (q & Eq & Sq). rewrite E in Eq. inversion Eq; subst q.
      destruct pc; simpl in Sq; contradiction.
    - split; [|simpl; tauto]. intros v E. destruct (t_pc (c_thr (x_c st) p)) as [pc|]; [|congruence].
      destruct (is_site pc) eqn:Es; [|congruence]. destruct T as (q & Eq & Sq). rewrite E in Eq. inversion Eq; subst q.
      destruct pc; simpl in Sq; contradiction.
  Qed.

  Lemma after_call_pc cst p pc r : is_site pc = true ->
    (forall q, q <> p -> c_thr (after_call cst p pc r) q = c_thr cst q) /\
    cfields (after_call cst p pc r) = cfields cst /\
    exists pc', c_thr (after_call cst p pc r) p = thr_goto (c_thr cst p) pc' /\ is_site pc' = false.
  Proof.
    intros Hs. destruct pc; try discriminate; cbn [after_call]; destruct r;
      repeat match goal with |- context [if ?b then _ else _] => destruct b end;
      (split; [intros q N; cunf; apply upd_other; exact N|]); (split; [reflexivity|]);
      eexists; (split; [cunf; apply upd_same | reflexivity]).
  Qed.

  Lemma good_step st p f : Good st -> nowrap c (x_m (x_step c Y st p f)) -> Good (x_step c Y st p f).
  Proof.
    intros G NW. unfold x_step in *. destruct (t_pc (c_thr (x_c st) p)) as [pc|] eqn:Epc; [|exact G].
    destruct (norecv_of_good st G) as [NR NS].
    destruct (g_thr st G p) as [Eo T]. rewrite Epc in T.
    destruct (is_site pc) eqn:Es.
    - (* a step inside the queue call *)
      destruct T as (q & Eq & Sq).
      destruct (site_step c (x_m st) p pc q Eo Eq Sq) as [Eo' Sq'].
      set (mst' := fst (mpmc_step c (x_m st) p)) in *.
      assert (NW' : nowrap c mst').
      { destruct (t_pc (m_thr mst' p)); [exact NW|]. cbn [x_m] in NW. unfold nowrap in *.
        destruct (arm_frame (after_call (x_c st) p pc (hd RPopFail (t_res (m_thr mst' p)))) mst' p) as (_ & _ & A & B & _). rewrite A, B in NW. exact NW. }
      assert (I' : MInv c s mst') by (apply (mpmc_step_inv c Hc s); [apply (g_inv st G) | exact NW']).
      assert (Le' : m_gh mst' <= m_gt mst') by (apply (le_step c s); [apply (g_inv st G) | exact NR | apply (g_le st G)]).
      assert (Ge' : m_gt mst' <= m_gh mst' + cap) by (apply (ge_step c Hc s); [apply (g_inv st G) | exact NS | apply (g_ge st G)]).
      assert (Hoth : forall r, r <> p -> m_thr mst' r = m_thr (x_m st) r) by (intros r N; apply step_other; exact N).
      destruct (t_pc (m_thr mst' p)) as [q'|] eqn:Eq'.
      + constructor; cbn [x_m x_c]; try assumption.
        intros r. destruct (Nat.eq_dec r p) as [->|N].
        * split; [exact Eo'|]. cbn [x_c x_m]. rewrite Epc, Es. exists q'. split; [exact Eq' | apply Sq'; reflexivity].
        * destruct (g_thr st G r) as [A B]. split; cbn [x_c x_m]; rewrite Hoth by exact N; assumption.
      + set (cst' := after_call (x_c st) p pc (hd RPopFail (t_res (m_thr mst' p)))).
        destruct (after_call_pc (x_c st) p pc (hd RPopFail (t_res (m_thr mst' p))) Es) as (Ao & _ & pc' & Ap & Hs').
        fold cst' in Ao, Ap.
        destruct (arm_frame cst' mst' p) as (_ & _ & A & B & _ & Fo).
        constructor; cbn [x_m x_c]; rewrite ?A, ?B; try assumption.
        * apply arm_inv; assumption.
        * intros r. destruct (Nat.eq_dec r p) as [->|N].
          -- destruct (arm_thr cst' mst' p Eq' Eo') as [X1 X2]. split; [exact X1|]. cbn [x_c x_m].
             rewrite Ap in X2 |- *. cbn [thr_goto t_pc] in X2 |- *. rewrite Hs' in X2 |- *. exact X2.
          -- destruct (g_thr st G r) as [X1 X2]. split; cbn [x_c x_m]; rewrite Fo, Hoth, ?Ao by exact N; assumption.
    - (* a protocol step *)
      set (cst' := fst (chan_step (c_cap c) Y (x_c st) p f)).
      destruct (arm_frame cst' (x_m st) p) as (_ & _ & A & B & _ & Fo).
      constructor; cbn [x_m x_c]; rewrite ?A, ?B; try (apply G).
      + apply arm_inv; [apply (g_inv st G) | exact T].
      + intros r. destruct (Nat.eq_dec r p) as [->|N].
        * destruct (arm_thr cst' (x_m st) p T Eo) as [X1 X2]. split; [exact X1|]. cbn [x_c x_m].
          destruct (t_pc (c_thr cst' p)) as [pc'|]; [|exact X2]. destruct (is_site pc'); [|exact X2].
          destruct X2 as (q & X2 & X3 & _). eauto.
        * destruct (g_thr st G r) as [X1 X2]. split; cbn [x_c x_m]; rewrite Fo by exact N; [exact X1|].
          unfold cst'. fold cap. rewrite chan_step_other by exact N. exact X2.
  Qed.

  (* ---------------- classification of one step of a queue call ---------------- *)
  Definition push_site (pc : cpc) (v : Z) : Prop := match pc with CSPush1 v' | CSPush2 v' _ => v' = v | _ => False end.
  Definition pop_site (pc : cpc) : Prop := match pc with CRPop1 | CRPop2 _ => True | _ => False end.

  (* the next step of p completes its call with `false` *)
  Definition fails_now (mst : mstate) (p : nat) : bool :=
    match t_pc (m_thr mst p) with
    | Some (MPopLdH2 prev t) => (m_head mst =? prev) && check_empty (m_head mst) t
    | Some (MPushLdT2 v prev h) => (m_tail mst =? prev) && check_full c h (m_tail mst)
    | _ => false
    end.
  Definition fails_pc (o : option mpc) : Prop :=
    match o with Some (MPopLdH2 _ _) | Some (MPushLdT2 _ _ _) => True | _ => False end.
  Lemma fails_now_pc mst p : fails_now mst p = true -> fails_pc (t_pc (m_thr mst p)).
  Proof. unfold fails_now, fails_pc. destruct (t_pc (m_thr mst p)) as [q|]; [|discriminate]. destruct q; try discriminate; auto. Qed.

  Lemma qstep_cases mst q pc mq :
    t_ops (m_thr mst q) = [] -> t_pc (m_thr mst q) = Some mq -> site_ok pc mq ->
    (* A: internal step, claims unchanged *)
    (exists mq', t_pc (m_thr (fst (mpmc_step c mst q)) q) = Some mq' /\ whold mq' = whold mq /\ rhold mq' = rhold mq /\
       m_gt (fst (mpmc_step c mst q)) = m_gt mst /\ m_gh (fst (mpmc_step c mst q)) = m_gh mst /\
       m_gval (fst (mpmc_step c mst q)) = m_gval mst /\ fails_now mst q = false) \/
    (* B: successful tail CAS *)
    (exists v t, push_site pc v /\ t_pc (m_thr (fst (mpmc_step c mst q)) q) = Some (MPushWr false v t (m_gt mst)) /\
       whold mq = None /\ rhold mq = None /\ fails_now mst q = false /\
       m_gt (fst (mpmc_step c mst q)) = m_gt mst + 1 /\ m_gh (fst (mpmc_step c mst q)) = m_gh mst /\
       m_gval (fst (mpmc_step c mst q)) = updZ (m_gval mst) (m_gt mst) v) \/
    (* C: successful head CAS *)
    (exists h, pop_site pc /\ t_pc (m_thr (fst (mpmc_step c mst q)) q) = Some (MPopRd false h (m_gh mst)) /\
       whold mq = None /\ rhold mq = None /\ fails_now mst q = false /\
       m_gt (fst (mpmc_step c mst q)) = m_gt mst /\ m_gh (fst (mpmc_step c mst q)) = m_gh mst + 1 /\
       m_gval (fst (mpmc_step c mst q)) = m_gval mst) \/
    (* D: the call returns *)
    (exists r, m_thr (fst (mpmc_step c mst q)) q = mkThr None [] (r :: t_res (m_thr mst q)) /\
       m_gt (fst (mpmc_step c mst q)) = m_gt mst /\ m_gh (fst (mpmc_step c mst q)) = m_gh mst /\
       m_gval (fst (mpmc_step c mst q)) = m_gval mst /\
       ((exists i v, r = RPushOk i v /\ whold mq = Some i /\ push_site pc v) \/
        (exists h i v, r = RPopOk i v /\ mq = MPopStM false h i v /\ pop_site pc) \/
        (whold mq = None /\ rhold mq = None /\ fails_now mst q = true /\
         ((r = RPushFail /\ exists v, push_site pc v) \/ (r = RPopFail /\ pop_site pc))))).
  Proof.
    intros Eo E. unfold fails_now. unfold mpmc_step. rewrite E.
    assert (F : forall r, thr_finish mpmc_entry (m_thr mst q) r = mkThr None [] (r :: t_res (m_thr mst q))) by (intros r; apply finish_empty_ops; exact Eo).
    destruct pc; cbn [site_ok]; try contradiction;
      destruct mq; cbn [push_pc pop_pc]; intros H; try contradiction; repeat match goal with H0 : _ /\ _ |- _ => destruct H0 end; subst;
      mstep_split; rewrite upd_same; rewrite ?F; cbn [whold rhold push_site pop_site thr_goto t_pc];
      first
      [ solve [left; eexists; repeat split; try reflexivity; assumption]
      | solve [right; left; do 2 eexists; repeat split; try reflexivity; assumption]
      | solve [right; right; left; eexists; repeat split; try reflexivity; assumption]
      | solve [right; right; right; eexists; split; [reflexivity|]; repeat split; try reflexivity;
               left; do 2 eexists; repeat split; reflexivity]
      | solve [right; right; right; eexists; split; [reflexivity|]; repeat split; try reflexivity;
               right; left; do 3 eexists; repeat split; reflexivity]
      | solve [right; right; right; eexists; split; [reflexivity|]; repeat split; try reflexivity;
               right; right; repeat split; try reflexivity; try assumption;
               first [left; split; [reflexivity | eexists; reflexivity] | right; split; reflexivity]] ].
  Qed.

  (* ---------------- the protocol's branch after the call, uniformly ---------------- *)
  Definition post_ok (pc : cpc) (w : Z) : cpc :=
    match pc with
    | CSPush1 v => CSLdIdler v | CSPush2 v _ => CSSwDec v
    | CRPop1 => CNLdSw w false | CRPop2 _ => CNLdSw w true
    | _ => pc
    end.
  Definition post_fail (pc : cpc) : cpc :=
    match pc with
    | CSPush1 v => CSSwInc v | CSPush2 v yt => if 0 <? yt then CSYield v (yt - 1) else CSSemWait v
    | CRPop1 => CRYield0 | CRPop2 yt => if 0 <? yt then CRYield (yt - 1) else CRSemWait
    | _ => pc
    end.

  Lemma after_call_push_ok cst p pc v i v' w : push_site pc v -> after_call cst p pc (RPushOk i v') = c_goto cst p (post_ok pc w).
  Proof. destruct pc; simpl; intros H; try contradiction; reflexivity. Qed.
  Lemma after_call_pop_ok cst p pc i v : pop_site pc -> after_call cst p pc (RPopOk i v) = c_goto cst p (post_ok pc v).
  Proof. destruct pc; simpl; intros H; try contradiction; reflexivity. Qed.
  Lemma after_call_fail cst p pc r :
    (r = RPushFail /\ exists v, push_site pc v) \/ (r = RPopFail /\ pop_site pc) -> after_call cst p pc r = c_goto cst p (post_fail pc).
  Proof. intros [[-> [v H]]|[-> H]]; destruct pc; simpl in *; try contradiction; reflexivity. Qed.

  Lemma chan_push_ok a q f pc v w : push_site pc v -> t_pc (c_thr a q) = Some pc -> (cap <=? Z.of_nat (length (c_q a))) = false ->
    fst (chan_step cap Y a q f) = c_goto (c_push a q v) q (post_ok pc w).
  Proof. intros H E Hf. unfold chan_step. rewrite E. destruct pc; simpl in H; try contradiction; subst; rewrite Hf; reflexivity. Qed.
  Lemma chan_push_fail a q f pc v : push_site pc v -> t_pc (c_thr a q) = Some pc -> (cap <=? Z.of_nat (length (c_q a))) = true ->
    fst (chan_step cap Y a q f) = c_goto a q (post_fail pc).
  Proof. intros H E Hf. unfold chan_step. rewrite E. destruct pc; simpl in H; try contradiction; subst; rewrite Hf; reflexivity. Qed.
  Lemma chan_pop_ok a q f pc w r : pop_site pc -> t_pc (c_thr a q) = Some pc -> c_q a = w :: r ->
    fst (chan_step cap Y a q f) = c_goto (c_pop a cap q r) q (post_ok pc w).
  Proof. intros H E Hq. unfold chan_step. rewrite E. destruct pc; simpl in H; try contradiction; rewrite Hq; reflexivity. Qed.
  Lemma chan_pop_fail a q f pc : pop_site pc -> t_pc (c_thr a q) = Some pc -> c_q a = [] ->
    fst (chan_step cap Y a q f) = c_goto a q (post_fail pc).
  Proof. intros H E Hq. unfold chan_step. rewrite E. destruct pc; simpl in H; try contradiction; rewrite Hq; reflexivity. Qed.

  Lemma post_nonsite pc w : is_site pc = true -> is_site (post_ok pc w) = false /\ is_site (post_fail pc) = false.
  Proof. destruct pc; simpl; intros H; try discriminate; split; try reflexivity; destruct (0 <? yt); reflexivity. Qed.

  (* ---------------- the prophecy: p's next step in the remaining schedule completes its call with false ---------------- *)
  Fixpoint doomed (fut : list (nat * nat)) (st : xstate) (p : nat) : bool :=
    match fut with
    | [] => false
    | (q, f) :: rest => if Nat.eqb q p then fails_now (x_m st) p else doomed rest (x_step c Y st q f) p
    end.

  Lemma x_step_other st q f p : p <> q ->
    m_thr (x_m (x_step c Y st q f)) p = m_thr (x_m st) p /\ c_thr (x_c (x_step c Y st q f)) p = c_thr (x_c st) p.
  Proof.
    intros N. unfold x_step. destruct (t_pc (c_thr (x_c st) q)) as [pc|]; [|auto].
    destruct (is_site pc) eqn:Es.
    - destruct (t_pc (m_thr (fst (mpmc_step c (x_m st) q)) q)); cbn [x_m x_c].
      + split; [apply step_other; exact N | reflexivity].
      + destruct (arm_frame (after_call (x_c st) q pc (hd RPopFail (t_res (m_thr (fst (mpmc_step c (x_m st) q)) q)))) (fst (mpmc_step c (x_m st) q)) q) as (_ & _ & _ & _ & _ & Fo).
        rewrite Fo by exact N. split; [apply step_other; exact N|].
        apply (proj1 (after_call_pc _ q pc _ Es)). exact N.
    - cbn [x_m x_c]. destruct (arm_frame (fst (chan_step (c_cap c) Y (x_c st) q f)) (x_m st) q) as (_ & _ & _ & _ & _ & Fo).
      rewrite Fo by exact N. split; [reflexivity|]. fold cap. apply chan_step_other; exact N.
  Qed.

  Lemma x_step_mono st q f :
    m_gt (x_m st) <= m_gt (x_m (x_step c Y st q f)) /\ m_gh (x_m st) <= m_gh (x_m (x_step c Y st q f)) /\
    (forall i, i < m_gt (x_m st) -> m_gval (x_m (x_step c Y st q f)) i = m_gval (x_m st) i).
  Proof.
    unfold x_step. destruct (t_pc (c_thr (x_c st) q)) as [pc|]; [|repeat split; lia].
    destruct (is_site pc).
    - destruct (step_mono c (x_m st) q) as [M1 M2]. pose proof (fun i => gval_stable_step c (x_m st) q i) as M3.
      destruct (t_pc (m_thr (fst (mpmc_step c (x_m st) q)) q)); cbn [x_m]; [auto|].
      destruct (arm_frame (after_call (x_c st) q pc (hd RPopFail (t_res (m_thr (fst (mpmc_step c (x_m st) q)) q)))) (fst (mpmc_step c (x_m st) q)) q) as (_ & _ & A & B & C0 & _).
      rewrite A, B, C0. auto.
    - cbn [x_m]. destruct (arm_frame (fst (chan_step (c_cap c) Y (x_c st) q f)) (x_m st) q) as (_ & _ & A & B & C0 & _).
      rewrite A, B, C0. repeat split; try lia. 
  Qed.

  Lemma x_run_mono st l : m_gt (x_m st) <= m_gt (x_m (x_run c Y st l)) /\ m_gh (x_m st) <= m_gh (x_m (x_run c Y st l)).
  Proof.
    revert st; induction l as [|[q f] l IH]; intros st; simpl; [lia|].
    destruct (x_step_mono st q f) as (A & B & _). destruct (IH (x_step c Y st q f)). lia.
  Qed.

  Lemma good_run st l : Good st -> nowrap c (x_m (x_run c Y st l)) -> Good (x_run c Y st l).
  Proof.
    revert st; induction l as [|[q f] l IH]; intros st G NW; simpl in *; [exact G|].
    apply IH; [|exact NW]. apply good_step; [exact G|].
    destruct (x_run_mono (x_step c Y st q f) l). unfold nowrap in *. lia.
  Qed.

  Lemma doomed_pc fut st p : doomed fut st p = true -> fails_pc (t_pc (m_thr (x_m st) p)).
  Proof.
    revert st; induction fut as [|[q f] fut IH]; intros st H; simpl in H; [discriminate|].
    destruct (Nat.eqb_spec q p) as [->|N]; [apply fails_now_pc; exact H|].
    apply IH in H. rewrite (proj1 (x_step_other st q f p (not_eq_sym N))) in H. exact H.
  Qed.

  (* the state in which the doomed step is taken *)
  Lemma doomed_spec fut st p : doomed fut st p = true ->
    exists pre post, fut = pre ++ post /\ m_thr (x_m (x_run c Y st pre)) p = m_thr (x_m st) p /\ fails_now (x_m (x_run c Y st pre)) p = true.
  Proof.
    revert st; induction fut as [|[q f] fut IH]; intros st H; simpl in H; [discriminate|].
    destruct (Nat.eqb_spec q p) as [->|N].
    - exists [], ((p, f) :: fut). auto.
    - destruct (IH _ H) as (pre & post & -> & A & B). exists ((q, f) :: pre), post. split; [reflexivity|]. simpl.
      split; [|exact B]. rewrite A. apply (proj1 (x_step_other st q f p (not_eq_sym N))).
  Qed.

  (* a doomed call: between now and its last step the other index does not move past the value read *)
  Lemma doomed_bound fut st p : Good st -> nowrap c (x_m (x_run c Y st fut)) -> doomed fut st p = true ->
    match t_pc (m_thr (x_m st) p) with
    | Some (MPopLdH2 prev t) => m_gh (x_m st) <= prev /\ prev = t
    | Some (MPushLdT2 v prev h) => m_gt (x_m st) <= prev /\ check_full c h prev = true
    | _ => False
    end.
  Proof.
    intros G NW D. destruct (doomed_spec fut st p D) as (pre & post & -> & A & B).
    assert (NW1 : nowrap c (x_m (x_run c Y st pre))).
    { pose proof (x_run_mono (x_run c Y st pre) post) as [M1 M2]. unfold nowrap in *.
      assert (E : x_run c Y st (pre ++ post) = x_run c Y (x_run c Y st pre) post).
      { clear. revert st; induction pre as [|[q f] pre IH]; intros st; simpl; [reflexivity | apply IH]. }
      rewrite E in NW. lia. }
    pose proof (good_run st pre G NW1) as G1. pose proof (g_inv _ G1) as I1.
    destruct (x_run_mono st pre) as [M1 M2].
    unfold fails_now in B. rewrite A in B.
    destruct (t_pc (m_thr (x_m st) p)) as [mq|]; [|discriminate]. destruct mq; try discriminate.
    - apply andb_true_iff in B. destruct B as [B1 B2]. apply Z.eqb_eq in B1. rewrite B1 in B2.
      split; [rewrite <- B1, (mv_tail c s _ I1); lia | exact B2].
    - apply andb_true_iff in B. destruct B as [B1 B2]. apply Z.eqb_eq in B1. unfold check_empty in B2. apply Z.eqb_eq in B2.
      rewrite (mv_head c s _ I1) in B1, B2. split; lia.
  Qed.

  (* ---------------- the refinement relation ---------------- *)
  (* the program point of p in the atomic-FIFO protocol model *)
  Definition apc (fut : list (nat * nat)) (st : xstate) (p : nat) : option cpc :=
    match t_pc (c_thr (x_c st) p) with
    | None => None
    | Some pc =>
      if is_site pc then
        match t_pc (m_thr (x_m st) p) with
        | Some mq =>
            match whold mq, rhold mq with
            | Some i, _ => Some (post_ok pc (m_gval (x_m st) i))
            | None, Some i => Some (post_ok pc (m_gval (x_m st) i))
            | None, None => Some (if doomed fut st p then post_fail pc else pc)
            end
        | None => Some pc
        end
      else Some pc
    end.

  Record Rel (fut : list (nat * nat)) (st : xstate) (a : cstate) : Prop := mkRel {
    r_f : cfields a = cfields (x_c st);
    r_q : c_q a = absq (x_m st);
    r_pc : forall p, t_pc (c_thr a p) = apc fut st p;
    r_ops : forall p, t_ops (c_thr a p) = t_ops (c_thr (x_c st) p);
    r_res : forall p, t_res (c_thr a p) = t_res (c_thr (x_c st) p);
  }.

  Lemma thr_eq (t1 t2 : thr cpc) : t_pc t1 = t_pc t2 -> t_ops t1 = t_ops t2 -> t_res t1 = t_res t2 -> t1 = t2.
  Proof. destruct t1, t2; simpl; intros; subst; reflexivity. Qed.

  Lemma apc_other fut st q f p : p <> q -> Good st -> apc fut (x_step c Y st q f) p = apc ((q, f) :: fut) st p.
  Proof.
    intros N G. unfold apc. destruct (x_step_other st q f p N) as [A B]. rewrite A, B.
    destruct (t_pc (c_thr (x_c st) p)) as [pc|]; [|reflexivity]. destruct (is_site pc); [|reflexivity].
    destruct (t_pc (m_thr (x_m st) p)) as [mq|] eqn:Eq; [|reflexivity].
    destruct (x_step_mono st q f) as (_ & _ & M).
    destruct (whold mq) as [i|] eqn:Ew.
    - destruct (whold_lt c s _ p mq i (g_inv st G) Eq Ew) as [Hi _]. rewrite M by lia. reflexivity.
    - destruct (rhold mq) as [i|] eqn:Er.
      + destruct (rhold_lt c s _ p mq i (g_inv st G) Eq Er) as [Hi _]. pose proof (g_le st G). rewrite M by lia. reflexivity.
      + simpl. destruct (Nat.eqb_spec q p) as [->|_]; [contradiction|]. reflexivity.
  Qed.

  Lemma rel_build fut st a q f a' :
    Good st -> Rel ((q, f) :: fut) st a ->
    cfields a' = cfields (x_c (x_step c Y st q f)) ->
    c_q a' = absq (x_m (x_step c Y st q f)) ->
    (forall p, p <> q -> c_thr a' p = c_thr a p) ->
    t_pc (c_thr a' q) = apc fut (x_step c Y st q f) q ->
    t_ops (c_thr a' q) = t_ops (c_thr (x_c (x_step c Y st q f)) q) ->
    t_res (c_thr a' q) = t_res (c_thr (x_c (x_step c Y st q f)) q) ->
    Rel fut (x_step c Y st q f) a'.
  Proof.
    intros G R Hf Hq Ho Hpc Hops Hres. constructor; try assumption.
    - intros p. destruct (Nat.eq_dec p q) as [->|N]; [exact Hpc|]. rewrite Ho by exact N. rewrite apc_other by assumption. apply (r_pc _ _ _ R).
    - intros p. destruct (Nat.eq_dec p q) as [->|N]; [exact Hops|]. rewrite Ho by exact N. rewrite (proj2 (x_step_other st q f p N)). apply (r_ops _ _ _ R).
    - intros p. destruct (Nat.eq_dec p q) as [->|N]; [exact Hres|]. rewrite Ho by exact N. rewrite (proj2 (x_step_other st q f p N)). apply (r_res _ _ _ R).
  Qed.

  Lemma absq_ext m1 m2 : m_gh m1 = m_gh m2 -> m_gt m1 = m_gt m2 -> m_gval m1 = m_gval m2 -> absq m1 = absq m2.
  Proof. intros A B C0. unfold absq. rewrite A, B, C0. reflexivity. Qed.
  Lemma absq_arm cst mst p : absq (arm cst mst p) = absq mst.
  Proof. destruct (arm_frame cst mst p) as (_ & _ & A & B & C0 & _). apply absq_ext; assumption. Qed.
  Lemma absq_push m1 m2 v : m_gh m2 = m_gh m1 -> m_gt m2 = m_gt m1 + 1 -> m_gval m2 = updZ (m_gval m1) (m_gt m1) v ->
    m_gh m1 <= m_gt m1 -> absq m2 = absq m1 ++ [v].
  Proof.
    intros A B C0 L. unfold absq. rewrite A, B, C0. rewrite zrange_snoc by exact L. rewrite map_app. simpl. rewrite updZ_same. f_equal.
    apply map_ext_in. intros j Hj. apply zrange_In in Hj. apply updZ_other. lia.
  Qed.
  Lemma absq_pop m1 m2 : m_gh m2 = m_gh m1 + 1 -> m_gt m2 = m_gt m1 -> m_gval m2 = m_gval m1 -> m_gh m1 < m_gt m1 ->
    absq m1 = m_gval m1 (m_gh m1) :: absq m2.
  Proof. intros A B C0 L. unfold absq. rewrite A, B, C0. rewrite (zrange_cons _ _ L). reflexivity. Qed.

  Lemma c_goto_frame a q pc' :
    cfields (c_goto a q pc') = cfields a /\ c_q (c_goto a q pc') = c_q a /\
    (forall p, p <> q -> c_thr (c_goto a q pc') p = c_thr a p) /\
    c_thr (c_goto a q pc') q = thr_goto (c_thr a q) pc'.
  Proof. unfold c_goto, c_set_thr, cfields. simpl. repeat split; try reflexivity; [intros p N; apply upd_other; exact N | apply upd_same]. Qed.

  (* ---------------- one step of the product model = zero or one step of the atomic-FIFO model ---------------- *)
  Lemma sim_step fut st a q f :
    Good st -> nowrap c (x_m (x_run c Y (x_step c Y st q f) fut)) -> Rel ((q, f) :: fut) st a ->
    exists a', (a' = a \/ a' = fst (chan_step cap Y a q f)) /\ Rel fut (x_step c Y st q f) a'.
  Proof.
    intros G NW R.
    assert (NW1 : nowrap c (x_m (x_step c Y st q f))).
    { destruct (x_run_mono (x_step c Y st q f) fut). unfold nowrap in *. lia. }
    pose proof (good_step st q f G NW1) as G1.
    pose proof (g_inv st G) as I.
    pose proof (r_pc _ _ _ R q) as Rq. unfold apc in Rq.
    destruct (t_pc (c_thr (x_c st) q)) as [pc|] eqn:Epc.
    2:{ (* finished participant *)
      assert (Ex : x_step c Y st q f = st) by (unfold x_step; rewrite Epc; reflexivity).
      exists a. split; [left; reflexivity|]. apply (rel_build fut st a q f); try assumption; rewrite ?Ex; try apply R; try reflexivity.
      unfold apc. rewrite Epc. exact Rq. }
    destruct (g_thr st G q) as [Eo T]. rewrite Epc in T.
    destruct (is_site pc) eqn:Es.
    - (* inside a queue call *)
      destruct T as (mq & Eq & Sq). rewrite Eq in Rq.
      assert (Dq : doomed ((q, f) :: fut) st q = fails_now (x_m st) q) by (simpl; rewrite Nat.eqb_refl; reflexivity).
      set (mst' := fst (mpmc_step c (x_m st) q)) in *.
      destruct (qstep_cases (x_m st) q pc mq Eo Eq Sq) as
        [(mq' & Eq' & Hw & Hr & Ht & Hh & Hv & Fn)|[(v & t & Ps & Eq' & Hw & Hr & Fn & Ht & Hh & Hv)|[(h & Ps & Eq' & Hw & Hr & Fn & Ht & Hh & Hv)|(r & Eth & Ht & Hh & Hv & Hcase)]]];
        fold mst' in Eq', Ht, Hh, Hv || fold mst' in Eth, Ht, Hh, Hv.
      + (* A: internal step *)
        assert (Ex : x_step c Y st q f = mkX (x_c st) mst') by (unfold x_step; rewrite Epc, Es; fold mst'; rewrite Eq'; reflexivity).
        assert (Eabs : absq mst' = absq (x_m st)) by (apply absq_ext; assumption).
        destruct (match whold mq', rhold mq' with None, None => doomed fut (x_step c Y st q f) q | _, _ => false end) eqn:Dn.
        * (* the step was the linearisation point of a failing call *)
          destruct (whold mq') eqn:Ew'; [discriminate|]. destruct (rhold mq') eqn:Er'; [discriminate|].
          rewrite <- Hw, <- Hr in Rq. rewrite Dq, Fn in Rq.
          pose proof (doomed_pc _ _ _ Dn) as Fp. pose proof (doomed_bound _ _ _ G1 NW Dn) as Db.
          rewrite Ex in Fp, Db. cbn [x_m] in Fp, Db. rewrite Eq' in Fp, Db.
          exists (c_goto a q (post_fail pc)). destruct (c_goto_frame a q (post_fail pc)) as (F1 & F2 & F3 & F4).
          split.
          { right. symmetry. destruct mq'; try contradiction.
            - (* push: MPushLdT2 *)
              fold mst' in Eq'. destruct (step_to_PushLdT2 c (x_m st) q mq v prev h Eq Eq') as (-> & -> & _).
              pose proof (mv_pc c s _ I q _ Eq) as K. cbn [pc_ok] in K. destruct Db as [Db1 Db2].
              assert (Ps : push_site pc v) by (destruct pc; simpl in Sq |- *; try contradiction; congruence).
              apply (chan_push_fail a q f pc v Ps Rq). rewrite (r_q _ _ _ R). apply Z.leb_le.
              rewrite (absq_length _ (g_le st G)). rewrite Ht in Db1.
              assert (Et : m_gt (x_m st) = prev) by lia. rewrite (mv_head c s _ I), <- Et in Db2.
              destruct (pushfull_arith c Hc _ _ Db2) as [Ne Md]. pose proof (g_le st G) as Le. pose proof (g_ge st G) as Ge.
              fold cap in Md. pose proof (cfg_cap_pos c Hc) as Hcp. fold cap in Hcp.
              destruct (Z_lt_dec (m_gt (x_m st) - m_gh (x_m st)) cap) as [L|L]; [|lia]. rewrite Z.mod_small in Md by lia. lia.
            - (* pop: MPopLdH2 *)
              fold mst' in Eq'. destruct (step_to_PopLdH2 c (x_m st) q mq prev t Eq Eq') as (-> & -> & _).
              pose proof (mv_pc c s _ I q _ Eq) as K. cbn [pc_ok] in K. destruct Db as [Db1 Db2].
              assert (Ps : pop_site pc) by (destruct pc; simpl in Sq |- *; try contradiction; exact Logic.I).
              apply (chan_pop_fail a q f pc Ps Rq). rewrite (r_q _ _ _ R). unfold absq.
              rewrite Hh in Db1. rewrite (mv_tail c s _ I) in Db2.
              replace (m_gh (x_m st)) with (m_gt (x_m st)) by lia. rewrite zrange_nil. reflexivity. }
          apply (rel_build fut st a q f); try assumption; rewrite ?Ex; cbn [x_c x_m].
          -- rewrite F1. apply (r_f _ _ _ R).
          -- rewrite F2, Eabs. apply (r_q _ _ _ R).
          -- rewrite F4. cbn [thr_goto t_pc]. unfold apc. rewrite ?Ex. cbn [x_c x_m]. rewrite Epc, Es, Eq', Ew', Er'.
             rewrite <- Ex. rewrite Dn. reflexivity.
          -- rewrite F4. cbn [thr_goto t_ops]. apply (r_ops _ _ _ R).
          -- rewrite F4. cbn [thr_goto t_res]. apply (r_res _ _ _ R).
        * (* stutter *)
          rewrite Hw, Hr in Dn.
          exists a. split; [left; reflexivity|].
          apply (rel_build fut st a q f); try assumption; rewrite ?Ex; cbn [x_c x_m]; try apply R; try reflexivity.
          -- rewrite Eabs. apply (r_q _ _ _ R).
          -- rewrite Rq. unfold apc. cbn [x_c x_m]. rewrite Epc, Es, Eq', Hv, Hw, Hr.
             destruct (whold mq); [reflexivity|]. destruct (rhold mq); [reflexivity|].
             rewrite Dq, Fn, <- Ex, Dn. reflexivity.
      + (* B: successful tail CAS = the atomic push *)
        assert (Ex : x_step c Y st q f = mkX (x_c st) mst') by (unfold x_step; rewrite Epc, Es; fold mst'; rewrite Eq'; reflexivity).
        rewrite Hw, Hr, Dq, Fn in Rq.
        assert (Eabs : absq mst' = absq (x_m st) ++ [v]) by (apply absq_push; try assumption; apply (g_le st G)).
        pose proof (g_ge _ G1) as Ge1. rewrite Ex in Ge1. cbn [x_m] in Ge1. rewrite Ht, Hh in Ge1.
        assert (Hnf : (cap <=? Z.of_nat (length (c_q a))) = false).
        { apply Z.leb_gt. rewrite (r_q _ _ _ R), (absq_length _ (g_le st G)). lia. }
        set (w := m_gval mst' (m_gt (x_m st))).
        exists (c_goto (c_push a q v) q (post_ok pc w)). destruct (c_goto_frame (c_push a q v) q (post_ok pc w)) as (F1 & F2 & F3 & F4).
        split; [right; symmetry; apply (chan_push_ok a q f pc v w Ps Rq Hnf)|].
        apply (rel_build fut st a q f); try assumption; rewrite ?Ex; cbn [x_c x_m].
        -- rewrite F1. unfold c_push, cfields. simpl. apply (r_f _ _ _ R).
        -- rewrite F2, Eabs. unfold c_push. simpl. rewrite (r_q _ _ _ R). reflexivity.
        -- rewrite F4. cbn [thr_goto t_pc]. unfold apc. rewrite ?Ex. cbn [x_c x_m]. rewrite Epc, Es, Eq'. reflexivity.
        -- rewrite F4. cbn [thr_goto t_ops]. apply (r_ops _ _ _ R).
        -- rewrite F4. cbn [thr_goto t_res]. apply (r_res _ _ _ R).
      + (* C: successful head CAS = the atomic pop *)
        assert (Ex : x_step c Y st q f = mkX (x_c st) mst') by (unfold x_step; rewrite Epc, Es; fold mst'; rewrite Eq'; reflexivity).
        rewrite Hw, Hr, Dq, Fn in Rq.
        pose proof (g_le _ G1) as Le1. rewrite Ex in Le1. cbn [x_m] in Le1. rewrite Ht, Hh in Le1.
        assert (Eabs : absq (x_m st) = m_gval (x_m st) (m_gh (x_m st)) :: absq mst') by (apply absq_pop; try assumption; lia).
        set (w := m_gval (x_m st) (m_gh (x_m st))) in *.
        exists (c_goto (c_pop a cap q (absq mst')) q (post_ok pc w)). destruct (c_goto_frame (c_pop a cap q (absq mst')) q (post_ok pc w)) as (F1 & F2 & F3 & F4).
        split; [right; symmetry; apply (chan_pop_ok a q f pc w (absq mst') Ps Rq); rewrite (r_q _ _ _ R); exact Eabs|].
        apply (rel_build fut st a q f); try assumption; rewrite ?Ex; cbn [x_c x_m].
        -- rewrite F1. unfold c_pop, cfields. simpl. apply (r_f _ _ _ R).
        -- rewrite F2. reflexivity.
        -- rewrite F4. cbn [thr_goto t_pc]. unfold apc. rewrite ?Ex. cbn [x_c x_m]. rewrite Epc, Es, Eq'. cbn [whold rhold]. rewrite Hv. reflexivity.
        -- rewrite F4. cbn [thr_goto t_ops]. apply (r_ops _ _ _ R).
        -- rewrite F4. cbn [thr_goto t_res]. apply (r_res _ _ _ R).
      + (* D: the call returns: the atomic model is already behind the call *)
        set (cst' := after_call (x_c st) q pc r).
        assert (Ex : x_step c Y st q f = mkX cst' (arm cst' mst' q)).
        { unfold x_step. rewrite Epc, Es. fold mst'. rewrite Eth. reflexivity. }
        assert (Eabs : absq (arm cst' mst' q) = absq (x_m st)) by (rewrite absq_arm; apply absq_ext; assumption).
        assert (Ecst : exists pc', cst' = c_goto (x_c st) q pc' /\ t_pc (c_thr a q) = Some pc' /\ is_site pc' = false).
        { destruct Hcase as [(i & v & -> & Hw & Ps)|[(h & i & v & -> & -> & Ps)|(Hw & Hr & Fn & Hfail)]].
          - exists (post_ok pc (m_gval (x_m st) i)). rewrite Hw in Rq. split; [apply (after_call_push_ok _ _ _ v); exact Ps|].
            split; [exact Rq | apply post_nonsite; exact Es].
          - cbn [whold rhold] in Rq. pose proof (mv_pc c s _ I q _ Eq) as K. cbn [pc_ok] in K. destruct K as (_ & _ & _ & Kv).
            exists (post_ok pc v). split; [apply after_call_pop_ok; exact Ps|]. rewrite <- Kv in Rq.
            split; [exact Rq | apply post_nonsite; exact Es].
          - exists (post_fail pc). rewrite Hw, Hr, Dq, Fn in Rq. split; [apply after_call_fail; exact Hfail|].
            split; [exact Rq | apply (post_nonsite pc 0); exact Es]. }
        destruct Ecst as (pc' & Ec & Ra & Hs'). destruct (c_goto_frame (x_c st) q pc') as (F1 & F2 & F3 & F4).
        exists a. split; [left; reflexivity|].
        apply (rel_build fut st a q f); try assumption; rewrite ?Ex; cbn [x_c x_m]; try reflexivity.
        -- rewrite Ec, F1. apply (r_f _ _ _ R).
        -- rewrite Eabs. apply (r_q _ _ _ R).
        -- rewrite Ra. unfold apc. rewrite ?Ex. cbn [x_c x_m]. rewrite Ec, F4. cbn [thr_goto t_pc]. rewrite Hs'. reflexivity.
        -- rewrite Ec, F4. cbn [thr_goto t_ops]. apply (r_ops _ _ _ R).
        -- rewrite Ec, F4. cbn [thr_goto t_res]. apply (r_res _ _ _ R).
    - (* a protocol step: the same step in the atomic-FIFO model *)
      set (cst' := fst (chan_step (c_cap c) Y (x_c st) q f)).
      assert (Ex : x_step c Y st q f = mkX cst' (arm cst' (x_m st) q)) by (unfold x_step; rewrite Epc, Es; reflexivity).
      assert (Eth : c_thr a q = c_thr (x_c st) q).
      { apply thr_eq; [rewrite Rq, Epc; reflexivity | apply (r_ops _ _ _ R) | apply (r_res _ _ _ R)]. }
      destruct (chan_step_nonsite (x_c st) a q f pc Epc Es Eth (r_f _ _ _ R)) as (N1 & N2 & N3). fold cap in cst'. fold cst' in N1, N2.
      exists (fst (chan_step cap Y a q f)). split; [right; reflexivity|].
      apply (rel_build fut st a q f); try assumption; rewrite ?Ex; cbn [x_c x_m].
      + exact N1.
      + rewrite N3, absq_arm. apply (r_q _ _ _ R).
      + intros p N. apply chan_step_other; exact N.
      + rewrite N2. unfold apc. rewrite ?Ex. cbn [x_c x_m].
        destruct (arm_thr cst' (x_m st) q T Eo) as [_ X].
        destruct (t_pc (c_thr cst' q)) as [pc'|] eqn:Epc'; [|reflexivity].
        destruct (is_site pc') eqn:Es'; [|reflexivity].
        destruct X as (e & Xe & Xs & Xn). rewrite Xe.
        assert (Hnh : whold e = None /\ rhold e = None /\ ~ fails_pc (Some e)).
        { destruct pc'; simpl in Xn; try discriminate; inversion Xn; subst e; repeat split; auto. }
        destruct Hnh as (Hw & Hr & Hnf). rewrite Hw, Hr.
        destruct (doomed fut (mkX cst' (arm cst' (x_m st) q)) q) eqn:Dn; [|reflexivity].
        exfalso. apply Hnf. pose proof (doomed_pc _ _ _ Dn) as Fp. cbn [x_m] in Fp. rewrite Xe in Fp. exact Fp.
      + rewrite N2. reflexivity.
      + rewrite N2. reflexivity.
  Qed.
End ChanQ.
