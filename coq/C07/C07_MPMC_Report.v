(* C07_MPMC_Report.v — emptiness / fullness REPORTING of the MPMC ring queue (CAS variant push / pop,
   lockfree_queue.h 227-271), i.e. linearisable failure:
     a pop  that returns false saw the queue EMPTY at an instant inside that call (its tail load, line 264);
     a push that returns false saw the queue FULL  at an instant inside that call (its head load, line 241).
   The model (C07_MPMC_Model.v) is untouched: the history variable is the SCHEDULE itself.  A run is
   `mrun c st0 l` (l = the list of participant choices, any list), an "instant inside the call" is a prefix
   l1 of l (l = l1 ++ p :: l2: the state just before that step of p itself which is the middle load; loads do not
   change the state) at which the same thread has completed exactly the same operations
   (t_res equal: t_res only grows, by one entry per completed call) and stands inside the failing call.
   Why it holds: head and tail never decrease; the failing pop re-reads head and finds the value it started
   the round with (`h == prevHead`), so head had that value when tail was read in between.
   Everything is for ANY number of participants, ANY scripts (push/pop/send/recv mixed), ANY schedule, below
   the 2^64 index wrap (guard `nowrap` on the last state; earlier states satisfy it by monotonicity). *)
From Coq Require Import ZArith Znumtheory Lia List Bool Arith Sorted.
From PV Require Import Base.U64 E3.E3_Run C07.C07_Model C07.C07_Arith C07.C07_Lists C07.C07_MPMC_Model C07.C07_MPMC_Proofs.
Import ListNotations.
Local Open Scope Z_scope.

(* ---------------- runs as schedules ---------------- *)
Fixpoint mrun (c : cfg) (st : mstate) (sched : list nat) : mstate :=
  match sched with [] => st | p :: r => mrun c (fst (mpmc_step c st p)) r end.

Lemma mrun_app c st l1 l2 : mrun c st (l1 ++ l2) = mrun c (mrun c st l1) l2.
Proof. revert st; induction l1 as [|a l1 IH]; intros st; simpl; [reflexivity | apply IH]. Qed.
Lemma mrun_snoc c st l p : mrun c st (l ++ [p]) = fst (mpmc_step c (mrun c st l) p).
Proof. rewrite mrun_app. reflexivity. Qed.
Lemma mrun_reach c st0 l : mreach c st0 (mrun c st0 l).
Proof. induction l as [|p l IH] using rev_ind; [constructor | rewrite mrun_snoc; constructor; exact IH]. Qed.
Lemma mreach_mrun c st0 st : mreach c st0 st -> exists l, st = mrun c st0 l.
Proof.
  intros R. induction R as [|st p R [l ->]]; [exists []; reflexivity|].
  exists (l ++ [p]). symmetry. apply mrun_snoc.
Qed.
Lemma mrun_mono c st l : m_gt st <= m_gt (mrun c st l) /\ m_gh st <= m_gh (mrun c st l).
Proof.
  revert st; induction l as [|p l IH]; intros st; simpl; [lia|].
  destruct (step_mono c st p). destruct (IH (fst (mpmc_step c st p))). lia.
Qed.
Lemma nowrap_prefix c st l : nowrap c (mrun c st l) -> nowrap c st.
Proof. unfold nowrap. destruct (mrun_mono c st l). lia. Qed.

(* ---------------- what one step does to the thread records ---------------- *)
Lemma cons_neq {A} (x : A) l : l = x :: l -> False.
Proof. intros E. apply (f_equal (@length A)) in E. simpl in E. lia. Qed.
Lemma finish_tres (th : thr mpc) r : t_res (thr_finish mpmc_entry th r) = r :: t_res th.
Proof. unfold thr_finish. destruct (t_ops th); reflexivity. Qed.

Ltac step_split :=
  cbn [fst];
  repeat match goal with |- context [if ?b then _ else _] => destruct b eqn:? end;
  unfold m_finish, m_goto, m_set_thr, m_set_mark, m_set_slot, m_claim_tail, m_claim_head;
  cbn [fst m_head m_tail m_mark m_slot m_gh m_gt m_gval m_gwho m_gpop m_thr].

Lemma step_other c st q p : p <> q -> m_thr (fst (mpmc_step c st q)) p = m_thr st p.
Proof.
  intros N. unfold mpmc_step. destruct (t_pc (m_thr st q)) as [pc|]; [|reflexivity].
  destruct pc; step_split; apply upd_other; exact N.
Qed.

(* the thread that moves either goes to another program point of the same call (never an entry point of
   send / recv) or completes its call with a result *)
Lemma step_self c st q pc : t_pc (m_thr st q) = Some pc ->
  (exists pc', m_thr (fst (mpmc_step c st q)) q = thr_goto (m_thr st q) pc' /\ pc' <> MRecvFa /\ (forall v, pc' <> MSendFa v)) \/
  (exists r, m_thr (fst (mpmc_step c st q)) q = thr_finish mpmc_entry (m_thr st q) r).
Proof.
  intros E. unfold mpmc_step. rewrite E.
  destruct pc; step_split; rewrite upd_same;
    first [ right; eexists; reflexivity
          | left; eexists; split; [reflexivity | split; [discriminate | intros; discriminate]] ].
Qed.

Lemma step_idle c st q : t_pc (m_thr st q) = None -> fst (mpmc_step c st q) = st.
Proof. intros E. unfold mpmc_step. rewrite E. reflexivity. Qed.

(* the only way into MPopLdH2 / MPushLdT2 *)
Lemma step_to_PopLdH2 c st p pc prev t :
  t_pc (m_thr st p) = Some pc ->
  t_pc (m_thr (fst (mpmc_step c st p)) p) = Some (MPopLdH2 prev t) ->
  pc = MPopLdT prev /\ t = m_tail st /\ t_res (m_thr (fst (mpmc_step c st p)) p) = t_res (m_thr st p).
Proof.
  intros E. unfold mpmc_step. rewrite E.
  destruct pc; step_split; rewrite upd_same; intros E';
    try (apply finish_pc in E'; destruct E' as [o E']; destruct o; discriminate);
    cbn [thr_goto t_pc t_res] in E' |- *; inversion E'; auto.
Qed.
Lemma step_to_PushLdT2 c st p pc v prev h :
  t_pc (m_thr st p) = Some pc ->
  t_pc (m_thr (fst (mpmc_step c st p)) p) = Some (MPushLdT2 v prev h) ->
  pc = MPushLdH v prev /\ h = m_head st /\ t_res (m_thr (fst (mpmc_step c st p)) p) = t_res (m_thr st p).
Proof.
  intros E. unfold mpmc_step. rewrite E.
  destruct pc; step_split; rewrite upd_same; intros E';
    try (apply finish_pc in E'; destruct E' as [o E']; destruct o; discriminate);
    cbn [thr_goto t_pc t_res] in E' |- *; inversion E'; auto.
Qed.

(* the only way to complete a call with `false` *)
Lemma step_popfail c st p :
  t_res (m_thr (fst (mpmc_step c st p)) p) = RPopFail :: t_res (m_thr st p) ->
  exists prev t, t_pc (m_thr st p) = Some (MPopLdH2 prev t) /\ m_head st = prev /\ check_empty (m_head st) t = true.
Proof.
  unfold mpmc_step. destruct (t_pc (m_thr st p)) as [pc|] eqn:E; [|intros X; cbn [fst] in X; destruct (cons_neq _ _ X)].
  destruct pc; step_split; rewrite upd_same; intros X;
    try (cbn [thr_goto t_res] in X; destruct (cons_neq _ _ X));
    try (rewrite finish_tres in X; inversion X as [Y]; try (destruct snd; discriminate); try (destruct rcv; discriminate)).
  match goal with H : (_ =? _) && _ = true |- _ => apply andb_true_iff in H; destruct H as [H1 H2] end.
  apply Z.eqb_eq in H1. eauto.
Qed.
Lemma step_pushfail c st p :
  t_res (m_thr (fst (mpmc_step c st p)) p) = RPushFail :: t_res (m_thr st p) ->
  exists v prev h, t_pc (m_thr st p) = Some (MPushLdT2 v prev h) /\ m_tail st = prev /\ check_full c h (m_tail st) = true.
Proof.
  unfold mpmc_step. destruct (t_pc (m_thr st p)) as [pc|] eqn:E; [|intros X; cbn [fst] in X; destruct (cons_neq _ _ X)].
  destruct pc; step_split; rewrite upd_same; intros X;
    try (cbn [thr_goto t_res] in X; destruct (cons_neq _ _ X));
    try (rewrite finish_tres in X; inversion X as [Y]; try (destruct snd; discriminate); try (destruct rcv; discriminate)).
  match goal with H : (_ =? _) && _ = true |- _ => apply andb_true_iff in H; destruct H as [H1 H2] end.
  apply Z.eqb_eq in H1. eauto 6.
Qed.

Section Report.
  Variable c : cfg.
  Hypothesis Hc : cfg_ok c.
  Variable s : Z.
  Hypothesis Hs0 : 0 <= s.
  Variable scripts : list (list op).
  Let cap := c_cap c.
  Let st0 := mpmc_init c s scripts.

  Lemma run_inv l : nowrap c (mrun c st0 l) -> MInv c s (mrun c st0 l).
  Proof. intros NW. apply (mreach_inv c Hc s scripts); [exact Hs0 | apply mrun_reach | exact NW]. Qed.

  (* ---------------- the history invariant ----------------
     a thread standing at the re-check load (MPopLdH2 prev t / MPushLdT2 v prev h) made its middle load (MPopLdT /
     MPushLdH) at an earlier instant l1 of the same call; there the other index was not below `prev` *)
  Definition HPop (l : list nat) : Prop :=
    forall p prev t, t_pc (m_thr (mrun c st0 l) p) = Some (MPopLdH2 prev t) ->
    exists l1 l2, l = l1 ++ p :: l2 /\
      t_pc (m_thr (mrun c st0 l1) p) = Some (MPopLdT prev) /\
      t_res (m_thr (mrun c st0 l1) p) = t_res (m_thr (mrun c st0 l) p) /\
      m_tail (mrun c st0 l1) = t /\ prev <= m_gh (mrun c st0 l1).
  Definition HPush (l : list nat) : Prop :=
    forall p v prev h, t_pc (m_thr (mrun c st0 l) p) = Some (MPushLdT2 v prev h) ->
    exists l1 l2, l = l1 ++ p :: l2 /\
      t_pc (m_thr (mrun c st0 l1) p) = Some (MPushLdH v prev) /\
      t_res (m_thr (mrun c st0 l1) p) = t_res (m_thr (mrun c st0 l) p) /\
      m_head (mrun c st0 l1) = h /\ prev <= m_gt (mrun c st0 l1).

  Lemma init_entry p pc : t_pc (m_thr st0 p) = Some pc -> exists o, pc = mpmc_entry o.
  Proof.
    unfold st0. simpl. unfold thr_init. destruct (nth p scripts []) as [|o r]; simpl; intros E; [discriminate|].
    inversion E. eauto.
  Qed.

  Lemma hist l : nowrap c (mrun c st0 l) -> HPop l /\ HPush l.
  Proof.
    induction l as [|q l IH] using rev_ind; intros NW.
    - split.
      + intros p prev t E. simpl in E. apply init_entry in E. destruct E as [o E]. destruct o; discriminate.
      + intros p v prev h E. simpl in E. apply init_entry in E. destruct E as [o E]. destruct o; discriminate.
    - rewrite mrun_snoc in NW.
      assert (NW0 : nowrap c (mrun c st0 l)).
      { destruct (step_mono c (mrun c st0 l) q). unfold nowrap in *. lia. }
      destruct (IH NW0) as [IHpop IHpush]. pose proof (run_inv l NW0) as I.
      set (st := mrun c st0 l) in *.
      split.
      + intros p prev t E. rewrite mrun_snoc in E |- *. fold st in E |- *.
        destruct (Nat.eq_dec p q) as [->|N].
        * destruct (t_pc (m_thr st q)) as [pc|] eqn:Epc; [|rewrite (step_idle c st q Epc) in E; congruence].
          destruct (step_to_PopLdH2 c st q pc prev t Epc E) as (-> & -> & Eres).
          exists l, []. split; [reflexivity|]. fold st.
          pose proof (mv_pc c s st I q _ Epc) as K. cbn [pc_ok] in K.
          repeat split; [exact Epc | symmetry; exact Eres | lia].
        * rewrite (step_other c st q p N) in E |- *.
          destruct (IHpop p prev t E) as (l1 & l2 & -> & A & B & C0 & D).
          exists l1, (l2 ++ [q]). split; [rewrite <- app_assoc; reflexivity|]. auto.
      + intros p v prev h E. rewrite mrun_snoc in E |- *. fold st in E |- *.
        destruct (Nat.eq_dec p q) as [->|N].
        * destruct (t_pc (m_thr st q)) as [pc|] eqn:Epc; [|rewrite (step_idle c st q Epc) in E; congruence].
          destruct (step_to_PushLdT2 c st q pc v prev h Epc E) as (-> & -> & Eres).
          exists l, []. split; [reflexivity|]. fold st.
          pose proof (mv_pc c s st I q _ Epc) as K. cbn [pc_ok] in K.
          repeat split; [exact Epc | symmetry; exact Eres | lia].
        * rewrite (step_other c st q p N) in E |- *.
          destruct (IHpush p v prev h E) as (l1 & l2 & -> & A & B & C0 & D).
          exists l1, (l2 ++ [q]). split; [rewrite <- app_assoc; reflexivity|]. auto.
  Qed.

  (* ---------------- (a1) a pop that returns false saw the queue empty inside the call ---------------- *)
  Lemma pop_fail_saw_empty l p :
    nowrap c (fst (mpmc_step c (mrun c st0 l) p)) ->
    t_res (m_thr (fst (mpmc_step c (mrun c st0 l) p)) p) = RPopFail :: t_res (m_thr (mrun c st0 l) p) ->
    exists l1 l2 h, l = l1 ++ p :: l2 /\
      t_pc (m_thr (mrun c st0 l1) p) = Some (MPopLdT h) /\
      t_res (m_thr (mrun c st0 l1) p) = t_res (m_thr (mrun c st0 l) p) /\
      m_head (mrun c st0 l1) = m_tail (mrun c st0 l1) /\
      m_gh (mrun c st0 l1) = m_gt (mrun c st0 l1).
  Proof.
    intros NW' X.
    assert (NW : nowrap c (mrun c st0 l)).
    { destruct (step_mono c (mrun c st0 l) p). unfold nowrap in *. lia. }
    destruct (step_popfail c _ p X) as (prev & t & Epc & Eh & Ee).
    destruct (hist l NW) as [HP _]. destruct (HP p prev t Epc) as (l1 & l2 & El & A & B & C0 & D).
    exists l1, l2, prev. split; [exact El|]. split; [exact A|]. split; [exact B|].
    pose proof (run_inv l NW) as I.
    assert (NW1 : nowrap c (mrun c st0 l1)) by (apply (nowrap_prefix c _ (p :: l2)); rewrite <- mrun_app, <- El; exact NW).
    pose proof (run_inv l1 NW1) as I1.
    pose proof (mrun_mono c (mrun c st0 l1) (p :: l2)) as [_ M]. rewrite <- mrun_app, <- El in M.
    unfold check_empty in Ee. apply Z.eqb_eq in Ee.
    rewrite (mv_head c s _ I) in Eh, Ee. rewrite (mv_head c s _ I1). rewrite (mv_tail c s _ I1) in C0 |- *.
    split; lia.
  Qed.

  (* ---------------- (a2) a push that returns false saw the queue full inside the call ---------------- *)
  Lemma pushfull_arith gh gt : check_full c gh gt = true -> gt <> gh /\ (gt - gh) mod cap = 0.
  Proof.
    unfold check_full. rewrite andb_true_iff, negb_true_iff, Z.eqb_neq. intros [A B].
    apply (mask_equal_spec c gh gt Hc) in B. pose proof (cfg_cap_pos c Hc). fold cap in B |- *.
    split; [congruence|]. apply (mod_eq_diff cap gt gh); [lia | congruence].
  Qed.

  Lemma push_fail_saw_full l p :
    nowrap c (fst (mpmc_step c (mrun c st0 l) p)) ->
    t_res (m_thr (fst (mpmc_step c (mrun c st0 l) p)) p) = RPushFail :: t_res (m_thr (mrun c st0 l) p) ->
    exists l1 l2 v t, l = l1 ++ p :: l2 /\
      t_pc (m_thr (mrun c st0 l1) p) = Some (MPushLdH v t) /\
      t_res (m_thr (mrun c st0 l1) p) = t_res (m_thr (mrun c st0 l) p) /\
      check_full c (m_head (mrun c st0 l1)) (m_tail (mrun c st0 l1)) = true /\
      m_gt (mrun c st0 l1) <> m_gh (mrun c st0 l1) /\
      (m_gt (mrun c st0 l1) - m_gh (mrun c st0 l1)) mod cap = 0.
  Proof.
    intros NW' X.
    assert (NW : nowrap c (mrun c st0 l)).
    { destruct (step_mono c (mrun c st0 l) p). unfold nowrap in *. lia. }
    destruct (step_pushfail c _ p X) as (v & prev & h & Epc & Et & Ef).
    destruct (hist l NW) as [_ HP]. destruct (HP p v prev h Epc) as (l1 & l2 & El & A & B & C0 & D).
    exists l1, l2, v, prev. split; [exact El|]. split; [exact A|]. split; [exact B|].
    pose proof (run_inv l NW) as I.
    assert (NW1 : nowrap c (mrun c st0 l1)) by (apply (nowrap_prefix c _ (p :: l2)); rewrite <- mrun_app, <- El; exact NW).
    pose proof (run_inv l1 NW1) as I1.
    pose proof (mrun_mono c (mrun c st0 l1) (p :: l2)) as [M _]. rewrite <- mrun_app, <- El in M.
    assert (Et1 : m_tail (mrun c st0 l1) = m_tail (mrun c st0 l)).
    { rewrite (mv_tail c s _ I) in Et |- *. rewrite (mv_tail c s _ I1). lia. }
    assert (F : check_full c (m_head (mrun c st0 l1)) (m_tail (mrun c st0 l1)) = true) by (rewrite C0, Et1; exact Ef).
    split; [exact F|].
    rewrite (mv_head c s _ I1), (mv_tail c s _ I1) in F. apply pushfull_arith; exact F.
  Qed.

  (* the statement as it stood (as a Definition) in C07_Properties.v *)
  Lemma reporting_old st p : mreach c st0 st -> nowrap c st ->
    forall prev t, t_pc (m_thr st p) = Some (MPopLdH2 prev t) -> m_head st = prev -> check_empty (m_head st) t = true ->
    exists st1, mreach c st0 st1 /\ m_gh st1 = m_gt st1 /\ m_gh st1 = m_gh st.
  Proof.
    intros R NW prev t Epc Eh Ee. destruct (mreach_mrun c st0 st R) as [l ->].
    destruct (hist l NW) as [HP _]. destruct (HP p prev t Epc) as (l1 & l2 & El & A & B & C0 & D).
    exists (mrun c st0 l1). split; [apply mrun_reach|].
    pose proof (run_inv l NW) as I.
    assert (NW1 : nowrap c (mrun c st0 l1)) by (apply (nowrap_prefix c _ (p :: l2)); rewrite <- mrun_app, <- El; exact NW).
    pose proof (run_inv l1 NW1) as I1.
    pose proof (mrun_mono c (mrun c st0 l1) (p :: l2)) as [_ M]. rewrite <- mrun_app, <- El in M.
    unfold check_empty in Ee. apply Z.eqb_eq in Ee.
    rewrite (mv_head c s _ I) in Eh, Ee. rewrite (mv_tail c s _ I1) in C0. lia.
  Qed.
End Report.

(* ---------------- (a3) what "full" means in index terms ----------------
   check_full (the C++ `full()` test) says tail - head is a non-zero multiple of the capacity.  send / recv (the ticket
   variant) claim unconditionally, so tail - head may exceed the capacity (blocked senders) or be negative (blocked
   receivers).  If no participant ever calls recv, head <= tail in every reachable state, so a failing push saw at least
   `capacity` claimed-and-unclaimed elements; if moreover nobody calls send, tail <= head + capacity and it saw exactly
   `capacity`.  (With recv in the mix a push CAN return false on a drained queue: see mixed_push_fail_not_full.) *)
Definition norecv (st : mstate) : Prop :=
  forall p, t_pc (m_thr st p) <> Some MRecvFa /\ ~ In ORecv (t_ops (m_thr st p)).
Definition nosend (st : mstate) : Prop :=
  forall p, (forall v, t_pc (m_thr st p) <> Some (MSendFa v)) /\ (forall v, ~ In (OSend v) (t_ops (m_thr st p))).
Definition norecv_scripts (scripts : list (list op)) : Prop := forall p, ~ In ORecv (nth p scripts []).
Definition nosend_scripts (scripts : list (list op)) : Prop := forall p v, ~ In (OSend v) (nth p scripts []).

Lemma norecv_init c s scripts : norecv_scripts scripts -> norecv (mpmc_init c s scripts).
Proof.
  intros H p. specialize (H p). simpl. unfold thr_init. destruct (nth p scripts []) as [|o r]; simpl.
  - split; [discriminate | tauto].
  - split; [|intros X; apply H; right; exact X]. destruct o; try discriminate. exfalso. apply H. left; reflexivity.
Qed.
Lemma nosend_init c s scripts : nosend_scripts scripts -> nosend (mpmc_init c s scripts).
Proof.
  intros H p. specialize (H p). simpl. unfold thr_init. destruct (nth p scripts []) as [|o r]; simpl.
  - split; [discriminate | tauto].
  - split; [|intros v Hv; apply (H v); right; exact Hv]. intros v. destruct o; try discriminate.
    exfalso. apply (H v0). left; reflexivity.
Qed.

Lemma norecv_step c st q : norecv st -> norecv (fst (mpmc_step c st q)).
Proof.
  intros H p. destruct (Nat.eq_dec p q) as [->|N]; [|rewrite (step_other c st q p N); apply H].
  destruct (t_pc (m_thr st q)) as [pc|] eqn:Epc; [|rewrite (step_idle c st q Epc); apply H].
  destruct (H q) as [H1 H2].
  destruct (step_self c st q pc Epc) as [(pc' & -> & A & B)|(r & ->)].
  - cbn [thr_goto t_pc t_ops]. split; [congruence | exact H2].
  - unfold thr_finish. destruct (t_ops (m_thr st q)) as [|o rest]; cbn [t_pc t_ops].
    + split; [discriminate | tauto].
    + split; [|intros X; apply H2; right; exact X]. destruct o; try discriminate. exfalso. apply H2. left; reflexivity.
Qed.
Lemma nosend_step c st q : nosend st -> nosend (fst (mpmc_step c st q)).
Proof.
  intros H p. destruct (Nat.eq_dec p q) as [->|N]; [|rewrite (step_other c st q p N); apply H].
  destruct (t_pc (m_thr st q)) as [pc|] eqn:Epc; [|rewrite (step_idle c st q Epc); apply H].
  destruct (H q) as [H1 H2].
  destruct (step_self c st q pc Epc) as [(pc' & -> & A & B)|(r & ->)].
  - cbn [thr_goto t_pc t_ops]. split; [intros v X; inversion X as [Y]; exact (B v Y) | exact H2].
  - unfold thr_finish. destruct (t_ops (m_thr st q)) as [|o rest]; cbn [t_pc t_ops].
    + split; [discriminate | tauto].
    + split; [|intros v X; apply (H2 v); right; exact X]. intros v. destruct o; try discriminate.
      exfalso. apply (H2 v0). left; reflexivity.
Qed.
Lemma norecv_run c s scripts l : norecv_scripts scripts -> norecv (mrun c (mpmc_init c s scripts) l).
Proof. intros H. induction l as [|q l IH] using rev_ind; [apply norecv_init; exact H | rewrite mrun_snoc; apply norecv_step; exact IH]. Qed.
Lemma nosend_run c s scripts l : nosend_scripts scripts -> nosend (mrun c (mpmc_init c s scripts) l).
Proof. intros H. induction l as [|q l IH] using rev_ind; [apply nosend_init; exact H | rewrite mrun_snoc; apply nosend_step; exact IH]. Qed.

Section Bounds.
  Variable c : cfg.
  Hypothesis Hc : cfg_ok c.
  Variable s : Z.
  Let cap := c_cap c.

  Lemma shift_slot i : 0 < cap -> (i - cap) mod cap = i mod cap /\ (i - cap) / cap = i / cap - 1.
  Proof.
    intros Hp. replace (i - cap) with (i + (-1) * cap) by lia.
    split; [apply Z_mod_plus_full | rewrite Z_div_plus_full by lia; lia].
  Qed.

  (* head <= tail is preserved by every step except recv's fetch_add *)
  Lemma le_step st q : MInv c s st -> norecv st -> m_gh st <= m_gt st ->
    m_gh (fst (mpmc_step c st q)) <= m_gt (fst (mpmc_step c st q)).
  Proof.
    intros I NR B. unfold mpmc_step. destruct (t_pc (m_thr st q)) as [pc|] eqn:Epc; [|exact B].
    pose proof (mv_pc c s st I q pc Epc) as K. pose proof (mv_head c s st I) as Hhd.
    destruct pc; cbn [pc_ok] in K; step_split; try lia.
    - (* MPopCas success *) destruct K as [K1 K2].
      match goal with H : (_ =? _) = true |- _ => apply Z.eqb_eq in H; rewrite Hhd in H; subst h end.
      destruct (Z_lt_dec (m_gh st) (m_gt st)) as [L|G]; [lia|]. exfalso.
      assert (G' : m_gt st <= m_gh st) by lia.
      pose proof (mv_wunp c s st I (m_gh st) (proj1 (mv_lo c s st I)) (or_introl G')) as U. fold cap in K2, U. lia.
    - (* MRecvFa *) exfalso. apply (proj1 (NR q)). exact Epc.
  Qed.

  (* tail <= head + capacity is preserved by every step except send's fetch_add *)
  Lemma ge_step st q : MInv c s st -> nosend st -> m_gt st <= m_gh st + cap ->
    m_gt (fst (mpmc_step c st q)) <= m_gh (fst (mpmc_step c st q)) + cap.
  Proof.
    intros I NS B. unfold mpmc_step. destruct (t_pc (m_thr st q)) as [pc|] eqn:Epc; [|exact B].
    pose proof (mv_pc c s st I q pc Epc) as K. pose proof (mv_tail c s st I) as Htl.
    pose proof (cfg_cap_pos c Hc) as Hcp. fold cap in Hcp.
    destruct pc; cbn [pc_ok] in K; step_split; try lia.
    - (* MPushCas success *) destruct K as [K1 K2].
      match goal with H : (_ =? _) = true |- _ => apply Z.eqb_eq in H; rewrite Htl in H; subst t end.
      destruct (Z_lt_dec (m_gt st) (m_gh st + cap)) as [L|G]; [lia|]. exfalso.
      assert (G1 : s <= m_gt st - cap) by (pose proof (proj1 (mv_lo c s st I)); lia).
      assert (G2 : m_gh st <= m_gt st - cap) by lia.
      pose proof (mv_rund c s st I (m_gt st - cap) G1 (or_introl G2)) as U.
      fold cap in K2, U. destruct (shift_slot (m_gt st) ltac:(lia)) as [E1 E2]. rewrite E1, E2 in U. lia.
    - (* MSendFa *) exfalso. apply (proj1 (NS q) v). exact Epc.
  Qed.

  Variable scripts : list (list op).
  Hypothesis Hs0 : 0 <= s.
  Let st0 := mpmc_init c s scripts.

  Lemma run_le l : norecv_scripts scripts -> nowrap c (mrun c st0 l) -> m_gh (mrun c st0 l) <= m_gt (mrun c st0 l).
  Proof.
    intros NR. induction l as [|q l IH] using rev_ind; intros NW; [simpl; lia|].
    rewrite mrun_snoc in NW |- *.
    assert (NW0 : nowrap c (mrun c st0 l)) by (destruct (step_mono c (mrun c st0 l) q); unfold nowrap in *; lia).
    apply le_step; [apply (run_inv c Hc s Hs0 scripts l NW0) | apply norecv_run; exact NR | apply IH; exact NW0].
  Qed.
  Lemma run_ge l : nosend_scripts scripts -> nowrap c (mrun c st0 l) -> m_gt (mrun c st0 l) <= m_gh (mrun c st0 l) + cap.
  Proof.
    intros NS. pose proof (cfg_cap_pos c Hc) as Hcp. fold cap in Hcp.
    induction l as [|q l IH] using rev_ind; intros NW; [simpl; lia|].
    rewrite mrun_snoc in NW |- *.
    assert (NW0 : nowrap c (mrun c st0 l)) by (destruct (step_mono c (mrun c st0 l) q); unfold nowrap in *; lia).
    apply ge_step; [apply (run_inv c Hc s Hs0 scripts l NW0) | apply nosend_run; exact NS | apply IH; exact NW0].
  Qed.

  (* a failing push in a run without recv saw >= capacity elements; without send and recv: exactly capacity *)
  Lemma push_fail_saw_full_cas l p :
    norecv_scripts scripts ->
    nowrap c (fst (mpmc_step c (mrun c st0 l) p)) ->
    t_res (m_thr (fst (mpmc_step c (mrun c st0 l) p)) p) = RPushFail :: t_res (m_thr (mrun c st0 l) p) ->
    exists l1 l2 v t, l = l1 ++ p :: l2 /\
      t_pc (m_thr (mrun c st0 l1) p) = Some (MPushLdH v t) /\
      t_res (m_thr (mrun c st0 l1) p) = t_res (m_thr (mrun c st0 l) p) /\
      cap <= m_gt (mrun c st0 l1) - m_gh (mrun c st0 l1) /\
      (nosend_scripts scripts -> m_gt (mrun c st0 l1) - m_gh (mrun c st0 l1) = cap).
  Proof.
    intros NR NW' X.
    destruct (push_fail_saw_full c Hc s Hs0 scripts l p NW' X) as (l1 & l2 & v & t & El & A & B & _ & Ne & Md).
    fold st0 in A, B, Ne, Md.
    exists l1, l2, v, t. split; [exact El|]. split; [exact A|]. split; [exact B|].
    assert (NW : nowrap c (mrun c st0 l)) by (destruct (step_mono c (mrun c st0 l) p); unfold nowrap in *; lia).
    assert (NW1 : nowrap c (mrun c st0 l1)) by (apply (nowrap_prefix c _ (p :: l2)); rewrite <- mrun_app, <- El; exact NW).
    pose proof (run_le l1 NR NW1) as Le. pose proof (cfg_cap_pos c Hc) as Hcp. fold cap in Hcp, Md.
    set (d := m_gt (mrun c st0 l1) - m_gh (mrun c st0 l1)) in *.
    assert (Hd : 0 < d) by (unfold d; lia).
    assert (Hge : cap <= d).
    { destruct (Z_lt_dec d cap) as [L|G]; [|lia]. rewrite Z.mod_small in Md by lia. lia. }
    split; [exact Hge|]. intros NS. pose proof (run_ge l1 NS NW1). unfold d in *. lia.
  Qed.
End Bounds.

(* with recv in the mix, the `full()` test can hold on a DRAINED queue (head > tail): capacity 2, two elements pushed and
   consumed except that the first consumer has not yet released slot 0, two more receivers waiting: head = 4, tail = 2,
   and push returns false.  (A spurious `false`, not a safety problem; RingChannel uses push with pop only.) *)
Example mixed_push_fail_not_full :
  let c := cfg_of 2 in
  let st0 := mpmc_init c 0 [[OPush 7; OPush 8; OPush 9]; [ORecv]; [ORecv; ORecv]; [ORecv]] in
  exists l, let st := mrun c st0 l in
    t_res (m_thr (fst (mpmc_step c st 0%nat)) 0%nat) = RPushFail :: t_res (m_thr st 0%nat) /\
    nowrap c (fst (mpmc_step c st 0%nat)) /\ m_gh st = 4 /\ m_gt st = 2.
Proof.
  cbv zeta.
  exists [0;0;0;0;0; 0;0;0;0;0; 1;1; 2;2;2;2; 2; 3; 0;0;0]%nat.
  vm_compute. repeat split; reflexivity.
Qed.
