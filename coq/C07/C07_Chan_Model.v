(* C07_Chan_Model.v — RingChannel / FlexRingChannel protocol (lockfree_queue.h 716-818 = 832-947):
   send<PhotonPause> (743-776 with SendBackoff::push_backoff 653-678), recv(max_yield_turn, usec)
   (777-809) and SendBackoff::notify_senders (630-651).
   Abstractions (stated in notes/C07.md):
   - the underlying queue is an ATOMIC bounded FIFO (push fails iff full, pop fails iff empty, one step
     each) — what the MPMC theorems + the linearisation points of a failing push/pop justify;
   - photon::semaphore is a counter: wait(1) is a step that takes a token if there is one, else stays
     blocked (flavor 0) or times out (flavor 1, the 100 ms timed re-check); signal(1) adds a token;
   - photon::thread_yield() is a stutter step; yield_timeout never expires (photon::now is constant
     under E3), so the yield phase lasts exactly yield_turn iterations.
   One transition per instrumentation point of the E3 harness (harness/C07/harness.cpp, kind chan). *)
From Coq Require Import ZArith List Bool Arith.
From PV Require Import Base.U64 E3.E3_Run C07.C07_Model.
Import ListNotations.
Local Open Scope Z_scope.

Inductive cpc :=
(* send *)
| CSPush1 (v : Z)                      (* 659  if (!push_fn(x))                               *)
| CSSwInc (v : Z)                      (* 660  send_waiters.fetch_add(1)                      *)
| CSPush2 (v yt : Z)                   (* 664  while (!push_fn(x))                            *)
| CSYield (v yt : Z)                   (* 667  photon::thread_yield()                         *)
| CSSemWait (v : Z)                    (* 670  send_sem.wait(1, 100ms)                        *)
| CSSpDec (v : Z)                      (* 672  send_pending.fetch_sub(1)                      *)
| CSSwDec (v : Z)                      (* 661  DEFER send_waiters.fetch_sub(1)                *)
| CSLdIdler (v : Z)                    (* 754  cur_idler = idler.load(seq_cst)                *)
| CSLdPend (v cur : Z)                 (* 760  p = pending.load(acquire)                      *)
| CSLdFresh (v cur pd : Z)             (* 763  fresh = idler.load(relaxed)                    *)
| CSCasPend (v cur pd : Z)             (* 768  pending.compare_exchange_weak(p, p+1)          *)
| CSSignal (v : Z)                     (* 771  queue_sem.signal(1)                            *)
(* recv *)
| CRPop1                               (* 779  if (pop(x))                                    *)
| CRYield0                             (* 784  photon::thread_yield()                         *)
| CRIdInc                              (* 786  idler.fetch_add(1)                             *)
| CRPop2 (yt : Z)                      (* 790  while (!pop(x))                                *)
| CRYield (yt : Z)                     (* 793  photon::thread_yield()                         *)
| CRSemWait                            (* 796  queue_sem.wait(1, 100ms)                       *)
| CRPdDec                              (* 801  pending.fetch_sub(1)                           *)
| CRIdDec (v : Z)                      (* 787  DEFER idler.fetch_sub(1)                       *)
(* notify_senders (dec = called from the slow path: idler.fetch_sub follows) *)
| CNLdSw (v : Z) (dec : bool)          (* 634  cur_waiters = send_waiters.load(seq_cst)       *)
| CNLdSp (v : Z) (dec : bool) (cw : Z) (* 636  sp = send_pending.load(acquire)                *)
| CNLdFresh (v : Z) (dec : bool) (cw sp : Z)   (* 639  fresh = send_waiters.load(relaxed)     *)
| CNCasSp (v : Z) (dec : bool) (cw sp : Z)     (* 644  send_pending.compare_exchange_weak     *)
| CNSignal (v : Z) (dec : bool).       (* 647  send_sem.signal(1)                             *)

Definition chan_entry (o : op) : cpc :=
  match o with
  | OPush v | OSend v => CSPush1 v
  | OPushB vs => CSPush1 (hd 0 vs)
  | OPop | ORecv | OPopB _ => CRPop1
  end.

Record cstate := mkC {
  c_q : list Z;                        (* the abstract FIFO (front = head) *)
  c_idler : Z; c_pending : Z; c_swait : Z; c_spend : Z;
  c_qsem : Z; c_ssem : Z;              (* token counts of queue_sem / send_sem *)
  (* GHOST (never read by the transitions): c_epoch counts the times the queue went from empty to non-empty,
     c_tep p = epoch of p's last successful push; c_fepoch counts the times it went from full to non-full,
     c_tfep p = that epoch at p's last successful pop *)
  c_epoch : Z; c_tep : nat -> Z; c_fepoch : Z; c_tfep : nat -> Z;
  c_thr : nat -> thr cpc }.

Definition c_set_thr st p th := mkC (c_q st) (c_idler st) (c_pending st) (c_swait st) (c_spend st) (c_qsem st) (c_ssem st) (c_epoch st) (c_tep st) (c_fepoch st) (c_tfep st) (upd (c_thr st) p th).
Definition c_goto st p pc := c_set_thr st p (thr_goto (c_thr st p) pc).
Definition c_finish st p r := c_set_thr st p (thr_finish chan_entry (c_thr st p) r).
Definition c_with_q st q := mkC q (c_idler st) (c_pending st) (c_swait st) (c_spend st) (c_qsem st) (c_ssem st) (c_epoch st) (c_tep st) (c_fepoch st) (c_tfep st) (c_thr st).
(* successful push of v by p / successful pop by p, with the ghost epochs *)
Definition c_push st (p : nat) (v : Z) :=
  let e := match c_q st with [] => c_epoch st + 1 | _ => c_epoch st end in
  mkC (c_q st ++ [v]) (c_idler st) (c_pending st) (c_swait st) (c_spend st) (c_qsem st) (c_ssem st)
      e (upd (c_tep st) p e) (c_fepoch st) (c_tfep st) (c_thr st).
Definition c_pop st (cap : Z) (p : nat) (r : list Z) :=
  let e := if cap <=? Z.of_nat (length (c_q st)) then c_fepoch st + 1 else c_fepoch st in
  mkC r (c_idler st) (c_pending st) (c_swait st) (c_spend st) (c_qsem st) (c_ssem st)
      (c_epoch st) (c_tep st) e (upd (c_tfep st) p e) (c_thr st).
Definition c_with_idler st x := mkC (c_q st) x (c_pending st) (c_swait st) (c_spend st) (c_qsem st) (c_ssem st) (c_epoch st) (c_tep st) (c_fepoch st) (c_tfep st) (c_thr st).
Definition c_with_pending st x := mkC (c_q st) (c_idler st) x (c_swait st) (c_spend st) (c_qsem st) (c_ssem st) (c_epoch st) (c_tep st) (c_fepoch st) (c_tfep st) (c_thr st).
Definition c_with_swait st x := mkC (c_q st) (c_idler st) (c_pending st) x (c_spend st) (c_qsem st) (c_ssem st) (c_epoch st) (c_tep st) (c_fepoch st) (c_tfep st) (c_thr st).
Definition c_with_spend st x := mkC (c_q st) (c_idler st) (c_pending st) (c_swait st) x (c_qsem st) (c_ssem st) (c_epoch st) (c_tep st) (c_fepoch st) (c_tfep st) (c_thr st).
Definition c_with_qsem st x := mkC (c_q st) (c_idler st) (c_pending st) (c_swait st) (c_spend st) x (c_ssem st) (c_epoch st) (c_tep st) (c_fepoch st) (c_tfep st) (c_thr st).
Definition c_with_ssem st x := mkC (c_q st) (c_idler st) (c_pending st) (c_swait st) (c_spend st) (c_qsem st) x (c_epoch st) (c_tep st) (c_fepoch st) (c_tfep st) (c_thr st).

(* user points *)
Definition U_SEMWAIT : Z := 0.   Definition U_SEMSIG : Z := 1.   Definition U_YIELD : Z := 2.
Definition U_SSEMWAIT : Z := 3.  Definition U_SSEMSIG : Z := 4.  Definition U_QPUSH : Z := 5.  Definition U_QPOP : Z := 6.

Definition send_loop (v cur p : Z) : cpc := if cur <=? p then CSLdFresh v cur p else CSCasPend v cur p.   (* 762 *)
Definition notify_loop (v : Z) (dec : bool) (cw sp : Z) : cpc := if cw <=? sp then CNLdFresh v dec cw sp else CNCasSp v dec cw sp.  (* 638 *)
Definition recv_done (st : cstate) (p : nat) (v : Z) (dec : bool) : cstate :=
  if dec then c_goto st p (CRIdDec v) else c_finish st p (RRecv 0 v).

Definition chan_step (cap Y : Z) (st : cstate) (p : nat) (flavor : nat) : cstate * obs :=
  match t_pc (c_thr st p) with
  | None => (st, ob_none)
  | Some pc =>
    let full := cap <=? Z.of_nat (length (c_q st)) in
    match pc with
    | CSPush1 v =>
        if full then (c_goto st p (CSSwInc v), ob_user U_QPUSH 1 0 0)
        else (c_goto (c_push st p v) p (CSLdIdler v), ob_user U_QPUSH 1 1 0)
    | CSSwInc v => (c_goto (c_with_swait st (wrap (c_swait st + 1))) p (CSPush2 v Y), ob_fa A_SWAIT (-1) 1 (c_swait st))
    | CSPush2 v yt =>
        if full then (c_goto st p (if 0 <? yt then CSYield v (yt - 1) else CSSemWait v), ob_user U_QPUSH 1 0 0)
        else (c_goto (c_push st p v) p (CSSwDec v), ob_user U_QPUSH 1 1 0)
    | CSYield v yt => (c_goto st p (CSPush2 v yt), ob_user U_YIELD 0 0 0)
    | CSSemWait v =>
        if 0 <? c_ssem st then (c_goto (c_with_ssem st (c_ssem st - 1)) p (CSSpDec v), ob_user U_SSEMWAIT 1 1 0)
        else if Nat.eqb flavor 1 then (c_goto st p (CSPush2 v Y), ob_user U_SSEMWAIT 1 2 0)
        else (st, ob_user U_SSEMWAIT 1 0 0)
    | CSSpDec v => (c_goto (c_with_spend st (wrap (c_spend st - 1))) p (CSPush2 v Y), ob_fs A_SPEND (-1) 1 (c_spend st))
    | CSSwDec v => (c_goto (c_with_swait st (wrap (c_swait st - 1))) p (CSLdIdler v), ob_fs A_SWAIT (-1) 1 (c_swait st))
    | CSLdIdler v =>
        let cur := c_idler st in
        if cur =? 0 then (c_finish st p (RSent 0 v), ob_ld A_IDLER (-1) cur)
        else (c_goto st p (CSLdPend v cur), ob_ld A_IDLER (-1) cur)
    | CSLdPend v cur => (c_goto st p (send_loop v cur (c_pending st)), ob_ld A_PENDING (-1) (c_pending st))
    | CSLdFresh v cur pd =>
        let fresh := c_idler st in
        if fresh <=? cur then (c_finish st p (RSent 0 v), ob_ld A_IDLER (-1) fresh)
        else (c_goto st p (send_loop v fresh pd), ob_ld A_IDLER (-1) fresh)
    | CSCasPend v cur pd =>
        let o := c_pending st in
        if o =? pd then (c_goto (c_with_pending st (wrap (pd + 1))) p (CSSignal v), ob_cas A_PENDING (-1) pd (wrap (pd + 1)) o true)
        else (c_goto st p (send_loop v cur o), ob_cas A_PENDING (-1) pd (wrap (pd + 1)) o false)
    | CSSignal v => (c_finish (c_with_qsem st (c_qsem st + 1)) p (RSent 0 v), ob_user U_SEMSIG 1 (c_qsem st + 1) 0)
    | CRPop1 =>
        match c_q st with
        | [] => (c_goto st p CRYield0, ob_user U_QPOP 1 0 0)
        | v :: r => (c_goto (c_pop st cap p r) p (CNLdSw v false), ob_user U_QPOP 2 1 v)
        end
    | CRYield0 => (c_goto st p CRIdInc, ob_user U_YIELD 0 0 0)
    | CRIdInc => (c_goto (c_with_idler st (wrap (c_idler st + 1))) p (CRPop2 Y), ob_fa A_IDLER (-1) 1 (c_idler st))
    | CRPop2 yt =>
        match c_q st with
        | [] => (c_goto st p (if 0 <? yt then CRYield (yt - 1) else CRSemWait), ob_user U_QPOP 1 0 0)
        | v :: r => (c_goto (c_pop st cap p r) p (CNLdSw v true), ob_user U_QPOP 2 1 v)
        end
    | CRYield yt => (c_goto st p (CRPop2 yt), ob_user U_YIELD 0 0 0)
    | CRSemWait =>
        if 0 <? c_qsem st then (c_goto (c_with_qsem st (c_qsem st - 1)) p CRPdDec, ob_user U_SEMWAIT 1 1 0)
        else if Nat.eqb flavor 1 then (c_goto st p (CRPop2 Y), ob_user U_SEMWAIT 1 2 0)
        else (st, ob_user U_SEMWAIT 1 0 0)
    | CRPdDec => (c_goto (c_with_pending st (wrap (c_pending st - 1))) p (CRPop2 Y), ob_fs A_PENDING (-1) 1 (c_pending st))
    | CRIdDec v => (c_finish (c_with_idler st (wrap (c_idler st - 1))) p (RRecv 0 v), ob_fs A_IDLER (-1) 1 (c_idler st))
    | CNLdSw v dec =>
        let cw := c_swait st in
        if cw =? 0 then (recv_done st p v dec, ob_ld A_SWAIT (-1) cw)
        else (c_goto st p (CNLdSp v dec cw), ob_ld A_SWAIT (-1) cw)
    | CNLdSp v dec cw => (c_goto st p (notify_loop v dec cw (c_spend st)), ob_ld A_SPEND (-1) (c_spend st))
    | CNLdFresh v dec cw sp =>
        let fresh := c_swait st in
        if fresh <=? cw then (recv_done st p v dec, ob_ld A_SWAIT (-1) fresh)
        else (c_goto st p (notify_loop v dec fresh sp), ob_ld A_SWAIT (-1) fresh)
    | CNCasSp v dec cw sp =>
        let o := c_spend st in
        if o =? sp then (c_goto (c_with_spend st (wrap (sp + 1))) p (CNSignal v dec), ob_cas A_SPEND (-1) sp (wrap (sp + 1)) o true)
        else (c_goto st p (notify_loop v dec cw o), ob_cas A_SPEND (-1) sp (wrap (sp + 1)) o false)
    | CNSignal v dec => (recv_done (c_with_ssem st (c_ssem st + 1)) p v dec, ob_user U_SSEMSIG 1 (c_ssem st + 1) 0)
    end
  end.

(* E3 step: same transition; the observation is flagged (o_v4 = 1, printed as a trailing '!') when the step
   completed an op of the script, so that the log shows which participants are inside an operation *)
Definition chan_e3step (cap Y : Z) (st : cstate) (p : nat) (flavor : nat) : cstate * obs :=
  let '(st', o) := chan_step cap Y st p flavor in
  if Nat.ltb (length (t_res (c_thr st p))) (length (t_res (c_thr st' p)))
  then (st', mkObs (o_kind o) (o_addr o) (o_idx o) (o_v1 o) (o_v2 o) (o_v3 o) 1) else (st', o).

Definition chan_fin (st : cstate) (p : nat) : bool :=
  match t_pc (c_thr st p) with None => true | Some _ => false end.

Definition chan_init (scripts : list (list op)) : cstate :=
  mkC [] 0 0 0 0 0 0 0 (fun _ => 0) 0 (fun _ => 0) (fun p => thr_init chan_entry (nth p scripts [])).

Definition chan_run (cap Y : Z) (bound : nat) (sched : list nat) (scripts : list (list op)) :=
  e3_run (chan_e3step cap Y) chan_fin (length scripts) bound sched (pred (length scripts)) (chan_init scripts) [].

(* ---- the property, as a decidable predicate on states (evaluated by the runner and, independently, by the
   python oracle on the implementation's final state).  A state is a LOST WAKE-UP for consumers if the queue is
   non-empty, at least one consumer is inside recv, every thread inside an operation is a consumer blocked in
   queue_sem.wait, and the semaphore holds no token: then nothing but the 100 ms timed re-check can make progress. *)
Definition blocked_recv (pc : cpc) : bool := match pc with CRSemWait => true | _ => false end.
Definition blocked_send (pc : cpc) : bool := match pc with CSSemWait _ => true | _ => false end.
Definition idle_pc (pc : cpc) : bool := match pc with CSPush1 _ | CRPop1 => true | _ => false end.   (* parked before its next op *)
Definition thr_state (st : cstate) (f : cpc -> bool) (dflt : bool) (p : nat) : bool :=
  match t_pc (c_thr st p) with Some pc => f pc | None => dflt end.
Definition lost_wakeup_recv (n : nat) (st : cstate) : bool :=
  negb (match c_q st with [] => true | _ => false end) && (c_qsem st =? 0) &&
  existsb (thr_state st blocked_recv false) (seq 0 n) &&
  forallb (thr_state st (fun pc => blocked_recv pc || idle_pc pc) true) (seq 0 n).
Definition lost_wakeup_send (cap : Z) (n : nat) (st : cstate) : bool :=
  (Z.of_nat (length (c_q st)) <? cap) && (c_ssem st =? 0) &&
  existsb (thr_state st blocked_send false) (seq 0 n) &&
  forallb (thr_state st (fun pc => blocked_send pc || idle_pc pc) true) (seq 0 n).
