(* C07_Model.v — common part of the models of common/lockfree_queue.h:
   LockfreeRingQueueBase (70-145): capacity rounding, index/turn/mask arithmetic on uint64_t
   (written out mod 2^64), the op scripts of a participant, per-op results with ghost indices.
   Executable definitions only.  The three queue models and the RingChannel model are in
   C07_SPSC_Model.v, C07_MPMC_Model.v, C07_Batch_Model.v, C07_Chan_Model.v.                    *)
From Coq Require Import ZArith List Bool Arith.
From PV Require Import Base.U64 E3.E3_Run.
Import ListNotations.
Local Open Scope Z_scope.

(* ---- LockfreeRingQueueBase(size_t c), lines 97-110 ------------------------------------------
   capacity = c > 1 ? 1 << (64 - clzll(c-1)) : 2 ;  mask = capacity-1 ; shift = ctz(capacity) ;
   lshift = 64 - shift.   64 - clzll(x) for x >= 1 is the bit length  log2 x + 1.               *)
Definition cap_of (c : Z) : Z := if 1 <? c then Z.shiftl 1 (Z.log2 (c - 1) + 1) else 2.

Record cfg := mkCfg { c_cap : Z; c_shift : Z }.
Definition cfg_of (c : Z) : cfg := let cap := cap_of c in mkCfg cap (Z.log2 cap).
Definition lshift (c : cfg) : Z := 64 - c_shift c.
Definition mask (c : cfg) : Z := c_cap c - 1.

Definition idx (c : cfg) (x : Z) : Z := Z.land x (mask c).                      (* 142 *)
Definition turn (c : cfg) (x : Z) : Z := Z.shiftr x (c_shift c).                (* 144 *)
Definition mask_equal (c : cfg) (x y : Z) : bool :=                             (* 132-134 *)
  wrap (Z.shiftl x (lshift c)) =? wrap (Z.shiftl y (lshift c)).
Definition check_empty (h t : Z) : bool := h =? t.                              (* 136 *)
Definition check_full (c : cfg) (h t : Z) : bool := negb (h =? t) && mask_equal c h t.   (* 138-140 *)

(* MPMC slot marks, 207-217 (MarkType = uint64_t) *)
Definition this_turn_write (c : cfg) (x : Z) : Z := wrap (Z.shiftl (turn c x) 1 + 1).
Definition this_turn_read (c : cfg) (x : Z) : Z := wrap (Z.shiftl (turn c x) 1 + 2).
Definition last_turn_read (c : cfg) (x : Z) : Z := wrap (Z.shiftl (turn c x) 1).

Definition zmin (a b : Z) : Z := if a <? b then a else b.                       (* std::min *)

(* ---- participants ---------------------------------------------------------------------------- *)
Inductive op :=
| OPush (v : Z) | OPop | OSend (v : Z) | ORecv | OPushB (vs : list Z) | OPopB (n : Z).

(* result of a completed op.  The index arguments `i` are GHOST (absolute position of the element
   in the unbounded sequence of claims); the runner does not print them. *)
Inductive res :=
| RPushOk (i v : Z) | RPushFail | RPopOk (i v : Z) | RPopFail
| RSent (i v : Z) | RRecv (i v : Z)
| RPushB (i : Z) (ws : list Z)       (* the values actually pushed (a prefix of the argument) *)
| RPopB (i : Z) (vs : list Z).

Section Thr.
  Context {PC : Type}.
  (* t_pc = None: script finished.  t_res is in reverse order (latest first). *)
  Record thr := mkThr { t_pc : option PC; t_ops : list op; t_res : list res }.
  Variable entry : op -> PC.
  Definition thr_init (ops : list op) : thr :=
    match ops with [] => mkThr None [] [] | o :: r => mkThr (Some (entry o)) r [] end.
  Definition thr_goto (th : thr) (pc : PC) : thr := mkThr (Some pc) (t_ops th) (t_res th).
  Definition thr_finish (th : thr) (r : res) : thr :=
    match t_ops th with
    | [] => mkThr None [] (r :: t_res th)
    | o :: rest => mkThr (Some (entry o)) rest (r :: t_res th)
    end.
End Thr.
Arguments thr : clear implicits.

Definition upd {A} (f : nat -> A) (i : nat) (x : A) : nat -> A := fun j => if Nat.eqb j i then x else f j.
Definition updZ {A} (f : Z -> A) (i : Z) (x : A) : Z -> A := fun j => if j =? i then x else f j.

(* address classes of the step log (names are given by the runner / the harness) *)
Definition A_HEAD : Z := 0.
Definition A_TAIL : Z := 1.
Definition A_MARK : Z := 2.     (* indexed by slot *)
Definition A_WHEAD : Z := 3.    (* batch queue write_head *)
Definition A_RTAIL : Z := 4.    (* batch queue read_tail *)
Definition A_IDLER : Z := 5.
Definition A_PENDING : Z := 6.
Definition A_SWAIT : Z := 7.    (* send_waiters *)
Definition A_SPEND : Z := 8.    (* send_pending *)

(* copy a list into / out of the ring starting at real index t (memcpy in two parts == per-element
   idx, since capacity divides 2^64) *)
Fixpoint ring_write (c : cfg) (sl : Z -> Z) (t : Z) (vs : list Z) : Z -> Z :=
  match vs with [] => sl | v :: r => ring_write c (updZ sl (idx c t) v) (wrap (t + 1)) r end.
Fixpoint ring_read (c : cfg) (sl : Z -> Z) (h : Z) (n : nat) : list Z :=
  match n with O => [] | S n' => sl (idx c h) :: ring_read c sl (wrap (h + 1)) n' end.
