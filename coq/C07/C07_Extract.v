(* Extraction of the C07 models: ExtrOcamlBasic only; Z, positive, nat stay Coq's datatypes. *)
From Coq Require Import ZArith List.
From PV Require Import Base.U64 E3.E3_Run C07.C07_Model C07.C07_SPSC_Model C07.C07_MPMC_Model C07.C07_Batch_Model C07.C07_Chan_Model.
Require Extraction.
Require Import ExtrOcamlBasic.
Extraction "c07_model.ml" cfg_of spsc_run mpmc_run batch_run chan_run.
