(* C07_Batch_Fifo.v — batch MPMC ring queue (LockfreeBatchMPMCRingQueue, lockfree_queue.h 308-390): strict per-thread
   FIFO and exactly-once ACROSS COMPLETED RESULTS (C07_Batch_Proofs.v proves the frontier order, intact slots, right
   values and disjointness of the claims IN PROGRESS).
   bpushed st p / bpopped st p = the (absolute index, value) items of the completed pushes / pops of thread p in its
   program order (a batch result contributes its whole interval).  Why it holds: a push completes only by moving
   write_head from the start i of its interval to its end, so every item completed before (by anybody) is < i; dually
   a pop completes by moving head over its interval.
   ANY number of participants, any scripts, any schedule, below the 2^64 index wrap (breach_nw). *)
From Coq Require Import ZArith Znumtheory Lia List Bool Arith Sorted.
From PV Require Import Base.U64 E3.E3_Run C07.C07_Model C07.C07_Arith C07.C07_Lists C07.C07_Batch_Model C07.C07_Chan_Proofs C07.C07_Batch_Proofs.
Import ListNotations.
Local Open Scope Z_scope.

Definition bchron (st : bstate) (p : nat) : list res := rev (t_res (b_thr st p)).
Definition bpushed (st : bstate) (p : nat) : list (Z * Z) := push_items (bchron st p).
Definition bpopped (st : bstate) (p : nat) : list (Z * Z) := pop_items (bchron st p).

(* ---------------- list helpers ---------------- *)
Lemma SSorted_app (l1 l2 : list Z) :
  StronglySorted Z.lt l1 -> StronglySorted Z.lt l2 -> (forall x y, In x l1 -> In y l2 -> x < y) ->
  StronglySorted Z.lt (l1 ++ l2).
Proof.
  induction l1 as [|a l1 IH]; intros S1 S2 H; simpl; [exact S2|].
  inversion S1; subst. constructor.
  - apply IH; [assumption | assumption |]. intros x y Hx Hy. apply H; [right; exact Hx | exact Hy].
  - apply Forall_app. split; [assumption|]. apply Forall_forall. intros y Hy. apply H; [left; reflexivity | exact Hy].
Qed.
Lemma zseq_sorted a n : StronglySorted Z.lt (zseq a n).
Proof.
  revert a; induction n as [|n IH]; intros a; simpl; constructor; [apply IH|].
  apply Forall_forall. intros y Hy. apply zseq_In in Hy. lia.
Qed.

(* the items of an interval [i, i+n) under the ghost value map g *)
Definition items (g : Z -> Z) (i : Z) (n : nat) : list (Z * Z) := map (fun j => (j, g j)) (zseq i n).
Lemma items_In g i n j w : In (j, w) (items g i n) <-> i <= j < i + Z.of_nat n /\ w = g j.
Proof.
  unfold items. rewrite in_map_iff. split.
  - intros (x & E & Hx). inversion E; subst. apply zseq_In in Hx. auto.
  - intros [Hj ->]. exists j. split; [reflexivity | apply zseq_In; exact Hj].
Qed.
Lemma items_fst g i n : map fst (items g i n) = zseq i n.
Proof. unfold items. rewrite map_map. simpl. apply map_id. Qed.
Lemma indexed_items (g : Z -> Z) i ws :
  (forall k, 0 <= k < Z.of_nat (length ws) -> g (i + k) = nth (Z.to_nat k) ws 0) -> indexed i ws = items g i (length ws).
Proof.
  intros H. rewrite (indexed_map g i ws H). unfold items, zrange.
  replace (i + Z.of_nat (length ws) - i) with (Z.of_nat (length ws)) by lia. rewrite Nat2Z.id. reflexivity.
Qed.
Lemma indexed_zseq (g : Z -> Z) i n : indexed i (map g (zseq i n)) = items g i n.
Proof. unfold items. revert i; induction n as [|n IH]; intros i; simpl; [reflexivity|]. f_equal. apply IH. Qed.

Lemma gwrite_const {A B} (g : Z -> A) i (xs : list B) (a : A) k :
  0 <= k < Z.of_nat (length xs) -> gwrite g i (map (fun _ => a) xs) (i + k) = a.
Proof.
  revert g i k; induction xs as [|x r IH]; intros g i k H; simpl in *; [lia|].
  destruct (Z.eq_dec k 0) as [->|N].
  - rewrite Z.add_0_r. rewrite gwrite_other by lia. apply updZ_same.
  - replace (i + k) with (i + 1 + (k - 1)) by lia. apply IH. lia.
Qed.

(* ---------------- extra program-point facts ----------------
   `one` (the single-element wrappers push = push_batch(&x,1), pop = pop_batch(&x,1)) means the interval has length 1;
   the producer of a claimed write interval is its claimer *)
Definition bpc_x (st : bstate) (p : nat) (pc : bpc) : Prop :=
  match pc with
  | BPushLdT one vs | BPushLdH one vs _ | BPushCasT one vs _ _ => one = true -> length vs = 1%nat
  | BPushWr one _ _ wn i | BPushCasW one _ wn i _ => (one = true -> wn = 1) /\ forall k, 0 <= k < wn -> b_gwho st (i + k) = p
  | BPopLdRT one n | BPopLdWH one n _ => one = true -> n = 1
  | BPopCasRT one n _ rn => one = true -> n = 1 /\ rn = 1
  | BPopRd one _ rn _ | BPopCasH one _ rn _ _ => one = true -> rn = 1
  end.

Lemma entry_x st p o : bpc_x st p (batch_entry o).
Proof. destruct o; simpl; intros; first [reflexivity | discriminate]. Qed.

Lemma bfinish_tres (th : thr bpc) r : t_res (thr_finish batch_entry th r) = r :: t_res th.
Proof. unfold thr_finish. destruct (t_ops th); reflexivity. Qed.

Section BatchFifo.
  Variable c : cfg.
  Hypothesis Hc : cfg_ok c.
  Variable s : Z.
  Let cap := c_cap c.

  Record BFifo (st : bstate) : Prop := mkBFifo {
    bf_x : forall p pc, t_pc (b_thr st p) = Some pc -> bpc_x st p pc;
    bf_push : forall p i v, In (i, v) (bpushed st p) -> s <= i < b_whead st /\ b_gval st i = v /\ b_gwho st i = p;
    bf_pop : forall p i v, In (i, v) (bpopped st p) -> s <= i < b_head st /\ v = b_gval st i;
    bf_psort : forall p, StronglySorted Z.lt (map fst (bpushed st p));
    bf_csort : forall p, StronglySorted Z.lt (map fst (bpopped st p));
    bf_pop_once : forall p q i v w, In (i, v) (bpopped st p) -> In (i, w) (bpopped st q) -> p = q;
    bf_push_all : forall i, s <= i < b_whead st -> In (i, b_gval st i) (bpushed st (b_gwho st i));
    bf_pop_all : forall i, s <= i < b_head st -> exists q, In (i, b_gval st i) (bpopped st q);
  }.

  (* a step that replaces the record of thread p without completing a successful op, leaves head / write_head alone
     and does not touch the ghost maps below tail *)
  Lemma bfifo_ext st st' p th' :
    BInv c s st -> BFifo st ->
    b_head st' = b_head st -> b_whead st' = b_whead st ->
    (forall j, j < b_tail st -> b_gval st' j = b_gval st j /\ b_gwho st' j = b_gwho st j) ->
    b_thr st' = upd (b_thr st) p th' ->
    push_items (rev (t_res th')) = bpushed st p -> pop_items (rev (t_res th')) = bpopped st p ->
    (forall pc', t_pc th' = Some pc' -> bpc_x st' p pc') ->
    BFifo st'.
  Proof.
    intros I F Eh Ew Hg Ethr Epu Epo Hx.
    destruct (bv_ord c s st I) as (O1 & O2 & O3 & O4 & O5).
    assert (Hpu : forall q, bpushed st' q = bpushed st q).
    { intros q. unfold bpushed, bchron. rewrite Ethr. destruct (Nat.eq_dec q p) as [->|N]; [rewrite upd_same; exact Epu | rewrite upd_other by exact N; reflexivity]. }
    assert (Hpo : forall q, bpopped st' q = bpopped st q).
    { intros q. unfold bpopped, bchron. rewrite Ethr. destruct (Nat.eq_dec q p) as [->|N]; [rewrite upd_same; exact Epo | rewrite upd_other by exact N; reflexivity]. }
    destruct F. constructor.
    - intros q pc E. rewrite Ethr in E. destruct (Nat.eq_dec q p) as [->|N]; [rewrite upd_same in E; apply Hx; exact E|].
      rewrite upd_other in E by exact N. pose proof (bf_x0 q pc E) as X. pose proof (bv_pc c s st I q pc E) as K.
      destruct pc; cbn [bpc_x bpc_ok] in *; try exact X.
      + destruct X as [X1 X2]. split; [exact X1|]. intros k Hk. rewrite (proj2 (Hg (i + k) ltac:(lia))). apply X2; exact Hk.
      + destruct X as [X1 X2]. split; [exact X1|]. intros k Hk. rewrite (proj2 (Hg (i + k) ltac:(lia))). apply X2; exact Hk.
    - intros q i v Hin. rewrite Hpu in Hin. destruct (bf_push0 q i v Hin) as (A & B & C0).
      destruct (Hg i ltac:(lia)) as [G1 G2]. rewrite Ew, G1, G2. auto.
    - intros q i v Hin. rewrite Hpo in Hin. destruct (bf_pop0 q i v Hin) as (A & B).
      destruct (Hg i ltac:(lia)) as [G1 G2]. rewrite Eh, G1. auto.
    - intros q. rewrite Hpu. apply bf_psort0.
    - intros q. rewrite Hpo. apply bf_csort0.
    - intros q1 q2 i v w. rewrite !Hpo. apply bf_pop_once0.
    - intros i Hi. rewrite Ew in Hi. destruct (Hg i ltac:(lia)) as [G1 G2]. rewrite Hpu, G1, G2. apply bf_push_all0; exact Hi.
    - intros i Hi. rewrite Eh in Hi. destruct (Hg i ltac:(lia)) as [G1 G2]. destruct (bf_pop_all0 i Hi) as [q Hq].
      exists q. rewrite Hpo, G1. exact Hq.
  Qed.

  Lemma bfifo_goto st st' p pc pc' :
    BInv c s st -> BFifo st -> t_pc (b_thr st p) = Some pc ->
    b_head st' = b_head st -> b_whead st' = b_whead st ->
    (forall j, j < b_tail st -> b_gval st' j = b_gval st j /\ b_gwho st' j = b_gwho st j) ->
    b_thr st' = upd (b_thr st) p (thr_goto (b_thr st p) pc') ->
    bpc_x st' p pc' -> BFifo st'.
  Proof.
    intros I F Epc Eh Ew Hg Ethr Hx. apply (bfifo_ext st st' p (thr_goto (b_thr st p) pc')); try assumption; try reflexivity.
    intros pc'' E. cbn in E. inversion E; subst. exact Hx.
  Qed.

  Lemma bfifo_fail st p r :
    BInv c s st -> BFifo st -> push_item r = [] -> pop_item r = [] -> BFifo (b_finish st p r).
  Proof.
    intros I F P1 P2. apply (bfifo_ext st (b_finish st p r) p (thr_finish batch_entry (b_thr st p) r)); try assumption; try reflexivity.
    - intros j _. split; reflexivity.
    - rewrite bfinish_tres. simpl rev. unfold push_items. rewrite flat_map_snoc, P1, app_nil_r. reflexivity.
    - rewrite bfinish_tres. simpl rev. unfold pop_items. rewrite flat_map_snoc, P2, app_nil_r. reflexivity.
    - intros pc' E. apply bfinish_pc in E. destruct E as (o & rest & _ & ->). apply entry_x.
  Qed.

  (* publication: write_head moves over the interval of its holder p, whose push completes *)
  Lemma bfifo_publish st p one wn i ws :
    BInv c s st -> BFifo st -> t_pc (b_thr st p) = Some (BPushCasW one i wn i ws) -> b_whead st = i ->
    BFifo (b_finish (mkB (b_head st) (b_tail st) (i + wn) (b_rtail st) (b_slot st) (b_gt st) (b_grt st) (b_gval st) (b_gwho st) (b_thr st))
                    p (if one then RPushOk i (hd 0 ws) else RPushB i ws)).
  Proof.
    intros I F Epc Ew.
    pose proof (bv_pc c s st I p _ Epc) as K. cbn [bpc_ok] in K. destruct K as (_ & K2 & K3 & K4 & K5 & K6).
    pose proof (bf_x st F p _ Epc) as X. cbn [bpc_x] in X. destruct X as [X1 X2].
    destruct (bv_ord c s st I) as (O1 & O2 & O3 & O4 & O5).
    set (r := if one then RPushOk i (hd 0 ws) else RPushB i ws).
    set (st' := b_finish _ p r).
    assert (Hthr : forall q, q <> p -> b_thr st' q = b_thr st q) by (intros q N; unfold st', b_finish, b_set_thr; cbn; apply upd_other; exact N).
    assert (Hthp : b_thr st' p = thr_finish batch_entry (b_thr st p) r) by (unfold st', b_finish, b_set_thr; cbn; apply upd_same).
    assert (Hitem : push_item r = items (b_gval st) i (length ws) /\ pop_item r = []).
    { assert (E : indexed i ws = items (b_gval st) i (length ws)) by (apply indexed_items; intros k Hk; apply K6; lia).
      unfold r. destruct one; [|split; [exact E | reflexivity]]. split; [|reflexivity].
      specialize (X1 eq_refl). rewrite <- E. destruct ws as [|w [|w' ws']]; simpl length in K5; try lia. reflexivity. }
    destruct Hitem as [Hpi Hci].
    assert (Hpup : bpushed st' p = bpushed st p ++ items (b_gval st) i (length ws)).
    { unfold bpushed, bchron. rewrite Hthp, bfinish_tres. simpl rev. unfold push_items. rewrite flat_map_snoc, Hpi. reflexivity. }
    assert (Hpu : forall q, q <> p -> bpushed st' q = bpushed st q) by (intros q N; unfold bpushed, bchron; rewrite Hthr by exact N; reflexivity).
    assert (Hpo : forall q, bpopped st' q = bpopped st q).
    { intros q. unfold bpopped, bchron. destruct (Nat.eq_dec q p) as [->|N]; [|rewrite Hthr by exact N; reflexivity].
      rewrite Hthp, bfinish_tres. simpl rev. unfold pop_items. rewrite flat_map_snoc, Hci, app_nil_r. reflexivity. }
    destruct F. constructor.
    - intros q pc E. destruct (Nat.eq_dec q p) as [->|N].
      + rewrite Hthp in E. apply bfinish_pc in E. destruct E as (o & rest & _ & ->). apply entry_x.
      + rewrite Hthr in E by exact N. exact (bf_x0 q pc E).
    - intros q i' v Hin. change (b_whead st') with (i + wn). change (b_gval st') with (b_gval st). change (b_gwho st') with (b_gwho st).
      destruct (Nat.eq_dec q p) as [->|N].
      + rewrite Hpup in Hin. apply in_app_or in Hin. destruct Hin as [Hin|Hin].
        * destruct (bf_push0 p i' v Hin) as (A & B & C0). repeat split; try assumption; lia.
        * apply items_In in Hin. destruct Hin as [Hr ->]. repeat split; try lia.
          replace i' with (i + (i' - i)) by lia. apply X2. lia.
      + rewrite Hpu in Hin by exact N. destruct (bf_push0 q i' v Hin) as (A & B & C0). repeat split; try assumption; lia.
    - intros q i' v Hin. rewrite Hpo in Hin. exact (bf_pop0 q i' v Hin).
    - intros q. destruct (Nat.eq_dec q p) as [->|N]; [|rewrite Hpu by exact N; apply bf_psort0].
      rewrite Hpup, map_app, items_fst. apply SSorted_app; [apply bf_psort0 | apply zseq_sorted |].
      intros x y Hx Hy. apply in_map_iff in Hx. destruct Hx as ([j w] & <- & Hin). apply zseq_In in Hy.
      destruct (bf_push0 p j w Hin) as (A & _). simpl. lia.
    - intros q. rewrite Hpo. apply bf_csort0.
    - intros q1 q2 i' v w. rewrite !Hpo. apply bf_pop_once0.
    - intros i' Hi. change (b_whead st') with (i + wn) in Hi. change (b_gval st') with (b_gval st). change (b_gwho st') with (b_gwho st).
      destruct (Z_lt_dec i' i) as [L|G].
      + pose proof (bf_push_all0 i' ltac:(lia)) as Hin.
        destruct (Nat.eq_dec (b_gwho st i') p) as [Eq|N]; [rewrite Eq in *; rewrite Hpup; apply in_or_app; left; exact Hin | rewrite Hpu by exact N; exact Hin].
      + assert (Eq : b_gwho st i' = p) by (replace i' with (i + (i' - i)) by lia; apply X2; lia).
        rewrite Eq, Hpup. apply in_or_app. right. apply items_In. split; [lia | reflexivity].
    - intros i' Hi. change (b_head st') with (b_head st) in Hi. change (b_gval st') with (b_gval st).
      destruct (bf_pop_all0 i' Hi) as [q Hq]. exists q. rewrite Hpo. exact Hq.
  Qed.

  (* release: head moves over the interval of its holder p, whose pop completes with the values it read *)
  Lemma bfifo_release st p one rn i vs :
    BInv c s st -> BFifo st -> t_pc (b_thr st p) = Some (BPopCasH one i rn i vs) -> b_head st = i ->
    BFifo (b_finish (mkB (i + rn) (b_tail st) (b_whead st) (b_rtail st) (b_slot st) (b_gt st) (b_grt st) (b_gval st) (b_gwho st) (b_thr st))
                    p (if one then RPopOk i (hd 0 vs) else RPopB i vs)).
  Proof.
    intros I F Epc Eh.
    pose proof (bv_pc c s st I p _ Epc) as K. cbn [bpc_ok] in K. destruct K as (_ & K2 & K3 & K4 & K5).
    pose proof (bf_x st F p _ Epc) as X1. cbn [bpc_x] in X1.
    destruct (bv_ord c s st I) as (O1 & O2 & O3 & O4 & O5).
    set (r := if one then RPopOk i (hd 0 vs) else RPopB i vs).
    set (st' := b_finish _ p r).
    set (n := Z.to_nat rn).
    assert (Hn : Z.of_nat n = rn) by (unfold n; lia).
    assert (Hthr : forall q, q <> p -> b_thr st' q = b_thr st q) by (intros q N; unfold st', b_finish, b_set_thr; cbn; apply upd_other; exact N).
    assert (Hthp : b_thr st' p = thr_finish batch_entry (b_thr st p) r) by (unfold st', b_finish, b_set_thr; cbn; apply upd_same).
    assert (Hitem : pop_item r = items (b_gval st) i n /\ push_item r = []).
    { assert (E : indexed i vs = items (b_gval st) i n) by (rewrite K5; apply indexed_zseq).
      unfold r. destruct one; [|split; [exact E | reflexivity]]. split; [|reflexivity].
      specialize (X1 eq_refl). rewrite <- E. rewrite K5. fold n. replace n with 1%nat by lia. reflexivity. }
    destruct Hitem as [Hci Hpi].
    assert (Hpop : bpopped st' p = bpopped st p ++ items (b_gval st) i n).
    { unfold bpopped, bchron. rewrite Hthp, bfinish_tres. simpl rev. unfold pop_items. rewrite flat_map_snoc, Hci. reflexivity. }
    assert (Hpo : forall q, q <> p -> bpopped st' q = bpopped st q) by (intros q N; unfold bpopped, bchron; rewrite Hthr by exact N; reflexivity).
    assert (Hpu : forall q, bpushed st' q = bpushed st q).
    { intros q. unfold bpushed, bchron. destruct (Nat.eq_dec q p) as [->|N]; [|rewrite Hthr by exact N; reflexivity].
      rewrite Hthp, bfinish_tres. simpl rev. unfold push_items. rewrite flat_map_snoc, Hpi, app_nil_r. reflexivity. }
    destruct F.
    (* membership in the popped list of any thread after the step *)
    assert (Hin' : forall q i' v, In (i', v) (bpopped st' q) ->
              In (i', v) (bpopped st q) \/ (q = p /\ i <= i' < i + rn /\ v = b_gval st i')).
    { intros q i' v Hin. destruct (Nat.eq_dec q p) as [->|N]; [|rewrite Hpo in Hin by exact N; left; exact Hin].
      rewrite Hpop in Hin. apply in_app_or in Hin. destruct Hin as [Hin|Hin]; [left; exact Hin|].
      apply items_In in Hin. right. split; [reflexivity|]. rewrite Hn in Hin. exact Hin. }
    constructor.
    - intros q pc E. destruct (Nat.eq_dec q p) as [->|N].
      + rewrite Hthp in E. apply bfinish_pc in E. destruct E as (o & rest & _ & ->). apply entry_x.
      + rewrite Hthr in E by exact N. exact (bf_x0 q pc E).
    - intros q i' v Hin. rewrite Hpu in Hin. exact (bf_push0 q i' v Hin).
    - intros q i' v Hin. change (b_head st') with (i + rn). change (b_gval st') with (b_gval st).
      destruct (Hin' q i' v Hin) as [Hold|(-> & Hr & ->)].
      + destruct (bf_pop0 q i' v Hold) as (A & B). split; [lia | exact B].
      + split; [lia | reflexivity].
    - intros q. rewrite Hpu. apply bf_psort0.
    - intros q. destruct (Nat.eq_dec q p) as [->|N]; [|rewrite Hpo by exact N; apply bf_csort0].
      rewrite Hpop, map_app, items_fst. apply SSorted_app; [apply bf_csort0 | apply zseq_sorted |].
      intros x y Hx Hy. apply in_map_iff in Hx. destruct Hx as ([j w] & <- & Hin). apply zseq_In in Hy.
      destruct (bf_pop0 p j w Hin) as (A & _). simpl. lia.
    - intros q1 q2 i' v w H1 H2.
      destruct (Hin' q1 i' v H1) as [Ho1|(-> & Hr1 & _)]; destruct (Hin' q2 i' w H2) as [Ho2|(-> & Hr2 & _)].
      + exact (bf_pop_once0 q1 q2 i' v w Ho1 Ho2).
      + destruct (bf_pop0 q1 i' v Ho1) as (A & _). lia.
      + destruct (bf_pop0 q2 i' w Ho2) as (A & _). lia.
      + reflexivity.
    - intros i' Hi. change (b_whead st') with (b_whead st) in Hi. change (b_gval st') with (b_gval st). change (b_gwho st') with (b_gwho st).
      rewrite Hpu. apply bf_push_all0; exact Hi.
    - intros i' Hi. change (b_head st') with (i + rn) in Hi. change (b_gval st') with (b_gval st).
      destruct (Z_lt_dec i' i) as [L|G].
      + destruct (bf_pop_all0 i' ltac:(lia)) as [q Hq]. exists q.
        destruct (Nat.eq_dec q p) as [->|N]; [rewrite Hpop; apply in_or_app; left; exact Hq | rewrite Hpo by exact N; exact Hq].
      + exists p. rewrite Hpop. apply in_or_app. right. apply items_In. split; [lia | reflexivity].
  Qed.

  (* ---------------- every transition ---------------- *)
  Lemma batch_step_fifo st p : BInv c s st -> BFifo st -> bnowrap c (fst (batch_step c st p)) -> BFifo (fst (batch_step c st p)).
  Proof.
    intros I F NW. unfold batch_step in *. destruct (t_pc (b_thr st p)) as [pc|] eqn:Epc; [|exact F].
    pose proof (bv_pc c s st I p pc Epc) as K. pose proof (bf_x st F p pc Epc) as X.
    pose proof (bv_gt c s st I) as Hgt. pose proof (bv_g c s st I) as Hg. unfold bnowrap in Hg.
    destruct (bv_ord c s st I) as (O1 & O2 & O3 & O4 & O5).
    pose proof (cfg_cap_pos c Hc) as Hcp. pose proof (cfg_cap_lt_W c Hc) as HcW. pose proof (bv_s c s st I) as Hs0.
    assert (Hsame : forall j : Z, j < b_tail st -> b_gval st j = b_gval st j /\ b_gwho st j = b_gwho st j) by (intros; split; reflexivity).
    destruct pc; cbn [bpc_ok bpc_x] in K, X; cbn [fst] in *.
    - (* BPushLdT *) eapply (bfifo_goto st _ p _ _ I F Epc); try reflexivity; try exact Hsame. cbn [bpc_x]. exact X.
    - (* BPushLdH *)
      destruct (_ =? 0) eqn:E0; cbn [fst] in *.
      + apply bfifo_fail; try assumption; destruct one; reflexivity.
      + eapply (bfifo_goto st _ p _ _ I F Epc); try reflexivity; try exact Hsame. cbn [bpc_x]. exact X.
    - (* BPushCasT *) destruct K as (K1 & K2 & K3).
      destruct (Z.eqb_spec (b_tail st) wt) as [Eq|Nq]; cbn [fst] in *.
      + subst wt. specialize (K3 eq_refl).
        set (ws := firstn (Z.to_nat wn) vs).
        assert (Lws : Z.of_nat (length ws) = wn) by (unfold ws; rewrite firstn_length; lia).
        eapply (bfifo_goto st _ p _ _ I F Epc); try reflexivity.
        * intros j Hj. cbn. split; apply gwrite_other; lia.
        * cbn [bpc_x]. split; [intros E1; specialize (X E1); lia|].
          intros k Hk. cbn. fold ws. rewrite Hgt. apply gwrite_const. lia.
      + eapply (bfifo_goto st _ p _ _ I F Epc); try reflexivity; try exact Hsame. cbn [bpc_x]. exact X.
    - (* BPushWr *) eapply (bfifo_goto st _ p _ _ I F Epc); try reflexivity; try exact Hsame. cbn [bpc_x]. exact X.
    - (* BPushCasW *) destruct K as (-> & K2 & K3 & K4).
      destruct (Z.eqb_spec (b_whead st) i) as [Eq|Nq]; cbn [fst] in *; [|exact F].
      rewrite (wrap_small (i + wn)) by lia. apply bfifo_publish; assumption.
    - (* BPopLdRT *) eapply (bfifo_goto st _ p _ _ I F Epc); try reflexivity; try exact Hsame. cbn [bpc_x]. exact X.
    - (* BPopLdWH *) destruct K as [Kn K].
      set (rn := zmin n (wrap (b_whead st - rt))) in *.
      assert (Hx : 0 <= wrap (b_whead st - rt)) by apply wrap_range.
      destruct (Z.eqb_spec rn 0) as [E0|N0]; cbn [fst] in *.
      + apply bfifo_fail; try assumption; destruct one; reflexivity.
      + eapply (bfifo_goto st _ p _ _ I F Epc); try reflexivity; try exact Hsame. cbn [bpc_x].
        intros E1. specialize (X E1). split; [exact X|].
        destruct (zmin_spec n (wrap (b_whead st - rt))) as [[Em Hm]|[Em Hm]]; fold rn in Em; lia.
    - (* BPopCasRT *) destruct K as (K0 & K1 & K2 & K3).
      destruct (Z.eqb_spec (b_rtail st) rt) as [Eq|Nq]; cbn [fst] in *.
      + eapply (bfifo_goto st _ p _ _ I F Epc); try reflexivity; try exact Hsame. cbn [bpc_x]. intros E1. apply X; exact E1.
      + eapply (bfifo_goto st _ p _ _ I F Epc); try reflexivity; try exact Hsame. cbn [bpc_x]. intros E1. apply X; exact E1.
    - (* BPopRd *) eapply (bfifo_goto st _ p _ _ I F Epc); try reflexivity; try exact Hsame. cbn [bpc_x]. exact X.
    - (* BPopCasH *) destruct K as (-> & K2 & K3 & K4 & K5).
      destruct (Z.eqb_spec (b_head st) i) as [Eq|Nq]; cbn [fst] in *; [|exact F].
      rewrite (wrap_small (i + rn)) by lia. apply bfifo_release; assumption.
  Qed.

  Lemma binit_fifo scripts : 0 <= s -> s + cap < W64 -> BFifo (batch_init s scripts).
  Proof.
    intros H0 HW. assert (Ews : wrap s = s) by (apply wrap_small; pose proof (cfg_cap_pos c Hc); unfold cap in HW; lia).
    assert (Hres : forall p, bchron (batch_init s scripts) p = []).
    { intros p. unfold bchron. simpl. unfold thr_init. destruct (nth p scripts []); reflexivity. }
    constructor; unfold bpushed, bpopped.
    - intros p pc E. simpl in E. unfold thr_init in E. destruct (nth p scripts []) as [|o r]; simpl in E; [discriminate|].
      inversion E. apply entry_x.
    - intros p i v Hin. rewrite Hres in Hin. destruct Hin.
    - intros p i v Hin. rewrite Hres in Hin. destruct Hin.
    - intros p. rewrite Hres. constructor.
    - intros p. rewrite Hres. constructor.
    - intros p q i v w Hin. rewrite Hres in Hin. destruct Hin.
    - intros i Hi. cbn in Hi. rewrite Ews in Hi. lia.
    - intros i Hi. cbn in Hi. rewrite Ews in Hi. lia.
  Qed.

  Lemma breach_fifo scripts st : 0 <= s -> s + cap < W64 -> scripts_ok scripts -> breach_nw c (batch_init s scripts) st -> BFifo st.
  Proof.
    intros H0 HW Hok R. induction R as [NW|st p R IH NW].
    - apply binit_fifo; assumption.
    - apply batch_step_fifo; [apply (breach_inv c Hc s scripts st H0 HW Hok R) | exact IH | exact NW].
  Qed.
End BatchFifo.

(* ---------------- the theorems ---------------- *)
(* per-thread FIFO: the indices of a thread's completed pushes (batch intervals flattened) strictly increase in its program
   order, and so do those of its completed pops *)
Theorem batch_fifo_per_thread : forall c, cfg_ok c -> forall s scripts, 0 <= s -> s + c_cap c < W64 -> scripts_ok scripts ->
  forall st, breach_nw c (batch_init s scripts) st ->
  forall p, StronglySorted Z.lt (map fst (bpushed st p)) /\ StronglySorted Z.lt (map fst (bpopped st p)).
Proof.
  intros c Hc s scripts H0 HW Hok st R p. pose proof (breach_fifo c Hc s scripts st H0 HW Hok R) as F.
  split; [apply (bf_psort s st F) | apply (bf_csort s st F)].
Qed.

(* exactly once over completed results: a completed push item is recorded under its index with its producer and lies below
   write_head; a completed pop item carries the value pushed under its index and lies below head; one index is never
   returned by two pops; every index below write_head has been pushed by a completed push of its producer, every index
   below head has been returned by a completed pop *)
Theorem batch_exactly_once : forall c, cfg_ok c -> forall s scripts, 0 <= s -> s + c_cap c < W64 -> scripts_ok scripts ->
  forall st, breach_nw c (batch_init s scripts) st ->
  (forall p i v, In (i, v) (bpushed st p) -> s <= i < b_whead st /\ b_gval st i = v /\ b_gwho st i = p) /\
  (forall p i v, In (i, v) (bpopped st p) -> s <= i < b_head st /\ v = b_gval st i) /\
  (forall p q i v w, In (i, v) (bpopped st p) -> In (i, w) (bpopped st q) -> p = q /\ v = w) /\
  (forall i, s <= i < b_whead st -> In (i, b_gval st i) (bpushed st (b_gwho st i))) /\
  (forall i, s <= i < b_head st -> exists q, In (i, b_gval st i) (bpopped st q)).
Proof.
  intros c Hc s scripts H0 HW Hok st R. pose proof (breach_fifo c Hc s scripts st H0 HW Hok R) as F.
  split; [apply (bf_push s st F)|]. split; [apply (bf_pop s st F)|].
  split; [|split; [apply (bf_push_all s st F) | apply (bf_pop_all s st F)]].
  intros p q i v w H1 H2. split; [apply (bf_pop_once s st F p q i v w H1 H2)|].
  destruct (bf_pop s st F p i v H1) as [_ ->]. destruct (bf_pop s st F q i w H2) as [_ ->]. reflexivity.
Qed.

(* the hypotheses are inhabited: a reachable state with a completed push_batch *)
Example batch_fifo_ex :
  let c := cfg_of 2 in
  let scripts := [[OPushB [7; 8]]; [OPopB 2]] in
  cfg_ok c /\ scripts_ok scripts /\
  exists st, breach_nw c (batch_init 5 scripts) st /\ bpushed st 0%nat = [(5, 7); (6, 8)] /\ b_whead st = 7.
Proof.
  cbv zeta. split; [split; [vm_compute; split; discriminate | reflexivity]|].
  split.
  { intros p. destruct p as [|[|[|p]]]; simpl; repeat constructor; simpl; lia. }
  eexists. split.
  { eapply (bnwS _ _ _ 0%nat); [eapply (bnwS _ _ _ 0%nat); [eapply (bnwS _ _ _ 0%nat); [eapply (bnwS _ _ _ 0%nat);
      [eapply (bnwS _ _ _ 0%nat); [apply bnw0|]|]|]|]|]; unfold bnowrap; vm_compute; reflexivity. }
  split; vm_compute; reflexivity.
Qed.
