(* C07_SPSC_Model.v — LockfreeSPSCRingQueue (lockfree_queue.h 454-556): push, pop,
   push_batch (= produce_push_batch, 498-513), pop_batch (= consume_pop_batch, 542-556).
   One transition per atomic operation; the non-atomic slot accesses (`slots[idx(t)] = x`,
   `x = slots[idx(h)]`, the memcpy of the batch variants) are separate SILENT transitions
   (pcs SPushWr / SPopRd / SPbWr / SObRd) so that the theorems cover every timing of the data
   access inside its window; the E3 replay function fuses a silent transition with the logged
   transition that precedes it (that is what the C++ does between two instrumentation points). *)
From Coq Require Import ZArith List Bool Arith.
From PV Require Import Base.U64 E3.E3_Run C07.C07_Model.
Import ListNotations.
Local Open Scope Z_scope.

Inductive spc :=
| SPushLdT (v : Z)                 (* 473  t = tail.load(acquire)                         *)
| SPushLdH (v t : Z)               (* 474  check_full(head /*implicit load*/, t)          *)
| SPushWr (v t : Z)                (* 475  slots[idx(t)] = x           (silent)           *)
| SPushStT (v t : Z)               (* 476  tail.store(t+1, release)                       *)
| SPopLdH                          (* 481  h = head.load(acquire)                         *)
| SPopLdT (h : Z)                  (* 482  check_empty(h, tail /*implicit load*/)         *)
| SPopRd (h : Z)                   (* 483  x = slots[idx(h)]           (silent)           *)
| SPopStH (h v : Z)                (* 484  head.store(h+1, release)                       *)
| SPbLdT (vs : list Z)             (* 499  t = tail.load(relaxed)                         *)
| SPbLdH (vs : list Z) (t : Z)     (* 500-502  n = min(n, capacity - (t - head.load()))   *)
| SPbWr (vs : list Z) (t n : Z)    (* 503-510  produce(...) memcpy     (silent)           *)
| SPbStT (t n : Z) (ws : list Z)  (* 511  tail.store(t+n, release)                       *)
| SObLdH (n : Z)                   (* 543  h = head.load(relaxed)                         *)
| SObLdT (n h : Z)                 (* 544-545  n = min(n, tail.load(acquire) - h)         *)
| SObRd (h n : Z)                  (* 546-553  consume(...) memcpy     (silent)           *)
| SObStH (h n : Z) (vs : list Z).  (* 554  head.store(h+n, release)                       *)

Definition spsc_entry (o : op) : spc :=
  match o with
  | OPush v | OSend v => SPushLdT v
  | OPop | ORecv => SPopLdH
  | OPushB vs => SPbLdT vs
  | OPopB n => SObLdH n
  end.

Record sstate := mkS {
  s_head : Z; s_tail : Z;            (* the two atomics (values mod 2^64)              *)
  s_slot : Z -> Z;                   (* slots[]                                        *)
  s_gh : Z; s_gt : Z;                (* GHOST: absolute (unbounded) head / tail        *)
  s_gval : Z -> Z;                   (* GHOST: absolute index -> value pushed there    *)
  s_thr : nat -> thr spc }.

Definition s_set_thr (st : sstate) (p : nat) (th : thr spc) : sstate :=
  mkS (s_head st) (s_tail st) (s_slot st) (s_gh st) (s_gt st) (s_gval st) (upd (s_thr st) p th).
Definition s_goto (st : sstate) (p : nat) (pc : spc) : sstate :=
  s_set_thr st p (thr_goto (s_thr st p) pc).
Definition s_finish (st : sstate) (p : nat) (r : res) : sstate :=
  s_set_thr st p (thr_finish spsc_entry (s_thr st p) r).

Fixpoint gval_write (g : Z -> Z) (i : Z) (vs : list Z) : Z -> Z :=
  match vs with [] => g | v :: r => gval_write (updZ g i v) (i + 1) r end.

Definition spsc_step (c : cfg) (st : sstate) (p : nat) : sstate * obs :=
  match t_pc (s_thr st p) with
  | None => (st, ob_none)
  | Some pc =>
    match pc with
    | SPushLdT v => (s_goto st p (SPushLdH v (s_tail st)), ob_ld A_TAIL (-1) (s_tail st))
    | SPushLdH v t =>
        let h := s_head st in
        if check_full c h t then (s_finish st p RPushFail, ob_ld A_HEAD (-1) h)
        else (s_goto st p (SPushWr v t), ob_ld A_HEAD (-1) h)
    | SPushWr v t =>
        (s_goto (mkS (s_head st) (s_tail st) (updZ (s_slot st) (idx c t) v) (s_gh st) (s_gt st) (s_gval st) (s_thr st))
                p (SPushStT v t), ob_none)
    | SPushStT v t =>
        let t' := wrap (t + 1) in
        let i := s_gt st in
        (s_finish (mkS (s_head st) t' (s_slot st) (s_gh st) (i + 1) (updZ (s_gval st) i v) (s_thr st)) p (RPushOk i v),
         ob_st A_TAIL (-1) t')
    | SPopLdH => (s_goto st p (SPopLdT (s_head st)), ob_ld A_HEAD (-1) (s_head st))
    | SPopLdT h =>
        let t := s_tail st in
        if check_empty h t then (s_finish st p RPopFail, ob_ld A_TAIL (-1) t)
        else (s_goto st p (SPopRd h), ob_ld A_TAIL (-1) t)
    | SPopRd h => (s_goto st p (SPopStH h (s_slot st (idx c h))), ob_none)
    | SPopStH h v =>
        let h' := wrap (h + 1) in
        let i := s_gh st in
        (s_finish (mkS h' (s_tail st) (s_slot st) (i + 1) (s_gt st) (s_gval st) (s_thr st)) p (RPopOk i v),
         ob_st A_HEAD (-1) h')
    | SPbLdT vs => (s_goto st p (SPbLdH vs (s_tail st)), ob_ld A_TAIL (-1) (s_tail st))
    | SPbLdH vs t =>
        let h := s_head st in
        let n := zmin (Z.of_nat (length vs)) (wrap (c_cap c - wrap (t - h))) in
        if n =? 0 then (s_finish st p (RPushB (s_gt st) []), ob_ld A_HEAD (-1) h)
        else (s_goto st p (SPbWr vs t n), ob_ld A_HEAD (-1) h)
    | SPbWr vs t n =>
        let ws := firstn (Z.to_nat n) vs in
        (s_goto (mkS (s_head st) (s_tail st) (ring_write c (s_slot st) t ws)
                     (s_gh st) (s_gt st) (s_gval st) (s_thr st))
                p (SPbStT t n ws), ob_none)
    | SPbStT t n ws =>
        let t' := wrap (t + n) in
        let i := s_gt st in
        (s_finish (mkS (s_head st) t' (s_slot st) (s_gh st) (i + n) (gval_write (s_gval st) i ws) (s_thr st)) p (RPushB i ws),
         ob_st A_TAIL (-1) t')
    | SObLdH n => (s_goto st p (SObLdT n (s_head st)), ob_ld A_HEAD (-1) (s_head st))
    | SObLdT n h =>
        let t := s_tail st in
        let m := zmin n (wrap (t - h)) in
        if m =? 0 then (s_finish st p (RPopB (s_gh st) []), ob_ld A_TAIL (-1) t)
        else (s_goto st p (SObRd h m), ob_ld A_TAIL (-1) t)
    | SObRd h n => (s_goto st p (SObStH h n (ring_read c (s_slot st) h (Z.to_nat n))), ob_none)
    | SObStH h n vs =>
        let h' := wrap (h + n) in
        let i := s_gh st in
        (s_finish (mkS h' (s_tail st) (s_slot st) (i + n) (s_gt st) (s_gval st) (s_thr st)) p (RPopB i vs),
         ob_st A_HEAD (-1) h')
    end
  end.

Definition spsc_silent (pc : spc) : bool :=
  match pc with SPushWr _ _ | SPopRd _ | SPbWr _ _ _ | SObRd _ _ => true | _ => false end.

(* the E3 transition: the logged step, then the silent data access that follows it (if any) *)
Definition spsc_e3step (c : cfg) (st : sstate) (p : nat) (_ : nat) : sstate * obs :=
  let '(st1, o) := spsc_step c st p in
  match t_pc (s_thr st1 p) with
  | Some pc => if spsc_silent pc then (fst (spsc_step c st1 p), o) else (st1, o)
  | None => (st1, o)
  end.

Definition spsc_fin (st : sstate) (p : nat) : bool :=
  match t_pc (s_thr st p) with None => true | Some _ => false end.

(* quiescent empty queue whose indices stand at `start` (start = 0: freshly constructed) *)
Definition spsc_init (start : Z) (scripts : list (list op)) : sstate :=
  mkS (wrap start) (wrap start) (fun _ => 0) start start (fun _ => 0)
      (fun p => thr_init spsc_entry (nth p scripts [])).

Definition spsc_run (c : cfg) (bound : nat) (sched : list nat) (start : Z) (scripts : list (list op)) :=
  e3_run (spsc_e3step c) spsc_fin (length scripts) bound sched (pred (length scripts)) (spsc_init start scripts) [].
