From Coq Require Import ZArith List.
From PV Require Import Base.U64 C07.C07_Model C07.C07_Arith C07.C07_Lists C07.C07_SPSC_Model C07.C07_Proofs.
Import ListNotations.
Local Open Scope Z_scope.

(* ===== SPSC ring queue (push / pop / push_batch / pop_batch): every capacity 2^k (1<=k<=63), every
   start index (arithmetic mod 2^64: index wrap-around included), every script of the producer thread
   pp and the consumer thread cc, EVERY schedule (sreach = any sequence of participant choices). ===== *)

(* exactly-once + FIFO + nothing lost, as sequences of (ghost index, value):
   popped (consumer's program order) ++ still queued (index order) = pushed (producer's program order) *)
Theorem spsc_q_exactly_once_fifo :
  forall c, cfg_ok c -> forall s pp cc, pp <> cc -> forall scripts, spsc_wf pp cc scripts ->
  forall st, sreach c (spsc_init s scripts) st ->
  pop_items (chron st cc) ++ map (fun i => (i, s_gval st i)) (zrange (s_gh st) (s_gt st)) = push_items (chron st pp).
Proof. exact spsc_exactly_once_fifo. Qed.
Print Assumptions spsc_q_exactly_once_fifo.

Theorem spsc_q_no_invention :
  forall c, cfg_ok c -> forall s pp cc, pp <> cc -> forall scripts, spsc_wf pp cc scripts ->
  forall st, sreach c (spsc_init s scripts) st ->
  forall iv, In iv (pop_items (chron st cc)) -> In iv (push_items (chron st pp)).
Proof. exact spsc_no_invention. Qed.
Print Assumptions spsc_q_no_invention.

(* never more than capacity elements, head/tail are the ghost counters mod 2^64, and every queued element
   sits intact in its slot at every moment (no slot overwritten before it is read) *)
Theorem spsc_q_bounded :
  forall c, cfg_ok c -> forall s pp cc, pp <> cc -> forall scripts, spsc_wf pp cc scripts ->
  forall st, sreach c (spsc_init s scripts) st ->
  0 <= s_gt st - s_gh st <= c_cap c /\
  s_head st = wrap (s_gh st) /\ s_tail st = wrap (s_gt st) /\
  wrap (s_tail st - s_head st) = s_gt st - s_gh st /\
  forall i, s_gh st <= i < s_gt st -> s_slot st (idx c (wrap i)) = s_gval st i.
Proof. exact spsc_bounded. Qed.
Print Assumptions spsc_q_bounded.

(* every E3 replay step is a composition of steps of the proved transition system *)
Theorem spsc_e3_runs_are_runs :
  forall c st0 st p f, sreach c st0 st -> sreach c st0 (fst (spsc_e3step c st p f)).
Proof. exact e3step_reach. Qed.
Print Assumptions spsc_e3_runs_are_runs.
