From Coq Require Import ZArith List.
From PV Require Import C07.C07_Proofs.
Theorem c07_placeholder : True. Proof. exact placeholder. Qed.
Print Assumptions c07_placeholder.
