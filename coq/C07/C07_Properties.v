From Coq Require Import ZArith List.
From Coq Require Import Sorted.
From PV Require Import Base.U64 C07.C07_Model C07.C07_Arith C07.C07_Lists C07.C07_SPSC_Model C07.C07_MPMC_Model C07.C07_Chan_Model C07.C07_Batch_Model C07.C07_Proofs C07.C07_MPMC_Report C07.C07_MPMC_Linear C07.C07_Batch_Fifo C07.C07_ChanQ_Model C07.C07_ChanQ_Proofs C07.C07_ChanQ_Thm.
Import ListNotations.
Local Open Scope Z_scope.

(* ===== SPSC ring queue (push / pop / push_batch / pop_batch): every capacity 2^k (1<=k<=63), every
   start index (arithmetic mod 2^64: index wrap-around included), every script of the producer thread
   pp and the consumer thread cc, EVERY schedule (sreach = any sequence of participant choices). ===== *)

(* exactly-once + FIFO + nothing lost, as sequences of (ghost index, value):
   popped (consumer's program order) ++ still queued (index order) = pushed (producer's program order) *)
Theorem spsc_q_exactly_once_fifo :
  forall c, cfg_ok c -> forall s pp cc, pp <> cc -> forall scripts, spsc_wf pp cc scripts ->
  forall st, sreach c (spsc_init s scripts) st ->
  pop_items (C07_SPSC_Proofs.chron st cc) ++ map (fun i => (i, s_gval st i)) (zrange (s_gh st) (s_gt st)) = push_items (C07_SPSC_Proofs.chron st pp).
Proof. exact spsc_exactly_once_fifo. Qed.
Print Assumptions spsc_q_exactly_once_fifo.

Theorem spsc_q_no_invention :
  forall c, cfg_ok c -> forall s pp cc, pp <> cc -> forall scripts, spsc_wf pp cc scripts ->
  forall st, sreach c (spsc_init s scripts) st ->
  forall iv, In iv (pop_items (C07_SPSC_Proofs.chron st cc)) -> In iv (push_items (C07_SPSC_Proofs.chron st pp)).
Proof. exact spsc_no_invention. Qed.
Print Assumptions spsc_q_no_invention.

(* never more than capacity elements, head/tail are the ghost counters mod 2^64, and every queued element
   sits intact in its slot at every moment (no slot overwritten before it is read) *)
Theorem spsc_q_bounded :
  forall c, cfg_ok c -> forall s pp cc, pp <> cc -> forall scripts, spsc_wf pp cc scripts ->
  forall st, sreach c (spsc_init s scripts) st ->
  0 <= s_gt st - s_gh st <= c_cap c /\
  s_head st = wrap (s_gh st) /\ s_tail st = wrap (s_gt st) /\
  wrap (s_tail st - s_head st) = s_gt st - s_gh st /\
  forall i, s_gh st <= i < s_gt st -> s_slot st (idx c (wrap i)) = s_gval st i.
Proof. exact spsc_bounded. Qed.
Print Assumptions spsc_q_bounded.

(* every E3 replay step is a composition of steps of the proved transition system *)
Theorem spsc_e3_runs_are_runs :
  forall c st0 st p f, sreach c st0 st -> sreach c st0 (fst (spsc_e3step c st p f)).
Proof. exact C07_SPSC_Proofs.e3step_reach. Qed.
Print Assumptions spsc_e3_runs_are_runs.

(* ===== MPMC ring queue: push/pop (CAS variant) and send/recv (ticket variant) freely mixed; ANY number of
   participants (threads are a function nat -> thread), ANY scripts, ANY schedule (mreach), every capacity 2^k,
   every start index s >= 0.  Guard `nowrap`: the claim counters are below 2^64 - capacity (see notes/C07.md N1:
   at the 2^64 index wrap a queue of capacity >= 4 stops accepting pushes; unreachable in practice).
   pushed st p / popped st p = (ghost index, value) of the completed successful pushes / pops of thread p in
   its program order; m_gval st i / m_gwho st i / m_gpop st i = value, producer, consumer of the element with
   absolute index i (set at the claim). ===== *)

(* no invention + right value: whatever a pop/recv returned is the value pushed under the index it claimed *)
Theorem mpmc_q_no_invention :
  forall c, cfg_ok c -> forall s scripts, 0 <= s -> forall st, mreach c (mpmc_init c s scripts) st -> nowrap c st ->
  forall p i v, In (i, v) (popped st p) ->
  s <= i < m_gh st /\ i < m_gt st /\ v = m_gval st i /\ m_gpop st i = p.
Proof. exact mpmc_popped_ok. Qed.
Print Assumptions mpmc_q_no_invention.

Theorem mpmc_q_pushed_recorded :
  forall c, cfg_ok c -> forall s scripts, 0 <= s -> forall st, mreach c (mpmc_init c s scripts) st -> nowrap c st ->
  forall p i v, In (i, v) (pushed st p) -> s <= i < m_gt st /\ m_gval st i = v /\ m_gwho st i = p.
Proof. exact mpmc_pushed_ok. Qed.
Print Assumptions mpmc_q_pushed_recorded.

(* exactly once, part 1 (at most once): one index is never returned by two pops *)
Theorem mpmc_q_at_most_once :
  forall c, cfg_ok c -> forall s scripts, 0 <= s -> forall st, mreach c (mpmc_init c s scripts) st -> nowrap c st ->
  forall p q i v w, In (i, v) (popped st p) -> In (i, w) (popped st q) -> p = q /\ v = w.
Proof. exact mpmc_pop_unique. Qed.
Print Assumptions mpmc_q_at_most_once.

(* exactly once, part 2 (nothing lost): every index claimed by a pop has been returned by the claiming thread, or
   that thread is still inside that pop; every index claimed by a push is recorded or still being written *)
Theorem mpmc_q_nothing_lost :
  forall c, cfg_ok c -> forall s scripts, 0 <= s -> forall st, mreach c (mpmc_init c s scripts) st -> nowrap c st ->
  forall i, s <= i < m_gh st ->
  In (i, m_gval st i) (popped st (m_gpop st i)) \/
  exists pc, t_pc (m_thr st (m_gpop st i)) = Some pc /\ rhold pc = Some i.
Proof. exact mpmc_nothing_lost. Qed.
Print Assumptions mpmc_q_nothing_lost.

Theorem mpmc_q_push_accounted :
  forall c, cfg_ok c -> forall s scripts, 0 <= s -> forall st, mreach c (mpmc_init c s scripts) st -> nowrap c st ->
  forall i, s <= i < m_gt st ->
  In (i, m_gval st i) (pushed st (m_gwho st i)) \/
  exists pc, t_pc (m_thr st (m_gwho st i)) = Some pc /\ whold pc = Some i.
Proof. exact mpmc_push_accounted. Qed.
Print Assumptions mpmc_q_push_accounted.

(* per-producer FIFO: the indices of a thread's completed pushes increase in its program order, and so do the
   indices of a thread's completed pops (elements are handed out in index order) *)
Theorem mpmc_q_fifo_per_producer :
  forall c, cfg_ok c -> forall s scripts, 0 <= s -> forall st, mreach c (mpmc_init c s scripts) st -> nowrap c st ->
  forall p, StronglySorted Z.lt (map fst (pushed st p)) /\ StronglySorted Z.lt (map fst (popped st p)).
Proof. exact mpmc_fifo. Qed.
Print Assumptions mpmc_q_fifo_per_producer.

(* bounded / the mark-turn invariant: a stored element (published, not yet released) sits intact in its slot under
   its own turn mark, and two stored elements never share a slot: at most `capacity` elements are stored and no
   slot is overwritten before it has been read *)
Theorem mpmc_q_bounded :
  forall c, cfg_ok c -> forall s scripts, 0 <= s -> forall st, mreach c (mpmc_init c s scripts) st -> nowrap c st ->
  (forall i, stored s st i ->
     m_mark st (i mod c_cap c) = 2 * (i / c_cap c) + 1 /\ m_slot st (i mod c_cap c) = m_gval st i) /\
  (forall i j, stored s st i -> stored s st j -> i mod c_cap c = j mod c_cap c -> i = j).
Proof. intros c Hc s scripts H0 st R NW. split; [exact (mpmc_stored_intact c Hc s scripts H0 st R NW) | exact (mpmc_stored_distinct c Hc s scripts H0 st R NW)]. Qed.
Print Assumptions mpmc_q_bounded.

Theorem mpmc_e3_runs_are_runs :
  forall c st0 st p f, mreach c st0 st -> mreach c st0 (fst (mpmc_e3step c st p f)).
Proof. exact C07_MPMC_Proofs.e3step_reach. Qed.
Print Assumptions mpmc_e3_runs_are_runs.

(* ----- emptiness / fullness REPORTING of the CAS variant (linearisable failure), C07_MPMC_Report.v.
   Runs are given by their schedule: mrun c st0 l, l = ANY list of participant choices (= mreach, next theorem).  An
   "instant inside the call" is a prefix l1 of the schedule, l = l1 ++ p :: l2, taken just before a step of p itself, at
   which p has completed exactly the same calls (t_res equal; t_res grows by one entry per completed call). ----- *)
Theorem mpmc_runs_are_schedules :
  forall c st0 st, mreach c st0 st <-> exists l, st = mrun c st0 l.
Proof. intros c st0 st. split; [apply mreach_mrun | intros [l ->]; apply mrun_reach]. Qed.
Print Assumptions mpmc_runs_are_schedules.

(* a pop that returns false saw the queue EMPTY (head = tail, no index claimed by a push and unclaimed by a pop) at an
   instant inside that call: when it loaded tail (line 264).  push/pop/send/recv freely mixed. *)
Theorem mpmc_q_pop_fail_saw_empty :
  forall c, cfg_ok c -> forall s, 0 <= s -> forall scripts l p,
  nowrap c (fst (mpmc_step c (mrun c (mpmc_init c s scripts) l) p)) ->
  t_res (m_thr (fst (mpmc_step c (mrun c (mpmc_init c s scripts) l) p)) p) = RPopFail :: t_res (m_thr (mrun c (mpmc_init c s scripts) l) p) ->
  exists l1 l2 h, l = l1 ++ p :: l2 /\
    t_pc (m_thr (mrun c (mpmc_init c s scripts) l1) p) = Some (MPopLdT h) /\
    t_res (m_thr (mrun c (mpmc_init c s scripts) l1) p) = t_res (m_thr (mrun c (mpmc_init c s scripts) l) p) /\
    m_head (mrun c (mpmc_init c s scripts) l1) = m_tail (mrun c (mpmc_init c s scripts) l1) /\
    m_gh (mrun c (mpmc_init c s scripts) l1) = m_gt (mrun c (mpmc_init c s scripts) l1).
Proof. exact pop_fail_saw_empty. Qed.
Print Assumptions mpmc_q_pop_fail_saw_empty.

(* a push that returns false saw the C++ full() test true (tail - head a non-zero multiple of the capacity) at an instant
   inside that call: when it loaded head (line 241).  push/pop/send/recv freely mixed. *)
Theorem mpmc_q_push_fail_saw_full :
  forall c, cfg_ok c -> forall s, 0 <= s -> forall scripts l p,
  nowrap c (fst (mpmc_step c (mrun c (mpmc_init c s scripts) l) p)) ->
  t_res (m_thr (fst (mpmc_step c (mrun c (mpmc_init c s scripts) l) p)) p) = RPushFail :: t_res (m_thr (mrun c (mpmc_init c s scripts) l) p) ->
  exists l1 l2 v t, l = l1 ++ p :: l2 /\
    t_pc (m_thr (mrun c (mpmc_init c s scripts) l1) p) = Some (MPushLdH v t) /\
    t_res (m_thr (mrun c (mpmc_init c s scripts) l1) p) = t_res (m_thr (mrun c (mpmc_init c s scripts) l) p) /\
    check_full c (m_head (mrun c (mpmc_init c s scripts) l1)) (m_tail (mrun c (mpmc_init c s scripts) l1)) = true /\
    m_gt (mrun c (mpmc_init c s scripts) l1) <> m_gh (mrun c (mpmc_init c s scripts) l1) /\
    (m_gt (mrun c (mpmc_init c s scripts) l1) - m_gh (mrun c (mpmc_init c s scripts) l1)) mod c_cap c = 0.
Proof. exact push_fail_saw_full. Qed.
Print Assumptions mpmc_q_push_fail_saw_full.

(* ... which, when no participant calls recv, means at least `capacity` elements claimed by a push and not by a pop, and
   exactly `capacity` when nobody calls send either (the RingChannel usage: push and pop only).  With recv in the mix a
   push can return false on a drained queue: C07_MPMC_Report.mixed_push_fail_not_full (spurious false, see notes). *)
Theorem mpmc_q_push_fail_saw_full_cas :
  forall c, cfg_ok c -> forall s scripts, 0 <= s -> forall l p,
  norecv_scripts scripts ->
  nowrap c (fst (mpmc_step c (mrun c (mpmc_init c s scripts) l) p)) ->
  t_res (m_thr (fst (mpmc_step c (mrun c (mpmc_init c s scripts) l) p)) p) = RPushFail :: t_res (m_thr (mrun c (mpmc_init c s scripts) l) p) ->
  exists l1 l2 v t, l = l1 ++ p :: l2 /\
    t_pc (m_thr (mrun c (mpmc_init c s scripts) l1) p) = Some (MPushLdH v t) /\
    t_res (m_thr (mrun c (mpmc_init c s scripts) l1) p) = t_res (m_thr (mrun c (mpmc_init c s scripts) l) p) /\
    c_cap c <= m_gt (mrun c (mpmc_init c s scripts) l1) - m_gh (mrun c (mpmc_init c s scripts) l1) /\
    (nosend_scripts scripts -> m_gt (mrun c (mpmc_init c s scripts) l1) - m_gh (mrun c (mpmc_init c s scripts) l1) = c_cap c).
Proof. exact push_fail_saw_full_cas. Qed.
Print Assumptions mpmc_q_push_fail_saw_full_cas.

(* the statement that stood here as a Definition (mpmc_q_reporting_statement), now proved *)
Theorem mpmc_q_reporting :
  forall c, cfg_ok c -> forall s scripts, 0 <= s -> forall st p, mreach c (mpmc_init c s scripts) st -> nowrap c st ->
  forall prev t, t_pc (m_thr st p) = Some (MPopLdH2 prev t) -> m_head st = prev -> check_empty (m_head st) t = true ->
  exists st1, mreach c (mpmc_init c s scripts) st1 /\ m_gh st1 = m_gt st1 /\ m_gh st1 = m_gh st.
Proof. intros c Hc s scripts H0 st p. exact (reporting_old c Hc s H0 scripts st p). Qed.
Print Assumptions mpmc_q_reporting.

(* ----- the fine-grained queue is an atomic bounded FIFO at its linearisation points (C07_MPMC_Linear.v): the composition
   step towards the RingChannel theorems below, whose model uses an atomic FIFO.  absq st = values of the indices
   [m_gh st, m_gt st).  Scripts of push / pop only. ----- *)
(* every step is a stutter of the abstract queue, or appends to a non-full queue, or removes the front element *)
Theorem mpmc_q_abs_step :
  forall c, cfg_ok c -> forall s, 0 <= s -> forall scripts, norecv_scripts scripts -> nosend_scripts scripts ->
  forall l q, nowrap c (fst (mpmc_step c (mrun c (mpmc_init c s scripts) l) q)) ->
  absq (fst (mpmc_step c (mrun c (mpmc_init c s scripts) l) q)) = absq (mrun c (mpmc_init c s scripts) l) \/
  (exists v, absq (fst (mpmc_step c (mrun c (mpmc_init c s scripts) l) q)) = absq (mrun c (mpmc_init c s scripts) l) ++ [v] /\
             Z.of_nat (length (absq (mrun c (mpmc_init c s scripts) l))) < c_cap c) \/
  (exists v, absq (mrun c (mpmc_init c s scripts) l) = v :: absq (fst (mpmc_step c (mrun c (mpmc_init c s scripts) l) q))).
Proof. exact abs_step_run. Qed.
Print Assumptions mpmc_q_abs_step.

(* every completed call has a linearisation point inside the call — a step of the caller itself — at which the abstract
   queue makes the transition of the ATOMIC operation with the result returned later (fifo_lp: push-true appends to a
   non-full queue, push-false sees exactly capacity elements, pop-true takes the front element, pop-false sees []) *)
Theorem mpmc_q_linearisable :
  forall c, cfg_ok c -> forall s, 0 <= s -> forall scripts, norecv_scripts scripts -> nosend_scripts scripts ->
  forall l p r,
  nowrap c (fst (mpmc_step c (mrun c (mpmc_init c s scripts) l) p)) ->
  t_res (m_thr (fst (mpmc_step c (mrun c (mpmc_init c s scripts) l) p)) p) = r :: t_res (m_thr (mrun c (mpmc_init c s scripts) l) p) ->
  match r with RPushOk _ _ | RPushFail | RPopOk _ _ | RPopFail => True | _ => False end ->
  exists l1 l2, l = l1 ++ p :: l2 /\
    t_res (m_thr (mrun c (mpmc_init c s scripts) l1) p) = t_res (m_thr (mrun c (mpmc_init c s scripts) l) p) /\
    fifo_lp (c_cap c) (absq (mrun c (mpmc_init c s scripts) l1)) r (absq (fst (mpmc_step c (mrun c (mpmc_init c s scripts) l1) p))).
Proof. exact linearisable. Qed.
Print Assumptions mpmc_q_linearisable.

(* the hypotheses of the reporting / linearisation theorems are met by a concrete run (third push on capacity 2 fails) *)
Example mpmc_q_linearisable_ex :
  let c := cfg_of 2 in
  let scripts := [[OPush 1; OPush 2; OPush 3]; [OPop]] in
  let l := [0;0;0;0;0; 0;0;0;0;0; 0;0;0]%nat in
  let st := mrun c (mpmc_init c 0 scripts) l in
  cfg_ok c /\ norecv_scripts scripts /\ nosend_scripts scripts /\
  nowrap c (fst (mpmc_step c st 0%nat)) /\
  t_res (m_thr (fst (mpmc_step c st 0%nat)) 0%nat) = RPushFail :: t_res (m_thr st 0%nat) /\
  absq st = [1; 2].
Proof. exact linear_ex. Qed.

(* ===== RingChannel protocol model (send<PhotonPause> / recv / notify_senders over an atomic FIFO and counter
   semaphores): every E3 replay step is a step of the transition system the statements below are about. ===== *)
Theorem chan_e3_runs_are_runs :
  forall cap Y st0 st p f, creach cap Y st0 st -> creach cap Y st0 (fst (chan_e3step cap Y st p f)).
Proof. exact chan_e3step_reach. Qed.
Print Assumptions chan_e3_runs_are_runs.

(* RingChannel, consumer side — the property's "never left non-empty with every consumer asleep": in EVERY reachable
   state of the protocol model (any number of participants, any scripts of sends/recvs, any interleaving, any pattern
   of semaphore time-outs) it is not the case that the queue is non-empty, queue_sem holds no token, some consumer is
   blocked in queue_sem.wait and every participant inside an operation is such a blocked consumer. *)
Theorem chan_no_lost_wakeup :
  forall cap Y scripts st, Z.of_nat (length scripts) + 1 < W64 ->
  creach cap Y (chan_init scripts) st -> lost_wakeup_recv (length scripts) st = false.
Proof. exact chan_no_lost_wakeup_recv. Qed.
Print Assumptions chan_no_lost_wakeup.

(* RingChannel, sender side — "a producer blocked on a full queue is likewise notified": never (queue has room, send_sem
   holds no token, some sender blocked in send_sem.wait, every participant inside an operation is such a sender). *)
Theorem chan_no_lost_wakeup_sender :
  forall cap Y scripts st, 0 <= cap -> Z.of_nat (length scripts) + 1 < W64 ->
  creach cap Y (chan_init scripts) st -> lost_wakeup_send cap (length scripts) st = false.
Proof. exact chan_no_lost_wakeup_send. Qed.
Print Assumptions chan_no_lost_wakeup_sender.

(* ===== RingChannel over the REAL queue algorithm: the product model C07_ChanQ_Model.v runs send / recv / notify_senders
   exactly as the protocol model above, but push_fn / pop at the four call sites are the CAS-variant push / pop of the MPMC
   ring queue executed one atomic operation at a time (mpmc_step) and interleaved with everything else.  x_run c Y st fut =
   the run under the schedule fut (participant, time-out flavour), ANY list.  Guard: nowrap (2^64 index wrap) on the last
   state.  C07_ChanQ_Proofs.v proves that it REFINES the protocol over the atomic FIFO (relation indexed by the remaining
   schedule: the linearisation point of a failing call is only known by looking ahead). ===== *)

(* refinement: some run of the atomic-FIFO protocol model has the same protocol variables and semaphores, the abstract queue
   absq as its FIFO, and agrees on program point, remaining script and results of every participant that is not in the middle
   of a queue call *)
Theorem chanq_refinement :
  forall c, cfg_ok c -> forall s, 0 <= s -> forall Y scripts fut,
  nowrap c (x_m (x_run c Y (x_init c s scripts) fut)) ->
  exists a, creach (c_cap c) Y (chan_init scripts) a /\
    cfields a = cfields (x_c (x_run c Y (x_init c s scripts) fut)) /\
    c_q a = absq (x_m (x_run c Y (x_init c s scripts) fut)) /\
    forall p, x_idle (x_run c Y (x_init c s scripts) fut) p = true ->
              c_thr a p = c_thr (x_c (x_run c Y (x_init c s scripts) fut)) p.
Proof. exact chanq_refines. Qed.
Print Assumptions chanq_refinement.

(* no lost wake-up, consumer side and sender side, for the channel over the fine-grained queue: never (abstract queue
   non-empty [resp. not full], the semaphore holds no token, some consumer [sender] blocked in its wait, every participant
   inside an operation is such a blocked one, nobody in the middle of a queue call) *)
Theorem chanq_no_lost_wakeups :
  forall c, cfg_ok c -> forall s, 0 <= s -> forall Y scripts, Z.of_nat (length scripts) + 1 < W64 -> forall fut,
  nowrap c (x_m (x_run c Y (x_init c s scripts) fut)) ->
  xlost_recv (length scripts) (x_run c Y (x_init c s scripts) fut) = false /\
  xlost_send (c_cap c) (length scripts) (x_run c Y (x_init c s scripts) fut) = false.
Proof. exact chanq_no_lost_wakeup. Qed.
Print Assumptions chanq_no_lost_wakeups.

(* the product model runs and the hypotheses are met: a send and a recv complete through the fine-grained queue *)
Example chanq_run_ex :
  let c := cfg_of 2 in
  let scripts := [[OSend 7]; [ORecv]] in
  let fut := [(0,0);(0,0);(0,0);(1,0);(1,0);(0,0);(0,0);(0,0);(1,0);(1,0);(1,0);(1,0);(1,0);(1,0);(1,0);(1,0);(1,0);(1,0)]%nat in
  let st := x_run c 0 (x_init c 0 scripts) fut in
  cfg_ok c /\ nowrap c (x_m st) /\ Z.of_nat (length scripts) + 1 < W64 /\
  t_res (c_thr (x_c st) 0%nat) = [RSent 0 7] /\ t_res (c_thr (x_c st) 1%nat) = [RRecv 0 7] /\ absq (x_m st) = [].
Proof. exact chanq_ex. Qed.

(* ===== batch MPMC ring queue (push_batch / pop_batch / push / pop, ordered publication): ANY number of participants,
   any scripts (pop_batch counts >= 0), any schedule, every capacity 2^k, every start s >= 0, the index-wrap guard
   (tail + capacity < 2^64) holding along the run (breach_nw). ===== *)

(* bounded + no overwrite: the four frontiers are ordered, at most `capacity` indices are claimed and not released, and
   every published, unreleased element sits intact in its slot *)
Theorem batch_q_bounded :
  forall c, cfg_ok c -> forall s scripts, 0 <= s -> s + c_cap c < W64 -> scripts_ok scripts ->
  forall st, breach_nw c (batch_init s scripts) st ->
  (s <= b_head st /\ b_head st <= b_rtail st /\ b_rtail st <= b_whead st /\ b_whead st <= b_tail st /\
   b_tail st <= b_head st + c_cap c) /\
  (forall j, b_head st <= j < b_whead st -> b_slot st (j mod c_cap c) = b_gval st j).
Proof. intros c Hc s scripts H0 HW Hok st R. pose proof (breach_inv c Hc s scripts st H0 HW Hok R) as I. split; [apply (bv_ord c s st I) | apply (bv_data c s st I)]. Qed.
Print Assumptions batch_q_bounded.

(* no invention / right values: every completed pop returned exactly the values pushed under the indices it claimed,
   every completed push has its values recorded under the indices it claimed (res_ok) *)
Theorem batch_q_no_invention :
  forall c, cfg_ok c -> forall s scripts, 0 <= s -> s + c_cap c < W64 -> scripts_ok scripts ->
  forall st, breach_nw c (batch_init s scripts) st ->
  forall p r, In r (t_res (b_thr st p)) -> res_ok s st r.
Proof. intros c Hc s scripts H0 HW Hok st R. apply (bv_res c s st (breach_inv c Hc s scripts st H0 HW Hok R)). Qed.
Print Assumptions batch_q_no_invention.

(* at most once: the index intervals claimed by two different participants that are inside a push (resp. a pop) are disjoint *)
Theorem batch_q_claims_disjoint :
  forall c, cfg_ok c -> forall s scripts, 0 <= s -> s + c_cap c < W64 -> scripts_ok scripts ->
  forall st, breach_nw c (batch_init s scripts) st ->
  forall p q pc1 pc2 a k b l, p <> q -> t_pc (b_thr st p) = Some pc1 -> t_pc (b_thr st q) = Some pc2 ->
  (wint pc1 = Some (a, k) -> wint pc2 = Some (b, l) -> a + k <= b \/ b + l <= a) /\
  (rint pc1 = Some (a, k) -> rint pc2 = Some (b, l) -> a + k <= b \/ b + l <= a).
Proof.
  intros c Hc s scripts H0 HW Hok st R p q pc1 pc2 a k b l N E1 E2.
  pose proof (breach_inv c Hc s scripts st H0 HW Hok R) as I.
  split; intros H1 H2; [apply (bv_wdisj c s st I p q pc1 pc2 a k b l N E1 E2 H1 H2) | apply (bv_rdisj c s st I p q pc1 pc2 a k b l N E1 E2 H1 H2)].
Qed.
Print Assumptions batch_q_claims_disjoint.

Theorem batch_e3_runs_are_runs :
  forall c st0 st p f, breach c st0 st -> breach c st0 (fst (batch_e3step c st p f)).
Proof. exact batch_e3step_reach. Qed.
Print Assumptions batch_e3_runs_are_runs.

(* per-thread FIFO across completed results (C07_Batch_Fifo.v): the indices of a thread's completed pushes (batch intervals
   flattened; bpushed st p = items of p's completed pushes in program order) strictly increase, and so do those of its pops *)
Theorem batch_q_fifo_per_thread :
  forall c, cfg_ok c -> forall s scripts, 0 <= s -> s + c_cap c < W64 -> scripts_ok scripts ->
  forall st, breach_nw c (batch_init s scripts) st ->
  forall p, StronglySorted Z.lt (map fst (bpushed st p)) /\ StronglySorted Z.lt (map fst (bpopped st p)).
Proof. exact batch_fifo_per_thread. Qed.
Print Assumptions batch_q_fifo_per_thread.

(* exactly once over completed results: completed push items are recorded under their index with their producer, below
   write_head; completed pop items carry the value pushed under their index, below head; an index is never returned by two
   pops; every index below write_head was pushed by a completed push of its producer; every index below head was returned
   by a completed pop *)
Theorem batch_q_exactly_once :
  forall c, cfg_ok c -> forall s scripts, 0 <= s -> s + c_cap c < W64 -> scripts_ok scripts ->
  forall st, breach_nw c (batch_init s scripts) st ->
  (forall p i v, In (i, v) (bpushed st p) -> s <= i < b_whead st /\ b_gval st i = v /\ b_gwho st i = p) /\
  (forall p i v, In (i, v) (bpopped st p) -> s <= i < b_head st /\ v = b_gval st i) /\
  (forall p q i v w, In (i, v) (bpopped st p) -> In (i, w) (bpopped st q) -> p = q /\ v = w) /\
  (forall i, s <= i < b_whead st -> In (i, b_gval st i) (bpushed st (b_gwho st i))) /\
  (forall i, s <= i < b_head st -> exists q, In (i, b_gval st i) (bpopped st q)).
Proof. exact batch_exactly_once. Qed.
Print Assumptions batch_q_exactly_once.

Example batch_q_fifo_ex :
  let c := cfg_of 2 in
  let scripts := [[OPushB [7; 8]]; [OPopB 2]] in
  cfg_ok c /\ scripts_ok scripts /\
  exists st, breach_nw c (batch_init 5 scripts) st /\ bpushed st 0%nat = [(5, 7); (6, 8)] /\ b_whead st = 7.
Proof. exact batch_fifo_ex. Qed.
