(* C07_MPMC_Proofs.v — inductive invariant of the MPMC ring queue model (push/pop CAS variant and
   send/recv ticket variant, freely mixed): ANY number of participants, ANY scripts, ANY schedule,
   any capacity 2^k, any start index; guard: the claim counters stay below 2^64 - capacity (no index
   wrap: at the wrap a queue of capacity >= 4 stops accepting pushes, see notes/C07.md N1). *)
From Coq Require Import ZArith Znumtheory Lia List Bool Arith Sorted.
From PV Require Import Base.U64 E3.E3_Run C07.C07_Model C07.C07_Arith C07.C07_Lists C07.C07_MPMC_Model.
Import ListNotations.
Local Open Scope Z_scope.

Lemma SSorted_snoc (l : list Z) x : StronglySorted Z.lt l -> (forall y, In y l -> y < x) -> StronglySorted Z.lt (l ++ [x]).
Proof.
  induction l as [|a l IH]; intros S H; simpl.
  - constructor; constructor.
  - inversion S; subst. constructor.
    + apply IH; [assumption|]. intros y Hy. apply H. right; exact Hy.
    + apply Forall_app. split; [assumption|]. constructor; [|constructor]. apply H. left; reflexivity.
Qed.

Definition whold (pc : mpc) : option Z :=
  match pc with MPushWr _ _ _ i | MPushStM _ _ _ i | MSendLdM _ _ i | MSendSp _ _ i => Some i | _ => None end.
Definition rhold (pc : mpc) : option Z :=
  match pc with MPopRd _ _ i | MPopStM _ _ i _ | MRecvLdM _ i | MRecvSp _ i => Some i | _ => None end.

Section MPMC.
  Variable c : cfg.
  Hypothesis Hc : cfg_ok c.
  Variable s : Z.
  Let cap := c_cap c.

  Definition chron (st : mstate) (p : nat) : list res := rev (t_res (m_thr st p)).
  Definition pushed (st : mstate) (p : nat) := push_items (chron st p).
  Definition popped (st : mstate) (p : nat) := pop_items (chron st p).

  Definition wheld (st : mstate) (p : nat) (i v : Z) : Prop :=
    s <= i < m_gt st /\ m_gval st i = v /\ m_gwho st i = p /\ forall j w, In (j, w) (pushed st p) -> j < i.
  Definition rheld (st : mstate) (p : nat) (i : Z) : Prop :=
    s <= i < m_gh st /\ m_gpop st i = p /\ forall j w, In (j, w) (popped st p) -> j < i.

  Definition pc_ok (st : mstate) (p : nat) (pc : mpc) : Prop :=
    match pc with
    | MPushLdM v t | MPushLdH v t => s <= t <= m_gt st
    | MPushCas v t => s <= t <= m_gt st /\ 2 * (t / cap) <= m_mark st (t mod cap)
    | MPushWr snd v t i => t = i /\ wheld st p i v /\ m_mark st (i mod cap) = 2 * (i / cap)
    | MPushStM snd v t i => t = i /\ wheld st p i v /\ m_mark st (i mod cap) = 2 * (i / cap) /\ m_slot st (i mod cap) = v
    | MSendLdM v t i | MSendSp v t i => t = i /\ wheld st p i v
    | MPopLdM h | MPopLdT h => s <= h <= m_gh st
    | MPopCas h => s <= h <= m_gh st /\ 2 * (h / cap) + 1 <= m_mark st (h mod cap)
    | MPopRd rcv h i => h = i /\ rheld st p i /\ m_mark st (i mod cap) = 2 * (i / cap) + 1
    | MPopStM rcv h i v => h = i /\ rheld st p i /\ m_mark st (i mod cap) = 2 * (i / cap) + 1 /\ v = m_gval st i
    | MRecvLdM h i | MRecvSp h i => h = i /\ rheld st p i
    | _ => True
    end.

  Definition wfree (st : mstate) (i : Z) : Prop := forall p pc, t_pc (m_thr st p) = Some pc -> whold pc <> Some i.
  Definition wbusy (st : mstate) (i : Z) : Prop := exists p pc, t_pc (m_thr st p) = Some pc /\ whold pc = Some i.
  Definition rfree (st : mstate) (i : Z) : Prop := forall p pc, t_pc (m_thr st p) = Some pc -> rhold pc <> Some i.
  Definition rbusy (st : mstate) (i : Z) : Prop := exists p pc, t_pc (m_thr st p) = Some pc /\ rhold pc = Some i.

  Record MInv (st : mstate) : Prop := mkMInv {
    mv_s : 0 <= s;
    mv_head : m_head st = m_gh st;
    mv_tail : m_tail st = m_gt st;
    mv_lo : s <= m_gh st /\ s <= m_gt st;
    mv_g : m_gt st + cap < W64 /\ m_gh st + cap < W64;
    mv_pc : forall p pc, t_pc (m_thr st p) = Some pc -> pc_ok st p pc;
    mv_wuniq : forall p q pc1 pc2 i, t_pc (m_thr st p) = Some pc1 -> t_pc (m_thr st q) = Some pc2 ->
               whold pc1 = Some i -> whold pc2 = Some i -> p = q;
    mv_runiq : forall p q pc1 pc2 i, t_pc (m_thr st p) = Some pc1 -> t_pc (m_thr st q) = Some pc2 ->
               rhold pc1 = Some i -> rhold pc2 = Some i -> p = q;
    (* the mark of a slot against the tickets mapped to it *)
    mv_wpub : forall i, s <= i < m_gt st -> wfree st i -> 2 * (i / cap) + 1 <= m_mark st (i mod cap);
    mv_wunp : forall i, s <= i -> m_gt st <= i \/ wbusy st i -> m_mark st (i mod cap) <= 2 * (i / cap);
    mv_rdone : forall i, s <= i < m_gh st -> rfree st i -> 2 * (i / cap) + 2 <= m_mark st (i mod cap);
    mv_rund : forall i, s <= i -> m_gh st <= i \/ rbusy st i -> m_mark st (i mod cap) <= 2 * (i / cap) + 1;
    mv_data : forall i, s <= i < m_gt st -> m_mark st (i mod cap) = 2 * (i / cap) + 1 -> m_slot st (i mod cap) = m_gval st i;
    (* completed operations *)
    mv_push : forall p i v, In (i, v) (pushed st p) -> s <= i < m_gt st /\ m_gval st i = v /\ m_gwho st i = p;
    mv_pop : forall p i v, In (i, v) (popped st p) -> s <= i < m_gh st /\ i < m_gt st /\ v = m_gval st i /\ m_gpop st i = p;
    mv_psort : forall p, StronglySorted Z.lt (map fst (pushed st p));
    mv_csort : forall p, StronglySorted Z.lt (map fst (popped st p));
    mv_wall : forall i, s <= i < m_gt st ->
              In (i, m_gval st i) (pushed st (m_gwho st i)) \/
              exists pc, t_pc (m_thr st (m_gwho st i)) = Some pc /\ whold pc = Some i;
    mv_rall : forall i, s <= i < m_gh st ->
              In (i, m_gval st i) (popped st (m_gpop st i)) \/
              exists pc, t_pc (m_thr st (m_gpop st i)) = Some pc /\ rhold pc = Some i;
  }.

  (* ---------------- arithmetic helpers ---------------- *)
  Lemma Hcap0 : 0 < cap. Proof. pose proof (cfg_cap_pos c Hc). unfold cap. lia. Qed.

  Lemma marks_nowrap t : 0 <= t -> t + cap < W64 ->
    last_turn_read c t = 2 * (t / cap) /\ this_turn_write c t = 2 * (t / cap) + 1 /\ this_turn_read c t = 2 * (t / cap) + 2.
  Proof.
    intros H0 H1. unfold last_turn_read, this_turn_write, this_turn_read.
    rewrite turn_div by exact Hc. fold cap. rewrite Z.shiftl_mul_pow2 by lia. change (2 ^ 1) with 2.
    pose proof Hcap0 as Hp. pose proof (cfg_cap_pos c Hc) as H2. fold cap in H2.
    assert (0 <= t / cap) by (apply Z.div_pos; lia).
    assert (2 * (t / cap) <= t) by (pose proof (Z.mul_div_le t cap Hp); nia).
    rewrite !wrap_small by lia. lia.
  Qed.

  (* two tickets on the same slot: compare their turns *)
  Ltac slots i j :=
    let E := fresh "Eslot" in let N := fresh "Nslot" in
    destruct (Z.eq_dec (i mod cap) (j mod cap)) as [E|N];
    [ destruct (Z_lt_dec i j) as [?L|?L];
      [ pose proof (same_slot_lt cap i j Hcap0 E ltac:(assumption))
      | destruct (Z.eq_dec i j) as [?Eij|?Nij];
        [ | pose proof (same_slot_lt cap j i Hcap0 (eq_sym E) ltac:(lia)) ] ];
      try rewrite E in *
    | ].

  (* ---------------- bookkeeping ---------------- *)
  Lemma finish_pc (th : thr mpc) r pc :
    t_pc (thr_finish mpmc_entry th r) = Some pc -> exists o, pc = mpmc_entry o.
  Proof. unfold thr_finish. destruct (t_ops th) as [|o rest]; simpl; intros E; [discriminate|]. inversion E. eauto. Qed.
  Lemma finish_res (th : thr mpc) r : rev (t_res (thr_finish mpmc_entry th r)) = rev (t_res th) ++ [r].
  Proof. unfold thr_finish. destruct (t_ops th); reflexivity. Qed.
  Lemma entry_nohold o : whold (mpmc_entry o) = None /\ rhold (mpmc_entry o) = None.
  Proof. destruct o; split; reflexivity. Qed.
  Lemma entry_ok st p o : pc_ok st p (mpmc_entry o).
  Proof. destruct o; exact I. Qed.

  (* pc_ok only looks at these parts of the state *)
  Lemma pc_ok_ext st st' p pc :
    m_gt st' = m_gt st -> m_gh st' = m_gh st -> m_mark st' = m_mark st -> m_slot st' = m_slot st ->
    m_gval st' = m_gval st -> m_gwho st' = m_gwho st -> m_gpop st' = m_gpop st ->
    pushed st' p = pushed st p -> popped st' p = popped st p ->
    pc_ok st p pc -> pc_ok st' p pc.
  Proof.
    intros E1 E2 E3 E4 E5 E6 E7 E8 E9 H.
    destruct pc; simpl in *; unfold wheld, rheld in *; rewrite ?E1, ?E2, ?E3, ?E4, ?E5, ?E6, ?E7, ?E8, ?E9; exact H.
  Qed.

  Ltac msimpl :=
    unfold m_finish, m_goto, m_set_thr, m_set_mark, m_set_slot, m_claim_tail, m_claim_head, chron, pushed, popped, wheld, rheld in *;
    cbn [fst m_head m_tail m_mark m_slot m_gh m_gt m_gval m_gwho m_gpop m_thr] in *.

  (* ---------------- (A)/(B): a step that only replaces the thread record of p, keeping its claims ------------- *)
  Lemma inv_thr st p pc th' :
    MInv st -> t_pc (m_thr st p) = Some pc ->
    (forall pc', t_pc th' = Some pc' -> whold pc' = whold pc /\ rhold pc' = rhold pc /\ pc_ok st p pc') ->
    (t_pc th' = None -> whold pc = None /\ rhold pc = None) ->
    push_items (rev (t_res th')) = pushed st p -> pop_items (rev (t_res th')) = popped st p ->
    MInv (m_set_thr st p th').
  Proof.
    intros I Epc Hsome Hnone Epush Epop.
    set (st' := m_set_thr st p th').
    assert (Hthr : forall q, q <> p -> m_thr st' q = m_thr st q) by (intros q N; unfold st', m_set_thr; simpl; apply upd_other; exact N).
    assert (Hthp : m_thr st' p = th') by (unfold st', m_set_thr; simpl; apply upd_same).
    assert (Hpu : forall q, pushed st' q = pushed st q).
    { intros q. unfold pushed, chron. destruct (Nat.eq_dec q p) as [->|N]; [rewrite Hthp; exact Epush | rewrite Hthr by exact N; reflexivity]. }
    assert (Hpo : forall q, popped st' q = popped st q).
    { intros q. unfold popped, chron. destruct (Nat.eq_dec q p) as [->|N]; [rewrite Hthp; exact Epop | rewrite Hthr by exact N; reflexivity]. }
    (* claims of every thread are the same before and after *)
    assert (Hfw : forall q pcq, t_pc (m_thr st' q) = Some pcq ->
              exists pc0, t_pc (m_thr st q) = Some pc0 /\ whold pc0 = whold pcq /\ rhold pc0 = rhold pcq).
    { intros q pcq E. destruct (Nat.eq_dec q p) as [->|N].
      - rewrite Hthp in E. destruct (Hsome pcq E) as (A & B & _). exists pc. auto.
      - rewrite Hthr in E by exact N. exists pcq. auto. }
    assert (Hbw : forall q pc0, t_pc (m_thr st q) = Some pc0 -> (whold pc0 <> None \/ rhold pc0 <> None) ->
              exists pcq, t_pc (m_thr st' q) = Some pcq /\ whold pc0 = whold pcq /\ rhold pc0 = rhold pcq).
    { intros q pc0 E Hh. destruct (Nat.eq_dec q p) as [->|N].
      - rewrite Epc in E. inversion E; subst pc0. destruct (t_pc th') as [pc'|] eqn:Et.
        + destruct (Hsome pc' eq_refl) as (A & B & _). exists pc'. rewrite Hthp. auto.
        + destruct (Hnone eq_refl) as [A B]. rewrite A, B in Hh. destruct Hh; congruence.
      - exists pc0. rewrite Hthr by exact N. auto. }
    assert (Hwf : forall i, wfree st i -> wfree st' i).
    { intros i F q pcq E. destruct (Hfw q pcq E) as (pc0 & E0 & A & _). rewrite <- A. apply (F q pc0 E0). }
    assert (Hwf' : forall i, wfree st' i -> wfree st i).
    { intros i F q pc0 E0 Hh. destruct (Hbw q pc0 E0) as (pcq & E & A & _); [left; congruence|]. apply (F q pcq E). congruence. }
    assert (Hrf : forall i, rfree st i -> rfree st' i).
    { intros i F q pcq E. destruct (Hfw q pcq E) as (pc0 & E0 & _ & A). rewrite <- A. apply (F q pc0 E0). }
    assert (Hrf' : forall i, rfree st' i -> rfree st i).
    { intros i F q pc0 E0 Hh. destruct (Hbw q pc0 E0) as (pcq & E & _ & A); [right; congruence|]. apply (F q pcq E). congruence. }
    assert (Hwb' : forall i, wbusy st' i -> wbusy st i).
    { intros i (q & pcq & E & Hh). destruct (Hfw q pcq E) as (pc0 & E0 & A & _). exists q, pc0. split; [exact E0|congruence]. }
    assert (Hrb' : forall i, rbusy st' i -> rbusy st i).
    { intros i (q & pcq & E & Hh). destruct (Hfw q pcq E) as (pc0 & E0 & _ & A). exists q, pc0. split; [exact E0|congruence]. }
    destruct I.
    constructor; try assumption.
    - (* pc *) intros q pcq E. apply (pc_ok_ext st st'); try reflexivity; [apply Hpu | apply Hpo |].
      destruct (Nat.eq_dec q p) as [->|N].
      + rewrite Hthp in E. apply Hsome; exact E.
      + rewrite Hthr in E by exact N. apply mv_pc0; exact E.
    - (* wuniq *) intros q1 q2 pc1 pc2 i E1 E2 H1 H2.
      destruct (Hfw q1 pc1 E1) as (pa & Ea & Aa & _). destruct (Hfw q2 pc2 E2) as (pb & Eb & Ab & _).
      apply (mv_wuniq0 q1 q2 pa pb i Ea Eb); congruence.
    - intros q1 q2 pc1 pc2 i E1 E2 H1 H2.
      destruct (Hfw q1 pc1 E1) as (pa & Ea & _ & Aa). destruct (Hfw q2 pc2 E2) as (pb & Eb & _ & Ab).
      apply (mv_runiq0 q1 q2 pa pb i Ea Eb); congruence.
    - intros i Hi F. apply mv_wpub0; [exact Hi | apply Hwf'; exact F].
    - intros i Hi [G|B]; apply mv_wunp0; auto.
    - intros i Hi F. apply mv_rdone0; [exact Hi | apply Hrf'; exact F].
    - intros i Hi [G|B]; apply mv_rund0; auto.
    - intros q i v. rewrite Hpu. apply mv_push0.
    - intros q i v. rewrite Hpo. apply mv_pop0.
    - intros q. rewrite Hpu. apply mv_psort0.
    - intros q. rewrite Hpo. apply mv_csort0.
    - intros i Hi. rewrite Hpu. destruct (mv_wall0 i Hi) as [L|(pc0 & E0 & Hh)]; [left; exact L|right].
      destruct (Hbw _ pc0 E0) as (pcq & E & A & _); [left; congruence|]. exists pcq. split; [exact E|congruence].
    - intros i Hi. rewrite Hpo. destruct (mv_rall0 i Hi) as [L|(pc0 & E0 & Hh)]; [left; exact L|right].
      destruct (Hbw _ pc0 E0) as (pcq & E & _ & A); [right; congruence|]. exists pcq. split; [exact E|congruence].
  Qed.

  Lemma whold_lt st q pcq i : MInv st -> t_pc (m_thr st q) = Some pcq -> whold pcq = Some i ->
    s <= i < m_gt st /\ m_gwho st i = q.
  Proof.
    intros I E H. pose proof (mv_pc st I q pcq E) as K.
    destruct pcq; simpl in H; try discriminate; inversion H; subst; simpl in K; unfold wheld in K; intuition.
  Qed.
  Lemma rhold_lt st q pcq i : MInv st -> t_pc (m_thr st q) = Some pcq -> rhold pcq = Some i ->
    s <= i < m_gh st /\ m_gpop st i = q.
  Proof.
    intros I E H. pose proof (mv_pc st I q pcq E) as K.
    destruct pcq; simpl in H; try discriminate; inversion H; subst; simpl in K; unfold rheld in K; intuition.
  Qed.
  Lemma mark_odd_published st i : MInv st -> s <= i -> m_mark st (i mod cap) = 2 * (i / cap) + 1 -> i < m_gt st /\ wfree st i.
  Proof.
    intros I Hi Hm. split.
    - destruct (Z_lt_dec i (m_gt st)) as [L|G]; [exact L|].
      assert (G' : m_gt st <= i) by lia.
      pose proof (mv_wunp st I i Hi (or_introl G')). lia.
    - intros q pcq E Hh. pose proof (mv_wunp st I i Hi (or_intror (ex_intro _ q (ex_intro _ pcq (conj E Hh))))). lia.
  Qed.

  (* pc_ok of a thread survives a claim made by another thread *)
  Lemma pc_ok_mono st st' q pc :
    MInv st ->
    m_gt st <= m_gt st' -> m_gh st <= m_gh st' -> m_mark st' = m_mark st -> m_slot st' = m_slot st ->
    (forall i, i < m_gt st -> m_gval st' i = m_gval st i /\ m_gwho st' i = m_gwho st i) ->
    (forall i, i < m_gh st -> m_gpop st' i = m_gpop st i) ->
    pushed st' q = pushed st q -> popped st' q = popped st q ->
    pc_ok st q pc -> pc_ok st' q pc.
  Proof.
    intros I G1 G2 Em Es Hv Hp Epu Epo K.
    assert (WH : forall i v, wheld st q i v -> wheld st' q i v).
    { unfold wheld. intros i v (A & B & C0 & D). destruct (Hv i ltac:(lia)) as [X Y]. rewrite Epu, X, Y. repeat split; try assumption; lia. }
    assert (RH : forall i, rheld st q i -> rheld st' q i).
    { unfold rheld. intros i (A & B & D). rewrite Epo, Hp by lia. repeat split; try assumption; lia. }
    destruct pc; cbn [pc_ok] in *; rewrite ?Em, ?Es;
      try exact K; try lia;
      repeat match goal with H : _ /\ _ |- _ => destruct H end;
      repeat match goal with |- _ /\ _ => split end;
      try assumption; try lia; try (apply WH; assumption); try (apply RH; assumption).
    (* MPopStM: v = gval i, and i < gt because the mark is odd *)
    match goal with
    | Hm : m_mark st (?i mod cap) = 2 * (?i / cap) + 1, Hr : rheld st q ?i |- _ =>
        destruct (mark_odd_published st i I ltac:(destruct Hr; lia) Hm) as [Hlt _];
        rewrite (proj1 (Hv i Hlt)); assumption
    end.
  Qed.

  (* ---------------- (C): p claims the next tail index ---------------- *)
  Lemma inv_claim_tail st p pc v pc' :
    MInv st -> t_pc (m_thr st p) = Some pc -> whold pc = None -> rhold pc = None ->
    m_gt st + 1 + cap < W64 ->
    (pc' = MPushWr false v (m_gt st) (m_gt st) /\ 2 * (m_gt st / cap) <= m_mark st (m_gt st mod cap)) \/
     pc' = MSendLdM v (m_gt st) (m_gt st) ->
    MInv (m_goto (m_claim_tail st p (m_gt st + 1) v) p pc').
  Proof.
    intros I Epc Hw Hr Hg Hpc'.
    set (st' := m_goto (m_claim_tail st p (m_gt st + 1) v) p pc').
    assert (Hthr : forall q, q <> p -> m_thr st' q = m_thr st q) by (intros q N; unfold st'; msimpl; apply upd_other; exact N).
    assert (Hthp : t_pc (m_thr st' p) = Some pc') by (unfold st'; msimpl; rewrite upd_same; reflexivity).
    assert (Hpu : forall q, pushed st' q = pushed st q).
    { intros q. unfold st', pushed, chron; msimpl. destruct (Nat.eq_dec q p) as [->|N]; [rewrite upd_same; reflexivity | rewrite upd_other by exact N; reflexivity]. }
    assert (Hpo : forall q, popped st' q = popped st q).
    { intros q. unfold st', popped, chron; msimpl. destruct (Nat.eq_dec q p) as [->|N]; [rewrite upd_same; reflexivity | rewrite upd_other by exact N; reflexivity]. }
    assert (Hwp : whold pc' = Some (m_gt st) /\ rhold pc' = None) by (destruct Hpc' as [[-> _]| ->]; split; reflexivity).
    destruct Hwp as [Hwp Hrp].
    assert (Hgt : m_gt st' = m_gt st + 1) by reflexivity.
    assert (Hgv : forall i, i <> m_gt st -> m_gval st' i = m_gval st i) by (intros i N; unfold st'; msimpl; apply updZ_other; exact N).
    assert (Hgw : forall i, i <> m_gt st -> m_gwho st' i = m_gwho st i) by (intros i N; unfold st'; msimpl; apply updZ_other; exact N).
    pose proof I as I0. destruct I.
    constructor; try assumption; try (unfold st'; msimpl; lia).
    - (* pc *) intros q pcq E. destruct (Nat.eq_dec q p) as [->|N].
      + rewrite Hthp in E. inversion E; subst pcq.
        assert (WH : wheld st' p (m_gt st) v).
        { unfold wheld. rewrite Hgt, Hpu. unfold st'; msimpl. rewrite !updZ_same. repeat split; try lia.
          intros j w Hj. apply (mv_push0 p j w) in Hj. lia. }
        destruct Hpc' as [[-> Hm]| ->]; cbn [pc_ok]; (split; [reflexivity|]); [split; [exact WH|] | exact WH].
        pose proof (mv_wunp0 (m_gt st) (proj2 mv_lo0) (or_introl (Z.le_refl _))). unfold st'; msimpl. fold cap. lia.
      + rewrite Hthr in E by exact N. pose proof (mv_pc0 q pcq E) as K.
        apply (pc_ok_mono st st'); try assumption; try reflexivity; try (unfold st'; msimpl; lia).
        * intros i Hi. split; [apply Hgv | apply Hgw]; lia.
        * apply Hpu.
        * apply Hpo.
    - (* wuniq *) intros q1 q2 pc1 pc2 i E1 E2 H1 H2.
      destruct (Nat.eq_dec q1 p) as [->|N1]; destruct (Nat.eq_dec q2 p) as [->|N2]; try reflexivity.
      + rewrite Hthp in E1. inversion E1; subst pc1. rewrite Hwp in H1. inversion H1; subst i.
        rewrite Hthr in E2 by exact N2. destruct (whold_lt st q2 pc2 _ I0 E2 H2). lia.
      + rewrite Hthp in E2. inversion E2; subst pc2. rewrite Hwp in H2. inversion H2; subst i.
        rewrite Hthr in E1 by exact N1. destruct (whold_lt st q1 pc1 _ I0 E1 H1). lia.
      + rewrite Hthr in E1 by exact N1. rewrite Hthr in E2 by exact N2. eapply mv_wuniq0; eauto.
    - (* runiq *) intros q1 q2 pc1 pc2 i E1 E2 H1 H2.
      assert (A1 : q1 <> p) by (intros ->; rewrite Hthp in E1; inversion E1; subst; congruence).
      assert (A2 : q2 <> p) by (intros ->; rewrite Hthp in E2; inversion E2; subst; congruence).
      rewrite Hthr in E1 by exact A1. rewrite Hthr in E2 by exact A2. eapply mv_runiq0; eauto.
    - (* wpub *) intros i Hi F. rewrite Hgt in Hi.
      assert (i <> m_gt st) by (intros ->; apply (F p pc' Hthp Hwp)).
      unfold st'; msimpl. apply mv_wpub0; [lia|].
      intros q pcq E Hh. assert (q <> p) by (intros ->; rewrite Epc in E; inversion E; subst; congruence).
      apply (F q pcq); [rewrite Hthr by assumption; exact E | exact Hh].
    - (* wunp *) intros i Hi [G|(q & pcq & E & Hh)]; unfold st'; msimpl.
      + apply mv_wunp0; [exact Hi | left; unfold st' in G; msimpl; lia].
      + destruct (Nat.eq_dec q p) as [->|N].
        * fold st' in E. rewrite Hthp in E. inversion E; subst pcq. rewrite Hwp in Hh. inversion Hh; subst i.
          apply mv_wunp0; [exact Hi | left; lia].
        * apply mv_wunp0; [exact Hi | right]. exists q, pcq. fold st' in E. rewrite Hthr in E by exact N. auto.
    - (* rdone *) intros i Hi F. unfold st' in Hi |- *; msimpl. apply mv_rdone0; [exact Hi|].
      intros q pcq E Hh. assert (q <> p) by (intros ->; rewrite Epc in E; inversion E; subst; congruence).
      apply (F q pcq); [fold st'; rewrite Hthr by assumption; exact E | exact Hh].
    - (* rund *) intros i Hi [G|(q & pcq & E & Hh)]; unfold st'; msimpl.
      + apply mv_rund0; [exact Hi | left; unfold st' in G; msimpl; lia].
      + fold st' in E. assert (q <> p) by (intros ->; rewrite Hthp in E; inversion E; subst; congruence).
        apply mv_rund0; [exact Hi | right]. exists q, pcq. rewrite Hthr in E by assumption. auto.
    - (* data *) intros i Hi Hm. rewrite Hgt in Hi. unfold st' in Hm; msimpl. fold st'.
      destruct (Z.eq_dec i (m_gt st)) as [->|N].
      + pose proof (mv_wunp0 (m_gt st) (proj2 mv_lo0) (or_introl (Z.le_refl _))). lia.
      + rewrite Hgv by exact N. unfold st'; msimpl. apply mv_data0; [lia | exact Hm].
    - (* push *) intros q i w Hin. rewrite Hpu in Hin. destruct (mv_push0 q i w Hin) as (A & B & C0).
      rewrite Hgt, Hgv, Hgw by lia. repeat split; try assumption; lia.
    - (* pop *) intros q i w Hin. rewrite Hpo in Hin. destruct (mv_pop0 q i w Hin) as (A & B & C0 & D).
      rewrite Hgt, Hgv by lia. unfold st'; msimpl. repeat split; try assumption; lia.
    - intros q. rewrite Hpu. apply mv_psort0.
    - intros q. rewrite Hpo. apply mv_csort0.
    - (* wall *) intros i Hi. rewrite Hgt in Hi. destruct (Z.eq_dec i (m_gt st)) as [->|N].
      + right. unfold st' at 1 2; msimpl. rewrite updZ_same. fold st'. exists pc'. auto.
      + rewrite Hgv, Hgw, Hpu by exact N. destruct (mv_wall0 i ltac:(lia)) as [L|(pc0 & E0 & Hh)]; [left; exact L|right].
        assert (m_gwho st i <> p) by (intros Eq; rewrite Eq, Epc in E0; inversion E0; subst; congruence).
        exists pc0. rewrite Hthr by assumption. auto.
    - (* rall *) intros i Hi. unfold st' in Hi; msimpl. fold st'.
      replace (m_gpop st' i) with (m_gpop st i) by reflexivity. rewrite Hpo.
      destruct (mv_rall0 i Hi) as [L|(pc0 & E0 & Hh)].
      + left. destruct (mv_pop0 _ _ _ L) as (_ & Hlt & _). rewrite Hgv by lia. exact L.
      + right. assert (m_gpop st i <> p) by (intros Eq; rewrite Eq, Epc in E0; inversion E0; subst; congruence).
        exists pc0. rewrite Hthr by assumption. auto.
  Qed.

  (* ---------------- (D): p claims the next head index ---------------- *)
  Lemma inv_claim_head st p pc pc' :
    MInv st -> t_pc (m_thr st p) = Some pc -> whold pc = None -> rhold pc = None ->
    m_gh st + 1 + cap < W64 ->
    (pc' = MPopRd false (m_gh st) (m_gh st) /\ 2 * (m_gh st / cap) + 1 <= m_mark st (m_gh st mod cap)) \/
     pc' = MRecvLdM (m_gh st) (m_gh st) ->
    MInv (m_goto (m_claim_head st p (m_gh st + 1)) p pc').
  Proof.
    intros I Epc Hw Hr Hg Hpc'.
    set (st' := m_goto (m_claim_head st p (m_gh st + 1)) p pc').
    assert (Hthr : forall q, q <> p -> m_thr st' q = m_thr st q) by (intros q N; unfold st'; msimpl; apply upd_other; exact N).
    assert (Hthp : t_pc (m_thr st' p) = Some pc') by (unfold st'; msimpl; rewrite upd_same; reflexivity).
    assert (Hpu : forall q, pushed st' q = pushed st q).
    { intros q. unfold st', pushed, chron; msimpl. destruct (Nat.eq_dec q p) as [->|N]; [rewrite upd_same; reflexivity | rewrite upd_other by exact N; reflexivity]. }
    assert (Hpo : forall q, popped st' q = popped st q).
    { intros q. unfold st', popped, chron; msimpl. destruct (Nat.eq_dec q p) as [->|N]; [rewrite upd_same; reflexivity | rewrite upd_other by exact N; reflexivity]. }
    assert (Hwp : whold pc' = None /\ rhold pc' = Some (m_gh st)) by (destruct Hpc' as [[-> _]| ->]; split; reflexivity).
    destruct Hwp as [Hwp Hrp].
    assert (Hgh : m_gh st' = m_gh st + 1) by reflexivity.
    assert (Hgp : forall i, i <> m_gh st -> m_gpop st' i = m_gpop st i) by (intros i N; unfold st'; msimpl; apply updZ_other; exact N).
    pose proof I as I0. destruct I.
    constructor; try assumption; try (unfold st'; msimpl; lia).
    - (* pc *) intros q pcq E. destruct (Nat.eq_dec q p) as [->|N].
      + rewrite Hthp in E. inversion E; subst pcq.
        assert (RH : rheld st' p (m_gh st)).
        { unfold rheld. rewrite Hgh, Hpo. unfold st'; msimpl. rewrite !updZ_same. repeat split; try lia.
          intros j w Hj. apply (mv_pop0 p j w) in Hj. lia. }
        destruct Hpc' as [[-> Hm]| ->]; cbn [pc_ok]; (split; [reflexivity|]); [split; [exact RH|] | exact RH].
        pose proof (mv_rund0 (m_gh st) (proj1 mv_lo0) (or_introl (Z.le_refl _))). unfold st'; msimpl. fold cap. lia.
      + rewrite Hthr in E by exact N. pose proof (mv_pc0 q pcq E) as K.
        apply (pc_ok_mono st st'); try assumption; try reflexivity; try (unfold st'; msimpl; lia).
        all: try (intros i Hi; first [split; reflexivity | apply Hgp; lia]).
        * apply Hpu.
        * apply Hpo.
    - (* wuniq *) intros q1 q2 pc1 pc2 i E1 E2 H1 H2.
      assert (A1 : q1 <> p) by (intros ->; rewrite Hthp in E1; inversion E1; subst; congruence).
      assert (A2 : q2 <> p) by (intros ->; rewrite Hthp in E2; inversion E2; subst; congruence).
      rewrite Hthr in E1 by exact A1. rewrite Hthr in E2 by exact A2. eapply mv_wuniq0; eauto.
    - (* runiq *) intros q1 q2 pc1 pc2 i E1 E2 H1 H2.
      destruct (Nat.eq_dec q1 p) as [->|N1]; destruct (Nat.eq_dec q2 p) as [->|N2]; try reflexivity.
      + rewrite Hthp in E1. inversion E1; subst pc1. rewrite Hrp in H1. inversion H1; subst i.
        rewrite Hthr in E2 by exact N2. destruct (rhold_lt st q2 pc2 _ I0 E2 H2). lia.
      + rewrite Hthp in E2. inversion E2; subst pc2. rewrite Hrp in H2. inversion H2; subst i.
        rewrite Hthr in E1 by exact N1. destruct (rhold_lt st q1 pc1 _ I0 E1 H1). lia.
      + rewrite Hthr in E1 by exact N1. rewrite Hthr in E2 by exact N2. eapply mv_runiq0; eauto.
    - (* wpub *) intros i Hi F. unfold st' in Hi |- *; msimpl. apply mv_wpub0; [exact Hi|].
      intros q pcq E Hh. assert (q <> p) by (intros ->; rewrite Epc in E; inversion E; subst; congruence).
      apply (F q pcq); [fold st'; rewrite Hthr by assumption; exact E | exact Hh].
    - (* wunp *) intros i Hi [G|(q & pcq & E & Hh)]; unfold st'; msimpl.
      + apply mv_wunp0; [exact Hi | left; unfold st' in G; msimpl; lia].
      + fold st' in E. assert (q <> p) by (intros ->; rewrite Hthp in E; inversion E; subst; congruence).
        apply mv_wunp0; [exact Hi | right]. exists q, pcq. rewrite Hthr in E by assumption. auto.
    - (* rdone *) intros i Hi F. rewrite Hgh in Hi.
      assert (i <> m_gh st) by (intros ->; apply (F p pc' Hthp Hrp)).
      unfold st'; msimpl. apply mv_rdone0; [lia|].
      intros q pcq E Hh. assert (q <> p) by (intros ->; rewrite Epc in E; inversion E; subst; congruence).
      apply (F q pcq); [rewrite Hthr by assumption; exact E | exact Hh].
    - (* rund *) intros i Hi [G|(q & pcq & E & Hh)]; unfold st'; msimpl.
      + apply mv_rund0; [exact Hi | left; unfold st' in G; msimpl; lia].
      + destruct (Nat.eq_dec q p) as [->|N].
        * fold st' in E. rewrite Hthp in E. inversion E; subst pcq. rewrite Hrp in Hh. inversion Hh; subst i.
          apply mv_rund0; [exact Hi | left; lia].
        * apply mv_rund0; [exact Hi | right]. exists q, pcq. fold st' in E. rewrite Hthr in E by exact N. auto.
    - (* push *) intros q i w Hin. rewrite Hpu in Hin. exact (mv_push0 q i w Hin).
    - (* pop *) intros q i w Hin. rewrite Hpo in Hin. destruct (mv_pop0 q i w Hin) as (A & B & C0 & D).
      rewrite Hgh, Hgp by lia. unfold st'; msimpl. repeat split; try assumption; lia.
    - intros q. rewrite Hpu. apply mv_psort0.
    - intros q. rewrite Hpo. apply mv_csort0.
    - (* wall *) intros i Hi. unfold st' in Hi; msimpl. fold st'.
      replace (m_gwho st' i) with (m_gwho st i) by reflexivity. replace (m_gval st' i) with (m_gval st i) by reflexivity. rewrite Hpu.
      destruct (mv_wall0 i Hi) as [L|(pc0 & E0 & Hh)]; [left; exact L|right].
      assert (m_gwho st i <> p) by (intros Eq; rewrite Eq, Epc in E0; inversion E0; subst; congruence).
      exists pc0. rewrite Hthr by assumption. auto.
    - (* rall *) intros i Hi. rewrite Hgh in Hi. destruct (Z.eq_dec i (m_gh st)) as [->|N].
      + right. unfold st' at 1 2; msimpl. rewrite updZ_same. fold st'. exists pc'. auto.
      + rewrite Hgp, Hpo by exact N. replace (m_gval st' i) with (m_gval st i) by reflexivity.
        destruct (mv_rall0 i ltac:(lia)) as [L|(pc0 & E0 & Hh)]; [left; exact L|right].
        assert (m_gpop st i <> p) by (intros Eq; rewrite Eq, Epc in E0; inversion E0; subst; congruence).
        exists pc0. rewrite Hthr by assumption. auto.
  Qed.

  (* ---------------- (E): the non-atomic slot write of the holder of write ticket i ---------------- *)
  Lemma inv_write st p snd v i :
    MInv st -> t_pc (m_thr st p) = Some (MPushWr snd v i i) ->
    MInv (m_goto (m_set_slot st (i mod cap) v) p (MPushStM snd v i i)).
  Proof.
    intros I Epc.
    pose proof (mv_pc st I p _ Epc) as Kp. cbn [pc_ok] in Kp. destruct Kp as (_ & WHp & Hmp).
    set (st1 := m_set_slot st (i mod cap) v).
    assert (I1 : MInv st1).
    { pose proof I as I0. destruct I. constructor; try assumption.
      - (* pc *) intros q pcq E. change (m_thr st1 q) with (m_thr st q) in E. pose proof (mv_pc0 q pcq E) as K.
        destruct pcq; try exact K. cbn [pc_ok] in *. destruct K as (A & B & C0 & D).
        split; [exact A|]. split; [exact B|]. split; [exact C0|].
        change (m_slot st1 (i0 mod cap)) with (updZ (m_slot st) (i mod cap) v (i0 mod cap)).
        slots i0 i.
        + lia.
        + subst. assert (q = p) by (eapply (mv_wuniq0 q p _ _ _ E Epc); reflexivity). subst q. rewrite Epc in E. discriminate.
        + lia.
        + rewrite updZ_other by exact Nslot. exact D.
      - (* data *) intros i' Hi Hm.
        change (m_slot st1 (i' mod cap)) with (updZ (m_slot st) (i mod cap) v (i' mod cap)).
        change (m_mark st1) with (m_mark st) in Hm. change (m_gval st1 i') with (m_gval st i').
        slots i' i; try lia.
        rewrite updZ_other by exact Nslot. apply mv_data0; assumption. }
    unfold m_goto. apply (inv_thr st1 p (MPushWr snd v i i)); try exact I1; try exact Epc.
    - intros pc' E. cbn [thr_goto t_pc] in E. inversion E; subst pc'.
      split; [reflexivity|]. split; [reflexivity|]. cbn [pc_ok]. split; [reflexivity|]. split; [exact WHp|]. split; [exact Hmp|].
      change (m_slot st1 (i mod cap)) with (updZ (m_slot st) (i mod cap) v (i mod cap)). apply updZ_same.
    - intros E. discriminate.
    - reflexivity.
    - reflexivity.
  Qed.

  (* ---------------- (F): the holder of write ticket i publishes it (mark.store) and returns ---------------- *)
  Lemma inv_publish st p snd v i :
    MInv st -> t_pc (m_thr st p) = Some (MPushStM snd v i i) ->
    MInv (m_finish (m_set_mark st (i mod cap) (2 * (i / cap) + 1)) p (if snd then RSent i v else RPushOk i v)).
  Proof.
    intros I Epc.
    pose proof (mv_pc st I p _ Epc) as Kp. cbn [pc_ok] in Kp. destruct Kp as (_ & WHp & Hmp & Hsp).
    set (r := if snd then RSent i v else RPushOk i v).
    set (st' := m_finish (m_set_mark st (i mod cap) (2 * (i / cap) + 1)) p r).
    assert (Hthr : forall q, q <> p -> m_thr st' q = m_thr st q) by (intros q N; unfold st'; msimpl; apply upd_other; exact N).
    assert (Hthp : m_thr st' p = thr_finish mpmc_entry (m_thr st p) r) by (unfold st'; msimpl; apply upd_same).
    assert (Hpu : forall q, q <> p -> pushed st' q = pushed st q) by (intros q N; unfold pushed, chron; rewrite Hthr by exact N; reflexivity).
    assert (Hpup : pushed st' p = pushed st p ++ [(i, v)]).
    { unfold pushed, chron. rewrite Hthp, finish_res. unfold push_items. rewrite flat_map_snoc. unfold r. destruct snd; reflexivity. }
    assert (Hpo : forall q, popped st' q = popped st q).
    { intros q. unfold popped, chron. destruct (Nat.eq_dec q p) as [->|N]; [|rewrite Hthr by exact N; reflexivity].
      rewrite Hthp, finish_res. unfold pop_items. rewrite flat_map_snoc. unfold r. destruct snd; simpl; rewrite app_nil_r; reflexivity. }
    assert (Hmk : forall j, m_mark st' j = updZ (m_mark st) (i mod cap) (2 * (i / cap) + 1) j) by reflexivity.
    assert (Hpnh : forall pcq, t_pc (m_thr st' p) = Some pcq -> whold pcq = None /\ rhold pcq = None /\ pc_ok st' p pcq).
    { intros pcq E. rewrite Hthp in E. apply finish_pc in E. destruct E as [o ->]. destruct (entry_nohold o). repeat split; auto. apply entry_ok. }
    (* holders after = holders before, except p's hold of i *)
    assert (Hfw : forall q pcq, t_pc (m_thr st' q) = Some pcq -> (whold pcq <> None \/ rhold pcq <> None) -> q <> p /\ t_pc (m_thr st q) = Some pcq).
    { intros q pcq E Hh. destruct (Nat.eq_dec q p) as [->|N].
      - destruct (Hpnh pcq E) as (A & B & _). rewrite A, B in Hh. destruct Hh; congruence.
      - split; [exact N|]. rewrite Hthr in E by exact N. exact E. }
    pose proof I as I0. destruct I.
    assert (Hwother : forall q pcq i', t_pc (m_thr st q) = Some pcq -> whold pcq = Some i' -> q <> p -> i' <> i).
    { intros q pcq i' E Hh N ->. apply N. eapply (mv_wuniq0 q p _ _ i E Epc); [exact Hh|reflexivity]. }
    constructor; try assumption.
    - (* pc *) intros q pcq E. destruct (Nat.eq_dec q p) as [->|N]; [apply Hpnh; exact E|].
      rewrite Hthr in E by exact N. pose proof (mv_pc0 q pcq E) as K.
      assert (WH : forall i' v', wheld st q i' v' -> wheld st' q i' v') by (intros i' v' H; unfold wheld in *; rewrite Hpu by exact N; exact H).
      assert (RH : forall i', rheld st q i' -> rheld st' q i') by (intros i' H; unfold rheld in *; rewrite Hpo; exact H).
      destruct pcq; cbn [pc_ok] in *; try exact K;
        repeat match goal with H : _ /\ _ |- _ => destruct H end;
        repeat match goal with |- _ /\ _ => split end;
        try assumption; try (apply WH; assumption); try (apply RH; assumption);
        try (change (m_slot st') with (m_slot st); assumption);
        try (change (m_gval st') with (m_gval st); assumption);
        rewrite Hmk.
      + (* MPushCas *) slots t i; try (rewrite updZ_same; lia). rewrite updZ_other by exact Nslot. assumption.
      + (* MPushWr *) subst t. pose proof (Hwother q _ i0 E eq_refl N). slots i0 i; try lia. rewrite updZ_other by exact Nslot. assumption.
      + (* MPushStM *) subst t. pose proof (Hwother q _ i0 E eq_refl N). slots i0 i; try lia. rewrite updZ_other by exact Nslot. assumption.
      + (* MPopCas *) slots h i; try (rewrite updZ_same; lia). rewrite updZ_other by exact Nslot. assumption.
      + (* MPopRd *) slots i0 i; try lia. rewrite updZ_other by exact Nslot. assumption.
      + (* MPopStM *) slots i0 i; try lia. rewrite updZ_other by exact Nslot. assumption.
    - (* wuniq *) intros q1 q2 pc1 pc2 i' E1 E2 H1 H2.
      destruct (Hfw q1 pc1 E1) as [_ A1]; [left; congruence|]. destruct (Hfw q2 pc2 E2) as [_ A2]; [left; congruence|].
      eapply mv_wuniq0; eauto.
    - intros q1 q2 pc1 pc2 i' E1 E2 H1 H2.
      destruct (Hfw q1 pc1 E1) as [_ A1]; [right; congruence|]. destruct (Hfw q2 pc2 E2) as [_ A2]; [right; congruence|].
      eapply mv_runiq0; eauto.
    - (* wpub *) intros i' Hi F. rewrite Hmk. destruct (Z.eq_dec i' i) as [->|Ni]; [rewrite updZ_same; lia|].
      assert (F0 : wfree st i').
      { intros q pcq E Hh. destruct (Nat.eq_dec q p) as [->|N].
        - rewrite Epc in E. inversion E; subst pcq. simpl in Hh. congruence.
        - apply (F q pcq); [rewrite Hthr by exact N; exact E|exact Hh]. }
      pose proof (mv_wpub0 i' Hi F0). slots i' i; try (rewrite updZ_same; lia). rewrite updZ_other by exact Nslot. assumption.
    - (* wunp *) intros i' Hi Hor. rewrite Hmk.
      assert (Ni : i' <> i).
      { destruct Hor as [G|(q & pcq & E & Hh)]; [destruct WHp; change (m_gt st') with (m_gt st) in G; lia|].
        destruct (Hfw q pcq E) as [N E0]; [left; congruence|]. eapply Hwother; eauto. }
      assert (Hor0 : m_gt st <= i' \/ wbusy st i').
      { destruct Hor as [G|(q & pcq & E & Hh)]; [left; exact G|right].
        destruct (Hfw q pcq E) as [N E0]; [left; congruence|]. exists q, pcq. auto. }
      pose proof (mv_wunp0 i' Hi Hor0). slots i' i; try (rewrite updZ_same; lia); try lia. rewrite updZ_other by exact Nslot. assumption.
    - (* rdone *) intros i' Hi F. rewrite Hmk.
      assert (F0 : rfree st i').
      { intros q pcq E Hh. destruct (Nat.eq_dec q p) as [->|N].
        - rewrite Epc in E. inversion E; subst pcq. simpl in Hh. congruence.
        - apply (F q pcq); [rewrite Hthr by exact N; exact E|exact Hh]. }
      pose proof (mv_rdone0 i' Hi F0). slots i' i; try (rewrite updZ_same; lia). rewrite updZ_other by exact Nslot. assumption.
    - (* rund *) intros i' Hi Hor. rewrite Hmk.
      assert (Hor0 : m_gh st <= i' \/ rbusy st i').
      { destruct Hor as [G|(q & pcq & E & Hh)]; [left; exact G|right].
        destruct (Hfw q pcq E) as [N E0]; [right; congruence|]. exists q, pcq. auto. }
      pose proof (mv_rund0 i' Hi Hor0). slots i' i; try (rewrite updZ_same; lia). rewrite updZ_other by exact Nslot. assumption.
    - (* data *) intros i' Hi Hm. rewrite Hmk in Hm. change (m_slot st') with (m_slot st). change (m_gval st') with (m_gval st).
      slots i' i.
      + rewrite updZ_same in Hm. lia.
      + subst i'. rewrite Hsp. destruct WHp as (_ & Hv & _). congruence.
      + rewrite updZ_same in Hm. lia.
      + rewrite updZ_other in Hm by exact Nslot. apply mv_data0; assumption.
    - (* push *) intros q i' w Hin. change (m_gt st') with (m_gt st). change (m_gval st') with (m_gval st). change (m_gwho st') with (m_gwho st).
      destruct (Nat.eq_dec q p) as [->|N]; [|rewrite Hpu in Hin by exact N; apply mv_push0; exact Hin].
      rewrite Hpup in Hin. apply in_app_or in Hin. destruct Hin as [Hin|[Hin|[]]]; [apply mv_push0; exact Hin|].
      inversion Hin; subst i' w. destruct WHp as (A & B & C0 & _). auto.
    - (* pop *) intros q i' w Hin. rewrite Hpo in Hin. exact (mv_pop0 q i' w Hin).
    - (* psort *) intros q. destruct (Nat.eq_dec q p) as [->|N]; [|rewrite Hpu by exact N; apply mv_psort0].
      rewrite Hpup, map_app. simpl. apply SSorted_snoc; [apply mv_psort0|].
      intros y Hy. apply in_map_iff in Hy. destruct Hy as ([j w] & <- & Hin). destruct WHp as (_ & _ & _ & Hlt). apply (Hlt j w Hin).
    - intros q. rewrite Hpo. apply mv_csort0.
    - (* wall *) intros i' Hi. change (m_gt st') with (m_gt st) in Hi. change (m_gval st') with (m_gval st). change (m_gwho st') with (m_gwho st).
      destruct (mv_wall0 i' Hi) as [L|(pc0 & E0 & Hh)].
      + left. destruct (Nat.eq_dec (m_gwho st i') p) as [Eq|N]; [rewrite Eq in *; rewrite Hpup; apply in_or_app; left; exact L | rewrite Hpu by exact N; exact L].
      + destruct (Nat.eq_dec (m_gwho st i') p) as [Eq|N].
        * left. rewrite Eq in *. rewrite Epc in E0. inversion E0; subst pc0. simpl in Hh. inversion Hh; subst i'.
          rewrite Hpup. apply in_or_app. right. destruct WHp as (_ & Hv & _). rewrite Hv. left; reflexivity.
        * right. exists pc0. rewrite Hthr by exact N. auto.
    - (* rall *) intros i' Hi. change (m_gh st') with (m_gh st) in Hi. change (m_gval st') with (m_gval st). change (m_gpop st') with (m_gpop st).
      rewrite Hpo. destruct (mv_rall0 i' Hi) as [L|(pc0 & E0 & Hh)]; [left; exact L|right].
      assert (m_gpop st i' <> p) by (intros Eq; rewrite Eq, Epc in E0; inversion E0; subst pc0; simpl in Hh; congruence).
      exists pc0. rewrite Hthr by assumption. auto.
  Qed.

  (* ---------------- (G): the holder of read ticket i releases the slot (mark.store) and returns ---------------- *)
  Lemma inv_release st p rcv i v :
    MInv st -> t_pc (m_thr st p) = Some (MPopStM rcv i i v) ->
    MInv (m_finish (m_set_mark st (i mod cap) (2 * (i / cap) + 2)) p (if rcv then RRecv i v else RPopOk i v)).
  Proof.
    intros I Epc.
    pose proof (mv_pc st I p _ Epc) as Kp. cbn [pc_ok] in Kp. destruct Kp as (_ & RHp & Hmp & Hvp).
    assert (Hs_i : s <= i) by (destruct RHp; lia).
    destruct (mark_odd_published st i I Hs_i Hmp) as [Hilt _].
    set (r := if rcv then RRecv i v else RPopOk i v).
    set (st' := m_finish (m_set_mark st (i mod cap) (2 * (i / cap) + 2)) p r).
    assert (Hthr : forall q, q <> p -> m_thr st' q = m_thr st q) by (intros q N; unfold st'; msimpl; apply upd_other; exact N).
    assert (Hthp : m_thr st' p = thr_finish mpmc_entry (m_thr st p) r) by (unfold st'; msimpl; apply upd_same).
    assert (Hpo : forall q, q <> p -> popped st' q = popped st q) by (intros q N; unfold popped, chron; rewrite Hthr by exact N; reflexivity).
    assert (Hpop : popped st' p = popped st p ++ [(i, v)]).
    { unfold popped, chron. rewrite Hthp, finish_res. unfold pop_items. rewrite flat_map_snoc. unfold r. destruct rcv; reflexivity. }
    assert (Hpu : forall q, pushed st' q = pushed st q).
    { intros q. unfold pushed, chron. destruct (Nat.eq_dec q p) as [->|N]; [|rewrite Hthr by exact N; reflexivity].
      rewrite Hthp, finish_res. unfold push_items. rewrite flat_map_snoc. unfold r. destruct rcv; simpl; rewrite app_nil_r; reflexivity. }
    assert (Hmk : forall j, m_mark st' j = updZ (m_mark st) (i mod cap) (2 * (i / cap) + 2) j) by reflexivity.
    assert (Hpnh : forall pcq, t_pc (m_thr st' p) = Some pcq -> whold pcq = None /\ rhold pcq = None /\ pc_ok st' p pcq).
    { intros pcq E. rewrite Hthp in E. apply finish_pc in E. destruct E as [o ->]. destruct (entry_nohold o). repeat split; auto. apply entry_ok. }
    assert (Hfw : forall q pcq, t_pc (m_thr st' q) = Some pcq -> (whold pcq <> None \/ rhold pcq <> None) -> q <> p /\ t_pc (m_thr st q) = Some pcq).
    { intros q pcq E Hh. destruct (Nat.eq_dec q p) as [->|N].
      - destruct (Hpnh pcq E) as (A & B & _). rewrite A, B in Hh. destruct Hh; congruence.
      - split; [exact N|]. rewrite Hthr in E by exact N. exact E. }
    pose proof I as I0. destruct I.
    assert (Hrother : forall q pcq i', t_pc (m_thr st q) = Some pcq -> rhold pcq = Some i' -> q <> p -> i' <> i).
    { intros q pcq i' E Hh N ->. apply N. eapply (mv_runiq0 q p _ _ i E Epc); [exact Hh|reflexivity]. }
    constructor; try assumption.
    - (* pc *) intros q pcq E. destruct (Nat.eq_dec q p) as [->|N]; [apply Hpnh; exact E|].
      rewrite Hthr in E by exact N. pose proof (mv_pc0 q pcq E) as K.
      assert (WH : forall i' v', wheld st q i' v' -> wheld st' q i' v') by (intros i' v' H; unfold wheld in *; rewrite Hpu; exact H).
      assert (RH : forall i', rheld st q i' -> rheld st' q i') by (intros i' H; unfold rheld in *; rewrite Hpo by exact N; exact H).
      destruct pcq; cbn [pc_ok] in *; try exact K;
        repeat match goal with H : _ /\ _ |- _ => destruct H end;
        repeat match goal with |- _ /\ _ => split end;
        try assumption; try (apply WH; assumption); try (apply RH; assumption);
        try (change (m_slot st') with (m_slot st); assumption);
        try (change (m_gval st') with (m_gval st); assumption);
        rewrite Hmk.
      + (* MPushCas *) slots t i; try (rewrite updZ_same; lia). rewrite updZ_other by exact Nslot. assumption.
      + (* MPushWr *) slots i0 i; try lia. rewrite updZ_other by exact Nslot. assumption.
      + (* MPushStM *) slots i0 i; try lia. rewrite updZ_other by exact Nslot. assumption.
      + (* MPopCas *) slots h i; try (rewrite updZ_same; lia). rewrite updZ_other by exact Nslot. assumption.
      + (* MPopRd *) subst h. pose proof (Hrother q _ i0 E eq_refl N). slots i0 i; try lia. rewrite updZ_other by exact Nslot. assumption.
      + (* MPopStM *) subst h. pose proof (Hrother q _ i0 E eq_refl N). slots i0 i; try lia. rewrite updZ_other by exact Nslot. assumption.
    - (* wuniq *) intros q1 q2 pc1 pc2 i' E1 E2 H1 H2.
      destruct (Hfw q1 pc1 E1) as [_ A1]; [left; congruence|]. destruct (Hfw q2 pc2 E2) as [_ A2]; [left; congruence|].
      eapply mv_wuniq0; eauto.
    - intros q1 q2 pc1 pc2 i' E1 E2 H1 H2.
      destruct (Hfw q1 pc1 E1) as [_ A1]; [right; congruence|]. destruct (Hfw q2 pc2 E2) as [_ A2]; [right; congruence|].
      eapply mv_runiq0; eauto.
    - (* wpub *) intros i' Hi F. rewrite Hmk.
      assert (F0 : wfree st i').
      { intros q pcq E Hh. destruct (Nat.eq_dec q p) as [->|N].
        - rewrite Epc in E. inversion E; subst pcq. simpl in Hh. congruence.
        - apply (F q pcq); [rewrite Hthr by exact N; exact E|exact Hh]. }
      pose proof (mv_wpub0 i' Hi F0). slots i' i; try (rewrite updZ_same; lia). rewrite updZ_other by exact Nslot. assumption.
    - (* wunp *) intros i' Hi Hor. rewrite Hmk.
      assert (Hor0 : m_gt st <= i' \/ wbusy st i').
      { destruct Hor as [G|(q & pcq & E & Hh)]; [left; exact G|right].
        destruct (Hfw q pcq E) as [N E0]; [left; congruence|]. exists q, pcq. auto. }
      pose proof (mv_wunp0 i' Hi Hor0). slots i' i; try (rewrite updZ_same; lia). rewrite updZ_other by exact Nslot. assumption.
    - (* rdone *) intros i' Hi F. rewrite Hmk. destruct (Z.eq_dec i' i) as [->|Ni]; [rewrite updZ_same; lia|].
      assert (F0 : rfree st i').
      { intros q pcq E Hh. destruct (Nat.eq_dec q p) as [->|N].
        - rewrite Epc in E. inversion E; subst pcq. simpl in Hh. congruence.
        - apply (F q pcq); [rewrite Hthr by exact N; exact E|exact Hh]. }
      pose proof (mv_rdone0 i' Hi F0). slots i' i; try (rewrite updZ_same; lia). rewrite updZ_other by exact Nslot. assumption.
    - (* rund *) intros i' Hi Hor. rewrite Hmk.
      assert (Ni : i' <> i).
      { destruct Hor as [G|(q & pcq & E & Hh)]; [destruct RHp; change (m_gh st') with (m_gh st) in G; lia|].
        destruct (Hfw q pcq E) as [N E0]; [right; congruence|]. eapply Hrother; eauto. }
      assert (Hor0 : m_gh st <= i' \/ rbusy st i').
      { destruct Hor as [G|(q & pcq & E & Hh)]; [left; exact G|right].
        destruct (Hfw q pcq E) as [N E0]; [right; congruence|]. exists q, pcq. auto. }
      pose proof (mv_rund0 i' Hi Hor0). slots i' i; try (rewrite updZ_same; lia); try lia. rewrite updZ_other by exact Nslot. assumption.
    - (* data *) intros i' Hi Hm. rewrite Hmk in Hm. change (m_slot st') with (m_slot st). change (m_gval st') with (m_gval st).
      slots i' i; try (rewrite updZ_same in Hm; lia).
      rewrite updZ_other in Hm by exact Nslot. apply mv_data0; assumption.
    - (* push *) intros q i' w Hin. rewrite Hpu in Hin. exact (mv_push0 q i' w Hin).
    - (* pop *) intros q i' w Hin. change (m_gt st') with (m_gt st). change (m_gh st') with (m_gh st). change (m_gval st') with (m_gval st). change (m_gpop st') with (m_gpop st).
      destruct (Nat.eq_dec q p) as [->|N]; [|rewrite Hpo in Hin by exact N; apply mv_pop0; exact Hin].
      rewrite Hpop in Hin. apply in_app_or in Hin. destruct Hin as [Hin|[Hin|[]]]; [apply mv_pop0; exact Hin|].
      inversion Hin; subst i' w. destruct RHp as (A & B & _). auto.
    - intros q. rewrite Hpu. apply mv_psort0.
    - (* csort *) intros q. destruct (Nat.eq_dec q p) as [->|N]; [|rewrite Hpo by exact N; apply mv_csort0].
      rewrite Hpop, map_app. simpl. apply SSorted_snoc; [apply mv_csort0|].
      intros y Hy. apply in_map_iff in Hy. destruct Hy as ([j w] & <- & Hin). destruct RHp as (_ & _ & Hlt). apply (Hlt j w Hin).
    - (* wall *) intros i' Hi. change (m_gt st') with (m_gt st) in Hi. change (m_gval st') with (m_gval st). change (m_gwho st') with (m_gwho st).
      rewrite Hpu. destruct (mv_wall0 i' Hi) as [L|(pc0 & E0 & Hh)]; [left; exact L|right].
      assert (m_gwho st i' <> p) by (intros Eq; rewrite Eq, Epc in E0; inversion E0; subst pc0; simpl in Hh; congruence).
      exists pc0. rewrite Hthr by assumption. auto.
    - (* rall *) intros i' Hi. change (m_gh st') with (m_gh st) in Hi. change (m_gval st') with (m_gval st). change (m_gpop st') with (m_gpop st).
      destruct (mv_rall0 i' Hi) as [L|(pc0 & E0 & Hh)].
      + left. destruct (Nat.eq_dec (m_gpop st i') p) as [Eq|N]; [rewrite Eq in *; rewrite Hpop; apply in_or_app; left; exact L | rewrite Hpo by exact N; exact L].
      + destruct (Nat.eq_dec (m_gpop st i') p) as [Eq|N].
        * left. rewrite Eq in *. rewrite Epc in E0. inversion E0; subst pc0. simpl in Hh. inversion Hh; subst i'.
          rewrite Hpop. apply in_or_app. right. rewrite <- Hvp. left; reflexivity.
        * right. exists pc0. rewrite Hthr by exact N. auto.
  Qed.

  Lemma inv_goto st p pc pc' :
    MInv st -> t_pc (m_thr st p) = Some pc -> whold pc' = whold pc -> rhold pc' = rhold pc -> pc_ok st p pc' ->
    MInv (m_goto st p pc').
  Proof.
    intros I E Hw Hr K. unfold m_goto. apply (inv_thr st p pc); try assumption; try reflexivity.
    - intros pc'' E'. cbn [thr_goto t_pc] in E'. inversion E'; subst pc''. auto.
    - intros E'. discriminate.
  Qed.

  Lemma inv_fail st p pc r :
    MInv st -> t_pc (m_thr st p) = Some pc -> whold pc = None -> rhold pc = None -> push_item r = [] -> pop_item r = [] ->
    MInv (m_finish st p r).
  Proof.
    intros I E Hw Hr P1 P2. unfold m_finish. apply (inv_thr st p pc); try assumption.
    - intros pc' E'. apply finish_pc in E'. destruct E' as [o ->]. destruct (entry_nohold o) as [A B].
      rewrite A, B, Hw, Hr. repeat split. apply entry_ok.
    - intros _. auto.
    - rewrite finish_res. unfold push_items, pushed, chron. rewrite flat_map_snoc, P1, app_nil_r. reflexivity.
    - rewrite finish_res. unfold pop_items, popped, chron. rewrite flat_map_snoc, P2, app_nil_r. reflexivity.
  Qed.

  Definition nowrap (st : mstate) : Prop := m_gt st + cap < W64 /\ m_gh st + cap < W64.

  (* ---------------- every transition preserves the invariant (as long as the claim counters do not wrap) -------- *)
  Lemma mpmc_step_inv st p : MInv st -> nowrap (fst (mpmc_step c st p)) -> MInv (fst (mpmc_step c st p)).
  Proof.
    intros I NW. unfold mpmc_step in *. destruct (t_pc (m_thr st p)) as [pc|] eqn:Epc; [|exact I].
    pose proof (mv_pc st I p pc Epc) as K. pose proof (mv_s st I) as Hs0.
    pose proof (mv_head st I) as Hhd. pose proof (mv_tail st I) as Htl.
    destruct (mv_lo st I) as [Hlo1 Hlo2]. destruct (mv_g st I) as [Hg1 Hg2].
    pose proof Hcap0 as Hcp.
    destruct pc; cbn [pc_ok] in K; cbn [fst]; rewrite ?Htl, ?Hhd in NW |- *.
    - (* MPushLdT *) apply (inv_goto st p _ _ I Epc); try reflexivity. cbn [pc_ok]. rewrite ?Htl. lia.
    - (* MPushLdM *) rewrite idx_mod by exact Hc. fold cap.
      destruct (marks_nowrap t ltac:(lia) ltac:(lia)) as (Em & _ & _). rewrite Em.
      destruct (Z.eqb_spec (m_mark st (t mod cap)) (2 * (t / cap))) as [Eq|Nq]; cbn [fst];
        apply (inv_goto st p _ _ I Epc); try reflexivity; cbn [pc_ok]; [split; [exact K|lia] | exact K].
    - (* MPushCas *) destruct K as [K1 K2]. rewrite ?Htl.
      destruct (Z.eqb_spec (m_gt st) t) as [Eq|Nq]; cbn [fst] in *.
      + subst t. rewrite wrap_small by lia.
        apply (inv_claim_tail st p _ v _ I Epc); try reflexivity.
        * unfold nowrap in NW. cbn [fst m_goto m_claim_tail m_set_thr m_gt m_gh] in NW. lia.
        * left. split; [reflexivity|exact K2].
      + apply (inv_goto st p _ _ I Epc); try reflexivity. cbn [pc_ok]. lia.
    - (* MPushLdH *) apply (inv_goto st p _ _ I Epc); try reflexivity; try exact Logic.I.
    - (* MPushLdT2 *) rewrite ?Htl.
      destruct ((m_gt st =? prev) && check_full c h (m_gt st)); cbn [fst].
      + apply (inv_fail st p _ _ I Epc); reflexivity.
      + apply (inv_goto st p _ _ I Epc); try reflexivity. cbn [pc_ok]. lia.
    - (* MPushWr *) destruct K as (-> & K2 & K3). rewrite idx_mod by exact Hc. apply inv_write; assumption.
    - (* MPushStM *) destruct K as (-> & K2 & K3 & K4). rewrite idx_mod by exact Hc. fold cap.
      assert (Hi : s <= i < m_gt st) by (destruct K2; assumption).
      destruct (marks_nowrap i ltac:(lia) ltac:(lia)) as (_ & Em & _). rewrite Em. apply inv_publish; assumption.
    - (* MPopLdH *) apply (inv_goto st p _ _ I Epc); try reflexivity. cbn [pc_ok]. rewrite ?Hhd. lia.
    - (* MPopLdM *) rewrite idx_mod by exact Hc. fold cap.
      destruct (marks_nowrap h ltac:(lia) ltac:(lia)) as (_ & Em & _). rewrite Em.
      destruct (Z.eqb_spec (m_mark st (h mod cap)) (2 * (h / cap) + 1)) as [Eq|Nq]; cbn [fst];
        apply (inv_goto st p _ _ I Epc); try reflexivity; cbn [pc_ok]; [split; [exact K|lia] | exact K].
    - (* MPopCas *) destruct K as [K1 K2]. rewrite ?Hhd.
      destruct (Z.eqb_spec (m_gh st) h) as [Eq|Nq]; cbn [fst] in *.
      + subst h. rewrite wrap_small by lia.
        apply (inv_claim_head st p _ _ I Epc); try reflexivity.
        * unfold nowrap in NW. cbn [fst m_goto m_claim_head m_set_thr m_gt m_gh] in NW. lia.
        * left. split; [reflexivity|exact K2].
      + apply (inv_goto st p _ _ I Epc); try reflexivity. cbn [pc_ok]. lia.
    - (* MPopLdT *) apply (inv_goto st p _ _ I Epc); try reflexivity; try exact Logic.I.
    - (* MPopLdH2 *) rewrite ?Hhd.
      destruct ((m_gh st =? prev) && check_empty (m_gh st) t); cbn [fst].
      + apply (inv_fail st p _ _ I Epc); reflexivity.
      + apply (inv_goto st p _ _ I Epc); try reflexivity. cbn [pc_ok]. lia.
    - (* MPopRd *) destruct K as (-> & K2 & K3). rewrite idx_mod by exact Hc. fold cap.
      apply (inv_goto st p _ _ I Epc); try reflexivity. cbn [pc_ok]. split; [reflexivity|]. split; [exact K2|]. split; [exact K3|].
      assert (Hi : s <= i) by (destruct K2; lia).
      destruct (mark_odd_published st i I Hi K3) as [Hlt _].
      apply (mv_data st I i); [lia|exact K3].
    - (* MPopStM *) destruct K as (-> & K2 & K3 & K4). rewrite idx_mod by exact Hc. fold cap.
      assert (Hi : s <= i < m_gh st) by (destruct K2; assumption).
      destruct (marks_nowrap i ltac:(lia) ltac:(lia)) as (_ & _ & Em). rewrite Em. apply inv_release; assumption.
    - (* MSendFa *) rewrite ?Htl. rewrite wrap_small by lia.
      apply (inv_claim_tail st p _ v _ I Epc); try reflexivity.
      + unfold nowrap in NW. cbn [fst m_goto m_claim_tail m_set_thr m_gt m_gh] in NW. lia.
      + right. reflexivity.
    - (* MSendLdM *) destruct K as [-> K2]. rewrite idx_mod by exact Hc. fold cap.
      assert (Hi : s <= i < m_gt st) by (destruct K2; assumption).
      destruct (marks_nowrap i ltac:(lia) ltac:(lia)) as (Em & _ & _). rewrite Em.
      destruct (Z.eqb_spec (m_mark st (i mod cap)) (2 * (i / cap))) as [Eq|Nq]; cbn [fst];
        apply (inv_goto st p _ _ I Epc); try reflexivity; cbn [pc_ok]; auto.
    - (* MSendSp *) apply (inv_goto st p _ _ I Epc); try reflexivity. exact K.
    - (* MRecvFa *) rewrite ?Hhd. rewrite wrap_small by lia.
      apply (inv_claim_head st p _ _ I Epc); try reflexivity.
      + unfold nowrap in NW. cbn [fst m_goto m_claim_head m_set_thr m_gt m_gh] in NW. lia.
      + right. reflexivity.
    - (* MRecvLdM *) destruct K as [-> K2]. rewrite idx_mod by exact Hc. fold cap.
      assert (Hi : s <= i < m_gh st) by (destruct K2; assumption).
      destruct (marks_nowrap i ltac:(lia) ltac:(lia)) as (_ & Em & _). rewrite Em.
      destruct (Z.eqb_spec (m_mark st (i mod cap)) (2 * (i / cap) + 1)) as [Eq|Nq]; cbn [fst];
        apply (inv_goto st p _ _ I Epc); try reflexivity; cbn [pc_ok]; auto.
    - (* MRecvSp *) apply (inv_goto st p _ _ I Epc); try reflexivity. exact K.
  Qed.

  (* ---------------- initial state ---------------- *)
  Lemma init_mark_le i : 0 <= s -> s + cap < W64 -> s <= i -> init_mark c s (i mod cap) <= 2 * (i / cap).
  Proof.
    intros H0 HW Hi. pose proof Hcap0 as Hp. pose proof (cfg_cap_pos c Hc) as H2. fold cap in H2.
    unfold init_mark. rewrite idx_mod by exact Hc. fold cap.
    set (q := s / cap). set (r := s mod cap).
    assert (Es : s = cap * q + r) by (apply Z.div_mod; lia).
    assert (Hr : 0 <= r < cap) by (apply Z.mod_pos_bound; lia).
    set (j := i mod cap). assert (Hj : 0 <= j < cap) by (apply Z.mod_pos_bound; lia).
    assert (Ei : i = cap * (i / cap) + j) by (apply Z.div_mod; lia).
    assert (Hq : 0 <= q) by (apply Z.div_pos; lia).
    replace (s - r) with (cap * q) by lia.
    assert (Hqi : q <= i / cap) by (apply Z.div_le_mono; lia).
    assert (Hnx : forall n, 0 <= n -> n < W64 -> last_turn_read c n = 2 * (n / cap)).
    { intros n Hn HnW. unfold last_turn_read. rewrite turn_div by exact Hc. fold cap. rewrite Z.shiftl_mul_pow2 by lia. change (2 ^ 1) with 2.
      assert (0 <= n / cap) by (apply Z.div_pos; lia).
      assert (2 * (n / cap) <= n) by (pose proof (Z.mul_div_le n cap Hp); nia).
      rewrite wrap_small by lia. lia. }
    destruct (Z.ltb_spec j r) as [Hlt|Hge].
    - rewrite Hnx by nia.
      assert (X : (cap * q + j + cap) / cap = q + 1) by (symmetry; apply (Z.div_unique _ _ _ j); [left; lia | ring]). rewrite X.
      assert (q < i / cap).
      { destruct (Z.eq_dec q (i / cap)) as [Eq|Nq]; [|lia]. rewrite <- Eq in Ei. lia. }
      lia.
    - rewrite Hnx by nia.
      assert (X : (cap * q + j) / cap = q) by (symmetry; apply (Z.div_unique _ _ _ j); [left; lia | ring]). rewrite X.
      lia.
  Qed.

  Lemma init_inv scripts : 0 <= s -> s + cap < W64 -> MInv (mpmc_init c s scripts).
  Proof.
    intros H0 HW. pose proof Hcap0 as Hp.
    assert (Hnp : forall p pc, t_pc (m_thr (mpmc_init c s scripts) p) = Some pc -> exists o, pc = mpmc_entry o).
    { intros p pc E. simpl in E. unfold thr_init in E. destruct (nth p scripts []) as [|o r]; simpl in E; [discriminate|]. inversion E. eauto. }
    assert (Hres : forall p, chron (mpmc_init c s scripts) p = []).
    { intros p. unfold chron. simpl. unfold thr_init. destruct (nth p scripts []); reflexivity. }
    constructor; cbn [mpmc_init m_head m_tail m_gh m_gt m_mark m_slot m_gval]; try lia.
    - apply wrap_small. lia.
    - apply wrap_small. lia.
    - intros p pc E. destruct (Hnp p pc E) as [o ->]. apply entry_ok.
    - intros p q pc1 pc2 i E1 E2 H1. destruct (Hnp p pc1 E1) as [o ->]. destruct (entry_nohold o). congruence.
    - intros p q pc1 pc2 i E1 E2 H1. destruct (Hnp p pc1 E1) as [o ->]. destruct (entry_nohold o). congruence.
    - intros i Hi _. apply init_mark_le; assumption.
    - intros i Hi _. pose proof (init_mark_le i H0 HW Hi). lia.
    - intros p i v. unfold pushed. rewrite Hres. simpl. tauto.
    - intros p i v. unfold popped. rewrite Hres. simpl. tauto.
    - intros p. unfold pushed. rewrite Hres. constructor.
    - intros p. unfold popped. rewrite Hres. constructor.
  Qed.

  (* ---------------- reachability: ANY sequence of participant choices ---------------- *)
  Inductive mreach (st0 : mstate) : mstate -> Prop :=
  | mreach0 : mreach st0 st0
  | mreachS st p : mreach st0 st -> mreach st0 (fst (mpmc_step c st p)).

  Lemma step_mono st p : m_gt st <= m_gt (fst (mpmc_step c st p)) /\ m_gh st <= m_gh (fst (mpmc_step c st p)).
  Proof.
    unfold mpmc_step. destruct (t_pc (m_thr st p)) as [pc|]; [|simpl; lia].
    destruct pc; cbn [fst];
      repeat match goal with |- context [if ?b then _ else _] => destruct b end;
      unfold m_finish, m_goto, m_set_thr, m_set_mark, m_set_slot, m_claim_tail, m_claim_head; cbn [fst m_gt m_gh]; lia.
  Qed.

  Lemma mreach_inv scripts st : 0 <= s -> mreach (mpmc_init c s scripts) st -> nowrap st -> MInv st.
  Proof.
    intros H0 R. induction R as [|st p R IH]; intros NW.
    - apply init_inv; [exact H0|]. destruct NW as [A _]. exact A.
    - apply mpmc_step_inv; [|exact NW]. apply IH. destruct (step_mono st p). unfold nowrap in *. lia.
  Qed.

  Lemma e3step_reach st0 st p f : mreach st0 st -> mreach st0 (fst (mpmc_e3step c st p f)).
  Proof.
    intros R. unfold mpmc_e3step.
    destruct (mpmc_step c st p) as [st1 o] eqn:E1.
    assert (R1 : mreach st0 st1) by (replace st1 with (fst (mpmc_step c st p)) by (rewrite E1; reflexivity); constructor; exact R).
    destruct (t_pc (m_thr st1 p)) as [pc|]; [|exact R1].
    destruct (mpmc_silent pc); [|exact R1]. cbn [fst]. constructor. exact R1.
  Qed.

  (* ---------------- the properties ---------------- *)
  (* element i is stored: published by its producer and not yet released by a consumer *)
  Definition stored (st : mstate) (i : Z) : Prop :=
    s <= i < m_gt st /\ wfree st i /\ (m_gh st <= i \/ rbusy st i).

  Section Props.
    Variable scripts : list (list op).
    Hypothesis Hs0 : 0 <= s.
    Variable st : mstate.
    Hypothesis Hreach : mreach (mpmc_init c s scripts) st.
    Hypothesis Hnw : nowrap st.

    Lemma mpmc_popped_ok p i v : In (i, v) (popped st p) ->
      s <= i < m_gh st /\ i < m_gt st /\ v = m_gval st i /\ m_gpop st i = p.
    Proof. apply (mv_pop st (mreach_inv scripts st Hs0 Hreach Hnw)). Qed.

    Lemma mpmc_pushed_ok p i v : In (i, v) (pushed st p) ->
      s <= i < m_gt st /\ m_gval st i = v /\ m_gwho st i = p.
    Proof. apply (mv_push st (mreach_inv scripts st Hs0 Hreach Hnw)). Qed.

    (* at most once: an index is returned by at most one pop, of one thread *)
    Lemma mpmc_pop_unique p q i v w : In (i, v) (popped st p) -> In (i, w) (popped st q) -> p = q /\ v = w.
    Proof.
      intros H1 H2. destruct (mpmc_popped_ok _ _ _ H1) as (_ & _ & A & B). destruct (mpmc_popped_ok _ _ _ H2) as (_ & _ & C0 & D).
      split; congruence.
    Qed.

    (* at least once: every claimed index has been returned by its claimer, or the claimer is still inside that pop;
       same for the push side *)
    Lemma mpmc_nothing_lost i : s <= i < m_gh st ->
      In (i, m_gval st i) (popped st (m_gpop st i)) \/
      exists pc, t_pc (m_thr st (m_gpop st i)) = Some pc /\ rhold pc = Some i.
    Proof. apply (mv_rall st (mreach_inv scripts st Hs0 Hreach Hnw)). Qed.
    Lemma mpmc_push_accounted i : s <= i < m_gt st ->
      In (i, m_gval st i) (pushed st (m_gwho st i)) \/
      exists pc, t_pc (m_thr st (m_gwho st i)) = Some pc /\ whold pc = Some i.
    Proof. apply (mv_wall st (mreach_inv scripts st Hs0 Hreach Hnw)). Qed.

    (* order: each thread's completed pushes, and each thread's completed pops, have strictly increasing indices *)
    Lemma mpmc_fifo p : StronglySorted Z.lt (map fst (pushed st p)) /\ StronglySorted Z.lt (map fst (popped st p)).
    Proof. pose proof (mreach_inv scripts st Hs0 Hreach Hnw) as I. split; [apply (mv_psort st I)|apply (mv_csort st I)]. Qed.

    (* bounded / no overwrite: a stored element sits intact in its slot under its own turn mark, and two stored
       elements never share a slot (hence at most capacity elements are stored) *)
    Lemma mpmc_stored_intact i : stored st i ->
      m_mark st (i mod cap) = 2 * (i / cap) + 1 /\ m_slot st (i mod cap) = m_gval st i.
    Proof.
      pose proof (mreach_inv scripts st Hs0 Hreach Hnw) as I. intros (A & B & C0).
      pose proof (mv_wpub st I i A B). pose proof (mv_rund st I i ltac:(lia) C0).
      assert (E : m_mark st (i mod cap) = 2 * (i / cap) + 1) by lia.
      split; [exact E | apply (mv_data st I i A E)].
    Qed.
    Lemma mpmc_stored_distinct i j : stored st i -> stored st j -> i mod cap = j mod cap -> i = j.
    Proof.
      intros Hi Hj E. destruct (mpmc_stored_intact i Hi) as [A _]. destruct (mpmc_stored_intact j Hj) as [B _].
      rewrite E in A. apply (same_slot_eq cap i j Hcap0 E). lia.
    Qed.
  End Props.
End MPMC.

Example mpmc_reach_ex :
  let c := cfg_of 2 in
  let st0 := mpmc_init c 5 [[OPush 7; OSend 8]; [OPop; ORecv]] in
  let st := fst (mpmc_step c (fst (mpmc_step c (fst (mpmc_step c (fst (mpmc_step c st0 0%nat)) 0%nat)) 0%nat)) 1%nat) in
  mreach c st0 st /\ nowrap c st /\ m_gt st = 6.
Proof. cbv zeta. split; [repeat constructor | vm_compute; repeat split; reflexivity]. Qed.
