From Coq Require Import ZArith List.
From PV Require Import Base.U64 E3.E3_Run C07.C07_Model C07.C07_SPSC_Model C07.C07_MPMC_Model C07.C07_Batch_Model.
Lemma placeholder : True. Proof. exact I. Qed.
