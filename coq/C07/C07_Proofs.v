(* C07_Proofs.v — collects the proof files of C07 (target of the check's coq_make). *)
From PV Require Import Base.U64 E3.E3_Run C07.C07_Model C07.C07_Arith C07.C07_Lists.
From PV Require Import C07.C07_SPSC_Model C07.C07_MPMC_Model C07.C07_Batch_Model.
From PV Require Export C07.C07_SPSC_Proofs.
From PV Require Export C07.C07_MPMC_Proofs.
From PV Require Export C07.C07_Chan_Proofs.
From PV Require Export C07.C07_Chan_Inv.
From PV Require Export C07.C07_Chan_InvS.
From PV Require Export C07.C07_Batch_Proofs.
