(* C07_Chan_InvS.v — no lost wake-up for the RingChannel protocol model, SENDER side (a producer blocked on a full
   queue in send_sem.wait): the mirror image of C07_Chan_Inv.v.  Roles: free slots instead of elements, the epoch is
   "since the queue last stopped being full", consumers that popped in the epoch and have not finished
   notify_senders are the checkers (K), send_waiters = B+A+D+N, send_pending = T+D+S (T = tokens in send_sem). *)
From Coq Require Import ZArith Lia List Bool Arith.
From PV Require Import Base.U64 E3.E3_Run C07.C07_Model C07.C07_Lists C07.C07_Chan_Model C07.C07_Chan_Proofs C07.C07_Chan_Inv.
Import ListNotations.
Local Open Scope Z_scope.

Definition jB (pc : cpc) := match pc with CSSemWait _ => true | _ => false end.
Definition jA (pc : cpc) := match pc with CSPush2 _ _ | CSYield _ _ => true | _ => false end.
Definition jD (pc : cpc) := match pc with CSSpDec _ => true | _ => false end.
Definition jN (pc : cpc) := match pc with CSSwDec _ => true | _ => false end.
Definition jS (pc : cpc) := match pc with CNSignal _ _ => true | _ => false end.
Definition jK (pc : cpc) :=
  match pc with CNLdSw _ _ | CNLdSp _ _ _ | CNLdFresh _ _ _ _ | CNCasSp _ _ _ _ => true | _ => false end.
Definition vK (st : cstate) (p : nat) : Z :=
  match t_pc (c_thr st p) with Some pc => b2z (jK pc && (c_tfep st p =? c_fepoch st)) | None => 0 end.
Lemma vK_range st p : 0 <= vK st p <= 1.
Proof. unfold vK. destruct (t_pc (c_thr st p)); [|lia]. destruct (_ && _); simpl; lia. Qed.

Section ChanInvS.
  Variables (n : nat) (cap Y : Z).
  Hypothesis Hn : Z.of_nat n + 1 < W64.
  Hypothesis Hcap : 0 <= cap.

  Definition tB st := sumn n (wi jB st).
  Definition tA st := sumn n (wi jA st).
  Definition tD st := sumn n (wi jD st).
  Definition tN st := sumn n (wi jN st).
  Definition tS st := sumn n (wi jS st).
  Definition tK st := sumn n (vK st).

  Definition qlen (st : cstate) : Z := Z.of_nat (length (c_q st)).
  Definition room (st : cstate) : Prop := qlen st < cap.
  Definition incurS (st : cstate) (p : nat) : Prop := c_tfep st p = c_fepoch st /\ room st.

  Definition locS (st : cstate) (p : nat) (pc : cpc) : Prop :=
    match pc with
    | CNLdSp v dec cw => 0 <= cw <= Z.of_nat n /\ (incurS st p -> tB st + tD st <= cw)
    | CNCasSp v dec cw sp => 0 <= cw <= Z.of_nat n /\ 0 <= sp < cw /\ (incurS st p -> tB st + tD st <= cw)
    | CNLdFresh v dec cw sp => 0 <= cw <= Z.of_nat n /\ 0 <= sp /\ (incurS st p -> tB st <= c_ssem st + tS st)
    | _ => True
    end.

  Record SInvS (st : cstate) : Prop := mkSInvS {
    si_out : forall p, (n <= p)%nat -> t_pc (c_thr st p) = None;
    si_T : 0 <= c_ssem st;
    si_sw : c_swait st = tB st + tA st + tD st + tN st;
    si_sp : c_spend st = c_ssem st + tD st + tS st;
    si_spb : c_spend st <= Z.of_nat n;
    si_len : qlen st <= cap;
    si_tfep : forall p, c_tfep st p <= c_fepoch st;
    si_loc : forall p pc, t_pc (c_thr st p) = Some pc -> locS st p pc;
    si_G : room st -> cap - qlen st <= c_ssem st + tS st + tA st + tD st + tK st \/ tB st <= c_ssem st + tS st;
  }.

  Lemma sumsS_nonneg st : 0 <= tB st /\ 0 <= tA st /\ 0 <= tD st /\ 0 <= tN st /\ 0 <= tS st /\ 0 <= tK st.
  Proof.
    repeat split; apply sumn_nonneg; intros p; unfold wi; first [apply (proj1 (ob_nonneg _ _)) | apply (proj1 (vK_range _ _))].
  Qed.

  Lemma RS_le_n st : tB st + tA st + tD st + tN st <= Z.of_nat n.
  Proof.
    unfold tB, tA, tD, tN. rewrite <- !sumn_add. apply sumn_le_n. intros p. unfold wi.
    destruct (t_pc (c_thr st p)) as [pc|]; simpl; [|lia]. destruct pc; simpl; lia.
  Qed.

  Lemma wi_sumS i st st' p0 pc th' :
    (p0 < n)%nat -> t_pc (c_thr st p0) = Some pc -> c_thr st' = upd (c_thr st) p0 th' ->
    sumn n (wi i st') = sumn n (wi i st) - b2z (i pc) + ob i (t_pc th').
  Proof.
    intros Hp Epc Et. rewrite (sumn_upd n (wi i st) (wi i st') p0 Hp).
    - unfold wi at 2 3. rewrite Epc, Et, upd_same. reflexivity.
    - intros p N. unfold wi. rewrite Et, upd_other by exact N. reflexivity.
  Qed.

  Lemma plain_sumsS st st' p0 pc th' :
    (p0 < n)%nat -> t_pc (c_thr st p0) = Some pc ->
    c_thr st' = upd (c_thr st) p0 th' -> c_tfep st' = c_tfep st -> c_fepoch st' = c_fepoch st ->
    tB st' = tB st - b2z (jB pc) + ob jB (t_pc th') /\
    tA st' = tA st - b2z (jA pc) + ob jA (t_pc th') /\
    tD st' = tD st - b2z (jD pc) + ob jD (t_pc th') /\
    tN st' = tN st - b2z (jN pc) + ob jN (t_pc th') /\
    tS st' = tS st - b2z (jS pc) + ob jS (t_pc th') /\
    tK st' = tK st - b2z (jK pc && (c_tfep st p0 =? c_fepoch st))
             + match t_pc th' with Some pc' => b2z (jK pc' && (c_tfep st p0 =? c_fepoch st)) | None => 0 end.
  Proof.
    intros Hp Epc Et Ep Ee.
    repeat split; try (apply (wi_sumS _ st st' p0 pc th' Hp Epc Et)).
    unfold tK. rewrite (sumn_upd n (vK st) (vK st') p0 Hp).
    - unfold vK at 2 3. rewrite Epc, Et, Ep, Ee, upd_same. reflexivity.
    - intros p N. unfold vK. rewrite Et, Ep, Ee, upd_other by exact N. reflexivity.
  Qed.

  Lemma finS_ob (th : thr cpc) r i : (forall o, i (chan_entry o) = false) -> ob i (t_pc (thr_finish chan_entry th r)) = 0.
  Proof. intros H. unfold thr_finish. destruct (t_pc th), (t_ops th); simpl; rewrite ?H; reflexivity. Qed.
  Lemma fin_objB th r : ob jB (t_pc (thr_finish chan_entry th r)) = 0. Proof. apply finS_ob; intros o; destruct o; reflexivity. Qed.
  Lemma fin_objA th r : ob jA (t_pc (thr_finish chan_entry th r)) = 0. Proof. apply finS_ob; intros o; destruct o; reflexivity. Qed.
  Lemma fin_objD th r : ob jD (t_pc (thr_finish chan_entry th r)) = 0. Proof. apply finS_ob; intros o; destruct o; reflexivity. Qed.
  Lemma fin_objN th r : ob jN (t_pc (thr_finish chan_entry th r)) = 0. Proof. apply finS_ob; intros o; destruct o; reflexivity. Qed.
  Lemma fin_objS th r : ob jS (t_pc (thr_finish chan_entry th r)) = 0. Proof. apply finS_ob; intros o; destruct o; reflexivity. Qed.
  Lemma fin_jK (th : thr cpc) r (c : bool) :
    match t_pc (thr_finish chan_entry th r) with Some pc' => b2z (jK pc' && c) | None => 0 end = 0.
  Proof. unfold thr_finish. destruct (t_ops th) as [|o l]; simpl; [reflexivity|]. destruct o; reflexivity. Qed.
  Lemma finS_pc (th : thr cpc) r pc : t_pc (thr_finish chan_entry th r) = Some pc -> exists o, pc = chan_entry o.
  Proof. unfold thr_finish. destruct (t_ops th); simpl; intros E; [discriminate|]. inversion E. eauto. Qed.

  Lemma locS_frame st st' p pc :
    c_tfep st' p = c_tfep st p ->
    (incurS st' p -> incurS st p /\ tB st' + tD st' <= tB st + tD st /\
                     tB st' - c_ssem st' - tS st' <= tB st - c_ssem st - tS st) ->
    locS st p pc -> locS st' p pc.
  Proof. intros Et H K. destruct pc; simpl in *; try exact K; intuition lia. Qed.

  Lemma plain_invS st st' p0 pc th' :
    SInvS st -> (p0 < n)%nat -> t_pc (c_thr st p0) = Some pc ->
    c_thr st' = upd (c_thr st) p0 th' -> c_tfep st' = c_tfep st -> c_fepoch st' = c_fepoch st ->
    (room st' -> room st) ->
    0 <= c_ssem st' ->
    c_swait st' = tB st' + tA st' + tD st' + tN st' ->
    c_spend st' = c_ssem st' + tD st' + tS st' ->
    c_spend st' <= Z.of_nat n ->
    qlen st' <= cap ->
    (room st' -> tB st' + tD st' <= tB st + tD st /\
                 tB st' - c_ssem st' - tS st' <= tB st - c_ssem st - tS st) ->
    (forall pc', t_pc th' = Some pc' -> locS st' p0 pc') ->
    (room st' -> cap - qlen st' <= c_ssem st' + tS st' + tA st' + tD st' + tK st' \/ tB st' <= c_ssem st' + tS st') ->
    SInvS st'.
  Proof.
    intros I Hp Epc Et Ep Ee Hq HT Hsw Hsp Hspb Hlen Hmono Hloc HG.
    constructor; try assumption.
    - intros p Hge. rewrite Et, upd_other by lia. apply (si_out st I p Hge).
    - intros p. rewrite Ep, Ee. apply (si_tfep st I).
    - intros p pc1 E. destruct (Nat.eq_dec p p0) as [->|N].
      + rewrite Et, upd_same in E. apply Hloc; exact E.
      + rewrite Et, upd_other in E by exact N. apply (locS_frame st st'); [rewrite Ep; reflexivity | | apply (si_loc st I p pc1 E)].
        intros [A B]. split; [|apply Hmono; exact B]. split; [rewrite <- Ee, <- Ep; exact A | apply Hq; exact B].
  Qed.

  (* a successful pop by p0 (old pc outside every class, new pc = CNLdSw in class K) *)
  Lemma pop_invS st p0 pc x r dec :
    SInvS st -> (p0 < n)%nat -> t_pc (c_thr st p0) = Some pc -> c_q st = x :: r ->
    jB pc = false -> jA pc = false -> jD pc = false -> jN pc = false -> jS pc = false -> jK pc = false ->
    SInvS (c_goto (c_pop st cap p0 r) p0 (CNLdSw x dec)).
  Proof.
    intros I Hp Epc Eq0 HB HA HD HN HS HK.
    remember (c_goto (c_pop st cap p0 r) p0 (CNLdSw x dec)) as st' eqn:Est.
    pose proof (f_equal c_thr Est) as Et. cbn in Et.
    assert (EB : tB st' = tB st) by (unfold tB; rewrite (wi_sumS jB st st' p0 pc _ Hp Epc Et); cbn [thr_goto t_pc ob]; rewrite HB; simpl; lia).
    assert (EA : tA st' = tA st) by (unfold tA; rewrite (wi_sumS jA st st' p0 pc _ Hp Epc Et); cbn [thr_goto t_pc ob]; rewrite HA; simpl; lia).
    assert (ED : tD st' = tD st) by (unfold tD; rewrite (wi_sumS jD st st' p0 pc _ Hp Epc Et); cbn [thr_goto t_pc ob]; rewrite HD; simpl; lia).
    assert (EN : tN st' = tN st) by (unfold tN; rewrite (wi_sumS jN st st' p0 pc _ Hp Epc Et); cbn [thr_goto t_pc ob]; rewrite HN; simpl; lia).
    assert (ES : tS st' = tS st) by (unfold tS; rewrite (wi_sumS jS st st' p0 pc _ Hp Epc Et); cbn [thr_goto t_pc ob]; rewrite HS; simpl; lia).
    set (e := if cap <=? Z.of_nat (length (c_q st)) then c_fepoch st + 1 else c_fepoch st).
    assert (Eep : c_fepoch st' = e) by (rewrite Est; reflexivity).
    assert (Etp : c_tfep st' = upd (c_tfep st) p0 e) by (rewrite Est; reflexivity).
    assert (Eq : c_q st' = r) by (rewrite Est; reflexivity).
    assert (Eqs : c_ssem st' = c_ssem st) by (rewrite Est; reflexivity).
    assert (Esw : c_swait st' = c_swait st) by (rewrite Est; reflexivity).
    assert (Esp : c_spend st' = c_spend st) by (rewrite Est; reflexivity).
    assert (Hql : qlen st = qlen st' + 1) by (unfold qlen; rewrite Eq, Eq0; simpl length; lia).
    assert (He : c_fepoch st <= e) by (unfold e; destruct (cap <=? _); lia).
    assert (WKp : vK st' p0 = 1).
    { unfold vK. rewrite Et, upd_same. cbn [thr_goto t_pc jK]. rewrite Etp, upd_same, Eep, Z.eqb_refl. reflexivity. }
    assert (EK1 : 1 <= tK st').
    { rewrite <- WKp. unfold tK. apply sumn_ge_term; [exact Hp | intros q; apply vK_range]. }
    assert (EK2 : room st -> tK st' = tK st + 1).
    { intros Hr. assert (Ee : e = c_fepoch st).
      { unfold e. unfold room, qlen in Hr. destruct (Z.leb_spec cap (Z.of_nat (length (c_q st)))); [lia|reflexivity]. }
      unfold tK. rewrite (sumn_upd n (vK st) (vK st') p0 Hp).
      - rewrite WKp. unfold vK at 2. rewrite Epc, HK. simpl. lia.
      - intros q N. unfold vK. rewrite Et, Etp, Eep, Ee, !upd_other by exact N. reflexivity. }
    pose proof (sumsS_nonneg st) as (PB & PA & PD & PN & PS & PK).
    destruct I as [Iout IT Isw Isp Ispb Ilen Itep Iloc IG].
    constructor.
    - intros q Hge. rewrite Et, upd_other by lia. apply Iout; exact Hge.
    - lia.
    - lia.
    - lia.
    - lia.
    - lia.
    - intros q. rewrite Etp, Eep. destruct (Nat.eq_dec q p0) as [->|N]; [rewrite upd_same; lia | rewrite upd_other by exact N; specialize (Itep q); lia].
    - intros q pcq E. destruct (Nat.eq_dec q p0) as [->|N].
      + rewrite Et, upd_same in E. cbn in E. inversion E; subst pcq. exact Logic.I.
      + rewrite Et, upd_other in E by exact N. apply (locS_frame st st'); [rewrite Etp, upd_other by exact N; reflexivity | | apply (Iloc q pcq E)].
        intros [A _]. rewrite Etp, upd_other, Eep in A by exact N.
        unfold e in A. destruct (Z.leb_spec cap (Z.of_nat (length (c_q st)))).
        * exfalso. specialize (Itep q). lia.
        * split; [split; [exact A | unfold room, qlen; lia]|]. lia.
    - intros _. destruct (Z_lt_dec (qlen st) cap) as [Hr|Hf].
      + specialize (EK2 Hr). destruct (IG Hr) as [G1|G2]; [left|right]; lia.
      + left. lia.
  Qed.

  Ltac plainS st p I Hp Epc :=
    cbn [fst];
    match goal with |- SInvS ?s' =>
      let st' := fresh "st'" in let Est := fresh "Est" in remember s' as st' eqn:Est;
      let Fq := fresh "Fq" in let Fqs := fresh "Fqs" in let Fsw := fresh "Fsw" in let Fsp := fresh "Fsp" in
      pose proof (f_equal c_q Est) as Fq; cbn in Fq;
      pose proof (f_equal c_ssem Est) as Fqs; cbn in Fqs;
      pose proof (f_equal c_swait Est) as Fsw; cbn in Fsw;
      pose proof (f_equal c_spend Est) as Fsp; cbn in Fsp;
      let EB := fresh "EB" in let EA := fresh "EA" in let ED := fresh "ED" in
      let EN := fresh "EN" in let ES := fresh "ES" in let EK := fresh "EK" in
      destruct (plain_sumsS st st' p _ _ Hp Epc (f_equal c_thr Est) (f_equal c_tfep Est) (f_equal c_fepoch Est)) as (EB & EA & ED & EN & ES & EK);
      try rewrite fin_objB in EB; try rewrite fin_objA in EA; try rewrite fin_objD in ED; try rewrite fin_objN in EN;
      try rewrite fin_objS in ES; try rewrite fin_jK in EK;
      cbn [thr_goto t_pc ob] in EB, EA, ED, EN, ES, EK;
      cbn [jB jA jD jN jS jK b2z andb] in EB, EA, ED, EN, ES, EK;
      let QB := fresh "QB" in let QA := fresh "QA" in let QD := fresh "QD" in
      let QN := fresh "QN" in let QS := fresh "QS" in let QK := fresh "QK" in let QR := fresh "QR" in
      pose proof (sumsS_nonneg st') as (QB & QA & QD & QN & QS & QK); pose proof (RS_le_n st') as QR;
      apply (plain_invS st st' p _ _ I Hp Epc (f_equal c_thr Est) (f_equal c_tfep Est) (f_equal c_fepoch Est));
      unfold room, qlen in *; rewrite ?Fq, ?Fqs, ?Fsw, ?Fsp; rewrite ?app_length, ?Nat2Z.inj_add; simpl length
    end.

  Ltac finS HG :=
    try lia; try (intros; lia); auto;
    try (let pc' := fresh "pc'" in let E' := fresh "E'" in
         match goal with |- forall pc0, t_pc _ = Some pc0 -> _ => idtac end;
         intros pc' E'; cbn [thr_goto t_pc] in E';
         first [ apply finS_pc in E'; destruct E' as [? ->]; match goal with |- locS _ _ (chan_entry ?o) => destruct o; exact Logic.I end
               | inversion E'; subst; cbn [locS]; try exact Logic.I ]);
    try (let Hne := fresh "Hne" in intros Hne; specialize (HG Hne); lia).

  Lemma chan_step_invS st p f : SInvS st -> SInvS (fst (chan_step cap Y st p f)).
  Proof.
    intros I. unfold chan_step. destruct (t_pc (c_thr st p)) as [pc|] eqn:Epc; [|exact I].
    assert (Hp : (p < n)%nat).
    { destruct (lt_dec p n); [assumption|]. rewrite (si_out st I p) in Epc by lia. discriminate. }
    pose proof (sumsS_nonneg st) as (PB & PA & PD & PN & PS & PK).
    pose proof (RS_le_n st) as HR.
    pose proof (si_T st I) as HT. pose proof (si_sw st I) as Hsw. pose proof (si_sp st I) as Hsp.
    pose proof (si_loc st I p pc Epc) as Hl. pose proof (si_G st I) as HG. pose proof (si_spb st I) as Hspb.
    pose proof (si_len st I) as Hlen.
    assert (Hbz : 0 <= b2z (c_tfep st p =? c_fepoch st) <= 1) by (destruct (c_tfep st p =? c_fepoch st); simpl; lia).
    unfold room, qlen in HG, Hlen.
    destruct pc; cbn [locS] in Hl.
    - (* CSPush1 *) destruct (Z.leb_spec cap (Z.of_nat (length (c_q st)))); plainS st p I Hp Epc; finS HG.
    - (* CSSwInc *) rewrite (wrap_small (c_swait st + 1)) by lia. plainS st p I Hp Epc; finS HG.
    - (* CSPush2 *) destruct (Z.leb_spec cap (Z.of_nat (length (c_q st)))).
      + destruct (0 <? yt); plainS st p I Hp Epc; finS HG.
      + plainS st p I Hp Epc; finS HG.
    - (* CSYield *) plainS st p I Hp Epc; finS HG.
    - (* CSSemWait *) destruct (Z.ltb_spec 0 (c_ssem st)); [|destruct (Nat.eqb f 1); [|exact I]]; plainS st p I Hp Epc; finS HG.
    - (* CSSpDec *)
      assert (H1 : 1 <= tD st) by (unfold tD; replace 1 with (wi jD st p) by (unfold wi; rewrite Epc; reflexivity); apply sumn_ge_term; [exact Hp | intros q; apply ob_nonneg]).
      rewrite (wrap_small (c_spend st - 1)) by lia. plainS st p I Hp Epc; finS HG.
    - (* CSSwDec *)
      assert (H1 : 1 <= tN st) by (unfold tN; replace 1 with (wi jN st p) by (unfold wi; rewrite Epc; reflexivity); apply sumn_ge_term; [exact Hp | intros q; apply ob_nonneg]).
      rewrite (wrap_small (c_swait st - 1)) by lia. plainS st p I Hp Epc; finS HG.
    - (* CSLdIdler *) destruct (c_idler st =? 0); plainS st p I Hp Epc; finS HG.
    - (* CSLdPend *) unfold send_loop. destruct (cur <=? c_pending st); plainS st p I Hp Epc; finS HG.
    - (* CSLdFresh *) unfold send_loop. destruct (c_idler st <=? cur); [|destruct (c_idler st <=? pd)]; plainS st p I Hp Epc; finS HG.
    - (* CSCasPend *) unfold send_loop. destruct (c_pending st =? pd); [|destruct (cur <=? c_pending st)]; plainS st p I Hp Epc; finS HG.
    - (* CSSignal *) plainS st p I Hp Epc; finS HG.
    - (* CRPop1 *) destruct (c_q st) as [|x r] eqn:Eq.
      + plainS st p I Hp Epc; rewrite ?Eq; simpl length in *; finS HG.
      + cbn [fst]. apply (pop_invS st p _ x r false I Hp Epc Eq); reflexivity.
    - (* CRYield0 *) plainS st p I Hp Epc; finS HG.
    - (* CRIdInc *) plainS st p I Hp Epc; finS HG.
    - (* CRPop2 *) destruct (c_q st) as [|x r] eqn:Eq.
      + destruct (0 <? yt); plainS st p I Hp Epc; rewrite ?Eq; simpl length in *; finS HG.
      + cbn [fst]. apply (pop_invS st p _ x r true I Hp Epc Eq); reflexivity.
    - (* CRYield *) plainS st p I Hp Epc; finS HG.
    - (* CRSemWait *) destruct (0 <? c_qsem st); [|destruct (Nat.eqb f 1); [|exact I]]; plainS st p I Hp Epc; finS HG.
    - (* CRPdDec *) plainS st p I Hp Epc; finS HG.
    - (* CRIdDec *) plainS st p I Hp Epc; finS HG.
    - (* CNLdSw *) unfold recv_done. destruct (Z.eqb_spec (c_swait st) 0) as [E0|N0].
      + destruct dec; plainS st p I Hp Epc; finS HG.
      + plainS st p I Hp Epc; finS HG. split; [lia|]. intros _. lia.
    - (* CNLdSp *) destruct Hl as [Hc Hin]. unfold notify_loop. destruct (Z.leb_spec cw (c_spend st)).
      + plainS st p I Hp Epc; finS HG. repeat split; try lia. intros Hi. specialize (Hin Hi). lia.
      + plainS st p I Hp Epc; finS HG. repeat split; try lia. intros Hi. specialize (Hin Hi). lia.
    - (* CNLdFresh *) destruct Hl as (Hc & Hpd & Hin). unfold recv_done. destruct (Z.leb_spec (c_swait st) cw).
      + destruct dec; plainS st p I Hp Epc; finS HG; intros Hne;
          (destruct (Z.eqb_spec (c_tfep st p) (c_fepoch st)) as [Ee|Ne]; simpl in EK;
           [right; specialize (Hin (conj Ee Hne)); lia | specialize (HG Hne); lia]).
      + unfold notify_loop. destruct (Z.leb_spec (c_swait st) sp).
        * plainS st p I Hp Epc; finS HG. repeat split; try lia. intros Hi. specialize (Hin Hi). lia.
        * plainS st p I Hp Epc; finS HG. repeat split; try lia.
    - (* CNCasSp *) destruct Hl as (Hc & Hpd & Hin). destruct (Z.eqb_spec (c_spend st) sp) as [Eo|No].
      + rewrite (wrap_small (sp + 1)) by lia. plainS st p I Hp Epc; finS HG.
      + unfold notify_loop. destruct (Z.leb_spec cw (c_spend st)).
        * plainS st p I Hp Epc; finS HG. repeat split; try lia. intros Hi. specialize (Hin Hi). lia.
        * plainS st p I Hp Epc; finS HG. repeat split; try lia. intros Hi. specialize (Hin Hi). lia.
    - (* CNSignal *) unfold recv_done. destruct dec; plainS st p I Hp Epc; finS HG.
  Qed.

  Lemma sumn_zeroS w : (forall p, (p < n)%nat -> w p = 0) -> sumn n w = 0.
  Proof. intros H. rewrite (sumn_ext n (fun _ => 0) w) by exact H. clear. induction n; simpl; lia. Qed.

  Lemma init_invS scripts : length scripts = n -> SInvS (chan_init scripts).
  Proof.
    intros Hl.
    assert (Hpc : forall p, ob jB (t_pc (c_thr (chan_init scripts) p)) = 0 /\ ob jA (t_pc (c_thr (chan_init scripts) p)) = 0 /\
                            ob jD (t_pc (c_thr (chan_init scripts) p)) = 0 /\ ob jN (t_pc (c_thr (chan_init scripts) p)) = 0 /\
                            ob jS (t_pc (c_thr (chan_init scripts) p)) = 0 /\ vK (chan_init scripts) p = 0).
    { intros p. unfold vK. simpl. unfold thr_init. destruct (nth p scripts []) as [|o r]; simpl; [repeat split; reflexivity|].
      destruct o; repeat split; reflexivity. }
    assert (Z0s : tB (chan_init scripts) = 0 /\ tA (chan_init scripts) = 0 /\ tD (chan_init scripts) = 0 /\
                  tN (chan_init scripts) = 0 /\ tS (chan_init scripts) = 0 /\ tK (chan_init scripts) = 0).
    { repeat split; apply sumn_zeroS; intros p _; unfold wi; apply Hpc. }
    destruct Z0s as (A1 & A2 & A3 & A4 & A5 & A6).
    constructor; unfold room, qlen; rewrite ?A1, ?A2, ?A3, ?A4, ?A5, ?A6; simpl; try lia.
    - intros p Hge. unfold thr_init. rewrite nth_overflow by lia. reflexivity.
    - intros p pc E. unfold thr_init in E. destruct (nth p scripts []) as [|o r]; simpl in E; [discriminate|]. inversion E. destruct o; exact Logic.I.
  Qed.

  Lemma creach_invS scripts st : length scripts = n -> creach cap Y (chan_init scripts) st -> SInvS st.
  Proof. intros Hl R. induction R; [apply init_invS; exact Hl | apply chan_step_invS; exact IHR]. Qed.

  Lemma inv_no_lost_wakeup_send st : SInvS st -> lost_wakeup_send cap n st = false.
  Proof.
    intros I. destruct (lost_wakeup_send cap n st) eqn:E; [exfalso|reflexivity].
    unfold lost_wakeup_send in E. rewrite !andb_true_iff in E. destruct E as (((Eq & ET) & Eex) & Eall).
    rewrite forallb_forall in Eall. apply existsb_exists in Eex. destruct Eex as (pb & Hpb & Eb).
    apply in_seq in Hpb.
    assert (Hcl : forall p, (p < n)%nat -> wi jA st p = 0 /\ wi jD st p = 0 /\ wi jS st p = 0 /\ vK st p = 0).
    { intros p Hp. specialize (Eall p ltac:(apply in_seq; lia)). unfold thr_state in Eall. unfold wi, vK.
      destruct (t_pc (c_thr st p)) as [pc|]; [|repeat split; reflexivity].
      destruct pc; simpl in Eall; try discriminate; repeat split; reflexivity. }
    assert (ZA : tA st = 0) by (apply sumn_zeroS; intros p Hp; apply Hcl; exact Hp).
    assert (ZD : tD st = 0) by (apply sumn_zeroS; intros p Hp; apply Hcl; exact Hp).
    assert (ZS : tS st = 0) by (apply sumn_zeroS; intros p Hp; apply Hcl; exact Hp).
    assert (ZK : tK st = 0) by (apply sumn_zeroS; intros p Hp; apply Hcl; exact Hp).
    assert (HB : 1 <= tB st).
    { unfold thr_state in Eb. replace 1 with (wi jB st pb).
      - apply sumn_ge_term; [lia | intros q; apply ob_nonneg].
      - unfold wi. destruct (t_pc (c_thr st pb)) as [pc|]; [|discriminate]. destruct pc; try discriminate. reflexivity. }
    apply Z.eqb_eq in ET. apply Z.ltb_lt in Eq.
    destruct (si_G st I Eq) as [G1|G2]; unfold qlen in *; lia.
  Qed.
End ChanInvS.

(* RingChannel, sender side: in every reachable state it is NOT the case that the queue has room, send_sem holds no
   token, some sender is blocked in send_sem.wait and every participant inside an operation is such a blocked sender. *)
Theorem chan_no_lost_wakeup_send cap Y scripts st :
  0 <= cap -> Z.of_nat (length scripts) + 1 < W64 ->
  creach cap Y (chan_init scripts) st -> lost_wakeup_send cap (length scripts) st = false.
Proof.
  intros Hc Hn R. eapply inv_no_lost_wakeup_send. eapply creach_invS; [exact Hn | exact Hc | reflexivity | exact R].
Qed.

(* the full statement of C07_Chan_Proofs *)
Theorem chan_no_lost_wakeup_full : forall cap Y scripts st,
  0 <= cap -> Z.of_nat (length scripts) + 1 < W64 -> creach cap Y (chan_init scripts) st ->
  lost_wakeup_recv (length scripts) st = false /\ lost_wakeup_send cap (length scripts) st = false.
Proof.
  intros cap Y scripts st Hc Hn R. split; [apply (chan_no_lost_wakeup_recv cap Y scripts st Hn R) | apply (chan_no_lost_wakeup_send cap Y scripts st Hc Hn R)].
Qed.

Example chan_send_blocked_ex :
  let st0 := chan_init [[OSend 1; OSend 2; OSend 3]; [ORecv]] in
  let st := fst (chan_step 2 0 (fst (chan_step 2 0 (fst (chan_step 2 0 (fst (chan_step 2 0 (fst (chan_step 2 0 (fst (chan_step 2 0
             (fst (chan_step 2 0 (fst (chan_step 2 0 st0 0 0)) 0 0)) 0 0)) 0 0)) 0 0)) 0 0)) 0 0)) 0 0) in
  creach 2 0 st0 st /\ t_pc (c_thr st 0%nat) = Some (CSSemWait 3) /\ c_swait st = 1.
Proof. cbv zeta. split; [repeat constructor | vm_compute; split; reflexivity]. Qed.
