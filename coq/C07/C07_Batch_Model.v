(* C07_Batch_Model.v — LockfreeBatchMPMCRingQueue (lockfree_queue.h 308-390): push_batch /
   pop_batch (push = push_batch(&x,1), pop = pop_batch(&x,1)) with ordered publication through
   write_head / head.  tail = write claim frontier, write_head = write publication frontier,
   read_tail = read claim frontier, head = read publication frontier.
   Logged transition per atomic operation; the memcpy in/out of the ring is a SILENT transition. *)
From Coq Require Import ZArith List Bool Arith.
From PV Require Import Base.U64 E3.E3_Run C07.C07_Model.
Import ListNotations.
Local Open Scope Z_scope.

Inductive bpc :=
| BPushLdT (one : bool) (vs : list Z)             (* 334  wt = tail.load(acquire)                                *)
| BPushLdH (one : bool) (vs : list Z) (wt : Z)    (* 336-338  rh = head.load; wn = min(n, cap-(wt-rh)); 0 ? ret  *)
| BPushCasT (one : bool) (vs : list Z) (wt wn : Z)(* 339  tail.compare_exchange_strong(wt, wt+wn)                *)
| BPushWr (one : bool) (vs : list Z) (wt wn i : Z)(* 342-351  memcpy into the ring            (silent)           *)
| BPushCasW (one : bool) (wt wn i : Z) (ws : list Z)   (* 352-355  while(!write_head.CAS(wh = wt, wt+wn)) wh = wt *)
| BPopLdRT (one : bool) (n : Z)                   (* 364  rt = read_tail.load(acquire)                           *)
| BPopLdWH (one : bool) (n rt : Z)                (* 366-368  wh = write_head.load; rn = min(n, wh-rt); 0 ? ret  *)
| BPopCasRT (one : bool) (n rt rn : Z)            (* 369  read_tail.compare_exchange_strong(rt, rt+rn)           *)
| BPopRd (one : bool) (rt rn i : Z)               (* 372-381  memcpy out of the ring          (silent)           *)
| BPopCasH (one : bool) (rt rn i : Z) (vs : list Z).   (* 382-385  while(!head.CAS(rh = rt, rt+rn)) rh = rt       *)

Definition batch_entry (o : op) : bpc :=
  match o with
  | OPush v | OSend v => BPushLdT true [v]
  | OPop | ORecv => BPopLdRT true 1
  | OPushB vs => BPushLdT false vs
  | OPopB n => BPopLdRT false n
  end.

Record bstate := mkB {
  b_head : Z; b_tail : Z; b_whead : Z; b_rtail : Z;
  b_slot : Z -> Z;
  b_gt : Z; b_grt : Z;               (* GHOST absolute tail (write claims) / read_tail (read claims) *)
  b_gval : Z -> Z; b_gwho : Z -> nat;
  b_thr : nat -> thr bpc }.

Definition b_set_thr (st : bstate) (p : nat) (th : thr bpc) : bstate :=
  mkB (b_head st) (b_tail st) (b_whead st) (b_rtail st) (b_slot st) (b_gt st) (b_grt st) (b_gval st) (b_gwho st) (upd (b_thr st) p th).
Definition b_goto st p pc := b_set_thr st p (thr_goto (b_thr st p) pc).
Definition b_finish st p r := b_set_thr st p (thr_finish batch_entry (b_thr st p) r).

Fixpoint gwrite {A} (g : Z -> A) (i : Z) (xs : list A) : Z -> A :=
  match xs with [] => g | x :: r => gwrite (updZ g i x) (i + 1) r end.

Definition batch_step (c : cfg) (st : bstate) (p : nat) : bstate * obs :=
  match t_pc (b_thr st p) with
  | None => (st, ob_none)
  | Some pc =>
    match pc with
    | BPushLdT one vs => (b_goto st p (BPushLdH one vs (b_tail st)), ob_ld A_TAIL (-1) (b_tail st))
    | BPushLdH one vs wt =>
        let rh := b_head st in
        let wn := zmin (Z.of_nat (length vs)) (wrap (c_cap c - wrap (wt - rh))) in
        if wn =? 0 then (b_finish st p (if one then RPushFail else RPushB (b_gt st) []), ob_ld A_HEAD (-1) rh)
        else (b_goto st p (BPushCasT one vs wt wn), ob_ld A_HEAD (-1) rh)
    | BPushCasT one vs wt wn =>
        let cur := b_tail st in
        let nt := wrap (wt + wn) in
        if cur =? wt then
          let ws := firstn (Z.to_nat wn) vs in
          let i := b_gt st in
          (b_goto (mkB (b_head st) nt (b_whead st) (b_rtail st) (b_slot st) (i + wn) (b_grt st)
                       (gwrite (b_gval st) i ws) (gwrite (b_gwho st) i (map (fun _ => p) ws)) (b_thr st))
                  p (BPushWr one vs wt wn i), ob_cas A_TAIL (-1) wt nt cur true)
        else (b_goto st p (BPushLdH one vs cur), ob_cas A_TAIL (-1) wt nt cur false)
    | BPushWr one vs wt wn i =>
        let ws := firstn (Z.to_nat wn) vs in
        (b_goto (mkB (b_head st) (b_tail st) (b_whead st) (b_rtail st) (ring_write c (b_slot st) wt ws)
                     (b_gt st) (b_grt st) (b_gval st) (b_gwho st) (b_thr st))
                p (BPushCasW one wt wn i ws), ob_none)
    | BPushCasW one wt wn i ws =>
        let cur := b_whead st in
        let nw := wrap (wt + wn) in
        if cur =? wt then
          (b_finish (mkB (b_head st) (b_tail st) nw (b_rtail st) (b_slot st) (b_gt st) (b_grt st) (b_gval st) (b_gwho st) (b_thr st))
                    p (if one then RPushOk i (hd 0 ws) else RPushB i ws), ob_cas A_WHEAD (-1) wt nw cur true)
        else (st, ob_cas A_WHEAD (-1) wt nw cur false)
    | BPopLdRT one n => (b_goto st p (BPopLdWH one n (b_rtail st)), ob_ld A_RTAIL (-1) (b_rtail st))
    | BPopLdWH one n rt =>
        let wh := b_whead st in
        let rn := zmin n (wrap (wh - rt)) in
        if rn =? 0 then (b_finish st p (if one then RPopFail else RPopB (b_grt st) []), ob_ld A_WHEAD (-1) wh)
        else (b_goto st p (BPopCasRT one n rt rn), ob_ld A_WHEAD (-1) wh)
    | BPopCasRT one n rt rn =>
        let cur := b_rtail st in
        let nr := wrap (rt + rn) in
        if cur =? rt then
          (b_goto (mkB (b_head st) (b_tail st) (b_whead st) nr (b_slot st) (b_gt st) (b_grt st + rn) (b_gval st) (b_gwho st) (b_thr st))
                  p (BPopRd one rt rn (b_grt st)), ob_cas A_RTAIL (-1) rt nr cur true)
        else (b_goto st p (BPopLdWH one n cur), ob_cas A_RTAIL (-1) rt nr cur false)
    | BPopRd one rt rn i =>
        (b_goto st p (BPopCasH one rt rn i (ring_read c (b_slot st) rt (Z.to_nat rn))), ob_none)
    | BPopCasH one rt rn i vs =>
        let cur := b_head st in
        let nh := wrap (rt + rn) in
        if cur =? rt then
          (b_finish (mkB nh (b_tail st) (b_whead st) (b_rtail st) (b_slot st) (b_gt st) (b_grt st) (b_gval st) (b_gwho st) (b_thr st))
                    p (if one then RPopOk i (hd 0 vs) else RPopB i vs), ob_cas A_HEAD (-1) rt nh cur true)
        else (st, ob_cas A_HEAD (-1) rt nh cur false)
    end
  end.

Definition batch_silent (pc : bpc) : bool :=
  match pc with BPushWr _ _ _ _ _ | BPopRd _ _ _ _ => true | _ => false end.

Definition batch_e3step (c : cfg) (st : bstate) (p : nat) (_ : nat) : bstate * obs :=
  let '(st1, o) := batch_step c st p in
  match t_pc (b_thr st1 p) with
  | Some pc => if batch_silent pc then (fst (batch_step c st1 p), o) else (st1, o)
  | None => (st1, o)
  end.

Definition batch_fin (st : bstate) (p : nat) : bool :=
  match t_pc (b_thr st p) with None => true | Some _ => false end.

Definition batch_init (start : Z) (scripts : list (list op)) : bstate :=
  mkB (wrap start) (wrap start) (wrap start) (wrap start) (fun _ => 0) start start (fun _ => 0) (fun _ => O)
      (fun p => thr_init batch_entry (nth p scripts [])).

Definition batch_run (c : cfg) (bound : nat) (sched : list nat) (start : Z) (scripts : list (list op)) :=
  e3_run (batch_e3step c) batch_fin (length scripts) bound sched (pred (length scripts)) (batch_init start scripts) [].
