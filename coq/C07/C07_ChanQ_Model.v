(* C07_ChanQ_Model.v — the PRODUCT of the RingChannel protocol model (C07_Chan_Model.v) with the fine-grained MPMC ring
   queue model (C07_MPMC_Model.v): send/recv/notify_senders exactly as in chan_step, but `push_fn(x)` / `pop(x)` at the four
   call sites (659, 664, 779, 790) are the CAS-variant push / pop of LockfreeMPMCRingQueue executed one atomic operation at a
   time (mpmc_step), interleaved with everything else.  Proof-level model only (not extracted, not replayed): it exists to
   state and prove that the channel theorems, proved over an ATOMIC FIFO, hold for the channel over the real queue algorithm
   (C07_ChanQ_Proofs.v).  x_c: protocol variables, semaphores and the protocol program points (its c_q and ghost epochs are
   not used); x_m: the queue (its thread table holds the program point inside the current push/pop of each participant). *)
From Coq Require Import ZArith List Bool Arith.
From PV Require Import Base.U64 E3.E3_Run C07.C07_Model C07.C07_MPMC_Model C07.C07_Chan_Model.
Import ListNotations.
Local Open Scope Z_scope.

Record xstate := mkX { x_c : cstate; x_m : mstate }.

(* the program points of the protocol that are calls of the queue, and where such a call starts *)
Definition is_site (pc : cpc) : bool :=
  match pc with CSPush1 _ | CSPush2 _ _ | CRPop1 | CRPop2 _ => true | _ => false end.
Definition site_entry (pc : cpc) : option mpc :=
  match pc with
  | CSPush1 v | CSPush2 v _ => Some (MPushLdT v)
  | CRPop1 | CRPop2 _ => Some MPopLdH
  | _ => None
  end.

(* participant p arrives at a call site: its queue thread starts the call *)
Definition arm (cst : cstate) (mst : mstate) (p : nat) : mstate :=
  match t_pc (c_thr cst p) with
  | Some pc => match site_entry pc with
               | Some e => m_set_thr mst p (mkThr (Some e) [] (t_res (m_thr mst p)))
               | None => mst
               end
  | None => mst
  end.

(* the protocol continues after the call returned r: the branch structure of chan_step at the four call sites *)
Definition after_call (cst : cstate) (p : nat) (pc : cpc) (r : res) : cstate :=
  match pc with
  | CSPush1 v => match r with RPushOk _ _ => c_goto cst p (CSLdIdler v) | _ => c_goto cst p (CSSwInc v) end
  | CSPush2 v yt => match r with
                    | RPushOk _ _ => c_goto cst p (CSSwDec v)
                    | _ => c_goto cst p (if 0 <? yt then CSYield v (yt - 1) else CSSemWait v)
                    end
  | CRPop1 => match r with RPopOk _ v => c_goto cst p (CNLdSw v false) | _ => c_goto cst p CRYield0 end
  | CRPop2 yt => match r with
                 | RPopOk _ v => c_goto cst p (CNLdSw v true)
                 | _ => c_goto cst p (if 0 <? yt then CRYield (yt - 1) else CRSemWait)
                 end
  | _ => cst
  end.

Definition x_step (c : cfg) (Y : Z) (st : xstate) (p : nat) (f : nat) : xstate :=
  match t_pc (c_thr (x_c st) p) with
  | None => st
  | Some pc =>
    if is_site pc then
      let mst' := fst (mpmc_step c (x_m st) p) in
      match t_pc (m_thr mst' p) with
      | Some _ => mkX (x_c st) mst'                                  (* still inside the call *)
      | None =>                                                       (* the call returned *)
          let cst' := after_call (x_c st) p pc (hd RPopFail (t_res (m_thr mst' p))) in
          mkX cst' (arm cst' mst' p)
      end
    else
      let cst' := fst (chan_step (c_cap c) Y (x_c st) p f) in
      mkX cst' (arm cst' (x_m st) p)
  end.

Fixpoint x_run (c : cfg) (Y : Z) (st : xstate) (sched : list (nat * nat)) : xstate :=
  match sched with [] => st | (p, f) :: r => x_run c Y (x_step c Y st p f) r end.

(* first queue call of a participant *)
Definition first_qop (ops : list op) : list op :=
  match ops with
  | [] => []
  | (OPush v | OSend v) :: _ => [OPush v]
  | OPushB vs :: _ => [OPush (hd 0 vs)]
  | (OPop | ORecv | OPopB _) :: _ => [OPop]
  end.

Definition x_init (c : cfg) (start : Z) (scripts : list (list op)) : xstate :=
  mkX (chan_init scripts) (mpmc_init c start (map first_qop scripts)).
