(* C07_Chan_Inv.v — no lost wake-up for the RingChannel protocol model (C07_Chan_Model.v), consumer side:
   an inductive invariant over chan_step for ANY number n of participants, any scripts, any schedule and any
   choice of semaphore time-outs.
   Idea.  Counters over the participants: B blocked in queue_sem.wait, A registered and about to pop, D woken and
   about to decrement `pending`, N registered with an element in hand, S about to signal, K producers that pushed
   in the current EPOCH (= since the queue last became non-empty) and have not finished their idler/pending check.
     idler = B+A+D+N,   pending = T+D+S   (T = tokens in queue_sem),
     G:  queue non-empty ->  |q| <= T+S+A+D+K   \/   B <= T+S.
   While the queue stays non-empty nobody newly blocks, so B+D and B-T-S never grow; a producer of the epoch that
   loaded cur = idler after its push has B+D <= cur for the rest of the epoch, so when it sees pending >= cur it
   knows B <= T+S, which then persists; if it sees idler = 0 then B = 0.  At quiescence S=A=D=K=0, hence T >= 1. *)
From Coq Require Import ZArith Lia List Bool Arith.
From PV Require Import Base.U64 E3.E3_Run C07.C07_Model C07.C07_Lists C07.C07_Chan_Model C07.C07_Chan_Proofs.
Import ListNotations.
Local Open Scope Z_scope.

(* ---- finite sums over participants 0..n-1 ---- *)
Fixpoint sumn (n : nat) (w : nat -> Z) : Z := match n with O => 0 | S k => sumn k w + w k end.

Lemma sumn_ext n w w' : (forall p, (p < n)%nat -> w' p = w p) -> sumn n w' = sumn n w.
Proof. induction n; intros H; simpl; [reflexivity|]. rewrite IHn by (intros; apply H; lia). rewrite H by lia. reflexivity. Qed.

Lemma sumn_upd n w w' p0 : (p0 < n)%nat -> (forall p, p <> p0 -> w' p = w p) -> sumn n w' = sumn n w - w p0 + w' p0.
Proof.
  induction n; intros Hp H; [lia|]. simpl.
  destruct (Nat.eq_dec p0 n) as [->|N].
  - rewrite (sumn_ext n w w') by (intros; apply H; lia). lia.
  - rewrite IHn by (auto; lia). rewrite (H n) by auto. lia.
Qed.

Lemma sumn_nonneg n w : (forall p, 0 <= w p) -> 0 <= sumn n w.
Proof. intros H. induction n; simpl; [lia|]. specialize (H n). lia. Qed.

Lemma sumn_ge_term n w p0 : (p0 < n)%nat -> (forall p, 0 <= w p) -> w p0 <= sumn n w.
Proof.
  induction n; intros Hp H; [lia|]. simpl. destruct (Nat.eq_dec p0 n) as [->|N].
  - pose proof (sumn_nonneg n w H). lia.
  - specialize (IHn ltac:(lia) H). specialize (H n). lia.
Qed.

Lemma sumn_le_n n w : (forall p, w p <= 1) -> sumn n w <= Z.of_nat n.
Proof. intros H. induction n; simpl; [lia|]. specialize (H n). lia. Qed.

Lemma sumn_add n w1 w2 : sumn n (fun p => w1 p + w2 p) = sumn n w1 + sumn n w2.
Proof. induction n; simpl; lia. Qed.

Definition b2z (b : bool) : Z := if b then 1 else 0.

(* ---- classes of program points (consumer side of the handshake) ---- *)
Definition iB (pc : cpc) := match pc with CRSemWait => true | _ => false end.
Definition iA (pc : cpc) := match pc with CRPop2 _ | CRYield _ => true | _ => false end.
Definition iD (pc : cpc) := match pc with CRPdDec => true | _ => false end.
Definition iN (pc : cpc) :=
  match pc with
  | CRIdDec _ => true
  | CNLdSw _ d | CNLdSp _ d _ | CNLdFresh _ d _ _ | CNCasSp _ d _ _ | CNSignal _ d => d
  | _ => false
  end.
Definition iS (pc : cpc) := match pc with CSSignal _ => true | _ => false end.
Definition iK (pc : cpc) :=
  match pc with CSSwDec _ | CSLdIdler _ | CSLdPend _ _ | CSLdFresh _ _ _ | CSCasPend _ _ _ => true | _ => false end.

Definition ob (i : cpc -> bool) (o : option cpc) : Z := match o with Some pc => b2z (i pc) | None => 0 end.
Definition wi (i : cpc -> bool) (st : cstate) (p : nat) : Z := ob i (t_pc (c_thr st p)).
Definition wK (st : cstate) (p : nat) : Z :=
  match t_pc (c_thr st p) with Some pc => b2z (iK pc && (c_tep st p =? c_epoch st)) | None => 0 end.

Lemma ob_nonneg i o : 0 <= ob i o <= 1.
Proof. destruct o as [pc|]; simpl; [destruct (i pc); simpl; lia | lia]. Qed.
Lemma wK_range st p : 0 <= wK st p <= 1.
Proof. unfold wK. destruct (t_pc (c_thr st p)); [|lia]. destruct (_ && _); simpl; lia. Qed.

Section ChanInv.
  Variables (n : nat) (cap Y : Z).
  Hypothesis Hn : Z.of_nat n + 1 < W64.       (* fewer than 2^64 - 1 participants: idler never wraps *)

  Definition sB st := sumn n (wi iB st).
  Definition sA st := sumn n (wi iA st).
  Definition sD st := sumn n (wi iD st).
  Definition sN st := sumn n (wi iN st).
  Definition sS st := sumn n (wi iS st).
  Definition sK st := sumn n (wK st).

  Definition incur (st : cstate) (p : nat) : Prop := c_tep st p = c_epoch st /\ c_q st <> [].

  Definition loc_ok (st : cstate) (p : nat) (pc : cpc) : Prop :=
    match pc with
    | CSLdPend v cur => 0 <= cur <= Z.of_nat n /\ (incur st p -> sB st + sD st <= cur)
    | CSCasPend v cur pd => 0 <= cur <= Z.of_nat n /\ 0 <= pd < cur /\ (incur st p -> sB st + sD st <= cur)
    | CSLdFresh v cur pd => 0 <= cur <= Z.of_nat n /\ 0 <= pd /\ (incur st p -> sB st <= c_qsem st + sS st)
    | _ => True
    end.

  Record CInv (st : cstate) : Prop := mkCInv {
    ci_out : forall p, (n <= p)%nat -> t_pc (c_thr st p) = None;
    ci_T : 0 <= c_qsem st;
    ci_idler : c_idler st = sB st + sA st + sD st + sN st;
    ci_pend : c_pending st = c_qsem st + sD st + sS st;
    ci_pb : c_pending st <= Z.of_nat n;
    ci_tep : forall p, c_tep st p <= c_epoch st;
    ci_loc : forall p pc, t_pc (c_thr st p) = Some pc -> loc_ok st p pc;
    ci_G : c_q st <> [] ->
           Z.of_nat (length (c_q st)) <= c_qsem st + sS st + sA st + sD st + sK st \/ sB st <= c_qsem st + sS st;
  }.

  Lemma sums_nonneg st : 0 <= sB st /\ 0 <= sA st /\ 0 <= sD st /\ 0 <= sN st /\ 0 <= sS st /\ 0 <= sK st.
  Proof.
    repeat split; apply sumn_nonneg; intros p; unfold wi; first [apply (proj1 (ob_nonneg _ _)) | apply (proj1 (wK_range _ _))].
  Qed.

  Lemma R_le_n st : sB st + sA st + sD st + sN st <= Z.of_nat n.
  Proof.
    unfold sB, sA, sD, sN. rewrite <- !sumn_add. apply sumn_le_n. intros p. unfold wi.
    destruct (t_pc (c_thr st p)) as [pc|]; simpl; [|lia]. destruct pc; simpl; try lia; destruct dec; simpl; lia.
  Qed.

  (* the six counters after a step that replaces the thread record of p0 and keeps the ghost epochs *)
  Lemma plain_sums st st' p0 pc th' :
    (p0 < n)%nat -> t_pc (c_thr st p0) = Some pc ->
    c_thr st' = upd (c_thr st) p0 th' -> c_tep st' = c_tep st -> c_epoch st' = c_epoch st ->
    sB st' = sB st - b2z (iB pc) + ob iB (t_pc th') /\
    sA st' = sA st - b2z (iA pc) + ob iA (t_pc th') /\
    sD st' = sD st - b2z (iD pc) + ob iD (t_pc th') /\
    sN st' = sN st - b2z (iN pc) + ob iN (t_pc th') /\
    sS st' = sS st - b2z (iS pc) + ob iS (t_pc th') /\
    sK st' = sK st - b2z (iK pc && (c_tep st p0 =? c_epoch st))
             + match t_pc th' with Some pc' => b2z (iK pc' && (c_tep st p0 =? c_epoch st)) | None => 0 end.
  Proof.
    intros Hp Epc Et Ep Ee.
    assert (X : forall i, sumn n (wi i st') = sumn n (wi i st) - b2z (i pc) + ob i (t_pc th')).
    { intros i. rewrite (sumn_upd n (wi i st) (wi i st') p0 Hp).
      - unfold wi at 2 3. rewrite Epc, Et, upd_same. reflexivity.
      - intros p N. unfold wi. rewrite Et, upd_other by exact N. reflexivity. }
    repeat split; try apply X.
    unfold sK. rewrite (sumn_upd n (wK st) (wK st') p0 Hp).
    - unfold wK at 2 3. rewrite Epc, Et, Ep, Ee, upd_same. reflexivity.
    - intros p N. unfold wK. rewrite Et, Ep, Ee, upd_other by exact N. reflexivity.
  Qed.

  Lemma entry_class o : iB (chan_entry o) = false /\ iA (chan_entry o) = false /\ iD (chan_entry o) = false /\
                        iN (chan_entry o) = false /\ iS (chan_entry o) = false /\ iK (chan_entry o) = false.
  Proof. destruct o; repeat split; reflexivity. Qed.

  Lemma fin_ob (th : thr cpc) r i :
    (forall o, i (chan_entry o) = false) -> ob i (t_pc (thr_finish chan_entry th r)) = 0.
  Proof. intros H. unfold thr_finish. destruct (t_pc th), (t_ops th); simpl; rewrite ?H; reflexivity. Qed.

  Lemma fin_pc (th : thr cpc) r pc : t_pc (thr_finish chan_entry th r) = Some pc -> exists o, pc = chan_entry o.
  Proof. unfold thr_finish. destruct (t_ops th); simpl; intros E; [discriminate|]. inversion E. eauto. Qed.

  Lemma fin_K (th : thr cpc) r (c : bool) :
    match t_pc (thr_finish chan_entry th r) with Some pc' => b2z (iK pc' && c) | None => 0 end = 0.
  Proof. unfold thr_finish. destruct (t_ops th) as [|o l]; simpl; [reflexivity|]. destruct o; reflexivity. Qed.

  Lemma loc_frame st st' p pc :
    c_tep st' p = c_tep st p ->
    (incur st' p -> incur st p /\ sB st' + sD st' <= sB st + sD st /\
                    sB st' - c_qsem st' - sS st' <= sB st - c_qsem st - sS st) ->
    loc_ok st p pc -> loc_ok st' p pc.
  Proof. intros Et H K. destruct pc; simpl in *; try exact K; intuition lia. Qed.

  (* generic preservation for a step of p0 that keeps the ghost epochs *)
  Lemma plain_inv st st' p0 pc th' :
    CInv st -> (p0 < n)%nat -> t_pc (c_thr st p0) = Some pc ->
    c_thr st' = upd (c_thr st) p0 th' -> c_tep st' = c_tep st -> c_epoch st' = c_epoch st ->
    (c_q st' <> [] -> c_q st <> []) ->
    0 <= c_qsem st' ->
    c_idler st' = sB st' + sA st' + sD st' + sN st' ->
    c_pending st' = c_qsem st' + sD st' + sS st' ->
    c_pending st' <= Z.of_nat n ->
    (c_q st' <> [] -> sB st' + sD st' <= sB st + sD st /\
                      sB st' - c_qsem st' - sS st' <= sB st - c_qsem st - sS st) ->
    (forall pc', t_pc th' = Some pc' -> loc_ok st' p0 pc') ->
    (c_q st' <> [] ->
       Z.of_nat (length (c_q st')) <= c_qsem st' + sS st' + sA st' + sD st' + sK st' \/ sB st' <= c_qsem st' + sS st') ->
    CInv st'.
  Proof.
    intros I Hp Epc Et Ep Ee Hq HT Hid Hpe Hpb Hmono Hloc HG.
    constructor; try assumption.
    - intros p Hge. rewrite Et, upd_other by lia. apply (ci_out st I p Hge).
    - intros p. rewrite Ep, Ee. apply (ci_tep st I).
    - intros p pc1 E. destruct (Nat.eq_dec p p0) as [->|N].
      + rewrite Et, upd_same in E. apply Hloc; exact E.
      + rewrite Et, upd_other in E by exact N. apply (loc_frame st st'); [rewrite Ep; reflexivity | | apply (ci_loc st I p pc1 E)].
        intros [A B]. split; [|apply Hmono; exact B]. split; [rewrite <- Ee, <- Ep; exact A | apply Hq; exact B].
  Qed.

  Lemma fin_obB th r : ob iB (t_pc (thr_finish chan_entry th r)) = 0. Proof. apply fin_ob; intros o; destruct o; reflexivity. Qed.
  Lemma fin_obA th r : ob iA (t_pc (thr_finish chan_entry th r)) = 0. Proof. apply fin_ob; intros o; destruct o; reflexivity. Qed.
  Lemma fin_obD th r : ob iD (t_pc (thr_finish chan_entry th r)) = 0. Proof. apply fin_ob; intros o; destruct o; reflexivity. Qed.
  Lemma fin_obN th r : ob iN (t_pc (thr_finish chan_entry th r)) = 0. Proof. apply fin_ob; intros o; destruct o; reflexivity. Qed.
  Lemma fin_obS th r : ob iS (t_pc (thr_finish chan_entry th r)) = 0. Proof. apply fin_ob; intros o; destruct o; reflexivity. Qed.

  (* set up a plain step: name the successor state, compute its fields and the six counters *)
  Ltac plain st p I Hp Epc :=
    cbn [fst];
    match goal with |- CInv ?s' =>
      let st' := fresh "st'" in let Est := fresh "Est" in remember s' as st' eqn:Est;
      let Fq := fresh "Fq" in let Fqs := fresh "Fqs" in let Fid := fresh "Fid" in let Fpe := fresh "Fpe" in
      pose proof (f_equal c_q Est) as Fq; cbn in Fq;
      pose proof (f_equal c_qsem Est) as Fqs; cbn in Fqs;
      pose proof (f_equal c_idler Est) as Fid; cbn in Fid;
      pose proof (f_equal c_pending Est) as Fpe; cbn in Fpe;
      let EB := fresh "EB" in let EA := fresh "EA" in let ED := fresh "ED" in
      let EN := fresh "EN" in let ES := fresh "ES" in let EK := fresh "EK" in
      destruct (plain_sums st st' p _ _ Hp Epc (f_equal c_thr Est) (f_equal c_tep Est) (f_equal c_epoch Est)) as (EB & EA & ED & EN & ES & EK);
      try rewrite fin_obB in EB; try rewrite fin_obA in EA; try rewrite fin_obD in ED; try rewrite fin_obN in EN;
      try rewrite fin_obS in ES; try rewrite fin_K in EK;
      cbn [thr_goto t_pc ob] in EB, EA, ED, EN, ES, EK;
      cbn [iB iA iD iN iS iK b2z andb] in EB, EA, ED, EN, ES, EK;
      let QB := fresh "QB" in let QA := fresh "QA" in let QD := fresh "QD" in
      let QN := fresh "QN" in let QS := fresh "QS" in let QK := fresh "QK" in let QR := fresh "QR" in
      pose proof (sums_nonneg st') as (QB & QA & QD & QN & QS & QK); pose proof (R_le_n st') as QR;
      apply (plain_inv st st' p _ _ I Hp Epc (f_equal c_thr Est) (f_equal c_tep Est) (f_equal c_epoch Est));
      rewrite ?Fq, ?Fqs, ?Fid, ?Fpe
    end.

  Lemma wi_sum i st st' p0 pc th' :
    (p0 < n)%nat -> t_pc (c_thr st p0) = Some pc -> c_thr st' = upd (c_thr st) p0 th' ->
    sumn n (wi i st') = sumn n (wi i st) - b2z (i pc) + ob i (t_pc th').
  Proof.
    intros Hp Epc Et. rewrite (sumn_upd n (wi i st) (wi i st') p0 Hp).
    - unfold wi at 2 3. rewrite Epc, Et, upd_same. reflexivity.
    - intros p N. unfold wi. rewrite Et, upd_other by exact N. reflexivity.
  Qed.

  (* a successful push by p0 (old pc outside every class, new pc in class K) *)
  Lemma push_inv st p0 pc pc' v :
    CInv st -> (p0 < n)%nat -> t_pc (c_thr st p0) = Some pc ->
    iB pc = false -> iA pc = false -> iD pc = false -> iN pc = false -> iS pc = false -> iK pc = false ->
    (pc' = CSLdIdler v \/ pc' = CSSwDec v) ->
    CInv (c_goto (c_push st p0 v) p0 pc').
  Proof.
    intros I Hp Epc HB HA HD HN HS HK Hpc'.
    remember (c_goto (c_push st p0 v) p0 pc') as st' eqn:Est.
    pose proof (f_equal c_thr Est) as Et. cbn in Et.
    assert (Cl : iB pc' = false /\ iA pc' = false /\ iD pc' = false /\ iN pc' = false /\ iS pc' = false /\ iK pc' = true)
      by (destruct Hpc' as [-> | ->]; repeat split; reflexivity).
    destruct Cl as (CB & CA & CD & CN & CS & CK).
    assert (EB : sB st' = sB st) by (unfold sB; rewrite (wi_sum iB st st' p0 pc _ Hp Epc Et); cbn [thr_goto t_pc ob]; rewrite HB, CB; simpl; lia).
    assert (EA : sA st' = sA st) by (unfold sA; rewrite (wi_sum iA st st' p0 pc _ Hp Epc Et); cbn [thr_goto t_pc ob]; rewrite HA, CA; simpl; lia).
    assert (ED : sD st' = sD st) by (unfold sD; rewrite (wi_sum iD st st' p0 pc _ Hp Epc Et); cbn [thr_goto t_pc ob]; rewrite HD, CD; simpl; lia).
    assert (EN : sN st' = sN st) by (unfold sN; rewrite (wi_sum iN st st' p0 pc _ Hp Epc Et); cbn [thr_goto t_pc ob]; rewrite HN, CN; simpl; lia).
    assert (ES : sS st' = sS st) by (unfold sS; rewrite (wi_sum iS st st' p0 pc _ Hp Epc Et); cbn [thr_goto t_pc ob]; rewrite HS, CS; simpl; lia).
    set (e := match c_q st with [] => c_epoch st + 1 | _ => c_epoch st end).
    assert (Eep : c_epoch st' = e) by (rewrite Est; reflexivity).
    assert (Etp : c_tep st' = upd (c_tep st) p0 e) by (rewrite Est; reflexivity).
    assert (Eq : c_q st' = c_q st ++ [v]) by (rewrite Est; reflexivity).
    assert (Eqs : c_qsem st' = c_qsem st) by (rewrite Est; reflexivity).
    assert (Eid : c_idler st' = c_idler st) by (rewrite Est; reflexivity).
    assert (Epe : c_pending st' = c_pending st) by (rewrite Est; reflexivity).
    assert (He : c_epoch st <= e) by (unfold e; destruct (c_q st); lia).
    assert (WKp : wK st' p0 = 1).
    { unfold wK. rewrite Et, upd_same. cbn [thr_goto t_pc]. rewrite CK, Etp, upd_same, Eep, Z.eqb_refl. reflexivity. }
    assert (EK1 : 1 <= sK st').
    { rewrite <- WKp. unfold sK. apply sumn_ge_term; [exact Hp | intros q; apply wK_range]. }
    assert (EK2 : c_q st <> [] -> sK st' = sK st + 1).
    { intros Hne. assert (Ee : e = c_epoch st) by (unfold e; destruct (c_q st); [contradiction|reflexivity]).
      unfold sK. rewrite (sumn_upd n (wK st) (wK st') p0 Hp).
      - rewrite WKp. unfold wK at 2. rewrite Epc, HK. simpl. lia.
      - intros q N. unfold wK. rewrite Et, Etp, Eep, Ee, !upd_other by exact N. reflexivity. }
    pose proof (sums_nonneg st) as (PB & PA & PD & PN & PS & PK).
    destruct I as [Iout IT Iid Ipe Ipb Itep Iloc IG].
    constructor.
    - intros q Hge. rewrite Et, upd_other by lia. apply Iout; exact Hge.
    - lia.
    - lia.
    - lia.
    - lia.
    - intros q. rewrite Etp, Eep. destruct (Nat.eq_dec q p0) as [->|N]; [rewrite upd_same; lia | rewrite upd_other by exact N; specialize (Itep q); lia].
    - intros q pcq E. destruct (Nat.eq_dec q p0) as [->|N].
      + rewrite Et, upd_same in E. cbn in E. inversion E; subst pcq. destruct Hpc' as [-> | ->]; exact Logic.I.
      + rewrite Et, upd_other in E by exact N. apply (loc_frame st st'); [rewrite Etp, upd_other by exact N; reflexivity | | apply (Iloc q pcq E)].
        intros [A _]. rewrite Etp, upd_other, Eep in A by exact N.
        destruct (c_q st) eqn:Eq0.
        * exfalso. unfold e in A. specialize (Itep q). lia.
        * unfold e in A. split; [split; [exact A | rewrite Eq0; discriminate]|]. lia.
    - intros _. rewrite Eq, app_length. simpl length. rewrite Nat2Z.inj_add. simpl Z.of_nat.
      destruct (c_q st) eqn:Eq0.
      + left. simpl. lia.
      + assert (Hne : z :: l <> []) by discriminate. specialize (EK2 Hne). destruct (IG Hne) as [G1|G2]; [left|right]; lia.
  Qed.

  Ltac fin HG :=
    try lia; try (intros; lia); auto;
    try (let pc' := fresh "pc'" in let E' := fresh "E'" in
         match goal with |- forall pc0, t_pc _ = Some pc0 -> _ => idtac end;
         intros pc' E'; cbn [thr_goto t_pc] in E';
         first [ apply fin_pc in E'; destruct E' as [? ->]; match goal with |- loc_ok _ _ (chan_entry ?o) => destruct o; exact Logic.I end
               | inversion E'; subst; cbn [loc_ok]; try exact Logic.I ]);
    try (let Hne := fresh "Hne" in intros Hne; specialize (HG Hne); lia).

  Lemma chan_step_inv st p f : CInv st -> CInv (fst (chan_step cap Y st p f)).
  Proof.
    intros I. unfold chan_step. destruct (t_pc (c_thr st p)) as [pc|] eqn:Epc; [|exact I].
    assert (Hp : (p < n)%nat).
    { destruct (lt_dec p n); [assumption|]. rewrite (ci_out st I p) in Epc by lia. discriminate. }
    pose proof (sums_nonneg st) as (PB & PA & PD & PN & PS & PK).
    pose proof (R_le_n st) as HR.
    pose proof (ci_T st I) as HT. pose proof (ci_idler st I) as Hid. pose proof (ci_pend st I) as Hpe.
    pose proof (ci_loc st I p pc Epc) as Hl. pose proof (ci_G st I) as HG. pose proof (ci_pb st I) as Hpb.
    assert (Hbz : 0 <= b2z (c_tep st p =? c_epoch st) <= 1) by (destruct (c_tep st p =? c_epoch st); simpl; lia).
    destruct pc; cbn [loc_ok] in Hl.
    - (* CSPush1 *) destruct (cap <=? Z.of_nat (length (c_q st))).
      + plain st p I Hp Epc; fin HG.
      + cbn [fst]. apply (push_inv st p _ _ v I Hp Epc); auto.
    - (* CSSwInc *) plain st p I Hp Epc; fin HG.
    - (* CSPush2 *) destruct (cap <=? Z.of_nat (length (c_q st))).
      + destruct (0 <? yt); plain st p I Hp Epc; fin HG.
      + cbn [fst]. apply (push_inv st p _ _ v I Hp Epc); auto.
    - (* CSYield *) plain st p I Hp Epc; fin HG.
    - (* CSSemWait *) destruct (0 <? c_ssem st); [|destruct (Nat.eqb f 1); [|exact I]]; plain st p I Hp Epc; fin HG.
    - (* CSSpDec *) plain st p I Hp Epc; fin HG.
    - (* CSSwDec *) plain st p I Hp Epc; fin HG.
    - (* CSLdIdler *) destruct (Z.eqb_spec (c_idler st) 0) as [E0|N0].
      + plain st p I Hp Epc; fin HG.
      + plain st p I Hp Epc; fin HG. split; [lia|]. intros _. lia.
    - (* CSLdPend *) destruct Hl as [Hc Hin]. unfold send_loop. destruct (Z.leb_spec cur (c_pending st)).
      + plain st p I Hp Epc; fin HG. repeat split; try lia. intros Hi.
        specialize (Hin Hi). lia.
      + plain st p I Hp Epc; fin HG. repeat split; try lia. intros Hi.
        specialize (Hin Hi). lia.
    - (* CSLdFresh *) destruct Hl as (Hc & Hpd & Hin). destruct (Z.leb_spec (c_idler st) cur).
      + plain st p I Hp Epc; fin HG. intros Hne.
        destruct (Z.eqb_spec (c_tep st p) (c_epoch st)) as [Ee|Ne]; simpl in EK.
        * right. specialize (Hin (conj Ee Hne)). lia.
        * specialize (HG Hne). lia.
      + unfold send_loop. destruct (Z.leb_spec (c_idler st) pd).
        * plain st p I Hp Epc; fin HG. repeat split; try lia. intros Hi. specialize (Hin Hi). lia.
        * plain st p I Hp Epc; fin HG. repeat split; try lia.
    - (* CSCasPend *) destruct Hl as (Hc & Hpd & Hin). destruct (Z.eqb_spec (c_pending st) pd) as [Eo|No].
      + rewrite (wrap_small (pd + 1)) by lia. plain st p I Hp Epc; fin HG.
      + unfold send_loop. destruct (Z.leb_spec cur (c_pending st)).
        * plain st p I Hp Epc; fin HG. repeat split; try lia. intros Hi. specialize (Hin Hi). lia.
        * plain st p I Hp Epc; fin HG. repeat split; try lia. intros Hi. specialize (Hin Hi). lia.
    - (* CSSignal *) plain st p I Hp Epc; fin HG.
    - (* CRPop1 *) destruct (c_q st) as [|x r] eqn:Eq.
      + plain st p I Hp Epc; fin HG; try (intros Hne; congruence).
      + plain st p I Hp Epc; fin HG; try (intros; rewrite Eq; discriminate).
        intros Hne. assert (Hx : x :: r <> []) by discriminate. specialize (HG Hx). simpl length in HG. rewrite Nat2Z.inj_succ in HG. lia.
    - (* CRYield0 *) plain st p I Hp Epc; fin HG.
    - (* CRIdInc *) rewrite (wrap_small (c_idler st + 1)) by lia. plain st p I Hp Epc; fin HG.
    - (* CRPop2 *) destruct (c_q st) as [|x r] eqn:Eq.
      + destruct (0 <? yt); plain st p I Hp Epc; fin HG; try (intros Hne; congruence).
      + plain st p I Hp Epc; fin HG; try (intros; rewrite Eq; discriminate).
        intros Hne. assert (Hx : x :: r <> []) by discriminate. specialize (HG Hx). simpl length in HG. rewrite Nat2Z.inj_succ in HG. lia.
    - (* CRYield *) plain st p I Hp Epc; fin HG.
    - (* CRSemWait *) destruct (Z.ltb_spec 0 (c_qsem st)); [|destruct (Nat.eqb f 1); [|exact I]]; plain st p I Hp Epc; fin HG.
    - (* CRPdDec *)
      assert (H1 : 1 <= sD st) by (unfold sD; replace 1 with (wi iD st p) by (unfold wi; rewrite Epc; reflexivity); apply sumn_ge_term; [exact Hp | intros q; apply ob_nonneg]).
      rewrite (wrap_small (c_pending st - 1)) by lia. plain st p I Hp Epc; fin HG.
    - (* CRIdDec *)
      assert (H1 : 1 <= sN st) by (unfold sN; replace 1 with (wi iN st p) by (unfold wi; rewrite Epc; reflexivity); apply sumn_ge_term; [exact Hp | intros q; apply ob_nonneg]).
      rewrite (wrap_small (c_idler st - 1)) by lia. plain st p I Hp Epc; fin HG.
    - (* CNLdSw *) unfold recv_done. destruct (c_swait st =? 0); destruct dec; plain st p I Hp Epc; fin HG.
    - (* CNLdSp *) unfold notify_loop. destruct (cw <=? c_spend st); destruct dec; plain st p I Hp Epc; fin HG.
    - (* CNLdFresh *) unfold recv_done, notify_loop. destruct (c_swait st <=? cw); [|destruct (c_swait st <=? sp)]; destruct dec; plain st p I Hp Epc; fin HG.
    - (* CNCasSp *) unfold notify_loop. destruct (c_spend st =? sp); [|destruct (cw <=? c_spend st)]; destruct dec; plain st p I Hp Epc; fin HG.
    - (* CNSignal *) unfold recv_done. destruct dec; plain st p I Hp Epc; fin HG.
  Qed.

  Lemma sumn_zero w : (forall p, (p < n)%nat -> w p = 0) -> sumn n w = 0.
  Proof. intros H. rewrite (sumn_ext n (fun _ => 0) w) by exact H. clear. induction n; simpl; lia. Qed.

  Lemma init_inv scripts : length scripts = n -> CInv (chan_init scripts).
  Proof.
    intros Hl.
    assert (Hpc : forall p, ob iB (t_pc (c_thr (chan_init scripts) p)) = 0 /\ ob iA (t_pc (c_thr (chan_init scripts) p)) = 0 /\
                            ob iD (t_pc (c_thr (chan_init scripts) p)) = 0 /\ ob iN (t_pc (c_thr (chan_init scripts) p)) = 0 /\
                            ob iS (t_pc (c_thr (chan_init scripts) p)) = 0 /\ wK (chan_init scripts) p = 0).
    { intros p. unfold wK. simpl. unfold thr_init. destruct (nth p scripts []) as [|o r]; simpl; [repeat split; reflexivity|].
      destruct o; repeat split; reflexivity. }
    assert (Z0s : sB (chan_init scripts) = 0 /\ sA (chan_init scripts) = 0 /\ sD (chan_init scripts) = 0 /\
                  sN (chan_init scripts) = 0 /\ sS (chan_init scripts) = 0 /\ sK (chan_init scripts) = 0).
    { repeat split; apply sumn_zero; intros p _; unfold wi; apply Hpc. }
    destruct Z0s as (A1 & A2 & A3 & A4 & A5 & A6).
    constructor; rewrite ?A1, ?A2, ?A3, ?A4, ?A5, ?A6; simpl; try lia.
    - intros p Hge. unfold thr_init. rewrite nth_overflow by lia. reflexivity.
    - intros p pc E. unfold thr_init in E. destruct (nth p scripts []) as [|o r]; simpl in E; [discriminate|]. inversion E. destruct o; exact Logic.I.
  Qed.

  Lemma creach_inv scripts st : length scripts = n -> creach cap Y (chan_init scripts) st -> CInv st.
  Proof. intros Hl R. induction R; [apply init_inv; exact Hl | apply chan_step_inv; exact IHR]. Qed.

  (* the property: an invariant state is never a lost wake-up for the consumers *)
  Lemma inv_no_lost_wakeup st : CInv st -> lost_wakeup_recv n st = false.
  Proof.
    intros I. destruct (lost_wakeup_recv n st) eqn:E; [exfalso|reflexivity].
    unfold lost_wakeup_recv in E. rewrite !andb_true_iff in E. destruct E as (((Eq & ET) & Eex) & Eall).
    rewrite forallb_forall in Eall. apply existsb_exists in Eex. destruct Eex as (pb & Hpb & Eb).
    apply in_seq in Hpb.
    assert (Hcl : forall p, (p < n)%nat -> wi iA st p = 0 /\ wi iD st p = 0 /\ wi iS st p = 0 /\ wK st p = 0).
    { intros p Hp. specialize (Eall p ltac:(apply in_seq; lia)). unfold thr_state in Eall. unfold wi, wK.
      destruct (t_pc (c_thr st p)) as [pc|]; [|repeat split; reflexivity].
      destruct pc; simpl in Eall; try discriminate; repeat split; reflexivity. }
    assert (ZA : sA st = 0) by (apply sumn_zero; intros p Hp; apply Hcl; exact Hp).
    assert (ZD : sD st = 0) by (apply sumn_zero; intros p Hp; apply Hcl; exact Hp).
    assert (ZS : sS st = 0) by (apply sumn_zero; intros p Hp; apply Hcl; exact Hp).
    assert (ZK : sK st = 0) by (apply sumn_zero; intros p Hp; apply Hcl; exact Hp).
    assert (HB : 1 <= sB st).
    { unfold thr_state in Eb. replace 1 with (wi iB st pb).
      - apply sumn_ge_term; [lia | intros q; apply ob_nonneg].
      - unfold wi. destruct (t_pc (c_thr st pb)) as [pc|]; [|discriminate]. destruct pc; try discriminate. reflexivity. }
    apply Z.eqb_eq in ET.
    assert (Hne : c_q st <> []) by (destruct (c_q st); [discriminate|discriminate]).
    destruct (ci_G st I Hne) as [G1|G2]; [|lia].
    destruct (c_q st); [contradiction|]. simpl length in G1. lia.
  Qed.
End ChanInv.

(* RingChannel, consumer side: in every reachable state of the protocol model — any number of participants, any
   scripts of sends and recvs, any interleaving, any pattern of semaphore time-outs — it is NOT the case that the
   queue is non-empty, queue_sem holds no token, some consumer is blocked in queue_sem.wait and every participant
   inside an operation is such a blocked consumer. *)
Theorem chan_no_lost_wakeup_recv cap Y scripts st :
  Z.of_nat (length scripts) + 1 < W64 ->
  creach cap Y (chan_init scripts) st -> lost_wakeup_recv (length scripts) st = false.
Proof.
  intros Hn R. apply inv_no_lost_wakeup. eapply creach_inv; [exact Hn | reflexivity | exact R].
Qed.

Example chan_reach_ex :
  let st := fst (chan_step 2 0 (fst (chan_step 2 0 (fst (chan_step 2 0 (fst (chan_step 2 0 (chan_init [[OSend 7]; [ORecv]]) 1 0)) 1 0)) 1 0)) 1 0) in
  creach 2 0 (chan_init [[OSend 7]; [ORecv]]) st /\ t_pc (c_thr st 1%nat) = Some CRSemWait /\ c_idler st = 1.
Proof. cbv zeta. split; [repeat constructor | vm_compute; split; reflexivity]. Qed.
